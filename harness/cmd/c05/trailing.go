package main

import (
	"fmt"
	"strings"

	"github.com/peterstace/simplefeatures/geom"
	"verifharness/lib"
)

// The malformed trailing stream (property C05: "rejects trailing tokens"; theorems
// wkt_trailing_rejected, wkt_trailing_text_rejected, wkt_lexical_error_rejected).
//
// A family of fragments is put behind complete, valid documents.  Every member holds at least one
// non-blank byte, so every combination must be rejected - whether the first thing behind the
// document is a token, a run of tokens, something text/scanner cannot lex at all, or a byte that
// is not text.  The family is built by class, not from examples: for numeric literals there is one
// group per error text/scanner can report in scanNumber (go1.23 text/scanner/scanner.go).

type frag struct {
	name, text string
	long       bool // kept out of the exhaustive product (cost) and of the model (quadratic list reversal)
	lexErr     bool // text/scanner reports an error on the fragment alone (self-classified at start-up)
}

var frags []frag

func addFrags(prefix string, texts ...string) {
	for _, t := range texts {
		frags = append(frags, frag{name: prefix + ":" + printable(t), text: t})
	}
}

func printable(s string) string {
	if len(s) > 24 {
		return fmt.Sprintf("%q...(%d bytes)", s[:8], len(s))
	}
	return fmt.Sprintf("%q", s)
}

func init() {
	// ---- well-formed tokens and token runs
	addFrags("tok", "x", "POINT", "EMPTY", "Z", "ZM", "_", "_1", "a1", "NaN", "Inf",
		"1", "0", "1.5", "-1", "1e5", "1E-5", ".5", "5.", "0.0", "1e+308", "1e999",
		"(", ")", ",", "()", "))", ",,", "( )", "POINT EMPTY", "POINT(1 2)", "GEOMETRYCOLLECTION EMPTY", ") POINT(1 2)",
		"-", "+", ".", "..", ";", "#", "@", "$", "=", "<", ">", "[", "]", "{", "}", "|", "~", "!", "%", "^", "&", "*", "?", ":")
	// numerals text/scanner accepts although strconv does not read them as decimal floats
	addFrags("oddnum", "010", "0x10", "0X1F", "0b101", "0o17", "1_000", "0x1p-2", "0x1.8p1", "0_7", "0x_1")
	// ---- quotes and comments.  wkt_lexer.go sets Mode = ScanInts|ScanFloats|ScanIdents: ScanStrings,
	// ScanRawStrings, ScanChars and ScanComments are OFF, so a quote and a slash are one-character
	// tokens and nothing is skipped as a comment.  "Trailing tokens are rejected" therefore covers a
	// trailing comment; unterminated ones included.
	addFrags("quote", "\"", "\"abc", "\"abc\"", "\"\\", "'", "'a'", "'a", "`", "`raw`", "`raw", "\\", "\\n", "\\\"")
	addFrags("comment", "/", "//", "// x", "//\n", "// x\n", "/*", "/* x", "/* x */", "/**/", "*/", "/* x */ POINT(1 2)", "--", "-- x", "# x")
	// ---- malformed numeric literals, one group per error message of text/scanner.scanNumber/digits
	addFrags("num_octal_digit", "08", "09", "0189", "00009", "0_9", "07.8e", "019e")     // invalid digit %q in octal literal
	addFrags("num_no_digits", "0x", "0X", "0b", "0B", "0o", "0O", "0x_", "0b_", "0x.p1") // %s literal has no digits
	addFrags("num_radix_digit", "0b2", "0b12", "0b102", "0o8", "0o18", "0o79")           // invalid digit %q in %s literal
	addFrags("num_radix_point", "0b1.0", "0o1.5", "0b.1", "0o7.")                        // invalid radix point in %s literal
	addFrags("num_exp_no_digits", "1e", "1E", "1e+", "1e-", "1E-", "1.5e", ".5e", "5.e", "0x1p", "0x1p+", "0x1P-", "1e_", "1e+_1")
	addFrags("num_exp_kind", "0b1e3", "0o7e1", "1p3", "1.5p1", "0x1.8", "0x.8", "0b1p1")                                  // %q exponent requires ... mantissa / requires a 'p' exponent
	addFrags("num_separator", "1__0", "1_", "1_.5", "1._5", "1.5_", "1_e5", "1e5_", "0x1__f", "0x1_p1", "0__1", "1_000_") // '_' must separate successive digits
	// ---- bytes that are not text: every control byte but \t \n \r (GoWhitespace), DEL; NUL alone,
	// NUL first, NUL between tokens (the C string terminator)
	for b := 0; b < 0x20; b++ {
		if b == '\t' || b == '\n' || b == '\r' {
			continue
		}
		addFrags("ctl", string([]byte{byte(b)}))
	}
	addFrags("ctl", "\x7f", "\x00 and more", "\x00\x00", "x\x00", "\x00)", "1\x00", ")\x00")
	// ---- invalid UTF-8: lone continuation bytes, overlong forms, truncated sequences, surrogates,
	// beyond U+10FFFF, bytes that never occur
	addFrags("utf8_invalid", "\x80", "\xbf", "\xc0\xaf", "\xc1\xbf", "\xc3", "\xc3\x28", "\xe2\x82", "\xe2\x28\xa1", "\xe0\x80\xaf",
		"\xf0\x9f\x98", "\xf0\x28\x8c\xbc", "\xf8\x88\x80\x80\x80", "\xed\xa0\x80", "\xf4\x90\x80\x80", "\xfe", "\xff", "\xff\xfe",
		"x\xff", "1\xff", ")\xff", "\xffPOINT EMPTY")
	// ---- valid non-ASCII text (tokens for text/scanner: letters join identifiers, the rest are characters)
	addFrags("unicode", "\u00e9", "\u00a0", "\ufeff", "\u0663", "\u2028", "\ufffd", "\U0001f600", "\u00e9t\u00e9", "x\u0301", "\uff08")
	// ---- long
	for _, l := range []struct {
		name, text string
	}{{"ident_1500", strings.Repeat("x", 1500)}, {"ident_20000", strings.Repeat("x", 20000)}, {"digits_5000", strings.Repeat("9", 5000)},
		{"parens_3000", strings.Repeat(")", 3000)}, {"bad_num_3000", "0" + strings.Repeat("8", 3000)},
		{"blanks_5000_x", strings.Repeat(" \n", 2500) + "x"}, {"blanks_5000_09", strings.Repeat("\t", 5000) + "09"}} {
		frags = append(frags, frag{name: "long:" + l.name, text: l.text, long: len(l.text) > 2000})
	}
	for i := range frags {
		frags[i].lexErr = anyLexError(frags[i].text)
	}
}

// what stands between the document and the fragment, and behind the fragment
var trailVariants = []struct{ sep, suffix string }{
	{" ", ""}, {"", ""}, {"\n\t", ""}, {" ", " LINESTRING(0 0,1 1)"}, {"\r\n", ")"},
}

func outcomeFlag(d string) byte {
	switch d {
	case "ERR":
		return 'E'
	case "PANIC":
		return 'P'
	}
	return 'A'
}

// trailLine emits one fully recorded case: the raw text, its model text where expressible, the
// results of UnmarshalWKT with NoValidate and with validation.
func (e *emitter) trailLine(id string, f frag, s string) {
	m, ok := toModel(s)
	switch {
	case !ok:
		m = "UNREP"
	case len(s) > 2600:
		m = "LONG"
	}
	var sh strings.Builder
	hexChars(&sh, clip(s, 600))
	e.nGarbage++
	e.line(id, "TG", f.name, sh.String(), m, parseDump(s), parseValidated(s))
}

// trailingRandom: k fragments drawn from the whole family (long ones included), random separator and suffix.
func (e *emitter) trailingRandom(id, text string, r *lib.Rng, k int) {
	for j := 0; j < k; j++ {
		f := frags[r.Intn(len(frags))]
		sep := []string{" ", "", "\n", "\t "}[r.Intn(4)]
		tail := f.text
		if r.Chance(1, 3) {
			tail += []string{" LINESTRING(0 0,1 1)", " )", " 1 2", "\n"}[r.Intn(4)]
		}
		e.trailLine(fmt.Sprintf("%s.g%d", id, j), f, text+sep+tail)
	}
}

// trailingExhaustive: every (short) fragment of the family, in every variant, behind text.  One TS
// line carries all outcomes (one flag per combination, fragment-major); a combination that is not
// rejected is recorded in full as a TG line as well (the first 8 per text), so that the failing
// input is on record.
// The validating UnmarshalWKT is run on the first variant of every fragment.
func (e *emitter) trailingExhaustive(id, text string) {
	validates := false
	if _, err := geom.UnmarshalWKT(text); err == nil {
		validates = true
	}
	nv := make([]byte, 0, len(frags)*len(trailVariants))
	vv := make([]byte, 0, len(frags)*len(trailVariants))
	k, recorded := 0, 0
	for _, f := range frags {
		if f.long {
			continue
		}
		for vi, v := range trailVariants {
			s := text + v.sep + f.text + v.suffix
			a := outcomeFlag(parseDump(s))
			b := byte('-')
			if validates && vi == 0 {
				b = outcomeFlag(parseValidated(s))
			}
			nv = append(nv, a)
			vv = append(vv, b)
			if (a != 'E' || (b != 'E' && b != '-')) && recorded < 8 {
				recorded++
				e.trailLine(fmt.Sprintf("%s.x%d.%d", id, k, vi), f, s)
			}
			e.nStream++
		}
		k++
	}
	var th strings.Builder
	hexChars(&th, text)
	e.line(id+".ts", "TS", th.String(), fmt.Sprint(len(trailVariants)), string(nv), string(vv))
	e.nStreamTexts++
}
