package main

import (
	"encoding/json"
	"fmt"
	"strings"

	"github.com/peterstace/simplefeatures/geom"
	"verifharness/lib"
)

// strings of the quantifier: ASCII, characters that JSON must escape, HTML-sensitive characters
// (encoding/json escapes them), multi-byte UTF-8, line separators.
var strPool = []string{"", "a", "name", "x y", "q\"uote", "back\\slash", "tab\there", "nl\nx", "<b>&amp;</b>", "ü", "日本", "  ", "😀", "\u0001\u001f", "\u007f", "Type", "TYPE", "bbox", "geometries", "coordinates", "features", "Id", "Z"}

func genStr(r *lib.Rng) string {
	if r.Chance(1, 6) {
		return strPool[r.Intn(len(strPool))] + strPool[r.Intn(len(strPool))]
	}
	return strPool[r.Intn(len(strPool))]
}

func genKey(r *lib.Rng) string {
	for {
		k := genStr(r)
		switch k {
		case "type", "geometry", "id", "properties":
			continue
		}
		return k
	}
}

// genValue draws a JSON-representable value; objects have distinct keys (they stand for Go maps).
func genValue(r *lib.Rng, depth int, st *lib.GenStats) *JV {
	k := r.Intn(9)
	if depth <= 0 && k >= 7 {
		k = r.Intn(7)
	}
	switch k {
	case 0:
		return jNull()
	case 1:
		return jBool(r.Bool())
	case 2, 3:
		f, cls := lib.GenFloat(r, false)
		st.FloatCls[cls]++
		return jNum(f)
	case 4, 5, 6:
		return jStr(genStr(r))
	case 7:
		out := jArr()
		for i, n := 0, r.Intn(4); i < n; i++ {
			out.Arr = append(out.Arr, genValue(r, depth-1, st))
		}
		return out
	default:
		return genMap(r, depth-1, st)
	}
}

func genMap(r *lib.Rng, depth int, st *lib.GenStats) *JV {
	out := jObj()
	seen := map[string]bool{}
	for i, n := 0, r.Intn(4); i < n; i++ {
		k := genKey(r)
		if seen[k] {
			continue
		}
		seen[k] = true
		out.add(k, genValue(r, depth, st))
	}
	return out
}

type featIn struct {
	node    *lib.Node
	id      *JV // nil pointer = nil interface
	props   *JV // nil pointer = nil map
	foreign *JV // nil pointer = nil map
}

func genFeature(r *lib.Rng, st *lib.GenStats) featIn {
	var f featIn
	if r.Chance(1, 5) {
		cfg := lib.StructCfg{MaxDepth: 2, MaxKids: 3, MaxVerts: 4}
		f.node = cfg.Gen(r, st)
	} else {
		f.node = genValid(r, st, 1)
	}
	switch r.Intn(6) {
	case 0:
	case 1:
		f.id = jNum(float64(r.Range(0, 1000)))
	case 2:
		f.id = jStr(genStr(r))
	case 3:
		x, cls := lib.GenFloat(r, false)
		st.FloatCls[cls]++
		f.id = jNum(x)
	default:
		f.id = genValue(r, 1, st) // "not enforced": any value
	}
	if f.id != nil && f.id.K == 'n' {
		f.id = nil
	}
	if !r.Chance(1, 4) {
		f.props = genMap(r, 2, st)
	}
	if !r.Chance(1, 3) {
		f.foreign = genMap(r, 2, st)
	}
	return f
}

func (f featIn) build() geom.GeoJSONFeature {
	out := geom.GeoJSONFeature{Geometry: f.node.Build()}
	if f.id != nil {
		out.ID = f.id.toGo()
	}
	if f.props != nil {
		out.Properties = f.props.toGoMap()
	}
	if f.foreign != nil {
		out.ForeignMembers = f.foreign.toGoMap()
	}
	return out
}

func tokOrDash(v *JV) string {
	if v == nil {
		return "-"
	}
	return v.Tokens()
}

// featObs is the structural dump of a feature value: geometry | id | properties | foreign members
func featObs(f geom.GeoJSONFeature) string {
	id := "n"
	if f.ID != nil {
		id = fromGo(f.ID).Tokens()
	}
	props := "-"
	if f.Properties != nil {
		props = fromGoMap(f.Properties).Tokens()
	}
	fm := "-"
	if f.ForeignMembers != nil {
		fm = fromGoMap(f.ForeignMembers).Tokens()
	}
	return lib.Dump(f.Geometry) + " | " + id + " | " + props + " | " + fm
}

func (f featIn) obs(g geom.Geometry) string {
	id := "n"
	if f.id != nil {
		id = f.id.Tokens()
	}
	return lib.Dump(g) + " | " + id + " | " + tokOrDash(f.props) + " | " + tokOrDash(f.foreign)
}

func unmarshalFeature(b []byte) (out string) {
	defer func() {
		if e := recover(); e != nil {
			out = "PANIC"
		}
	}()
	var f geom.GeoJSONFeature
	if err := json.Unmarshal(b, &f); err != nil {
		return "ERR"
	}
	// the same document decoded into a receiver that already holds another feature (one variable reused while
	// reading a stream of features): the result must not depend on what the receiver held before
	g := staleFeature()
	if err := json.Unmarshal(b, &g); err != nil {
		return "HIST fresh=" + featObs(f) + " reused=ERR"
	}
	if a, c := featObs(f), featObs(g); a != c {
		return "HIST fresh=" + a + " reused=" + c
	}
	return featObs(f)
}

func staleFeature() geom.GeoJSONFeature {
	return geom.GeoJSONFeature{
		Geometry:       geom.NewPoint(geom.Coordinates{XY: geom.XY{X: 7, Y: 7}}).AsGeometry(),
		ID:             "stale-id",
		Properties:     map[string]interface{}{"stale": true},
		ForeignMembers: map[string]interface{}{"stale": 1.0},
	}
}

func unmarshalFC(b []byte) (out string) {
	defer func() {
		if e := recover(); e != nil {
			out = "PANIC"
		}
	}()
	var fc geom.GeoJSONFeatureCollection
	if err := json.Unmarshal(b, &fc); err != nil {
		return "ERR"
	}
	obs := func(fc geom.GeoJSONFeatureCollection) string {
		parts := make([]string, 0, len(fc)+1)
		parts = append(parts, fmt.Sprint(len(fc)))
		for _, f := range fc {
			parts = append(parts, featObs(f))
		}
		return strings.Join(parts, " || ")
	}
	// decoded again into a collection that already holds features (encoding/json reuses the slice's elements)
	re := geom.GeoJSONFeatureCollection{staleFeature(), staleFeature(), staleFeature(), staleFeature(), staleFeature()}
	if err := json.Unmarshal(b, &re); err != nil {
		return "HIST fresh=" + obs(fc) + " reused=ERR"
	}
	if a, c := obs(fc), obs(re); a != c {
		return "HIST fresh=" + a + " reused=" + c
	}
	return obs(fc)
}

func featCase(id int, r *lib.Rng, st *lib.GenStats) (string, bool) {
	f := genFeature(r, st)
	gf := f.build()
	valid := gf.Geometry.Validate() == nil
	b, err := json.Marshal(gf)
	tree, back, direct := "ERR", "ERR", "ne"
	if err == nil {
		tree = treeTokens(b)
		back = unmarshalFeature(b)
		if b2, err2 := gf.MarshalJSON(); err2 == nil && string(b2) == string(b) {
			direct = "eq"
		}
	}
	return strings.Join([]string{fmt.Sprint(id), "F", "feature", f.obs(gf.Geometry), b01(valid), tree, back, direct}, "\t"), valid
}

func fcCase(id int, r *lib.Rng, st *lib.GenStats) string {
	n := r.Intn(4)
	var fc geom.GeoJSONFeatureCollection
	ins := make([]string, 0, n+1)
	ins = append(ins, fmt.Sprint(n))
	valid := true
	for i := 0; i < n; i++ {
		f := genFeature(r, st)
		gf := f.build()
		if gf.Geometry.Validate() != nil {
			valid = false
		}
		fc = append(fc, gf)
		ins = append(ins, f.obs(gf.Geometry))
	}
	if n == 0 && r.Bool() {
		fc = geom.GeoJSONFeatureCollection{}
	}
	b, err := json.Marshal(fc)
	tree, back := "ERR", "ERR"
	if err == nil {
		tree = treeTokens(b)
		back = unmarshalFC(b)
	}
	return strings.Join([]string{fmt.Sprint(id), "C", "collection", strings.Join(ins, " || "), b01(valid), tree, back}, "\t")
}

// geometry validity of a document as the library judges it (oracle for the feature documents)
func docValid(v *JV) string {
	_, g, ok := unmarshalNV([]byte(v.Text(func() string { return "" })))
	if !ok {
		return "e"
	}
	return b01(g.Validate() == nil)
}

func lastKey(o *JV, k string) *JV {
	var out *JV
	if o.K != '{' {
		return nil
	}
	for i := range o.Keys {
		if o.Keys[i] == k {
			out = o.Vals[i]
		}
	}
	return out
}

var featDocClasses = [...]string{"plain", "type", "geometry", "id", "properties", "foreign", "dups", "toplevel"}

// featDoc builds a Feature document of the grammar.
func featDoc(r *lib.Rng, class string, st *lib.GenStats, mut map[string]int) *JV {
	f := genFeature(r, st)
	o := jObj().add("type", jStr("Feature")).add("geometry", docOf(lib.NodeOf(f.node.Build())))
	if f.id != nil {
		o.add("id", f.id)
	}
	if f.props != nil || r.Bool() {
		if f.props != nil {
			o.add("properties", f.props)
		} else {
			o.add("properties", jNull())
		}
	}
	if f.foreign != nil {
		for i, k := range f.foreign.Keys {
			o.add(k, f.foreign.Vals[i])
		}
	}
	note := func(k string) { mut["f_"+k]++ }
	switch class {
	case "plain":
		if r.Bool() {
			// members in another order
			n := len(o.Keys)
			i, j := r.Intn(n), r.Intn(n)
			o.Keys[i], o.Keys[j] = o.Keys[j], o.Keys[i]
			o.Vals[i], o.Vals[j] = o.Vals[j], o.Vals[i]
			note("reordered")
		}
	case "type":
		switch r.Intn(6) {
		case 0:
			delKey(o, "type")
			note("type_missing")
		case 1:
			setKey(o, "type", jNull())
			note("type_null")
		case 2:
			setKey(o, "type", jNum(3))
			note("type_number")
		case 3:
			setKey(o, "type", jStr("feature"))
			note("type_lowercase")
		case 4:
			setKey(o, "type", jStr("FeatureCollection"))
			note("type_other")
		default:
			setKey(o, "type", jStr("Point"))
			note("type_geometry")
		}
	case "geometry":
		switch r.Intn(6) {
		case 0:
			delKey(o, "geometry")
			note("geometry_missing")
		case 1:
			setKey(o, "geometry", jNull())
			note("geometry_null")
		case 2:
			setKey(o, "geometry", junk(r))
			note("geometry_junk")
		case 3:
			setKey(o, "geometry", genDoc(r, "poslen", st, mut))
			note("geometry_poslen")
		case 4:
			setKey(o, "geometry", genDoc(r, "type", st, mut))
			note("geometry_type")
		default:
			setKey(o, "geometry", genDoc(r, "plain", st, mut))
			note("geometry_unvalidated")
		}
	case "id":
		switch r.Intn(4) {
		case 0:
			setKey(o, "id", jNull())
			note("id_null")
		case 1:
			setKey(o, "id", genValue(r, 2, st))
			note("id_any")
		case 2:
			delKey(o, "id")
			note("id_missing")
		default:
			setKey(o, "id", jObj().add("b", jNum(1)).add("a", jNum(2)).add("b", jNum(3)))
			note("id_object_dups")
		}
	case "properties":
		switch r.Intn(6) {
		case 0:
			setKey(o, "properties", jNull())
			note("properties_null")
		case 1:
			delKey(o, "properties")
			note("properties_missing")
		case 2:
			setKey(o, "properties", jArr(jNum(1)))
			note("properties_array")
		case 3:
			setKey(o, "properties", jStr("x"))
			note("properties_string")
		case 4:
			setKey(o, "properties", jObj())
			note("properties_empty")
		default:
			// duplicate and unsorted keys inside: the last duplicate wins
			setKey(o, "properties", jObj().add("z", jNum(1)).add("a", jNull()).add("z", jObj().add("k", jArr())))
			note("properties_dups")
		}
	case "foreign":
		switch r.Intn(3) {
		case 0:
			o.add("bbox", jArr(jNum(0), jNum(1), jNum(2), jNum(3)))
			note("foreign_bbox")
		case 1:
			o.Keys = append([]string{"Type"}, o.Keys...)
			o.Vals = append([]*JV{jStr("x")}, o.Vals...)
			note("foreign_case_variant")
		default:
			o.add(genKey(r), genValue(r, 2, st))
			note("foreign_any")
		}
	case "dups":
		switch r.Intn(4) {
		case 0:
			o.add("type", jStr("Nope"))
			note("dup_type_last_bad")
		case 1:
			o.Keys = append([]string{"type"}, o.Keys...)
			o.Vals = append([]*JV{jStr("Nope")}, o.Vals...)
			note("dup_type_first_bad")
		case 2:
			o.Keys = append([]string{"geometry"}, o.Keys...)
			o.Vals = append([]*JV{junk(r)}, o.Vals...)
			note("dup_geometry_first_bad")
		default:
			k := genKey(r)
			o.add(k, jNum(1)).add(k, jNum(2))
			note("dup_foreign")
		}
	case "toplevel":
		switch r.Intn(4) {
		case 0:
			return jNull()
		case 1:
			return jArr(o)
		case 2:
			return jStr("Feature")
		default:
			return jNum(0)
		}
	}
	return o
}

func featDocCase(id int, class string, doc *JV, r *lib.Rng) string {
	text := doc.Text(func() string { return "" })
	gv := "-"
	if g := lastKey(doc, "geometry"); g != nil {
		gv = docValid(g)
	}
	return strings.Join([]string{fmt.Sprint(id), "FD", class, doc.Tokens(), text, gv, unmarshalFeature([]byte(text))}, "\t")
}

var fcDocClasses = [...]string{"plain", "type", "features", "members"}

func fcDocCase(id int, class string, r *lib.Rng, st *lib.GenStats, mut map[string]int) string {
	o := jObj().add("type", jStr("FeatureCollection"))
	feats := jArr()
	allValid := true
	for i, n := 0, r.Intn(3); i < n; i++ {
		fd := featDoc(r, "plain", st, mut)
		feats.Arr = append(feats.Arr, fd)
	}
	o.add("features", feats)
	note := func(k string) { mut["c_"+k]++ }
	switch class {
	case "plain":
	case "type":
		switch r.Intn(5) {
		case 0:
			delKey(o, "type")
			note("type_missing")
		case 1:
			setKey(o, "type", jNull())
			note("type_null")
		case 2:
			setKey(o, "type", jStr(""))
			note("type_empty")
		case 3:
			setKey(o, "type", jStr("Feature"))
			note("type_other")
		default:
			setKey(o, "type", jNum(1))
			note("type_number")
		}
	case "features":
		switch r.Intn(6) {
		case 0:
			delKey(o, "features")
			note("features_missing")
		case 1:
			setKey(o, "features", jNull())
			note("features_null")
		case 2:
			setKey(o, "features", jObj())
			note("features_object")
		case 3:
			feats.Arr = append(feats.Arr, jNull())
			note("features_null_element")
		case 4:
			feats.Arr = append(feats.Arr, featDoc(r, featDocClasses[1+r.Intn(2)], st, mut))
			note("features_bad_element")
		default:
			feats.Arr = append(feats.Arr, junk(r))
			note("features_junk_element")
		}
	case "members":
		switch r.Intn(3) {
		case 0:
			o.add("bbox", jArr(jNum(1), jNum(2), jNum(3), jNum(4)))
			note("extra_member")
		case 1:
			o.Keys[0], o.Keys[1] = o.Keys[1], o.Keys[0]
			o.Vals[0], o.Vals[1] = o.Vals[1], o.Vals[0]
			note("reordered")
		default:
			// duplicated "features": the later member wins
			o.add("features", jArr(featDoc(r, "plain", st, mut)))
			note("dup_features")
		}
	}
	// validity of every geometry that the decoder will look at (oracle)
	var scan func(v *JV)
	scan = func(v *JV) {
		if v.K != '{' {
			return
		}
		if g := lastKey(v, "geometry"); g != nil {
			if docValid(g) != "1" {
				allValid = false
			}
		}
	}
	for i, k := range o.Keys {
		if k == "features" && o.Vals[i].K == '[' {
			for _, e := range o.Vals[i].Arr {
				scan(e)
			}
		}
	}
	text := o.Text(func() string { return "" })
	return strings.Join([]string{fmt.Sprint(id), "CD", class, o.Tokens(), text, b01(allValid), unmarshalFC([]byte(text))}, "\t")
}
