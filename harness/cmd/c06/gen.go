package main

import (
	"github.com/peterstace/simplefeatures/geom"
	"verifharness/lib"
)

var typeNames = [...]string{"Point", "LineString", "Polygon", "MultiPoint", "MultiLineString", "MultiPolygon", "GeometryCollection"}

func posOf(v [4]float64, ct geom.CoordinatesType) *JV {
	p := jArr(jNum(v[0]), jNum(v[1]))
	if ct.Is3D() {
		p.Arr = append(p.Arr, jNum(v[2]))
	}
	return p
}

func seqOf(n *lib.Node) *JV {
	out := jArr()
	for _, v := range n.C {
		out.Arr = append(out.Arr, posOf(v, n.CT))
	}
	return out
}

func ringsOf(n *lib.Node) *JV {
	out := jArr()
	for _, k := range n.Kids {
		out.Arr = append(out.Arr, seqOf(k))
	}
	return out
}

// docOf is the harness's own rendering of a description tree as a GeoJSON document (independent of
// the library's marshaller): the base of every grammar-built document.
func docOf(n *lib.Node) *JV {
	o := jObj().add("type", jStr(typeNames[n.Kind]))
	switch n.Kind {
	case lib.KPoint:
		if n.Full {
			o.add("coordinates", posOf(n.C[0], n.CT))
		} else {
			o.add("coordinates", jArr())
		}
	case lib.KLine:
		o.add("coordinates", seqOf(n))
	case lib.KPoly:
		o.add("coordinates", ringsOf(n))
	case lib.KMPoint:
		c := jArr()
		for _, k := range n.Kids {
			if k.Full {
				c.Arr = append(c.Arr, posOf(k.C[0], k.CT))
			}
		}
		o.add("coordinates", c)
	case lib.KMLine:
		o.add("coordinates", ringsOf(n))
	case lib.KMPoly:
		c := jArr()
		for _, k := range n.Kids {
			c.Arr = append(c.Arr, ringsOf(k))
		}
		o.add("coordinates", c)
	default:
		c := jArr()
		for _, k := range n.Kids {
			c.Arr = append(c.Arr, docOf(k))
		}
		o.add("geometries", c)
	}
	return o
}

// slots of a geometry document that the mutations address
type slots struct {
	geoms  []**JV // geometry objects
	coords []**JV // values of "coordinates"
	geomsV []**JV // values of "geometries"
	pos    []**JV // positions (arrays of numbers)
	nums   []**JV
	arrs   []**JV // other arrays below "coordinates"
}

func (s *slots) walkCoords(p **JV) {
	v := *p
	if v.K == '#' {
		s.nums = append(s.nums, p)
		return
	}
	if v.K != '[' {
		return
	}
	if len(v.Arr) > 0 && v.Arr[0].K == '#' {
		s.pos = append(s.pos, p)
	} else {
		s.arrs = append(s.arrs, p)
	}
	for i := range v.Arr {
		s.walkCoords(&v.Arr[i])
	}
}

func (s *slots) walk(p **JV) {
	v := *p
	if v.K != '{' {
		return
	}
	s.geoms = append(s.geoms, p)
	for i, k := range v.Keys {
		switch k {
		case "coordinates":
			s.coords = append(s.coords, &v.Vals[i])
			s.walkCoords(&v.Vals[i])
		case "geometries":
			s.geomsV = append(s.geomsV, &v.Vals[i])
			if v.Vals[i].K == '[' {
				for j := range v.Vals[i].Arr {
					s.walk(&v.Vals[i].Arr[j])
				}
			}
		}
	}
}

func pick(r *lib.Rng, l []**JV) **JV {
	if len(l) == 0 {
		return nil
	}
	return l[r.Intn(len(l))]
}

func smallNum(r *lib.Rng) *JV { return jNum(float64(r.Range(-9, 9))) }

func junk(r *lib.Rng) *JV {
	switch r.Intn(6) {
	case 0:
		return jStr("x")
	case 1:
		return jBool(r.Bool())
	case 2:
		return jObj()
	case 3:
		return jObj().add("type", jStr("Point")).add("coordinates", jArr(smallNum(r), smallNum(r)))
	case 4:
		return jArr(jStr("1"), jStr("2"))
	default:
		return jNum(7)
	}
}

func setLen(r *lib.Rng, p *JV, n int) {
	for len(p.Arr) < n {
		p.Arr = append(p.Arr, smallNum(r))
	}
	p.Arr = p.Arr[:n]
}

func setKey(o *JV, k string, v *JV) {
	for i := range o.Keys {
		if o.Keys[i] == k {
			o.Vals[i] = v
			return
		}
	}
	o.add(k, v)
}

func delKey(o *JV, k string) {
	for i := range o.Keys {
		if o.Keys[i] == k {
			o.Keys = append(o.Keys[:i], o.Keys[i+1:]...)
			o.Vals = append(o.Vals[:i], o.Vals[i+1:]...)
			return
		}
	}
}

var docClasses = [...]string{"plain", "poslen", "mixed", "nulls", "type", "members", "scalars", "toplevel", "extra", "deep", "poslen1", "nulls1"}

// genDoc builds one document of the grammar: a well-formed base document plus the mutations of
// one class (each class is one family of case splits of the decoder).
func genDoc(r *lib.Rng, class string, st *lib.GenStats, mut map[string]int) *JV {
	cfg := lib.StructCfg{MaxDepth: 3, MaxKids: 3, MaxVerts: 3, SmallInts: r.Chance(2, 3)}
	if class == "deep" {
		cfg.MaxDepth = 4
	}
	if class == "mixed" {
		cfg.MixedCT = true
	}
	var base *lib.Node
	if class == "deep" || r.Chance(1, 4) {
		base = cfg.GenKind(r, lib.KColl, st)
	} else {
		base = cfg.Gen(r, st)
	}
	doc := docOf(base)
	var s slots
	s.walk(&doc)
	note := func(k string) { mut[k]++ }
	switch class {
	case "plain", "deep":
	case "poslen", "poslen1":
		for _, p := range s.pos {
			if class == "poslen1" {
				continue
			}
			if r.Chance(1, 3) {
				setLen(r, *p, r.Range(0, 5))
				note("poslen")
			}
		}
		if class == "poslen1" {
			// exactly one position changed: the global effect of a single odd position
			if p := pick(r, s.pos); p != nil {
				setLen(r, *p, r.Range(0, 5))
				note("poslen_single")
			}
		}
	case "mixed":
		for _, p := range s.pos {
			setLen(r, *p, r.Range(2, 4))
		}
		note("mixed")
	case "extra":
		for _, p := range s.pos {
			setLen(r, *p, r.Range(3, 5))
		}
		note("extra")
	case "nulls", "nulls1":
		k := 1
		if class == "nulls" {
			k = r.Range(1, 3)
		}
		for i := 0; i < k; i++ {
			var p **JV
			switch r.Intn(6) {
			case 0:
				p = pick(r, s.nums)
				note("null_number")
			case 1:
				p = pick(r, s.pos)
				note("null_position")
			case 2:
				p = pick(r, s.arrs)
				note("null_array")
			case 3:
				p = pick(r, s.coords)
				note("null_coordinates")
			case 4:
				p = pick(r, s.geomsV)
				note("null_geometries")
			default:
				if len(s.geoms) > 1 {
					p = s.geoms[1+r.Intn(len(s.geoms)-1)]
					note("null_member")
				}
			}
			if p != nil {
				*p = jNull()
			}
		}
	case "type":
		p := pick(r, s.geoms)
		o := *p
		switch r.Intn(8) {
		case 0:
			setKey(o, "type", jStr("Circle"))
			note("type_unknown")
		case 1:
			delKey(o, "type")
			note("type_missing")
		case 2:
			setKey(o, "type", jNull())
			note("type_null")
		case 3:
			setKey(o, "type", jNum(1))
			note("type_number")
		case 4:
			setKey(o, "type", jStr("point"))
			note("type_lowercase")
		case 5:
			setKey(o, "type", jStr(""))
			note("type_empty")
		default:
			setKey(o, "type", jStr(typeNames[r.Intn(7)]))
			note("type_other")
		}
	case "members":
		p := pick(r, s.geoms)
		o := *p
		switch r.Intn(9) {
		case 0:
			delKey(o, "coordinates")
			note("no_coordinates")
		case 1:
			o.add("bbox", jArr(jNum(0), jNum(0), jNum(1), jNum(1))).add("foo", junk(r))
			note("extra_members")
		case 2:
			// extra member first
			o.Keys = append([]string{"crs"}, o.Keys...)
			o.Vals = append([]*JV{jObj().add("type", jStr("name"))}, o.Vals...)
			note("extra_first")
		case 3:
			if o.Keys[len(o.Keys)-1] == "coordinates" {
				o.add("geometries", jArr(docOf(cfgPoint(r))))
				note("geometries_on_noncollection")
			} else {
				o.add("coordinates", jArr(smallNum(r), smallNum(r)))
				note("coordinates_on_collection")
			}
		case 4:
			if o.Keys[len(o.Keys)-1] == "coordinates" {
				o.add("geometries", jArr(jNull(), jObj().add("type", jStr("bogus"))))
				note("ignored_bad_members")
			} else {
				delKey(o, "geometries")
				note("no_geometries")
			}
		case 5:
			if o.Keys[len(o.Keys)-1] == "coordinates" {
				o.add("geometries", jArr(junk(r)))
				note("geometries_garbage")
			} else {
				setKey(o, "geometries", junk(r))
				note("geometries_not_array")
			}
		case 6:
			// members in the other order
			n := len(o.Keys)
			o.Keys[0], o.Keys[n-1] = o.Keys[n-1], o.Keys[0]
			o.Vals[0], o.Vals[n-1] = o.Vals[n-1], o.Vals[0]
			note("reordered")
		case 7:
			// duplicated "type": the later member wins unless it is null
			switch r.Intn(3) {
			case 0:
				o.add("type", jStr(typeNames[r.Intn(7)]))
			case 1:
				o.add("type", jNull())
			default:
				o.Keys = append([]string{"type"}, o.Keys...)
				o.Vals = append([]*JV{jStr("Circle")}, o.Vals...)
			}
			note("dup_type")
		default:
			if o.Keys[len(o.Keys)-1] == "coordinates" {
				o.add("coordinates", o.Vals[len(o.Vals)-1].clone())
				o.Vals[len(o.Vals)-2] = junk(r)
				note("dup_coordinates")
			} else {
				o.add("GEOMETRIES_", jNull())
				note("extra_members")
			}
		}
	case "scalars":
		switch r.Intn(4) {
		case 0:
			if p := pick(r, s.nums); p != nil {
				*p = junk(r)
				note("nonnumber_in_position")
			}
		case 1:
			if p := pick(r, s.coords); p != nil {
				*p = junk(r)
				note("coordinates_scalar")
			}
		case 2:
			if p := pick(r, s.pos); p != nil {
				// one level too deep
				*p = jArr((*p).clone())
				note("too_deep")
			}
		default:
			if p := pick(r, s.arrs); p != nil {
				*p = smallNum(r)
				note("too_shallow")
			}
		}
	case "toplevel":
		switch r.Intn(6) {
		case 0:
			doc = jNull()
		case 1:
			doc = jArr(doc)
		case 2:
			doc = jNum(1)
		case 3:
			doc = jStr("Point")
		case 4:
			doc = jBool(true)
		default:
			doc = jObj().add("geometry", doc)
		}
		note("toplevel")
	}
	return doc
}

func cfgPoint(r *lib.Rng) *lib.Node {
	return &lib.Node{Kind: lib.KPoint, CT: geom.DimXY, Full: true, C: [][4]float64{{float64(r.Range(-9, 9)), float64(r.Range(-9, 9)), 0, 0}}}
}
