package main

import (
	"bytes"
	"encoding/json"
	"fmt"
	"math"
	"sort"
	"strconv"
	"strings"
)

// JV is the harness's own JSON tree: members keep document order, duplicates are allowed, numbers
// are float64 values. It is what the grammar builds, what Go's output is re-parsed into, and what
// travels to the model (Tokens).
type JV struct {
	K    byte // 'n' null, 't' true, 'f' false, '#' number, 's' string, '[' array, '{' object
	Num  float64
	Str  string
	Arr  []*JV
	Keys []string
	Vals []*JV
}

func jNull() *JV { return &JV{K: 'n'} }
func jBool(b bool) *JV {
	if b {
		return &JV{K: 't'}
	}
	return &JV{K: 'f'}
}
func jNum(f float64) *JV { return &JV{K: '#', Num: f} }
func jStr(s string) *JV  { return &JV{K: 's', Str: s} }
func jArr(l ...*JV) *JV  { return &JV{K: '[', Arr: l} }
func jObj() *JV          { return &JV{K: '{'} }
func (o *JV) add(k string, v *JV) *JV {
	o.Keys = append(o.Keys, k)
	o.Vals = append(o.Vals, v)
	return o
}

func (v *JV) clone() *JV {
	c := *v
	c.Arr = nil
	for _, x := range v.Arr {
		c.Arr = append(c.Arr, x.clone())
	}
	c.Keys = append([]string(nil), v.Keys...)
	c.Vals = nil
	for _, x := range v.Vals {
		c.Vals = append(c.Vals, x.clone())
	}
	return &c
}

func hexStr(s string) string {
	const d = "0123456789abcdef"
	out := make([]byte, 0, 1+2*len(s))
	out = append(out, 's')
	for i := 0; i < len(s); i++ {
		out = append(out, d[s[i]>>4], d[s[i]&15])
	}
	return string(out)
}

func (v *JV) tokens(sb *strings.Builder) {
	switch v.K {
	case 'n', 't', 'f':
		sb.WriteByte(v.K)
		sb.WriteByte(' ')
	case '#':
		fmt.Fprintf(sb, "#%016x ", math.Float64bits(v.Num))
	case 's':
		sb.WriteString(hexStr(v.Str))
		sb.WriteByte(' ')
	case '[':
		fmt.Fprintf(sb, "[%d ", len(v.Arr))
		for _, x := range v.Arr {
			x.tokens(sb)
		}
	case '{':
		fmt.Fprintf(sb, "{%d ", len(v.Keys))
		for i, k := range v.Keys {
			sb.WriteString(hexStr(k))
			sb.WriteByte(' ')
			v.Vals[i].tokens(sb)
		}
	}
}

// Tokens renders the tree in the prefix token form shared with the OCaml driver.
func (v *JV) Tokens() string {
	var sb strings.Builder
	v.tokens(&sb)
	return strings.TrimSpace(sb.String())
}

func writeJSONString(sb *strings.Builder, s string) {
	// the harness's own spelling: everything outside printable ASCII as \u escapes (input strings
	// are valid UTF-8), so that the text has no tabs or newlines
	sb.WriteByte('"')
	for _, r := range s {
		switch {
		case r == '"' || r == '\\':
			sb.WriteByte('\\')
			sb.WriteRune(r)
		case r >= 0x20 && r < 0x7f:
			sb.WriteRune(r)
		case r >= 0x10000:
			r -= 0x10000
			fmt.Fprintf(sb, "\\u%04x\\u%04x", 0xd800+(r>>10), 0xdc00+(r&0x3ff))
		default:
			fmt.Fprintf(sb, "\\u%04x", r)
		}
	}
	sb.WriteByte('"')
}

func (v *JV) text(sb *strings.Builder, sp func() string) {
	switch v.K {
	case 'n':
		sb.WriteString("null")
	case 't':
		sb.WriteString("true")
	case 'f':
		sb.WriteString("false")
	case '#':
		sb.WriteString(strconv.FormatFloat(v.Num, 'g', -1, 64))
	case 's':
		writeJSONString(sb, v.Str)
	case '[':
		sb.WriteByte('[')
		for i, x := range v.Arr {
			if i > 0 {
				sb.WriteByte(',')
			}
			sb.WriteString(sp())
			x.text(sb, sp)
		}
		sb.WriteString(sp())
		sb.WriteByte(']')
	case '{':
		sb.WriteByte('{')
		for i, k := range v.Keys {
			if i > 0 {
				sb.WriteByte(',')
			}
			sb.WriteString(sp())
			writeJSONString(sb, k)
			sb.WriteString(sp())
			sb.WriteByte(':')
			sb.WriteString(sp())
			v.Vals[i].text(sb, sp)
		}
		sb.WriteString(sp())
		sb.WriteByte('}')
	}
}

// Text spells the tree as JSON text; sp supplies optional white space (spaces only).
func (v *JV) Text(sp func() string) string {
	var sb strings.Builder
	v.text(&sb, sp)
	return sb.String()
}

// parseJV re-parses JSON text with encoding/json's tokenizer (independent syntax check), keeping
// member order and duplicates; numbers become float64 through json.Number -> ParseFloat.
func parseJV(b []byte) (*JV, error) {
	if !json.Valid(b) {
		return nil, fmt.Errorf("json.Valid = false")
	}
	dec := json.NewDecoder(bytes.NewReader(b))
	dec.UseNumber()
	v, err := parseValue(dec)
	if err != nil {
		return nil, err
	}
	if _, err := dec.Token(); err == nil {
		return nil, fmt.Errorf("trailing data")
	}
	return v, nil
}

func parseValue(dec *json.Decoder) (*JV, error) {
	tok, err := dec.Token()
	if err != nil {
		return nil, err
	}
	return parseFrom(dec, tok)
}

func parseFrom(dec *json.Decoder, tok json.Token) (*JV, error) {
	switch t := tok.(type) {
	case nil:
		return jNull(), nil
	case bool:
		return jBool(t), nil
	case json.Number:
		f, err := strconv.ParseFloat(string(t), 64)
		if err != nil {
			return nil, err
		}
		return jNum(f), nil
	case string:
		return jStr(t), nil
	case json.Delim:
		switch t {
		case '[':
			out := jArr()
			for dec.More() {
				x, err := parseValue(dec)
				if err != nil {
					return nil, err
				}
				out.Arr = append(out.Arr, x)
			}
			if _, err := dec.Token(); err != nil {
				return nil, err
			}
			return out, nil
		case '{':
			out := jObj()
			for dec.More() {
				kt, err := dec.Token()
				if err != nil {
					return nil, err
				}
				k, ok := kt.(string)
				if !ok {
					return nil, fmt.Errorf("non-string key")
				}
				x, err := parseValue(dec)
				if err != nil {
					return nil, err
				}
				out.add(k, x)
			}
			if _, err := dec.Token(); err != nil {
				return nil, err
			}
			return out, nil
		}
	}
	return nil, fmt.Errorf("unexpected token %v", tok)
}

// numTokens replaces every JSON number of a document by #<bits of ParseFloat>, leaving every other
// byte as it is (strings of geometry documents contain no digits). Non-finite spellings stay.
func numTokens(b []byte) string {
	var sb strings.Builder
	i := 0
	inStr := false
	for i < len(b) {
		c := b[i]
		if inStr {
			sb.WriteByte(c)
			if c == '\\' && i+1 < len(b) {
				i++
				sb.WriteByte(b[i])
			} else if c == '"' {
				inStr = false
			}
			i++
			continue
		}
		if c == '"' {
			inStr = true
			sb.WriteByte(c)
			i++
			continue
		}
		if c == '-' || (c >= '0' && c <= '9') {
			j := i + 1
			for j < len(b) && strings.IndexByte("0123456789.eE+-", b[j]) >= 0 {
				j++
			}
			f, err := strconv.ParseFloat(string(b[i:j]), 64)
			if err != nil {
				sb.Write(b[i:j])
			} else {
				fmt.Fprintf(&sb, "#%016x", math.Float64bits(f))
			}
			i = j
			continue
		}
		sb.WriteByte(c)
		i++
	}
	return sb.String()
}

// fromGo converts a decoded interface{} value (nil, bool, float64, string, []interface{},
// map[string]interface{}) into a tree; map members in byte order of their keys.
func fromGo(x interface{}) *JV {
	switch t := x.(type) {
	case nil:
		return jNull()
	case bool:
		return jBool(t)
	case float64:
		return jNum(t)
	case string:
		return jStr(t)
	case []interface{}:
		out := jArr()
		for _, e := range t {
			out.Arr = append(out.Arr, fromGo(e))
		}
		return out
	case map[string]interface{}:
		return fromGoMap(t)
	}
	return jStr(fmt.Sprintf("<unrepresentable %T>", x))
}

func fromGoMap(m map[string]interface{}) *JV {
	keys := make([]string, 0, len(m))
	for k := range m {
		keys = append(keys, k)
	}
	sort.Strings(keys)
	out := jObj()
	for _, k := range keys {
		out.add(k, fromGo(m[k]))
	}
	return out
}

// toGo converts a tree into the Go value a user would put into ID / Properties / ForeignMembers.
func (v *JV) toGo() interface{} {
	switch v.K {
	case 'n':
		return nil
	case 't':
		return true
	case 'f':
		return false
	case '#':
		return v.Num
	case 's':
		return v.Str
	case '[':
		out := make([]interface{}, 0, len(v.Arr))
		for _, x := range v.Arr {
			out = append(out, x.toGo())
		}
		return out
	default:
		return v.toGoMap()
	}
}

func (v *JV) toGoMap() map[string]interface{} {
	m := make(map[string]interface{}, len(v.Keys))
	for i, k := range v.Keys {
		m[k] = v.Vals[i].toGo()
	}
	return m
}
