// Command c06 runs the GeoJSON codec of the implementation on generated geometries, on
// grammar-built documents and on features, and prints per case the observations the model is
// compared against (property C06).
package main

import (
	"encoding/json"
	"fmt"
	"strings"

	"github.com/peterstace/simplefeatures/geom"
	"verifharness/lib"
)

// unmarshalNV is UnmarshalGeoJSON(b, NoValidate{}) with panics observed.
func unmarshalNV(b []byte) (out string, g geom.Geometry, ok bool) {
	defer func() {
		if e := recover(); e != nil {
			out, ok = "PANIC", false
		}
	}()
	g, err := geom.UnmarshalGeoJSON(b, geom.NoValidate{})
	if err != nil {
		return "ERR", geom.Geometry{}, false
	}
	return lib.Dump(g), g, true
}

// unmarshalV is json.Unmarshal into a Geometry (validating).
func unmarshalV(b []byte) (out string) {
	defer func() {
		if e := recover(); e != nil {
			out = "PANIC"
		}
	}()
	var g geom.Geometry
	if err := json.Unmarshal(b, &g); err != nil {
		return "ERR"
	}
	return lib.Dump(g)
}

func code(err error, get func() geom.Geometry, want string) (c byte) {
	defer func() {
		if e := recover(); e != nil {
			c = 'p'
		}
	}()
	if err != nil {
		return 'e'
	}
	if lib.Dump(get()) != want {
		return 'd'
	}
	return 'o'
}

// concrete decodes b into each of the seven concrete types (order: Point, LineString, Polygon,
// MultiPoint, MultiLineString, MultiPolygon, GeometryCollection): o = accepted with the value
// `want`, d = accepted with another value, e = error.
func concrete(b []byte, want string) string {
	var pt geom.Point
	var ls geom.LineString
	var py geom.Polygon
	var mp geom.MultiPoint
	var ml geom.MultiLineString
	var my geom.MultiPolygon
	var gc geom.GeometryCollection
	return string([]byte{
		code(json.Unmarshal(b, &pt), func() geom.Geometry { return pt.AsGeometry() }, want),
		code(json.Unmarshal(b, &ls), func() geom.Geometry { return ls.AsGeometry() }, want),
		code(json.Unmarshal(b, &py), func() geom.Geometry { return py.AsGeometry() }, want),
		code(json.Unmarshal(b, &mp), func() geom.Geometry { return mp.AsGeometry() }, want),
		code(json.Unmarshal(b, &ml), func() geom.Geometry { return ml.AsGeometry() }, want),
		code(json.Unmarshal(b, &my), func() geom.Geometry { return my.AsGeometry() }, want),
		code(json.Unmarshal(b, &gc), func() geom.Geometry { return gc.AsGeometry() }, want),
	})
}

func concreteMarshal(g geom.Geometry) ([]byte, error) {
	switch g.Type() {
	case geom.TypePoint:
		return g.MustAsPoint().MarshalJSON()
	case geom.TypeLineString:
		return g.MustAsLineString().MarshalJSON()
	case geom.TypePolygon:
		return g.MustAsPolygon().MarshalJSON()
	case geom.TypeMultiPoint:
		return g.MustAsMultiPoint().MarshalJSON()
	case geom.TypeMultiLineString:
		return g.MustAsMultiLineString().MarshalJSON()
	case geom.TypeMultiPolygon:
		return g.MustAsMultiPolygon().MarshalJSON()
	default:
		return g.MustAsGeometryCollection().MarshalJSON()
	}
}

func b01(b bool) string {
	if b {
		return "1"
	}
	return "0"
}

func treeTokens(b []byte) string {
	t, err := parseJV(b)
	if err != nil {
		return "BADJSON"
	}
	return t.Tokens()
}

func geomCase(id int, class string, g geom.Geometry) string {
	gd := lib.Dump(g)
	valid := g.Validate() == nil
	b, err := g.MarshalJSON()
	text, tree, via, nv, v, conc, cm := "ERR", "ERR", "err", "ERR", "ERR", "-------", "ne"
	if err == nil {
		text = numTokens(b)
		tree = treeTokens(b)
		if b2, err2 := json.Marshal(g); err2 == nil {
			via = "ne"
			if string(b2) == string(b) {
				via = "eq"
			}
		}
		nv, _, _ = unmarshalNV(b)
		v = unmarshalV(b)
		conc = concrete(b, v)
		if b3, err3 := concreteMarshal(g); err3 == nil && string(b3) == string(b) {
			cm = "eq"
		}
	}
	return strings.Join([]string{fmt.Sprint(id), "G", class, gd, b01(valid), text, tree, via, nv, v, conc, cm}, "\t")
}

func docCase(id int, class string, doc *JV, r *lib.Rng) string {
	sp := func() string { return "" }
	if r.Chance(1, 4) {
		sp = func() string { return strings.Repeat(" ", r.Intn(2)) }
	}
	text := doc.Text(sp)
	b := []byte(text)
	nv, g, ok := unmarshalNV(b)
	valid := "-"
	if ok {
		valid = b01(g.Validate() == nil)
	}
	v := unmarshalV(b)
	conc := concrete(b, v)
	// the same document with every position cut to its first three elements
	tr := doc.clone()
	var s slots
	s.walk(&tr)
	for _, p := range s.pos {
		if len((*p).Arr) > 3 {
			(*p).Arr = (*p).Arr[:3]
		}
	}
	nvt, _, _ := unmarshalNV([]byte(tr.Text(func() string { return "" })))
	return strings.Join([]string{fmt.Sprint(id), "D", class, doc.Tokens(), text, nv, valid, v, conc, nvt}, "\t")
}

// rectangles: valid-by-construction areal geometries (the random rings of the structural
// generator are almost never valid polygons)
func rectRing(r *lib.Rng, cfg lib.StructCfg, ct geom.CoordinatesType, x0, y0, x1, y1 float64, st *lib.GenStats) *lib.Node {
	n := &lib.Node{Kind: lib.KLine, CT: ct}
	xs := [][2]float64{{x0, y0}, {x1, y0}, {x1, y1}, {x0, y1}}
	for _, p := range xs {
		z, _ := lib.GenFloat(r, false)
		m, _ := lib.GenFloat(r, false)
		v := [4]float64{p[0], p[1], 0, 0}
		if ct.Is3D() {
			v[2] = z
		}
		if ct.IsMeasured() {
			v[3] = m
		}
		n.C = append(n.C, v)
	}
	n.C = append(n.C, n.C[0])
	st.Verts += 5
	return n
}

func rectPoly(r *lib.Rng, cfg lib.StructCfg, ct geom.CoordinatesType, ox float64, st *lib.GenStats) *lib.Node {
	n := &lib.Node{Kind: lib.KPoly, CT: ct}
	if r.Chance(1, 6) {
		return n
	}
	w := float64(r.Range(4, 9))
	n.Kids = append(n.Kids, rectRing(r, cfg, ct, ox, 0, ox+w, w, st))
	if r.Bool() {
		n.Kids = append(n.Kids, rectRing(r, cfg, ct, ox+1, 1, ox+2, 2, st))
	}
	return n
}

func genValid(r *lib.Rng, st *lib.GenStats, depth int) *lib.Node {
	cfg := lib.StructCfg{MaxDepth: 1, MaxKids: 3, MaxVerts: 4}
	ct := geom.CoordinatesType(r.Intn(4))
	return genValidCT(r, cfg, ct, st, depth)
}

func genValidCT(r *lib.Rng, cfg lib.StructCfg, ct geom.CoordinatesType, st *lib.GenStats, depth int) *lib.Node {
	k := r.Intn(7)
	if depth <= 0 && k == 6 {
		k = r.Intn(6)
	}
	st.Kinds[k]++
	st.CTs[ct]++
	switch lib.Kind(k) {
	case lib.KPoly:
		return rectPoly(r, cfg, ct, 0, st)
	case lib.KMPoly:
		n := &lib.Node{Kind: lib.KMPoly, CT: ct}
		for i, c := 0, r.Intn(4); i < c; i++ {
			n.Kids = append(n.Kids, rectPoly(r, cfg, ct, float64(20*i), st))
		}
		return n
	case lib.KColl:
		n := &lib.Node{Kind: lib.KColl, CT: ct}
		for i, c := 0, r.Intn(4); i < c; i++ {
			n.Kids = append(n.Kids, genValidCT(r, cfg, ct, st, depth-1))
		}
		return n
	default:
		// points, lines, multipoints, multilines of the structural generator: lines need two
		// distinct points to be valid, which random ordinates give almost surely
		cfg.MaxVerts = 4
		n := cfg.GenKind(r, lib.Kind(k), st)
		return n
	}
}

// zeroGeom draws values that do not come from the constructors with explicit slices: Go zero
// values (nil slices inside), WKT-parsed empties, and collections of those.
func zeroGeom(r *lib.Rng, depth int) geom.Geometry {
	ct := geom.CoordinatesType(r.Intn(4))
	tags := []string{"", " Z", " M", " ZM"}
	names := []string{"POINT", "LINESTRING", "POLYGON", "MULTIPOINT", "MULTILINESTRING", "MULTIPOLYGON", "GEOMETRYCOLLECTION"}
	switch k := r.Intn(10); {
	case k == 0:
		return geom.Point{}.AsGeometry()
	case k == 1:
		return geom.LineString{}.AsGeometry()
	case k == 2:
		return geom.Polygon{}.AsGeometry()
	case k == 3:
		return geom.MultiPoint{}.AsGeometry()
	case k == 4:
		return geom.MultiLineString{}.AsGeometry()
	case k == 5:
		return geom.MultiPolygon{}.AsGeometry()
	case k == 6:
		return geom.GeometryCollection{}.AsGeometry()
	case k == 7 && depth > 0:
		n := r.Range(1, 3)
		gs := make([]geom.Geometry, n)
		for i := range gs {
			gs[i] = zeroGeom(r, depth-1).ForceCoordinatesType(ct)
		}
		return geom.NewGeometryCollection(gs).AsGeometry()
	default:
		g, err := geom.UnmarshalWKT(names[r.Intn(7)] + tags[ct] + " EMPTY")
		if err != nil {
			panic(err)
		}
		return g
	}
}

func main() {
	a := lib.ParseArgs()
	w, done := a.Output()
	defer done()
	root := lib.NewRng(a.Seed)
	var st lib.GenStats
	classes := map[string]int{}
	mut := map[string]int{}
	validCount := 0
	for i := 0; i < a.N; i++ {
		r := root.Fork()
		var line string
		switch {
		case i%4 == 3:
			// features and feature collections
			switch (i / 4) % 4 {
			case 0:
				var v bool
				line, v = featCase(i, r, &st)
				classes["f_feature"]++
				if v {
					validCount++
				}
			case 1:
				class := featDocClasses[(i/16)%len(featDocClasses)]
				classes["fd_"+class]++
				line = featDocCase(i, class, featDoc(r, class, &st, mut), r)
			case 2:
				classes["c_collection"]++
				line = fcCase(i, r, &st)
			default:
				class := fcDocClasses[(i/16)%len(fcDocClasses)]
				classes["cd_"+class]++
				line = fcDocCase(i, class, r, &st, mut)
			}
		case i%2 == 0:
			// geometry round trip
			cfg := lib.StructCfg{MaxDepth: 4, MaxKids: 4, MaxVerts: 5}
			class := "g_struct"
			var n *lib.Node
			switch (i / 2) % 8 {
			case 4:
				cfg.SmallInts = true
				class = "g_smallint"
				n = cfg.Gen(r, &st)
			case 5:
				cfg.MixedCT = true
				class = "g_mixedct"
				n = cfg.Gen(r, &st)
			case 6, 7, 3:
				class = "g_valid"
				n = genValid(r, &st, 2)
			default:
				n = cfg.Gen(r, &st)
			}
			g := n.Build()
			if (i/2)%32 == 9 {
				class = "g_zero"
				g = zeroGeom(r, 2)
			}
			classes[class]++
			if g.Validate() == nil {
				validCount++
			}
			line = geomCase(i, class, g)
		default:
			class := docClasses[(i/4)%len(docClasses)]
			classes["d_"+class]++
			doc := genDoc(r, class, &st, mut)
			line = docCase(i, class, doc, r)
		}
		fmt.Fprintln(w, line)
	}
	stats := map[string]interface{}{"classes": classes, "mutations": mut, "valid_geometries": validCount,
		"kinds": st.Kinds, "ctypes": st.CTs, "float_classes": st.FloatCls, "float_class_names": lib.FloatClassNames,
		"empty_nodes": st.EmptyNodes, "empty_members": st.EmptyKids, "depth_hist": st.Depth, "vertices": st.Verts}
	js, _ := json.Marshal(stats)
	fmt.Fprintf(w, "#GEN\t%s\n", js)
}
