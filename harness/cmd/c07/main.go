// Command c07 runs the TWKB codec of the implementation on generated geometries x option sets and
// on malformed byte strings, and prints, per case, the observations the model is compared
// against (property C07; the decoder-robustness lines are also what C08 cites).
//
// Case lines (tab separated):
//
//	R: id R class opts inputDump marshalHex|ERR decodedDump|ERR|PANIC|- size env ids valid
//	D: id D class hex decodedDump|ERR|PANIC size env ids allocBytes
//
// opts = "pxy pz pm size bbox close ids" (pz/pm "-" when the option is not given, ids "-" or
// comma separated). size = "ERR" | "0" | "1 <int>"; env = "ERR" | "0" |
// "1 <xyNonEmpty> minx miny maxx maxy <zNonEmpty> zmin zmax <mNonEmpty> mmin mmax" (float bits);
// ids = "ERR" | "0" | "1 a,b,c".
package main

import (
	"encoding/binary"
	"encoding/json"
	"fmt"
	"math"
	"os"
	"os/exec"
	"runtime"
	"strings"
	"syscall"

	"github.com/peterstace/simplefeatures/geom"
	"verifharness/lib"
)

type optSet struct {
	pxy                 int
	pz, pm              *int
	size, bbox, closeRg bool
	ids                 []int64
}

func (o optSet) String() string {
	f := func(p *int) string {
		if p == nil {
			return "-"
		}
		return fmt.Sprintf("%d", *p)
	}
	b := func(x bool) string {
		if x {
			return "1"
		}
		return "0"
	}
	ids := "-"
	if len(o.ids) > 0 {
		parts := make([]string, len(o.ids))
		for i, v := range o.ids {
			parts[i] = fmt.Sprintf("%d", v)
		}
		ids = strings.Join(parts, ",")
	}
	return fmt.Sprintf("%d %s %s %s %s %s %s", o.pxy, f(o.pz), f(o.pm), b(o.size), b(o.bbox), b(o.closeRg), ids)
}

func (o optSet) goOpts() []geom.TWKBWriterOption {
	var out []geom.TWKBWriterOption
	if o.pz != nil {
		out = append(out, geom.TWKBPrecisionZ(*o.pz))
	}
	if o.pm != nil {
		out = append(out, geom.TWKBPrecisionM(*o.pm))
	}
	if o.size {
		out = append(out, geom.TWKBSizeHeader())
	}
	if o.bbox {
		out = append(out, geom.TWKBBoundingBoxHeader())
	}
	if o.closeRg {
		out = append(out, geom.TWKBCloseRings())
	}
	if o.ids != nil {
		out = append(out, geom.TWKBIDList(o.ids))
	}
	return out
}

// ---- observations ----

func decodeObs(b []byte) (s string) {
	defer func() {
		if r := recover(); r != nil {
			s = "PANIC"
		}
	}()
	g, err := geom.UnmarshalTWKB(b, geom.NoValidate{})
	if err != nil {
		return "ERR"
	}
	return lib.Dump(g)
}

func hexf(f float64) string { return fmt.Sprintf("%016x", math.Float64bits(f)) }

func b01(x bool) string {
	if x {
		return "1"
	}
	return "0"
}

func sizeObs(b []byte) (s string) {
	defer func() {
		if r := recover(); r != nil {
			s = "PANIC"
		}
	}()
	n, ok, err := geom.UnmarshalTWKBSize(b)
	if err != nil {
		return "ERR"
	}
	if !ok {
		return "0"
	}
	return fmt.Sprintf("1 %d", n)
}

func envObs(b []byte) (s string) {
	defer func() {
		if r := recover(); r != nil {
			s = "PANIC"
		}
	}()
	e, ok, err := geom.UnmarshalTWKBEnvelope(b)
	if err != nil {
		return "ERR"
	}
	if !ok {
		return "0"
	}
	mn, mx, xyOK := e.XYEnvelope.MinMaxXYs()
	zmin, zmax, zOK := e.ZRange.MinMax()
	mmin, mmax, mOK := e.MRange.MinMax()
	return strings.Join([]string{"1", b01(xyOK), hexf(mn.X), hexf(mn.Y), hexf(mx.X), hexf(mx.Y),
		b01(zOK), hexf(zmin), hexf(zmax), b01(mOK), hexf(mmin), hexf(mmax)}, " ")
}

func idsObs(b []byte) (s string) {
	defer func() {
		if r := recover(); r != nil {
			s = "PANIC"
		}
	}()
	ids, ok, err := geom.UnmarshalTWKBIDList(b)
	if err != nil {
		return "ERR"
	}
	if !ok {
		return "0"
	}
	parts := make([]string, len(ids))
	for i, v := range ids {
		parts[i] = fmt.Sprintf("%d", v)
	}
	return "1 " + strings.Join(parts, ",")
}

// ---- generator: valid geometries with ordinates k / 10^q ----

type gen struct {
	r     *lib.Rng
	q     int   // decimal places of the inputs
	mag   int64 // bound on |k|
	unit  int64 // size multiplier of polygon templates (in units of 10^-q)
	stats map[string]int
}

func (g *gen) ord(k int64) float64 { return float64(k) / math.Pow10(g.q) }

func (g *gen) k() int64 {
	m := g.mag
	return int64(g.r.U64()%uint64(2*m+1)) - m
}

func (g *gen) vertex(ct geom.CoordinatesType, x, y int64) [4]float64 {
	var v [4]float64
	v[0], v[1] = g.ord(x), g.ord(y)
	if ct.Is3D() {
		v[2] = g.ord(g.k())
	}
	if ct.IsMeasured() {
		v[3] = g.ord(g.k())
	}
	return v
}

func (g *gen) point(ct geom.CoordinatesType, emptyP int) *lib.Node {
	n := &lib.Node{Kind: lib.KPoint, CT: ct}
	if g.r.Chance(emptyP, 100) {
		return n
	}
	n.Full = true
	n.C = [][4]float64{g.vertex(ct, g.k(), g.k())}
	return n
}

func (g *gen) line(ct geom.CoordinatesType, emptyP int) *lib.Node {
	n := &lib.Node{Kind: lib.KLine, CT: ct}
	if g.r.Chance(emptyP, 100) {
		return n
	}
	cnt := g.r.Range(2, 5)
	x, y := g.k(), g.k()
	for i := 0; i < cnt; i++ {
		n.C = append(n.C, g.vertex(ct, x, y))
		// consecutive points differ, steps are small compared with the magnitude (delta coding)
		dx, dy := int64(g.r.Range(-9, 9))*g.unit, int64(g.r.Range(1, 9))*g.unit
		x, y = x+dx, y+dy
	}
	return n
}

var shells = [][][2]int64{
	{{0, 0}, {8, 0}, {8, 8}, {0, 8}},
	{{0, 0}, {8, 0}, {0, 8}},
	{{0, 0}, {8, 0}, {8, 4}, {4, 4}, {4, 8}, {0, 8}},
	{{0, 0}, {4, -1}, {8, 0}, {9, 4}, {8, 8}, {4, 9}, {0, 8}, {-1, 4}},
}
var holes = [][][2]int64{
	{{1, 1}, {3, 1}, {3, 3}, {1, 3}},
	{{1, 5}, {2, 5}, {2, 6}, {1, 6}},
}

func (g *gen) ring(ct geom.CoordinatesType, tmpl [][2]int64, ox, oy int64) *lib.Node {
	n := &lib.Node{Kind: lib.KLine, CT: ct}
	k := len(tmpl)
	start := g.r.Intn(k)
	rev := g.r.Bool()
	for i := 0; i < k; i++ {
		j := (start + i) % k
		if rev {
			j = (start + k - i) % k
		}
		n.C = append(n.C, g.vertex(ct, ox+tmpl[j][0]*g.unit, oy+tmpl[j][1]*g.unit))
	}
	n.C = append(n.C, n.C[0])
	return n
}

func (g *gen) polyAt(ct geom.CoordinatesType, ox, oy int64, emptyP int) *lib.Node {
	n := &lib.Node{Kind: lib.KPoly, CT: ct}
	if g.r.Chance(emptyP, 100) {
		return n
	}
	si := g.r.Intn(len(shells))
	n.Kids = append(n.Kids, g.ring(ct, shells[si], ox, oy))
	if si != 1 || true {
		for hi := range holes {
			if g.r.Chance(1, 3) {
				n.Kids = append(n.Kids, g.ring(ct, holes[hi], ox, oy))
			}
		}
	}
	return n
}

func (g *gen) geomNode(ct geom.CoordinatesType, depth int, emptyP int, force int) *lib.Node {
	var k lib.Kind
	switch {
	case force >= 0:
		k = lib.Kind(force)
	case depth <= 1:
		k = lib.Kind(g.r.Intn(6))
	default:
		k = lib.Kind(g.r.Intn(7))
	}
	g.stats["kind_"+lib.KindTag[k]]++
	switch k {
	case lib.KPoint:
		return g.point(ct, emptyP)
	case lib.KLine:
		return g.line(ct, emptyP)
	case lib.KPoly:
		return g.polyAt(ct, g.k(), g.k(), emptyP)
	}
	n := &lib.Node{Kind: k, CT: ct}
	cnt := 0
	if !g.r.Chance(emptyP, 100) {
		cnt = g.r.Range(1, 4)
	}
	ox, oy := g.k(), g.k()
	for i := 0; i < cnt; i++ {
		var kid *lib.Node
		switch k {
		case lib.KMPoint:
			kid = g.point(ct, emptyP)
		case lib.KMLine:
			kid = g.line(ct, emptyP)
		case lib.KMPoly:
			// disjoint members: 16 units apart
			kid = g.polyAt(ct, ox+int64(i)*16*g.unit, oy, emptyP)
		default:
			kid = g.geomNode(ct, depth-1, emptyP, -1)
		}
		if kid.IsEmptyNode() {
			g.stats["empty_members"]++
		}
		n.Kids = append(n.Kids, kid)
	}
	return n
}

// minsize builds geometries whose TWKB is as short as the format allows: Multi* and collections in
// which empty members dominate (k empty members and one short non-empty one, at any position),
// MultiPoints of many points with one-byte deltas, at top level or as the LAST member of a
// collection (a count guard that over-estimates the size of a member only bites when nothing
// follows). All ordinates are tiny integers.
func (g *gen) minsize(ct geom.CoordinatesType) *lib.Node {
	r := g.r
	g.q, g.mag, g.unit = 0, 20, 1
	tiny := func() [4]float64 {
		var v [4]float64
		v[0], v[1] = float64(r.Range(-9, 9)), float64(r.Range(-9, 9))
		if ct.Is3D() {
			v[2] = float64(r.Range(-9, 9))
		}
		if ct.IsMeasured() {
			v[3] = float64(r.Range(-9, 9))
		}
		return v
	}
	pt := func() *lib.Node { return &lib.Node{Kind: lib.KPoint, CT: ct, Full: true, C: [][4]float64{tiny()}} }
	shortLine := func() *lib.Node {
		a := tiny()
		b := a
		b[0] += float64(r.Range(1, 5))
		b[1] += float64(r.Range(1, 5))
		return &lib.Node{Kind: lib.KLine, CT: ct, C: [][4]float64{a, b}}
	}
	triangle := func() *lib.Node {
		a := tiny()
		b, c := a, a
		b[0] += 4
		c[1] += 4
		if ct.Is3D() {
			b[2], c[2] = a[2]+1, a[2]-1
		}
		ring := &lib.Node{Kind: lib.KLine, CT: ct, C: [][4]float64{a, b, c, a}}
		return &lib.Node{Kind: lib.KPoly, CT: ct, Kids: []*lib.Node{ring}}
	}
	emptyOf := func(k lib.Kind) *lib.Node { return &lib.Node{Kind: k, CT: ct} }
	// k empty members with one non-empty member at a random position
	mix := func(kind lib.Kind, empty func() *lib.Node, full func() *lib.Node) *lib.Node {
		n := &lib.Node{Kind: kind, CT: ct}
		k := r.Range(1, 7)
		if r.Chance(1, 3) {
			k = r.Range(8, 14)
		}
		pos := r.Intn(k + 1)
		for i := 0; i <= k; i++ {
			if i == pos {
				n.Kids = append(n.Kids, full())
			} else {
				n.Kids = append(n.Kids, empty())
			}
		}
		if r.Chance(1, 4) {
			n.Kids = append(n.Kids, full())
		}
		return n
	}
	var core *lib.Node
	switch r.Intn(5) {
	case 0:
		core = mix(lib.KMLine, func() *lib.Node { return emptyOf(lib.KLine) }, shortLine)
	case 1:
		core = mix(lib.KMPoly, func() *lib.Node { return emptyOf(lib.KPoly) }, triangle)
	case 2:
		// collection of empties of all kinds and one point
		core = mix(lib.KColl, func() *lib.Node { return emptyOf(lib.Kind(r.Intn(7))) }, pt)
	case 3:
		core = &lib.Node{Kind: lib.KMPoint, CT: ct}
		for i, k := 0, r.Range(1, 12); i < k; i++ {
			core.Kids = append(core.Kids, pt())
		}
	default:
		// collection of empties with a short non-empty Multi* (itself mostly empty) somewhere
		inner := mix(lib.KMLine, func() *lib.Node { return emptyOf(lib.KLine) }, shortLine)
		core = mix(lib.KColl, func() *lib.Node { return emptyOf(lib.Kind(r.Intn(7))) }, func() *lib.Node { return inner })
	}
	g.stats["minsize_"+lib.KindTag[core.Kind]]++
	switch r.Intn(4) {
	case 0:
		// last member of a collection, after 0..2 other members
		n := &lib.Node{Kind: lib.KColl, CT: ct}
		for i, k := 0, r.Intn(3); i < k; i++ {
			if r.Bool() {
				n.Kids = append(n.Kids, pt())
			} else {
				n.Kids = append(n.Kids, emptyOf(lib.Kind(r.Intn(7))))
			}
		}
		n.Kids = append(n.Kids, core)
		g.stats["minsize_last_member"]++
		return n
	case 1:
		// last member of a collection nested in a collection
		inner := &lib.Node{Kind: lib.KColl, CT: ct, Kids: []*lib.Node{emptyOf(lib.KPoint), core}}
		g.stats["minsize_nested_last"]++
		return &lib.Node{Kind: lib.KColl, CT: ct, Kids: []*lib.Node{pt(), inner}}
	}
	g.stats["minsize_top"]++
	return core
}

// extremes builds a two- or three-point geometry whose ordinates, scaled by 10^7, lie near -2^62
// and +2^62 (|k| between 4.0e11 and 9.2e11, q = 0).
func (g *gen) extremes(ct geom.CoordinatesType) *lib.Node {
	r := g.r
	g.q, g.unit = 0, 1
	big := func(sign int64) int64 { return sign * (400000000000 + int64(r.U64()%520000000000)) }
	pt := func(sign int64) *lib.Node {
		var v [4]float64
		v[0], v[1] = float64(big(sign)), float64(big(-sign))
		if ct.Is3D() {
			v[2] = float64(big(sign))
		}
		if ct.IsMeasured() {
			v[3] = float64(big(-sign) / 1000)
		}
		return &lib.Node{Kind: lib.KPoint, CT: ct, Full: true, C: [][4]float64{v}}
	}
	a, b := pt(1), pt(-1)
	switch r.Intn(3) {
	case 0:
		return &lib.Node{Kind: lib.KMPoint, CT: ct, Kids: []*lib.Node{a, b}}
	case 1:
		return &lib.Node{Kind: lib.KLine, CT: ct, C: [][4]float64{a.C[0], b.C[0], pt(1).C[0]}}
	}
	return &lib.Node{Kind: lib.KColl, CT: ct, Kids: []*lib.Node{a, &lib.Node{Kind: lib.KColl, CT: ct, Kids: []*lib.Node{b}}}}
}

func pow10i(q int) int64 {
	v := int64(1)
	for i := 0; i < q; i++ {
		v *= 10
	}
	return v
}

func ip(v int) *int { return &v }

func memberCount(n *lib.Node) int {
	switch n.Kind {
	case lib.KPoint, lib.KLine, lib.KPoly:
		return 1
	}
	return len(n.Kids)
}

func (g *gen) options(n *lib.Node, class string) optSet {
	r := g.r
	var o optSet
	switch r.Intn(6) {
	case 0:
		o.pxy = g.q
	case 1:
		o.pxy = g.q - 1
	case 2:
		o.pxy = g.q + 1
	case 3:
		o.pxy = r.Range(-8, 0)
	default:
		o.pxy = r.Range(-8, 7)
	}
	if o.pxy > 7 {
		o.pxy = 7
	}
	if o.pxy < -8 {
		o.pxy = -8
	}
	if n.CT.Is3D() || r.Chance(1, 10) {
		if o.pxy < 0 || r.Chance(2, 3) {
			o.pz = ip(r.Range(0, 7))
		}
	}
	if n.CT.IsMeasured() || r.Chance(1, 10) {
		if o.pxy < 0 || r.Chance(2, 3) {
			o.pm = ip(r.Range(0, 7))
		}
	}
	o.size, o.bbox, o.closeRg = r.Bool(), r.Bool(), r.Bool()
	multi := n.Kind >= lib.KMPoint
	switch {
	case multi && r.Chance(45, 100):
		cnt := len(n.Kids)
		if class == "idmismatch" {
			cnt += r.Range(1, 2)
		}
		for i := 0; i < cnt; i++ {
			switch r.Intn(4) {
			case 0:
				o.ids = append(o.ids, int64(r.U64()))
			default:
				o.ids = append(o.ids, int64(r.Range(-1000, 1000)))
			}
		}
	case !multi && class == "idsonsingle":
		o.ids = []int64{int64(r.Range(-5, 500))}
	}
	if class == "badprec" {
		switch r.Intn(4) {
		case 0:
			o.pxy = []int{-9, 8, 12, -20}[r.Intn(4)]
		case 1:
			o.pz = ip([]int{-1, 8, 9}[r.Intn(3)])
		case 2:
			o.pm = ip([]int{-1, 8, 100}[r.Intn(3)])
		default:
			// the default rule: precZ = precXY when the option is absent
			o.pxy = r.Range(-8, -1)
			o.pz, o.pm = nil, nil
		}
	}
	return o
}

// near-closed ring: the vertex before the last rounds onto the first one (finding F19)
func (g *gen) f19(ct geom.CoordinatesType) (*lib.Node, int) {
	n := &lib.Node{Kind: lib.KPoly, CT: ct}
	ring := &lib.Node{Kind: lib.KLine, CT: ct}
	g.q = 1
	for _, p := range [][2]int64{{0, 0}, {100, 0}, {100, 100}, {4, 4}} {
		ring.C = append(ring.C, g.vertex(ct, p[0], p[1]))
	}
	ring.C = append(ring.C, ring.C[0])
	n.Kids = []*lib.Node{ring}
	return n, 0
}

// decodeChild is the body of the child process that decodes one untrusted byte string: a fatal
// runtime error (out of memory) kills only the child. Address space is capped at 3 GiB.
func decodeChild(hexs string) {
	lim := syscall.Rlimit{Cur: 3 << 30, Max: 3 << 30}
	_ = syscall.Setrlimit(syscall.RLIMIT_AS, &lim)
	b := lib.UnHex(hexs)
	var m0, m1 runtime.MemStats
	runtime.ReadMemStats(&m0)
	dd := decodeObs(b)
	runtime.ReadMemStats(&m1)
	alloc := m1.TotalAlloc - m0.TotalAlloc
	fmt.Printf("%s\t%s\t%s\t%s\t%d\n", dd, sizeObs(b), envObs(b), idsObs(b), alloc)
}

// decodeInChild returns the five observation fields, or CRASH fields when the child died.
func decodeInChild(b []byte) string {
	cmd := exec.Command(os.Args[0], "-decode-child")
	cmd.Env = append(os.Environ(), "C07_DECODE_HEX="+lib.Hex(b), "GOGC=off")
	out, err := cmd.Output()
	line := strings.TrimRight(string(out), "\n")
	if err != nil || strings.Count(line, "\t") != 4 {
		return "CRASH\tCRASH\tCRASH\tCRASH\t0"
	}
	return line
}

func main() {
	if len(os.Args) > 1 && os.Args[1] == "-decode-child" {
		decodeChild(os.Getenv("C07_DECODE_HEX"))
		return
	}
	a := lib.ParseArgs()
	w, done := a.Output()
	defer done()
	root := lib.NewRng(a.Seed)
	classes := map[string]int{}
	stats := map[string]int{}
	precHist := map[int]int{}
	var okBytes [][]byte
	id := 0
	emit := func(fields ...string) {
		fmt.Fprintln(w, strings.Join(append([]string{fmt.Sprintf("%d", id)}, fields...), "\t"))
		id++
	}
	nR := a.N * 4 / 5
	for i := 0; i < nR; i++ {
		r := root.Fork()
		g := &gen{r: r, stats: stats}
		class := "valid"
		switch i % 20 {
		case 3:
			class = "big" // |k| up to 2^40 at high precision: int64 overflow region (F18)
		case 7:
			class = "badprec"
		case 11:
			class = "idmismatch"
		case 13:
			class = "idsonsingle"
		case 17:
			class = "f19"
		case 19:
			class = "emptyheavy"
		case 1, 5, 9, 15:
			class = "minsize" // minimum-size encodings: where count guards bite
		}
		classes[class]++
		g.q = r.Range(0, 7)
		switch r.Intn(4) {
		case 0:
			g.mag = 50
		case 1:
			g.mag = 100000
		case 2:
			g.mag = 1 << 30
		default:
			g.mag = 1<<40 - 1
		}
		g.unit = []int64{1, 1, 3, 10, 1000, 12345}[r.Intn(6)]
		if class == "big" {
			g.q = r.Range(0, 2)
			g.mag = 1<<40 - 1
		}
		ct := geom.CoordinatesType(r.Intn(4))
		emptyP := 12
		if class == "emptyheavy" {
			emptyP = 45
		}
		var n *lib.Node
		force := -1
		switch class {
		case "idsonsingle":
			force = r.Intn(3)
		case "idmismatch":
			force = 3 + r.Intn(4)
		}
		if class == "f19" && ct != geom.DimXY && r.Chance(1, 3) {
			// finding F73: closing vertex differs from the first one in Z/M only
			n = g.polyAt(ct, g.k(), g.k(), 0)
			ring := n.Kids[0]
			last := ring.C[len(ring.C)-1]
			last[2] += g.ord(int64(r.Range(1, 9)) * pow10i(g.q))
			last[3] -= g.ord(int64(r.Range(1, 9)) * pow10i(g.q))
			ring.C[len(ring.C)-1] = last
			stats["f73_inputs"]++
		} else if class == "f19" {
			n, _ = g.f19(ct)
			if r.Bool() {
				n = &lib.Node{Kind: lib.KMPoly, CT: ct, Kids: []*lib.Node{n, g.polyAt(ct, 1000, 1000, 0)}}
			}
		} else if class == "minsize" {
			n = g.minsize(ct)
		} else if class == "big" && i%3 == 0 {
			// opposite-sign extremes near +-2^62 after scaling by 10^7: every ordinate fits int64,
			// but max - min of the bounding box does not (the stored delta wraps)
			n = g.extremes(ct)
		} else {
			n = g.geomNode(ct, 3, emptyP, force)
		}
		o := g.options(n, class)
		if class == "f19" {
			o.pxy = 0
		}
		if class == "big" {
			o.pxy = r.Range(5, 7)
		}
		if class == "big" && i%3 == 0 {
			o.pxy, o.bbox = 7, true
			if ct.Is3D() {
				o.pz = ip(7)
			}
			if ct.IsMeasured() {
				o.pm = ip(r.Range(0, 7))
			}
			stats["big_extremes"]++
		}
		if class == "minsize" && !r.Chance(1, 5) {
			// keep every delta in one byte; mostly without the headers that add trailing bytes
			o.pxy = 0
			if ct.Is3D() {
				o.pz = ip(0)
			}
			if ct.IsMeasured() {
				o.pm = ip(0)
			}
			if r.Chance(2, 3) {
				o.size, o.bbox = false, false
			}
			// one-byte IDs (|id| < 64): with the default IDs (two to ten bytes each) the ID list
			// itself pads the input and a too strict guard on the ID count (parseIDList) never
			// bites
			if len(o.ids) > 0 && r.Chance(3, 4) {
				for j := range o.ids {
					o.ids[j] = int64(r.Range(-63, 63))
				}
				stats["minsize_small_ids"]++
			}
		}
		precHist[o.pxy]++
		if o.size {
			stats["opt_size"]++
		}
		if o.bbox {
			stats["opt_bbox"]++
		}
		if o.closeRg {
			stats["opt_close"]++
		}
		if len(o.ids) > 0 {
			stats["opt_ids"]++
		}
		gg := n.Build()
		valid := gg.Validate() == nil
		if valid {
			stats["valid"]++
		}
		if gg.IsEmpty() {
			stats["empty_top"]++
		}
		b, err := geom.MarshalTWKB(gg, o.pxy, o.goOpts()...)
		mh, dd, sz, env, ids := "ERR", "-", "-", "-", "-"
		if err == nil {
			mh = lib.Hex(b)
			dd = decodeObs(b)
			sz, env, ids = sizeObs(b), envObs(b), idsObs(b)
			if len(okBytes) < 4000 {
				okBytes = append(okBytes, b)
			}
		} else {
			stats["marshal_err"]++
		}
		emit("R", class, o.String(), lib.Dump(gg), mh, dd, sz, env, ids, b01(valid))
	}

	// ---- decoder cases: hand-made and mutated byte strings ----
	uv := func(v uint64) []byte {
		var buf [binary.MaxVarintLen64]byte
		return buf[:binary.PutUvarint(buf[:], v)]
	}
	cat := func(parts ...[]byte) []byte {
		var out []byte
		for _, p := range parts {
			out = append(out, p...)
		}
		return out
	}
	var fixed [][]byte
	bigCounts := []uint64{1 << 62, 1<<63 - 1, 1 << 63, 1<<64 - 1, 1<<63 + 5, 1 << 61, 1 << 20, 1<<21 + 3, 3 << 19}
	for _, c := range bigCounts {
		fixed = append(fixed,
			cat([]byte{0x02, 0x00}, uv(c)),                         // LineString, huge point count (F7)
			cat([]byte{0x02, 0x00}, uv(c), []byte{2, 4, 6, 8}),     //
			cat([]byte{0x03, 0x00, 0x01}, uv(c), []byte{2, 4}),     // Polygon ring count
			cat([]byte{0x03, 0x00}, uv(c), []byte{1, 2, 4}),        // Polygon: huge ring count
			cat([]byte{0x04, 0x04}, uv(c), []byte{2, 4}),           // MultiPoint + ID list, huge count
			cat([]byte{0x04, 0x00}, uv(c), []byte{2, 4}),           // MultiPoint, huge count
			cat([]byte{0x05, 0x00, 0x01}, uv(c), []byte{2, 4}),     // MultiLineString member count
			cat([]byte{0x07, 0x04}, uv(c), []byte{1, 0, 2, 4}),     // collection + ID list
			cat([]byte{0x07, 0x00}, uv(c), []byte{1, 0, 2, 4}),     // collection, huge count
			cat([]byte{0x01, 0x02}, uv(c), []byte{2, 4}),           // size header larger than the input
			cat([]byte{0x06, 0x08, 0x03, 0x01, 0x01}, uv(c), []byte{2, 4, 6}), // MultiPolygon Z+M
		)
	}
	fixed = append(fixed,
		[]byte{}, []byte{0x01}, []byte{0x01, 0x00}, []byte{0x00, 0x00}, []byte{0x08, 0x00, 0x00}, []byte{0x0f, 0x10},
		[]byte{0x01, 0x04, 0x02, 0x04},             // ID flag on a Point
		[]byte{0x01, 0x10}, []byte{0x21, 0x18, 0x03}, // empty point; empty point with ext flag
		[]byte{0x01, 0x00, 0x80, 0x00, 0x81, 0x00}, // non-canonical varints
		[]byte{0x01, 0x00, 0xff, 0xff, 0xff, 0xff, 0xff, 0xff, 0xff, 0xff, 0xff, 0x01, 0x02}, // varint overflow
		[]byte{0x01, 0x00, 0xff, 0xff, 0xff, 0xff, 0xff, 0xff, 0xff, 0xff, 0xff, 0x02, 0x02},
		[]byte{0x03, 0x00, 0x01, 0x04, 0, 0, 20, 0, 0, 20, 19, 19},       // ring sent closed
		[]byte{0x03, 0x00, 0x01, 0x02, 0, 0, 0, 0},                       // two equal points
		[]byte{0x03, 0x00, 0x02, 0x00, 0x03, 2, 2, 4, 4, 1, 1},           // empty ring then open ring
		[]byte{0x07, 0x00, 0x02, 0x01, 0x10, 0x02, 0x08, 0x01, 0x02, 2, 4, 6, 8, 10, 12}, // members of different types
		[]byte{0x07, 0x08, 0x01, 0x02, 0x07, 0x00, 0x01, 0x01, 0x00, 2, 4, 0x01, 0x08, 0x03, 2, 4, 6, 8}, // nested, mixed dimensions
		[]byte{0x02, 0x01, 0x00, 0x01, 0x02, 0x03, 0x02, 2, 4, 6, 8},      // bbox with negative delta
		[]byte{0x04, 0x07, 0x0b, 0x02, 0x04, 0x04, 0x04, 0x02, 0x0a, 0x0b, 0x02, 0x04, 0x04, 0x04},
	)
	nD := a.N - nR
	for i := 0; i < nD; i++ {
		r := root.Fork()
		var b []byte
		class := "fixed"
		switch {
		case i < len(fixed):
			b = fixed[i]
		case len(okBytes) == 0:
			b = []byte{byte(r.Intn(256)), byte(r.Intn(32)), byte(r.Intn(256))}
			class = "random"
		default:
			src := okBytes[r.Intn(len(okBytes))]
			b = append([]byte(nil), src...)
			switch r.Intn(5) {
			case 0:
				class = "truncated"
				b = b[:r.Intn(len(b)+1)]
			case 1:
				class = "byteflip"
				if len(b) > 0 {
					b[r.Intn(len(b))] = byte(r.Intn(256))
				}
			case 2:
				class = "bitflip"
				if len(b) > 0 {
					b[r.Intn(len(b))] ^= 1 << uint(r.Intn(8))
				}
			case 3:
				class = "hugecount"
				// replace one byte after the header by a huge or a moderately large uvarint
				if len(b) > 2 {
					p := r.Range(2, len(b)-1)
					c := bigCounts[r.Intn(len(bigCounts))]
					b = cat(b[:p], uv(c), b[p+1:])
				}
			default:
				class = "headerflip"
				if len(b) > 1 {
					b[1] ^= 1 << uint(r.Intn(5))
				}
			}
		}
		classes["D_"+class]++
		emit("D", class, lib.Hex(b), decodeInChild(b))
	}
	js, _ := json.Marshal(map[string]interface{}{"classes": classes, "stats": stats, "precXY_hist": precHist})
	fmt.Fprintf(w, "#GEN\t%s\n", js)
}
