package main

import (
	"fmt"
	"os"
	"regexp"
	"runtime"
	"strings"
	"sync"
	"sync/atomic"
	"syscall"

	"github.com/peterstace/simplefeatures/geom"
	"verifharness/lib"
)

// The concurrent phase ("never terminates the process" when several goroutines decode at once):
// a sacrificial child runs concGoroutines goroutines, each decoding its own stream of documents
// of one format (or of all four, "mixed") drawn from the corpus in MANY DISTINCT spellings -
// keyword letter-case variants and white space for WKT, member-name case, number spellings and
// white space for GeoJSON, both byte orders and mixed byte orders for WKB, every header option
// for TWKB - alternately with and without validation. A runtime throw (concurrent map writes,
// ...) kills the child and cannot be recovered: the parent reports a process death of class
// "concurrent" with a sample of the batch (a race does not bisect deterministically). Recovered
// panics are counted and reported as well. With -race the same phase is the data-race detector's
// workload (tools/c08_race.py).
const (
	concGoroutines = 12
	concDocsQuick  = 1500
)

var concFormats = []string{"wkt", "json", "wkb", "twkb", "mixed"}

var wktWord = regexp.MustCompile(`[A-Za-z]+`)

func randCaseWord(r *lib.Rng, w string) string {
	if w == "Z" || w == "M" || w == "ZM" { // the dimension tags are compared as written
		if r.Chance(1, 8) {
			return strings.ToLower(w)
		}
		return w
	}
	b := []byte(w)
	for i := range b {
		if r.Bool() {
			b[i] = byte(strings.ToLower(string(b[i]))[0])
		} else {
			b[i] = byte(strings.ToUpper(string(b[i]))[0])
		}
	}
	return string(b)
}

func respellWKT(r *lib.Rng, s string) string {
	s = wktWord.ReplaceAllStringFunc(s, func(w string) string { return randCaseWord(r, w) })
	if r.Chance(1, 3) {
		s = strings.ReplaceAll(s, "(", " ( ")
	}
	if r.Chance(1, 3) {
		s = strings.ReplaceAll(s, ",", " ,\t")
	}
	return s
}

var jsonKeyOrNum = regexp.MustCompile(`"(type|coordinates|geometries)"|-?[0-9]+(?:\.[0-9]+)?`)

func respellJSON(r *lib.Rng, s string) string {
	s = jsonKeyOrNum.ReplaceAllStringFunc(s, func(w string) string {
		if w[0] == '"' {
			if r.Chance(1, 2) {
				return w
			}
			return `"` + randCaseWord(r, w[1:len(w)-1]) + `"`
		}
		switch r.Intn(5) {
		case 0:
			return w + "e0"
		case 1:
			if !strings.Contains(w, ".") {
				return w + ".0"
			}
		case 2:
			if !strings.Contains(w, ".") {
				return w + "0e-1"
			}
		}
		return w
	})
	if r.Chance(1, 3) {
		s = strings.ReplaceAll(s, ",", " ,\n")
	}
	if r.Chance(1, 3) {
		s = strings.ReplaceAll(s, ":", " : ")
	}
	return s
}

// concDoc produces the k-th document of a goroutine's stream.
func concDoc(r *lib.Rng, corpus []corpusEntry, format string) (string, []byte) {
	if format == "mixed" {
		format = concFormats[r.Intn(4)]
	}
	c := corpus[r.Intn(len(corpus))]
	switch format {
	case "wkt":
		return format, []byte(respellWKT(r, c.wkt))
	case "json":
		b, err := c.g.MarshalJSON()
		if err != nil {
			return format, []byte(`{"type":"Point","coordinates":[1,2]}`)
		}
		return format, []byte(respellJSON(r, string(b)))
	case "wkb":
		switch r.Intn(3) {
		case 0:
			return format, c.g.AsBinary()
		case 1:
			return format, lib.NodeOf(c.g).WKBMixed(func() bool { return false })
		}
		return format, lib.NodeOf(c.g).WKBMixed(func() bool { return r.Bool() })
	default:
		var opts []geom.TWKBWriterOption
		if r.Bool() {
			opts = append(opts, geom.TWKBSizeHeader())
		}
		if r.Bool() {
			opts = append(opts, geom.TWKBBoundingBoxHeader())
		}
		b, err := geom.MarshalTWKB(c.g, r.Range(0, 5), opts...)
		if err != nil {
			b, _ = geom.MarshalTWKB(geom.NewPointXY(1, 2).AsGeometry(), 0)
		}
		return "twkb", b
	}
}

// runConc is the child side. It prints one line "panics=<n>\t<first message>" to resPath.
func runConc(format string, seed uint64, docs int, resPath string, sampleOnly bool) {
	lim := uint64(childASLimit) * 4 // the race detector's shadow memory needs address space
	_ = syscall.Setrlimit(syscall.RLIMIT_AS, &syscall.Rlimit{Cur: lim, Max: lim})
	corpus := buildCorpus()
	root := lib.NewRng(seed ^ 0xC0C08)
	if sampleOnly { // the first documents of goroutine 0, for the replay
		r := root.Fork()
		var sb strings.Builder
		for k := 0; k < 40; k++ {
			f, d := concDoc(r, corpus, format)
			fmt.Fprintf(&sb, "%s %s\n", f, lib.Hex(d))
		}
		os.WriteFile(resPath, []byte(sb.String()), 0o644)
		return
	}
	if runtime.GOMAXPROCS(0) < 4 {
		runtime.GOMAXPROCS(4)
	}
	var panics atomic.Int64
	var first atomic.Value
	var wg sync.WaitGroup
	start := make(chan struct{})
	for gi := 0; gi < concGoroutines; gi++ {
		r := root.Fork()
		wg.Add(1)
		go func(gi int) {
			defer wg.Done()
			<-start
			for k := 0; k < docs; k++ {
				f, d := concDoc(r, corpus, format)
				validate := (k+gi)%2 == 0
				c, m := call(func() error { _, err := decode(f, d, validate); return err })
				if c == 'p' {
					if panics.Add(1) == 1 {
						first.Store(fmt.Sprintf("%s validate=%v input=%s: %s", f, validate, lib.Hex(d), m))
					}
				}
			}
		}(gi)
	}
	close(start)
	wg.Wait()
	msg, _ := first.Load().(string)
	os.WriteFile(resPath, []byte(fmt.Sprintf("panics=%d\t%s\n", panics.Load(), strings.ReplaceAll(msg, "\t", " "))), 0o644)
}
