package main

import (
	"bytes"
	"encoding/binary"
	"fmt"
	"os"
	"regexp"
	"strings"

	"github.com/peterstace/simplefeatures/geom"
	"verifharness/lib"
)

// The corpus of valid encodings: every type x every coordinates type, empties, empty members,
// nesting, and a few parseable-but-invalid geometries (so that the validation gate has both
// outcomes). Written as WKT; every other encoding is derived from the parsed value.
var corpusWKT = []string{
	"POINT(1 2)", "POINT Z (1 2 3)", "POINT M (1 2 3)", "POINT ZM (1 2 3 4)", "POINT EMPTY", "POINT Z EMPTY",
	"POINT(-1.5 2.25e10)",
	"LINESTRING(1 2,3 4)", "LINESTRING Z (1 2 3,4 5 6,7 8 9)", "LINESTRING M (1 2 3,4 5 6)",
	"LINESTRING ZM (1 2 3 4,5 6 7 8)", "LINESTRING EMPTY", "LINESTRING ZM EMPTY",
	"POLYGON((0 0,4 0,4 4,0 4,0 0))", "POLYGON((0 0,10 0,10 10,0 10,0 0),(2 2,8 2,8 8,2 8,2 2))",
	"POLYGON Z ((0 0 1,4 0 1,4 4 1,0 4 1,0 0 1))", "POLYGON M ((0 0 1,4 0 1,4 4 1,0 4 1,0 0 1))",
	"POLYGON ZM ((0 0 1 2,4 0 1 2,4 4 1 2,0 4 1 2,0 0 1 2))", "POLYGON EMPTY", "POLYGON M EMPTY",
	"MULTIPOINT(1 2,3 4)", "MULTIPOINT((1 2),EMPTY,(5 6))", "MULTIPOINT Z (1 2 3,4 5 6)", "MULTIPOINT M (1 2 3)",
	"MULTIPOINT ZM (1 2 3 4,5 6 7 8)", "MULTIPOINT EMPTY", "MULTIPOINT Z EMPTY",
	"MULTILINESTRING((0 0,1 1),(2 2,3 3,4 5))", "MULTILINESTRING((0 0,1 1),EMPTY)",
	"MULTILINESTRING Z ((0 0 1,1 1 2))", "MULTILINESTRING M ((0 0 1,1 1 2))",
	"MULTILINESTRING ZM ((0 0 1 2,1 1 2 3),(5 5 5 5,6 6 6 6))", "MULTILINESTRING EMPTY",
	"MULTIPOLYGON(((0 0,4 0,4 4,0 4,0 0)),((10 10,14 10,14 14,10 14,10 10),(11 11,12 11,12 12,11 12,11 11)))",
	"MULTIPOLYGON(((0 0,4 0,4 4,0 4,0 0)),EMPTY)", "MULTIPOLYGON Z (((0 0 1,4 0 1,4 4 1,0 4 1,0 0 1)))",
	"MULTIPOLYGON M (((0 0 1,4 0 1,4 4 1,0 4 1,0 0 1)))", "MULTIPOLYGON ZM (((0 0 1 2,4 0 1 2,4 4 1 2,0 4 1 2,0 0 1 2)))",
	"MULTIPOLYGON EMPTY",
	"GEOMETRYCOLLECTION(POINT(1 2),LINESTRING(3 4,5 6))",
	"GEOMETRYCOLLECTION(GEOMETRYCOLLECTION(POINT(1 2)),POLYGON((0 0,4 0,4 4,0 4,0 0)),MULTIPOINT(1 1))",
	"GEOMETRYCOLLECTION Z (POINT Z (1 2 3),LINESTRING Z (3 4 5,5 6 7))", "GEOMETRYCOLLECTION M (POINT M (1 2 3))",
	"GEOMETRYCOLLECTION ZM (POINT ZM (1 2 3 4),MULTIPOLYGON ZM (((0 0 1 2,4 0 1 2,4 4 1 2,0 4 1 2,0 0 1 2))))",
	"GEOMETRYCOLLECTION EMPTY", "GEOMETRYCOLLECTION(GEOMETRYCOLLECTION EMPTY,POINT EMPTY)",
	"GEOMETRYCOLLECTION(MULTILINESTRING((0 0,1 1)),MULTIPOLYGON(((0 0,4 0,4 4,0 4,0 0))),GEOMETRYCOLLECTION(LINESTRING(0 0,1 1)))",
	// parseable, but not valid
	"LINESTRING(1 1)", "LINESTRING(1 1,1 1)", "POLYGON((0 0,1 1,0 1))", "POLYGON((0 0,4 4,4 0,0 4,0 0))",
	"MULTIPOLYGON(((0 0,4 0,4 4,0 4,0 0)),((1 1,2 1,2 2,1 2,1 1)))", "POLYGON((0 0,4 0,4 4,0 4,0 0),(10 10,11 10,11 11,10 11,10 10))",
	"GEOMETRYCOLLECTION(LINESTRING(1 1))",
}

type corpusEntry struct {
	wkt  string
	g    geom.Geometry
	core bool // first entry of its type: gets the densest enumeration in the quick tier
	semi bool // second rank: all-256 substitution at nested header fields as well
}

func buildCorpus() []corpusEntry {
	var out []corpusEntry
	seenType := map[string]bool{}
	for _, s := range corpusWKT {
		var g geom.Geometry
		c, m := call(func() (err error) { g, err = geom.UnmarshalWKT(s, geom.NoValidate{}); return })
		if c != 'o' {
			fmt.Fprintf(os.Stderr, "c08: corpus entry %q not accepted by UnmarshalWKT (%c %s)\n", s, c, m)
			continue
		}
		key := g.Type().String()
		out = append(out, corpusEntry{wkt: s, g: g, core: !seenType[key], semi: strings.Contains(s, " ZM (") || strings.Contains(s, "GEOMETRYCOLLECTION(GEOMETRYCOLLECTION(")})
		seenType[key] = true
	}
	if len(out) < len(corpusWKT)*3/4 {
		fmt.Fprintln(os.Stderr, "c08: cannot build the corpus of valid encodings")
		os.Exit(2)
	}
	return out
}

// deepest complete nested document decoded (and then re-encoded four ways) in the quick tier
const quickDeep = 2000

type gen struct {
	ins      []input
	classes  map[string]int
	thorough bool
	r        *lib.Rng
}

func (g *gen) add(class, format string, data []byte) {
	if len(data) > 65536 {
		data = data[:65536]
	}
	// The extracted models are slow on deep or wide documents above 16 KiB (the WKB model measures
	// the unread length in unary at every loop entry: tens of seconds each): in the quick tier
	// these are marked and the driver evaluates only the executable statement on them (thorough:
	// compared with the models as well, except TWKB, whose model needs minutes per document).
	if (!g.thorough || format == "twkb") && len(data) > 16384 && (class == "deepnest" || class == "amplify") {
		class += "_big"
	}
	g.ins = append(g.ins, input{class: class, fmt: format, data: append([]byte(nil), data...)})
	g.classes[format+"/"+class]++
}

func generate(a lib.Args) ([]input, map[string]interface{}) {
	g := &gen{classes: map[string]int{}, thorough: a.Tier == "thorough", r: lib.NewRng(a.Seed)}
	corpus := buildCorpus()
	g.genWKB(corpus, a.N)
	g.genTWKB(corpus, a.N)
	g.genWKT(corpus, a.N)
	g.genJSON(corpus, a.N)
	g.genHuge()
	dist := map[string]interface{}{"classes": g.classes, "corpus_entries": len(corpus)}
	return g.ins, dist
}

// boundary values substituted at positions that are not header/count/type bytes
func boundaryBytes(old byte) []byte {
	return []byte{0x00, 0x01, 0x7f, 0x80, 0xff, old ^ 0x01, old ^ 0x80, old + 1, old - 1}
}

func withByte(b []byte, off int, v byte) []byte {
	out := append([]byte(nil), b...)
	out[off] = v
	return out
}

func splice(b []byte, off, n int, repl []byte) []byte {
	out := append([]byte(nil), b[:off]...)
	out = append(out, repl...)
	return append(out, b[off+n:]...)
}

func (g *gen) randBytes(n int) []byte {
	out := make([]byte, n)
	for i := 0; i < n; i += 8 {
		v := g.r.U64()
		for j := 0; j < 8 && i+j < n; j++ {
			out[i+j] = byte(v >> (8 * uint(j)))
		}
	}
	return out
}

// ---------------------------------------------------------------- WKB

type wkbField struct {
	off   int
	width int // 1 byte-order mark, 4 type word or count word
	kind  string
	root  bool
	le    bool // byte order of the element the field belongs to
}

// wkbFields walks a valid WKB document and lists its header fields.
func wkbFields(b []byte) []wkbField {
	var out []wkbField
	var walk func(pos int, root bool) int
	u32 := func(pos int, le bool) uint32 {
		if le {
			return binary.LittleEndian.Uint32(b[pos:])
		}
		return binary.BigEndian.Uint32(b[pos:])
	}
	walk = func(pos int, root bool) int {
		le := b[pos] == 1
		out = append(out, wkbField{pos, 1, "bo", root, le})
		code := u32(pos+1, le)
		out = append(out, wkbField{pos + 1, 4, "type", root, le})
		pos += 5
		dim := []int{2, 3, 3, 4}[code/1000]
		seq := func(root bool) {
			n := int(u32(pos, le))
			out = append(out, wkbField{pos, 4, "count", root, le})
			pos += 4 + 8*dim*n
		}
		switch code % 1000 {
		case 1:
			pos += 8 * dim
		case 2:
			seq(root)
		case 3:
			n := int(u32(pos, le))
			out = append(out, wkbField{pos, 4, "count", root, le})
			pos += 4
			for i := 0; i < n; i++ {
				seq(false)
			}
		default:
			n := int(u32(pos, le))
			out = append(out, wkbField{pos, 4, "count", root, le})
			pos += 4
			for i := 0; i < n; i++ {
				pos = walk(pos, false)
			}
		}
		return pos
	}
	walk(0, true)
	return out
}

var counts32 = []uint32{0, 1, 1<<31 - 1, 1 << 31, 1<<32 - 1}

func (g *gen) genWKB(corpus []corpusEntry, n int) {
	const f = "wkb"
	for ci, c := range corpus {
		docs := [][]byte{c.g.AsBinary()}
		node := lib.NodeOf(c.g)
		docs = append(docs, node.WKBMixed(func() bool { return false }))
		if g.thorough || c.semi {
			docs = append(docs, node.WKBMixed(func() bool { return g.r.Bool() }))
		}
		for di, doc := range docs {
			dense := g.thorough || (c.core && di == 0)
			g.add("valid", f, doc)
			// every truncation
			if di == 0 || c.core || c.semi || g.thorough {
				for k := 0; k < len(doc); k++ {
					g.add("trunc", f, doc[:k])
				}
			}
			fields := wkbFields(doc)
			isHdr := make([]bool, len(doc))
			for _, fl := range fields {
				for k := 0; k < fl.width; k++ {
					isHdr[fl.off+k] = true
				}
				// every 4-byte field overwritten with the boundary counts, both endiannesses
				if fl.width == 4 {
					for _, v := range counts32 {
						var w [4]byte
						binary.LittleEndian.PutUint32(w[:], v)
						g.add("count32", f, splice(doc, fl.off, 4, w[:]))
						binary.BigEndian.PutUint32(w[:], v)
						g.add("count32", f, splice(doc, fl.off, 4, w[:]))
					}
					if fl.kind == "count" { // off-by-one and off-by-two counts in the document's own byte order
						le := doc[0] == 1
						for _, d := range []int{-1, 1, 2} {
							var w [4]byte
							var cur uint32
							if le {
								cur = binary.LittleEndian.Uint32(doc[fl.off:])
								binary.LittleEndian.PutUint32(w[:], cur+uint32(d))
							} else {
								cur = binary.BigEndian.Uint32(doc[fl.off:])
								binary.BigEndian.PutUint32(w[:], cur+uint32(d))
							}
							g.add("count_off", f, splice(doc, fl.off, 4, w[:]))
						}
					}
				}
				// all 256 values at header/count/type offsets (quick tier: root fields of every
				// document, all fields of the core documents; elsewhere boundary values)
				for k := 0; k < fl.width; k++ {
					off := fl.off + k
					if (g.thorough && di < 2) || (dense && (fl.root || k == 0)) || (c.semi && di == 0 && k == 0) {
						for v := 0; v < 256; v++ {
							if byte(v) != doc[off] {
								g.add("sub256", f, withByte(doc, off, byte(v)))
							}
						}
					} else {
						for _, v := range boundaryBytes(doc[off]) {
							if v != doc[off] {
								g.add("subbnd_hdr", f, withByte(doc, off, v))
							}
						}
					}
				}
			}
			// boundary values at payload offsets
			stride := 1
			if !g.thorough {
				stride = 1 + len(doc)/16
				if !dense {
					stride *= 4
				}
			}
			for off := (ci + di) % stride; off < len(doc); off += stride {
				if isHdr[off] {
					continue
				}
				for _, v := range boundaryBytes(doc[off]) {
					if v != doc[off] {
						g.add("subbnd", f, withByte(doc, off, v))
					}
				}
			}
		}
	}
	// two-fault sequences on short documents: a type word with flag bits / out-of-table codes (the
	// PostGIS EWKB flags 0x80000000 Z, 0x40000000 M, 0x20000000 SRID and their combinations, with
	// and without the SRID word EWKB puts behind the type; ISO codes beyond 3007) or a count with a
	// boundary value, at the root and at nested members, in the element's own byte order - and
	// then every truncation within the 6 bytes that follow the changed field (a reader that peeks
	// behind the field without a length check fails exactly there)
	for _, c := range corpus {
		if !(c.core || c.semi || g.thorough) {
			continue
		}
		node := lib.NodeOf(c.g)
		for di, doc := range [][]byte{c.g.AsBinary(), node.WKBMixed(func() bool { return false })} {
			if len(doc) > 200 && !g.thorough {
				continue
			}
			for _, fl := range wkbFields(doc) {
				if fl.width != 4 {
					continue
				}
				put := func(v uint32) []byte {
					var w [4]byte
					if fl.le {
						binary.LittleEndian.PutUint32(w[:], v)
					} else {
						binary.BigEndian.PutUint32(w[:], v)
					}
					return w[:]
				}
				var cur uint32
				if fl.le {
					cur = binary.LittleEndian.Uint32(doc[fl.off:])
				} else {
					cur = binary.BigEndian.Uint32(doc[fl.off:])
				}
				var variants [][]byte // the document after the first fault
				if fl.kind == "type" {
					t := cur % 1000
					for _, v := range []uint32{cur | 0x80000000, cur | 0x40000000, cur | 0x20000000, cur | 0xC0000000,
						cur | 0xA0000000, cur | 0x60000000, cur | 0xE0000000, t | 0x20000000, t | 0x10000000, t | 0x08000000,
						4000 + t, 3008, 7000 + t, 1000000 + t, cur + 1000, t + 0x20000000 + 1000} {
						variants = append(variants, splice(doc, fl.off, 4, put(v)))
					}
					// real EWKB: SRID flag and the SRID word behind the type
					for _, v := range []uint32{t | 0x20000000, t | 0xA0000000, cur | 0x20000000} {
						variants = append(variants, splice(doc, fl.off, 4, append(put(v), put(4326)...)))
					}
				} else {
					if di == 1 && !g.thorough && !fl.root {
						continue
					}
					for _, v := range counts32 {
						variants = append(variants, splice(doc, fl.off, 4, put(v)))
					}
					variants = append(variants, splice(doc, fl.off, 4, put(cur+1)))
				}
				for _, m := range variants {
					g.add("fault2_full", f, m)
					for k := fl.off + 4; k < len(m) && k <= fl.off+4+5; k++ {
						g.add("fault2", f, m[:k])
					}
				}
			}
		}
	}
	// a huge count over a short tail, for every type and both byte orders (the shape of F2)
	for t := uint32(1); t <= 7; t++ {
		for ct := uint32(0); ct < 4; ct++ {
			for _, le := range []bool{true, false} {
				for _, cnt := range []uint32{1<<32 - 1, 1 << 31, 1 << 27, 1 << 20, 4097} {
					for _, tail := range []int{0, 16, 64} {
						var b []byte
						var w [4]byte
						put := func(v uint32) {
							if le {
								binary.LittleEndian.PutUint32(w[:], v)
							} else {
								binary.BigEndian.PutUint32(w[:], v)
							}
							b = append(b, w[:]...)
						}
						if le {
							b = append(b, 1)
						} else {
							b = append(b, 0)
						}
						put(ct*1000 + t)
						put(cnt)
						if t == 3 { // polygon: one ring with the huge count as well
							put(cnt)
						}
						b = append(b, g.randBytes(tail)...)
						g.add("hugecount", f, b)
					}
				}
			}
		}
	}
	// deep nesting of collections, up to what 64 KiB can hold
	for _, d := range []int{1, 2, 10, 100, 1000, 2000, 7000, 7281} {
		var b []byte
		for i := 0; i < d; i++ {
			b = append(b, 1, 7, 0, 0, 0, 1, 0, 0, 0)
		}
		if d <= quickDeep || g.thorough { // complete documents: the harness's own re-encoding (GeoJSON) is quadratic in the depth
			g.add("deepnest", f, append(append([]byte(nil), b...), 1, 7, 0, 0, 0, 0, 0, 0, 0))
		}
		g.add("deepnest", f, b) // cut at the innermost header
	}
	// amplification: many tiny elements in a large input
	{
		b := []byte{1, 3, 0, 0, 0}
		var w [4]byte
		binary.LittleEndian.PutUint32(w[:], 16000)
		b = append(b, w[:]...)
		b = append(b, make([]byte, 4*16000)...) // 16000 rings of zero points
		g.add("amplify", f, b)
		b = []byte{1, 7, 0, 0, 0}
		binary.LittleEndian.PutUint32(w[:], 7000)
		b = append(b, w[:]...)
		for i := 0; i < 7000; i++ {
			b = append(b, 1, 7, 0, 0, 0, 0, 0, 0, 0) // empty collections
		}
		g.add("amplify", f, b)
		b = []byte{1, 4, 0, 0, 0}
		binary.LittleEndian.PutUint32(w[:], 3000)
		b = append(b, w[:]...)
		for i := 0; i < 3000; i++ {
			b = append(b, 1, 1, 0, 0, 0)
			b = append(b, make([]byte, 16)...)
		}
		g.add("amplify", f, b)
		b = []byte{0, 0, 0, 0, 2}
		binary.BigEndian.PutUint32(w[:], 4000)
		b = append(b, w[:]...)
		b = append(b, make([]byte, 16*4000)...)
		g.add("amplify", f, b)
	}
	// random bytes up to 64 KiB, and random tails behind a plausible header
	lens := []int{0, 1, 2, 3, 4, 5, 6, 7, 8, 9, 10, 12, 16, 21, 32, 64, 100, 1000, 4096, 16384, 65536}
	reps := 1 + n/400
	for _, l := range lens {
		k := reps
		if l >= 4096 {
			k = 1 + reps/8
		}
		for i := 0; i < k; i++ {
			g.add("random", f, g.randBytes(l))
		}
	}
	for i := 0; i < n/4; i++ {
		b := g.randBytes(g.r.Range(9, 80))
		b[0] = byte(g.r.Intn(2))
		code := uint32(g.r.Intn(4))*1000 + uint32(g.r.Range(1, 7))
		cnt := uint32(g.r.Intn(4))
		if b[0] == 1 {
			binary.LittleEndian.PutUint32(b[1:], code)
			binary.LittleEndian.PutUint32(b[5:], cnt)
		} else {
			binary.BigEndian.PutUint32(b[1:], code)
			binary.BigEndian.PutUint32(b[5:], cnt)
		}
		g.add("random_hdr", f, b)
	}
}

// ---------------------------------------------------------------- TWKB

func uvarint(v uint64) []byte {
	var buf [binary.MaxVarintLen64]byte
	return append([]byte(nil), buf[:binary.PutUvarint(buf[:], v)]...)
}

func varintLenAt(b []byte, off int) int {
	n := 0
	for off+n < len(b) {
		n++
		if b[off+n-1]&0x80 == 0 {
			break
		}
	}
	return n
}

func (g *gen) genTWKB(corpus []corpusEntry, n int) {
	const f = "twkb"
	type optset struct {
		name string
		opts []geom.TWKBWriterOption
	}
	optsets := []optset{
		{"plain", nil},
		{"size", []geom.TWKBWriterOption{geom.TWKBSizeHeader()}},
		{"bbox", []geom.TWKBWriterOption{geom.TWKBBoundingBoxHeader()}},
		{"size+bbox", []geom.TWKBWriterOption{geom.TWKBSizeHeader(), geom.TWKBBoundingBoxHeader()}},
	}
	var ks []uint
	for k := uint(0); k < 64; k++ {
		ks = append(ks, k)
	}
	quickKs := []uint{0, 1, 6, 7, 13, 14, 20, 21, 26, 27, 28, 29, 30, 31, 32, 33, 34, 35, 40, 46, 47, 48, 55, 56, 60, 61, 62, 63}
	fewKs := []uint{7, 27, 28, 31, 32, 35, 47, 62, 63}
	overlong := [][]byte{
		{0xff, 0xff, 0xff, 0xff, 0xff, 0xff, 0xff, 0xff, 0xff, 0x01},       // 2^64-1
		{0xff, 0xff, 0xff, 0xff, 0xff, 0xff, 0xff, 0xff, 0xff, 0x02},       // overflows 64 bits
		{0x80, 0x80, 0x80, 0x80, 0x80, 0x80, 0x80, 0x80, 0x80, 0x80, 0x01}, // 11 bytes
		{0x80, 0x00}, // non-canonical zero
		{0xff},       // unterminated
	}
	for ci, c := range corpus {
		var docs [][]byte
		for oi, os := range optsets {
			if !g.thorough && !c.core && !c.semi && oi != 0 && oi != 3 {
				continue
			}
			prec := 0
			if oi%2 == 1 {
				prec = 3
			}
			b, err := geom.MarshalTWKB(c.g, prec, os.opts...)
			if err == nil {
				docs = append(docs, b)
			}
		}
		// ID lists on the collection types
		switch c.g.Type() {
		case geom.TypeMultiPoint, geom.TypeMultiLineString, geom.TypeMultiPolygon, geom.TypeGeometryCollection:
			k := 0
			switch c.g.Type() {
			case geom.TypeMultiPoint:
				k = c.g.MustAsMultiPoint().NumPoints()
			case geom.TypeMultiLineString:
				k = c.g.MustAsMultiLineString().NumLineStrings()
			case geom.TypeMultiPolygon:
				k = c.g.MustAsMultiPolygon().NumPolygons()
			default:
				k = c.g.MustAsGeometryCollection().NumGeometries()
			}
			ids := make([]int64, k)
			for i := range ids {
				ids[i] = int64(i*100 - 50)
			}
			if b, err := geom.MarshalTWKB(c.g, 1, geom.TWKBIDList(ids), geom.TWKBSizeHeader()); err == nil && k > 0 {
				docs = append(docs, b)
			}
		}
		for di, doc := range docs {
			dense := g.thorough || (c.core && di == 0)
			g.add("valid", f, doc)
			for k := 0; k < len(doc); k++ {
				g.add("trunc", f, doc[:k])
			}
			for off := 0; off < len(doc); off++ {
				// type/precision, metadata, extended precision / size / first count: all 256
				if (dense && off < 5) || (c.semi && di == 0 && off < 3) || (g.thorough && (off < 8 || c.core || c.semi)) {
					for v := 0; v < 256; v++ {
						if byte(v) != doc[off] {
							g.add("sub256", f, withByte(doc, off, byte(v)))
						}
					}
				} else if dense || (off+ci+di)%5 == 0 {
					for _, v := range boundaryBytes(doc[off]) {
						if v != doc[off] {
							g.add("subbnd", f, withByte(doc, off, v))
						}
					}
				}
				// the varint starting here overwritten with 2^k, 2^64-1 and malformed encodings
				if off < 2 {
					continue
				}
				if !(dense || off < 5 || (off+ci+di)%7 == 0) {
					continue
				}
				vl := varintLenAt(doc, off)
				kk := fewKs
				if g.thorough || (dense && off < 6) {
					kk = ks
				} else if dense {
					kk = quickKs
				}
				for _, k := range kk {
					g.add("varint_2k", f, splice(doc, off, vl, uvarint(1<<k)))
				}
				if dense {
					for _, k := range quickKs {
						g.add("varint_2k-1", f, splice(doc, off, vl, uvarint(1<<k-1)))
					}
				}
				if dense || off < 4 {
					for _, ol := range overlong {
						g.add("varint_bad", f, splice(doc, off, vl, ol))
					}
				}
			}
		}
	}
	// a huge count behind every header shape (the shape of F7): type x metadata flags x ext byte
	for typ := byte(1); typ <= 7; typ++ {
		for _, meta := range []byte{0x00, 0x01, 0x02, 0x03, 0x04, 0x06, 0x08, 0x09, 0x0c, 0x0f} {
			if typ <= 3 && meta&0x04 != 0 {
				continue
			}
			for _, ext := range []byte{0x00, 0x01, 0x02, 0x03} {
				if meta&0x08 == 0 && ext != 0 {
					continue
				}
				for _, k := range []uint{7, 20, 27, 28, 31, 32, 40, 47, 61, 62, 63} {
					for _, tail := range []int{0, 8} {
						b := []byte{typ, meta}
						if meta&0x08 != 0 {
							b = append(b, ext)
						}
						var body []byte
						if meta&0x01 != 0 {
							dims := 2
							if ext&1 != 0 {
								dims++
							}
							if ext&2 != 0 {
								dims++
							}
							body = append(body, make([]byte, 2*dims)...)
						}
						body = append(body, uvarint(1<<k)...)
						body = append(body, make([]byte, tail)...)
						if meta&0x02 != 0 {
							b = append(b, uvarint(uint64(len(body)))...)
						}
						b = append(b, body...)
						g.add("hugecount", f, b)
					}
				}
			}
		}
	}
	// deep nesting: three bytes per level
	for _, d := range []int{1, 2, 10, 100, 1000, 2000, 10000, 21800} {
		var b []byte
		for i := 0; i < d; i++ {
			b = append(b, 0x07, 0x00, 0x01)
		}
		if d <= quickDeep || g.thorough {
			g.add("deepnest", f, append(append([]byte(nil), b...), 0x01, 0x00, 0x02, 0x04))
		}
		g.add("deepnest", f, b)
	}
	// self-similar runs: k copies of one collection-header byte (0x07 read as type+precision, as metadata
	// bbox|size|ids, as a size of 7 and as a count of 7, depending on where a parser stands) followed by a run of
	// bytes that read as small leaves (0x11: an empty Point with the bbox flag).  Whatever a decoder makes of
	// such a document, the result (and the work) must stay in proportion to its length: a parser that lets a
	// member's DECLARED size decide where the next member starts decodes the same bytes over and over.
	for _, k := range []int{8, 30, 60, 120, 150} {
		for _, hdr := range []byte{0x07, 0x17, 0x06, 0x05} {
			for _, leaf := range []byte{0x11, 0x01, 0x10} {
				b := append(bytes.Repeat([]byte{hdr}, k), bytes.Repeat([]byte{leaf}, 600)...)
				g.add("selfsimilar", f, b)
			}
		}
	}
	// amplification: one byte per ring / two per point
	{
		b := append([]byte{0x03, 0x00}, uvarint(60000)...)
		b = append(b, make([]byte, 60000)...)
		g.add("amplify", f, b)
		b = append([]byte{0x04, 0x00}, uvarint(30000)...)
		b = append(b, make([]byte, 60000)...)
		g.add("amplify", f, b)
		b = append([]byte{0x07, 0x00}, uvarint(30000)...)
		for i := 0; i < 30000; i++ {
			b = append(b, 0x01, 0x10) // empty points
		}
		g.add("amplify", f, b)
		b = append([]byte{0x06, 0x04}, uvarint(20000)...)
		b = append(b, make([]byte, 20000)...) // ids
		b = append(b, make([]byte, 20000)...) // polygons with zero rings
		g.add("amplify", f, b)
		b = append([]byte{0x02, 0x00}, uvarint(32000)...)
		b = append(b, make([]byte, 64000)...)
		g.add("amplify", f, b)
	}
	lens := []int{0, 1, 2, 3, 4, 5, 6, 7, 8, 9, 10, 12, 16, 21, 32, 64, 100, 1000, 4096, 16384, 65536}
	reps := 1 + n/200
	for _, l := range lens {
		k := reps
		if l >= 4096 {
			k = 1 + reps/8
		}
		for i := 0; i < k; i++ {
			g.add("random", f, g.randBytes(l))
		}
	}
	for i := 0; i < n/3; i++ {
		b := g.randBytes(g.r.Range(2, 40))
		b[0] = byte(g.r.Range(1, 7)) | byte(g.r.Intn(16))<<4
		b[1] = byte(g.r.Intn(32))
		for j := 2; j < len(b); j++ { // mostly short varints, so that the parser gets far
			if g.r.Chance(3, 4) {
				b[j] &= 0x1f
			}
		}
		g.add("random_hdr", f, b)
	}
}

// ---------------------------------------------------------------- WKT

var wktTok = regexp.MustCompile(`[A-Za-z]+|[0-9.]+(?:[eE][+-]?[0-9]+)?|[-(),]`)

var wktVocab = []string{
	"(", ")", ",", "EMPTY", "Z", "M", "ZM", "POINT", "LINESTRING", "POLYGON", "MULTIPOINT", "MULTILINESTRING",
	"MULTIPOLYGON", "GEOMETRYCOLLECTION", "-", "1", "0", "1e400", "1e-400", "NaN", "Inf", "-Inf", "infinity", "0x1p-2",
	"1_000", ".5", "5.", "1e", "+1", "--1", "1e+5", "123456789012345678901234567890123456789012345678901234567890",
	"0.000000000000000000000000000000000000000000000000000000000000000000000001", "\x00", "\xff\xfe", "\"", "'", "/*",
	"//", ";", "SRID=4326;", "é", "POINTZ", "empty", "zm", "",
}

func (g *gen) genWKT(corpus []corpusEntry, n int) {
	const f = "wkt"
	for ci, c := range corpus {
		docs := []string{c.wkt, c.g.AsText()}
		if c.core || c.semi || g.thorough {
			docs = append(docs, strings.ToLower(c.wkt), strings.ReplaceAll(strings.ReplaceAll(c.wkt, "(", " ( "), ",", " ,\n\t"))
		}
		for di, doc := range docs {
			dense := g.thorough || (c.core && di == 0)
			g.add("valid", f, []byte(doc))
			if di < 2 {
				for k := 0; k < len(doc); k++ {
					g.add("trunc", f, []byte(doc[:k]))
				}
			}
			if di >= 2 && !g.thorough {
				continue
			}
			toks := wktTok.FindAllStringIndex(doc, -1)
			for ti, t := range toks {
				g.add("tok_delete", f, []byte(doc[:t[0]]+doc[t[1]:]))
				g.add("tok_dup", f, []byte(doc[:t[1]]+" "+doc[t[0]:]))
				if ti+1 < len(toks) {
					u := toks[ti+1]
					g.add("tok_swap", f, []byte(doc[:t[0]]+doc[u[0]:u[1]]+doc[t[1]:u[0]]+doc[t[0]:t[1]]+doc[u[1]:]))
				}
				for vi, v := range wktVocab {
					if dense || (vi+ti+ci)%17 == 0 {
						g.add("tok_replace", f, []byte(doc[:t[0]]+v+doc[t[1]:]))
					}
					if dense && (vi+ti)%3 == 0 || (vi+ti+ci)%29 == 0 {
						g.add("tok_insert", f, []byte(doc[:t[0]]+v+" "+doc[t[0]:]))
					}
				}
			}
		}
	}
	// deep nesting of collections and of parentheses
	for _, d := range []int{1, 2, 10, 100, 1000, 2000, 3400} {
		open := strings.Repeat("GEOMETRYCOLLECTION(", d)
		if d <= quickDeep || g.thorough {
			g.add("deepnest", f, []byte(open+"POINT(1 2)"+strings.Repeat(")", d)))
			g.add("deepnest", f, []byte(strings.Repeat("GEOMETRYCOLLECTION Z(", d)+"POINT Z EMPTY"+strings.Repeat(")", d)))
		}
		g.add("deepnest", f, []byte(open+"POINT(1 2)"+strings.Repeat(")", d-1)))
		g.add("deepnest", f, []byte(open))
		g.add("deepnest", f, []byte(open+"POINT EMPTY"+strings.Repeat(")", d+1)))
	}
	for _, tag := range []string{"POINT", "LINESTRING", "POLYGON", "MULTIPOINT", "MULTILINESTRING", "MULTIPOLYGON", "GEOMETRYCOLLECTION", ""} {
		for _, d := range []int{1, 2, 3, 4, 5, 100, 65000} {
			g.add("deepparen", f, []byte(tag+strings.Repeat("(", d)))
			g.add("deepparen", f, []byte(tag+strings.Repeat("(", d)+"1 2"+strings.Repeat(")", d)))
			g.add("deepparen", f, []byte(tag+strings.Repeat(")", d)))
			g.add("deepparen", f, []byte(tag+" "+strings.Repeat("EMPTY,", d)))
			g.add("deepparen", f, []byte(tag+" "+strings.Repeat("-", d)+"1"))
		}
	}
	// huge and odd numbers in every ordinate position
	for _, num := range wktVocab[15:36] {
		for _, tmpl := range []string{"POINT(% 2)", "POINT(1 %)", "POINT Z (1 2 %)", "POINT ZM (1 2 3 %)", "LINESTRING(1 2,% 4)",
			"POLYGON((0 0,4 0,4 %,0 4,0 0))", "MULTIPOINT(%,1 1)", "MULTIPOINT((1 2),(% 4))", "GEOMETRYCOLLECTION(POINT(-% 1))"} {
			g.add("numbers", f, []byte(strings.ReplaceAll(tmpl, "%", num)))
		}
	}
	g.add("numbers", f, []byte("POINT("+strings.Repeat("9", 65000)+" 1)"))
	g.add("numbers", f, []byte("POINT(1e"+strings.Repeat("9", 65000)+" 1)"))
	g.add("numbers", f, []byte("POINT(0."+strings.Repeat("0", 65000)+"1 1)"))
	// amplification: many tiny members
	g.add("amplify", f, []byte("MULTIPOINT("+strings.Repeat("EMPTY,", 10900)+"EMPTY)"))
	g.add("amplify", f, []byte("MULTIPOINT("+strings.Repeat("1 1,", 16000)+"1 1)"))
	g.add("amplify", f, []byte("MULTIPOLYGON("+strings.Repeat("EMPTY,", 10900)+"EMPTY)"))
	g.add("amplify", f, []byte("MULTILINESTRING("+strings.Repeat("EMPTY,", 10900)+"EMPTY)"))
	g.add("amplify", f, []byte("GEOMETRYCOLLECTION("+strings.Repeat("POINT EMPTY,", 5400)+"POINT EMPTY)"))
	g.add("amplify", f, []byte("LINESTRING("+strings.Repeat("1 1,", 16000)+"1 1)"))
	g.add("amplify", f, []byte("POLYGON("+strings.Repeat("EMPTY,", 10900)+"EMPTY)"))
	// token soup and random bytes
	for i := 0; i < n/2; i++ {
		var sb strings.Builder
		k := g.r.Range(1, 30)
		if i%50 == 0 {
			k = 12000
		}
		for j := 0; j < k; j++ {
			sb.WriteString(wktVocab[g.r.Intn(len(wktVocab))])
			if g.r.Chance(2, 3) {
				sb.WriteByte(' ')
			}
		}
		g.add("soup", f, []byte(sb.String()))
	}
	for _, l := range []int{0, 1, 2, 3, 5, 8, 16, 64, 1000, 65536} {
		for i := 0; i < 1+n/600; i++ {
			g.add("random", f, g.randBytes(l))
		}
	}
}

// ---------------------------------------------------------------- GeoJSON

var jsonNum = regexp.MustCompile(`-?[0-9]+(?:\.[0-9]+)?(?:[eE][+-]?[0-9]+)?`)
var jsonPos = regexp.MustCompile(`\[-?[0-9.eE+-]+(?:,-?[0-9.eE+-]+)*\]`)
var jsonStruct = regexp.MustCompile(`[\[\]{},:"]`)

var jsonNumRepl = []string{"1e999", "-1e999", "1e-999", "1E400", "-0", "null", "\"1\"", "[]", "{}", "true", "12345678901234567890123",
	"0.1e", "01", "+1", ".5", "1.", "0x10", "NaN", "Infinity", "1e308", "-1.7976931348623157e308", "4.9e-324", ""}
var jsonPosRepl = []string{"[]", "[1]", "[1,2]", "[1,2,3]", "[1,2,3,4]", "[1,2,3,4,5]", "[null,null]", "[\"1\",\"2\"]", "[[1,2]]",
	"1", "null", "{}", "[1,2,null]", "[1,[2]]", "[1e308,1e308,1e308]", "true", "\"\""}
var jsonCoords = []string{"null", "[]", "[1,2]", "[1,2,3]", "[1]", "[[1,2],[3,4]]", "[[]]", "[[1,2,3],[4,5]]", "[[1,2,3],[4,5,6]]",
	"[[[0,0],[4,0],[4,4],[0,4],[0,0]]]", "[[[]]]", "[[[1,2]]]", "[[[[0,0],[4,0],[4,4],[0,4],[0,0]]]]", "[[[[]]]]", "[[[[[1,2]]]]]",
	"[[],[1,2]]", "[[1,2],[]]", "[[[1,2],[3,4]],[]]", "[[[[1,2,3]]],[[[]]],[]]", "1", "\"x\"", "{}", "true", "[null]", "[[null]]",
	"[1,null]", "[[1,null],[2,3]]", "[1e999,0]", "[[[0,0,0],[4,0,0],[4,4,0],[0,4],[0,0,0]]]", "[[],[]]", "[[[],[]],[]]",
	"[[[[0,0,1,2,3],[4,0,1,2,3],[4,4,1,2,3],[0,0,1,2,3]]]]", "[[1,2,3,4,5,6],[1,2,3]]"}
var jsonTypes = []string{"Point", "LineString", "Polygon", "MultiPoint", "MultiLineString", "MultiPolygon", "GeometryCollection",
	"", "Feature", "point", "FeatureCollection", "POINT"}

func (g *gen) genJSON(corpus []corpusEntry, n int) {
	const f = "json"
	for ci, c := range corpus {
		var doc string
		cc, _ := call(func() error {
			b, err := c.g.MarshalJSON()
			doc = string(b)
			return err
		})
		if cc != 'o' {
			continue
		}
		dense := g.thorough || c.core
		g.add("valid", f, []byte(doc))
		for k := 0; k < len(doc); k++ {
			g.add("trunc", f, []byte(doc[:k]))
		}
		for ni, m := range jsonNum.FindAllStringIndex(doc, -1) {
			for ri, r := range jsonNumRepl {
				if dense || (ri+ni+ci)%5 == 0 {
					g.add("num_replace", f, []byte(doc[:m[0]]+r+doc[m[1]:]))
				}
			}
		}
		for pi, m := range jsonPos.FindAllStringIndex(doc, -1) {
			for ri, r := range jsonPosRepl {
				if dense || (ri+pi+ci)%3 == 0 {
					g.add("arity", f, []byte(doc[:m[0]]+r+doc[m[1]:]))
				}
			}
		}
		for si, m := range jsonStruct.FindAllStringIndex(doc, -1) {
			g.add("struct_delete", f, []byte(doc[:m[0]]+doc[m[1]:]))
			if dense || (si+ci)%5 == 0 {
				g.add("struct_dup", f, []byte(doc[:m[1]]+doc[m[0]:]))
				for _, r := range []string{"[", "]", "{", "}", ",", ":", "null"} {
					if r != doc[m[0]:m[1]] {
						g.add("struct_replace", f, []byte(doc[:m[0]]+r+doc[m[1]:]))
					}
				}
			}
		}
		// wrap / unwrap one array level of the coordinates
		if i := strings.Index(doc, `"coordinates":`); i >= 0 && !strings.Contains(doc, "geometries") {
			body := doc[i+len(`"coordinates":`) : len(doc)-1]
			head := doc[:i+len(`"coordinates":`)]
			g.add("depth", f, []byte(head+"["+body+"]}"))
			g.add("depth", f, []byte(head+"[["+body+"]]}"))
			if strings.HasPrefix(body, "[[") && strings.HasSuffix(body, "]]") {
				g.add("depth", f, []byte(head+body[1:len(body)-1]+"}"))
			}
			g.add("depth", f, []byte(head+body+`,"coordinates":[]}`))
			g.add("depth", f, []byte(head+body+`,"geometries":[`+doc+`]}`))
		}
	}
	// every type name with every coordinates shape; also as the only member and as a sibling in a collection
	for _, t := range jsonTypes {
		for ci, c := range jsonCoords {
			doc := fmt.Sprintf(`{"type":%q,"coordinates":%s}`, t, c)
			g.add("type_x_coords", f, []byte(doc))
			if len(t) > 0 {
				// after siblings that already showed BOTH a 2-element and a longer position (the coordinates type
				// of the document is decided; the length checks of later members must still run), flat and nested
				const p2, p3, p4 = `{"type":"Point","coordinates":[1,2]}`, `{"type":"LineString","coordinates":[[1,2,3],[4,5,6]]}`, `{"type":"Point","coordinates":[1,2,3,4]}`
				g.add("type_x_coords_mixed", f, []byte(`{"type":"GeometryCollection","geometries":[`+p2+`,`+p3+`,`+doc+`]}`))
				g.add("type_x_coords_mixed", f, []byte(`{"type":"GeometryCollection","geometries":[`+p4+`,`+p2+`,`+doc+`,`+p2+`]}`))
				g.add("type_x_coords_mixed", f, []byte(`{"type":"GeometryCollection","geometries":[{"type":"GeometryCollection","geometries":[`+p3+`,`+p2+`]},{"type":"GeometryCollection","geometries":[`+doc+`]}]}`))
			}
			if len(t) > 0 && t[0] >= 'L' && (g.thorough || ci%2 == 0) {
				g.add("type_x_coords_gc", f, []byte(`{"type":"GeometryCollection","geometries":[`+doc+`]}`))
				g.add("type_x_coords_gc", f, []byte(`{"type":"GeometryCollection","geometries":[{"type":"Point","coordinates":[1,2,3]},`+doc+`]}`))
				g.add("type_x_coords_gc", f, []byte(`{"type":"GeometryCollection","geometries":[`+doc+`,{"type":"Point","coordinates":[]},{"type":"LineString","coordinates":[[1,2,3],[4,5,6]]}]}`))
			}
		}
	}
	// members of the wrong kind, missing members, non-objects
	for _, doc := range []string{
		``, ` `, `null`, `true`, `1`, `"x"`, `[]`, `{}`, `[{}]`, `{"type":null}`, `{"type":1}`, `{"type":[]}`, `{"type":{}}`,
		`{"type":"Point"}`, `{"type":"Point","coordinates":[1,2],"geometries":[]}`, `{"type":"GeometryCollection"}`,
		`{"type":"GeometryCollection","geometries":null}`, `{"type":"GeometryCollection","geometries":[null]}`,
		`{"type":"GeometryCollection","geometries":{}}`, `{"type":"GeometryCollection","geometries":[1]}`,
		`{"type":"GeometryCollection","geometries":[[]]}`, `{"type":"GeometryCollection","geometries":[{}]}`,
		`{"type":"GeometryCollection","coordinates":[1,2]}`, `{"type":"GeometryCollection","geometries":[],"coordinates":[[[[[1]]]]]}`,
		`{"type":"Point","coordinates":[1,2]}{"type":"Point","coordinates":[1,2]}`, `{"type":"Point","coordinates":[1,2]} x`,
		`{"type":"Point","type":"LineString","coordinates":[1,2]}`, `{"TYPE":"Point","COORDINATES":[1,2]}`,
		`{"type":"Point","coordinates":[1,2],"crs":{"type":"name"},"bbox":[1,2,3]}`, "\xef\xbb\xbf" + `{"type":"Point","coordinates":[1,2]}`,
		`{"type":"Point","coordinates":[1,2]}`, `{"type":"Point","coordinates":[1,2],"x":"` + "\xff\xfe" + `"}`,
		`{"type":"Feature","geometry":null,"properties":null}`, `{"type":"Feature","geometry":{"type":"Point","coordinates":[1,2]},"properties":{}}`,
		`{"type":"Feature","geometry":{"type":"Point","coordinates":[1]},"properties":{}}`, `{"type":"Feature"}`, `{"type":"Feature","geometry":1}`,
		`{"type":"Feature","geometry":{"type":"Point","coordinates":[1,2]},"id":{},"properties":[]}`,
		`{"type":"FeatureCollection","features":[]}`, `{"type":"FeatureCollection","features":null}`, `{"type":"FeatureCollection","features":[null]}`,
		`{"type":"FeatureCollection","features":[{"type":"Feature","geometry":{"type":"Point","coordinates":[1,2]},"properties":null}]}`,
		`{"type":"FeatureCollection","features":[{"type":"Feature","geometry":{"type":"LineString","coordinates":[[1,2]]},"properties":null}]}`,
		`{"type":"FeatureCollection","features":{}}`, `{"type":"FeatureCollection","features":[1]}`, `{"type":"FeatureCollection"}`,
	} {
		g.add("shape", f, []byte(doc))
	}
	// deep arrays, deep collections
	for _, d := range []int{1, 5, 6, 100, 9999, 10001, 30000} {
		for _, t := range []string{"Point", "MultiPolygon", "GeometryCollection"} {
			g.add("deeparray", f, []byte(`{"type":"`+t+`","coordinates":`+strings.Repeat("[", d)+strings.Repeat("]", d)+`}`))
			g.add("deeparray", f, []byte(`{"type":"`+t+`","coordinates":`+strings.Repeat("[", d)+`}`))
		}
		g.add("deeparray", f, []byte(strings.Repeat("[", d)))
		g.add("deeparray", f, []byte(strings.Repeat(`{"a":`, d)+"1"+strings.Repeat("}", d)))
	}
	for _, d := range []int{1, 2, 10, 100, 1000, 1400} {
		open := strings.Repeat(`{"type":"GeometryCollection","geometries":[`, d)
		g.add("deepnest", f, []byte(open+`{"type":"Point","coordinates":[1,2]}`+strings.Repeat("]}", d)))
		g.add("deepnest", f, []byte(open+strings.Repeat("]}", d)))
		g.add("deepnest", f, []byte(open))
		g.add("deepnest", f, []byte(open+`{"type":"Point","coordinates":[1]}`+strings.Repeat("]}", d)))
	}
	// amplification: many tiny elements
	g.add("amplify", f, []byte(`{"type":"MultiLineString","coordinates":[`+strings.Repeat("[],", 21000)+`[]]}`))
	g.add("amplify", f, []byte(`{"type":"Polygon","coordinates":[`+strings.Repeat("[],", 21000)+`[]]}`))
	g.add("amplify", f, []byte(`{"type":"MultiPolygon","coordinates":[`+strings.Repeat("[],", 21000)+`[]]}`))
	g.add("amplify", f, []byte(`{"type":"MultiPolygon","coordinates":[`+strings.Repeat("[[]],", 13000)+`[]]}`))
	g.add("amplify", f, []byte(`{"type":"MultiPoint","coordinates":[`+strings.Repeat("[1,2],", 10900)+`[1,2]]}`))
	g.add("amplify", f, []byte(`{"type":"LineString","coordinates":[`+strings.Repeat("[1,2],", 10900)+`[1,2]]}`))
	g.add("amplify", f, []byte(`{"type":"GeometryCollection","geometries":[`+strings.Repeat(`{"type":"Point","coordinates":[]},`, 1900)+`{"type":"Point","coordinates":[]}]}`))
	g.add("amplify", f, []byte(`{"type":"Point","coordinates":[1,2],"x":"`+strings.Repeat("a", 65000)+`"}`))
	for _, l := range []int{0, 1, 2, 3, 5, 8, 16, 64, 1000, 65536} {
		for i := 0; i < 1+n/600; i++ {
			g.add("random", f, g.randBytes(l))
		}
	}
	// structural soup
	soup := []string{"{", "}", "[", "]", ",", ":", `"type"`, `"coordinates"`, `"geometries"`, `"Point"`, `"Polygon"`, `"GeometryCollection"`, "1", "2.5", "null", "-1e3"}
	for i := 0; i < n/3; i++ {
		var sb strings.Builder
		for j, k := 0, g.r.Range(1, 40); j < k; j++ {
			sb.WriteString(soup[g.r.Intn(len(soup))])
		}
		g.add("soup", f, []byte(sb.String()))
	}
}
