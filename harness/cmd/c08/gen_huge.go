package main

import (
	"strconv"
	"strings"

	"github.com/peterstace/simplefeatures/geom"
)

// Class "hugeord": valid-looking Polygons and MultiPolygons (members touching at a point, sharing
// an edge, overlapping, nested, inside a hole, disjoint; also wrapped in a collection) in which
// one vertex - every occurrence of it within its ring, so that the ring stays closed - gets a huge
// but finite X, Y or both. Each member is still a closed ring, so the documents pass the ring
// checks and reach the polygon / multipolygon constraint checks of Validate() with ordinates
// whose products overflow. Decoded with validation ON and OFF through all decoders (TWKB where
// the value fits an int64). A panic inside Validate() is a panic of the validating decoder.
type hpoly [][][2]float64 // rings of vertices

var hugeBases = []struct {
	name  string
	polys []hpoly
}{
	{"touch_point", []hpoly{{{{0, 0}, {4, 0}, {4, 4}, {0, 4}, {0, 0}}}, {{{4, 4}, {8, 4}, {8, 8}, {4, 8}, {4, 4}}}}},
	{"share_edge", []hpoly{{{{0, 0}, {4, 0}, {4, 4}, {0, 4}, {0, 0}}}, {{{4, 0}, {8, 0}, {8, 4}, {4, 4}, {4, 0}}}}},
	{"overlap", []hpoly{{{{0, 0}, {4, 0}, {4, 4}, {0, 4}, {0, 0}}}, {{{2, 2}, {6, 2}, {6, 6}, {2, 6}, {2, 2}}}}},
	{"nested", []hpoly{{{{0, 0}, {10, 0}, {10, 10}, {0, 10}, {0, 0}}}, {{{2, 2}, {4, 2}, {4, 4}, {2, 4}, {2, 2}}}}},
	{"disjoint", []hpoly{{{{0, 0}, {4, 0}, {4, 4}, {0, 4}, {0, 0}}}, {{{10, 10}, {14, 10}, {14, 14}, {10, 14}, {10, 10}}}}},
	{"in_hole", []hpoly{
		{{{0, 0}, {10, 0}, {10, 10}, {0, 10}, {0, 0}}, {{2, 2}, {8, 2}, {8, 8}, {2, 8}, {2, 2}}},
		{{{4, 4}, {6, 4}, {6, 6}, {4, 6}, {4, 4}}}}},
	{"triangles", []hpoly{
		{{{-15, -4}, {-5, -4}, {-10, 5}, {-15, -4}}},
		{{{-5, -4}, {5, -4}, {0, 5}, {-5, -4}}},
		{{{-10, 5}, {0, 5}, {-5, 14}, {-10, 5}}}}},
	{"single_holes", []hpoly{
		{{{0, 0}, {20, 0}, {20, 20}, {0, 20}, {0, 0}}, {{2, 2}, {8, 2}, {8, 8}, {2, 8}, {2, 2}}, {{8, 8}, {14, 8}, {14, 14}, {8, 14}, {8, 8}}}}},
	{"single", []hpoly{{{{0, 0}, {4, 0}, {4, 4}, {0, 4}, {0, 0}}}}},
}

var hugeValues = []float64{1e300, -1e300, 3e300, -3e300, 1e308, -1e308, 1.7976931348623157e308, 1e154, -1e154, 1e155, 1e200, -1e200, 9e18, -9e18}
var hugeValuesQuick = []float64{1e300, -1e300, -3e300, 1e308, 1e154, -1e154, 1e200, 9e18}

func hugeNum(f float64) string { return strconv.FormatFloat(f, 'g', -1, 64) }

func hugeWKT(polys []hpoly, wrap bool) string {
	var sb strings.Builder
	ring := func(r [][2]float64) {
		sb.WriteByte('(')
		for i, v := range r {
			if i > 0 {
				sb.WriteByte(',')
			}
			sb.WriteString(hugeNum(v[0]) + " " + hugeNum(v[1]))
		}
		sb.WriteByte(')')
	}
	poly := func(p hpoly) {
		sb.WriteByte('(')
		for i, r := range p {
			if i > 0 {
				sb.WriteByte(',')
			}
			ring(r)
		}
		sb.WriteByte(')')
	}
	if wrap {
		sb.WriteString("GEOMETRYCOLLECTION(POINT(1 1),")
	}
	if len(polys) == 1 {
		sb.WriteString("POLYGON")
		poly(polys[0])
	} else {
		sb.WriteString("MULTIPOLYGON(")
		for i, p := range polys {
			if i > 0 {
				sb.WriteByte(',')
			}
			poly(p)
		}
		sb.WriteByte(')')
	}
	if wrap {
		sb.WriteByte(')')
	}
	return sb.String()
}

func (g *gen) genHuge() {
	values := hugeValuesQuick
	if g.thorough {
		values = hugeValues
	}
	emit := func(wkt string) {
		g.add("hugeord", "wkt", []byte(wkt))
		var gm geom.Geometry
		if c, _ := call(func() (err error) { gm, err = geom.UnmarshalWKT(wkt, geom.NoValidate{}); return }); c != 'o' {
			return
		}
		call(func() error { g.add("hugeord", "wkb", gm.AsBinary()); return nil })
		call(func() error {
			b, err := gm.MarshalJSON()
			if err == nil {
				g.add("hugeord", "json", b)
			}
			return nil
		})
		call(func() error {
			b, err := geom.MarshalTWKB(gm, 0)
			if err == nil {
				g.add("hugeord", "twkb", b)
			}
			return nil
		})
	}
	for bi, base := range hugeBases {
		emit(hugeWKT(base.polys, false))
		for pi := range base.polys {
			for ri := range base.polys[pi] {
				r := base.polys[pi][ri]
				for vi := 0; vi < len(r)-1; vi++ { // distinct vertices of the ring (last = first)
					for axis := 0; axis < 3; axis++ {
						for hi, h := range values {
							if !g.thorough && axis == 2 && (hi+vi+bi)%4 != 0 {
								continue
							}
							// deep copy, then replace every occurrence of the vertex in its ring
							cp := make([]hpoly, len(base.polys))
							for a := range base.polys {
								cp[a] = make(hpoly, len(base.polys[a]))
								for b := range base.polys[a] {
									cp[a][b] = append([][2]float64(nil), base.polys[a][b]...)
								}
							}
							old := r[vi]
							for k := range cp[pi][ri] {
								if cp[pi][ri][k] == old {
									switch axis {
									case 0:
										cp[pi][ri][k][0] = h
									case 1:
										cp[pi][ri][k][1] = h
									default:
										cp[pi][ri][k][0] = h
										cp[pi][ri][k][1] = -h / 3
									}
								}
							}
							emit(hugeWKT(cp, false))
							if g.thorough || (hi+vi+axis)%5 == 0 {
								emit(hugeWKT(cp, true))
							}
						}
					}
				}
			}
		}
	}
}
