package main

import (
	"bytes"
	"encoding/json"
	"fmt"
	"math"
	"strconv"
	"strings"
)

// The conversion of a JSON document into the tree protocol of the extracted GeoJSON model
// (coq/Model/GeoJSON.v:json), after harness/cmd/c06/jv.go: the document is re-read with
// encoding/json's own tokenizer (the syntax oracle), member order and duplicates are kept,
// numbers become the bits of strconv.ParseFloat.
//
// ok=false (the document is outside the model, no comparison) when: encoding/json does not accept
// the syntax; a number literal is out of the float64 range; an object key equals "type",
// "coordinates" or "geometries" only up to letter case (encoding/json matches struct fields
// case-insensitively, the model matches exactly); a string is not valid UTF-8 (replaced by
// encoding/json).
func jsonTokens(b []byte) (string, bool) {
	if !json.Valid(b) {
		return "", false
	}
	dec := json.NewDecoder(bytes.NewReader(b))
	dec.UseNumber()
	var sb strings.Builder
	if !jvValue(dec, &sb) {
		return "", false
	}
	if _, err := dec.Token(); err == nil {
		return "", false
	}
	return strings.TrimSpace(sb.String()), true
}

func jvHex(sb *strings.Builder, s string) {
	sb.WriteByte('s')
	for i := 0; i < len(s); i++ {
		sb.WriteByte(hexd[s[i]>>4])
		sb.WriteByte(hexd[s[i]&15])
	}
	sb.WriteByte(' ')
}

func jvValue(dec *json.Decoder, sb *strings.Builder) bool {
	tok, err := dec.Token()
	if err != nil {
		return false
	}
	return jvFrom(dec, tok, sb)
}

func jvFrom(dec *json.Decoder, tok json.Token, sb *strings.Builder) bool {
	switch t := tok.(type) {
	case nil:
		sb.WriteString("n ")
	case bool:
		if t {
			sb.WriteString("t ")
		} else {
			sb.WriteString("f ")
		}
	case json.Number:
		f, err := strconv.ParseFloat(string(t), 64)
		if err != nil {
			return false
		}
		fmt.Fprintf(sb, "#%016x ", math.Float64bits(f))
	case string:
		if strings.ContainsRune(t, '\uFFFD') {
			return false
		}
		jvHex(sb, t)
	case json.Delim:
		switch t {
		case '[':
			var inner strings.Builder
			n := 0
			for dec.More() {
				if !jvValue(dec, &inner) {
					return false
				}
				n++
			}
			if _, err := dec.Token(); err != nil {
				return false
			}
			fmt.Fprintf(sb, "[%d ", n)
			sb.WriteString(inner.String())
		case '{':
			var inner strings.Builder
			n := 0
			for dec.More() {
				kt, err := dec.Token()
				if err != nil {
					return false
				}
				k, ok := kt.(string)
				if !ok || strings.ContainsRune(k, '\uFFFD') {
					return false
				}
				for _, name := range []string{"type", "coordinates", "geometries"} {
					if k != name && strings.EqualFold(k, name) {
						return false
					}
				}
				jvHex(&inner, k)
				if !jvValue(dec, &inner) {
					return false
				}
				n++
			}
			if _, err := dec.Token(); err != nil {
				return false
			}
			fmt.Fprintf(sb, "{%d ", n)
			sb.WriteString(inner.String())
		default:
			return false
		}
	default:
		return false
	}
	return true
}
