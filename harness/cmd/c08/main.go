// Command c08 is the failing-input search and the tie to the code for property C08 (decoders are
// total on untrusted input).
//
// Parent mode (default): enumerates the inputs (see gen_*.go), writes them to <out>.inputs and
// runs them through a sacrificial child process (this same binary with -child) that has an
// address-space ceiling (RLIMIT_AS) and a soft memory limit (GOMEMLIMIT). The child executes
// every decoder entry point under recover(), measures runtime.MemStats.TotalAlloc around each
// call and appends one result line per input, flushed before the next input is touched. When the
// child dies (fatal out-of-memory, stack exhaustion, watchdog), the parent identifies the input
// the child was working on (first input without a result line), re-runs it alone in a fresh
// child to confirm, records a `d` (died) observation for it, and restarts the child after it.
// The case file holds, per input, the input and the implementation's observations; the OCaml
// driver evaluates the property's executable statement on them (SPEC) and compares the WKB
// cases with the extracted model decoder (CORR).
package main

import (
	"bufio"
	"bytes"
	"encoding/json"
	"flag"
	"fmt"
	"os"
	"os/exec"
	"runtime"
	"runtime/debug"
	"strconv"
	"strings"
	"sync/atomic"
	"syscall"
	"time"

	"verifharness/lib"
)

type input struct {
	class string
	fmt   string // wkb | twkb | wkt | json
	data  []byte
}

const (
	childASLimit   = 4 << 30 // RLIMIT_AS of the sacrificial child
	childMemLimit  = "3GiB"  // GOMEMLIMIT of the child (soft: makes the GC work before the ceiling)
	perInputLimit  = 20 * time.Second
	maxDeaths      = 24 // after that many child deaths the run is cut short (all are violations anyway)
	maxConfirmRuns = 3
)

func main() {
	childIn := flag.String("child", "", "child mode: inputs file")
	from := flag.Int("from", 0, "child mode: first input index")
	to := flag.Int("to", -1, "child mode: one past the last input index (-1 = all)")
	res := flag.String("res", "", "child mode: results file (appended)")
	conc := flag.String("conc", "", "concurrent child mode: format (wkt|json|wkb|twkb|mixed)")
	concDocs := flag.Int("concdocs", concDocsQuick, "concurrent child mode: documents per goroutine")
	concSample := flag.Bool("concsample", false, "concurrent child mode: only write a sample of the batch")
	a := lib.ParseArgs()
	if *conc != "" {
		runConc(*conc, a.Seed, *concDocs, *res, *concSample)
		return
	}
	if *childIn != "" {
		runChild(*childIn, *from, *to, *res)
		return
	}
	runParent(a)
}

// ---------------------------------------------------------------- child

func runChild(inPath string, from, to int, resPath string) {
	lim := uint64(childASLimit)
	if err := syscall.Setrlimit(syscall.RLIMIT_AS, &syscall.Rlimit{Cur: lim, Max: lim}); err != nil {
		fmt.Fprintln(os.Stderr, "c08 child: setrlimit failed:", err)
		os.Exit(4)
	}
	debug.SetTraceback("single")
	runtime.GOMAXPROCS(1) // ReadMemStats costs 1.5 us with one P and 45 us with two; the watchdog still runs (async preemption)
	f, err := os.Open(inPath)
	if err != nil {
		fmt.Fprintln(os.Stderr, "c08 child:", err)
		os.Exit(4)
	}
	defer f.Close()
	out, err := os.OpenFile(resPath, os.O_APPEND|os.O_CREATE|os.O_WRONLY, 0o644)
	if err != nil {
		fmt.Fprintln(os.Stderr, "c08 child:", err)
		os.Exit(4)
	}
	defer out.Close()
	// watchdog: a decoder call that does not return is a death with reason "timeout"
	var started atomicTime
	go func() {
		for {
			time.Sleep(500 * time.Millisecond)
			if t := started.get(); !t.IsZero() && time.Since(t) > perInputLimit {
				fmt.Fprintln(os.Stderr, "c08 child: WATCHDOG input exceeded", perInputLimit)
				os.Exit(5)
			}
		}
	}()
	sc := bufio.NewScanner(f)
	sc.Buffer(make([]byte, 1<<20), 1<<26)
	idx := -1
	var line bytes.Buffer
	for sc.Scan() {
		idx++
		if idx < from || (to >= 0 && idx >= to) {
			continue
		}
		fs := strings.SplitN(sc.Text(), "\t", 4)
		if len(fs) != 4 {
			fmt.Fprintln(os.Stderr, "c08 child: malformed input line", idx)
			os.Exit(4)
		}
		data := unhex(fs[3])
		t0 := time.Now()
		o := observe(fs[2], data, &started)
		if dt := time.Since(t0); dt > 300*time.Millisecond && os.Getenv("C08_SLOW") != "" {
			fmt.Fprintf(os.Stderr, "c08 child: slow input %s %s/%s len=%d %v\n", fs[0], fs[2], fs[1], len(data), dt)
		}
		line.Reset()
		fmt.Fprintf(&line, "%s\t%s\t%s\t%s\t%s\n", fs[0], fs[1], fs[2], fs[3], o.fields())
		if _, err := out.Write(line.Bytes()); err != nil { // one write per input: nothing buffered when we die
			fmt.Fprintln(os.Stderr, "c08 child:", err)
			os.Exit(4)
		}
	}
}

type atomicTime struct{ v atomic.Int64 }

func (a *atomicTime) set(t time.Time) {
	if t.IsZero() {
		a.v.Store(0)
	} else {
		a.v.Store(t.UnixNano())
	}
}
func (a *atomicTime) get() time.Time {
	n := a.v.Load()
	if n == 0 {
		return time.Time{}
	}
	return time.Unix(0, n)
}

// ---------------------------------------------------------------- parent

func runParent(a lib.Args) {
	if a.Out == "" {
		fmt.Fprintln(os.Stderr, "c08: -out is required")
		os.Exit(2)
	}
	ins, dist := generate(a)
	inPath := a.Out + ".inputs"
	resPath := a.Out + ".res"
	os.Remove(resPath)
	{
		f, err := os.Create(inPath)
		if err != nil {
			panic(err)
		}
		w := bufio.NewWriterSize(f, 1<<20)
		for i, in := range ins {
			fmt.Fprintf(w, "%d\t%s\t%s\t%s\n", i, in.class, in.fmt, lib.Hex(in.data))
		}
		w.Flush()
		f.Close()
	}
	self, err := os.Executable()
	if err != nil {
		panic(err)
	}
	type death struct {
		Index     int    `json:"index"`
		Class     string `json:"class"`
		Fmt       string `json:"fmt"`
		Hex       string `json:"hex"`
		Reason    string `json:"reason"`
		Confirmed bool   `json:"confirmed_alone"`
	}
	var deaths []death
	child := func(from, to int, res string) (int, string) {
		cmd := exec.Command(self, "-child", inPath, "-from", strconv.Itoa(from), "-to", strconv.Itoa(to), "-res", res)
		cmd.Env = append(os.Environ(), "GOMEMLIMIT="+childMemLimit, "GOTRACEBACK=single")
		var stderr bytes.Buffer
		cmd.Stderr = &tailWriter{buf: &stderr, max: 1 << 16}
		if os.Getenv("C08_SLOW") != "" {
			cmd.Stderr = os.Stderr
		}
		err := cmd.Run()
		if err == nil {
			return 0, ""
		}
		rc := 1
		if ee, ok := err.(*exec.ExitError); ok {
			rc = ee.ExitCode()
		}
		return rc, deathReason(stderr.String())
	}
	start := 0
	truncated := false
	for start < len(ins) {
		rc, reason := child(start, -1, resPath)
		if rc == 0 {
			break
		}
		if rc == 4 {
			fmt.Fprintln(os.Stderr, "c08: child infrastructure failure:", reason)
			os.Exit(2)
		}
		done := countLines(resPath)
		if done >= len(ins) {
			break
		}
		d := death{Index: done, Class: ins[done].class, Fmt: ins[done].fmt, Hex: lib.Hex(ins[done].data), Reason: reason}
		if len(deaths) < maxConfirmRuns {
			scratch := a.Out + ".confirm"
			os.Remove(scratch)
			rc2, _ := child(done, done+1, scratch)
			d.Confirmed = rc2 != 0
			os.Remove(scratch)
		}
		deaths = append(deaths, d)
		// the died observation, in the same line format
		f, _ := os.OpenFile(resPath, os.O_APPEND|os.O_WRONLY, 0o644)
		o := obs{nv: 'd', v: '-', valid: '-', msg: reason}
		fmt.Fprintf(f, "%d\t%s\t%s\t%s\t%s\n", done, d.Class, d.Fmt, d.Hex, o.fields())
		f.Close()
		start = done + 1
		if len(deaths) >= maxDeaths {
			truncated = true
			break
		}
	}
	// ---- the concurrent phase: one sacrificial child per format, many goroutines each
	concLines, concStats := runConcPhase(self, a)
	// assemble the case file
	w, doneOut := a.Output()
	defer doneOut()
	rf, err := os.Open(resPath)
	if err != nil {
		panic(err)
	}
	sc := bufio.NewScanner(rf)
	sc.Buffer(make([]byte, 1<<20), 1<<26)
	n := 0
	for sc.Scan() {
		w.WriteString(sc.Text())
		w.WriteByte('\n')
		n++
	}
	rf.Close()
	for _, l := range concLines {
		w.WriteString(l)
		w.WriteByte('\n')
	}
	dist["concurrent_phase"] = concStats
	dist["inputs_total"] = len(ins)
	dist["inputs_run"] = n
	dist["child_deaths"] = deaths
	dist["truncated_after_max_deaths"] = truncated
	dist["child_rlimit_as"] = childASLimit
	dist["child_gomemlimit"] = childMemLimit
	js, _ := json.Marshal(dist)
	fmt.Fprintf(w, "#GEN\t%s\n", js)
	os.Remove(inPath)
	os.Remove(resPath)
}

type tailWriter struct {
	buf *bytes.Buffer
	max int
}

func (t *tailWriter) Write(p []byte) (int, error) {
	if t.buf.Len() < t.max {
		t.buf.Write(p)
	}
	return len(p), nil
}

func deathReason(stderr string) string {
	for _, l := range strings.Split(stderr, "\n") {
		l = strings.TrimSpace(l)
		if strings.HasPrefix(l, "fatal error:") || strings.HasPrefix(l, "runtime:") ||
			strings.Contains(l, "WATCHDOG") || strings.HasPrefix(l, "panic:") || strings.HasPrefix(l, "c08 child:") {
			return strings.ReplaceAll(l, "\t", " ")
		}
	}
	if len(stderr) > 200 {
		stderr = stderr[:200]
	}
	return "child died: " + strings.ReplaceAll(strings.ReplaceAll(stderr, "\n", " | "), "\t", " ")
}

func countLines(path string) int {
	f, err := os.Open(path)
	if err != nil {
		return 0
	}
	defer f.Close()
	n := 0
	buf := make([]byte, 1<<20)
	for {
		k, err := f.Read(buf)
		n += bytes.Count(buf[:k], []byte{'\n'})
		if err != nil {
			break
		}
	}
	return n
}

// runConcPhase runs the concurrent children and returns their case lines (class "concurrent").
func runConcPhase(self string, a lib.Args) ([]string, map[string]interface{}) {
	docs := concDocsQuick
	if a.Tier == "thorough" {
		docs *= 8
	}
	stats := map[string]interface{}{"goroutines": concGoroutines, "docs_per_goroutine": docs}
	var lines []string
	for i, f := range concFormats {
		res := a.Out + ".conc"
		os.Remove(res)
		run := func(extra ...string) (int, string) {
			args := append([]string{"-conc", f, "-seed", strconv.FormatUint(a.Seed, 10), "-concdocs", strconv.Itoa(docs), "-res", res}, extra...)
			cmd := exec.Command(self, args...)
			cmd.Env = append(os.Environ(), "GOMEMLIMIT="+childMemLimit, "GOTRACEBACK=single")
			var stderr bytes.Buffer
			cmd.Stderr = &tailWriter{buf: &stderr, max: 1 << 16}
			err := cmd.Run()
			if err == nil {
				return 0, ""
			}
			rc := 1
			if ee, ok := err.(*exec.ExitError); ok {
				rc = ee.ExitCode()
			}
			return rc, deathReason(stderr.String())
		}
		rc, reason := run()
		o := obs{nv: 'o', v: '-', valid: '-'}
		sample := ""
		if rc != 0 {
			o.nv = 'd'
			o.msg = fmt.Sprintf("%s [concurrent: %d goroutines x %d documents of format %s, seed %d; the batch is regenerated from the seed, its first documents are the input field]", reason, concGoroutines, docs, f, a.Seed)
		} else if b, err := os.ReadFile(res); err == nil {
			fs := strings.SplitN(strings.TrimSpace(string(b)), "\t", 2)
			if len(fs) > 0 && fs[0] != "panics=0" {
				o.nv = 'p'
				o.msg = "concurrent: " + strings.TrimSpace(string(b))
			}
		}
		if o.nv != 'o' {
			os.Remove(res)
			run("-concsample")
			if b, err := os.ReadFile(res); err == nil {
				sample = string(b)
			}
		}
		stats[f] = string(o.nv)
		lines = append(lines, fmt.Sprintf("conc%d\tconcurrent\t%s\t%s\t%s", i, f, lib.Hex([]byte(sample)), o.fields()))
		os.Remove(res)
	}
	return lines, stats
}
