package main

import (
	"math"
	"strconv"
	"strings"
	"text/scanner"
)

// Copied from harness/cmd/c05/mtext.go (C05's conversion of WKT text into the alphabet of
// coq/Model/WKT.v), so that C08 can run the same extracted lexer/parser on its malformed streams.
//
// The model's text alphabet on the wire: every character as two hex digits, every number literal
// as 'N' followed by the 16 hex digits of the double it denotes (sign included).

func isLetter(c byte) bool { return c == '_' || 'A' <= c && c <= 'Z' || 'a' <= c && c <= 'z' }
func isDigit(c byte) bool  { return '0' <= c && c <= '9' }

const hexd = "0123456789abcdef"

func hexChars(sb *strings.Builder, s string) {
	for i := 0; i < len(s); i++ {
		sb.WriteByte(hexd[s[i]>>4])
		sb.WriteByte(hexd[s[i]&15])
	}
}

func numStart(s string, k int) bool {
	if k >= len(s) {
		return false
	}
	return isDigit(s[k]) || s[k] == '.' && k+1 < len(s) && isDigit(s[k+1])
}

// scanLiteral returns the end of the decimal literal starting at k (digits [. digits] [e[+-]digits]).
func scanLiteral(s string, k int) (int, bool) {
	j := k
	for j < len(s) && isDigit(s[j]) {
		j++
	}
	if j-k >= 2 && s[k] == '0' {
		return 0, false // text/scanner reads a leading 0 as an octal prefix: outside the alphabet
	}
	if j < len(s) && s[j] == '.' {
		j++
		for j < len(s) && isDigit(s[j]) {
			j++
		}
	}
	if j < len(s) && (s[j] == 'e' || s[j] == 'E') {
		j++
		if j < len(s) && (s[j] == '+' || s[j] == '-') {
			j++
		}
		d := j
		for j < len(s) && isDigit(s[j]) {
			j++
		}
		if j == d {
			return 0, false
		}
	}
	if j < len(s) && (isLetter(s[j]) || isDigit(s[j]) || s[j] == '.') {
		return 0, false
	}
	return j, true
}

// oneScannerToken reports whether text/scanner (in the mode wkt_lexer.go uses) reads lit as exactly
// one number token without complaint.
func oneScannerToken(lit string) bool {
	var scn scanner.Scanner
	scn.Init(strings.NewReader(lit))
	scn.Mode = scanner.ScanInts | scanner.ScanFloats | scanner.ScanIdents
	bad := false
	scn.Error = func(*scanner.Scanner, string) { bad = true }
	t := scn.Scan()
	if bad || (t != scanner.Int && t != scanner.Float) || scn.TokenText() != lit {
		return false
	}
	return scn.Scan() == scanner.EOF && !bad
}

// toModel converts real text into the model alphabet; ok=false when the text cannot be expressed
// (a number glued to letters, octal-looking literals, non-ASCII).
func toModel(s string) (string, bool) {
	var sb strings.Builder
	inIdent := false
	i := 0
	for i < len(s) {
		c := s[i]
		if c >= 0x80 {
			return "", false
		}
		if isLetter(c) || inIdent && isDigit(c) {
			hexChars(&sb, s[i:i+1])
			inIdent = true
			i++
			continue
		}
		neg := false
		k := i
		if c == '-' && numStart(s, i+1) {
			neg = true
			k = i + 1
		}
		if numStart(s, k) {
			if inIdent && !neg {
				return "", false
			}
			end, ok := scanLiteral(s, k)
			if !ok {
				return "", false
			}
			lit := s[k:end]
			if !oneScannerToken(lit) {
				return "", false
			}
			f, err := strconv.ParseFloat(lit, 64)
			if err != nil {
				ne, isNum := err.(*strconv.NumError)
				if !isNum || ne.Err != strconv.ErrRange {
					return "", false
				}
				// out of range: ParseFloat returns an infinity (rejected by the parser)
			}
			b := math.Float64bits(f)
			if neg {
				b |= 1 << 63
			}
			sb.WriteByte('N')
			sb.WriteString(pad16(b))
			inIdent = false
			i = end
			continue
		}
		inIdent = false
		hexChars(&sb, s[i:i+1])
		i++
	}
	return sb.String(), true
}

func pad16(b uint64) string {
	s := strconv.FormatUint(b, 16)
	return strings.Repeat("0", 16-len(s)) + s
}
