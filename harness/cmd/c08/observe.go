package main

import (
	"encoding/json"
	"fmt"
	"runtime"
	"strings"
	"time"

	"github.com/peterstace/simplefeatures/geom"
	"verifharness/lib"
)

// obs is what is observed of the implementation for one input.
type obs struct {
	nv      byte   // decoder with NoValidate: o ok, e error, p panic (recovered), d process died
	nvAlloc uint64 // TotalAlloc delta of that call
	v       byte   // decoder without NoValidate
	vAlloc  uint64
	valid   byte    // Validate() of the NoValidate result: 1, 0, p (panicked), - (no result)
	adapt   string  // adapter entry points, one outcome char each (see adapters*)
	adAlloc uint64  // TotalAlloc delta over all adapter calls together
	reenc   [4]byte // re-encoding the NoValidate result: WKB, WKT, GeoJSON, TWKB
	redec   [4]byte // decoding that output again (NoValidate)
	rewkb   string  // eq/ne: decode(AsBinary(g)) has the same structural dump as g
	dump    string  // structural dump of the NoValidate result
	msg     string  // first panic message / death reason
	model   string  // the input in the alphabet of the format's model (WKT: characters and number
	// symbols; GeoJSON: tree tokens), "-" when the bytes are the model's input or the input is
	// outside the model's alphabet
}

func (o obs) fields() string {
	if o.adapt == "" {
		o.adapt = "-"
	}
	if o.rewkb == "" {
		o.rewkb = "-"
	}
	if o.dump == "" {
		o.dump = "-"
	}
	if o.msg == "" {
		o.msg = "-"
	}
	if o.model == "" {
		o.model = "-"
	}
	for i := range o.reenc {
		if o.reenc[i] == 0 {
			o.reenc[i] = '-'
		}
		if o.redec[i] == 0 {
			o.redec[i] = '-'
		}
	}
	msg := strings.NewReplacer("\t", " ", "\n", " ").Replace(o.msg)
	if len(msg) > 160 {
		msg = msg[:160]
	}
	return fmt.Sprintf("%c\t%d\t%c\t%d\t%c\t%s\t%d\t%s\t%s\t%s\t%s\t%s\t%s",
		o.nv, o.nvAlloc, o.v, o.vAlloc, o.valid, o.adapt, o.adAlloc, string(o.reenc[:]), string(o.redec[:]), o.rewkb, o.dump, msg, o.model)
}

var ms1, ms2 runtime.MemStats

// call runs f under recover and classifies the outcome.
func call(f func() error) (cls byte, msg string) {
	defer func() {
		if r := recover(); r != nil {
			cls = 'p'
			msg = fmt.Sprint(r)
		}
	}()
	if err := f(); err != nil {
		return 'e', ""
	}
	return 'o', ""
}

// measured is call plus the bytes allocated during the call (all allocations, freed or not).
func measured(f func() error) (cls byte, alloc uint64, msg string) {
	runtime.ReadMemStats(&ms1)
	cls, msg = call(f)
	runtime.ReadMemStats(&ms2)
	return cls, ms2.TotalAlloc - ms1.TotalAlloc, msg
}

func decode(format string, data []byte, validate bool) (geom.Geometry, error) {
	switch format {
	case "wkb":
		if validate {
			return geom.UnmarshalWKB(data)
		}
		return geom.UnmarshalWKB(data, geom.NoValidate{})
	case "twkb":
		if validate {
			return geom.UnmarshalTWKB(data)
		}
		return geom.UnmarshalTWKB(data, geom.NoValidate{})
	case "wkt":
		if validate {
			return geom.UnmarshalWKT(string(data))
		}
		return geom.UnmarshalWKT(string(data), geom.NoValidate{})
	case "json":
		if validate {
			return geom.UnmarshalGeoJSON(data)
		}
		return geom.UnmarshalGeoJSON(data, geom.NoValidate{})
	}
	panic("c08: unknown format " + format)
}

func (o *obs) note(msg string) {
	if o.msg == "" && msg != "" {
		o.msg = msg
	}
}

// observe runs every entry point on one input. The watchdog clock runs only while the decoders
// (and the validation of their result) run: the re-encoding that follows is the harness's own
// work and some encoders are slow on deep nesting (not this property's concern).
func observe(format string, data []byte, clock *atomicTime) obs {
	var o obs
	o.valid = '-'
	var g, gv geom.Geometry
	var m string
	clock.set(time.Now())
	defer clock.set(time.Time{})
	o.nv, o.nvAlloc, m = measured(func() (err error) { g, err = decode(format, data, false); return })
	o.note(prefix("nv: ", m))
	o.v, o.vAlloc, m = measured(func() (err error) { gv, err = decode(format, data, true); return })
	o.note(prefix("v: ", m))
	_ = gv
	// adapters, measured together
	runtime.ReadMemStats(&ms1)
	switch format {
	case "wkb":
		o.adapt = adaptersWKB(data, &o)
	case "json":
		o.adapt = adaptersJSON(data, &o)
	case "twkb":
		o.adapt = adaptersTWKB(data, &o)
	}
	runtime.ReadMemStats(&ms2)
	o.adAlloc = ms2.TotalAlloc - ms1.TotalAlloc
	clock.set(time.Time{})
	// the input as the format's model reads it (harness's own work, after the watchdog window)
	switch format {
	case "wkt":
		if mt, ok := toModel(string(data)); ok {
			o.model = mt
		}
	case "json":
		if jt, ok := jsonTokens(data); ok {
			o.model = jt
		}
	}
	if o.nv != 'o' {
		return o
	}
	// the returned geometry: validity, structural dump, re-encoding in all four formats
	c, m := call(func() error { return g.Validate() })
	o.note(prefix("Validate: ", m))
	switch c {
	case 'o':
		o.valid = '1'
	case 'e':
		o.valid = '0'
	default:
		o.valid = 'p'
	}
	var d string
	c, m = call(func() error { d = lib.Dump(g); return nil })
	o.note(prefix("dump: ", m))
	if c != 'o' {
		d = "DUMP-PANIC"
	}
	o.dump = d
	var enc [4][]byte
	o.reenc[0], m = call(func() error { enc[0] = g.AsBinary(); return nil })
	o.note(prefix("AsBinary: ", m))
	o.reenc[1], m = call(func() error { enc[1] = []byte(g.AsText()); return nil })
	o.note(prefix("AsText: ", m))
	o.reenc[2], m = call(func() (err error) { enc[2], err = g.MarshalJSON(); return })
	o.note(prefix("MarshalJSON: ", m))
	o.reenc[3], m = call(func() (err error) {
		enc[3], err = geom.MarshalTWKB(g, 2, geom.TWKBSizeHeader(), geom.TWKBBoundingBoxHeader())
		return
	})
	o.note(prefix("MarshalTWKB: ", m))
	fmts := [4]string{"wkb", "wkt", "json", "twkb"}
	for i := range enc {
		if o.reenc[i] != 'o' {
			continue
		}
		var g2 geom.Geometry
		o.redec[i], m = call(func() (err error) { g2, err = decode(fmts[i], enc[i], false); return })
		o.note(prefix("re-decode "+fmts[i]+": ", m))
		if i == 0 {
			o.rewkb = "ne"
			if o.redec[0] == 'o' {
				var d2 string
				call(func() error { d2 = lib.Dump(g2); return nil })
				if d2 == d {
					o.rewkb = "eq"
				}
			}
		}
	}
	return o
}

func prefix(p, m string) string {
	if m == "" {
		return ""
	}
	return p + m
}

// adaptersWKB: Geometry.Scan([]byte), Geometry.Scan(string), NullGeometry.Scan, then Scan of the
// seven concrete types in the order P L Y MP ML MY GC.
func adaptersWKB(data []byte, o *obs) string {
	var out []byte
	add := func(name string, f func() error) {
		c, m := call(f)
		o.note(prefix(name+": ", m))
		out = append(out, c)
	}
	var g geom.Geometry
	var ng geom.NullGeometry
	var pt geom.Point
	var ls geom.LineString
	var py geom.Polygon
	var mp geom.MultiPoint
	var ml geom.MultiLineString
	var my geom.MultiPolygon
	var gc geom.GeometryCollection
	add("Geometry.Scan", func() error { return g.Scan(data) })
	add("Geometry.Scan(string)", func() error { return g.Scan(string(data)) })
	add("NullGeometry.Scan", func() error { return ng.Scan(data) })
	add("Point.Scan", func() error { return pt.Scan(data) })
	add("LineString.Scan", func() error { return ls.Scan(data) })
	add("Polygon.Scan", func() error { return py.Scan(data) })
	add("MultiPoint.Scan", func() error { return mp.Scan(data) })
	add("MultiLineString.Scan", func() error { return ml.Scan(data) })
	add("MultiPolygon.Scan", func() error { return my.Scan(data) })
	add("GeometryCollection.Scan", func() error { return gc.Scan(data) })
	return string(out)
}

// adaptersJSON: Geometry.UnmarshalJSON, the seven concrete UnmarshalJSON (P L Y MP ML MY GC), then
// GeoJSONFeature on the input wrapped as a feature, GeoJSONFeature on the raw input,
// GeoJSONFeatureCollection on the raw input and on the wrapped feature in a collection; the last
// four through encoding/json as users do.
func adaptersJSON(data []byte, o *obs) string {
	var out []byte
	add := func(name string, f func() error) {
		c, m := call(f)
		o.note(prefix(name+": ", m))
		out = append(out, c)
	}
	var g geom.Geometry
	var pt geom.Point
	var ls geom.LineString
	var py geom.Polygon
	var mp geom.MultiPoint
	var ml geom.MultiLineString
	var my geom.MultiPolygon
	var gc geom.GeometryCollection
	add("Geometry.UnmarshalJSON", func() error { return g.UnmarshalJSON(data) })
	add("Point.UnmarshalJSON", func() error { return pt.UnmarshalJSON(data) })
	add("LineString.UnmarshalJSON", func() error { return ls.UnmarshalJSON(data) })
	add("Polygon.UnmarshalJSON", func() error { return py.UnmarshalJSON(data) })
	add("MultiPoint.UnmarshalJSON", func() error { return mp.UnmarshalJSON(data) })
	add("MultiLineString.UnmarshalJSON", func() error { return ml.UnmarshalJSON(data) })
	add("MultiPolygon.UnmarshalJSON", func() error { return my.UnmarshalJSON(data) })
	add("GeometryCollection.UnmarshalJSON", func() error { return gc.UnmarshalJSON(data) })
	wrapped := append(append([]byte(`{"type":"Feature","geometry":`), data...), []byte(`,"properties":null}`)...)
	coll := append(append([]byte(`{"type":"FeatureCollection","features":[`), wrapped...), []byte(`]}`)...)
	var f1, f2 geom.GeoJSONFeature
	var c1, c2 geom.GeoJSONFeatureCollection
	add("GeoJSONFeature(wrapped)", func() error { return json.Unmarshal(wrapped, &f1) })
	add("GeoJSONFeature(raw)", func() error { return json.Unmarshal(data, &f2) })
	add("GeoJSONFeatureCollection(raw)", func() error { return json.Unmarshal(data, &c1) })
	add("GeoJSONFeatureCollection(wrapped)", func() error { return json.Unmarshal(coll, &c2) })
	return string(out)
}

var errSkip = fmt.Errorf("c08: outcome already recorded")

// adaptersTWKB: the three header-only readers. x = UnmarshalTWKBSize returned, without error, a
// size that is negative or larger than the input.
func adaptersTWKB(data []byte, o *obs) string {
	var out []byte
	add := func(name string, f func() error) {
		k := len(out)
		c, m := call(f)
		if len(out) > k { // the callee recorded its own outcome character
			return
		}
		o.note(prefix(name+": ", m))
		out = append(out, c)
	}
	add("UnmarshalTWKBEnvelope", func() error { _, _, err := geom.UnmarshalTWKBEnvelope(data); return err })
	add("UnmarshalTWKBSize", func() error {
		n, has, err := geom.UnmarshalTWKBSize(data)
		if err == nil && has && (n < 0 || n > len(data)) {
			out = append(out, 'x') // a size that is not a length of a prefix of the input
			o.note(fmt.Sprintf("UnmarshalTWKBSize returned %d for %d bytes of input", n, len(data)))
			panic(errSkip)
		}
		return err
	})
	add("UnmarshalTWKBIDList", func() error { _, _, err := geom.UnmarshalTWKBIDList(data); return err })
	return string(out)
}

func unhex(s string) []byte {
	out := make([]byte, len(s)/2)
	hv := func(c byte) byte {
		switch {
		case c >= '0' && c <= '9':
			return c - '0'
		case c >= 'a' && c <= 'f':
			return c - 'a' + 10
		}
		return c - 'A' + 10
	}
	for i := range out {
		out[i] = hv(s[2*i])<<4 | hv(s[2*i+1])
	}
	return out
}
