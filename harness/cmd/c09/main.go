// Command c09 generates pairs (and a third, independent operand) of lattice geometries in the
// special positions where Intersects/Distance have their case splits (shared vertices, points on
// edges, collinear overlaps, proper crossings, operands inside holes, nested, notches, far apart
// multi-part operands, equal operands, empties, collections), runs the implementation's
// Intersects, Disjoint, Intersection, Distance and Envelope.Distance on them and prints one case
// per line (property C09).
//
// Line format (16 tab separated fields):
//
//	0 id   1 class   2 A   3 B   4 C            (geometries as Z dump: decimal ordinates)
//	5 valid(A,B,C)   6 empty(A,B,C)             three chars '1'/'0'
//	7 Intersects(A,B)   8 Intersects(B,A)       "1" | "0" | "P" (panic)
//	9 Disjoint(A,B)                             "1" | "0" | "E" (error) | "P"
//	10 Intersection(A,B).IsEmpty()              "1" | "0" | "E" | "P"
//	11 Distance(A,B) 12 Distance(B,A) 13 Distance(A,C) 14 Distance(B,C)
//	                                            16 hex digits of the float64 | "U" (ok=false) | "P"
//	15 A.Envelope().Distance(B.Envelope())      same encoding
//
// All ordinates are integers with |c| <= 1024. A, B and C of one case live on the same small
// grid, moved by one common offset and one common scale factor. The last line is `#GEN\t{json}`.
//
// Magnitude streams (printed with lib.Dump, 16 hex digits per ordinate): every 16th case (small
// inputs only) is mapped by a random similarity (rotation, scale 1e-18..1e+12, translation)
// evaluated in float64, class "f_<class>"; the driver admits such a case only if its exact
// clearance is at least 1e-6 x magnitude. Another 16th of the cases is the lattice case scaled
// by an exact power of two (2^-60..2^-10, 2^1..2^40), class "p_<class>": exact oracle, no
// clearance question. A third 16th is scaled by an extreme power of two (2^-530..2^-62,
// 2^42..2^496: as far as every product of two ordinate differences stays exact), class
// "x_<class>", judged like p_.
//
// Class perp_foot builds non-intersecting pairs whose nearest points include the foot of a
// perpendicular (point over the interior of a sloped segment, parallel segments, facing polygon
// edges); half of it goes through x_.
//
// Class multi_hole builds polygons with 2..4 non-rectangular, disjoint holes whose envelopes
// overlap or nest, in a random order, with the other operand inside one of the holes.
//
// Class gc_overlap builds collections whose areal members overlap (a hole of one member covered
// by another member): Intersects/Distance are right there, the overlay-based Disjoint and
// Intersection are not (known finding F20).
package main

import (
	"encoding/json"
	"fmt"
	"math"
	"reflect"
	"strconv"
	"strings"

	"github.com/peterstace/simplefeatures/geom"
	"verifharness/lib"
)

// ---------------------------------------------------------------- Z dump (accessor based)

func fz(f float64) string { return strconv.FormatFloat(f, 'f', -1, 64) }

func zCoords(sb *strings.Builder, c geom.Coordinates, ct geom.CoordinatesType) {
	sb.WriteString(fz(c.X) + " " + fz(c.Y) + " ")
	if ct.Is3D() {
		sb.WriteString(fz(c.Z) + " ")
	}
	if ct.IsMeasured() {
		sb.WriteString(fz(c.M) + " ")
	}
}

func zPoint(sb *strings.Builder, p geom.Point) {
	ct := p.CoordinatesType()
	c, ok := p.Coordinates()
	if !ok {
		fmt.Fprintf(sb, "P %d 0 ", int(ct))
		return
	}
	fmt.Fprintf(sb, "P %d 1 ", int(ct))
	zCoords(sb, c, ct)
}

func zLine(sb *strings.Builder, l geom.LineString) {
	ct := l.CoordinatesType()
	seq := l.Coordinates()
	n := seq.Length()
	fmt.Fprintf(sb, "L %d %d ", int(ct), n)
	for i := 0; i < n; i++ {
		zCoords(sb, seq.Get(i), ct)
	}
}

func zPoly(sb *strings.Builder, p geom.Polygon) {
	rings := p.DumpRings()
	fmt.Fprintf(sb, "Y %d %d ", int(p.CoordinatesType()), len(rings))
	for _, r := range rings {
		zLine(sb, r)
	}
}

func zGeom(sb *strings.Builder, g geom.Geometry) {
	switch g.Type() {
	case geom.TypePoint:
		zPoint(sb, g.MustAsPoint())
	case geom.TypeLineString:
		zLine(sb, g.MustAsLineString())
	case geom.TypePolygon:
		zPoly(sb, g.MustAsPolygon())
	case geom.TypeMultiPoint:
		mp := g.MustAsMultiPoint()
		n := mp.NumPoints()
		fmt.Fprintf(sb, "MP %d %d ", int(mp.CoordinatesType()), n)
		for i := 0; i < n; i++ {
			zPoint(sb, mp.PointN(i))
		}
	case geom.TypeMultiLineString:
		ml := g.MustAsMultiLineString()
		n := ml.NumLineStrings()
		fmt.Fprintf(sb, "ML %d %d ", int(ml.CoordinatesType()), n)
		for i := 0; i < n; i++ {
			zLine(sb, ml.LineStringN(i))
		}
	case geom.TypeMultiPolygon:
		my := g.MustAsMultiPolygon()
		n := my.NumPolygons()
		fmt.Fprintf(sb, "MY %d %d ", int(my.CoordinatesType()), n)
		for i := 0; i < n; i++ {
			zPoly(sb, my.PolygonN(i))
		}
	case geom.TypeGeometryCollection:
		gc := g.MustAsGeometryCollection()
		n := gc.NumGeometries()
		fmt.Fprintf(sb, "GC %d %d ", int(gc.CoordinatesType()), n)
		for i := 0; i < n; i++ {
			zGeom(sb, gc.GeometryN(i))
		}
	default:
		sb.WriteString("UNKNOWN ")
	}
}

func zDump(g geom.Geometry) string {
	var sb strings.Builder
	zGeom(&sb, g)
	return strings.TrimSpace(sb.String())
}

// ---------------------------------------------------------------- observations (every library call under recover)

func b01(b bool) string {
	if b {
		return "1"
	}
	return "0"
}

func obsIntersects(a, b geom.Geometry) (s string) {
	defer func() {
		if recover() != nil {
			s = "P"
		}
	}()
	return b01(geom.Intersects(a, b))
}

func obsDisjoint(a, b geom.Geometry) (s string) {
	defer func() {
		if recover() != nil {
			s = "P"
		}
	}()
	d, err := geom.Disjoint(a, b)
	if err != nil {
		return "E"
	}
	return b01(d)
}

func obsInterEmpty(a, b geom.Geometry) (s string) {
	defer func() {
		if recover() != nil {
			s = "P"
		}
	}()
	g, err := geom.Intersection(a, b)
	if err != nil {
		return "E"
	}
	return b01(g.IsEmpty())
}

func fbits(d float64, ok bool) string {
	if !ok {
		return "U"
	}
	return fmt.Sprintf("%016x", math.Float64bits(d))
}

func obsDist(a, b geom.Geometry) (s string) {
	defer func() {
		if recover() != nil {
			s = "P"
		}
	}()
	return fbits(geom.Distance(a, b))
}

func obsEnvDist(a, b geom.Geometry) (s string) {
	defer func() {
		if recover() != nil {
			s = "P"
		}
	}()
	return fbits(a.Envelope().Distance(b.Envelope()))
}

var validatePanics int

func obsValid(g geom.Geometry) (s string) {
	defer func() {
		if recover() != nil {
			validatePanics++
			s = "0"
		}
	}()
	return b01(g.Validate() == nil)
}

func obsEmpty(g geom.Geometry) (s string) {
	defer func() {
		if recover() != nil {
			s = "0"
		}
	}()
	return b01(g.IsEmpty())
}

// ---------------------------------------------------------------- shapes in grid coordinates

// P is a grid point. Shapes are generated in (small) integer grid coordinates; the common
// symmetry, scale factor and offset of a case are applied afterwards to A, B and C alike.
type P struct{ x, y int }

// sh is the generator's own description of a geometry (XY only).
type sh struct {
	kind  lib.Kind
	pts   []P   // point: 0 or 1 entries; line: the vertices
	rings [][]P // polygon: closed rings, shell first (none = empty polygon)
	kids  []*sh // multi geometries and collections
}

func pointSh(p P) *sh                     { return &sh{kind: lib.KPoint, pts: []P{p}} }
func lineSh(ps ...P) *sh                  { return &sh{kind: lib.KLine, pts: ps} }
func polySh(rings ...[]P) *sh             { return &sh{kind: lib.KPoly, rings: rings} }
func multiSh(k lib.Kind, kids ...*sh) *sh { return &sh{kind: k, kids: kids} }

func (s *sh) clone() *sh {
	c := &sh{kind: s.kind, pts: append([]P(nil), s.pts...)}
	for _, r := range s.rings {
		c.rings = append(c.rings, append([]P(nil), r...))
	}
	for _, k := range s.kids {
		c.kids = append(c.kids, k.clone())
	}
	return c
}

func (s *sh) mapAll(f func(P) P) {
	for i := range s.pts {
		s.pts[i] = f(s.pts[i])
	}
	for _, r := range s.rings {
		for i := range r {
			r[i] = f(r[i])
		}
	}
	for _, k := range s.kids {
		k.mapAll(f)
	}
}

func (s *sh) scale(f int)      { s.mapAll(func(p P) P { return P{p.x * f, p.y * f} }) }
func (s *sh) shift(dx, dy int) { s.mapAll(func(p P) P { return P{p.x + dx, p.y + dy} }) }

// verts lists every vertex of the shape.
func (s *sh) verts() []P {
	out := append([]P(nil), s.pts...)
	for _, r := range s.rings {
		out = append(out, r...)
	}
	for _, k := range s.kids {
		out = append(out, k.verts()...)
	}
	return out
}

// segs lists the non-degenerate segments of lines and rings.
func (s *sh) segs() [][2]P {
	var out [][2]P
	add := func(ps []P) {
		for i := 0; i+1 < len(ps); i++ {
			if ps[i] != ps[i+1] {
				out = append(out, [2]P{ps[i], ps[i+1]})
			}
		}
	}
	if s.kind == lib.KLine {
		add(s.pts)
	}
	for _, r := range s.rings {
		add(r)
	}
	for _, k := range s.kids {
		out = append(out, k.segs()...)
	}
	return out
}

// bounds of the vertices of several shapes (ok=false when there is no vertex at all).
func bounds(ss ...*sh) (x0, y0, x1, y1 int, ok bool) {
	for _, s := range ss {
		for _, p := range s.verts() {
			if !ok {
				x0, y0, x1, y1, ok = p.x, p.y, p.x, p.y, true
				continue
			}
			x0, x1 = min(x0, p.x), max(x1, p.x)
			y0, y1 = min(y0, p.y), max(y1, p.y)
		}
	}
	return
}

func maxX(ss ...*sh) int {
	_, _, x1, _, _ := bounds(ss...)
	return x1
}

func iabs(a int) int {
	if a < 0 {
		return -a
	}
	return a
}

func gcd(a, b int) int {
	a, b = iabs(a), iabs(b)
	for b != 0 {
		a, b = b, a%b
	}
	return a
}

func clamp(v, lo, hi int) int { return max(lo, min(hi, v)) }

// orient is twice the signed area of the triangle a b c.
func orient(a, b, c P) int { return (b.x-a.x)*(c.y-a.y) - (b.y-a.y)*(c.x-a.x) }

func distinct2(ps []P) bool {
	for _, p := range ps {
		if p != ps[0] {
			return true
		}
	}
	return false
}

// fixDistinct makes a vertex list hold two distinct points (what LineString validity needs).
func fixDistinct(ps []P) {
	if len(ps) >= 2 && !distinct2(ps) {
		ps[len(ps)-1] = P{ps[0].x + 1, ps[0].y}
	}
}

func reversed(ps []P) []P {
	out := make([]P, len(ps))
	for i, p := range ps {
		out[len(ps)-1-i] = p
	}
	return out
}

// toNode converts a shape into a lib.Node of coordinates type ct; Z and M get small integers
// from zr (the algorithms under test must ignore them). The closing vertex of a ring repeats the
// first vertex completely.
func toNode(s *sh, ct geom.CoordinatesType, zr *lib.Rng) *lib.Node {
	v := func(p P) [4]float64 {
		c := [4]float64{float64(p.x), float64(p.y), 0, 0}
		if zr != nil && ct != geom.DimXY {
			c[2], c[3] = float64(zr.Range(-3, 3)), float64(zr.Range(-3, 3))
		}
		return c
	}
	line := func(ps []P, ring bool) *lib.Node {
		n := &lib.Node{Kind: lib.KLine, CT: ct}
		for _, p := range ps {
			n.C = append(n.C, v(p))
		}
		if ring && len(ps) > 1 && ps[0] == ps[len(ps)-1] {
			n.C[len(ps)-1] = n.C[0]
		}
		return n
	}
	switch s.kind {
	case lib.KPoint:
		if len(s.pts) == 0 {
			return &lib.Node{Kind: lib.KPoint, CT: ct}
		}
		return &lib.Node{Kind: lib.KPoint, CT: ct, Full: true, C: [][4]float64{v(s.pts[0])}}
	case lib.KLine:
		return line(s.pts, false)
	case lib.KPoly:
		n := &lib.Node{Kind: lib.KPoly, CT: ct}
		for _, r := range s.rings {
			n.Kids = append(n.Kids, line(r, true))
		}
		return n
	}
	n := &lib.Node{Kind: s.kind, CT: ct}
	for _, k := range s.kids {
		n.Kids = append(n.Kids, toNode(k, ct, zr))
	}
	return n
}

// isValid asks the library's own Validate (used as a generation filter only, never as an oracle).
func isValid(s *sh) (ok bool) {
	defer func() {
		if recover() != nil {
			ok = false
		}
	}()
	return toNode(s, geom.DimXY, nil).Build().Validate() == nil
}

// ---------------------------------------------------------------- building blocks

// gen holds the per-case stream and the side s of the dense box [0,s]^2 the shapes live in.
// f is the factor by which a class has refined the grid (so that edge midpoints are lattice
// points); the third operand C is generated on the unrefined grid and scaled by f.
type gen struct {
	r *lib.Rng
	s int
	f int
}

// (the harness module is at language version 1.17: no generics, no builtin min/max)

func min(a, b int) int {
	if a < b {
		return a
	}
	return b
}

func max(a, b int) int {
	if a > b {
		return a
	}
	return b
}

func pickP(r *lib.Rng, xs []P) P     { return xs[r.Intn(len(xs))] }
func pickI(r *lib.Rng, xs []int) int { return xs[r.Intn(len(xs))] }

// shuffle permutes any slice in place (Fisher-Yates).
func shuffle(r *lib.Rng, xs interface{}) {
	swap := reflect.Swapper(xs)
	for i := reflect.ValueOf(xs).Len() - 1; i > 0; i-- {
		swap(i, r.Intn(i+1))
	}
}

func (g *gen) ptIn(x0, y0, x1, y1 int) P { return P{g.r.Range(x0, x1), g.r.Range(y0, y1)} }

// lineIn: random walk of 2..maxv vertices inside the box, sometimes with a repeated consecutive
// vertex, sometimes closed; self-touching and self-crossing are allowed for a LineString.
func (g *gen) lineIn(x0, y0, x1, y1, maxv int) *sh {
	r := g.r
	n := r.Range(2, maxv)
	p := g.ptIn(x0, y0, x1, y1)
	ps := []P{p}
	for len(ps) < n {
		if r.Chance(1, 8) {
			ps = append(ps, p)
			continue
		}
		p = P{clamp(p.x+r.Range(-2, 2), x0, x1), clamp(p.y+r.Range(-2, 2), y0, y1)}
		ps = append(ps, p)
	}
	if n >= 3 && r.Chance(1, 6) {
		ps = append(ps, ps[0])
	}
	fixDistinct(ps)
	return lineSh(ps...)
}

// finishRing closes an open vertex cycle after rotating its start, choosing its orientation and
// (rarely) repeating one vertex.
func (g *gen) finishRing(open []P) []P {
	r := g.r
	n := len(open)
	k := r.Intn(n)
	out := make([]P, 0, n+2)
	for i := 0; i < n; i++ {
		out = append(out, open[(i+k)%n])
	}
	if r.Bool() {
		out = reversed(out)
	}
	if r.Chance(1, 12) {
		i := r.Intn(n)
		out = append(out[:i+1], out[i:]...)
	}
	return append(out, out[0])
}

func rectOpen(x0, y0, x1, y1 int) []P { return []P{{x0, y0}, {x1, y0}, {x1, y1}, {x0, y1}} }

func diamondOpen(cx, cy, rad int) []P {
	return []P{{cx - rad, cy}, {cx, cy - rad}, {cx + rad, cy}, {cx, cy + rad}}
}

// lOpen: the rectangle [0,w]x[0,h] minus its upper right corner (b,w]x(a,h], moved to (x0,y0).
func lOpen(x0, y0, w, h, a, b int) []P {
	return []P{{x0, y0}, {x0 + w, y0}, {x0 + w, y0 + a}, {x0 + b, y0 + a}, {x0 + b, y0 + h}, {x0, y0 + h}}
}

// uOpen: the rectangle [0,w]x[0,h] minus the slot (c,w-c)x(d,h], moved to (x0,y0).
func uOpen(x0, y0, w, h, c, d int) []P {
	return []P{{x0, y0}, {x0 + w, y0}, {x0 + w, y0 + h}, {x0 + w - c, y0 + h}, {x0 + w - c, y0 + d},
		{x0 + c, y0 + d}, {x0 + c, y0 + h}, {x0, y0 + h}}
}

var dirs8 = []P{{1, 0}, {1, 1}, {0, 1}, {-1, 1}, {-1, 0}, {-1, -1}, {0, -1}, {1, -1}}

// shellIn: an open vertex cycle of a simple polygon inside the box (width and height >= 1):
// rectangle, triangle, diamond, L, U, staircase or star-ish lattice polygon, mirrored randomly.
// Simplicity holds by construction except for the star family, which the Validate filter covers.
func (g *gen) shellIn(x0, y0, x1, y1 int) []P {
	r := g.r
	w, h := x1-x0, y1-y0
	var ring []P
	switch fam := r.Intn(7); {
	case fam == 1:
		for t := 0; t < 20 && ring == nil; t++ {
			a, b, c := g.ptIn(x0, y0, x1, y1), g.ptIn(x0, y0, x1, y1), g.ptIn(x0, y0, x1, y1)
			if orient(a, b, c) != 0 {
				ring = []P{a, b, c}
			}
		}
	case fam == 2 && w >= 2 && h >= 2:
		rad := r.Range(1, min(w, h)/2)
		ring = diamondOpen(r.Range(x0+rad, x1-rad), r.Range(y0+rad, y1-rad), rad)
	case fam == 3 && w >= 2 && h >= 2:
		ww, hh := r.Range(2, w), r.Range(2, h)
		ring = lOpen(x0, y0, ww, hh, r.Range(1, hh-1), r.Range(1, ww-1))
	case fam == 4 && w >= 3 && h >= 2:
		ww, hh := r.Range(3, w), r.Range(2, h)
		c := r.Range(1, (ww-1)/2)
		ring = uOpen(x0, y0, ww, hh, c, r.Range(1, hh-1))
	case fam == 5 && w >= 2 && h >= 2:
		// staircase: columns of non-increasing height over a flat base
		k := r.Range(2, min(w, 4))
		hgt := r.Range(k, max(k, h))
		ring = []P{{x0, y0}, {x0 + k, y0}}
		top := 1
		var steps []P
		for i := k - 1; i >= 0; i-- {
			steps = append(steps, P{x0 + i + 1, y0 + top}, P{x0 + i, y0 + top})
			top = min(hgt, top+r.Range(0, 2))
			if top > h {
				top = h
			}
		}
		ring = append(ring, steps...)
	case fam == 6 && w >= 4 && h >= 4:
		c := P{x0 + w/2, y0 + h/2}
		m := min(w, h) / 2
		for _, d := range dirs8 {
			if r.Chance(2, 3) {
				k := r.Range(1, m)
				ring = append(ring, P{c.x + k*d.x, c.y + k*d.y})
			}
		}
		if len(ring) < 3 {
			ring = nil
		}
	}
	if ring == nil { // family 0 and the fallback of the others: an axis rectangle
		a0 := r.Range(x0, x1-1)
		b0 := r.Range(y0, y1-1)
		ring = rectOpen(a0, b0, r.Range(a0+1, x1), r.Range(b0+1, y1))
	}
	fx, fy := r.Bool(), r.Bool()
	for i, p := range ring {
		if fx {
			p.x = x0 + x1 - p.x
		}
		if fy {
			p.y = y0 + y1 - p.y
		}
		ring[i] = p
	}
	return ring
}

// valid retries a generator until the library accepts its result (bounded; the last try is
// returned anyway and the valid flag of the case line tells the driver).
func (g *gen) valid(f func() *sh) *sh {
	var s *sh
	for t := 0; t < 12; t++ {
		s = f()
		if isValid(s) {
			return s
		}
	}
	return s
}

// simplePolyIn: a polygon without holes inside the box.
func (g *gen) simplePolyIn(x0, y0, x1, y1 int) *sh {
	return g.valid(func() *sh { return polySh(g.finishRing(g.shellIn(x0, y0, x1, y1))) })
}

// holedIn: the rectangle shell of the box (width, height >= 3) with one or two holes: a
// rectangle or triangle strictly inside, a triangle touching the shell at exactly one vertex,
// two triangles touching each other at one vertex, two separate unit squares.
func (g *gen) holedIn(x0, y0, x1, y1 int) *sh {
	r := g.r
	return g.valid(func() *sh {
		w, h := x1-x0, y1-y0
		p := polySh(g.finishRing(rectOpen(x0, y0, x1, y1)))
		inner := func() P { return g.ptIn(x0+1, y0+1, x1-1, y1-1) }
		tri := func(a P) []P {
			for t := 0; t < 20; t++ {
				b, c := inner(), inner()
				if orient(a, b, c) != 0 {
					return []P{a, b, c}
				}
			}
			return []P{{x0 + 1, y0 + 1}, {x0 + 2, y0 + 1}, {x0 + 1, y0 + 2}}
		}
		switch v := r.Intn(5); {
		case v == 1:
			p.rings = append(p.rings, g.finishRing(tri(inner())))
		case v == 2:
			// one hole vertex on the shell: a corner or a point of the bottom/left edge
			on := pickP(r, []P{{x0, y0}, {x1, y1}, {r.Range(x0+1, x1-1), y0}, {x0, r.Range(y0+1, y1-1)}})
			p.rings = append(p.rings, g.finishRing(tri(on)))
		case v == 3 && w >= 4 && h >= 4:
			c := g.ptIn(x0+2, y0+2, x1-2, y1-2)
			p.rings = append(p.rings,
				g.finishRing([]P{c, {c.x + 1, c.y}, {c.x, c.y + 1}}),
				g.finishRing([]P{c, {c.x - 1, c.y}, {c.x, c.y - 1}}))
		case v == 4 && w >= 5:
			ya, yb := r.Range(y0+1, y1-2), r.Range(y0+1, y1-2)
			p.rings = append(p.rings,
				g.finishRing(rectOpen(x0+1, ya, x0+2, ya+1)),
				g.finishRing(rectOpen(x1-2, yb, x1-1, yb+1)))
		default:
			a0, b0 := r.Range(x0+1, x1-2), r.Range(y0+1, y1-2)
			p.rings = append(p.rings, g.finishRing(rectOpen(a0, b0, r.Range(a0+1, x1-1), r.Range(b0+1, y1-1))))
		}
		return p
	})
}

// polyAny: a polygon inside the box, with holes in a third of the cases when there is room.
func (g *gen) polyAny(x0, y0, x1, y1 int) *sh {
	if x1-x0 >= 3 && y1-y0 >= 3 && g.r.Chance(1, 3) {
		return g.holedIn(x0, y0, x1, y1)
	}
	return g.simplePolyIn(x0, y0, x1, y1)
}

// mpoly: a MultiPolygon whose members have disjoint interiors: polygons in the four cells of the
// box (touching along cell borders is possible and filtered by Validate), or a polygon nested in
// the hole of another; EMPTY polygon members now and then.
func (g *gen) mpoly() *sh {
	r := g.r
	return g.valid(func() *sh {
		m := multiSh(lib.KMPoly)
		if r.Chance(1, 3) {
			S := max(g.s, 5)
			lo, hi := r.Range(1, 2), S-r.Range(1, 2)
			if hi-lo < 3 {
				lo, hi = 1, S-1
			}
			outer := polySh(g.finishRing(rectOpen(0, 0, S, S)), g.finishRing(rectOpen(lo, lo, hi, hi)))
			in := lo + r.Intn(2) // 0: may touch the hole ring at vertices; 1: strictly inside
			m.kids = append(m.kids, outer, polySh(g.finishRing(g.shellIn(in, in, hi-(in-lo), hi-(in-lo)))))
		} else {
			cw := max(1, g.s/2)
			gap := g.s - 2*cw
			cells := []P{{0, 0}, {cw + gap, 0}, {0, cw + gap}, {cw + gap, cw + gap}}
			shuffle(r, cells)
			for _, c := range cells[:r.Range(1, 3)] {
				m.kids = append(m.kids, polySh(g.finishRing(g.shellIn(c.x, c.y, c.x+cw, c.y+cw))))
			}
		}
		if r.Chance(1, 6) {
			m.kids = append(m.kids, polySh())
		}
		shuffle(r, m.kids)
		return m
	})
}

// empty: an empty geometry of the kind: the EMPTY atoms, empty multis, multis and collections
// whose members are all empty (nested up to depth 3).
func (g *gen) empty(k lib.Kind, depth int) *sh {
	r := g.r
	e := &sh{kind: k}
	switch k {
	case lib.KMPoint, lib.KMLine, lib.KMPoly:
		for n := r.Intn(3); n > 0; n-- {
			e.kids = append(e.kids, &sh{kind: k - 3})
		}
	case lib.KColl:
		if depth < 3 {
			for n := r.Intn(4); n > 0; n-- {
				e.kids = append(e.kids, g.empty(lib.Kind(r.Intn(7)), depth+1))
			}
		}
	}
	return e
}

// coll: a GeometryCollection of 0..4 members of any type (members may overlap each other),
// nesting depth up to 3, empty members at any position.
func (g *gen) coll(depth int) *sh {
	r := g.r
	c := multiSh(lib.KColl)
	n := r.Range(1, 4)
	if r.Chance(1, 12) {
		n = 0
	}
	for i := 0; i < n; i++ {
		switch {
		case r.Chance(1, 6):
			c.kids = append(c.kids, g.empty(lib.Kind(r.Intn(7)), depth+1))
		case depth < 2 && r.Chance(1, 5):
			c.kids = append(c.kids, g.coll(depth+1))
		default:
			c.kids = append(c.kids, g.geomOf(lib.Kind(r.Intn(6)), depth+1))
		}
	}
	return c
}

// geomOf: an independent random geometry of the kind inside (about) the box [0,s]^2.
func (g *gen) geomOf(k lib.Kind, depth int) *sh {
	r := g.r
	s := g.s
	switch k {
	case lib.KPoint:
		return pointSh(g.ptIn(0, 0, s, s))
	case lib.KLine:
		return g.lineIn(0, 0, s, s, 6)
	case lib.KPoly:
		return g.polyAny(0, 0, s, s)
	case lib.KMPoint:
		m := multiSh(k)
		for n := r.Range(1, 5); n > 0; n-- {
			switch {
			case r.Chance(1, 8):
				m.kids = append(m.kids, &sh{kind: lib.KPoint})
			case len(m.kids) > 0 && r.Chance(1, 6):
				m.kids = append(m.kids, m.kids[len(m.kids)-1].clone())
			default:
				m.kids = append(m.kids, pointSh(g.ptIn(0, 0, s, s)))
			}
		}
		return m
	case lib.KMLine:
		m := multiSh(k)
		for n := r.Range(1, 3); n > 0; n-- {
			if r.Chance(1, 8) {
				m.kids = append(m.kids, &sh{kind: lib.KLine})
			} else {
				m.kids = append(m.kids, g.lineIn(0, 0, s, s, 5))
			}
		}
		return m
	case lib.KMPoly:
		return g.mpoly()
	}
	return g.coll(depth)
}

// baseAny: a Point, LineString or Polygon (dimension d) in the box [0,s]^2.
func (g *gen) baseAny(d int) *sh { return g.geomOf(lib.Kind(d), 0) }

// baseIn: a small Point, LineString or hole-free Polygon inside the given box.
func (g *gen) baseIn(d, x0, y0, x1, y1 int) *sh {
	switch d {
	case 0:
		return pointSh(g.ptIn(x0, y0, x1, y1))
	case 1:
		return g.lineIn(x0, y0, x1, y1, 4)
	}
	return g.simplePolyIn(x0, y0, max(x1, x0+1), max(y1, y0+1))
}

// ---------------------------------------------------------------- choosing types and wrapping

// pickKind chooses uniformly among the kinds that can hold a base shape of one of the
// dimensions in mask (bit d = dimension d allowed; a collection can hold anything) and returns
// the kind together with the dimension of the base shape to build.
func (g *gen) pickKind(mask int) (lib.Kind, int) {
	var ks []lib.Kind
	var ds []int
	for d := 0; d < 3; d++ {
		if mask>>d&1 == 1 {
			ks = append(ks, lib.Kind(d), lib.Kind(d+3))
			ds = append(ds, d)
		}
	}
	ks = append(ks, lib.KColl)
	k := ks[g.r.Intn(len(ks))]
	if k == lib.KColl {
		return k, pickI(g.r, ds)
	}
	return k, int(k) % 3
}

// farMember: a small Point/LineString/Polygon in the free strip x in [fx,fx+1].
func (g *gen) farMember(k lib.Kind, fx int) *sh {
	y := g.r.Range(0, g.s)
	switch k {
	case lib.KPoint:
		return pointSh(P{fx + g.r.Intn(2), y})
	case lib.KLine:
		return lineSh(P{fx, y}, P{fx + 1, y + g.r.Range(-1, 1)})
	}
	return polySh(g.finishRing(rectOpen(fx, y, fx+1, y+1)))
}

// wrap embeds the base shape b (Point, LineString or Polygon) into a geometry of kind k: as a
// Multi* or a collection (possibly nested, possibly around the Multi*), next to EMPTY members
// and to at most one small extra member per level placed in the free strip x >= fx, so that the
// special position of b relative to the other operand is kept.
func (g *gen) wrap(b *sh, k lib.Kind, fx int) *sh {
	r := g.r
	if k == b.kind {
		return b
	}
	m := multiSh(k, b)
	switch k {
	case lib.KMPoint, lib.KMLine, lib.KMPoly:
		if r.Chance(1, 3) {
			m.kids = append(m.kids, &sh{kind: b.kind})
		}
		if r.Chance(1, 3) {
			m.kids = append(m.kids, g.farMember(b.kind, fx))
		}
		if k == lib.KMPoint && r.Chance(1, 4) {
			m.kids = append(m.kids, b.clone())
		}
	case lib.KColl:
		if b.kind <= lib.KPoly && r.Chance(1, 3) {
			m.kids[0] = g.wrap(b, b.kind+3, fx)
		}
		if r.Chance(1, 3) {
			m.kids = append(m.kids, g.empty(lib.Kind(r.Intn(7)), 2))
		}
		if r.Chance(1, 3) {
			m.kids = append(m.kids, g.farMember(lib.Kind(r.Intn(3)), fx+2))
		}
		if r.Chance(1, 4) { // one more level
			shuffle(r, m.kids)
			m = multiSh(lib.KColl, m)
			if r.Bool() {
				m.kids = append(m.kids, g.empty(lib.Kind(r.Intn(7)), 2))
			}
		}
	}
	shuffle(r, m.kids)
	return m
}

// wrapPair wraps both bases; the free strips of A's and B's extras are kept apart.
func (g *gen) wrapPair(a *sh, ka lib.Kind, b *sh, kb lib.Kind) (*sh, *sh) {
	fx := maxX(a, b) + 2
	return g.wrap(a, ka, fx), g.wrap(b, kb, fx+6)
}

// attach: a Point / LineString / Polygon of dimension d that has v as one of its vertices.
func (g *gen) attach(d int, v P) *sh {
	r := g.r
	switch d {
	case 0:
		return pointSh(v)
	case 1:
		var l *sh
		if r.Bool() {
			l = g.lineIn(0, 0, g.s, g.s, 4)
		} else {
			l = g.lineIn(v.x-2, v.y-2, v.x+2, v.y+2, 4)
		}
		l.pts[r.Intn(len(l.pts))] = v
		fixDistinct(l.pts) // all vertices equal v: the last one moves, v stays at the others
		return l
	}
	return g.valid(func() *sh {
		if r.Chance(1, 3) { // axis rectangle with corner v
			w := P{v.x + pickI(r, []int{-1, 1})*r.Range(1, 2), v.y + pickI(r, []int{-1, 1})*r.Range(1, 2)}
			return polySh(g.finishRing(rectOpen(min(v.x, w.x), min(v.y, w.y), max(v.x, w.x), max(v.y, w.y))))
		}
		a := P{v.x + r.Range(-2, 2), v.y + r.Range(-2, 2)}
		b := P{v.x + r.Range(-2, 2), v.y + r.Range(-2, 2)}
		return polySh(g.finishRing([]P{v, a, b}))
	})
}

// ---------------------------------------------------------------- pair classes

// refine multiplies the grid (the shape a and the box side) by f.
func (g *gen) refine(a *sh, f int) {
	a.scale(f)
	g.s *= f
	g.f *= f
}

// indep: two independent geometries on the dense grid. Point and MultiPoint are drawn twice as
// often here because several derived classes need an operand of dimension >= 1.
func (g *gen) clsIndep() (*sh, *sh) {
	ks := []lib.Kind{lib.KPoint, lib.KPoint, lib.KLine, lib.KPoly, lib.KMPoint, lib.KMPoint, lib.KMLine, lib.KMPoly, lib.KColl}
	ka, kb := ks[g.r.Intn(len(ks))], ks[g.r.Intn(len(ks))]
	return g.geomOf(ka, 0), g.geomOf(kb, 0)
}

// on_vertex: B is or has a vertex exactly on a vertex of A.
func (g *gen) clsOnVertex() (*sh, *sh) {
	ka, da := g.pickKind(7)
	kb, db := g.pickKind(7)
	a := g.baseAny(da)
	b := g.attach(db, pickP(g.r, a.verts()))
	return g.wrapPair(a, ka, b, kb)
}

// on_edge: B is or has a vertex in the relative interior of an edge of A (a T junction for
// lines); the grid is doubled first when the edge has no interior lattice point.
func (g *gen) clsOnEdge() (*sh, *sh) {
	ka, da := g.pickKind(6)
	kb, db := g.pickKind(7)
	a := g.baseAny(da)
	i := g.r.Intn(len(a.segs()))
	sg := a.segs()[i]
	if gcd(sg[1].x-sg[0].x, sg[1].y-sg[0].y) < 2 {
		g.refine(a, 2)
		sg = a.segs()[i]
	}
	n := gcd(sg[1].x-sg[0].x, sg[1].y-sg[0].y)
	t := g.r.Range(1, n-1)
	m := P{sg[0].x + (sg[1].x-sg[0].x)/n*t, sg[0].y + (sg[1].y-sg[0].y)/n*t}
	return g.wrapPair(a, ka, g.attach(db, m), kb)
}

// touch_vertex: B (line or polygon) meets A at one vertex of A only: v is the vertex of A with
// the largest (x, y) and the rest of B has x > v.x. In a third of the cases v is any vertex and
// B leaves it in a random direction (may touch, cross or overlap more of A).
func (g *gen) clsTouchVertex() (*sh, *sh) {
	r := g.r
	ka, da := g.pickKind(7)
	kb, db := g.pickKind(6)
	a := g.baseAny(da)
	vs := a.verts()
	v := vs[0]
	right := func() P { return P{v.x + r.Range(1, 2), v.y + r.Range(-2, 2)} }
	if r.Chance(1, 3) {
		v = pickP(r, vs)
		right = func() P {
			for {
				if d := (P{r.Range(-2, 2), r.Range(-2, 2)}); d != (P{}) {
					return P{v.x + d.x, v.y + d.y}
				}
			}
		}
	} else {
		for _, p := range vs {
			if p.x > v.x || p.x == v.x && p.y > v.y {
				v = p
			}
		}
	}
	var b *sh
	if db == 1 {
		switch r.Intn(3) {
		case 0:
			b = lineSh(v, right())
		case 1:
			b = lineSh(v, right(), right())
		default:
			b = lineSh(right(), v, right()) // v is an inner vertex of B
		}
		if r.Bool() {
			b.pts = reversed(b.pts)
		}
	} else {
		b = g.valid(func() *sh { return polySh(g.finishRing([]P{v, right(), right()})) })
	}
	return g.wrapPair(a, ka, b, kb)
}

// collinear: B has a segment on the line of a segment p q of A (the grid is refined so that p q
// has at least 3 lattice steps): equal, overlapping partially, contained, containing, touching
// end to end, or collinear with a gap.
func (g *gen) clsCollinear() (*sh, *sh) {
	r := g.r
	ka, da := g.pickKind(6)
	kb, db := g.pickKind(6)
	a := g.baseAny(da)
	i := r.Intn(len(a.segs()))
	sg := a.segs()[i]
	switch gcd(sg[1].x-sg[0].x, sg[1].y-sg[0].y) {
	case 1:
		g.refine(a, 3)
	case 2:
		g.refine(a, 2)
	}
	sg = a.segs()[i]
	p, q := sg[0], sg[1]
	n := gcd(q.x-p.x, q.y-p.y)
	d := P{(q.x - p.x) / n, (q.y - p.y) / n}
	var t0, t1 int
	switch r.Intn(6) {
	case 0:
		t0, t1 = 0, n
	case 1:
		t0, t1 = r.Range(1, n-1), n+r.Range(1, 2)
	case 2:
		t0 = r.Range(1, n-2)
		t1 = r.Range(t0+1, n-1)
	case 3:
		t0, t1 = -r.Range(1, 2), n+r.Range(1, 2)
	case 4:
		t0, t1 = n, n+r.Range(1, 3)
	default:
		t0 = n + r.Range(1, 2)
		t1 = t0 + r.Range(1, 2)
	}
	if r.Bool() { // the same configurations at the p end
		t0, t1 = n-t1, n-t0
	}
	at := func(t, off int) P { return P{p.x + d.x*t - d.y*off, p.y + d.y*t + d.x*off} }
	side := pickI(r, []int{-1, 1}) * r.Range(1, 2)
	var b *sh
	if db == 1 {
		b = lineSh(at(t0, 0), at(t1, 0))
		if r.Bool() {
			b.pts = append(b.pts, at(r.Range(t0, t1), side))
		}
		if r.Bool() {
			b.pts = reversed(b.pts)
		}
	} else {
		b = polySh(g.finishRing([]P{at(t0, 0), at(t1, 0), at(r.Range(t0, t1), side)}))
	}
	return g.wrapPair(a, ka, b, kb)
}

// cross: B has a segment u v that crosses a segment p q of A properly, at a point that is in
// general not a lattice point.
func (g *gen) clsCross() (*sh, *sh) {
	r := g.r
	ka, da := g.pickKind(6)
	kb, db := g.pickKind(6)
	a := g.baseAny(da)
	sgs := a.segs()
	sg := sgs[r.Intn(len(sgs))]
	p, q := sg[0], sg[1]
	// fallback: u = p + n, v = q - n with n normal to p q: crossing at the midpoint
	u, v := P{p.x - (q.y - p.y), p.y + (q.x - p.x)}, P{q.x + (q.y - p.y), q.y - (q.x - p.x)}
	x0, y0, x1, y1 := min(p.x, q.x)-2, min(p.y, q.y)-2, max(p.x, q.x)+2, max(p.y, q.y)+2
	for t := 0; t < 30; t++ {
		cu, cv := g.ptIn(x0, y0, x1, y1), g.ptIn(x0, y0, x1, y1)
		if orient(p, q, cu)*orient(p, q, cv) < 0 && orient(cu, cv, p)*orient(cu, cv, q) < 0 {
			u, v = cu, cv
			break
		}
	}
	var b *sh
	if db == 1 {
		b = lineSh(u, v)
		if r.Bool() {
			b.pts = append([]P{g.ptIn(x0, y0, x1, y1)}, b.pts...)
		}
		if r.Bool() {
			b.pts = append(b.pts, g.ptIn(x0, y0, x1, y1))
		}
	} else {
		b = g.valid(func() *sh { return polySh(g.finishRing([]P{u, v, g.ptIn(x0, y0, x1, y1)})) })
	}
	return g.wrapPair(a, ka, b, kb)
}

// in_hole: A is a square with a (rectangular or diamond) hole; B lies strictly inside the hole
// (disjoint although the envelopes nest), or touches the hole ring at one of its vertices, or
// fills the hole exactly (the same ring).
func (g *gen) clsInHole() (*sh, *sh) {
	r := g.r
	ka, _ := g.pickKind(4)
	kb, db := g.pickKind(7)
	S := r.Range(7, 8)
	var hole []P
	var x0, y0, x1, y1 int // the box of lattice points strictly inside the hole
	if r.Chance(1, 3) {
		S = 8
		hole = diamondOpen(4, 4, 3)
		x0, y0, x1, y1 = 3, 3, 5, 5
	} else {
		hx0, hy0, hx1, hy1 := r.Range(1, 2), r.Range(1, 2), r.Range(S-2, S-1), r.Range(S-2, S-1)
		hole = rectOpen(hx0, hy0, hx1, hy1)
		x0, y0, x1, y1 = hx0+1, hy0+1, hx1-1, hy1-1
	}
	a := polySh(g.finishRing(rectOpen(0, 0, S, S)), g.finishRing(hole))
	hv := pickP(r, hole)
	var b *sh
	switch r.Intn(5) {
	case 0: // B reaches a vertex of the hole ring
		switch db {
		case 0:
			b = pointSh(hv)
		case 1:
			b = g.lineIn(x0, y0, x1, y1, 4)
			b.pts[pickI(r, []int{0, len(b.pts) - 1, r.Intn(len(b.pts))})] = hv
			fixDistinct(b.pts)
		default:
			b = g.valid(func() *sh {
				return polySh(g.finishRing([]P{hv, g.ptIn(x0, y0, x1, y1), g.ptIn(x0, y0, x1, y1)}))
			})
		}
	case 1: // B is the hole
		switch db {
		case 0:
			b = pointSh(hv)
		case 1:
			b = lineSh(g.finishRing(hole)...)
		default:
			b = polySh(g.finishRing(hole))
		}
	default:
		b = g.baseIn(db, x0, y0, x1, y1)
	}
	return g.wrapPair(a, ka, b, kb)
}

// nested: B strictly inside the interior of the polygon A, boundaries disjoint (the final swap
// gives the converse): A a rectangle, a diamond, or a square with a hole beside B.
func (g *gen) clsNested() (*sh, *sh) {
	r := g.r
	ka, _ := g.pickKind(4)
	kb, db := g.pickKind(7)
	var a *sh
	var x0, y0, x1, y1 int
	switch r.Intn(3) {
	case 0:
		w, h := r.Range(3, 7), r.Range(3, 7)
		a = polySh(g.finishRing(rectOpen(0, 0, w, h)))
		x0, y0, x1, y1 = 1, 1, w-1, h-1
	case 1:
		rad := r.Range(3, 5)
		a = polySh(g.finishRing(diamondOpen(rad, rad, rad)))
		x0, y0, x1, y1 = rad-1, rad-1, rad+1, rad+1
	default:
		hy := r.Range(1, 5)
		a = polySh(g.finishRing(rectOpen(0, 0, 8, 8)), g.finishRing(rectOpen(5, hy, 7, hy+2)))
		x0, y0, x1, y1 = 1, 1, 4, 7
	}
	return g.wrapPair(a, ka, g.baseIn(db, x0, y0, x1, y1), kb)
}

// notch: envelopes overlap, geometries mostly do not: B in the notch of an L, in the slot of a
// U, beside a diagonal line; and a line whose first vertex is outside the polygon A and a later
// vertex inside.
func (g *gen) clsNotch() (*sh, *sh) {
	r := g.r
	switch r.Intn(4) {
	case 0:
		ka, _ := g.pickKind(4)
		kb, db := g.pickKind(7)
		w, h, ai, bi := r.Range(4, 6), r.Range(4, 6), r.Range(1, 2), r.Range(1, 2)
		gap := 1
		if r.Chance(1, 4) {
			gap = 0 // may touch or overlap the inner corner edges
		}
		a := polySh(g.finishRing(lOpen(0, 0, w, h, ai, bi)))
		return g.wrapPair(a, ka, g.baseIn(db, bi+gap, ai+gap, w, h), kb)
	case 1:
		ka, _ := g.pickKind(4)
		kb, db := g.pickKind(7)
		c, d, h := r.Range(1, 2), r.Range(1, 2), r.Range(4, 6)
		w := 2*c + r.Range(3, 5)
		a := polySh(g.finishRing(uOpen(0, 0, w, h, c, d)))
		return g.wrapPair(a, ka, g.baseIn(db, c+1, d+1, w-c-1, h+1), kb)
	case 2:
		ka, _ := g.pickKind(2)
		kb, db := g.pickKind(7)
		S := r.Range(3, 6)
		a := lineSh(P{0, 0}, P{S, S})
		if r.Bool() {
			j := r.Range(1, S-1)
			a = lineSh(P{0, 0}, P{j, j}, P{S, S})
		}
		b := []*sh{pointSh(P{0, S}), lineSh(P{0, S - 1}, P{0, S}), polySh(g.finishRing([]P{{0, S}, {0, S - 1}, {1, S}}))}[db]
		for t := 0; t < 30; t++ {
			c := g.baseIn(db, 0, 0, S, S)
			ok := true
			for _, p := range c.verts() {
				ok = ok && p.y >= p.x+1
			}
			if ok {
				b = c
				break
			}
		}
		return g.wrapPair(a, ka, b, kb)
	}
	ka, _ := g.pickKind(4)
	kb, _ := g.pickKind(2)
	a := polySh(g.finishRing(rectOpen(2, 1, 6, 5)))
	b := lineSh(P{r.Range(-1, 1), r.Range(0, 6)}, P{r.Range(3, 5), r.Range(2, 4)})
	if r.Bool() {
		b.pts = append(b.pts, g.ptIn(0, 0, 7, 6))
	}
	return g.wrapPair(a, ka, b, kb)
}

// big builds a many-part geometry of dimension d in the strip x <= 7: m parts stacked along y,
// part i reaching x = reach[i] in [0,4], except one part at a random middle index that reaches
// x = 7 (so the feature nearest to an operand on the right is neither first nor last).
// multi=false gives one LineString (zigzag) / one Polygon (comb); multi=true a Multi* whose
// member order is unrelated to the position along y.
func (g *gen) big(d int, multi bool, yoff int) *sh {
	r := g.r
	var m int
	switch {
	case d == 0:
		m = r.Range(30, 100)
	case d == 1 && !multi:
		m = r.Range(10, 75)
	case d == 1:
		m = r.Range(10, 50)
	default:
		m = r.Range(5, 35)
	}
	reach := make([]int, m)
	slot := make([]int, m)
	for i := range reach {
		reach[i] = r.Range(0, 4)
		slot[i] = i
	}
	reach[r.Range(m/4, 3*m/4)] = 7
	if multi {
		shuffle(r, slot)
	}
	y := func(i int) int { return yoff + 2*slot[i] }
	out := multiSh(lib.Kind(d + 3))
	var ps []P
	for i := 0; i < m; i++ {
		switch {
		case d == 0:
			out.kids = append(out.kids, pointSh(P{reach[i], y(i)}))
		case d == 1 && multi:
			l := lineSh(P{reach[i] - r.Range(1, 3), y(i)}, P{reach[i], y(i)})
			if r.Bool() {
				l.pts = append(l.pts, P{reach[i] - r.Range(0, 2), y(i) + 1})
			}
			out.kids = append(out.kids, l)
		case d == 1:
			ps = append(ps, P{reach[i], y(i)}, P{-r.Range(1, 3), y(i) + 1})
		case multi:
			out.kids = append(out.kids, polySh(g.finishRing(rectOpen(reach[i]-1, y(i), reach[i], y(i)+1))))
		default:
			ps = append(ps, P{reach[i], y(i)}, P{reach[i], y(i) + 1}, P{-1, y(i) + 1}, P{-1, y(i) + 2})
		}
	}
	switch {
	case multi || d == 0:
		return out
	case d == 1:
		return lineSh(ps...)
	}
	return polySh(g.finishRing(append([]P{{-2, yoff}}, append(ps, P{-2, yoff + 2*m})...)))
}

// bigOf: a big operand of kind k: a single Point stays one point; a collection holds one or two
// big members of different dimensions stacked along y.
func (g *gen) bigOf(k lib.Kind) *sh {
	r := g.r
	switch k {
	case lib.KPoint:
		return pointSh(P{7, r.Range(0, 40)})
	case lib.KColl:
		c := multiSh(k, g.big(r.Intn(3), r.Bool(), 0))
		if r.Bool() {
			_, _, _, y1, _ := bounds(c)
			c.kids = append(c.kids, g.big(r.Intn(3), r.Bool(), y1+2))
		}
		if r.Chance(1, 3) {
			c.kids = append(c.kids, g.empty(lib.Kind(r.Intn(7)), 2))
		}
		shuffle(r, c.kids)
		if r.Chance(1, 4) {
			c = multiSh(k, c)
		}
		return c
	}
	return g.big(int(k)%3, k >= lib.KMPoint, 0)
}

// far: A (max x = 7) and B (min x = 7+gap) apart by gap grid units (near miss 1..3, far up to
// 900, rarely 0 = touching), A with many parts, B with many parts (mirrored) or a small shape.
func (g *gen) clsFar() (*sh, *sh) {
	r := g.r
	ka, _ := g.pickKind(7)
	for ka == lib.KPoint {
		ka, _ = g.pickKind(7)
	}
	kb, db := g.pickKind(7)
	a := g.bigOf(ka)
	gap := pickI(r, []int{0, 1, 1, 1, 2, 3, 10, 100, 500, 900})
	_, _, _, ay1, _ := bounds(a)
	var b *sh
	if r.Chance(2, 3) {
		b = g.bigOf(kb)
		dy := r.Range(-3, ay1/2)
		b.mapAll(func(p P) P { return P{14 + gap - p.x, p.y + dy} })
	} else {
		b = g.wrap(g.baseIn(db, 0, 0, g.s, g.s), kb, g.s+2)
		b.shift(7+gap, r.Range(0, ay1))
	}
	return a, b
}

// permuted returns a copy of s with the members of every multi geometry / collection shuffled,
// the holes of polygons shuffled, and lines and rings reversed or rings rotated at random.
func (g *gen) permuted(s *sh) *sh {
	r := g.r
	c := s.clone()
	var walk func(*sh)
	walk = func(n *sh) {
		if n.kind == lib.KLine && r.Bool() {
			n.pts = reversed(n.pts)
		}
		for i, ring := range n.rings {
			if len(ring) > 1 && r.Bool() {
				n.rings[i] = g.finishRing(ring[:len(ring)-1])
			}
		}
		if len(n.rings) > 2 {
			shuffle(r, n.rings[1:])
		}
		shuffle(r, n.kids)
		for _, k := range n.kids {
			walk(k)
		}
	}
	walk(c)
	return c
}

// same: B is A again: identical, reversed, ring-rotated, members permuted, and/or wrapped
// differently (as a Multi*, in a collection).
func (g *gen) clsSame() (*sh, *sh) {
	r := g.r
	if r.Chance(1, 3) {
		k, _ := g.pickKind(7)
		a := g.geomOf(k, 0)
		if r.Chance(1, 4) {
			return a, a.clone()
		}
		return a, g.permuted(a)
	}
	d := r.Intn(3)
	ka, _ := g.pickKind(1 << d)
	kb, _ := g.pickKind(1 << d)
	a := g.baseAny(d)
	return g.wrapPair(a, ka, g.permuted(a), kb)
}

// empties: at least one operand is empty.
func (g *gen) clsEmpties() (*sh, *sh) {
	ka, _ := g.pickKind(7)
	kb, _ := g.pickKind(7)
	a := g.empty(ka, 0)
	if g.r.Chance(1, 3) {
		return a, g.empty(kb, 0)
	}
	return a, g.geomOf(kb, 0)
}

// coll: both operands are GeometryCollections.
func (g *gen) clsColl() (*sh, *sh) { return g.coll(0), g.coll(0) }

// near_line: A is lineal (a random walk with diagonal segments), B is puntal with a point in the
// bounding box of one segment of A: on the segment when it has such a lattice point, else (and
// otherwise half of the time) beside it. Most cases of this class go through the magnitude
// streams: at small magnitudes the cross products of such near misses are tiny, which is where an
// absolute tolerance in a kernel predicate would show.
func (g *gen) clsNearLine() (*sh, *sh) {
	r := g.r
	ka, _ := g.pickKind(2)
	kb, _ := g.pickKind(1)
	a := g.lineIn(0, 0, g.s, g.s, 5)
	sg := a.segs()
	e := sg[r.Intn(len(sg))]
	x0, x1 := min(e[0].x, e[1].x), max(e[0].x, e[1].x)
	y0, y1 := min(e[0].y, e[1].y), max(e[0].y, e[1].y)
	p := P{r.Range(x0, x1), r.Range(y0, y1)}
	if r.Bool() { // try a lattice point of the segment itself
		dx, dy := e[1].x-e[0].x, e[1].y-e[0].y
		if d := gcd(iabs(dx), iabs(dy)); d > 1 {
			t := r.Range(1, d-1)
			p = P{e[0].x + dx/d*t, e[0].y + dy/d*t}
		}
	}
	return g.wrapPair(a, ka, pointSh(p), kb)
}

// perp_foot: two operands that do NOT intersect and whose nearest points include the foot of a
// perpendicular (not just two vertices). The picture is drawn in a frame (u,v) and mapped by the
// lattice similarity (u,v) -> u*d + v*n with d a primitive direction and n = d rotated by 90
// degrees (distances are multiplied by |d|, irrational for the sloped directions): A lies in
// v <= 0 and has the edge v = 0, 0 <= u <= t (a segment of a LineString, or an edge of a
// rectangle - sometimes with a hole - or triangle); B lies in v >= m >= 1 and has either a vertex
// (s,m) with 0 < s < t (a point, the end or a bend of a LineString, the lowest vertex of a
// triangle) or an edge on v = m, parallel to A's edge, whose projection overlaps it in positive
// length (parallel segments, facing polygon edges). Most cases of this class go through the
// magnitude streams, half of them through the extreme one (x_).
func (g *gen) clsPerpFoot() (*sh, *sh) {
	r := g.r
	ka, da := g.pickKind(6)
	kb, db := g.pickKind(7)
	d := pickP(r, []P{{1, 0}, {1, 0}, {1, 1}, {1, 1}, {2, 1}, {1, 2}, {3, 1}, {3, 2}, {2, 3}})
	t := r.Range(2, 4)
	m := r.Range(1, 2)
	if r.Chance(1, 6) {
		m = 3
	}
	var a, b *sh
	if da == 1 {
		ps := []P{{0, 0}, {t, 0}}
		if r.Bool() {
			ps = append([]P{{r.Range(-1, 1), -r.Range(1, 2)}}, ps...)
		}
		if r.Bool() {
			ps = append(ps, P{t + r.Range(-1, 1), -r.Range(1, 2)})
		}
		if r.Bool() {
			ps = reversed(ps)
		}
		a = lineSh(ps...)
	} else {
		h := r.Range(1, 3)
		switch {
		case r.Bool():
			a = polySh(g.finishRing([]P{{0, 0}, {t, 0}, {r.Range(0, t), -h}}))
		case t >= 3 && h == 3 && r.Bool():
			a = polySh(g.finishRing(rectOpen(0, -h, t, 0)), g.finishRing(rectOpen(1, -2, t-1, -1)))
		default:
			a = polySh(g.finishRing(rectOpen(0, -h, t, 0)))
		}
	}
	s := r.Range(1, t-1)
	up := func(x int) P { return P{x + r.Range(-2, 2), m + r.Range(1, 2)} }
	// an edge of B on v = m over [s0,s1], s0 < t, s1 > 0
	s0 := r.Range(-1, t-1)
	s1 := r.Range(max(s0+1, 1), t+1)
	vertexMode := r.Bool()
	switch {
	case db == 0:
		b = pointSh(P{s, m})
	case db == 1 && vertexMode:
		ps := []P{{s, m}, up(s)}
		if r.Bool() {
			ps = append([]P{up(s)}, ps...)
		}
		if r.Bool() {
			ps = reversed(ps)
		}
		b = lineSh(ps...)
	case db == 1:
		ps := []P{{s0, m}, {s1, m}}
		if r.Bool() {
			ps = append(ps, up(s1))
		}
		if r.Bool() {
			ps = reversed(ps)
		}
		b = lineSh(ps...)
	case vertexMode:
		// never degenerate: the second vertex is not right of s, the third one is
		b = polySh(g.finishRing([]P{{s, m}, {s + r.Range(1, 2), m + r.Range(1, 2)}, {s - r.Range(0, 2), m + r.Range(1, 2)}}))
	default:
		b = polySh(g.finishRing(rectOpen(s0, m, s1, m+r.Range(1, 2))))
	}
	n := P{-d.y, d.x}
	fr := func(p P) P { return P{p.x*d.x + p.y*n.x, p.x*d.y + p.y*n.y} }
	a.mapAll(fr)
	b.mapAll(fr)
	x0, y0, _, _, _ := bounds(a, b)
	a.shift(-x0, -y0)
	b.shift(-x0, -y0)
	return g.wrapPair(a, ka, b, kb)
}

// strictInRing: p strictly inside the simple ring given as an open vertex list (integer crossing
// test; points on the ring count as outside).
func strictInRing(ring []P, p P) bool {
	n := len(ring)
	in := false
	for i := 0; i < n; i++ {
		a, b := ring[i], ring[(i+1)%n]
		if orient(a, b, p) == 0 && min(a.x, b.x) <= p.x && p.x <= max(a.x, b.x) && min(a.y, b.y) <= p.y && p.y <= max(a.y, b.y) {
			return false
		}
		if (a.y > p.y) != (b.y > p.y) {
			// p left of the edge at height p.y  <=>  orientation of (lower, upper, p) is a left turn
			lo, up := a, b
			if lo.y > up.y {
				lo, up = up, lo
			}
			if orient(lo, up, p) > 0 {
				in = !in
			}
		}
	}
	return in
}

func ringBox(ring []P) (x0, y0, x1, y1 int) {
	x0, y0, x1, y1 = ring[0].x, ring[0].y, ring[0].x, ring[0].y
	for _, p := range ring {
		x0, y0, x1, y1 = min(x0, p.x), min(y0, p.y), max(x1, p.x), max(y1, p.y)
	}
	return
}

// multi_hole: A is a square with 2..4 NON-rectangular holes (triangles, an L with a triangle in
// its notch, diagonal slivers) that are pairwise disjoint although their envelopes overlap or
// nest; the holes appear in a random order. B is placed strictly inside one hole - preferably at
// a spot that also lies in the envelope of ANOTHER hole - as a point, a multipoint, a line
// string or a triangle (convex holes), or on a vertex of the hole ring, or in the material
// between the holes. Everything is built on a grid refined by 2 so that slivers have interior
// lattice points. The outcome must not depend on the order of the holes.
func (g *gen) clsMultiHole() (*sh, *sh) {
	r := g.r
	type hole struct {
		ring   []P
		convex bool
	}
	tri := func(x, y, n int) (hole, hole) { // two triangles, the halves of a square apart along the anti-diagonal
		return hole{[]P{{x, y}, {x + n - 1, y}, {x, y + n - 1}}, true},
			hole{[]P{{x + n, y + 1}, {x + n, y + n}, {x + 1, y + n}}, true}
	}
	sliver := func(x, y int) hole { // a diagonal band of horizontal width 1
		return hole{[]P{{x, y}, {x + 1, y}, {x + 5, y + 4}, {x + 4, y + 4}}, true}
	}
	var hs []hole
	switch r.Intn(4) {
	case 0:
		h1, h2 := tri(1, 1, r.Range(5, 7))
		hs = []hole{h1, h2}
	case 1: // envelopes nest: an L and a triangle in its notch
		hs = []hole{
			{[]P{{1, 1}, {8, 1}, {8, 3}, {3, 3}, {3, 8}, {1, 8}}, false},
			{[]P{{4, 4}, {7, 4}, {4, 7}}, true},
		}
	case 2:
		hs = []hole{sliver(1, 2), sliver(3, 2), sliver(5, 2)}
	default:
		h1, h2 := tri(1, 1, 5)
		hs = []hole{h1, h2, sliver(8, 1), sliver(10, 1)}
		if r.Bool() {
			hs = append(hs[:2:2], hole{[]P{{8, 8}, {14, 8}, {14, 10}, {10, 10}, {10, 14}, {8, 14}}, false},
				hole{[]P{{11, 11}, {14, 11}, {11, 14}}, true})
		}
	}
	for i := range hs { // the refined grid
		for k := range hs[i].ring {
			hs[i].ring[k] = P{2 * hs[i].ring[k].x, 2 * hs[i].ring[k].y}
		}
	}
	g.s, g.f = 2*g.s, 2*g.f
	shuffle(r, hs)
	rings := [][]P{g.finishRing(rectOpen(0, 0, 32, 32))}
	for _, h := range hs {
		rings = append(rings, g.finishRing(h.ring))
	}
	a := polySh(rings...)
	// lattice points strictly inside the target hole; those inside another hole's envelope first
	t := r.Intn(len(hs))
	x0, y0, x1, y1 := ringBox(hs[t].ring)
	var hot, cold []P
	for x := x0; x <= x1; x++ {
		for y := y0; y <= y1; y++ {
			q := P{x, y}
			if !strictInRing(hs[t].ring, q) {
				continue
			}
			inOther := false
			for i, h := range hs {
				if i != t {
					ex0, ey0, ex1, ey1 := ringBox(h.ring)
					if ex0 <= x && x <= ex1 && ey0 <= y && y <= ey1 {
						inOther = true
					}
				}
			}
			if inOther {
				hot = append(hot, q)
			} else {
				cold = append(cold, q)
			}
		}
	}
	pick := func() P {
		if len(hot) > 0 && (len(cold) == 0 || r.Chance(4, 5)) {
			return pickP(r, hot)
		}
		if len(cold) > 0 {
			return pickP(r, cold)
		}
		return hs[t].ring[0]
	}
	ka, _ := g.pickKind(4)
	kb, db := g.pickKind(7)
	var b *sh
	switch mode := r.Intn(10); {
	case mode == 0: // on a vertex of the hole ring
		b = pointSh(pickP(r, hs[t].ring))
		kb, _ = g.pickKind(1)
	case mode == 1: // in the material between / around the holes
		b = pointSh(P{r.Range(1, 31), 31})
		kb, _ = g.pickKind(1)
	case db == 0 || !hs[t].convex:
		if kb != lib.KPoint && kb != lib.KMPoint && kb != lib.KColl {
			kb = lib.KMPoint
		}
		b = pointSh(pick())
		if kb != lib.KPoint && r.Bool() {
			b = multiSh(lib.KMPoint, pointSh(pick()), pointSh(pick()))
			kb = lib.KMPoint
		}
	case db == 1:
		ps := []P{pick(), pick(), pick()}
		fixDistinct(ps)
		b = lineSh(ps...)
	default:
		b = g.valid(func() *sh { return polySh(g.finishRing([]P{pick(), pick(), pick()})) })
		if !isValid(b) {
			b = pointSh(pick())
			kb, _ = g.pickKind(1)
		}
	}
	return g.wrapPair(a, ka, b, kb)
}

// gc_overlap: A is a collection whose areal members OVERLAP: a square with a hole plus a second
// polygon that covers the hole (the same shell without the hole, a larger rectangle, or a
// rectangle that covers only part of the hole); B lies inside the hole box. The point sets
// intersect whenever B meets the cover. (Overlay-based operations mislabel such collections: known
// finding F20; Intersects and Distance do not use the overlay.)
func (g *gen) clsGCOverlap() (*sh, *sh) {
	r := g.r
	kb, db := g.pickKind(7)
	S := r.Range(7, 8)
	hx0, hy0, hx1, hy1 := r.Range(1, 2), r.Range(1, 2), r.Range(S-2, S-1), r.Range(S-2, S-1)
	hole := rectOpen(hx0, hy0, hx1, hy1)
	holed := polySh(g.finishRing(rectOpen(0, 0, S, S)), g.finishRing(hole))
	var cover *sh
	switch r.Intn(4) {
	case 0: // the same shell, no hole
		cover = polySh(g.finishRing(rectOpen(0, 0, S, S)))
	case 1: // a larger rectangle
		cover = polySh(g.finishRing(rectOpen(-1, -1, S+1, S+1)))
	case 2: // exactly the hole
		cover = polySh(g.finishRing(hole))
	default: // part of the hole and part of the ring around it
		cover = polySh(g.finishRing(rectOpen(hx0-1, hy0-1, (hx0+hx1)/2, hy1+1)))
	}
	kids := []*sh{holed, cover}
	if r.Chance(1, 3) {
		kids = append(kids, g.empty(lib.Kind(r.Intn(7)), 2))
	}
	shuffle(r, kids)
	a := multiSh(lib.KColl, kids...)
	if r.Chance(1, 4) {
		a = multiSh(lib.KColl, a)
	}
	b := g.baseIn(db, hx0+1, hy0+1, hx1-1, hy1-1)
	fx := maxX(a, b) + 2
	return a, g.wrap(b, kb, fx+6)
}

// ---------------------------------------------------------------- one case

type class struct {
	name   string
	weight int
	nudge  bool // the construction always intersects: B is moved by one grid step in 2 of 5 cases
	build  func(*gen) (*sh, *sh)
}

// The classes whose construction makes A and B intersect get a smaller weight each and the
// near-miss variant (nudge), so that Intersects is true in roughly half of the cases overall.
var classes = []class{
	{"indep", 14, false, (*gen).clsIndep},
	{"on_vertex", 6, true, (*gen).clsOnVertex},
	{"on_edge", 6, true, (*gen).clsOnEdge},
	{"touch_vertex", 6, true, (*gen).clsTouchVertex},
	{"collinear", 6, true, (*gen).clsCollinear},
	{"cross", 6, true, (*gen).clsCross},
	{"in_hole", 10, false, (*gen).clsInHole},
	{"nested", 6, true, (*gen).clsNested},
	{"notch", 11, false, (*gen).clsNotch},
	{"far", 11, false, (*gen).clsFar},
	{"same", 6, true, (*gen).clsSame},
	{"empties", 7, false, (*gen).clsEmpties},
	{"coll", 8, false, (*gen).clsColl},
	{"gc_overlap", 4, false, (*gen).clsGCOverlap},
	{"near_line", 4, false, (*gen).clsNearLine},
	{"multi_hole", 6, false, (*gen).clsMultiHole},
	{"perp_foot", 5, false, (*gen).clsPerpFoot},
}

// symmetry applies one random symmetry of the common bounding box (flips, transposition) to all
// shapes, so that the directed constructions above ("B to the right of A") occur in all directions.
func symmetry(r *lib.Rng, ss ...*sh) {
	x0, y0, x1, y1, ok := bounds(ss...)
	if !ok {
		return
	}
	fx, fy, tr := r.Bool(), r.Bool(), r.Bool()
	for _, s := range ss {
		s.mapAll(func(p P) P {
			if fx {
				p.x = x0 + x1 - p.x
			}
			if fy {
				p.y = y0 + y1 - p.y
			}
			if tr {
				p.x, p.y = p.y, p.x
			}
			return p
		})
	}
}

// place maps grid coordinates to the final integer ordinates o + k*c with |ordinate| <= 1024:
// scale k in {1,2,3,7,100} (as far as the extent allows), offset mostly 0, sometimes random,
// sometimes extreme (the box touches +-1024).
func place(r *lib.Rng, ss ...*sh) {
	x0, y0, x1, y1, ok := bounds(ss...)
	if !ok {
		return
	}
	k := 1
	if !r.Chance(2, 5) {
		k = pickI(r, []int{1, 2, 3, 7, 100})
	}
	if k*(x1-x0) > 2048 || k*(y1-y0) > 2048 {
		k = 1
	}
	mode := r.Intn(20)
	off := func(lo, hi int) int { // admissible offsets are lo..hi
		switch {
		case mode < 11:
			return clamp(0, lo, hi)
		case mode < 16:
			return r.Range(lo, hi)
		}
		return pickI(r, []int{lo, hi})
	}
	ox, oy := off(-1024-k*x0, 1024-k*x1), off(-1024-k*y0, 1024-k*y1)
	for _, s := range ss {
		s.mapAll(func(p P) P { return P{ox + k*p.x, oy + k*p.y} })
	}
}

// exponents of the extreme power-of-two stream x_ (see main)
var xExps = []int{-530, -500, -400, -300, -280, -270, -265, -260, -200, -100, 100, 200, 250, 256, 260, 300, 400, 490, 496}

const xExpMin, xExpMax = -530, 496

func bucket(n int) string {
	switch {
	case n == 0:
		return "0"
	case n <= 4:
		return "1-4"
	case n <= 16:
		return "5-16"
	case n <= 64:
		return "17-64"
	}
	return "65+"
}

func main() {
	args := lib.ParseArgs()
	w, done := args.Output()
	defer done()
	root := lib.NewRng(args.Seed)
	total := 0
	for _, c := range classes {
		total += c.weight
	}
	nClass, nPair, nSize := map[string]int{}, map[string]int{}, map[string]int{}
	var nInter, nNotInter, nInterNonEmpty, nNonEmpty, nEmptyOperand, nInvalidAB, nInvalidAny, nPanic, nErr int
	var nXneg, nXpos int
	for i := 0; i < args.N; i++ {
		r := root.Fork()
		pickw := r.Intn(total)
		ci := 0
		for pickw >= classes[ci].weight {
			pickw -= classes[ci].weight
			ci++
		}
		cl := classes[ci]
		s0 := r.Range(3, 6)
		g := &gen{r: r}
		var a, b *sh
		for try := 0; try < 6; try++ { // the valid-by-design constructions are filtered once more
			g.s, g.f = s0, 1
			a, b = cl.build(g)
			if cl.nudge && r.Chance(2, 5) { // near miss: one grid step off the special position
				d := dirs8[r.Intn(8)]
				b.shift(d.x, d.y)
			}
			if isValid(a) && isValid(b) {
				break
			}
		}
		// C: independent, small, on the unrefined grid (scaled like A and B were)
		f := g.f
		g.s, g.f = s0, 1
		var c *sh
		if r.Chance(1, 12) {
			c = g.empty(lib.Kind(r.Intn(7)), 0)
		} else {
			c = g.geomOf(lib.Kind(r.Intn(7)), 0)
		}
		c.scale(f)
		symmetry(r, a, b, c)
		place(r, a, b, c)
		if r.Bool() {
			a, b = b, a
		}
		ct := func() geom.CoordinatesType {
			if r.Chance(1, 8) {
				return geom.CoordinatesType(r.Range(1, 3))
			}
			return geom.DimXY
		}
		na, nb, nc := toNode(a, ct(), r), toNode(b, ct(), r), toNode(c, ct(), r)
		// Two magnitude streams, both dumped with hex ordinates (lib.Dump):
		//
		// f_<class> (i%16 == 15, small inputs only): the lattice case is mapped by a random
		// similarity evaluated in float64 (rotation, scale 1e-18..1e+12 log-uniform, translation of
		// the same order), so the ordinates are arbitrary doubles; exact incidences become
		// sub-tolerance near-incidences, which the driver's exact clearance test excludes, as the
		// quantifier of the property says.
		//
		// p_<class> (i%16 in {3, 7}): the lattice case is scaled by an exact power of two, 2^-k with k in
		// 10..60 (three times out of four) or 2^+k with k in 1..40. Every float operation of the
		// implementation commutes with that scaling, so the case is the lattice case at another
		// magnitude (1e-18 .. 1e+15): the exact oracle applies unchanged, no clearance question.
		//
		// x_<class> (i%16 == 11): the same with an extreme exponent, 2^k with k one of xExps or
		// uniform in xExpMin..-62 / 42..xExpMax (magnitudes 1e-157 .. 1e+152). The bounds are the
		// range in which every product of TWO ordinate differences and every sum of two such
		// products (all that the orientation tests, dot and cross products, squared box distances
		// of the Intersects / Distance code form) is still exact: |difference| <= 2^(11+k), so
		// |sum of two products| <= 2^(23+2k) < 2^1024 for k <= 500, and an integer multiple of
		// 2^(2k) below 2^(23+2k) is a float64 (possibly subnormal) for 2k >= -1074. Hypot and the
		// final division scale exactly as long as the result is normal. So the exact answer is the
		// lattice answer times 2^k, and the true distance (0 or between 2^(k-12) and 2^(k+12)) is a
		// normal float64.
		// Measured on the unchanged library: bit-for-bit equal to the scaled lattice result for
		// every k in -537..500, wrong from k = -538 / 501 on (where the quantifier's "every
		// orientation test is exact in float64" no longer holds).
		dump, cname := zDump, cl.name
		var tr func(n *lib.Node, f func(x, y float64) (float64, float64))
		tr = func(n *lib.Node, f func(x, y float64) (float64, float64)) {
			for k := range n.C {
				n.C[k][0], n.C[k][1] = f(n.C[k][0], n.C[k][1])
			}
			for _, kid := range n.Kids {
				tr(kid, f)
			}
		}
		sel := i % 16
		switch cl.name {
		case "near_line": // 3/8 of this class through p_, a quarter through f_, 1/8 through x_
			sel = []int{7, 15, 7, 0, 7, 15, 11, 0}[i%8]
		case "perp_foot": // half of this class through x_, 1/8 each through p_ and f_
			sel = []int{11, 7, 11, 0, 11, 15, 11, 0}[i%8]
		}
		switch {
		case sel == 15 && len(a.segs())+len(b.segs())+len(c.segs()) <= 24:
			th := 2 * math.Pi * float64(r.Intn(1<<20)) / float64(1<<20)
			sc := math.Pow(10, float64(r.Range(-180, 120))/10)
			tx := sc * float64(r.Range(-1000, 1000)) * 1.1
			ty := sc * float64(r.Range(-1000, 1000)) * 0.9
			co, si := math.Cos(th), math.Sin(th)
			f := func(x, y float64) (float64, float64) {
				return sc*(x*co-y*si) + tx, sc*(x*si+y*co) + ty
			}
			tr(na, f)
			tr(nb, f)
			tr(nc, f)
			dump, cname = lib.Dump, "f_"+cl.name
		case sel == 7 || sel == 3:
			k := -r.Range(10, 60)
			if r.Chance(1, 4) {
				k = r.Range(1, 40)
			}
			sc := math.Ldexp(1, k)
			f := func(x, y float64) (float64, float64) { return x * sc, y * sc }
			tr(na, f)
			tr(nb, f)
			tr(nc, f)
			dump, cname = lib.Dump, "p_"+cl.name
		case sel == 11:
			k := pickI(r, xExps)
			if r.Bool() {
				k = r.Range(42, xExpMax)
				if r.Chance(3, 5) {
					k = -r.Range(62, -xExpMin)
				}
			}
			sc := math.Ldexp(1, k)
			f := func(x, y float64) (float64, float64) { return x * sc, y * sc }
			tr(na, f)
			tr(nb, f)
			tr(nc, f)
			dump, cname = lib.Dump, "x_"+cl.name
			if k < 0 {
				nXneg++
			} else {
				nXpos++
			}
		}
		ga := na.Build()
		gb := nb.Build()
		gc := nc.Build()
		fields := []string{
			strconv.Itoa(i), cname, dump(ga), dump(gb), dump(gc),
			obsValid(ga) + obsValid(gb) + obsValid(gc),
			obsEmpty(ga) + obsEmpty(gb) + obsEmpty(gc),
			obsIntersects(ga, gb), obsIntersects(gb, ga),
			obsDisjoint(ga, gb), obsInterEmpty(ga, gb),
			obsDist(ga, gb), obsDist(gb, ga), obsDist(ga, gc), obsDist(gb, gc),
			obsEnvDist(ga, gb),
		}
		fmt.Fprintln(w, strings.Join(fields, "\t"))
		// distribution
		nClass[cname]++
		nPair[lib.KindTag[a.kind]+"-"+lib.KindTag[b.kind]]++
		nSize[bucket(len(a.segs())+len(b.segs()))]++
		emptyAB := fields[6][0] == '1' || fields[6][1] == '1'
		if emptyAB {
			nEmptyOperand++
		} else {
			nNonEmpty++
		}
		if fields[7] == "1" {
			nInter++
			if !emptyAB {
				nInterNonEmpty++
			}
		} else {
			nNotInter++
		}
		if fields[5][:2] != "11" {
			nInvalidAB++
		}
		if fields[5] != "111" {
			nInvalidAny++
		}
		for _, fld := range fields[7:] {
			switch fld {
			case "P":
				nPanic++
			case "E":
				nErr++
			}
		}
	}
	js, _ := json.Marshal(map[string]interface{}{
		"cmd": "c09", "n": args.N, "classes": nClass, "pairs": nPair, "pair_kinds": len(nPair),
		"intersects_true": nInter, "intersects_false": nNotInter,
		"nonempty_cases": nNonEmpty, "intersects_true_nonempty": nInterNonEmpty,
		"empty_operand": nEmptyOperand, "invalid_a_or_b": nInvalidAB, "invalid_any": nInvalidAny,
		"segments_a_plus_b": nSize, "panic_fields": nPanic, "error_fields": nErr,
		"validate_panics": validatePanics, "extreme_pow2_negative": nXneg, "extreme_pow2_positive": nXpos,
	})
	fmt.Fprintf(w, "#GEN\t%s\n", js)
}
