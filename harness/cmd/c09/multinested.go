package main

import "verifharness/lib"

// multi_nested: both operands are areal with SEVERAL members laid out in disjoint cells of a
// strip; no boundary of A meets a boundary of B.  In each cell there is a polygon of A alone, one
// of B alone, a polygon of one operand strictly inside a polygon of the other (intersecting), or
// strictly inside a HOLE of a polygon of the other (disjoint).  At most one cell (sometimes none)
// holds a containment, and the member that takes part in it is put at a random position of its
// operand, biased towards the end: an implementation that decides "boundaries disjoint" pairs by
// probing a single representative point of an operand (right for one connected polygon) is wrong
// exactly when the probed member is not the nested one.  Operands are MultiPolygons, Polygons
// (when they have one member) or collections of polygons / MultiPolygons with EMPTY members.
func (g *gen) clsMultiNested() (*sh, *sh) {
	r := g.r
	const W = 12
	ncell := r.Range(2, 5)
	special := -1
	if !r.Chance(1, 5) {
		special = r.Intn(ncell)
	}
	var as, bs []*sh
	var aSpec, bSpec *sh
	for c := 0; c < ncell; c++ {
		x0 := c * W
		outerRect := func() *sh {
			return polySh(g.finishRing(rectOpen(x0, 0, x0+r.Range(7, 10), r.Range(7, 10))))
		}
		if c != special {
			switch r.Intn(3) {
			case 0:
				as = append(as, g.polyAny(x0, 0, x0+r.Range(3, 9), r.Range(3, 9)))
			case 1:
				bs = append(bs, g.polyAny(x0, 0, x0+r.Range(3, 9), r.Range(3, 9)))
			default: // both, side by side with a gap
				as = append(as, g.simplePolyIn(x0, 0, x0+4, r.Range(3, 9)))
				bs = append(bs, g.simplePolyIn(x0+6, 0, x0+10, r.Range(3, 9)))
			}
			continue
		}
		var outer, inner *sh
		if r.Chance(2, 5) { // inner in a hole of outer: disjoint
			outer = polySh(g.finishRing(rectOpen(x0, 0, x0+10, 10)), g.finishRing(rectOpen(x0+2, 2, x0+8, 8)))
			inner = g.simplePolyIn(x0+3, 3, x0+7, 7)
		} else {
			outer = outerRect()
			inner = g.simplePolyIn(x0+1, 1, x0+5, 5)
			if r.Chance(1, 3) { // a hole of the outer polygon elsewhere
				if v := outer.verts(); len(v) > 2 && v[2].x >= x0+9 && v[2].y >= 9 {
					outer.rings = append(outer.rings, g.finishRing(rectOpen(x0+6, 6, x0+8, 8)))
				}
			}
		}
		if r.Bool() {
			aSpec, bSpec = outer, inner
		} else {
			aSpec, bSpec = inner, outer
		}
	}
	place := func(ms []*sh, sp *sh) []*sh {
		shuffle(r, ms)
		if sp == nil {
			return ms
		}
		pos := len(ms)
		if r.Chance(1, 3) {
			pos = r.Intn(len(ms) + 1)
		}
		out := append([]*sh{}, ms[:pos]...)
		out = append(out, sp)
		return append(out, ms[pos:]...)
	}
	as, bs = place(as, aSpec), place(bs, bSpec)
	fx := ncell*W + 2
	if len(as) == 0 {
		as = append(as, g.farMember(lib.KPoly, fx))
	}
	if len(bs) == 0 {
		bs = append(bs, g.farMember(lib.KPoly, fx+4))
	}
	pack := func(ms []*sh) *sh {
		if len(ms) == 1 && r.Chance(1, 3) {
			return ms[0]
		}
		switch r.Intn(6) {
		case 0: // a collection of polygons
			kids := append([]*sh{}, ms...)
			if r.Chance(1, 3) {
				kids = append([]*sh{g.empty(lib.Kind(r.Intn(7)), 2)}, kids...)
			}
			return multiSh(lib.KColl, kids...)
		case 1: // a collection around the MultiPolygon
			m := multiSh(lib.KMPoly, ms...)
			if r.Bool() {
				return multiSh(lib.KColl, &sh{kind: lib.KPoly}, m)
			}
			return multiSh(lib.KColl, m)
		default:
			m := multiSh(lib.KMPoly, ms...)
			if r.Chance(1, 4) {
				m.kids = append([]*sh{{kind: lib.KPoly}}, m.kids...)
			}
			return m
		}
	}
	return pack(as), pack(bs)
}

func init() {
	classes = append(classes, class{"multi_nested", 6, false, (*gen).clsMultiNested})
}
