package main

import "verifharness/lib"

// pts_diag: the operand that Distance INDEXES (the one with more parts) consists of point records
// - a MultiPoint, or a collection of Points / MultiPoints, 3..9 of them - and the other operand
// has few, long, DIAGONAL segments (a LineString of 1..2 segments, a thin triangle, or two of them
// as a Multi*).  The best-first search visits the records in the order of their distance to the
// bounding box of the segment, which for a diagonal segment is far from the order of their
// distances to the segment itself: points in the empty corners of the box come first (box
// distance 0, far from the segment), the nearest point is often one beyond an end of the segment
// (box distance > 0).  A search that prunes with anything but a LOWER bound of the record's
// distance stops before it gets there.  All points keep a distance >= 1 grid step from the
// segments, so the operands are disjoint and every distance is positive.
func (g *gen) clsPtsDiag() (*sh, *sh) {
	r := g.r
	L := r.Range(6, 14)
	d := r.Range(-3, 3) // the far end is (L, L+d): not always the exact diagonal
	a, b := P{0, 0}, P{L, L + d}
	var other *sh
	var segs [][2]P
	switch r.Intn(4) {
	case 0:
		other = lineSh(a, b)
		segs = [][2]P{{a, b}}
	case 1: // two segments: a diagonal and a continuation
		c := P{L + r.Range(2, 5), L + d + r.Range(-1, 1)}
		other = lineSh(a, b, c)
		segs = [][2]P{{a, b}, {b, c}}
	case 2: // a thin triangle along the diagonal
		c := P{L - 1, L + d + 1}
		if orient(a, b, c) == 0 {
			c.y++
		}
		other = polySh(g.finishRing([]P{a, b, c}))
		segs = [][2]P{{a, b}, {b, c}, {c, a}}
	default: // two parallel diagonals as a MultiLineString
		a2, b2 := P{0, -L - 6}, P{L, d - 6}
		other = multiSh(lib.KMLine, lineSh(a, b), lineSh(a2, b2))
		segs = [][2]P{{a, b}, {a2, b2}}
	}
	// squared distance from p to segment s, times |s|^2 (exact integers)
	far := func(p P) bool {
		for _, s := range segs {
			ux, uy := s[1].x-s[0].x, s[1].y-s[0].y
			vx, vy := p.x-s[0].x, p.y-s[0].y
			t := ux*vx + uy*vy
			n := ux*ux + uy*uy
			var d2n int // squared distance times n
			switch {
			case t <= 0:
				d2n = (vx*vx + vy*vy) * n
			case t >= n:
				wx, wy := p.x-s[1].x, p.y-s[1].y
				d2n = (wx*wx + wy*wy) * n
			default:
				c := ux*vy - uy*vx
				d2n = c * c
			}
			if d2n < n { // closer than one grid step
				return false
			}
		}
		return true
	}
	x0, y0, x1, y1 := -4, min(0, d)-4, L+5, max(L, L+d)+4
	var pts []*sh
	n := r.Range(3, 9)
	for t := 0; len(pts) < n && t < 200; t++ {
		var p P
		switch r.Intn(4) {
		case 0: // the empty corners of the box of the diagonal
			if r.Bool() {
				p = P{r.Range(L/2+1, L), r.Range(0, L/4)}
			} else {
				p = P{r.Range(0, L/4), r.Range(L/2+1, L)}
			}
		case 1: // beyond an end
			if r.Bool() {
				p = P{L + r.Range(1, 3), L + d + r.Range(-2, 2)}
			} else {
				p = P{-r.Range(1, 3), r.Range(-2, 2)}
			}
		default:
			p = P{r.Range(x0, x1), r.Range(y0, y1)}
		}
		if far(p) {
			pts = append(pts, pointSh(p))
		}
	}
	if len(pts) == 0 {
		pts = append(pts, pointSh(P{L + 3, -3}))
	}
	var cloud *sh
	switch r.Intn(5) {
	case 0: // a collection of points
		cloud = multiSh(lib.KColl, pts...)
	case 1: // a collection of a MultiPoint and points, with an empty member
		k := len(pts) / 2
		cloud = multiSh(lib.KColl, multiSh(lib.KMPoint, pts[:k]...), &sh{kind: lib.KPoint})
		cloud.kids = append(cloud.kids, pts[k:]...)
	default:
		cloud = multiSh(lib.KMPoint, pts...)
	}
	if r.Bool() {
		return other, cloud
	}
	return cloud, other
}

func init() {
	classes = append(classes, class{"pts_diag", 6, false, (*gen).clsPtsDiag})
}
