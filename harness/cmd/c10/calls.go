package main

// The call table of property C10: every entry is a closure over indices into the shared pool
// that invokes one public operation and renders its result as a string of bytes (WKB hex for
// geometries, IEEE bit patterns for floats, the DE-9IM string, the error text). Calls named
// "mut.*" additionally overwrite everything the accessor handed out (slices, structs, byte
// buffers with their spare capacity) so that aliasing with the operand's storage shows up when
// the pool is re-observed.

import (
	"fmt"
	"math"
	"strings"

	"github.com/peterstace/simplefeatures/geom"
	"github.com/peterstace/simplefeatures/rtree"
	"verifharness/lib"
)

type c10Call struct {
	Key     string
	Overlay bool // backed by the DCEL overlay (Go map iteration inside): repeated many times
	Run     func(p *c10Pool) (obs string, canon string)
}

// c10Keeper retains RESULT values of earlier calls (geometries, sequences) so that the history can
// re-observe them after later calls: results are values too, and a later call must not be able to
// overwrite them through shared backing storage. Only the sequential history mode sets curKeeper;
// in race mode it stays nil (never written), so reading it from many goroutines is not a race.
type c10Keeper struct {
	active bool
	reobs  []func() string
	first  []string
	keys   []string
	curKey string
}

const c10KeepMax = 20

var curKeeper *c10Keeper

func keepResult(f func() string, o string) {
	k := curKeeper
	if k == nil || !k.active || len(k.reobs) >= c10KeepMax {
		return
	}
	for _, have := range k.keys { // one retained result per distinct call: every operation is represented
		if have == k.curKey {
			return
		}
	}
	k.reobs = append(k.reobs, f)
	k.first = append(k.first, o)
	k.keys = append(k.keys, k.curKey)
}

func obsGeom(g geom.Geometry) string {
	o := "G:" + lib.Hex(g.AsBinary())
	keepResult(func() string { return "G:" + lib.Hex(g.AsBinary()) }, o)
	return o
}

func obsGeomErr(g geom.Geometry, err error) string {
	if err != nil {
		return "E:" + err.Error()
	}
	return obsGeom(g)
}

func obsBoolErr(b bool, err error) string {
	if err != nil {
		return "E:" + err.Error()
	}
	return fmt.Sprintf("B:%v", b)
}

func obsF(f float64) string { return fmt.Sprintf("F:%016x", math.Float64bits(f)) }

// guard turns a panic of the implementation into an observation (the harness must survive).
func guard(f func() (string, string)) (o, c string) {
	defer func() {
		if r := recover(); r != nil {
			o, c = "P:"+fmt.Sprint(r), ""
		}
	}()
	return f()
}

var binaryOverlay = []string{"Union", "Intersection", "Difference", "SymmetricDifference", "Relate",
	"Equals", "Disjoint", "Touches", "Contains", "Covers", "Within", "CoveredBy", "Crosses", "Overlaps"}
var binaryPlain = []string{"Intersects", "Distance", "ExactEquals", "ExactEqualsIgnoreOrder"}
var unaryOverlay = []string{"UnaryUnion", "UnionMany"}
var unaryPlain = []string{"ConvexHull", "Simplify", "Densify", "Reverse", "Boundary", "Centroid", "Envelope",
	"AsText", "AsBinary", "MarshalJSON", "Validate", "Dump", "DumpCoordinates", "TransformXY",
	"ForceCoordinatesType", "Force2D", "PointOnSurface", "ForceCW", "ForceCCW", "IsSimple", "Area", "Length",
	"SnapToGrid", "Summary", "String", "RotMinArea", "RotMinWidth", "IsCW", "IsCCW", "Value", "IsEmpty",
	"Dimension", "Interpolate"}
var mutOps = []string{"mut.members", "mut.AsBinary", "mut.AppendWKB", "mut.AppendWKT", "mut.MarshalJSON",
	"mut.Value", "mut.Envelope", "mut.Dump", "mut.Boundary", "mut.Reverse"}
var auxOps = []string{"seq.Reverse", "seq.Slice", "seq.Force", "seq.Envelope", "seq.Get", "env.ExpandXY",
	"env.ExpandEnv", "env.AsGeometry", "env.Transform", "env.Center", "env.Distance", "env.MinMax",
	"tree.Range", "tree.Priority", "tree.Nearest", "tree.Extent"}

// genCall draws one call; cat: 0 binary overlay, 1 unary overlay, 2 binary plain, 3 unary plain, 4 mut, 5 aux.
func genCall(r *lib.Rng, p *c10Pool, cat int) c10Call {
	n := len(p.G)
	i, j := r.Intn(n), r.Intn(n)
	if strings.HasPrefix(p.Class, "shared") && cat == 3 && r.Chance(2, 3) {
		// operands that share backing storage: aim at the operations that walk or re-assemble coordinates
		ops := []string{"DumpCoordinates", "Summary", "String", "Dump", "Boundary", "Reverse", "AsText", "Force2D",
			"ForceCoordinatesType", "TransformXY", "Densify", "Simplify", "ConvexHull", "Envelope", "AsBinary", "MarshalJSON"}
		op := ops[r.Intn(len(ops))]
		k := r.Intn(4)
		return c10Call{fmt.Sprintf("%s:%d:%d", op, i, k), false, func(p *c10Pool) (string, string) { return runUnary(op, p.G[i], k), "" }}
	}
	if p.Class == "subtol" && cat == 0 { // aim the binary overlay calls at the near-degenerate pair
		i = r.Intn(2)
		j = 1 - i
	}
	pencil := strings.HasPrefix(p.Class, "pencil")
	if pencil && cat == 0 && i == 1 && j == 1 { // (one segment, the same segment): no pencil in it
		j = 0
	}
	if pencil && cat == 1 && len(p.Rep) > 0 { // UnaryUnion needs the repeated segment inside its one operand
		i = p.Rep[r.Intn(len(p.Rep))]
	}
	switch cat {
	case 0:
		op := binaryOverlay[r.Intn(len(binaryOverlay))]
		if r.Chance(1, 2) || (pencil && r.Chance(1, 2)) { // the four set operations and Relate are the order-sensitive core
			op = binaryOverlay[r.Intn(5)]
		}
		return c10Call{fmt.Sprintf("%s:%d:%d", op, i, j), true, func(p *c10Pool) (string, string) { return runBinary(op, p.G[i], p.G[j]) }}
	case 1:
		op := unaryOverlay[r.Intn(len(unaryOverlay))]
		return c10Call{fmt.Sprintf("%s:%d", op, i), true, func(p *c10Pool) (string, string) {
			if op == "UnionMany" {
				gs := append([]geom.Geometry(nil), p.G...)
				g, err := geom.UnionMany(gs)
				for k := range gs { // the argument slice is ours: overwriting it must not matter
					gs[k] = geom.Geometry{}
				}
				return obsGeomErr(g, err), canonOf(g, err)
			}
			g, err := geom.UnaryUnion(p.G[i])
			return obsGeomErr(g, err), canonOf(g, err)
		}}
	case 2:
		op := binaryPlain[r.Intn(len(binaryPlain))]
		return c10Call{fmt.Sprintf("%s:%d:%d", op, i, j), false, func(p *c10Pool) (string, string) { return runBinary(op, p.G[i], p.G[j]) }}
	case 3:
		op := unaryPlain[r.Intn(len(unaryPlain))]
		k := r.Intn(4)
		return c10Call{fmt.Sprintf("%s:%d:%d", op, i, k), false, func(p *c10Pool) (string, string) { return runUnary(op, p.G[i], k), "" }}
	case 4:
		op := mutOps[r.Intn(len(mutOps))]
		return c10Call{fmt.Sprintf("%s:%d", op, i), false, func(p *c10Pool) (string, string) { return runMut(op, p.G[i]), "" }}
	default:
		op := auxOps[r.Intn(len(auxOps))]
		a, b := r.Intn(24)-2, r.Intn(24)-2
		return c10Call{fmt.Sprintf("%s:%d:%d:%d", op, i, a, b), false, func(p *c10Pool) (string, string) { return runAux(op, p, i, a, b), "" }}
	}
}

// runDecode feeds the operand's own text/bytes to a VALIDATING decoder: the result is the decoded
// geometry or the validation error, whose full text is part of the observable result.
func runDecode(op string, g geom.Geometry) string {
	switch op {
	case "decode.WKT":
		d, err := geom.UnmarshalWKT(g.AsText())
		return obsGeomErr(d, err)
	case "decode.WKB":
		d, err := geom.UnmarshalWKB(g.AsBinary())
		return obsGeomErr(d, err)
	case "decode.GeoJSON":
		js, err := g.MarshalJSON()
		if err != nil {
			return "E:marshal:" + err.Error()
		}
		d, err := geom.UnmarshalGeoJSON(js)
		return obsGeomErr(d, err)
	}
	panic("harness: unknown decode op " + op)
}

var decodeOps = []string{"decode.WKT", "decode.WKB", "decode.GeoJSON"}

// errorCalls: for pools of invalid operands - every error-returning entry point on every operand,
// flagged for many repetitions (the flag is named Overlay for its first use).
func errorCalls(p *c10Pool) []c10Call {
	var cs []c10Call
	for i := range p.G {
		i := i
		cs = append(cs, c10Call{fmt.Sprintf("Validate:%d:0", i), true, func(p *c10Pool) (string, string) { return runUnary("Validate", p.G[i], 0), "" }})
		for _, op := range decodeOps {
			op := op
			cs = append(cs, c10Call{fmt.Sprintf("%s:%d", op, i), true, func(p *c10Pool) (string, string) { return runDecode(op, p.G[i]), "" }})
		}
		cs = append(cs, c10Call{fmt.Sprintf("Simplify:%d:1", i), true, func(p *c10Pool) (string, string) { return runUnary("Simplify", p.G[i], 1), "" }})
		cs = append(cs, c10Call{fmt.Sprintf("UnaryUnion:%d", i), true, func(p *c10Pool) (string, string) {
			g, err := geom.UnaryUnion(p.G[i])
			return obsGeomErr(g, err), ""
		}})
	}
	return cs
}

func canonOf(g geom.Geometry, err error) string {
	if err != nil {
		return ""
	}
	return lib.Dump(g)
}

func runBinary(op string, a, b geom.Geometry) (string, string) {
	switch op {
	case "Union":
		g, err := geom.Union(a, b)
		return obsGeomErr(g, err), canonOf(g, err)
	case "Intersection":
		g, err := geom.Intersection(a, b)
		return obsGeomErr(g, err), canonOf(g, err)
	case "Difference":
		g, err := geom.Difference(a, b)
		return obsGeomErr(g, err), canonOf(g, err)
	case "SymmetricDifference":
		g, err := geom.SymmetricDifference(a, b)
		return obsGeomErr(g, err), canonOf(g, err)
	case "Relate":
		m, err := geom.Relate(a, b)
		if err != nil {
			return "E:" + err.Error(), ""
		}
		return "M:" + m, ""
	case "Equals":
		return obsBoolErr(geom.Equals(a, b)), ""
	case "Disjoint":
		return obsBoolErr(geom.Disjoint(a, b)), ""
	case "Touches":
		return obsBoolErr(geom.Touches(a, b)), ""
	case "Contains":
		return obsBoolErr(geom.Contains(a, b)), ""
	case "Covers":
		return obsBoolErr(geom.Covers(a, b)), ""
	case "Within":
		return obsBoolErr(geom.Within(a, b)), ""
	case "CoveredBy":
		return obsBoolErr(geom.CoveredBy(a, b)), ""
	case "Crosses":
		return obsBoolErr(geom.Crosses(a, b)), ""
	case "Overlaps":
		return obsBoolErr(geom.Overlaps(a, b)), ""
	case "Intersects":
		return fmt.Sprintf("B:%v", geom.Intersects(a, b)), ""
	case "Distance":
		d, ok := geom.Distance(a, b)
		return fmt.Sprintf("%s:%v", obsF(d), ok), ""
	case "ExactEquals":
		return fmt.Sprintf("B:%v", geom.ExactEquals(a, b)), ""
	case "ExactEqualsIgnoreOrder":
		return fmt.Sprintf("B:%v", geom.ExactEquals(a, b, geom.IgnoreOrder)), ""
	}
	panic("harness: unknown binary op " + op)
}

func runUnary(op string, g geom.Geometry, k int) string {
	switch op {
	case "ConvexHull":
		return obsGeom(g.ConvexHull())
	case "Simplify":
		r, err := g.Simplify([]float64{0.5, 1, 2.5, 0}[k])
		return obsGeomErr(r, err)
	case "Densify":
		return obsGeom(g.Densify([]float64{0.75, 1, 2, 10}[k]))
	case "Reverse":
		return obsGeom(g.Reverse())
	case "Boundary":
		return obsGeom(g.Boundary())
	case "Centroid":
		return obsGeom(g.Centroid().AsGeometry())
	case "Envelope":
		return envObs(g.Envelope())
	case "AsText":
		return "T:" + g.AsText()
	case "AsBinary":
		return "W:" + lib.Hex(g.AsBinary())
	case "MarshalJSON":
		b, err := g.MarshalJSON()
		if err != nil {
			return "E:" + err.Error()
		}
		return "J:" + string(b)
	case "Validate":
		if err := g.Validate(); err != nil {
			return "E:" + err.Error()
		}
		return "V:ok"
	case "Dump":
		var sb strings.Builder
		for _, m := range g.Dump() {
			sb.WriteString(obsGeom(m))
		}
		return "D:" + sb.String()
	case "DumpCoordinates":
		return seqObs(g.DumpCoordinates())
	case "TransformXY":
		return obsGeom(g.TransformXY(affine(k)))
	case "ForceCoordinatesType":
		return obsGeom(g.ForceCoordinatesType(geom.CoordinatesType(k)))
	case "Force2D":
		return obsGeom(g.Force2D())
	case "PointOnSurface":
		return obsGeom(g.PointOnSurface().AsGeometry())
	case "ForceCW":
		return obsGeom(g.ForceCW())
	case "ForceCCW":
		return obsGeom(g.ForceCCW())
	case "IsSimple":
		s, wd := g.IsSimple()
		return fmt.Sprintf("B:%v:%v", s, wd)
	case "Area":
		return obsF(g.Area())
	case "Length":
		return obsF(g.Length())
	case "SnapToGrid":
		return obsGeom(g.SnapToGrid(k))
	case "Summary":
		return "T:" + g.Summary()
	case "String":
		return "T:" + g.String()
	case "RotMinArea":
		return obsGeom(geom.RotatedMinimumAreaBoundingRectangle(g))
	case "RotMinWidth":
		return obsGeom(geom.RotatedMinimumWidthBoundingRectangle(g))
	case "IsCW":
		return fmt.Sprintf("B:%v", g.IsCW())
	case "IsCCW":
		return fmt.Sprintf("B:%v", g.IsCCW())
	case "Value":
		v, err := g.Value()
		if err != nil {
			return "E:" + err.Error()
		}
		b, _ := v.([]byte)
		return "W:" + lib.Hex(b)
	case "IsEmpty":
		return fmt.Sprintf("B:%v", g.IsEmpty())
	case "Dimension":
		return fmt.Sprintf("I:%d:%d:%d", g.Dimension(), int(g.Type()), int(g.CoordinatesType()))
	case "Interpolate":
		if ls, ok := g.AsLineString(); ok {
			return obsGeom(ls.InterpolatePoint([]float64{0, 0.25, 0.5, 1}[k]).AsGeometry()) +
				obsGeom(ls.InterpolateEvenlySpacedPoints(k+1).AsGeometry())
		}
		return "N:notline"
	}
	panic("harness: unknown unary op " + op)
}

func scribble(b []byte, v byte) {
	b = b[:cap(b)]
	for i := range b {
		b[i] = v
	}
}

// runMut calls an accessor, renders what it returned, then overwrites everything it returned.
func runMut(op string, g geom.Geometry) string {
	switch op {
	case "mut.members":
		var sb strings.Builder
		switch g.Type() {
		case geom.TypePoint:
			c, ok := g.MustAsPoint().Coordinates()
			fmt.Fprintf(&sb, "%v:%v", ok, c)
			cp := &c
			cp.X, cp.Y, cp.Z, cp.M = 99, 98, 97, 96
			xy, _ := g.MustAsPoint().XY()
			xyp := &xy
			xyp.X = -1
		case geom.TypeLineString:
			s := g.MustAsLineString().Coordinates()
			sb.WriteString(seqObs(s))
			s = geom.Sequence{}
			_ = s
		case geom.TypePolygon:
			rs := g.MustAsPolygon().DumpRings()
			for _, x := range rs {
				sb.WriteString(obsGeom(x.AsGeometry()))
			}
			full := rs[:cap(rs)]
			for k := range full {
				full[k] = geom.LineString{}
			}
			cs := g.MustAsPolygon().Coordinates()
			for _, s := range cs {
				sb.WriteString(seqObs(s))
			}
			fc := cs[:cap(cs)]
			for k := range fc {
				fc[k] = geom.Sequence{}
			}
		case geom.TypeMultiPoint:
			ps := g.MustAsMultiPoint().Dump()
			for _, x := range ps {
				sb.WriteString(obsGeom(x.AsGeometry()))
			}
			full := ps[:cap(ps)]
			for k := range full {
				full[k] = geom.NewPointXY(77, 77)
			}
			sb.WriteString(seqObs(g.MustAsMultiPoint().Coordinates()))
		case geom.TypeMultiLineString:
			ls := g.MustAsMultiLineString().Dump()
			for _, x := range ls {
				sb.WriteString(obsGeom(x.AsGeometry()))
			}
			full := ls[:cap(ls)]
			for k := range full {
				full[k] = geom.LineString{}
			}
			cs := g.MustAsMultiLineString().Coordinates()
			for _, s := range cs {
				sb.WriteString(seqObs(s))
			}
			fc := cs[:cap(cs)]
			for k := range fc {
				fc[k] = geom.Sequence{}
			}
		case geom.TypeMultiPolygon:
			ps := g.MustAsMultiPolygon().Dump()
			for _, x := range ps {
				sb.WriteString(obsGeom(x.AsGeometry()))
			}
			full := ps[:cap(ps)]
			for k := range full {
				full[k] = geom.Polygon{}
			}
			cs := g.MustAsMultiPolygon().Coordinates()
			for _, rs := range cs {
				for _, s := range rs {
					sb.WriteString(seqObs(s))
				}
				fr := rs[:cap(rs)]
				for k := range fr {
					fr[k] = geom.Sequence{}
				}
			}
			fc := cs[:cap(cs)]
			for k := range fc {
				fc[k] = nil
			}
		case geom.TypeGeometryCollection:
			gs := g.MustAsGeometryCollection().Dump()
			for _, x := range gs {
				sb.WriteString(obsGeom(x))
			}
			full := gs[:cap(gs)]
			for k := range full {
				full[k] = geom.Geometry{}
			}
		}
		return "A:" + sb.String()
	case "mut.AsBinary":
		b := g.AsBinary()
		o := "W:" + lib.Hex(b)
		scribble(b, 0xAA)
		return o
	case "mut.AppendWKB":
		dst := make([]byte, 3, 8192)
		dst[0], dst[1], dst[2] = 1, 2, 3
		b := g.AppendWKB(dst)
		o := "W:" + lib.Hex(b)
		scribble(b, 0x55)
		return o
	case "mut.AppendWKT":
		dst := make([]byte, 2, 8192)
		b := g.AppendWKT(dst)
		o := "T:" + string(b)
		scribble(b, 'x')
		return o
	case "mut.MarshalJSON":
		b, err := g.MarshalJSON()
		if err != nil {
			return "E:" + err.Error()
		}
		o := "J:" + string(b)
		scribble(b, '{')
		return o
	case "mut.Value":
		v, err := g.Value()
		if err != nil {
			return "E:" + err.Error()
		}
		b, _ := v.([]byte)
		o := "W:" + lib.Hex(b)
		scribble(b, 0xCC)
		return o
	case "mut.Envelope":
		e := g.Envelope()
		o := envObs(e)
		lo, hi := e.Min(), e.Max()
		o += obsGeom(lo.AsGeometry()) + obsGeom(hi.AsGeometry())
		*(&lo) = geom.NewPointXY(1234, 5678)
		*(&hi) = geom.Point{}
		*(&e) = geom.Envelope{}
		return o
	case "mut.Dump":
		gs := g.Dump()
		var sb strings.Builder
		for _, x := range gs {
			sb.WriteString(obsGeom(x))
		}
		full := gs[:cap(gs)]
		for k := range full {
			full[k] = geom.NewPointXY(5, 5).AsGeometry()
		}
		return "D:" + sb.String()
	case "mut.Boundary":
		// results of operations are values as well: overwrite the members they hand out
		b := g.Boundary()
		o := obsGeom(b)
		for _, x := range b.Dump() {
			_ = x
		}
		if mls, ok := b.AsMultiLineString(); ok {
			ls := mls.Dump()
			for k := range ls {
				ls[k] = geom.LineString{}
			}
		}
		return o
	case "mut.Reverse":
		rv := g.Reverse()
		o := obsGeom(rv)
		wkb := rv.AsBinary()
		scribble(wkb, 0)
		return o
	}
	panic("harness: unknown mut op " + op)
}

func runAux(op string, p *c10Pool, i, a, b int) string {
	box := rtree.Box{MinX: float64(a), MinY: float64(b), MaxX: float64(a + 5), MaxY: float64(b + 7)}
	switch op {
	case "seq.Reverse":
		return seqObs(p.Seq.Reverse())
	case "seq.Slice":
		n := p.Seq.Length()
		if n == 0 {
			return seqObs(p.Seq.Slice(0, 0))
		}
		lo := ((a % n) + n) % n
		hi := lo + ((b%(n-lo+1))+(n-lo+1))%(n-lo+1)
		return seqObs(p.Seq.Slice(lo, hi))
	case "seq.Force":
		return seqObs(p.Seq.ForceCoordinatesType(geom.CoordinatesType(((a % 4) + 4) % 4)))
	case "seq.Envelope":
		return envObs(p.Seq.Envelope())
	case "seq.Get":
		n := p.Seq.Length()
		if n == 0 {
			return "N:emptyseq"
		}
		c := p.Seq.Get(((a % n) + n) % n)
		o := fmt.Sprintf("C:%v", c)
		cp := &c
		cp.X = 1e9
		return o
	case "env.ExpandXY":
		return envObs(p.Env.ExpandToIncludeXY(geom.XY{X: float64(a), Y: float64(b)}))
	case "env.ExpandEnv":
		return envObs(p.Env.ExpandToIncludeEnvelope(p.G[i].Envelope()))
	case "env.AsGeometry":
		return obsGeom(p.Env.AsGeometry()) + obsGeom(p.Env.BoundingDiagonal())
	case "env.Transform":
		return envObs(p.Env.TransformXY(affine(((a % 4) + 4) % 4)))
	case "env.Center":
		return obsGeom(p.Env.Center().AsGeometry())
	case "env.Distance":
		d, ok := p.Env.Distance(p.G[i].Envelope())
		return fmt.Sprintf("%s:%v:%v:%v", obsF(d), ok, p.Env.Intersects(p.G[i].Envelope()), p.Env.Covers(p.G[i].Envelope()))
	case "env.MinMax":
		lo, hi := p.Env.Min(), p.Env.Max()
		return obsGeom(lo.AsGeometry()) + obsGeom(hi.AsGeometry()) + obsF(p.Env.Area()) + obsF(p.Env.Width())
	case "tree.Range":
		var sb strings.Builder
		_ = p.Tree.RangeSearch(box, func(id int) error { fmt.Fprintf(&sb, "%d.", id); return nil })
		return "R:" + sb.String()
	case "tree.Priority":
		var sb strings.Builder
		cnt := 0
		_ = p.Tree.PrioritySearch(box, func(id int) error {
			fmt.Fprintf(&sb, "%d.", id)
			cnt++
			if cnt >= 7 {
				return rtree.Stop
			}
			return nil
		})
		return "R:" + sb.String()
	case "tree.Nearest":
		id, ok := p.Tree.Nearest(box)
		return fmt.Sprintf("R:%d:%v", id, ok)
	case "tree.Extent":
		e, ok := p.Tree.Extent()
		return fmt.Sprintf("R:%v:%v:%d", e, ok, p.Tree.Count())
	}
	panic("harness: unknown aux op " + op)
}

// aliasChecks exercises constructors and decoders with caller-owned buffers that are overwritten
// afterwards; the value built from them must not change (except where the documentation says the
// slice is retained: NewSequence). Returns name=ok|BAD pairs.
func aliasChecks(p *c10Pool) []string {
	var out []string
	rec := func(name string, ok bool) {
		v := "ok"
		if !ok {
			v = "BAD"
		}
		out = append(out, name+"="+v)
	}
	for idx, g := range p.G {
		if idx > 1 {
			break
		}
		want := lib.Hex(g.AsBinary())
		// decoders must not keep references into the caller's buffer
		buf := g.AsBinary()
		d, err := geom.UnmarshalWKB(buf, geom.NoValidate{})
		if err == nil { // (a non-finite point may decode to another value or not at all: compare the decoded value with itself)
			w1 := lib.Hex(d.AsBinary())
			scribble(buf, 0xEE)
			rec("UnmarshalWKB_buffer", lib.Hex(d.AsBinary()) == w1)
		}
		big := flipEndian(g)
		if big != nil {
			d2, err2 := geom.UnmarshalWKB(big, geom.NoValidate{})
			if err2 == nil {
				w2 := lib.Hex(d2.AsBinary())
				scribble(big, 0x11)
				rec("UnmarshalWKB_bigendian_buffer", lib.Hex(d2.AsBinary()) == w2 && w2 == want)
			}
		}
		js, err := g.MarshalJSON()
		if err == nil {
			d3, err3 := geom.UnmarshalGeoJSON(js, geom.NoValidate{})
			var w3 string
			if err3 == nil {
				w3 = lib.Hex(d3.AsBinary())
			}
			scribble(js, '9')
			rec("UnmarshalGeoJSON_buffer", err3 != nil || lib.Hex(d3.AsBinary()) == w3)
		}
		var sc geom.Geometry
		buf2 := g.AsBinary()
		if err := sc.Scan(buf2); err == nil {
			w4 := lib.Hex(sc.AsBinary())
			scribble(buf2, 0x77)
			rec("Scan_buffer", lib.Hex(sc.AsBinary()) == w4)
		}
		// constructors copy the member slices handed to them
		switch g.Type() {
		case geom.TypePolygon:
			rs := g.MustAsPolygon().DumpRings()
			np := geom.NewPolygon(rs)
			w := lib.Hex(np.AsBinary())
			for k := range rs {
				rs[k] = geom.LineString{}
			}
			rec("NewPolygon_slice", lib.Hex(np.AsBinary()) == w)
		case geom.TypeMultiPoint:
			ps := g.MustAsMultiPoint().Dump()
			nm := geom.NewMultiPoint(ps)
			w := lib.Hex(nm.AsBinary())
			for k := range ps {
				ps[k] = geom.NewPointXY(3, 3)
			}
			rec("NewMultiPoint_slice", lib.Hex(nm.AsBinary()) == w)
		case geom.TypeMultiLineString:
			ls := g.MustAsMultiLineString().Dump()
			nm := geom.NewMultiLineString(ls)
			w := lib.Hex(nm.AsBinary())
			for k := range ls {
				ls[k] = geom.LineString{}
			}
			rec("NewMultiLineString_slice", lib.Hex(nm.AsBinary()) == w)
		case geom.TypeMultiPolygon:
			ps := g.MustAsMultiPolygon().Dump()
			nm := geom.NewMultiPolygon(ps)
			w := lib.Hex(nm.AsBinary())
			for k := range ps {
				ps[k] = geom.Polygon{}
			}
			rec("NewMultiPolygon_slice", lib.Hex(nm.AsBinary()) == w)
		case geom.TypeGeometryCollection:
			gc := g.MustAsGeometryCollection()
			gs := make([]geom.Geometry, gc.NumGeometries())
			for k := range gs {
				gs[k] = gc.GeometryN(k)
			}
			nc := geom.NewGeometryCollection(gs)
			w := lib.Hex(nc.AsBinary())
			for k := range gs {
				gs[k] = geom.Geometry{}
			}
			rec("NewGeometryCollection_slice", lib.Hex(nc.AsBinary()) == w)
		case geom.TypeLineString:
			seq := g.MustAsLineString().Coordinates()
			if seq.CoordinatesType() == geom.DimXY && seq.Length() > 0 {
				fs := make([]float64, 0, 2*seq.Length())
				for k := 0; k < seq.Length(); k++ {
					c := seq.GetXY(k)
					fs = append(fs, c.X, c.Y)
				}
				nl := geom.NewLineStringXY(fs...)
				w := lib.Hex(nl.AsBinary())
				for k := range fs {
					fs[k] = -7
				}
				rec("NewLineStringXY_floats", lib.Hex(nl.AsBinary()) == w)
			}
		}
	}
	// the bulk loader is documented to build a tree from the items; the tree must not depend on
	// the caller's slice afterwards
	items := make([]rtree.BulkItem, len(p.Boxes))
	for k, b := range p.Boxes {
		items[k] = rtree.BulkItem{Box: b, RecordID: k}
	}
	t := rtree.BulkLoad(items)
	before := treeObs(t)
	for k := range items {
		items[k] = rtree.BulkItem{}
	}
	rec("BulkLoad_items", treeObs(t) == before && before == treeObs(p.Tree))
	return out
}

// flipEndian re-encodes a Point/LineString WKB as big endian (other types: nil).
func flipEndian(g geom.Geometry) []byte {
	if g.Type() != geom.TypeLineString || g.IsEmpty() {
		return nil
	}
	le := g.AsBinary()
	if le[0] != 1 {
		return nil
	}
	be := make([]byte, len(le))
	be[0] = 0
	for k := 0; k < 4; k++ {
		be[1+k] = le[4-k]
		be[5+k] = le[8-k]
	}
	for off := 9; off+8 <= len(le); off += 8 {
		for k := 0; k < 8; k++ {
			be[off+k] = le[off+7-k]
		}
	}
	return be
}
