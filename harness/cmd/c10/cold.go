package main

// The "cold" part of the -race phase. The warm part observes every operand sequentially before
// the goroutines start (it needs the expected results), which would initialise any lazily filled
// cache and hide an unsynchronised first write. Here the shared operands are constructed afresh
// from raw recipes (WKB bytes, WKT text, member slices, float slices, boxes) and NO method is
// called on them before the goroutines are released; every goroutine then calls the whole set
// of read-only methods in its own order, so that for every method some goroutine's call is the
// first one on that instance while the others are running. Results are compared between the
// goroutines after they have finished; the race detector's reports are collected by the caller.

import (
	"fmt"
	"sync"

	"github.com/peterstace/simplefeatures/geom"
	"github.com/peterstace/simplefeatures/rtree"
	"verifharness/lib"
)

// coldRecipe holds raw data only (bytes, strings, floats, boxes): nothing that shares storage or
// identity with an operand on which a method has been called.
type coldRecipe struct {
	wkb    [][]byte
	wkt    []string
	floats []float64
	ctype  geom.CoordinatesType
	envLo  geom.XY
	envHi  geom.XY
	envOK  bool
	boxes  []rtree.Box
}

func recipeOf(p *c10Pool) coldRecipe {
	var rc coldRecipe
	for _, g := range p.G {
		rc.wkb = append(rc.wkb, g.AsBinary())
		rc.wkt = append(rc.wkt, g.AsText())
	}
	rc.ctype = p.Seq.CoordinatesType()
	for i := 0; i < p.Seq.Length(); i++ {
		c := p.Seq.Get(i)
		rc.floats = append(rc.floats, c.X, c.Y)
		if rc.ctype.Is3D() {
			rc.floats = append(rc.floats, c.Z)
		}
		if rc.ctype.IsMeasured() {
			rc.floats = append(rc.floats, c.M)
		}
	}
	rc.envLo, rc.envHi, rc.envOK = p.Env.MinMaxXYs()
	rc.boxes = append(rc.boxes, p.Boxes...)
	return rc
}

// rebuild constructs the same value through the public constructors from the members of a donor
// (the donor is private to this function; the returned value is a new object).
func rebuild(donor geom.Geometry) geom.Geometry {
	switch donor.Type() {
	case geom.TypePoint:
		if c, ok := donor.MustAsPoint().Coordinates(); ok {
			return geom.NewPoint(c).AsGeometry()
		}
		return donor
	case geom.TypeLineString:
		return geom.NewLineString(donor.MustAsLineString().Coordinates()).AsGeometry()
	case geom.TypePolygon:
		return geom.NewPolygon(donor.MustAsPolygon().DumpRings()).ForceCoordinatesType(donor.CoordinatesType()).AsGeometry()
	case geom.TypeMultiPoint:
		return geom.NewMultiPoint(donor.MustAsMultiPoint().Dump()).ForceCoordinatesType(donor.CoordinatesType()).AsGeometry()
	case geom.TypeMultiLineString:
		return geom.NewMultiLineString(donor.MustAsMultiLineString().Dump()).ForceCoordinatesType(donor.CoordinatesType()).AsGeometry()
	case geom.TypeMultiPolygon:
		return geom.NewMultiPolygon(donor.MustAsMultiPolygon().Dump()).ForceCoordinatesType(donor.CoordinatesType()).AsGeometry()
	default:
		gc := donor.MustAsGeometryCollection()
		gs := make([]geom.Geometry, gc.NumGeometries())
		for k := range gs {
			gs[k] = gc.GeometryN(k)
		}
		return geom.NewGeometryCollection(gs).ForceCoordinatesType(donor.CoordinatesType()).AsGeometry()
	}
}

// coldPool builds fresh shared operands. variant 0: WKB decoder, 1: WKT decoder, 2: constructors.
// For variants 0 and 1 no method at all has been called on the returned geometries; for variant 2
// the constructor path itself may call ForceCoordinatesType (which returns a new value).
func coldPool(rc coldRecipe, variant int) (*c10Pool, bool) {
	p := &c10Pool{Class: "cold"}
	for k := range rc.wkb {
		var g geom.Geometry
		var err error
		switch variant {
		case 1:
			g, err = geom.UnmarshalWKT(rc.wkt[k], geom.NoValidate{})
		default:
			g, err = geom.UnmarshalWKB(append([]byte(nil), rc.wkb[k]...), geom.NoValidate{})
			if err == nil && variant == 2 {
				g = rebuild(g)
			}
		}
		if err != nil {
			return nil, false
		}
		p.G = append(p.G, g)
	}
	p.Seq = geom.NewSequence(append([]float64(nil), rc.floats...), rc.ctype)
	if rc.envOK {
		p.Env = geom.NewEnvelope(rc.envLo, rc.envHi)
	}
	items := make([]rtree.BulkItem, len(rc.boxes))
	for k, b := range rc.boxes {
		items[k] = rtree.BulkItem{Box: b, RecordID: k}
	}
	p.Boxes = append(p.Boxes, rc.boxes...)
	p.Tree = rtree.BulkLoad(items)
	return p, true
}

// coldCalls is the whole read-only surface: every unary operation and every handed-out-value
// overwrite on every geometry, the plain binary operations and the order-sensitive core of the
// overlay on the first two, every Sequence / Envelope / R-tree query.
func coldCalls(n int) []c10Call {
	var cs []c10Call
	for i := 0; i < n; i++ {
		i := i
		for _, op := range unaryPlain {
			op := op
			cs = append(cs, c10Call{fmt.Sprintf("%s:%d:1", op, i), false, func(p *c10Pool) (string, string) { return runUnary(op, p.G[i], 1), "" }})
		}
		for _, op := range mutOps {
			op := op
			cs = append(cs, c10Call{fmt.Sprintf("%s:%d", op, i), false, func(p *c10Pool) (string, string) { return runMut(op, p.G[i]), "" }})
		}
	}
	j := 0
	if n > 1 {
		j = 1
	}
	for _, op := range append(append([]string(nil), binaryPlain...), binaryOverlay[:5]...) {
		op := op
		cs = append(cs, c10Call{fmt.Sprintf("%s:0:%d", op, j), false, func(p *c10Pool) (string, string) { return runBinary(op, p.G[0], p.G[j]) }})
	}
	for k, op := range auxOps {
		op := op
		a, b := 3*k%17-2, 5*k%13-1
		cs = append(cs, c10Call{fmt.Sprintf("%s:0:%d:%d", op, a, b), false, func(p *c10Pool) (string, string) { return runAux(op, p, 0, a, b), "" }})
	}
	cs = append(cs, c10Call{"tree.Count", false, func(p *c10Pool) (string, string) { return fmt.Sprintf("I:%d", p.Tree.Count()), "" }})
	cs = append(cs, c10Call{"store", false, func(p *c10Pool) (string, string) { return p.store(), "" }})
	return cs
}

// coldPhase runs `instances` fresh pools; returns (goroutine call instances, failures reported).
func coldPhase(id int, seed uint64, r *lib.Rng, warm *c10Pool, instances int, report func(int, string, string)) int {
	rc := recipeOf(warm)
	calls := coldCalls(len(warm.G))
	total := 0
	for inst := 0; inst < instances; inst++ {
		variant := (id + inst) % 3
		p, ok := coldPool(rc, variant)
		if !ok {
			continue
		}
		g := 2 + (id+3*inst)%5 // 2..6 goroutines
		if inst == 0 && id%6 == 0 {
			g = 7 + id%10 // occasionally up to 16
		}
		focus := (id*instances + inst) % len(calls) // every goroutine starts with this call
		seeds := make([]uint64, g)
		for k := range seeds {
			seeds[k] = r.U64()
		}
		got := make([][]string, g)
		start := make(chan struct{})
		var wg sync.WaitGroup
		for t := 0; t < g; t++ {
			wg.Add(1)
			go func(t int) {
				defer wg.Done()
				rr := lib.NewRng(seeds[t])
				order := make([]int, len(calls))
				for k := range order {
					order[k] = k
				}
				for k := len(order) - 1; k > 0; k-- {
					m := rr.Intn(k + 1)
					order[k], order[m] = order[m], order[k]
				}
				for k, ci := range order {
					if ci == focus {
						order[0], order[k] = order[k], order[0]
						break
					}
				}
				out := make([]string, len(calls))
				<-start
				for _, ci := range order {
					c := calls[ci]
					out[ci], _ = guard(func() (string, string) { return c.Run(p) })
				}
				got[t] = out
			}(t)
		}
		close(start)
		wg.Wait()
		total += g * len(calls)
		// all goroutines must have seen the same results, and the same as a later sequential run
		// on yet another fresh instance
		ref, ok := coldPool(rc, variant)
		if !ok {
			continue
		}
		for ci, c := range calls {
			want, _ := guard(func() (string, string) { return c.Run(ref) })
			for t := 0; t < g; t++ {
				if got[t][ci] != want {
					report(id, "cold_concurrent_result_differs", fmt.Sprintf("seed=%d case=%d cold-instance=%d variant=%d goroutines=%d call=%s sequential=%s concurrent=%s",
						seed, id, inst, variant, g, c.Key, clip(want, 200), clip(got[t][ci], 200)))
					break
				}
			}
		}
		if p.store() != ref.store() {
			report(id, "operand_changed_concurrent", fmt.Sprintf("seed=%d case=%d cold-instance=%d variant=%d goroutines=%d", seed, id, inst, variant, g))
		}
	}
	return total
}
