package main

// Operand pools for property C10: a handful of SHARED values (geometries, one Sequence, one
// Envelope, one bulk-loaded R-tree) that every call of a history works on. Geometries are
// valid by construction on a small integer lattice so that the overlay meets shared vertices,
// collinear overlaps, touching rings and nested holes all the time; one class maps the whole
// pool through an affine map with non-dyadic coefficients so that crossing points are rounded.

import (
	"fmt"
	"math"
	"sort"
	"strings"

	"github.com/peterstace/simplefeatures/geom"
	"github.com/peterstace/simplefeatures/rtree"
	"verifharness/lib"
)

type c10Pool struct {
	G     []geom.Geometry
	Kinds []string
	Seq   geom.Sequence
	Env   geom.Envelope
	Tree  *rtree.RTree
	Boxes []rtree.Box
	Class string
	Rep   []int  // class pencil: members that hold an exactly repeated segment inside themselves
	Note  string // class pencil: the concurrency point
}

type xy struct{ x, y int }

const c10Lattice = 7 // coordinates 0..7

func pt(r *lib.Rng) xy { return xy{r.Intn(c10Lattice + 1), r.Intn(c10Lattice + 1)} }

// ringWKT renders a closed ring with a random start vertex and random orientation.
func ringWKT(r *lib.Rng, vs []xy, zm func(xy) string) string {
	n := len(vs)
	k := r.Intn(n)
	rev := r.Bool()
	var sb strings.Builder
	sb.WriteByte('(')
	for i := 0; i <= n; i++ {
		j := (k + i) % n
		if rev {
			j = ((k-i)%n + n) % n
		}
		if i > 0 {
			sb.WriteByte(',')
		}
		fmt.Fprintf(&sb, "%d %d%s", vs[j].x, vs[j].y, zm(vs[j]))
	}
	sb.WriteByte(')')
	return sb.String()
}

func rectVerts(x0, y0, x1, y1 int) []xy { return []xy{{x0, y0}, {x1, y0}, {x1, y1}, {x0, y1}} }

// starVerts: distinct lattice points sorted by angle around an interior centre (a simple polygon
// when no two points share a direction; Validate filters the rest).
func starVerts(r *lib.Rng) []xy {
	cx, cy := 3.5+0.25*float64(r.Intn(3)), 3.5-0.25*float64(r.Intn(3))
	n := r.Range(3, 7)
	seen := map[xy]bool{}
	var vs []xy
	for len(vs) < n {
		p := pt(r)
		if !seen[p] {
			seen[p] = true
			vs = append(vs, p)
		}
	}
	sort.Slice(vs, func(i, j int) bool {
		ai := math.Atan2(float64(vs[i].y)-cy, float64(vs[i].x)-cx)
		aj := math.Atan2(float64(vs[j].y)-cy, float64(vs[j].x)-cx)
		if ai != aj {
			return ai < aj
		}
		if vs[i].x != vs[j].x {
			return vs[i].x < vs[j].x
		}
		return vs[i].y < vs[j].y
	})
	return vs
}

func polyBody(r *lib.Rng, zm func(xy) string) (string, string) {
	switch r.Intn(8) {
	case 0: // rectangle
		x0, y0 := r.Intn(5), r.Intn(5)
		return "(" + ringWKT(r, rectVerts(x0, y0, x0+r.Range(1, 3), y0+r.Range(1, 3)), zm) + ")", "rect"
	case 1: // big rectangle with one or two holes
		out := rectVerts(0, 0, 7, 6)
		s := "(" + ringWKT(r, out, zm)
		s += "," + ringWKT(r, rectVerts(1, 1, 3, 3), zm)
		if r.Bool() {
			s += "," + ringWKT(r, rectVerts(4, 2, 6, 5), zm)
		}
		if r.Bool() {
			s += "," + ringWKT(r, []xy{{1, 4}, {3, 4}, {2, 5}}, zm)
		}
		return s + ")", "holes"
	case 2: // hole touching the shell at one vertex
		out := rectVerts(0, 0, 6, 6)
		hole := [][]xy{{{0, 3}, {2, 2}, {2, 4}}, {{3, 0}, {4, 2}, {2, 2}}, {{6, 6}, {4, 5}, {5, 4}}}[r.Intn(3)]
		s := "(" + ringWKT(r, out, zm) + "," + ringWKT(r, hole, zm)
		if r.Bool() {
			s += "," + ringWKT(r, rectVerts(3, 3, 4, 4), zm)
		}
		return s + ")", "touchhole"
	case 3: // two holes touching each other at a vertex
		out := rectVerts(0, 0, 7, 7)
		return "(" + ringWKT(r, out, zm) + "," + ringWKT(r, rectVerts(1, 1, 3, 3), zm) + "," + ringWKT(r, rectVerts(3, 3, 5, 5), zm) + ")", "holestouch"
	case 4: // L shape / staircase
		vs := []xy{{0, 0}, {6, 0}, {6, 2}, {4, 2}, {4, 4}, {2, 4}, {2, 6}, {0, 6}}
		if r.Bool() {
			vs = []xy{{1, 1}, {5, 1}, {5, 3}, {3, 3}, {3, 5}, {1, 5}}
		}
		return "(" + ringWKT(r, vs, zm) + ")", "stair"
	case 5: // triangle
		for {
			a, b, c := pt(r), pt(r), pt(r)
			if (b.x-a.x)*(c.y-a.y)-(b.y-a.y)*(c.x-a.x) != 0 {
				return "(" + ringWKT(r, []xy{a, b, c}, zm) + ")", "tri"
			}
		}
	default: // star-shaped lattice polygon
		return "(" + ringWKT(r, starVerts(r), zm) + ")", "star"
	}
}

func lineBody(r *lib.Rng, zm func(xy) string) (string, string) {
	n := r.Range(2, 6)
	kind := "path"
	vs := []xy{pt(r)}
	for len(vs) < n {
		p := pt(r)
		if p != vs[len(vs)-1] {
			vs = append(vs, p)
		}
	}
	if n >= 3 && r.Chance(1, 4) && vs[0] != vs[len(vs)-1] {
		vs = append(vs, vs[0])
		kind = "closedpath"
	}
	if r.Chance(1, 5) { // axis-aligned: collinear overlaps with polygon edges
		y := r.Intn(c10Lattice + 1)
		vs = []xy{{r.Intn(3), y}, {r.Range(4, 7), y}}
		kind = "axis"
	}
	var parts []string
	for _, v := range vs {
		parts = append(parts, fmt.Sprintf("%d %d%s", v.x, v.y, zm(v)))
	}
	return "(" + strings.Join(parts, ",") + ")", kind
}

func pointBody(r *lib.Rng, zm func(xy) string) string {
	p := pt(r)
	return fmt.Sprintf("%d %d%s", p.x, p.y, zm(p))
}

// genWKT draws one geometry as WKT; depth limits collection nesting.
func genWKT(r *lib.Rng, tag string, zm func(xy) string, depth int) (string, string) {
	k := r.Intn(100)
	switch {
	case k < 6:
		empties := []string{"POINT", "LINESTRING", "POLYGON", "MULTIPOINT", "MULTILINESTRING", "MULTIPOLYGON", "GEOMETRYCOLLECTION"}
		return empties[r.Intn(len(empties))] + tag + " EMPTY", "empty"
	case k < 12:
		return "POINT" + tag + "(" + pointBody(r, zm) + ")", "point"
	case k < 20:
		n := r.Range(1, 5)
		var ps []string
		for i := 0; i < n; i++ {
			if r.Chance(1, 8) {
				ps = append(ps, "EMPTY")
			} else {
				ps = append(ps, "("+pointBody(r, zm)+")")
			}
		}
		if r.Chance(1, 3) && len(ps) > 1 {
			ps = append(ps, ps[0]) // duplicate member
		}
		return "MULTIPOINT" + tag + "(" + strings.Join(ps, ",") + ")", "multipoint"
	case k < 32:
		b, kind := lineBody(r, zm)
		return "LINESTRING" + tag + b, "line:" + kind
	case k < 42:
		n := r.Range(1, 3)
		var ls []string
		for i := 0; i < n; i++ {
			if r.Chance(1, 10) {
				ls = append(ls, "EMPTY")
				continue
			}
			b, _ := lineBody(r, zm)
			ls = append(ls, b)
		}
		return "MULTILINESTRING" + tag + "(" + strings.Join(ls, ",") + ")", "multiline"
	case k < 66:
		b, kind := polyBody(r, zm)
		return "POLYGON" + tag + b, "poly:" + kind
	case k < 78:
		// members on disjoint 2x2 blocks (corners may touch): valid by construction
		var ps []string
		used := map[xy]bool{}
		n := r.Range(1, 3)
		diag := r.Chance(1, 3) // squares on the diagonal touch at corners
		for len(ps) < n {
			c := xy{r.Intn(3), r.Intn(3)}
			if diag {
				c.y = c.x
			}
			if used[c] {
				continue
			}
			used[c] = true
			if diag {
				ps = append(ps, "("+ringWKT(r, rectVerts(2*c.x, 2*c.y, 2*c.x+2, 2*c.y+2), zm)+")")
				continue
			}
			x0, y0 := 3*c.x+r.Intn(2), 3*c.y+r.Intn(2)
			ps = append(ps, "("+ringWKT(r, rectVerts(x0, y0, 3*c.x+2, 3*c.y+2), zm)+")")
		}
		if r.Chance(1, 8) {
			ps = append(ps, "EMPTY")
		}
		return "MULTIPOLYGON" + tag + "(" + strings.Join(ps, ",") + ")", "multipoly"
	default:
		if depth <= 0 {
			b, kind := polyBody(r, zm)
			return "POLYGON" + tag + b, "poly:" + kind
		}
		n := r.Range(1, 3)
		var gs []string
		for i := 0; i < n; i++ {
			g, _ := genWKT(r, tag, zm, depth-1)
			gs = append(gs, g)
		}
		return "GEOMETRYCOLLECTION" + tag + "(" + strings.Join(gs, ",") + ")", "collection"
	}
}

func affine(k int) func(geom.XY) geom.XY {
	switch k {
	case 0:
		return func(p geom.XY) geom.XY { return geom.XY{X: 0.1 * p.X, Y: 0.1 * p.Y} }
	case 1:
		return func(p geom.XY) geom.XY { return geom.XY{X: p.X + 0.3*p.Y, Y: 0.7*p.X - p.Y} }
	case 2:
		return func(p geom.XY) geom.XY { return geom.XY{X: 1e6 + p.X/3, Y: -1e6 + p.Y/7} }
	default:
		return func(p geom.XY) geom.XY { return geom.XY{X: -p.X, Y: p.Y - 3.5} }
	}
}

// genPoolAt draws the shared operands of history number i: every 10th history (i % 10 == 7) is of
// the class "pencil" (pencil.go); the others are drawn as before (their PRNG streams are unchanged).
func genPoolAt(i int, r *lib.Rng, st map[string]int) *c10Pool {
	if i%10 == 7 {
		p := &c10Pool{}
		genPencil(r, p, st)
		finishPool(r, p)
		return p
	}
	return genPool(r, st)
}

// genPool draws the shared operands of one history.
func genPool(r *lib.Rng, st map[string]int) *c10Pool {
	p := &c10Pool{}
	if r.Chance(1, 20) {
		genSubtol(r, p, st)
		finishPool(r, p)
		return p
	}
	if r.Chance(1, 8) {
		genInvalid(r, p, st)
		finishPool(r, p)
		return p
	}
	if r.Chance(1, 8) {
		genShared(r, p, st)
		parent := p.Seq
		finishPool(r, p)
		p.Seq = parent // the parent sequence stays an observed operand
		return p
	}
	ctk := 0
	if r.Chance(1, 4) {
		ctk = r.Range(1, 3)
	}
	tag := []string{"", " Z", " M", " ZM"}[ctk]
	zm := func(v xy) string {
		switch ctk {
		case 1, 2:
			return fmt.Sprintf(" %d", v.x+2*v.y)
		case 3:
			return fmt.Sprintf(" %d %d", v.x+2*v.y, v.x-v.y)
		}
		return ""
	}
	p.Class = "lattice" + strings.ReplaceAll(tag, " ", "")
	n := r.Range(3, 4)
	for len(p.G) < n {
		w, kind := genWKT(r, tag, zm, 1)
		g, err := geom.UnmarshalWKT(w)
		if err != nil {
			st["rejected_invalid"]++
			continue
		}
		p.G = append(p.G, g)
		p.Kinds = append(p.Kinds, kind)
		st["kind_"+strings.SplitN(kind, ":", 2)[0]]++
		if i := strings.Index(kind, ":"); i >= 0 {
			st["shape_"+kind[i+1:]]++
		}
	}
	if r.Chance(1, 4) {
		k := r.Intn(4)
		f := affine(k)
		for i := range p.G {
			p.G[i] = p.G[i].TransformXY(f)
		}
		p.Class = fmt.Sprintf("affine%d", k) + strings.ReplaceAll(tag, " ", "")
	}
	if r.Chance(1, 8) {
		// one operand gets -0 wherever it has 0: Go's == and the map keys of the overlay identify
		// the two zeros, WKB does not
		k := r.Intn(len(p.G))
		nz := math.Copysign(0, -1)
		p.G[k] = p.G[k].TransformXY(func(q geom.XY) geom.XY {
			if q.X == 0 {
				q.X = nz
			}
			if q.Y == 0 {
				q.Y = nz
			}
			return q
		})
		p.Class += "-negzero"
	}
	st["class_"+p.Class]++
	finishPool(r, p)
	return p
}

// genSubtol: the targeted class for the re-noding step (geom/dcel_re_noding.go). A diagonal
// segment and two vertices of the other operand that lie within the node-snapping tolerance of it,
// mirror images of each other in the segment's line (so their squared distances from the
// segment's start are the same double) and far enough apart not to be merged into one node. The
// cut points of the segment are collected by an R-tree search whose visiting order follows the
// bulk-load order of nodeSet.list(), a range over a Go map. These inputs are below the clearance
// the overlay promises to handle well (C01's domain), but "same arguments => same result" is
// claimed for every argument.
func genSubtol(r *lib.Rng, p *c10Pool, st map[string]int) {
	u := math.Pow(2, -52)
	scale := math.Pow(2, float64(r.Range(-3, 3)))
	k := r.Range(160, 340)
	lo := k
	if 512-k > lo {
		lo = 512 - k
	}
	s := r.Range(lo+1, 361)
	c := 1 + float64(k)*u
	p1 := geom.XY{X: (c + float64(s)*u) * scale, Y: (c - float64(s)*u) * scale}
	p2 := geom.XY{X: p1.Y, Y: p1.X}
	line := geom.NewLineStringXY(0, 0, 1.5*scale, 1.5*scale).AsGeometry()
	var other geom.Geometry
	switch r.Intn(3) {
	case 0:
		other = geom.NewMultiPointXY(p1.X, p1.Y, p2.X, p2.Y).AsGeometry()
	case 1:
		other = geom.NewMultiPointXY(p2.X, p2.Y, p1.X, p1.Y, 0.5*scale, 0).AsGeometry()
	default:
		other = geom.NewMultiLineStringXY([]float64{p1.X, p1.Y, 1.25 * scale, 0}, []float64{p2.X, p2.Y, 0, 1.25 * scale}).AsGeometry()
	}
	tri := geom.NewPolygonXY([]float64{0, 0, 1.25 * scale, 0, 0, 1.25 * scale, 0, 0}).AsGeometry()
	p.G = []geom.Geometry{line, other, tri}
	if r.Bool() {
		p.G[0], p.G[1] = p.G[1], p.G[0]
	}
	p.Kinds = []string{"subtol", "subtol", "subtol"}
	p.Class = "subtol"
	st["class_subtol"]++
}

// genShared: operands that SHARE backing storage. One parent Sequence is cut with Sequence.Slice
// into pieces (a piece that does not end where the parent ends has spare capacity behind it: the
// rest of the parent); LineStrings are built from the pieces with NewLineString and placed as
// first / middle / last member of several collections, some of which share the same piece. The
// parent sequence, every piece and every collection are operands of the history, so that a write
// through one of them shows in the others.
func genShared(r *lib.Rng, p *c10Pool, st map[string]int) {
	ct := geom.DimXY
	if r.Chance(1, 3) {
		ct = geom.DimXYZ
	}
	dim := ct.Dimension()
	n := r.Range(7, 10)
	var fs []float64
	last := xy{-1, -1}
	for k := 0; k < n; {
		q := pt(r)
		if q == last {
			continue
		}
		last = q
		fs = append(fs, float64(q.x), float64(q.y))
		if dim == 3 {
			fs = append(fs, float64(10+k))
		}
		k++
	}
	parent := geom.NewSequence(fs, ct)
	cut := r.Range(2, n-3)
	pieceA := parent.Slice(0, cut+1)           // spare capacity: the rest of the parent
	pieceM := parent.Slice(1, cut+1+r.Intn(2)) // middle piece, spare capacity too
	pieceB := parent.Slice(cut, n)             // ends where the parent ends
	la, lm, lb := geom.NewLineString(pieceA), geom.NewLineString(pieceM), geom.NewLineString(pieceB)
	force := func(g geom.Geometry) geom.Geometry { return g.ForceCoordinatesType(ct) }
	q1 := pt(r)
	pnt := force(geom.NewPointXY(float64(q1.x), float64(q1.y)).AsGeometry())
	x0, y0 := float64(r.Intn(5)), float64(r.Intn(5))
	poly := force(geom.NewPolygonXY([]float64{x0, y0, x0 + 2, y0, x0 + 2, y0 + 2, x0, y0 + 2, x0, y0}).AsGeometry())
	lx := force(geom.NewLineStringXY(float64(r.Intn(8)), 0, float64(r.Intn(8)), 7, 3, 3).AsGeometry())
	firstPiece := []geom.LineString{la, lm}[r.Intn(2)]
	gc := func(gs ...geom.Geometry) geom.Geometry { return geom.NewGeometryCollection(gs).AsGeometry() }
	p.G = []geom.Geometry{
		gc(firstPiece.AsGeometry(), pnt, poly),                              // piece first, members with coordinates behind it
		gc(firstPiece.AsGeometry(), lx),                                     // a second collection sharing that piece
		gc(pnt, lm.AsGeometry(), poly),                                      // piece in the middle
		gc(poly, pnt, lb.AsGeometry()),                                      // piece last
		gc(gc(la.AsGeometry(), pnt), lb.AsGeometry()),                       // nested, piece first
		lb.AsGeometry(),                                                     // sibling piece on its own
		la.AsGeometry(),                                                     // the first piece on its own
		geom.NewMultiLineString([]geom.LineString{la, lm, lb}).AsGeometry(), // all pieces together
	}
	if r.Bool() {
		p.G[0], p.G[1] = p.G[1], p.G[0]
	}
	for range p.G {
		p.Kinds = append(p.Kinds, "shared")
	}
	p.Seq = parent
	p.Class = "shared" + map[geom.CoordinatesType]string{geom.DimXY: "", geom.DimXYZ: "Z"}[ct]
	st["class_"+p.Class]++
}

// invalidShapes: one generator per validation rule; every shape violates (mainly) that one rule.
// dx,dy translate the shape; ring starts and orientations are random (ringWKT).
var invalidNames = []string{"ring_not_closed", "ring_not_simple", "ring_too_short", "nested_holes", "hole_outside",
	"hole_crosses_shell", "multi_touch", "disconnected_interior_2cycles", "disconnected_interior_long_cycle",
	"multipolygon_overlap", "multipolygon_nested", "multipolygon_shared_edge", "linestring_degenerate",
	"non_finite", "collection_with_invalid_member", "hole_shares_edge_with_shell"}

func invalidShape(r *lib.Rng, kind int) (geom.Geometry, bool) {
	no := func(xy) string { return "" }
	dx, dy := r.Intn(3), r.Intn(3)
	sh := func(vs []xy) []xy {
		out := make([]xy, len(vs))
		for i, v := range vs {
			out[i] = xy{v.x + dx, v.y + dy}
		}
		return out
	}
	sq := func(x0, y0 int) []xy { return sh(rectVerts(x0, y0, x0+1, y0+1)) }
	ring := func(vs []xy) string { return ringWKT(r, vs, no) }
	var w string
	switch kind {
	case 0:
		w = fmt.Sprintf("POLYGON((%d %d,%d %d,%d %d,%d %d))", dx, dy, dx+4, dy, dx+4, dy+4, dx, dy+4)
	case 1:
		w = "POLYGON(" + ring(sh([]xy{{0, 0}, {4, 4}, {4, 0}, {0, 4}})) + ")"
	case 2:
		w = fmt.Sprintf("POLYGON((%d %d,%d %d,%d %d))", dx, dy, dx+1, dy+1, dx, dy)
	case 3:
		w = "POLYGON(" + ring(sh(rectVerts(0, 0, 7, 7))) + "," + ring(sh(rectVerts(1, 1, 6, 6))) + "," + ring(sh(rectVerts(2, 2, 4, 4))) + ")"
	case 4:
		w = "POLYGON(" + ring(sh(rectVerts(0, 0, 3, 3))) + "," + ring(sh(rectVerts(5, 5, 6, 6))) + ")"
	case 5:
		w = "POLYGON(" + ring(sh(rectVerts(0, 0, 4, 4))) + "," + ring(sh(rectVerts(3, 1, 6, 2))) + ")"
	case 6:
		w = "POLYGON(" + ring(sh(rectVerts(0, 0, 6, 6))) + "," + ring(sh([]xy{{0, 2}, {3, 1}, {0, 4}, {2, 3}})) + ")"
	case 7:
		// two separate closed chains of four holes touching at corners, each enclosing one cell
		w = "POLYGON(" + ring(sh(rectVerts(0, 0, 9, 5)))
		for _, ox := range []int{0, 4} {
			for _, c := range [][2]int{{1, 2}, {2, 3}, {3, 2}, {2, 1}} {
				w += "," + ring(sq(c[0]+ox, c[1]))
			}
		}
		w += ")"
	case 8:
		// one chain of eight holes around a 2x2 block, plus a chain of four: several distinct cycles
		w = "POLYGON(" + ring(sh(rectVerts(0, 0, 10, 7)))
		for _, c := range [][2]int{{1, 3}, {2, 4}, {3, 5}, {4, 4}, {5, 3}, {4, 2}, {3, 1}, {2, 2}} {
			w += "," + ring(sq(c[0], c[1]))
		}
		for _, c := range [][2]int{{7, 2}, {8, 3}, {9, 2}, {8, 1}} {
			w += "," + ring(sq(c[0]-1, c[1]))
		}
		w += ")"
	case 9:
		w = "MULTIPOLYGON((" + ring(sh(rectVerts(0, 0, 4, 4))) + "),(" + ring(sh(rectVerts(2, 2, 6, 6))) + "))"
	case 10:
		w = "MULTIPOLYGON((" + ring(sh(rectVerts(0, 0, 6, 6))) + "),(" + ring(sh(rectVerts(2, 2, 3, 3))) + "),(" + ring(sh(rectVerts(4, 4, 5, 5))) + "))"
	case 11:
		w = "MULTIPOLYGON((" + ring(sh(rectVerts(0, 0, 2, 2))) + "),(" + ring(sh(rectVerts(2, 0, 4, 2))) + "),(" + ring(sh(rectVerts(2, 2, 4, 4))) + "))"
	case 12:
		w = fmt.Sprintf("MULTILINESTRING((%d %d,%d %d),(0 0,1 1),(%d %d,%d %d))", dx, dy, dx, dy, dx+1, dy, dx+1, dy)
	case 13:
		vals := []float64{math.NaN(), math.Inf(1), math.Inf(-1)}
		v := vals[r.Intn(3)]
		switch r.Intn(3) {
		case 0:
			return geom.NewPointXY(v, float64(dy)).AsGeometry(), true
		case 1:
			return geom.NewLineStringXY(0, 0, float64(dx), v, 3, 3).AsGeometry(), true
		default:
			return geom.NewPolygonXY([]float64{0, 0, 4, 0, 4, v, 0, 4, 0, 0}).AsGeometry(), true
		}
	case 15:
		// holes sharing an edge with the shell and touching each other: the overlay extracts several
		// counter-clockwise rings for one polygon from such input
		w = "POLYGON(" + ring(sh(rectVerts(0, 0, 10, 6))) + "," + ring(sq(1, 3)) + "," + ring(sq(2, 4)) + "," + ring(sq(3, 5)) + "," + ring(sq(4, 4))
		if r.Bool() {
			w += "," + ring(sq(6, 5)) + "," + ring(sq(7, 4))
		}
		w += ")"
	default:
		a, ok1 := invalidShape(r, r.Intn(12))
		b, ok2 := invalidShape(r, r.Intn(12))
		if !ok1 || !ok2 {
			return geom.Geometry{}, false
		}
		return geom.NewGeometryCollection([]geom.Geometry{geom.NewPointXY(1, 1).AsGeometry(), a, b}).AsGeometry(), true
	}
	g, err := geom.UnmarshalWKT(w, geom.NoValidate{})
	return g, err == nil
}

// genInvalid: operands that FAIL validation, one rule each (plus one valid operand), for the
// clause "the same call returns ... the same error": Validate, the validating decoders, the set
// operations, Relate and Simplify on them must return the identical error text every time, in this
// process and in another one.
func genInvalid(r *lib.Rng, p *c10Pool, st map[string]int) {
	for len(p.G) < 3 {
		k := r.Intn(len(invalidNames))
		if r.Chance(1, 4) {
			k = []int{7, 8, 15}[r.Intn(3)] // the map-heavy rules (touch graph of the rings, several CCW rings) more often
		}
		g, ok := invalidShape(r, k)
		if !ok {
			st["invalid_shape_rejected_by_parser"]++
			continue
		}
		p.G = append(p.G, g)
		p.Kinds = append(p.Kinds, "invalid:"+invalidNames[k])
		st["invalid_"+invalidNames[k]]++
	}
	w, kind := genWKT(r, "", func(xy) string { return "" }, 1)
	if g, err := geom.UnmarshalWKT(w); err == nil {
		p.G = append(p.G, g)
		p.Kinds = append(p.Kinds, kind)
	}
	p.Class = "invalid"
	st["class_invalid"]++
}

func finishPool(r *lib.Rng, p *c10Pool) {
	// auxiliary shared values
	p.Seq = p.G[0].DumpCoordinates()
	for _, g := range p.G {
		if s := g.DumpCoordinates(); s.Length() > p.Seq.Length() {
			p.Seq = s
		}
	}
	p.Env = p.G[r.Intn(len(p.G))].Envelope()
	nb := r.Range(0, 40)
	items := make([]rtree.BulkItem, nb)
	for i := range items {
		x, y := float64(r.Intn(20)), float64(r.Intn(20))
		b := rtree.Box{MinX: x, MinY: y, MaxX: x + float64(r.Intn(4)), MaxY: y + float64(r.Intn(4))}
		items[i] = rtree.BulkItem{Box: b, RecordID: i}
		p.Boxes = append(p.Boxes, b)
	}
	p.Tree = rtree.BulkLoad(items)
}

// store renders every shared operand through the public API: WKB for geometries (the property's
// observable), coordinates for the Sequence, min/max for the Envelope, full search order and
// extent for the R-tree.
func (p *c10Pool) store() string {
	var sb strings.Builder
	for _, g := range p.G {
		sb.WriteString(lib.Hex(g.AsBinary()))
		sb.WriteByte(',')
	}
	sb.WriteString(seqObs(p.Seq))
	sb.WriteByte(',')
	sb.WriteString(envObs(p.Env))
	sb.WriteByte(',')
	sb.WriteString(treeObs(p.Tree))
	return sb.String()
}

func seqObs(s geom.Sequence) string {
	o := seqObsRaw(s)
	keepResult(func() string { return seqObsRaw(s) }, o)
	return o
}

func seqObsRaw(s geom.Sequence) string {
	var sb strings.Builder
	fmt.Fprintf(&sb, "S%d:%d:", int(s.CoordinatesType()), s.Length())
	for i := 0; i < s.Length(); i++ {
		c := s.Get(i)
		fmt.Fprintf(&sb, "%016x%016x%016x%016x", math.Float64bits(c.X), math.Float64bits(c.Y), math.Float64bits(c.Z), math.Float64bits(c.M))
	}
	return sb.String()
}

func envObs(e geom.Envelope) string {
	lo, hi, ok := e.MinMaxXYs()
	if !ok {
		return "ENVEMPTY"
	}
	return fmt.Sprintf("ENV%016x%016x%016x%016x", math.Float64bits(lo.X), math.Float64bits(lo.Y), math.Float64bits(hi.X), math.Float64bits(hi.Y))
}

func treeObs(t *rtree.RTree) string {
	var sb strings.Builder
	ext, ok := t.Extent()
	fmt.Fprintf(&sb, "T%d:%v:%v:", t.Count(), ok, ext)
	_ = t.RangeSearch(rtree.Box{MinX: -1e9, MinY: -1e9, MaxX: 1e9, MaxY: 1e9}, func(id int) error {
		fmt.Fprintf(&sb, "%d.", id)
		return nil
	})
	return sb.String()
}
