// Command c10 explores property C10 (geometries are immutable values; operations are pure,
// deterministic and race-free) on the implementation.
//
// Mode "hist" (default, used by tools/check.py): one case per line = one HISTORY: a pool of shared
// operands, a schedule of API calls in which every distinct call occurs several times (>= 50 times
// for calls backed by the DCEL overlay, because Go randomises map iteration on every range) at
// scattered positions, and after EVERY call a fresh observation of every operand. The line carries
// (call key, digest of the result bytes, digest of the operand store) per event; the OCaml driver
// feeds it to the extracted checker `history_ok` of coq/Model/Canon.v, whose meaning is a theorem
// (Props/C10.v: a history passes iff it is the run of some pure function on an unchanging store).
//
// Mode "race" (built with `go build -race` by tools/c10_run.py): the same pools and calls executed
// from 2..16 goroutines sharing the operands; every result is compared with the result of a
// sequential run, the store is re-observed, and the race detector's reports are collected by the
// caller; followed by the "cold" variant (cold.go): freshly constructed operands, no sequential
// observation before the goroutines start. Prints FAIL/STATS lines itself.
package main

import (
	"crypto/sha256"
	"encoding/hex"
	"encoding/json"
	"flag"
	"fmt"
	"os"
	"strings"
	"sync"

	"verifharness/lib"
)

func digest(s string) string {
	h := sha256.Sum256([]byte(s))
	return hex.EncodeToString(h[:8])
}

func clip(s string, n int) string {
	s = strings.NewReplacer("\t", " ", "\n", " ").Replace(s)
	if len(s) > n {
		return s[:n] + "..."
	}
	return s
}

// genCalls draws the distinct calls of one history (mix fixed so that every category occurs).
func genCalls(r *lib.Rng, p *c10Pool, st map[string]int) []c10Call {
	cats := []int{0, 0, 0, 0, 1, 2, 2, 3, 3, 3, 3, 4, 4, 5, 5}
	if strings.HasPrefix(p.Class, "shared") {
		cats = []int{0, 0, 1, 2, 3, 3, 3, 3, 3, 3, 3, 3, 3, 3, 4, 4, 4, 5}
	}
	var calls []c10Call
	seen := map[string]bool{}
	if strings.HasPrefix(p.Class, "pencil") {
		cats = []int{0, 0, 0, 0, 0, 0, 0, 0, 0, 1, 1, 1, 2, 3, 3, 4, 5}
	}
	if p.Class == "invalid" {
		cats = []int{0, 0, 0, 0, 2, 3, 3, 4, 5}
		for _, cl := range errorCalls(p) {
			seen[cl.Key] = true
			calls = append(calls, cl)
			st["op_"+strings.SplitN(cl.Key, ":", 2)[0]]++
		}
	}
	for _, c := range cats {
		for tries := 0; tries < 5; tries++ {
			cl := genCall(r, p, c)
			if !seen[cl.Key] {
				seen[cl.Key] = true
				calls = append(calls, cl)
				st["op_"+strings.SplitN(cl.Key, ":", 2)[0]]++
				break
			}
		}
	}
	return calls
}

func schedule(r *lib.Rng, calls []c10Call, repsOverlay, repsPlain int) []int {
	var s []int
	for i, c := range calls {
		n := repsPlain
		if c.Overlay {
			n = repsOverlay
		}
		for k := 0; k < n; k++ {
			s = append(s, i)
		}
	}
	for i := len(s) - 1; i > 0; i-- {
		j := r.Intn(i + 1)
		s[i], s[j] = s[j], s[i]
	}
	return s
}

func main() {
	mode := flag.String("mode", "hist", "hist|race")
	repsO := flag.Int("reps", 0, "repetitions of overlay-backed calls (default 50 quick, 200 thorough)")
	only := flag.Int("case", -1, "run only this case index (replay)")
	a := lib.ParseArgs()
	if *repsO == 0 {
		*repsO = 50
		if a.Tier == "thorough" {
			*repsO = 200
		}
	}
	if *mode == "race" {
		raceMode(a, *only)
		return
	}
	w, done := a.Output()
	defer done()
	root := lib.NewRng(a.Seed)
	st := map[string]int{}
	for i := 0; i < a.N; i++ {
		r := root.Fork()
		if *only >= 0 && i != *only {
			continue
		}
		p := genPoolAt(i, r, st)
		calls := genCalls(r, p, st)
		sched := schedule(r, calls, *repsO, 3)
		store0 := p.store()
		d0 := digest(store0)
		first := map[int]string{}
		var events, canons, notes []string
		keeper := &c10Keeper{}
		curKeeper = keeper
		for _, ci := range sched {
			c := calls[ci]
			keeper.active, keeper.curKey = true, c.Key
			obs, canon := guard(func() (string, string) { return c.Run(p) })
			keeper.active = false
			if strings.HasPrefix(obs, "P:") {
				st["panics"]++
			}
			if strings.HasPrefix(obs, "E:") {
				st["errors"]++
			}
			prev, had := first[ci]
			if !had {
				first[ci] = obs
				if canon != "" && len(canons) < 6 && p.Class != "invalid" { // results on invalid input carry no order guarantee
					canons = append(canons, c.Key+"="+canon)
				}
			} else if prev != obs && len(notes) < 3 {
				if strings.HasPrefix(p.Class, "pencil") {
					notes = append(notes, clip(pencilNote(p, c.Key, prev, obs), 4000))
				} else {
					notes = append(notes, fmt.Sprintf("call %s returned %s and later %s", c.Key, clip(prev, 300), clip(obs, 300)))
				}
			}
			sd := p.store()
			if sd != store0 && len(notes) < 3 {
				notes = append(notes, fmt.Sprintf("operands changed after call %s: was %s now %s", c.Key, clip(store0, 300), clip(sd, 300)))
			}
			tok := digest(obs)
			if strings.HasPrefix(obs, "E:") {
				tok = "E" + tok // the result is an error: its full text is what is digested
			} else if strings.HasPrefix(obs, "P:") {
				tok = "P" + tok
			}
			events = append(events, c.Key+"#"+tok+"#"+digest(sd))
			// results of earlier calls are values too: re-observe the retained ones after this call
			if nk := len(keeper.reobs); nk > 0 {
				var sb strings.Builder
				for idx, f := range keeper.reobs {
					cur, _ := guard(func() (string, string) { return f(), "" })
					if cur != keeper.first[idx] && len(notes) < 3 {
						notes = append(notes, fmt.Sprintf("a result of call %s changed after call %s: was %s now %s", keeper.keys[idx], c.Key, clip(keeper.first[idx], 300), clip(cur, 300)))
					}
					sb.WriteString(cur)
					sb.WriteByte('|')
				}
				sd2 := p.store()
				if sd2 != store0 && len(notes) < 3 {
					notes = append(notes, fmt.Sprintf("operands changed by re-observing results after call %s", c.Key))
				}
				events = append(events, fmt.Sprintf("reobserve-results:%d#%s#%s", nk, digest(sb.String()), digest(sd2)))
			}
		}
		curKeeper = nil
		alias := aliasChecks(p)
		var pool []string
		for _, g := range p.G {
			pool = append(pool, g.AsText())
		}
		fields := []string{fmt.Sprintf("%d", i), p.Class, strings.Join(pool, ";"), d0, strings.Join(events, " "),
			strings.Join(canons, "|"), strings.Join(alias, " "), strings.Join(notes, " // ")}
		fmt.Fprintln(w, strings.Join(fields, "\t"))
	}
	js, _ := json.Marshal(st)
	fmt.Fprintf(w, "#GEN\t%s\n", js)
}

// raceMode runs every history's call set concurrently on the shared pool.
func raceMode(a lib.Args, only int) {
	root := lib.NewRng(a.Seed)
	st := map[string]int{}
	fails, calls_total, cold_total, cold_instances := 0, 0, 0, 0
	var mu sync.Mutex
	report := func(id int, name, detail string) {
		mu.Lock()
		defer mu.Unlock()
		fails++
		if fails <= 20 {
			fmt.Printf("FAIL\trace-%d\tSPEC\t%s\t%s\n", id, name, clip(detail, 700))
		}
	}
	hist := map[int]int{}
	for i := 0; i < a.N; i++ {
		r := root.Fork()
		if only >= 0 && i != only {
			continue
		}
		p := genPoolAt(i, r, st)
		calls := genCalls(r, p, st)
		_ = schedule(r, calls, 1, 1) // keep the PRNG stream aligned with hist mode
		store0 := p.store()
		want := make([]string, len(calls))
		for k, c := range calls {
			want[k], _ = guard(func() (string, string) { return c.Run(p) })
		}
		g := 2 + i%15 // 2..16 goroutines
		hist[g]++
		var wg sync.WaitGroup
		seeds := make([]uint64, g)
		for k := range seeds {
			seeds[k] = r.U64()
		}
		start := make(chan struct{})
		for t := 0; t < g; t++ {
			wg.Add(1)
			go func(t int) {
				defer wg.Done()
				rr := lib.NewRng(seeds[t])
				order := schedule(rr, calls, 3, 2)
				<-start
				for n, ci := range order {
					c := calls[ci]
					got, _ := guard(func() (string, string) { return c.Run(p) })
					if got != want[ci] {
						report(i, "concurrent_result_differs", fmt.Sprintf("seed=%d case=%d goroutines=%d call=%s sequential=%s concurrent=%s", a.Seed, i, g, c.Key, clip(want[ci], 200), clip(got, 200)))
					}
					if n%8 == t%8 {
						if s := p.store(); s != store0 {
							report(i, "operand_changed_concurrent", fmt.Sprintf("seed=%d case=%d goroutines=%d after call=%s", a.Seed, i, g, c.Key))
						}
					}
				}
			}(t)
		}
		close(start)
		wg.Wait()
		if s := p.store(); s != store0 {
			report(i, "operand_changed_concurrent", fmt.Sprintf("seed=%d case=%d goroutines=%d at end", a.Seed, i, g))
		}
		calls_total += len(calls) * g
		// cold variant: fresh operands on which no method has been called before the goroutines start
		inst := 2
		if a.Tier == "thorough" {
			inst = 4
		}
		cold_total += coldPhase(i, a.Seed, r, p, inst, report)
		cold_instances += inst
	}
	hs, _ := json.Marshal(hist)
	fmt.Printf("STATS\tconcurrent_histories=%d\tconcurrent_fails=%d\tconcurrent_call_instances=%d\n", a.N, fails, calls_total)
	fmt.Printf("STATS\tcold_instances=%d\tcold_call_instances=%d\n", cold_instances, cold_total)
	fmt.Printf("SAMPLE\trace mode: goroutine-count histogram %s; cold part: %d freshly constructed operand sets (WKB decoder / WKT decoder / constructors, BulkLoad, NewSequence, NewEnvelope), no method called before the goroutines start, every goroutine runs the whole read-only call set in its own order\n", hs, cold_instances)
	_ = os.Stdout.Sync()
}
