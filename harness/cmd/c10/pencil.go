package main

// The targeted class "pencil" for the line/line part of the re-noding step
// (geom/dcel_re_noding.go:reNodeGeometries, geom/dcel_node_set.go:insertOrGet).
//
// nodeSet.insertOrGet is first-come-first-kept: of several freshly computed crossing points that
// fall within the snapping tolerance of each other, the one handed in first becomes the node and
// ends up in the output. The order in which crossings are computed is therefore part of the
// result, and it has to be a function of the operands only - never of a Go map range. Two things
// are needed at once to make such an order dependence observable, and a pool of this class has
// both in (nearly) every pair of its members:
//
//  (1) exactly REPEATED segments: the same segment in both operands (also the same geometry as both
//      operands), an edge shared by two polygons of one collection, a LineString lying along a
//      polygon edge, a MultiLineString with a duplicated (reversed) member. Code that collects,
//      de-duplicates, groups or indexes segments by value takes a different path on such input.
//  (2) a PENCIL of 3..6 segments concurrent at a point that is not a double: every segment runs
//      from an integer point U to the integer point V = U + q(P-U), P = (A/q, B/q), q odd
//      (3, 7, 21, 5, 9, 11, 13, 15: P = (1/3, 1/7) is A=7, B=3, q=21), so that all of them pass
//      EXACTLY through P at parameter 1/q while the computed pairwise crossings differ from each
//      other in their last bits ("exact"); or V is the float reflection 2P-U of a decimal U
//      ("reflect": concurrent only up to rounding); or V is moved by k ulps ("spread": crossings
//      that are distinct and near-coincident, below / around / above the snapping tolerance).
//
// All operands are valid geometries. The whole pool may be scaled by a power of two (exact).

import (
	"encoding/hex"
	"fmt"
	"math"

	"github.com/peterstace/simplefeatures/geom"
	"verifharness/lib"
)

type pseg struct{ a, b geom.XY }

func (s pseg) flip() pseg { return pseg{s.b, s.a} }

func (s pseg) coords(r *lib.Rng) []float64 {
	if r != nil && r.Bool() {
		s = s.flip()
	}
	return []float64{s.a.X, s.a.Y, s.b.X, s.b.Y}
}

func cross(a, b, c geom.XY) float64 { return (b.X-a.X)*(c.Y-a.Y) - (b.Y-a.Y)*(c.X-a.X) }

func ulpOf(x float64) float64 {
	x = math.Abs(x)
	return math.Nextafter(x, math.Inf(1)) - x
}

var pencilQs = []int{3, 7, 21, 21, 5, 9, 11, 13, 15}

// pencilSegs draws the concurrent segments; mode 0 exact, 1 reflect, 2 spread.
func pencilSegs(r *lib.Rng, mode int) ([]pseg, string) {
	q := pencilQs[r.Intn(len(pencilQs))]
	var A, B int
	for {
		A, B = r.Range(-q, 6*q), r.Range(-q, 6*q)
		if A%q != 0 && (B%q != 0 || r.Chance(1, 6)) { // at least the abscissa (mostly both) is not a double
			break
		}
	}
	if r.Chance(1, 6) {
		q, A, B = 21, 7, 3 // (1/3, 1/7)
	}
	n := r.Range(3, 6)
	var segs []pseg
	var dirs []geom.XY
	pf := geom.XY{X: float64(A) / float64(q), Y: float64(B) / float64(q)}
	for tries := 0; len(segs) < n && tries < 200; tries++ {
		var s pseg
		var d geom.XY
		if mode == 1 {
			// decimal (or integer) start point, end point reflected through P in floating point
			u := geom.XY{X: float64(r.Range(-20, 70)) / 10, Y: float64(r.Range(-20, 70)) / 10}
			if r.Chance(1, 3) {
				u = geom.XY{X: float64(r.Range(-2, 7)), Y: float64(r.Range(-2, 7))}
			}
			s = pseg{u, geom.XY{X: 2*pf.X - u.X, Y: 2*pf.Y - u.Y}}
			d = geom.XY{X: pf.X - u.X, Y: pf.Y - u.Y}
			if math.Hypot(d.X, d.Y) < 0.3 {
				continue
			}
			l := math.Hypot(d.X, d.Y)
			d = geom.XY{X: d.X / l, Y: d.Y / l}
		} else {
			ux, uy := r.Range(-2, 7), r.Range(-2, 7)
			dx, dy := A-q*ux, B-q*uy // q(P-U), an integer vector
			if dx == 0 && dy == 0 {
				continue
			}
			s = pseg{geom.XY{X: float64(ux), Y: float64(uy)}, geom.XY{X: float64(ux + dx), Y: float64(uy + dy)}}
			l := math.Hypot(float64(dx), float64(dy))
			d = geom.XY{X: float64(dx) / l, Y: float64(dy) / l}
		}
		ok := true
		for _, e := range dirs {
			if math.Abs(d.X*e.Y-d.Y*e.X) < 1e-3 { // pairwise different directions (no collinear members)
				ok = false
			}
		}
		if !ok {
			continue
		}
		dirs = append(dirs, d)
		segs = append(segs, s)
	}
	if mode == 2 {
		// move the far end points by a few ulps: the crossings become distinct and stay within (or
		// straddle) the snapping tolerance of 0x200 ulps
		for i := range segs {
			if i == 0 && r.Bool() {
				continue
			}
			k := float64(r.Range(1, 60))
			if r.Chance(1, 3) {
				k = float64(r.Range(200, 4000) * q)
			}
			if r.Bool() {
				k = -k
			}
			if r.Bool() {
				segs[i].b.X += k * ulpOf(segs[i].b.X)
			} else {
				segs[i].b.Y += k * ulpOf(segs[i].b.Y)
			}
		}
	}
	return segs, fmt.Sprintf("P=(%d/%d,%d/%d)", A, q, B, q)
}

// apex returns an integer point off the line of s, on the given side (+1 / -1).
func apex(r *lib.Rng, s pseg, side float64) geom.XY {
	for {
		w := geom.XY{X: float64(r.Range(-4, 9)), Y: float64(r.Range(-4, 9))}
		c := cross(s.a, s.b, w)
		if c*side > 0 && math.Abs(c) > 0.5 {
			return w
		}
	}
}

func triOn(s pseg, w geom.XY) geom.Geometry {
	return geom.NewPolygonXY([]float64{s.a.X, s.a.Y, s.b.X, s.b.Y, w.X, w.Y, s.a.X, s.a.Y}).AsGeometry()
}

func genPencil(r *lib.Rng, p *c10Pool, st map[string]int) {
	mode := []int{0, 0, 1, 2}[r.Intn(4)]
	var segs []pseg
	var where string
	for len(segs) < 3 {
		segs, where = pencilSegs(r, mode)
	}
	n := len(segs)
	line := func(s pseg) geom.Geometry { return geom.NewLineStringXY(s.coords(r)...).AsGeometry() }
	gc := func(gs ...geom.Geometry) geom.Geometry { return geom.NewGeometryCollection(gs).AsGeometry() }
	mls := func(ss ...pseg) geom.Geometry {
		var cs [][]float64
		for _, s := range ss {
			cs = append(cs, s.coords(r))
		}
		return geom.NewMultiLineStringXY(cs...).AsGeometry()
	}
	perm := func() []pseg {
		out := append([]pseg(nil), segs...)
		for i := len(out) - 1; i > 0; i-- {
			j := r.Intn(i + 1)
			out[i], out[j] = out[j], out[i]
		}
		return out
	}
	k := r.Intn(n) // the segment that is repeated everywhere
	rest := func() []pseg {
		var out []pseg
		for _, s := range perm() {
			if s != segs[k] {
				out = append(out, s)
			}
		}
		return out
	}
	add := func(g geom.Geometry, kind string, selfRepeat bool) {
		if selfRepeat {
			p.Rep = append(p.Rep, len(p.G))
		}
		p.G = append(p.G, g)
		p.Kinds = append(p.Kinds, "pencil:"+kind)
		st["pencil_member_"+kind]++
	}
	// always: the whole pencil, and the repeated segment on its own (the other operand of the demo
	// shape "pencil x one of its segments")
	add(mls(perm()...), "all", false)
	add(line(segs[k]), "one", false)
	// one member with a repeated segment INSIDE itself (for UnaryUnion), then 1..2 more
	kinds := []int{r.Intn(2)}
	for len(kinds) < r.Range(2, 3) {
		kinds = append(kinds, r.Intn(6))
	}
	for _, kd := range kinds {
		switch kd {
		case 0: // two triangles on opposite (or the same) sides of the repeated segment + the other segments
			w1 := apex(r, segs[k], 1)
			side := -1.0
			if r.Chance(1, 4) {
				side = 1
			}
			w2 := apex(r, segs[k], side)
			ms := []geom.Geometry{triOn(segs[k], w1), triOn(segs[k].flip(), w2)}
			for _, s := range rest() {
				ms = append(ms, line(s))
			}
			if r.Bool() { // lines first
				for i, j := 0, len(ms)-1; i < j; i, j = i+1, j-1 {
					ms[i], ms[j] = ms[j], ms[i]
				}
			}
			add(gc(ms...), "shared_edge", true)
		case 1: // duplicated member (reversed half of the time)
			ss := append(rest(), segs[k])
			ss = append([]pseg{segs[k]}, ss...)
			if r.Bool() {
				ss = append(ss, ss[1])
			}
			add(mls(ss...), "dup_member", true)
		case 2: // a LineString along a polygon edge, in one collection with the rest of the pencil
			w := apex(r, segs[k], []float64{1, -1}[r.Intn(2)])
			add(gc(triOn(segs[k], w), line(segs[k]), mls(rest()...)), "line_on_edge", true)
		case 3: // one self-crossing path through all segments (valid, not simple)
			var cs []float64
			for _, s := range perm() {
				cs = append(cs, s.coords(r)...)
			}
			add(geom.NewLineStringXY(cs...).AsGeometry(), "path", false)
		case 4: // a polygon with the repeated segment as an edge, alone
			add(triOn(segs[k], apex(r, segs[k], []float64{1, -1}[r.Intn(2)])), "tri", false)
		default: // triangles standing on different pencil segments (their edges cross at P)
			var ms []geom.Geometry
			for i, s := range perm() {
				if i < 3 {
					ms = append(ms, triOn(s, apex(r, s, []float64{1, -1}[r.Intn(2)])))
				}
			}
			ms = append(ms, line(segs[k]))
			add(gc(ms...), "tris", false)
		}
	}
	p.Class = "pencil-" + []string{"exact", "reflect", "spread"}[mode]
	if r.Chance(1, 3) {
		f := math.Pow(2, float64(r.Range(-3, 3)))
		for i := range p.G {
			p.G[i] = p.G[i].TransformXY(func(c geom.XY) geom.XY { return geom.XY{X: c.X * f, Y: c.Y * f} })
		}
		p.Class += "-scaled"
	}
	p.Note = where
	st["class_"+p.Class]++
	st["pencil_segments"] += n
}

// pencilNote renders a differing pair of results with their operands as text (WKT prints the
// shortest decimal that reads back as the same double, so differences in the last bit show).
func pencilNote(p *c10Pool, key, first, later string) string {
	txt := func(obs string) string {
		if len(obs) > 2 && obs[:2] == "G:" {
			if b, err := hex.DecodeString(obs[2:]); err == nil {
				if g, err := geom.UnmarshalWKB(b, geom.NoValidate{}); err == nil {
					return g.AsText()
				}
			}
		}
		return obs
	}
	var i, j int
	var op string
	ops := ""
	if _, err := fmt.Sscanf(replaceColons(key), "%s %d %d", &op, &i, &j); err == nil && i < len(p.G) && j < len(p.G) {
		ops = fmt.Sprintf("A=%s B=%s", p.G[i].AsText(), p.G[j].AsText())
	} else if _, err := fmt.Sscanf(replaceColons(key), "%s %d", &op, &i); err == nil && i < len(p.G) {
		ops = fmt.Sprintf("A=%s", p.G[i].AsText())
		if op == "UnionMany" {
			ops = "A=the whole pool"
		}
	}
	return fmt.Sprintf("%s %s %s%s first=%s later=%s", key, p.Note, firstDiff(first, later), ops, txt(first), txt(later))
}

func replaceColons(s string) string {
	b := []byte(s)
	for i := range b {
		if b[i] == ':' {
			b[i] = ' '
		}
	}
	return string(b)
}

// firstDiff names the first vertex at which two result geometries differ.
func firstDiff(first, later string) string {
	dec := func(obs string) (geom.Sequence, bool) {
		if len(obs) > 2 && obs[:2] == "G:" {
			if b, err := hex.DecodeString(obs[2:]); err == nil {
				if g, err := geom.UnmarshalWKB(b, geom.NoValidate{}); err == nil {
					return g.DumpCoordinates(), true
				}
			}
		}
		return geom.Sequence{}, false
	}
	a, ok1 := dec(first)
	b, ok2 := dec(later)
	if !ok1 || !ok2 {
		return ""
	}
	if a.Length() != b.Length() {
		return fmt.Sprintf("results have %d and %d vertices ", a.Length(), b.Length())
	}
	for i := 0; i < a.Length(); i++ {
		if x, y := a.GetXY(i), b.GetXY(i); x != y {
			return fmt.Sprintf("vertex %d of the result is (%v %v) in one call and (%v %v) in a later one ", i, x.X, x.Y, y.X, y.Y)
		}
	}
	return ""
}
