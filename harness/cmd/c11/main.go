// Command c11 bulk-loads generated box populations into the implementation's R-tree and prints,
// per case, the observations the model is compared against (property C11): Count, Extent, the
// tree shape (through the optional verif hook), and for a set of queries and callback scripts
// the raw sequence of record ids passed to the callback and the class of the return value of
// RangeSearch / PrioritySearch / Nearest.
//
// Case line (tab separated):
//
//	id  class  items  count  extent  dump  searches
//
// class    = layout, "big:" layout for the large spec-only populations, "mm:" layout for the
//
//	mixed-magnitude populations, with the suffix "@k" when the case ran rescaled by 2^k (items,
//	queries; Extent and the dump are scaled back by the harness, so every field of the line is
//	in units of 2^k)
//
// ordinates are written "c" or "cps" (= c * 2^s units, s > 0; the mixed-magnitude populations), and
// "inf" / "-inf" for an infinite side of a query box (the driver replaces it by an integer beyond
// every finite ordinate of the case, which is order-equivalent for a query box)
// items    = "minx,miny,maxx,maxy,id;..." or "-"
// extent   = "minx,miny,maxx,maxy" or "none"
// dump     = VerifDump() of the real tree, or "-" when the hook is not compiled in
// searches = "kind:q:k:act:ret:ids|..." with kind R|P|N, q = "minx,miny,maxx,maxy", the script
//
//	"Continue for the first k invocations, then act (s = Stop, w = wrapped Stop, f<n> = error n)",
//	ret = nil | e<n> (the script's own error, unchanged) | stop (Stop surfaced) | other | panic,
//	ids = comma separated record ids in invocation order.  For N: ret = found|none, ids = the id.
//
// The kind letter may carry a tag that only names the history the trace comes from (the driver
// judges every trace the same way, because in the model a search is a function of tree, query and
// script): "o" = outer search whose callback started other searches on the SAME tree at chosen
// positions (re-entrancy), "i" = such an inner search (other query box, from the opposite side of
// the population), "c" = search run concurrently with others from several goroutines.
package main

import (
	"encoding/json"
	"errors"
	"fmt"
	"math"
	"runtime"
	"strconv"
	"strings"
	"sync"

	"github.com/peterstace/simplefeatures/rtree"
	"verifharness/lib"
)

// ibox: the box c * 2^(sh+curScale) for each of its four lattice ordinates c; an ordinate equal
// to +-infC stands for +-Inf (query boxes only).
type ibox struct {
	minx, miny, maxx, maxy int
	sh                     int
}

const infC = 1 << 40

func bx(minx, miny, maxx, maxy int) ibox { return ibox{minx: minx, miny: miny, maxx: maxx, maxy: maxy} }

type item struct {
	b  ibox
	id int
}

// curScale is the binary exponent of the case being run: every ordinate handed to the
// implementation (items and queries alike) is the lattice integer times 2^(curScale+sh), an exact
// rescaling as long as the values stay finite and multiples of 2^-1074 (lattice |c| < 2^22,
// -1074 <= curScale+sh <= 1001).
var curScale int

// negZero: when set, a lattice ordinate 0 is handed over as -0.0 (1: always, 2: items only,
// 3: every other call).
var negZero, negZeroCalls int

func scf(c, sh int, isQuery bool) float64 {
	switch {
	case c >= infC:
		return math.Inf(1)
	case c <= -infC:
		return math.Inf(-1)
	case c == 0:
		negZeroCalls++
		if negZero == 1 || (negZero == 2 && !isQuery) || (negZero == 3 && negZeroCalls%2 == 0) {
			return math.Copysign(0, -1)
		}
		return 0
	}
	return math.Ldexp(float64(c), curScale+sh)
}

func (b ibox) rt() rtree.Box {
	return rtree.Box{MinX: scf(b.minx, b.sh, false), MinY: scf(b.miny, b.sh, false), MaxX: scf(b.maxx, b.sh, false), MaxY: scf(b.maxy, b.sh, false)}
}

// rtq: the same for a query box (only matters for the negative-zero modes)
func (b ibox) rtq() rtree.Box {
	return rtree.Box{MinX: scf(b.minx, b.sh, true), MinY: scf(b.miny, b.sh, true), MaxX: scf(b.maxx, b.sh, true), MaxY: scf(b.maxy, b.sh, true)}
}

// fnumP writes a float64 of the implementation (an Extent side, a box of the real tree) in
// lattice units: exactly, as "c" or "cps"; "x..." when it is not an integer number of units.
func fnumP(f float64) string {
	if f == 0 {
		return "0"
	}
	if math.IsInf(f, 0) || math.IsNaN(f) {
		return "x" + strconv.FormatFloat(f, 'g', -1, 64)
	}
	fr, e := math.Frexp(f) // f = fr * 2^e, 0.5 <= |fr| < 1
	m := int64(math.Ldexp(fr, 53))
	e -= 53 + curScale // f = m * 2^e lattice units
	for m%2 == 0 {
		m /= 2
		e++
	}
	if e < 0 {
		return "x" + strconv.FormatFloat(f, 'g', -1, 64)
	}
	a := m
	if a < 0 {
		a = -a
	}
	if e == 0 || (e < 62 && a < (int64(1)<<(62-uint(e)))) {
		return strconv.FormatInt(m<<uint(e), 10)
	}
	return strconv.FormatInt(m, 10) + "p" + strconv.Itoa(e)
}

// unscaleDump rewrites the ordinates of a VerifDump string in lattice units.
func unscaleDump(d string) string {
	t := strings.Fields(d)
	for i := 0; i < len(t); i++ {
		if t[i] == "L" || t[i] == "B" {
			for j := 1; j <= 4 && i+j < len(t); j++ {
				f, err := strconv.ParseFloat(t[i+j], 64)
				if err != nil {
					return d
				}
				t[i+j] = fnumP(f)
			}
			i += 4
			if t[i-4] == "L" {
				i++ // the record id
			}
		}
	}
	return strings.Join(t, " ")
}

// pickScale: exponent classes of the rescaled populations. Every ordinate, every comparison, sum
// and difference of ordinates stays exact for -1074 <= k <= 1000 (lattice |c| < 2^23); squared
// distances of the implementation are exact for about -537 <= k <= 488 (lattice gaps < 2^23:
// dx*dx+dy*dy is a multiple of 2^-1074 and below 2^1024; the driver works the bound out per case);
// beyond that range they underflow/overflow.
func pickScale(r *lib.Rng) int {
	switch r.Intn(10) {
	case 0:
		return []int{-537, -536, -512, -511, 488, 489, -1, 1, 52, -52, -1000, 990, -1074, -1073,
			-1023, -1022, -1021, -600, -300, -100, 100, 300, 600, 900, 1000}[r.Intn(25)]
	case 1, 2:
		return r.Range(-1074, -538) // squares underflow (below -1022: subnormal ordinates)
	case 3:
		return r.Range(490, 1000) // squares overflow
	}
	return r.Range(-537, 489)
}

func ordStr(c, sh int) string {
	switch {
	case c >= infC:
		return "inf"
	case c <= -infC:
		return "-inf"
	case c == 0 || sh == 0:
		return strconv.Itoa(c)
	}
	return strconv.Itoa(c) + "p" + strconv.Itoa(sh)
}

func (b ibox) String() string {
	return ordStr(b.minx, b.sh) + "," + ordStr(b.miny, b.sh) + "," + ordStr(b.maxx, b.sh) + "," + ordStr(b.maxy, b.sh)
}

type scriptErr struct{ code int }

func (e *scriptErr) Error() string { return "script error " + strconv.Itoa(e.code) }

// script builds the callback: Continue for the first k invocations, then the error of act.
func script(k int, act string, visits *[]int) (func(int) error, error) {
	var e error
	switch act[0] {
	case 's':
		e = rtree.Stop
	case 'w':
		e = fmt.Errorf("wrapped twice: %w", fmt.Errorf("wrapped: %w", rtree.Stop))
	case 'f':
		c, _ := strconv.Atoi(act[1:])
		e = &scriptErr{c}
	}
	calls := 0
	return func(id int) error {
		i := calls
		calls++
		*visits = append(*visits, id)
		if i < k {
			return nil
		}
		return e
	}, e
}

// safely runs a search under recover: a panic of the implementation is an observation
// (return class "panic"), judged as a violation by the driver.
func safely(f func() error) (err error, panicked bool) {
	defer func() {
		if x := recover(); x != nil {
			panicked = true
		}
	}()
	return f(), false
}

func safeNearest(t *rtree.RTree, b rtree.Box) (id int, found bool, ret string) {
	defer func() {
		if x := recover(); x != nil {
			id, found, ret = 0, false, "panic"
		}
	}()
	id, found = t.Nearest(b)
	if found {
		return id, true, "found"
	}
	return 0, false, "none"
}

func retClassP(err, own error, panicked bool) string {
	if panicked {
		return "panic"
	}
	return retClass(err, own)
}

func retClass(err, own error) string {
	switch {
	case err == nil:
		return "nil"
	case err == own && own != nil && !errors.Is(own, rtree.Stop):
		return "e" + strconv.Itoa(own.(*scriptErr).code)
	case errors.Is(err, rtree.Stop):
		return "stop"
	}
	return "other"
}

func ids(v []int) string {
	s := make([]string, len(v))
	for i, x := range v {
		s[i] = strconv.Itoa(x)
	}
	return strings.Join(s, ",")
}

// ---------------------------------------------------------------- generators

var layouts = []string{"uniform", "points", "hvlines", "duplicates", "concentric", "clustered",
	"collinear", "heavy", "grid", "mixed"}

func genBox(r *lib.Rng, layout string, i, n int, R int, aux []ibox) ibox {
	rb := func(maxw int) ibox {
		x, y := r.Range(-R, R), r.Range(-R, R)
		return bx(x, y, x+r.Range(0, maxw), y+r.Range(0, maxw))
	}
	switch layout {
	case "points":
		x, y := r.Range(-R, R), r.Range(-R, R)
		return bx(x, y, x, y)
	case "hvlines":
		b := rb(R/2 + 1)
		if r.Bool() {
			b.maxx = b.minx
		} else {
			b.maxy = b.miny
		}
		return b
	case "duplicates":
		return aux[r.Intn(len(aux))]
	case "concentric": // identical centres: all boxes centred on aux[0]'s corner
		c := aux[0]
		w, h := r.Range(0, R), r.Range(0, R)
		return bx(c.minx-w, c.miny-h, c.minx+w, c.miny+h)
	case "clustered":
		c := aux[r.Intn(len(aux))]
		dx, dy := r.Range(-3, 3), r.Range(-3, 3)
		return bx(c.minx+dx, c.miny+dy, c.minx+dx+r.Range(0, 2), c.miny+dy+r.Range(0, 2))
	case "collinear":
		t := r.Range(-R, R)
		w := r.Range(0, 2)
		switch aux[0].minx & 3 {
		case 0:
			return bx(t, 7, t+w, 7+w)
		case 1:
			return bx(-3, t, -3+w, t+w)
		case 2:
			return bx(t, t, t+w, t+w)
		}
		return bx(t, -t, t+w, -t+w)
	case "heavy":
		x, y := r.Range(-R/4, R/4), r.Range(-R/4, R/4)
		return bx(x-r.Range(R/2, R), y-r.Range(R/2, R), x+r.Range(R/2, R), y+r.Range(R/2, R))
	case "grid": // unit boxes in a row or a square grid (the F1 population)
		if aux[0].minx&1 == 0 {
			return bx(i, 0, i+1, 1)
		}
		side := int(math.Ceil(math.Sqrt(float64(n)))) + 1
		return bx(i%side, i/side, i%side+1, i/side+1)
	case "mixed":
		return genBox(r, layouts[r.Intn(len(layouts)-1)], i, n, R, aux)
	}
	return rb(R/4 + 1)
}

func genItems(r *lib.Rng, layout string, n int) []item {
	R := []int{4, 20, 100, 1000, 1 << 19}[r.Intn(5)]
	if layout == "uniform" && r.Chance(1, 3) {
		R = 1 << 19
	}
	aux := make([]ibox, r.Range(1, 4))
	for i := range aux {
		x, y := r.Range(-R, R), r.Range(-R, R)
		aux[i] = bx(x, y, x+r.Range(0, 3), y+r.Range(0, 3))
	}
	items := make([]item, n)
	idMode := r.Intn(4)
	perm := make([]int, n)
	for i := range perm {
		perm[i] = i
	}
	for i := n - 1; i > 0; i-- {
		j := r.Intn(i + 1)
		perm[i], perm[j] = perm[j], perm[i]
	}
	for i := 0; i < n; i++ {
		id := i
		switch idMode {
		case 1:
			id = perm[i]
		case 2:
			id = perm[i]*7 - 3*n // distinct, many negative
		case 3:
			id = 1000000007 * (perm[i] + 1) // distinct, large
		}
		items[i] = item{genBox(r, layout, i, n, R, aux), id}
	}
	return items
}

func bound(items []item) ibox {
	if len(items) == 0 {
		return bx(0, 0, 0, 0)
	}
	b := items[0].b
	for _, it := range items[1:] {
		if it.b.minx < b.minx {
			b.minx = it.b.minx
		}
		if it.b.miny < b.miny {
			b.miny = it.b.miny
		}
		if it.b.maxx > b.maxx {
			b.maxx = it.b.maxx
		}
		if it.b.maxy > b.maxy {
			b.maxy = it.b.maxy
		}
	}
	return b
}

// genQueries: enclosing, disjoint, degenerate, edge- and corner-touching, equal to an item, random.
func genQueries(r *lib.Rng, items []item, nq int, qcls map[string]int) []ibox {
	bb := bound(items)
	w, h := bb.maxx-bb.minx+1, bb.maxy-bb.miny+1
	pick := func() ibox {
		if len(items) == 0 {
			return bx(0, 0, 1, 1)
		}
		return items[r.Intn(len(items))].b
	}
	var qs []ibox
	add := func(cls string, q ibox) { qcls[cls]++; qs = append(qs, q) }
	add("enclosing", bx(bb.minx-1, bb.miny-1, bb.maxx+1, bb.maxy+1))
	for len(qs) < nq {
		b := pick()
		switch r.Intn(12) {
		case 10: // the query of geom's point-in-ring test: a ray from -Inf to a point
			x, y := bb.minx+r.Intn(w), bb.miny+r.Intn(h)
			if r.Bool() {
				x, y = b.minx, b.maxy
			}
			add("inf_ray", bx(-infC, y, x, y))
		case 11:
			x, y := bb.minx+r.Intn(w), bb.miny+r.Intn(h)
			switch r.Intn(5) {
			case 0:
				add("inf_plane", bx(-infC, -infC, infC, infC))
			case 1:
				add("inf_half", bx(-infC, -infC, x, infC))
			case 2:
				add("inf_quadrant", bx(b.maxx, b.maxy, infC, infC))
			case 3:
				add("inf_strip", bx(-infC, y, infC, y+r.Intn(3)))
			default:
				add("inf_half", bx(x, -infC, infC, infC))
			}
		case 0:
			add("disjoint", bx(bb.maxx+1+r.Intn(5), bb.miny, bb.maxx+10+w, bb.maxy))
		case 1:
			add("corner_touch", bx(b.maxx, b.maxy, b.maxx+r.Range(0, 3), b.maxy+r.Range(0, 3)))
		case 2:
			add("corner_touch", bx(b.minx-r.Range(0, 3), b.miny-r.Range(0, 3), b.minx, b.miny))
		case 3:
			add("edge_touch", bx(b.maxx, b.miny-1, b.maxx+r.Range(0, 4), b.maxy+1))
		case 4:
			add("edge_touch", bx(b.minx-1, b.miny-r.Range(0, 4), b.maxx+1, b.miny))
		case 5:
			add("near_miss", bx(b.maxx+1, b.miny, b.maxx+2, b.maxy))
		case 6:
			x, y := bb.minx+r.Intn(w), bb.miny+r.Intn(h)
			add("point", bx(x, y, x, y))
		case 7:
			add("equal_item", b)
		case 8:
			x := bb.minx + r.Intn(w)
			add("line", bx(x, bb.miny-2, x, bb.maxy+2))
		default:
			x, y := bb.minx+r.Intn(w), bb.miny+r.Intn(h)
			add("random", bx(x, y, x+r.Intn(w/2+1), y+r.Intn(h/2+1)))
		}
	}
	return qs
}

// overlapI: do the two boxes share a point (exact: the ordinates handed over are exact, and
// comparisons of float64 values are exact)
func overlapI(a, b ibox) bool {
	x, y := a.rt(), b.rt()
	return x.MinX <= y.MaxX && x.MaxX >= y.MinX && x.MinY <= y.MaxY && x.MaxY >= y.MinY
}

// genMixed: a population of mixed magnitudes: "tiny" boxes in units of 2^curScale and "huge" boxes
// in units of 2^(curScale+S) around the same origin. Every ordinate is exact and so is every
// comparison the implementation makes between them; its sums and differences are rounded.
func genMixed(r *lib.Rng, n, S int, layout string) []item {
	items := make([]item, n)
	for i := range items {
		var b ibox
		R := []int{3, 10, 50, 1000}[r.Intn(4)]
		x, y := r.Range(-R, R), r.Range(-R, R)
		switch r.Intn(6) {
		case 0:
			b = bx(x, y, x, y)
		case 1:
			b = bx(x, y, x+r.Range(0, R), y)
		case 2: // contains the origin (a huge one contains the whole tiny cluster)
			b = bx(-r.Range(0, R), -r.Range(0, R), r.Range(0, R), r.Range(0, R))
		case 3: // a corner at the origin
			b = bx(0, 0, r.Range(0, R), r.Range(0, R))
			if r.Bool() {
				b = bx(-r.Range(0, R), -r.Range(0, R), 0, 0)
			}
		default:
			b = bx(x, y, x+r.Range(0, R), y+r.Range(0, R))
		}
		switch layout {
		case "tiny_and_huge":
			if r.Bool() {
				b.sh = S
			}
		case "one_huge":
			if i == 0 {
				b.sh = S
			}
		case "one_tiny":
			if i != 0 {
				b.sh = S
			}
		}
		items[i] = item{b, 3*i - n}
	}
	return items
}

func genMixedQueries(r *lib.Rng, items []item, S int, qcls map[string]int) []ibox {
	var qs []ibox
	add := func(cls string, q ibox, sh int) { qcls["mm_"+cls]++; q.sh = sh; qs = append(qs, q) }
	add("enclosing", bx(-2001, -2001, 2001, 2001), S)
	pick := func() ibox {
		if len(items) == 0 {
			return bx(0, 0, 1, 1)
		}
		return items[r.Intn(len(items))].b
	}
	for len(qs) < 5 {
		b := pick()
		c := r.Range(0, 60)
		switch r.Intn(9) {
		case 0: // anchored at the origin, huge units: takes in the non-negative part of the tiny cluster
			add("origin_huge", bx(0, 0, c, c), S)
		case 1:
			add("origin_huge", bx(-c, -c, 0, 0), S)
		case 2: // tiny units
			x, y := r.Range(-60, 60), r.Range(-60, 60)
			add("tiny_random", bx(x, y, x+r.Range(0, 30), y+r.Range(0, 30)), 0)
		case 3:
			add("corner_touch", bx(b.maxx, b.maxy, b.maxx+r.Range(0, 3), b.maxy+r.Range(0, 3)), b.sh)
		case 4:
			add("near_miss", bx(b.maxx+1, b.miny, b.maxx+2, b.maxy), b.sh)
		case 5:
			add("edge_touch", bx(b.minx-1, b.miny-r.Range(0, 4), b.maxx+1, b.miny), b.sh)
		case 6:
			add("inf_ray", bx(-infC, b.maxy, b.minx, b.maxy), b.sh)
		case 7:
			add("inf_quadrant", bx(b.maxx, b.maxy, infC, infC), b.sh)
		default:
			x, y := r.Range(-60, 60), r.Range(-60, 60)
			add("huge_random", bx(x, y, x+r.Range(0, 30), y+r.Range(0, 30)), S)
		}
	}
	return qs
}

func main() {
	a := lib.ParseArgs()
	w, done := a.Output()
	defer done()
	root := lib.NewRng(a.Seed)
	maxN := 400
	if a.Tier == "thorough" {
		maxN = 5000
	}
	classes := map[string]int{}
	qcls := map[string]int{}
	acts := map[string]int{}
	sizeHist := map[string]int{}
	scales := map[string]int{}
	searches := 0
	hook := 0
	// the last nBig cases (both tiers) are populations of 4097..5000 items, class "big:<layout>":
	// the driver judges them by the executable specification on the item list alone (linear scans;
	// the extracted tree model is quadratic there) plus the model searches on the REAL tree
	const nBig = 3
	// after them nMixed small populations of mixed magnitudes, class "mm:<layout>"
	nMixed := 16
	if a.Tier == "thorough" {
		nMixed = 160
	}
	negZeros := 0
	for i := 0; i < a.N+nBig+nMixed; i++ {
		r := root.Fork()
		// sizes 0..40 exhaustively (each with every layout in turn), then larger populations
		var n int
		layout := layouts[(i/41)%len(layouts)]
		exhaustive := i < 41*len(layouts) || i%3 != 0
		big := i >= a.N && i < a.N+nBig
		mm := i >= a.N+nBig
		mmShift := 0
		if mm {
			n = r.Range(0, 14)
			if r.Chance(1, 8) {
				n = r.Range(15, 40)
			}
			layout = []string{"tiny_and_huge", "one_huge", "one_tiny"}[r.Intn(3)]
		} else if big {
			n = r.Range(4097, 5000)
			layout = []string{"grid", "clustered", "duplicates"}[(i-a.N)%3]
		} else if exhaustive {
			n = i % 41
		} else {
			switch r.Intn(8) {
			case 0:
				n = r.Range(41, 400)
			case 1:
				n = []int{63, 64, 65, 127, 128, 129, 255, 256, 257}[r.Intn(9)]
			default:
				n = r.Range(41, 160)
			}
			if a.Tier == "thorough" && i%67 == 0 {
				n = r.Range(401, maxN) // a few large populations (the model's slices are lists: quadratic)
			}
			layout = layouts[r.Intn(len(layouts))]
		}
		if big {
			classes["big:"+layout]++
		} else if mm {
			classes["mm:"+layout]++
		} else {
			classes[layout]++
		}
		switch {
		case n <= 4:
			sizeHist["0-4"]++
		case n <= 8:
			sizeHist["5-8"]++
		case n <= 40:
			sizeHist["9-40"]++
		case n <= 400:
			sizeHist["41-400"]++
		default:
			sizeHist["401-5000"]++
		}
		curScale = 0
		if i%5 == 3 {
			curScale = pickScale(r)
		}
		if big {
			curScale = []int{0, -600, 300}[(i-a.N)%3]
		}
		if mm {
			// tiny units 2^kT, huge units 2^kH
			kT := []int{-1074, -1060, -1000, -600, -300, -100, -20, 0}[r.Intn(8)]
			kH := []int{-900, -500, -200, 40, 100, 300, 600, 900, 990}[r.Intn(9)]
			for kH < kT+40 {
				kH += 200
			}
			if kH > 990 {
				kH = 990
			}
			curScale, mmShift = kT, kH-kT
		}
		negZero, negZeroCalls = 0, 0
		if i%7 == 5 || (mm && i%2 == 0) {
			negZero = 1 + r.Intn(3)
			negZeros++
		}
		switch {
		case mm:
			scales["mixed_magnitudes"]++
		case curScale == 0:
			scales["unscaled"]++
		case curScale < -537:
			scales["below_-537_squares_underflow"]++
		case curScale > 489:
			scales["above_489_squares_overflow"]++
		default:
			scales["exact_-537..489"]++
		}
		var items []item
		if mm {
			items = genMixed(r, n, mmShift, layout)
		} else {
			items = genItems(r, layout, n)
		}
		bulk := make([]rtree.BulkItem, n)
		var sb []string
		for j, it := range items {
			bulk[j] = rtree.BulkItem{Box: it.b.rt(), RecordID: it.id}
			sb = append(sb, fmt.Sprintf("%s,%d", it.b, it.id))
		}
		itemStr := "-"
		if n > 0 {
			itemStr = strings.Join(sb, ";")
		}
		tree := rtree.BulkLoad(bulk)
		ext := "none"
		if b, ok := tree.Extent(); ok {
			ext = fnumP(b.MinX) + "," + fnumP(b.MinY) + "," + fnumP(b.MaxX) + "," + fnumP(b.MaxY)
		}
		dump := "-"
		if d, ok := interface{}(tree).(interface{ VerifDump() string }); ok {
			dump = unscaleDump(d.VerifDump())
			hook++
		}
		var out []string
		emit := func(kind string, q ibox, k int, act, ret string, v []int) {
			out = append(out, fmt.Sprintf("%s:%s:%d:%s:%s:%s", kind, q, k, act, ret, ids(v)))
			searches++
		}
		run := func(kind string, q ibox, k int, act string) {
			var visits []int
			cb, own := script(k, act, &visits)
			err, pan := safely(func() error {
				if kind == "R" {
					return tree.RangeSearch(q.rtq(), cb)
				}
				return tree.PrioritySearch(q.rtq(), cb)
			})
			acts[kind+act[:1]]++
			emit(kind, q, k, act, retClassP(err, own, pan), visits)
		}
		nearest := func(tag string, q ibox) {
			id, found, ret := safeNearest(tree, q.rtq())
			if found {
				emit("N"+tag, q, 0, "s", ret, []int{id})
			} else {
				emit("N"+tag, q, 0, "s", ret, nil)
			}
		}
		nq := 4
		if n > 1000 {
			nq = 2
		}
		pickAct := func(j int) string {
			switch j % 3 {
			case 0:
				return "s"
			case 1:
				return "w"
			}
			return "f" + strconv.Itoa(r.Range(1, 99))
		}
		caseClass := layout
		if curScale != 0 {
			caseClass += "@" + strconv.Itoa(curScale)
		}
		if mm {
			caseClass = "mm:" + caseClass
		}
		if big {
			caseClass = "big:" + caseClass
			bb := bound(items)
			some := items[r.Intn(n)].b
			for qn, q := range []ibox{
				bx(bb.minx-1, bb.miny-1, bb.maxx+1, bb.maxy+1),           // enclosing
				bx(bb.minx, bb.miny, bb.maxx, bb.maxy),                   // the exact extent
				bx(some.maxx, some.maxy, some.maxx, some.maxy),           // a point (corner of an item)
				bx(bb.maxx+2, bb.miny, bb.maxx+9, bb.maxy),               // disjoint
				bx(bb.minx-1, bb.miny-1, (bb.minx+bb.maxx)/2, bb.maxy+1), // about half
			} {
				qcls[[]string{"big_enclosing", "big_extent", "big_point", "big_disjoint", "big_half"}[qn]]++
				run("R", q, n+1, "s")
				run("R", q, r.Intn(40), pickAct(qn))
				run("R", q, r.Intn(n+1), pickAct(qn+1))
				run("P", q, r.Intn(40), pickAct(qn+2))
				run("P", q, 1+r.Intn(3), pickAct(qn))
				nearest("", q)
				if qn == 0 {
					run("P", q, n+1, "s") // one complete PrioritySearch
				}
			}
		}
		var queries []ibox
		switch {
		case big:
		case mm:
			queries = genMixedQueries(r, items, mmShift, qcls)
		default:
			queries = genQueries(r, items, nq, qcls)
		}
		for qi, q := range queries {
			hits := 0
			for _, it := range items {
				if overlapI(it.b, q) {
					hits++
				}
			}
			// uninterrupted searches
			run("R", q, n+1, pickAct(r.Intn(3)))
			if n <= 1000 || qi == 0 {
				run("P", q, n+1, pickAct(r.Intn(3)))
			}
			// Nearest
			nearest("", q)
			// interrupted searches: every k for small trees, sampled k otherwise
			switch {
			case n <= 12:
				for k := 0; k <= hits; k++ {
					for j := 0; j < 3; j++ {
						run("R", q, k, pickAct(j))
					}
				}
				for k := 0; k <= n; k++ {
					for j := 0; j < 3; j++ {
						run("P", q, k, pickAct(j))
					}
				}
			case n <= 40:
				for k := 0; k <= hits; k++ {
					run("R", q, k, pickAct(k+qi))
				}
				for k := 0; k <= n; k++ {
					run("P", q, k, pickAct(k+qi+1))
				}
			default:
				ks := []int{0, 1, hits - 1, hits, r.Intn(hits + 1), r.Intn(hits + 1)}
				for j, k := range ks {
					if k >= 0 {
						run("R", q, k, pickAct(j+qi))
					}
				}
				ks = []int{0, 1, 2, r.Intn(n + 1), r.Intn(n/8 + 1), n - 1}
				if n > 1000 {
					ks = ks[:4]
				}
				for j, k := range ks {
					run("P", q, k, pickAct(j+qi+1))
				}
			}
		}
		// ---- histories: searches started from inside a callback of another search on the same tree
		if n >= 2 && !big && !mm {
			// populations above 1000: the extracted model is quadratic there, so the histories are
			// kept short (early interruptions, no complete inner searches, no goroutines)
			light := n > 1000
			bb := bound(items)
			corners := []ibox{
				bx(bb.minx-1, bb.miny-1, bb.minx-1, bb.miny-1),
				bx(bb.maxx+1, bb.maxy+1, bb.maxx+1, bb.maxy+1),
				bx(bb.minx-2, bb.maxy+2, bb.minx-2, bb.maxy+2),
				bx(bb.maxx+2, bb.miny-2, bb.maxx+2, bb.miny-2),
			}
			mirror := func(q ibox) ibox { // the query reflected through the centre of the population
				return bx(bb.minx+bb.maxx-q.maxx, bb.miny+bb.maxy-q.maxy, bb.minx+bb.maxx-q.minx, bb.miny+bb.maxy-q.miny)
			}
			runInner := func(kind string, q ibox, k int, act string) {
				var visits []int
				switch kind {
				case "N":
					nearest("i", q)
				case "P":
					cb, own := script(k, act, &visits)
					err, pan := safely(func() error { return tree.PrioritySearch(q.rtq(), cb) })
					emit("Pi", q, k, act, retClassP(err, own, pan), visits)
				case "R":
					cb, own := script(k, act, &visits)
					err, pan := safely(func() error { return tree.RangeSearch(q.rtq(), cb) })
					emit("Ri", q, k, act, retClassP(err, own, pan), visits)
				}
				acts["inner"+kind]++
			}
			// outer search with script Continue^k.act; at every position in `at` the callback first
			// runs an inner search with query q2, then answers
			runOuter := func(kind string, q, q2 ibox, k int, act string, at map[int]bool) {
				var visits []int
				cb0, own := script(k, act, &visits)
				pos := 0
				cb := func(id int) error {
					j := pos
					pos++
					if at[j] {
						kmax := n + 1
						if light {
							kmax = 16
						}
						switch j % 4 {
						case 0:
							if light {
								runInner("P", q2, r.Intn(kmax), "s")
							} else {
								runInner("P", q2, n+1, "s") // a complete inner PrioritySearch
							}
						case 1:
							runInner("N", q2, 0, "s")
						case 2:
							runInner("P", q2, r.Intn(kmax), pickAct(j))
						default:
							runInner("R", mirror(q), r.Intn(kmax), pickAct(j))
						}
					}
					return cb0(id)
				}
				err, pan := safely(func() error {
					if kind == "R" {
						return tree.RangeSearch(q.rtq(), cb)
					}
					return tree.PrioritySearch(q.rtq(), cb)
				})
				acts["outer"+kind]++
				emit(kind+"o", q, k, act, retClassP(err, own, pan), visits)
			}
			positions := func(all bool) map[int]bool {
				at := map[int]bool{}
				if all {
					for j := 0; j < n; j++ {
						at[j] = true
					}
					return at
				}
				for _, j := range []int{0, 1, 2, 3, n / 2, n - 2, r.Intn(n), r.Intn(n)} {
					if j >= 0 {
						at[j] = true
					}
				}
				return at
			}
			q, q2 := corners[0], corners[1]
			if r.Bool() {
				q, q2 = corners[2], corners[3]
			}
			enclosing := bx(bb.minx-1, bb.miny-1, bb.maxx+1, bb.maxy+1)
			if light {
				runOuter("P", q, q2, 4+r.Intn(16), pickAct(r.Intn(3)), positions(false))
				runOuter("P", q2, q, 4+r.Intn(16), pickAct(r.Intn(3)), map[int]bool{0: true, 1: true, 2: true, 3: true})
				runOuter("R", enclosing, q2, 4+r.Intn(16), pickAct(r.Intn(3)), positions(false))
			} else {
				runOuter("P", q, q2, n+1, "s", positions(n <= 24))
				runOuter("P", q, q2, n+1, "s", map[int]bool{0: true})
				runOuter("P", q2, q, r.Intn(n+1), pickAct(r.Intn(3)), positions(false))
				runOuter("R", enclosing, q2, n+1, "s", positions(n <= 12))
				runOuter("R", enclosing, q, r.Intn(n+1), pickAct(r.Intn(3)), positions(false))
			}
			// ---- a few goroutine-concurrent searches on the shared tree
			if i%4 == 0 && n >= 4 && !light {
				const G = 4
				type res struct {
					kind, act, ret string
					q              ibox
					k              int
					v              []int
				}
				results := make([][]res, G)
				var wg sync.WaitGroup
				start := make(chan struct{})
				ks := make([]int, G)
				for g := range ks {
					ks[g] = r.Intn(n + 1)
				}
				for g := 0; g < G; g++ {
					wg.Add(1)
					go func(g int) {
						defer wg.Done()
						<-start
						one := func(kind string, q ibox, k int, act string) {
							var visits []int
							cb0, own := script(k, act, &visits)
							cb := func(id int) error { runtime.Gosched(); return cb0(id) }
							err, pan := safely(func() error {
								if kind == "R" {
									return tree.RangeSearch(q.rtq(), cb)
								}
								return tree.PrioritySearch(q.rtq(), cb)
							})
							results[g] = append(results[g], res{kind, act, retClassP(err, own, pan), q, k, visits})
						}
						one("P", corners[g], n+1, "s")
						one("R", enclosing, n+1, "s")
						one("P", corners[(g+1)%G], ks[g], []string{"s", "w", "f7"}[g%3])
						id, found, ret := safeNearest(tree, corners[(g+2)%G].rtq())
						if found {
							results[g] = append(results[g], res{"N", "s", ret, corners[(g+2)%G], 0, []int{id}})
						} else {
							results[g] = append(results[g], res{"N", "s", ret, corners[(g+2)%G], 0, nil})
						}
					}(g)
				}
				close(start)
				wg.Wait()
				for g := 0; g < G; g++ {
					for _, x := range results[g] {
						emit(x.kind+"c", x.q, x.k, x.act, x.ret, x.v)
						acts["concurrent"+x.kind]++
					}
				}
			}
		}
		fmt.Fprintf(w, "%d\t%s\t%s\t%d\t%s\t%s\t%s\n", i, caseClass, itemStr, tree.Count(), ext, dump, strings.Join(out, "|"))
	}
	stats := map[string]interface{}{"layouts": classes, "queries": qcls, "scripts": acts, "sizes": sizeHist,
		"searches": searches, "trees_dumped_through_hook": hook, "max_population": maxN, "scale_exponents": scales,
		"populations_with_negative_zero": negZeros}
	js, _ := json.Marshal(stats)
	fmt.Fprintf(w, "#GEN\t%s\n", js)
}
