// Command c12 exercises geom.Envelope and the Envelope() method of every geometry type and
// prints, per case, the inputs and the implementation's observations (property C12).
//
// Line kinds (second field):
//
//	G  geometry: Envelope(), DumpCoordinates, and the envelope of every representation change
//	U  one lattice envelope: every unary method
//	P  ordered pair of lattice envelopes (exhaustive over a small lattice): binary methods
//	T  triple of lattice envelopes (exhaustive over a smaller lattice): associativity of the join
//	N  NewEnvelope / ExpandToIncludeXY on point lists
//	C  Contains / Validate on float64 envelopes and points incl. NaN, +-Inf, -0, subnormals
//	K  float64 comparison primitives (validates the order-isomorphic key used by the model)
//	Y  Union(a, b).Envelope() against the join of the operands' envelopes (valid lattice inputs)
//	F  float64 boxes of all magnitudes (subnormal .. 1e300, degenerate and not, sides whose product
//	   underflows / overflows): every envelope method, unary on a and binary on (a, b)
//
// Every float64 travels as the 16-digit hex of its IEEE-754 bits.
package main

import (
	"bufio"
	"encoding/json"
	"fmt"
	"math"
	"strings"

	"github.com/peterstace/simplefeatures/geom"
	"verifharness/lib"
)

func hexf(f float64) string { return fmt.Sprintf("%016x", math.Float64bits(f)) }

func envStr(e geom.Envelope) string {
	lo, hi, ok := e.MinMaxXYs()
	if !ok {
		return "E"
	}
	return hexf(lo.X) + "," + hexf(lo.Y) + "," + hexf(hi.X) + "," + hexf(hi.Y)
}

// safeEnv computes an envelope, reporting a panic of the implementation as an observation.
func safeEnv(f func() geom.Envelope) (s string) {
	defer func() {
		if r := recover(); r != nil {
			s = "PANIC"
		}
	}()
	return envStr(f())
}

func xysStr(seq geom.Sequence) string {
	n := seq.Length()
	if n == 0 {
		return "-"
	}
	parts := make([]string, n)
	for i := 0; i < n; i++ {
		p := seq.GetXY(i)
		parts[i] = hexf(p.X) + "," + hexf(p.Y)
	}
	return strings.Join(parts, ";")
}

// ---------------------------------------------------------------- geometry generator

type coordGen func(r *lib.Rng, zm bool) float64

type gcfg struct {
	coord     coordGen
	mixedCT   bool
	holeOut   bool // some hole vertex outside the shell's box (invalid polygon; hypothesis false)
	emptyRing bool // exterior ring empty although holes exist (invalid polygon)
	maxDepth  int
	latt      bool // lattice coordinates (extremes can be made unique)
	long      bool // sequences of 16..70 points with the extremes placed at chosen positions
}

// longSeq draws n vertices and then moves the extreme X and Y ordinates to chosen positions (first,
// second, each of the last four, or anywhere); on the lattice the moved extreme is pushed one step
// beyond the rest so that it is attained at that position only.
func (c gcfg) longSeq(r *lib.Rng, ct geom.CoordinatesType, n int, lattice bool) [][4]float64 {
	vs := make([][4]float64, n)
	for i := range vs {
		vs[i] = c.vertex(r, ct)
	}
	pos := func() int {
		switch r.Intn(8) {
		case 0:
			return 0
		case 1:
			return 1 % n
		case 2:
			return n - 1
		case 3:
			return (n - 2 + n) % n
		case 4:
			return (n - 3 + n) % n
		case 5:
			return (n - 4 + n) % n
		default:
			return r.Intn(n)
		}
	}
	for axis := 0; axis < 2; axis++ {
		for _, wantMax := range []bool{false, true} {
			best := 0
			for i := range vs {
				a, b := vs[i][axis], vs[best][axis]
				if math.IsNaN(a) || math.IsNaN(b) {
					continue
				}
				if wantMax && a > b || !wantMax && a < b {
					best = i
				}
			}
			t := pos()
			vs[best][axis], vs[t][axis] = vs[t][axis], vs[best][axis]
			if lattice {
				if wantMax {
					vs[t][axis]++
				} else {
					vs[t][axis]--
				}
			}
		}
	}
	return vs
}

// longLen covers all residues modulo 4 and 8 in 16..70
func longLen(r *lib.Rng) int { return 16 + r.Intn(55) }

func (c gcfg) vertex(r *lib.Rng, ct geom.CoordinatesType) [4]float64 {
	var v [4]float64
	v[0] = c.coord(r, false)
	v[1] = c.coord(r, false)
	if ct.Is3D() {
		v[2] = c.coord(r, true)
	}
	if ct.IsMeasured() {
		v[3] = c.coord(r, true)
	}
	return v
}

func (c gcfg) kidCT(r *lib.Rng, parent geom.CoordinatesType) geom.CoordinatesType {
	if c.mixedCT && r.Chance(1, 3) {
		return geom.CoordinatesType(r.Intn(4))
	}
	return parent
}

func (c gcfg) point(r *lib.Rng, ct geom.CoordinatesType) *lib.Node {
	n := &lib.Node{Kind: lib.KPoint, CT: ct}
	if !r.Chance(1, 4) {
		n.Full = true
		n.C = [][4]float64{c.vertex(r, ct)}
	}
	return n
}

func (c gcfg) line(r *lib.Rng, ct geom.CoordinatesType) *lib.Node {
	n := &lib.Node{Kind: lib.KLine, CT: ct}
	if c.long && !r.Chance(1, 8) {
		n.C = c.longSeq(r, ct, longLen(r), c.latt)
		return n
	}
	k := 0
	if !r.Chance(1, 5) {
		k = r.Range(1, 6)
	}
	for i := 0; i < k; i++ {
		n.C = append(n.C, c.vertex(r, ct))
	}
	return n
}

func finite(f float64) bool { return !math.IsNaN(f) && !math.IsInf(f, 0) }

// poly: a closed exterior ring of 3..6 free vertices; holes are closed rings whose vertices are
// re-drawn until they lie in the box of the exterior ring (the hypothesis validity implies),
// unless the class asks for a hole sticking out.
func (c gcfg) poly(r *lib.Rng, ct geom.CoordinatesType) *lib.Node {
	n := &lib.Node{Kind: lib.KPoly, CT: ct}
	if r.Chance(1, 5) {
		return n
	}
	shell := &lib.Node{Kind: lib.KLine, CT: c.kidCT(r, ct)}
	m := r.Range(3, 6)
	if c.long && !r.Chance(1, 8) {
		// a closed ring of 16..70 points in total: the closing vertex repeats the first one, so
		// "second to last" is the last free position
		shell.C = c.longSeq(r, shell.CT, longLen(r)-1, c.latt)
	} else {
		for j := 0; j < m; j++ {
			shell.C = append(shell.C, c.vertex(r, shell.CT))
		}
	}
	shell.C = append(shell.C, shell.C[0])
	lox, hix, loy, hiy := math.Inf(1), math.Inf(-1), math.Inf(1), math.Inf(-1)
	allFinite := true
	for _, v := range shell.C {
		if !finite(v[0]) || !finite(v[1]) {
			allFinite = false
		}
		lox, hix = math.Min(lox, v[0]), math.Max(hix, v[0])
		loy, hiy = math.Min(loy, v[1]), math.Max(hiy, v[1])
	}
	n.Kids = append(n.Kids, shell)
	holes := r.Intn(3)
	for h := 0; h < holes; h++ {
		ring := &lib.Node{Kind: lib.KLine, CT: c.kidCT(r, ct)}
		k := r.Range(3, 4)
		for j := 0; j < k; j++ {
			v := c.vertex(r, ring.CT)
			if allFinite {
				for t := 0; t < 200 && !(v[0] >= lox && v[0] <= hix && v[1] >= loy && v[1] <= hiy); t++ {
					v = c.vertex(r, ring.CT)
				}
				if !(v[0] >= lox && v[0] <= hix && v[1] >= loy && v[1] <= hiy) {
					v[0], v[1] = shell.C[r.Intn(len(shell.C))][0], shell.C[r.Intn(len(shell.C))][1]
				}
			}
			ring.C = append(ring.C, v)
		}
		ring.C = append(ring.C, ring.C[0])
		n.Kids = append(n.Kids, ring)
	}
	if c.holeOut && len(n.Kids) > 1 && allFinite {
		ring := n.Kids[1+r.Intn(len(n.Kids)-1)]
		i := r.Intn(len(ring.C) - 1)
		switch r.Intn(4) {
		case 0:
			ring.C[i][0] = hix + 1 + float64(r.Intn(3))
		case 1:
			ring.C[i][0] = lox - 1 - float64(r.Intn(3))
		case 2:
			ring.C[i][1] = hiy + 1 + float64(r.Intn(3))
		default:
			ring.C[i][1] = loy - 1 - float64(r.Intn(3))
		}
		if i == 0 {
			ring.C[len(ring.C)-1] = ring.C[0]
		}
	}
	if c.emptyRing && r.Bool() {
		n.Kids[0] = &lib.Node{Kind: lib.KLine, CT: shell.CT}
		if len(n.Kids) == 1 {
			ring := &lib.Node{Kind: lib.KLine, CT: ct}
			for j := 0; j < 3; j++ {
				ring.C = append(ring.C, c.vertex(r, ct))
			}
			ring.C = append(ring.C, ring.C[0])
			n.Kids = append(n.Kids, ring)
		}
	}
	return n
}

func (c gcfg) gen(r *lib.Rng, ct geom.CoordinatesType, depth int, force int) *lib.Node {
	var k lib.Kind
	switch {
	case force >= 0:
		k = lib.Kind(force)
	case depth <= 1:
		k = lib.Kind(r.Intn(6))
	default:
		k = lib.Kind(r.Intn(7))
	}
	switch k {
	case lib.KPoint:
		return c.point(r, ct)
	case lib.KLine:
		return c.line(r, ct)
	case lib.KPoly:
		return c.poly(r, ct)
	}
	n := &lib.Node{Kind: k, CT: ct}
	cnt := 0
	if !r.Chance(1, 6) {
		cnt = r.Range(1, 4)
	}
	for i := 0; i < cnt; i++ {
		kct := c.kidCT(r, ct)
		switch k {
		case lib.KMPoint:
			n.Kids = append(n.Kids, c.point(r, kct))
		case lib.KMLine:
			n.Kids = append(n.Kids, c.line(r, kct))
		case lib.KMPoly:
			n.Kids = append(n.Kids, c.poly(r, kct))
		default:
			n.Kids = append(n.Kids, c.gen(r, kct, depth-1, -1))
		}
	}
	return n
}

// shuffled returns a copy of the tree with the member order of every Multi*/collection node
// permuted (ring order of polygons is kept: the first ring is the exterior ring).
func shuffled(r *lib.Rng, n *lib.Node) *lib.Node {
	m := *n
	if n.Kind == lib.KPoint || n.Kind == lib.KLine || n.Kind == lib.KPoly {
		return &m
	}
	m.Kids = make([]*lib.Node, len(n.Kids))
	for i, k := range n.Kids {
		m.Kids[i] = shuffled(r, k)
	}
	for i := len(m.Kids) - 1; i > 0; i-- {
		j := r.Intn(i + 1)
		m.Kids[i], m.Kids[j] = m.Kids[j], m.Kids[i]
	}
	return &m
}

// rotated returns a copy of the tree in which every closed ring of every polygon starts at another
// vertex (the closing vertex is re-created).
func rotated(r *lib.Rng, n *lib.Node, inPoly bool) *lib.Node {
	m := *n
	if n.Kind == lib.KLine {
		k := len(n.C)
		if inPoly && k >= 3 && n.C[0] == n.C[k-1] {
			open := n.C[:k-1]
			s := r.Intn(len(open))
			var c [][4]float64
			c = append(c, open[s:]...)
			c = append(c, open[:s]...)
			c = append(c, c[0])
			m.C = c
		}
		return &m
	}
	m.Kids = make([]*lib.Node, len(n.Kids))
	for i, k := range n.Kids {
		m.Kids[i] = rotated(r, k, n.Kind == lib.KPoly)
	}
	return &m
}

// membersJoin folds ExpandToIncludeEnvelope over the envelopes of the direct members, through the
// public accessors; "-" for non-collections.
func membersJoin(g geom.Geometry) string {
	var env geom.Envelope
	switch g.Type() {
	case geom.TypeMultiPoint:
		m := g.MustAsMultiPoint()
		for i := 0; i < m.NumPoints(); i++ {
			env = env.ExpandToIncludeEnvelope(m.PointN(i).Envelope())
		}
	case geom.TypeMultiLineString:
		m := g.MustAsMultiLineString()
		for i := 0; i < m.NumLineStrings(); i++ {
			env = env.ExpandToIncludeEnvelope(m.LineStringN(i).Envelope())
		}
	case geom.TypeMultiPolygon:
		m := g.MustAsMultiPolygon()
		for i := 0; i < m.NumPolygons(); i++ {
			env = env.ExpandToIncludeEnvelope(m.PolygonN(i).Envelope())
		}
	case geom.TypeGeometryCollection:
		m := g.MustAsGeometryCollection()
		for i := m.NumGeometries() - 1; i >= 0; i-- { // reverse order on purpose
			env = m.GeometryN(i).Envelope().ExpandToIncludeEnvelope(env)
		}
	default:
		return "-"
	}
	return envStr(env)
}

func latticeCoord(side, off int) coordGen {
	return func(r *lib.Rng, zm bool) float64 {
		if zm {
			return float64(r.Range(-9, 9))
		}
		return float64(off + r.Intn(side))
	}
}

func floatCoord(nonFiniteXY bool) coordGen {
	return func(r *lib.Rng, zm bool) float64 {
		f, _ := lib.GenFloat(r, zm || nonFiniteXY)
		return f
	}
}

func genGeometries(w *bufio.Writer, root *lib.Rng, n int, id *int, classes map[string]int, kinds *[7]int, cts *[4]int, empties *int) {
	for i := 0; i < n; i++ {
		r := root.Fork()
		var cfg gcfg
		class := "lattice"
		cfg.maxDepth = 3
		switch i % 20 {
		case 7, 8, 9:
			class = "longlattice"
			cfg.coord = latticeCoord(r.Range(3, 9), r.Range(-4, 3))
			cfg.long, cfg.latt = true, true
		case 13, 14:
			class = "longfloat"
			cfg.coord = floatCoord(false)
			cfg.long = true
		case 10, 11, 12:
			class = "float"
			cfg.coord = floatCoord(false)
		case 15, 16:
			class = "nan"
			cfg.coord = floatCoord(true)
		case 17:
			class = "holeout"
			cfg.coord = latticeCoord(r.Range(3, 6), r.Range(-3, 3))
			cfg.holeOut = true
		case 18:
			class = "emptyring"
			cfg.coord = latticeCoord(r.Range(3, 6), r.Range(-3, 3))
			cfg.emptyRing = true
		case 19:
			class = "mixedct"
			cfg.coord = latticeCoord(r.Range(3, 6), r.Range(-3, 3))
			cfg.mixedCT = true
		default:
			cfg.coord = latticeCoord(r.Range(3, 6), r.Range(-3, 3))
		}
		force := -1
		if class == "holeout" || class == "emptyring" {
			force = int(lib.KPoly) + 3*r.Intn(2) // Polygon or MultiPolygon
		} else if cfg.long {
			// the types that hold sequences: LineString, Polygon, MultiLineString, MultiPolygon, collection
			force = []int{int(lib.KLine), int(lib.KPoly), int(lib.KMLine), int(lib.KMPoly), int(lib.KColl), int(lib.KLine), int(lib.KPoly)}[(i/20)%7]
		} else if i%3 == 0 {
			force = (i / 3) % 7 // every type guaranteed
		}
		node := cfg.gen(r, geom.CoordinatesType(r.Intn(4)), cfg.maxDepth, force)
		g := node.Build()
		classes[class]++
		kinds[node.Kind]++
		cts[g.CoordinatesType()]++
		if g.IsEmpty() {
			*empties++
		}
		env := g.Envelope()
		variants := []string{
			"rev=" + safeEnv(func() geom.Envelope { return g.Reverse().Envelope() }),
			"f2d=" + safeEnv(func() geom.Envelope { return g.Force2D().Envelope() }),
			"fc0=" + safeEnv(func() geom.Envelope { return g.ForceCoordinatesType(geom.DimXY).Envelope() }),
			"fc1=" + safeEnv(func() geom.Envelope { return g.ForceCoordinatesType(geom.DimXYZ).Envelope() }),
			"fc2=" + safeEnv(func() geom.Envelope { return g.ForceCoordinatesType(geom.DimXYM).Envelope() }),
			"fc3=" + safeEnv(func() geom.Envelope { return g.ForceCoordinatesType(geom.DimXYZM).Envelope() }),
			"fcw=" + safeEnv(func() geom.Envelope { return g.ForceCW().Envelope() }),
			"fccw=" + safeEnv(func() geom.Envelope { return g.ForceCCW().Envelope() }),
			"perm=" + safeEnv(func() geom.Envelope { return shuffled(r, node).Build().Envelope() }),
			"rot=" + safeEnv(func() geom.Envelope { return rotated(r, node, false).Build().Envelope() }),
			"ag=" + safeEnv(func() geom.Envelope { return env.AsGeometry().Envelope() }),
			"bd=" + safeEnv(func() geom.Envelope { return env.BoundingDiagonal().Envelope() }),
		}
		if mj := membersJoin(g); mj != "-" {
			variants = append(variants, "mj="+mj)
		}
		valid := 0
		if g.Validate() == nil {
			valid = 1
		}
		envValid := 0
		if env.Validate() == nil {
			envValid = 1
		}
		fields := []string{
			fmt.Sprintf("%d", *id), "G", class, lib.Dump(g), envStr(env), xysStr(g.DumpCoordinates()),
			strings.Join(variants, "|"), fmt.Sprintf("%d%d", valid, envValid),
		}
		*id++
		fmt.Fprintln(w, strings.Join(fields, "\t"))
	}
}

// ---------------------------------------------------------------- lattice envelopes

type lenv struct {
	empty          bool
	x0, y0, x1, y1 int
}

func (e lenv) build() geom.Envelope {
	if e.empty {
		return geom.Envelope{}
	}
	return geom.NewEnvelope(geom.XY{X: float64(e.x1), Y: float64(e.y0)}, geom.XY{X: float64(e.x0), Y: float64(e.y1)})
}

func allEnvs(l int) []lenv {
	out := []lenv{{empty: true}}
	for x0 := 0; x0 <= l; x0++ {
		for x1 := x0; x1 <= l; x1++ {
			for y0 := 0; y0 <= l; y0++ {
				for y1 := y0; y1 <= l; y1++ {
					out = append(out, lenv{false, x0, y0, x1, y1})
				}
			}
		}
	}
	return out
}

func b01(b bool) string {
	if b {
		return "1"
	}
	return "0"
}

func pointStr(p geom.Point) string {
	var sb strings.Builder
	lib.DumpPoint(&sb, p)
	return strings.TrimSpace(sb.String())
}

var transforms = []func(geom.XY) geom.XY{
	func(p geom.XY) geom.XY { return p },
	func(p geom.XY) geom.XY { return geom.XY{X: -p.X, Y: p.Y} },
	func(p geom.XY) geom.XY { return geom.XY{X: p.Y, Y: p.X} },
	func(p geom.XY) geom.XY { return geom.XY{X: 2*p.X + 1, Y: 3 - p.Y} },
	func(p geom.XY) geom.XY { return geom.XY{X: -p.Y, Y: -p.X} },
}

func genUnary(w *bufio.Writer, l int, id *int) int {
	envs := allEnvs(l)
	for _, le := range envs {
		e := le.build()
		flags := b01(e.IsEmpty()) + b01(e.IsPoint()) + b01(e.IsLine()) + b01(e.IsRectangle()) + b01(e.Validate() == nil)
		center := "E"
		if c, ok := e.Center().XY(); ok {
			center = hexf(c.X) + "," + hexf(c.Y)
		}
		lo, hi, ok := e.MinMaxXYs()
		mm := strings.Join([]string{hexf(lo.X), hexf(lo.Y), hexf(hi.X), hexf(hi.Y), b01(ok)}, ",")
		bx, bok := e.AsBox()
		box := strings.Join([]string{hexf(bx.MinX), hexf(bx.MinY), hexf(bx.MaxX), hexf(bx.MaxY), b01(bok)}, ",")
		var tr []string
		for _, fn := range transforms {
			tr = append(tr, envStr(e.TransformXY(fn)))
		}
		var cb strings.Builder
		for y := -1; y <= l+1; y++ {
			for x := -1; x <= l+1; x++ {
				cb.WriteString(b01(e.Contains(geom.XY{X: float64(x), Y: float64(y)})))
			}
		}
		fields := []string{
			fmt.Sprintf("%d", *id), "U", fmt.Sprintf("%d", l), envStr(e), flags,
			hexf(e.Width()), hexf(e.Height()), hexf(e.Area()), center,
			pointStr(e.Min()), pointStr(e.Max()), mm, box,
			lib.Dump(e.AsGeometry()), lib.Dump(e.BoundingDiagonal()),
			strings.Join(tr, "|"), cb.String(),
		}
		*id++
		fmt.Fprintln(w, strings.Join(fields, "\t"))
	}
	return len(envs)
}

func genPairs(w *bufio.Writer, l int, id *int) int {
	envs := allEnvs(l)
	built := make([]geom.Envelope, len(envs))
	strs := make([]string, len(envs))
	for i, le := range envs {
		built[i] = le.build()
		strs[i] = envStr(built[i])
	}
	for i, a := range built {
		for j, b := range built {
			d, ok := a.Distance(b)
			fmt.Fprintf(w, "%d\tP\t%s\t%s\t%s%s%s\t%s\t%s\n", *id, strs[i], strs[j],
				b01(a.Intersects(b)), b01(a.Covers(b)), b01(ok), hexf(d), envStr(a.ExpandToIncludeEnvelope(b)))
			*id++
		}
	}
	return len(envs) * len(envs)
}

func genTriples(w *bufio.Writer, l int, id *int) int {
	envs := allEnvs(l)
	built := make([]geom.Envelope, len(envs))
	strs := make([]string, len(envs))
	for i, le := range envs {
		built[i] = le.build()
		strs[i] = envStr(built[i])
	}
	for i, a := range built {
		for j, b := range built {
			ab := a.ExpandToIncludeEnvelope(b)
			for k, c := range built {
				fmt.Fprintf(w, "%d\tT\t%s\t%s\t%s\t%s\t%s\n", *id, strs[i], strs[j], strs[k],
					envStr(ab.ExpandToIncludeEnvelope(c)), envStr(a.ExpandToIncludeEnvelope(b.ExpandToIncludeEnvelope(c))))
				*id++
			}
		}
	}
	return len(envs) * len(envs) * len(envs)
}

func genNew(w *bufio.Writer, root *lib.Rng, n int, id *int) {
	for i := 0; i < n; i++ {
		r := root.Fork()
		k := r.Intn(7)
		side, off := r.Range(2, 6), r.Range(-3, 3)
		pts := make([]geom.XY, k)
		ps := make([]string, k)
		var step geom.Envelope
		for j := range pts {
			pts[j] = geom.XY{X: float64(off + r.Intn(side)), Y: float64(off + r.Intn(side))}
			ps[j] = hexf(pts[j].X) + "," + hexf(pts[j].Y)
			step = step.ExpandToIncludeXY(pts[j])
		}
		in := "-"
		if k > 0 {
			in = strings.Join(ps, ";")
		}
		fmt.Fprintf(w, "%d\tN\t%s\t%s\t%s\n", *id, in, envStr(geom.NewEnvelope(pts...)), envStr(step))
		*id++
	}
}

func genContainsFloat(w *bufio.Writer, root *lib.Rng, n int, id *int) {
	for i := 0; i < n; i++ {
		r := root.Fork()
		nf := i%4 == 0
		f := func() float64 { v, _ := lib.GenFloat(r, nf); return v }
		var e geom.Envelope
		k := r.Intn(4)
		ps := make([]string, k)
		for j := 0; j < k; j++ {
			p := geom.XY{X: f(), Y: f()}
			ps[j] = hexf(p.X) + "," + hexf(p.Y)
			e = e.ExpandToIncludeXY(p)
		}
		in := "-"
		if k > 0 {
			in = strings.Join(ps, ";")
		}
		g := func() float64 { v, _ := lib.GenFloat(r, i%3 == 0); return v }
		q := geom.XY{X: g(), Y: g()}
		if lo, hi, ok := e.MinMaxXYs(); ok && r.Bool() {
			// a point taken from the envelope's own ordinates: on the boundary
			xs := []float64{lo.X, hi.X}
			ys := []float64{lo.Y, hi.Y}
			q = geom.XY{X: xs[r.Intn(2)], Y: ys[r.Intn(2)]}
		}
		fmt.Fprintf(w, "%d\tC\t%s\t%s\t%s,%s\t%s%s\n", *id, in, envStr(e), hexf(q.X), hexf(q.Y),
			b01(e.Contains(q)), b01(e.Validate() == nil))
		*id++
	}
}

func genKeys(w *bufio.Writer, root *lib.Rng, n int, id *int) {
	for i := 0; i < n; i++ {
		r := root.Fork()
		a, _ := lib.GenFloat(r, true)
		b, _ := lib.GenFloat(r, true)
		switch i % 5 {
		case 1:
			b = a
		case 2:
			b = math.Float64frombits(math.Float64bits(a) + 1)
		case 3:
			b = -a
		}
		fmt.Fprintf(w, "%d\tK\t%s\t%s\t%s%s%s%s%s\n", *id, hexf(a), hexf(b),
			b01(a < b), b01(a <= b), b01(a == b), b01(math.IsNaN(a)), b01(math.IsInf(a, 0)))
		*id++
	}
}

// valid lattice geometries for the Union relation, of a requested kind (0 Point, 1 MultiPoint,
// 2 LineString, 3 Polygon, 4 MultiLineString, 5 MultiPolygon, 6 GeometryCollection), translated by
// (ox, oy) so that the origin can be kept outside every envelope, with EMPTY members inserted at
// random positions of Multi*/collections (empty members are valid).
type vgen struct {
	r      *lib.Rng
	ox, oy float64
}

func (v vgen) x() float64 { return v.ox + float64(v.r.Range(0, 6)) }
func (v vgen) y() float64 { return v.oy + float64(v.r.Range(0, 6)) }

func (v vgen) point() geom.Point {
	return geom.NewPoint(geom.Coordinates{XY: geom.XY{X: v.x(), Y: v.y()}})
}

func (v vgen) line() geom.LineString {
	m := v.r.Range(2, 4)
	var fs []float64
	for i := 0; i < m; i++ {
		x, y := v.x(), v.y()
		for i > 0 && x == fs[len(fs)-2] && y == fs[len(fs)-1] {
			x, y = v.x(), v.y()
		}
		fs = append(fs, x, y)
	}
	return geom.NewLineString(geom.NewSequence(fs, geom.DimXY))
}

// rect is an axis-parallel rectangle inside the x-slab [3*slab, 3*slab+2] (slabs keep the members
// of a MultiPolygon disjoint)
func (v vgen) rect(slab int) geom.Polygon {
	x0 := v.ox + float64(3*slab+v.r.Intn(2))
	x1 := x0 + 1
	y0 := v.oy + float64(v.r.Range(0, 4))
	y1 := y0 + float64(v.r.Range(1, 2))
	fs := []float64{x0, y0, x1, y0, x1, y1, x0, y1, x0, y0}
	return geom.NewPolygon([]geom.LineString{geom.NewLineString(geom.NewSequence(fs, geom.DimXY))})
}

// emptyAt tells, for a member list of length m, which positions hold an EMPTY member
func (v vgen) emptyAt(m int) []bool {
	e := make([]bool, m)
	if m > 0 && v.r.Chance(2, 3) {
		e[v.r.Intn(m)] = true // first, middle or last
		if v.r.Chance(1, 3) {
			e[v.r.Intn(m)] = true
		}
	}
	return e
}

func (v vgen) geom(kind, depth int) geom.Geometry {
	r := v.r
	switch kind {
	case 0:
		return v.point().AsGeometry()
	case 1:
		m := r.Range(1, 4)
		e := v.emptyAt(m)
		ps := make([]geom.Point, m)
		for i := range ps {
			if e[i] {
				ps[i] = geom.NewEmptyPoint(geom.DimXY)
			} else {
				ps[i] = v.point()
			}
		}
		return geom.NewMultiPoint(ps).AsGeometry()
	case 2:
		return v.line().AsGeometry()
	case 3:
		return v.rect(r.Intn(2)).AsGeometry()
	case 4:
		m := r.Range(1, 3)
		e := v.emptyAt(m)
		ls := make([]geom.LineString, m)
		for i := range ls {
			if !e[i] {
				ls[i] = v.line()
			}
		}
		return geom.NewMultiLineString(ls).AsGeometry()
	case 5:
		m := r.Range(1, 2)
		e := v.emptyAt(m)
		ps := make([]geom.Polygon, m)
		for i := range ps {
			if !e[i] {
				ps[i] = v.rect(i)
			}
		}
		return geom.NewMultiPolygon(ps).AsGeometry()
	default:
		m := r.Range(0, 3)
		e := v.emptyAt(m)
		gs := make([]geom.Geometry, m)
		for i := range gs {
			switch {
			case e[i]:
				gs[i] = []geom.Geometry{geom.NewEmptyPoint(geom.DimXY).AsGeometry(), geom.LineString{}.AsGeometry(),
					geom.Polygon{}.AsGeometry(), geom.MultiPoint{}.AsGeometry(), geom.GeometryCollection{}.AsGeometry()}[r.Intn(5)]
			case depth > 0:
				gs[i] = v.geom(r.Intn(7), depth-1)
			default:
				gs[i] = v.geom(r.Intn(6), 0)
			}
		}
		return geom.NewGeometryCollection(gs).AsGeometry()
	}
}

// genUnion: Union over every ordered pair of kinds (49 combinations in turn) and UnionMany over
// lists of 0..4 geometries; the operands are translated into one of the four quadrants (or left at
// the origin) so that (0 0) lies outside the joined envelope in four cases out of five.
func genUnion(w *bufio.Writer, root *lib.Rng, n int, id *int, kinds map[string]int) {
	names := []string{"P", "MP", "L", "Y", "ML", "MY", "GC"}
	for i := 0; i < n; i++ {
		r := root.Fork()
		off := [][2]float64{{10, 10}, {-20, 10}, {-20, -20}, {10, -20}, {0, 0}}[i%5]
		v := vgen{r: r, ox: off[0] + float64(r.Intn(5)), oy: off[1] + float64(r.Intn(5))}
		var ops []geom.Geometry
		op := "union"
		if i%4 == 3 {
			op = "unionmany"
			m := r.Range(0, 4)
			for j := 0; j < m; j++ {
				ops = append(ops, v.geom(r.Intn(7), 1))
			}
			kinds["unionmany"]++
		} else {
			ka, kb := (i/4)%7, (i/28)%7
			if i%8 < 4 {
				// puntal pairs are the cheapest to get wrong: every second pair is Point/MultiPoint only
				ka, kb = (i/8)%2, (i/16)%2
			}
			ops = []geom.Geometry{v.geom(ka, 1), v.geom(kb, 1)}
			kinds[names[ka]+"x"+names[kb]]++
		}
		res := "ERR"
		func() {
			defer func() {
				if recover() != nil {
					res = "PANIC"
				}
			}()
			for _, g := range ops {
				if g.Validate() != nil {
					res = "INVALID"
					return
				}
			}
			var u geom.Geometry
			var err error
			if op == "union" {
				u, err = geom.Union(ops[0], ops[1])
			} else {
				u, err = geom.UnionMany(ops)
			}
			if err == nil {
				res = envStr(u.Envelope())
			}
		}()
		wkts := make([]string, len(ops))
		envs := make([]string, len(ops))
		for j, g := range ops {
			wkts[j] = g.AsText()
			envs[j] = envStr(g.Envelope())
		}
		if len(ops) == 0 {
			wkts, envs = []string{"-"}, []string{"-"}
		}
		fmt.Fprintf(w, "%d\tY\t%s\t%s\t%s\t%s\n", *id, op, strings.Join(wkts, ";"), strings.Join(envs, "|"), res)
		*id++
	}
}

// ---------------------------------------------------------------- float64 boxes

var scales = []float64{5e-324, 3e-310, 2.2250738585072014e-308, 1e-300, 1e-170, 1e-162, 1e-154, 1e-100, 1e-8, 1, 1e8, 1e100, 1e150, 1e154, 1e162, 1e300}

// interval draws lo <= hi at the given scale: degenerate, a few units wide, or with a fractional width
func interval(r *lib.Rng, s float64) (float64, float64) {
	lo := s * float64(r.Range(-3, 3))
	if r.Chance(1, 6) {
		lo = s * (float64(r.Range(-3000, 3000)) / 1024)
	}
	switch r.Intn(5) {
	case 0:
		return lo, lo
	case 1:
		return lo, lo + s*(1+float64(r.Intn(1000))/512)
	default:
		return lo, lo + s*float64(r.Range(1, 4))
	}
}

func floatBox(r *lib.Rng, sx, sy float64) (x0, y0, x1, y1 float64) {
	x0, x1 = interval(r, sx)
	y0, y1 = interval(r, sy)
	return
}

func mkEnv(x0, y0, x1, y1 float64) geom.Envelope {
	return geom.NewEnvelope(geom.XY{X: x1, Y: y0}, geom.XY{X: x0, Y: y1})
}

// related places an interval relative to [lo,hi] at scale s: equal, touching, separated by a gap of
// a few units (also on the far side), overlapping, nested, or unrelated
func related(r *lib.Rng, lo, hi, s float64) (float64, float64) {
	w := s * float64(r.Range(0, 3))
	switch r.Intn(8) {
	case 0:
		return lo, hi
	case 1:
		return hi, hi + w
	case 2:
		g := s * float64(r.Range(1, 3))
		return hi + g, hi + g + w
	case 3:
		g := s * float64(r.Range(1, 3))
		return lo - g - w, lo - g
	case 4:
		return lo + (hi-lo)/2, hi + w
	case 5:
		return lo + (hi-lo)/4, hi - (hi-lo)/4
	case 6:
		return lo - w, hi + w
	default:
		return interval(r, s)
	}
}

func genFloatBoxes(w *bufio.Writer, root *lib.Rng, n int, id *int) {
	for i := 0; i < n; i++ {
		r := root.Fork()
		sx := scales[r.Intn(len(scales))]
		sy := sx
		if r.Chance(1, 3) {
			sy = scales[r.Intn(len(scales))]
		}
		x0, y0, x1, y1 := floatBox(r, sx, sy)
		a := mkEnv(x0, y0, x1, y1)
		var b geom.Envelope
		switch {
		case i%17 == 0:
			// b stays empty
		case i%17 == 1:
			a = geom.Envelope{}
			b = mkEnv(floatBox(r, sx, sy))
		case r.Chance(1, 6):
			// the far corner of the range: sums and gaps beyond MaxFloat64 / 2
			h := math.MaxFloat64
			k := func() float64 { return h / 10 * float64(r.Range(5, 9)) }
			a = mkEnv(k(), -h, h, -k())
			b = mkEnv(-h, k(), -k(), h)
			if r.Bool() {
				a, b = b, a
			}
		default:
			u0, u1 := related(r, x0, x1, sx)
			v0, v1 := related(r, y0, y1, sy)
			b = mkEnv(u0, v0, u1, v1)
		}
		flags := b01(a.IsEmpty()) + b01(a.IsPoint()) + b01(a.IsLine()) + b01(a.IsRectangle()) + b01(a.Validate() == nil)
		center := "E"
		if c, ok := a.Center().XY(); ok {
			center = hexf(c.X) + "," + hexf(c.Y)
		}
		d, dok := a.Distance(b)
		probes := "--"
		if lo, hi, ok := b.MinMaxXYs(); ok {
			probes = b01(a.Contains(lo)) + b01(a.Contains(hi))
		}
		fields := []string{
			fmt.Sprintf("%d", *id), "F", envStr(a), envStr(b), flags,
			hexf(a.Width()), hexf(a.Height()), hexf(a.Area()), center,
			lib.Dump(a.AsGeometry()), lib.Dump(a.BoundingDiagonal()),
			b01(a.Intersects(b)) + b01(a.Covers(b)) + b01(dok), hexf(d), envStr(a.ExpandToIncludeEnvelope(b)), probes,
		}
		*id++
		fmt.Fprintln(w, strings.Join(fields, "\t"))
	}
}

func main() {
	a := lib.ParseArgs()
	w, done := a.Output()
	defer done()
	root := lib.NewRng(a.Seed)
	id := 0
	classes := map[string]int{}
	var kinds [7]int
	var cts [4]int
	empties := 0
	thorough := a.Tier == "thorough"
	lPair, lTriple, lUnary := 4, 2, 5
	if thorough {
		lPair, lTriple, lUnary = 6, 3, 8
	}
	// n scales the random streams; the exhaustive streams are sized by the tier
	genGeometries(w, root.Fork(), a.N, &id, classes, &kinds, &cts, &empties)
	nu := genUnary(w, lUnary, &id)
	np := genPairs(w, lPair, &id)
	nt := genTriples(w, lTriple, &id)
	genNew(w, root.Fork(), a.N/4, &id)
	genContainsFloat(w, root.Fork(), a.N/2, &id)
	genKeys(w, root.Fork(), a.N/4, &id)
	unionKinds := map[string]int{}
	genUnion(w, root.Fork(), a.N/5, &id, unionKinds)
	genFloatBoxes(w, root.Fork(), a.N, &id)
	stats := map[string]interface{}{
		"geometry_classes": classes, "geometry_kinds_P_L_Y_MP_ML_MY_GC": kinds, "geometry_ctypes": cts,
		"empty_geometries": empties,
		"unary_envelopes":  nu, "unary_lattice": lUnary, "pairs": np, "pair_lattice": lPair,
		"triples": nt, "triple_lattice": lTriple, "new_envelope_lists": a.N / 4,
		"float_contains": a.N / 2, "float_keys": a.N / 4, "union_cases": a.N / 5, "union_kind_pairs": unionKinds,
		"float_boxes": a.N, "float_box_scales": scales, "long_sequence_lengths": "16..70",
	}
	js, _ := json.Marshal(stats)
	fmt.Fprintf(w, "#GEN\t%s\n", js)
}
