// Command c13 runs ConvexHull and the rotated minimum bounding rectangles of the implementation
// on generated lattice geometries (property C13) and prints, per case, the observations the
// model is compared against:
//
//	id class input hull variant hull(variant) hull(hull) mbrArea mbrWidth valid scaleExp
//
// Classes "scaled" and "rescaled" run the implementation on the printed lattice input multiplied
// by 2^scaleExp and print its outputs divided by 2^scaleExp (both exact): the case is judged on
// the pre-image.
//
// Geometries are printed in the prefix token format of lib.Dump with decimal ordinates ("Z dump");
// rectangles as "R" + ten 16-digit hex float64 bit patterns, degenerate results as "G" + Z dump.
package main

import (
	"encoding/json"
	"flag"
	"fmt"
	"math"
	"strconv"
	"strings"
	"time"

	"github.com/peterstace/simplefeatures/geom"
	"verifharness/lib"
)

// ---------------------------------------------------------------- Z dump (accessor based)

func fz(f float64) string { return strconv.FormatFloat(f, 'f', -1, 64) }

// unscale: classes "scaled" and "rescaled" run the implementation on the lattice case multiplied by 2^unscale
// (exact in binary floating point, and commuting exactly with every operation of the hull and
// orientation code); X/Y of every OUTPUT are divided by 2^unscale again (exact) before they are
// printed, so the observations must equal those of the lattice case itself.
var unscale int

// -scaleexp k (probing aid): every ordinary lattice case is run scaled by 2^k, without translation.
var forceScale = flag.Int("scaleexp", 0, "force the exponent of class scaled for every lattice case (0: random)")

func fzxy(f float64) string { return fz(math.Ldexp(f, -unscale)) }

// scaleNode is a deep copy with X and Y multiplied by 2^e.
func scaleNode(n *lib.Node, e int) *lib.Node {
	m := &lib.Node{Kind: n.Kind, CT: n.CT, Full: n.Full}
	for _, c := range n.C {
		m.C = append(m.C, [4]float64{math.Ldexp(c[0], e), math.Ldexp(c[1], e), c[2], c[3]})
	}
	for _, k := range n.Kids {
		m.Kids = append(m.Kids, scaleNode(k, e))
	}
	return m
}

func zCoords(sb *strings.Builder, c geom.Coordinates, ct geom.CoordinatesType) {
	sb.WriteString(fzxy(c.X) + " " + fzxy(c.Y) + " ")
	if ct.Is3D() {
		sb.WriteString(fz(c.Z) + " ")
	}
	if ct.IsMeasured() {
		sb.WriteString(fz(c.M) + " ")
	}
}

func zPoint(sb *strings.Builder, p geom.Point) {
	ct := p.CoordinatesType()
	c, ok := p.Coordinates()
	if !ok {
		fmt.Fprintf(sb, "P %d 0 ", int(ct))
		return
	}
	fmt.Fprintf(sb, "P %d 1 ", int(ct))
	zCoords(sb, c, ct)
}

func zLine(sb *strings.Builder, l geom.LineString) {
	ct := l.CoordinatesType()
	seq := l.Coordinates()
	n := seq.Length()
	fmt.Fprintf(sb, "L %d %d ", int(ct), n)
	for i := 0; i < n; i++ {
		zCoords(sb, seq.Get(i), ct)
	}
}

func zPoly(sb *strings.Builder, p geom.Polygon) {
	rings := p.DumpRings()
	fmt.Fprintf(sb, "Y %d %d ", int(p.CoordinatesType()), len(rings))
	for _, r := range rings {
		zLine(sb, r)
	}
}

func zGeom(sb *strings.Builder, g geom.Geometry) {
	switch g.Type() {
	case geom.TypePoint:
		zPoint(sb, g.MustAsPoint())
	case geom.TypeLineString:
		zLine(sb, g.MustAsLineString())
	case geom.TypePolygon:
		zPoly(sb, g.MustAsPolygon())
	case geom.TypeMultiPoint:
		mp := g.MustAsMultiPoint()
		n := mp.NumPoints()
		fmt.Fprintf(sb, "MP %d %d ", int(mp.CoordinatesType()), n)
		for i := 0; i < n; i++ {
			zPoint(sb, mp.PointN(i))
		}
	case geom.TypeMultiLineString:
		ml := g.MustAsMultiLineString()
		n := ml.NumLineStrings()
		fmt.Fprintf(sb, "ML %d %d ", int(ml.CoordinatesType()), n)
		for i := 0; i < n; i++ {
			zLine(sb, ml.LineStringN(i))
		}
	case geom.TypeMultiPolygon:
		my := g.MustAsMultiPolygon()
		n := my.NumPolygons()
		fmt.Fprintf(sb, "MY %d %d ", int(my.CoordinatesType()), n)
		for i := 0; i < n; i++ {
			zPoly(sb, my.PolygonN(i))
		}
	case geom.TypeGeometryCollection:
		gc := g.MustAsGeometryCollection()
		n := gc.NumGeometries()
		fmt.Fprintf(sb, "GC %d %d ", int(gc.CoordinatesType()), n)
		for i := 0; i < n; i++ {
			zGeom(sb, gc.GeometryN(i))
		}
	default:
		sb.WriteString("UNKNOWN ")
	}
}

func zDump(g geom.Geometry) string {
	var sb strings.Builder
	zGeom(&sb, g)
	return strings.TrimSpace(sb.String())
}

// ---------------------------------------------------------------- observations

// A call of the implementation that does not return within the time limit is an observation
// ("HANG"), not a reason for the harness to hang; after a few of them the remaining calls of
// that run are skipped (the spinning goroutines cannot be stopped).
var hangs int

const hangLimit = 3

func guarded(f func() string) string {
	if hangs >= hangLimit {
		return "HANG-SKIPPED"
	}
	ch := make(chan string, 1)
	go func() {
		defer func() {
			if r := recover(); r != nil {
				ch <- "PANIC"
			}
		}()
		ch <- f()
	}()
	select {
	case s := <-ch:
		return s
	case <-time.After(3 * time.Second):
		hangs++
		return "HANG"
	}
}

func hullOf(g geom.Geometry) (out geom.Geometry, s string, ok bool) {
	s = guarded(func() string {
		out = g.ConvexHull()
		return zDump(out)
	})
	return out, s, s != "PANIC" && !strings.HasPrefix(s, "HANG")
}

func rectOf(f func(geom.Geometry) geom.Geometry, g geom.Geometry) string {
	return guarded(func() string { return rectDump(f(g)) })
}

func rectDump(out geom.Geometry) string {
	if out.IsPolygon() && !out.IsEmpty() {
		p := out.MustAsPolygon()
		seq := p.ExteriorRing().Coordinates()
		if p.NumInteriorRings() == 0 && seq.Length() == 5 && out.CoordinatesType() == geom.DimXY {
			var sb strings.Builder
			sb.WriteString("R")
			for i := 0; i < 5; i++ {
				xy := seq.GetXY(i)
				fmt.Fprintf(&sb, " %016x %016x", math.Float64bits(math.Ldexp(xy.X, -unscale)), math.Float64bits(math.Ldexp(xy.Y, -unscale)))
			}
			return sb.String()
		}
	}
	return "G " + zDump(out)
}

// ---------------------------------------------------------------- generators

type gen struct {
	r  *lib.Rng
	ct geom.CoordinatesType
}

func (g *gen) v(x, y int) [4]float64 {
	return [4]float64{float64(x), float64(y), float64(g.r.Range(-3, 3)), float64(g.r.Range(-3, 3))}
}

func (g *gen) pointNode(x, y int) *lib.Node {
	return &lib.Node{Kind: lib.KPoint, CT: g.ct, Full: true, C: [][4]float64{g.v(x, y)}}
}

func (g *gen) emptyPoint() *lib.Node { return &lib.Node{Kind: lib.KPoint, CT: g.ct} }

func (g *gen) lineNode(pts [][2]int) *lib.Node {
	n := &lib.Node{Kind: lib.KLine, CT: g.ct}
	for _, p := range pts {
		n.C = append(n.C, g.v(p[0], p[1]))
	}
	return n
}

func (g *gen) ringNode(pts [][2]int) *lib.Node {
	n := g.lineNode(pts)
	if len(n.C) > 0 {
		n.C = append(n.C, n.C[0])
	}
	return n
}

// pointCloud draws k points according to a shape that is dense in ties.
func (g *gen) pointCloud(shape string, k int) [][2]int {
	r := g.r
	pts := make([][2]int, 0, k)
	switch shape {
	case "grid": // tiny grid: many duplicates and collinear runs
		w, h := r.Range(1, 6), r.Range(1, 6)
		ox, oy := r.Range(-5, 5), r.Range(-5, 5)
		for i := 0; i < k; i++ {
			pts = append(pts, [2]int{ox + r.Intn(w+1), oy + r.Intn(h+1)})
		}
	case "single":
		x, y := r.Range(-9, 9), r.Range(-9, 9)
		for i := 0; i < k; i++ {
			pts = append(pts, [2]int{x, y})
		}
	case "collinear": // one line: horizontal, vertical, diagonal or general slope
		dirs := [][2]int{{1, 0}, {0, 1}, {1, 1}, {1, -1}, {2, 1}, {-1, 3}, {3, -2}, {0, -1}, {-1, 0}}
		d := dirs[r.Intn(len(dirs))]
		ox, oy := r.Range(-9, 9), r.Range(-9, 9)
		span := r.Range(1, 12)
		for i := 0; i < k; i++ {
			t := r.Range(-span, span)
			pts = append(pts, [2]int{ox + t*d[0], oy + t*d[1]})
		}
	case "nearcollinear": // a collinear run plus one or two points off the line
		pts = g.pointCloud("collinear", k)
		for j := r.Range(1, 2); j > 0 && len(pts) > 0; j-- {
			i := r.Intn(len(pts))
			pts[i] = [2]int{pts[i][0] + r.Range(-2, 2), pts[i][1] + r.Range(-2, 2)}
		}
	case "boxedge": // points on the boundary of a box (collinear runs on hull edges) plus interior points
		w, h := r.Range(1, 9), r.Range(1, 9)
		ox, oy := r.Range(-9, 0), r.Range(-9, 0)
		for i := 0; i < k; i++ {
			switch r.Intn(5) {
			case 0:
				pts = append(pts, [2]int{ox + r.Intn(w+1), oy})
			case 1:
				pts = append(pts, [2]int{ox + r.Intn(w+1), oy + h})
			case 2:
				pts = append(pts, [2]int{ox, oy + r.Intn(h+1)})
			case 3:
				pts = append(pts, [2]int{ox + w, oy + r.Intn(h+1)})
			default:
				pts = append(pts, [2]int{ox + r.Intn(w+1), oy + r.Intn(h+1)})
			}
		}
	case "convex": // lattice points on a parabola / two parabolas: all of them hull vertices
		m := r.Range(2, 14)
		s := 1
		if r.Bool() {
			s = -1
		}
		for i := 0; i < k; i++ {
			t := r.Range(-m, m)
			if r.Chance(1, 3) {
				pts = append(pts, [2]int{t, -s * t * t / 2})
			} else {
				pts = append(pts, [2]int{t, s*t*t - s*m*m})
			}
		}
	case "octagon": // parallel edges, antipodal ties for the calipers
		a, b := r.Range(1, 6), r.Range(1, 6)
		oct := [][2]int{{a, 0}, {a + b, 0}, {2*a + b, a}, {2*a + b, a + b}, {a + b, 2*a + b}, {a, 2*a + b}, {0, a + b}, {0, a}}
		ox, oy := r.Range(-20, 20), r.Range(-20, 20)
		for i := 0; i < k; i++ {
			p := oct[r.Intn(8)]
			if r.Chance(1, 4) {
				q := oct[r.Intn(8)]
				p = [2]int{(p[0] + q[0]) / 2, (p[1] + q[1]) / 2}
			}
			pts = append(pts, [2]int{ox + p[0], oy + p[1]})
		}
	case "bigchain":
		// Many points in strictly convex position (hull sizes random data never reaches): k is
		// ignored, the cloud has at most 200 points. Ordinates stay below 2^13, so every cross
		// product of differences is far below 2^53 and still exact in float64.
		ox, oy := r.Range(-30, 30), r.Range(-30, 30)
		var conv [][2]int
		switch r.Intn(4) {
		case 0, 1: // one long chain on a parabola (x, x(x+1)/2): 65..150 vertices; lower or upper
			n := r.Range(65, 150)
			lo := -(n / 2)
			s := 1
			if r.Chance(1, 3) {
				s = -1
			}
			for j := 0; j < n; j++ {
				x := lo + j
				conv = append(conv, [2]int{ox + x, oy + s*x*(x+1)/2})
			}
			// interior points: between the arc and its chord
			top := lo * (lo + 1) / 2
			for j := r.Range(0, 200-n); j > 0; j-- {
				x := r.Range(lo+1, lo+n-2)
				y := x * (x + 1) / 2
				pts = append(pts, [2]int{ox + x, oy + s*r.Range(y, top)})
			}
		case 2: // cubic-like arc (x, x^2 + x(x+1)(x+2)/6 for x >= 0): slopes strictly increasing
			n := r.Range(65, 110)
			for j := 0; j < n; j++ {
				if j < 32 {
					conv = append(conv, [2]int{ox + j, oy + j*j + j*(j+1)*(j+2)/6})
				} else { // continue with a parabola of larger curvature to stay below 2^13
					t := j - 31
					b := 31*31 + 31*32*33/6
					conv = append(conv, [2]int{ox + j, oy + b + 1200*t + 8*t*t})
				}
			}
		default: // both chains long: all primitive directions of a K x K box, sorted by angle
			K := r.Range(7, 8)
			type vec struct{ a, b int }
			var quad []vec
			gcd := func(a, b int) int {
				for b != 0 {
					a, b = b, a%b
				}
				return a
			}
			for a := 1; a <= K; a++ {
				for b := 1; b <= K; b++ {
					if gcd(a, b) == 1 {
						quad = append(quad, vec{a, b})
					}
				}
			}
			// sort by angle: b/a ascending
			for i := 1; i < len(quad); i++ {
				for j := i; j > 0 && quad[j].b*quad[j-1].a < quad[j-1].b*quad[j].a; j-- {
					quad[j], quad[j-1] = quad[j-1], quad[j]
				}
			}
			dirs := []vec{{1, 0}}
			dirs = append(dirs, quad...)
			all := append([]vec(nil), dirs...)
			for q := 1; q < 4; q++ { // rotate by 90 degrees three times
				for _, d := range dirs {
					v := d
					for t := 0; t < q; t++ {
						v = vec{-v.b, v.a}
					}
					all = append(all, v)
				}
			}
			// start at the bottom, shifted left by half the width, so that the polygon is centred
			x, y := ox, oy
			for _, d := range all {
				conv = append(conv, [2]int{x, y})
				x, y = x+d.a, y+d.b
			}
			w := 0
			for _, d := range dirs {
				w += d.a + d.b
			}
			for j := r.Range(0, 200-len(conv)); j > 0 && len(conv) < 200; j-- {
				pts = append(pts, [2]int{ox + r.Range(-w/8, w/8), oy + w/2 + r.Range(-w/8, w/8)})
			}
		}
		pts = append(pts, conv...)
		for j := r.Intn(8); j > 0 && len(pts) < 200; j-- { // duplicates of hull vertices
			pts = append(pts, conv[r.Intn(len(conv))])
		}
		for a := len(pts) - 1; a > 0; a-- {
			b := r.Intn(a + 1)
			pts[a], pts[b] = pts[b], pts[a]
		}
	default: // "wide": the whole admitted range
		for i := 0; i < k; i++ {
			pts = append(pts, [2]int{r.Range(-1024, 1024), r.Range(-1024, 1024)})
		}
	}
	return pts
}

var shapes = []string{"grid", "grid", "grid", "single", "collinear", "collinear", "nearcollinear", "nearcollinear", "boxedge", "boxedge", "convex", "octagon", "wide"}

func (g *gen) size() int {
	r := g.r
	switch r.Intn(10) {
	case 0:
		return r.Range(1, 3)
	case 1, 2, 3, 4:
		return r.Range(2, 12)
	case 5, 6, 7:
		return r.Range(8, 40)
	default:
		return r.Range(30, 200)
	}
}

// split cuts pts into between 1 and m consecutive chunks (possibly empty ones).
func (g *gen) split(pts [][2]int, m int) [][][2]int {
	k := g.r.Range(1, m)
	out := make([][][2]int, k)
	for _, p := range pts {
		i := g.r.Intn(k)
		out[i] = append(out[i], p)
	}
	return out
}

// typed wraps a point cloud into a geometry of the requested kind; extras tells how many
// empty members were sprinkled in.
func (g *gen) typed(kind lib.Kind, pts [][2]int, depth int) *lib.Node {
	r := g.r
	switch kind {
	case lib.KPoint:
		if len(pts) == 0 {
			return g.emptyPoint()
		}
		return g.pointNode(pts[0][0], pts[0][1])
	case lib.KLine:
		return g.lineNode(pts)
	case lib.KPoly:
		n := &lib.Node{Kind: lib.KPoly, CT: g.ct}
		if len(pts) == 0 {
			return n
		}
		// exterior ring from the cloud; holes reuse points of the cloud (then the control points
		// of the polygon and the points the hull reads are the same set), one time in eight they
		// are arbitrary: those must NOT reach the hull input (the implementation reads the
		// exterior ring only; for valid polygons that is no difference)
		n.Kids = append(n.Kids, g.ringNode(pts))
		for j := r.Intn(3); j > 0; j-- {
			if r.Chance(1, 8) {
				n.Kids = append(n.Kids, g.ringNode(g.pointCloud("wide", r.Range(3, 5))))
				continue
			}
			var h [][2]int
			for k := r.Range(3, 5); k > 0; k-- {
				h = append(h, pts[r.Intn(len(pts))])
			}
			n.Kids = append(n.Kids, g.ringNode(h))
		}
		return n
	case lib.KMPoint:
		n := &lib.Node{Kind: lib.KMPoint, CT: g.ct}
		for _, p := range pts {
			if r.Chance(1, 12) {
				n.Kids = append(n.Kids, g.emptyPoint())
			}
			n.Kids = append(n.Kids, g.pointNode(p[0], p[1]))
		}
		return n
	case lib.KMLine:
		n := &lib.Node{Kind: lib.KMLine, CT: g.ct}
		for _, c := range g.split(pts, 4) {
			n.Kids = append(n.Kids, g.lineNode(c))
		}
		return n
	case lib.KMPoly:
		n := &lib.Node{Kind: lib.KMPoly, CT: g.ct}
		for _, c := range g.split(pts, 3) {
			n.Kids = append(n.Kids, g.typed(lib.KPoly, c, depth))
		}
		return n
	default:
		n := &lib.Node{Kind: lib.KColl, CT: g.ct}
		for _, c := range g.split(pts, 4) {
			k := lib.Kind(r.Intn(7))
			if depth >= 3 && k == lib.KColl {
				k = lib.KMPoint
			}
			n.Kids = append(n.Kids, g.typed(k, c, depth+1))
		}
		return n
	}
}

// variant rebuilds a node with the same point SET in the places the hull reads: members and
// vertices shuffled/reversed/rotated/duplicated; rings stay closed and the exterior ring stays first.
func (g *gen) variant(n *lib.Node, isRing bool) *lib.Node {
	r := g.r
	m := &lib.Node{Kind: n.Kind, CT: n.CT, Full: n.Full}
	switch n.Kind {
	case lib.KPoint:
		m.C = append(m.C, n.C...)
	case lib.KLine:
		c := append([][4]float64(nil), n.C...)
		if isRing && len(c) > 1 {
			c = c[:len(c)-1]
		}
		switch r.Intn(4) {
		case 0: // reverse
			for i, j := 0, len(c)-1; i < j; i, j = i+1, j-1 {
				c[i], c[j] = c[j], c[i]
			}
		case 1: // rotate
			if len(c) > 0 {
				k := r.Intn(len(c))
				c = append(append([][4]float64(nil), c[k:]...), c[:k]...)
			}
		case 2: // shuffle
			for i := len(c) - 1; i > 0; i-- {
				j := r.Intn(i + 1)
				c[i], c[j] = c[j], c[i]
			}
		default: // duplicate some vertices
			var d [][4]float64
			for _, v := range c {
				d = append(d, v)
				if r.Chance(1, 3) {
					d = append(d, v)
				}
			}
			c = d
		}
		if isRing && len(c) > 0 {
			c = append(c, c[0])
		}
		m.C = c
	case lib.KPoly:
		for i, k := range n.Kids {
			m.Kids = append(m.Kids, g.variant(k, true))
			_ = i
		}
		// holes may be permuted, the exterior ring stays first
		if len(m.Kids) > 2 && r.Bool() {
			m.Kids[1], m.Kids[len(m.Kids)-1] = m.Kids[len(m.Kids)-1], m.Kids[1]
		}
	default:
		for _, k := range n.Kids {
			m.Kids = append(m.Kids, g.variant(k, false))
			if r.Chance(1, 6) && (n.Kind == lib.KMPoint || n.Kind == lib.KColl) {
				m.Kids = append(m.Kids, g.variant(k, false)) // duplicate a member
			}
		}
		for i := len(m.Kids) - 1; i > 0; i-- {
			j := r.Intn(i + 1)
			m.Kids[i], m.Kids[j] = m.Kids[j], m.Kids[i]
		}
	}
	return m
}

// floatCase prints one case of class "float": a MultiPoint of random doubles, its hull, the hull
// of a shuffled/duplicated variant, the hull of the hull and both rectangles, all as bit patterns.
func floatCase(w interface{ WriteString(string) (int, error) }, r *lib.Rng, i int) {
	k := r.Range(3, 40)
	scale := []float64{1, 1000, 1e-3, 1e6}[r.Intn(4)]
	mk := func() float64 { return (float64(r.U64()>>11)/float64(uint64(1)<<53)*2 - 1) * scale }
	n := &lib.Node{Kind: lib.KMPoint, CT: geom.DimXY}
	for j := 0; j < k; j++ {
		n.Kids = append(n.Kids, &lib.Node{Kind: lib.KPoint, CT: geom.DimXY, Full: true, C: [][4]float64{{mk(), mk(), 0, 0}}})
	}
	v := &lib.Node{Kind: lib.KMPoint, CT: geom.DimXY}
	for _, kid := range n.Kids {
		v.Kids = append(v.Kids, kid)
		if r.Chance(1, 5) {
			v.Kids = append(v.Kids, kid)
		}
	}
	for a := len(v.Kids) - 1; a > 0; a-- {
		b := r.Intn(a + 1)
		v.Kids[a], v.Kids[b] = v.Kids[b], v.Kids[a]
	}
	in, vin := n.Build(), v.Build()
	fdump := func(g geom.Geometry) (geom.Geometry, string, bool) {
		var out geom.Geometry
		s := guarded(func() string { out = g.ConvexHull(); return lib.Dump(out) })
		return out, s, s != "PANIC" && !strings.HasPrefix(s, "HANG")
	}
	hg, hs, ok := fdump(in)
	_, vhs, _ := fdump(vin)
	hhs, valid := "PANIC", "-"
	if ok {
		_, hhs, _ = fdump(hg)
		valid = "0"
		if hg.Validate() == nil {
			valid = "1"
		}
	}
	rect := func(f func(geom.Geometry) geom.Geometry) string {
		return guarded(func() string {
			s := rectDump(f(in))
			if strings.HasPrefix(s, "G ") {
				return "G -"
			}
			return s
		})
	}
	fields := []string{strconv.Itoa(i), "float", lib.Dump(in), hs, lib.Dump(vin), vhs, hhs,
		rect(geom.RotatedMinimumAreaBoundingRectangle), rect(geom.RotatedMinimumWidthBoundingRectangle), valid}
	w.WriteString(strings.Join(fields, "\t") + "\n")
}

func main() {
	a := lib.ParseArgs()
	w, done := a.Output()
	defer done()
	root := lib.NewRng(a.Seed)
	classes := map[string]int{}
	kinds := map[string]int{}
	shapesHist := map[string]int{}
	sizes := map[string]int{}
	hullKinds := map[string]int{}
	scaleHist := map[string]int{}
	rescaledHist := map[string]int{}
	for i := 0; i < a.N; i++ {
		r := root.Fork()
		g := &gen{r: r, ct: geom.CoordinatesType(0)}
		if r.Chance(1, 4) {
			g.ct = geom.CoordinatesType(r.Intn(4))
		}
		var n *lib.Node
		class := ""
		scaleExp := 0
		switch {
		case i%16 == 7:
			// general-position doubles: covering claims within tolerance (exact Q evaluation in the driver)
			floatCase(w, r, i)
			classes["float"]++
			continue
		case i%40 == 39:
			// a polygon whose only ring is empty: not IsEmpty(), but no control points (F90)
			class = "emptyring"
			n = &lib.Node{Kind: lib.KPoly, CT: g.ct, Kids: []*lib.Node{g.lineNode(nil)}}
			switch r.Intn(3) {
			case 1:
				n = &lib.Node{Kind: lib.KMPoly, CT: g.ct, Kids: []*lib.Node{n}}
			case 2:
				n = &lib.Node{Kind: lib.KColl, CT: g.ct, Kids: []*lib.Node{n, g.emptyPoint()}}
			}
		case i%50 == 12:
			// hulls with 65..180 vertices, long single chains: no random cloud gets there
			class = "bigchain"
			pts := g.pointCloud("bigchain", 0)
			kinds := []lib.Kind{lib.KMPoint, lib.KMPoint, lib.KLine, lib.KMLine, lib.KPoly, lib.KColl}
			n = g.typed(kinds[r.Intn(len(kinds))], pts, 0)
			shapesHist["bigchain"]++
			sizes["41-200"]++
		case i%30 == 17:
			// a Polygon (sometimes wrapped) whose exterior ring is a strictly convex counter-clockwise
			// polygon with ONE extra vertex strictly inside it, i.e. one reflex vertex, placed at the ring's
			// start/closing position (2 of 3), elsewhere, and in both windings: every consecutive triple that
			// does not wrap around the closing vertex turns left, so only a test of the wrap-around turn
			// (or a real hull computation) sees that the ring is not convex
			class = "reflexstart"
			a, b := r.Range(1, 6), r.Range(1, 6)
			oct := [][2]int{{a, 0}, {a + b, 0}, {2*a + b, a}, {2*a + b, a + b}, {a + b, 2*a + b}, {a, 2*a + b}, {0, a + b}, {0, a}}
			ox, oy := r.Range(-20, 20), r.Range(-20, 20)
			var cv [][2]int
			for j, p := range oct {
				if j%2 == 0 || r.Chance(3, 4) { // at least the four even corners: the centre stays strictly inside
					cv = append(cv, [2]int{2*p[0] + ox, 2*p[1] + oy})
				}
			}
			c := [2]int{2*a + b + ox + r.Range(-1, 1)*(a/2), 2*a + b + oy + r.Range(-1, 1)*(a/2)}
			rot := r.Intn(len(cv))
			cv = append(append([][2]int{}, cv[rot:]...), cv[:rot]...)
			pts := append([][2]int{c}, cv...)
			if r.Chance(1, 3) {
				k := r.Intn(len(pts))
				pts = append(append([][2]int{}, pts[k:]...), pts[:k]...)
			}
			if r.Chance(1, 3) {
				for x, y := 0, len(pts)-1; x < y; x, y = x+1, y-1 {
					pts[x], pts[y] = pts[y], pts[x]
				}
			}
			n = &lib.Node{Kind: lib.KPoly, CT: g.ct, Kids: []*lib.Node{g.ringNode(pts)}}
			switch r.Intn(5) {
			case 0:
				n = &lib.Node{Kind: lib.KMPoly, CT: g.ct, Kids: []*lib.Node{n}}
			case 1:
				n = &lib.Node{Kind: lib.KColl, CT: g.ct, Kids: []*lib.Node{n}}
			}
			shapesHist["reflexstart"]++
			sizes["4-12"]++
		case i%20 == 19:
			class = "empty"
			n = g.typed(lib.Kind(r.Intn(7)), nil, 0)
		case i%25 == 3:
			// first hull edge not the optimal base, scaled by 2^k over the whole exact range (rescaled.go)
			class = "rescaled"
			pts, shape, fa, fw, df := g.rescaledCloud()
			kinds := []lib.Kind{lib.KMPoint, lib.KMPoint, lib.KMPoint, lib.KLine, lib.KMLine, lib.KPoly, lib.KMPoly}
			n = g.typed(kinds[r.Intn(len(kinds))], pts, 0)
			scaleExp = g.rescaledExp(n)
			rescaledHist["shape_"+shape]++
			if fa {
				rescaledHist["first_edge_not_area_optimal"]++
			}
			if fw {
				rescaledHist["first_edge_not_width_optimal"]++
			}
			if df {
				rescaledHist["no_edge_optimal_for_both"]++
			}
			b := (scaleExp+600)/100*100 - 600 // floor to a multiple of 100
			rescaledHist[fmt.Sprintf("exp_%d..%d", b, b+99)]++
		default:
			shape := shapes[r.Intn(len(shapes))]
			k := g.size()
			pts := g.pointCloud(shape, k)
			kind := lib.KMPoint
			if i%2 == 1 {
				kind = lib.Kind(r.Intn(7))
			}
			class = shape
			if *forceScale != 0 {
				class = "scaled"
				scaleExp = *forceScale
			} else if i%6 == 4 {
				// the same kind of lattice case, run at another scale: 2^-60..2^-10 or 2^1..2^40,
				// half of them first translated by a multiple of 2^10 (up to 2^20)
				class = "scaled"
				if r.Bool() {
					scaleExp = -r.Range(10, 60)
				} else {
					scaleExp = r.Range(1, 40)
				}
				if r.Bool() {
					ox, oy := r.Range(-1024, 1024)*1024, r.Range(-1024, 1024)*1024
					for j := range pts {
						pts[j] = [2]int{pts[j][0] + ox, pts[j][1] + oy}
					}
				}
				scaleHist[fmt.Sprintf("2^%d..", scaleExp/10*10)]++
			}
			shapesHist[shape]++
			n = g.typed(kind, pts, 0)
			switch {
			case k <= 3:
				sizes["1-3"]++
			case k <= 12:
				sizes["4-12"]++
			case k <= 40:
				sizes["13-40"]++
			default:
				sizes["41-200"]++
			}
		}
		classes[class]++
		kinds[lib.KindTag[n.Kind]]++
		in := n.Build()
		vn := g.variant(n, false)
		vin := vn.Build()
		inDump, vinDump := zDump(in), zDump(vin) // the lattice case
		if scaleExp != 0 {
			in, vin = scaleNode(n, scaleExp).Build(), scaleNode(vn, scaleExp).Build()
		}
		unscale = scaleExp
		hg, hs, ok := hullOf(in)
		_, vhs, _ := hullOf(vin)
		hhs := "PANIC"
		valid := "-"
		if ok {
			_, hhs, _ = hullOf(hg)
			if hg.Validate() == nil {
				valid = "1"
			} else {
				valid = "0"
			}
			hullKinds[hg.Type().String()]++
		}
		fields := []string{
			strconv.Itoa(i), class, inDump, hs, vinDump, vhs, hhs,
			rectOf(geom.RotatedMinimumAreaBoundingRectangle, in),
			rectOf(geom.RotatedMinimumWidthBoundingRectangle, in),
			valid,
			strconv.Itoa(scaleExp), // the implementation saw the input multiplied by 2^this (0: as printed)
		}
		unscale = 0
		fmt.Fprintln(w, strings.Join(fields, "\t"))
	}
	js, _ := json.Marshal(map[string]interface{}{"classes": classes, "kinds": kinds, "shapes": shapesHist,
		"cloud_sizes": sizes, "hull_types": hullKinds, "scaled_by": scaleHist, "rescaled": rescaledHist})
	fmt.Fprintf(w, "#GEN\t%s\n", js)
}
