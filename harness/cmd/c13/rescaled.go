package main

// Class "rescaled" (property C13): small lattice configurations chosen so that the FIRST edge of
// the hull ring (the edge leaving the lexicographically smallest vertex counter-clockwise, i = 0
// in findMBR) is NOT the optimal base edge of the rotated rectangle - for the area metric, for the
// width metric, and with cases where no edge is optimal for both - run through the implementation
// multiplied by an exact power of two 2^k with k spread over the WHOLE range in which the
// unchanged implementation is exact (see rsExpRange), and judged on the pre-image: the outputs are
// divided by 2^k again (exact) and compared with the lattice case by the driver (hull exactly;
// rectangle corners within 1e-9*magnitude of a candidate of the exact Q model whose metric is
// minimal; covering, collinear side and minimal metric evaluated on the returned corners).
//
// Multiplying every ordinate by 2^k changes no rounding anywhere in ConvexHull or findMBR as long
// as no intermediate overflows or underflows: every quantity there is homogeneous of degree 1
// (ordinates, differences, projections) or 2 (cross and dot products, the metrics) or 0 (the ratio
// in XY.proj).  A metric of another degree (say a squared area, degree 4) leaves that range much
// earlier and then no longer orders the candidates.

import (
	"math/bits"

	"verifharness/lib"
)

// rsHull is the convex hull (strict: no collinear vertices) of a small integer point set,
// counter-clockwise from the lexicographically smallest point, open (first vertex not repeated).
// Generator-side only: it selects configurations, it does not judge anything.
func rsHull(in [][2]int) [][2]int {
	pts := append([][2]int(nil), in...)
	less := func(a, b [2]int) bool { return a[0] < b[0] || (a[0] == b[0] && a[1] < b[1]) }
	for i := 1; i < len(pts); i++ {
		for j := i; j > 0 && less(pts[j], pts[j-1]); j-- {
			pts[j], pts[j-1] = pts[j-1], pts[j]
		}
	}
	var u [][2]int
	for i, p := range pts {
		if i == 0 || p != pts[i-1] {
			u = append(u, p)
		}
	}
	if len(u) < 3 {
		return u
	}
	cross := func(a, b, c [2]int) int { return (b[0]-a[0])*(c[1]-b[1]) - (b[1]-a[1])*(c[0]-b[0]) }
	build := func(seq [][2]int) [][2]int {
		var st [][2]int
		for _, p := range seq {
			for len(st) >= 2 && cross(st[len(st)-2], st[len(st)-1], p) <= 0 {
				st = st[:len(st)-1]
			}
			st = append(st, p)
		}
		return st
	}
	lower := build(u)
	rev := make([][2]int, len(u))
	for i := range u {
		rev[len(u)-1-i] = u[i]
	}
	upper := build(rev)
	h := append(lower[:len(lower)-1:len(lower)-1], upper[:len(upper)-1]...)
	return h
}

// rsClassify: the exact metrics of the edge-aligned rectangles of the hull h (as fractions num/den),
// and from them: fa / fw = the first edge's area / squared width exceeds the minimum by more than
// 1 %; df = no edge is within 1 % of the minimum for both metrics.
func rsClassify(h [][2]int) (fa, fw, df bool) {
	n := len(h)
	if n < 3 {
		return false, false, false
	}
	type frac struct{ n, d int64 }
	area := make([]frac, n)
	width := make([]frac, n)
	for i := 0; i < n; i++ {
		a, b := h[i], h[(i+1)%n]
		dx, dy := int64(b[0]-a[0]), int64(b[1]-a[1])
		var tmin, tmax, hmax int64
		for _, p := range h {
			px, py := int64(p[0]-a[0]), int64(p[1]-a[1])
			t := px*dx + py*dy
			c := dx*py - dy*px
			if t < tmin {
				tmin = t
			}
			if t > tmax {
				tmax = t
			}
			if c > hmax {
				hmax = c
			}
		}
		l := dx*dx + dy*dy
		t := tmax - tmin
		area[i] = frac{t * hmax, l}
		w := t
		if hmax < w {
			w = hmax
		}
		width[i] = frac{w * w, l}
	}
	// x > (1+1/100) y
	more := func(x, y frac) bool { return 100*x.n*y.d > 101*y.n*x.d }
	lessEq := func(x, y frac) bool { return x.n*y.d <= y.n*x.d }
	minOf := func(m []frac) frac {
		b := m[0]
		for _, x := range m[1:] {
			if !lessEq(b, x) {
				b = x
			}
		}
		return b
	}
	ma, mw := minOf(area), minOf(width)
	fa, fw = more(area[0], ma), more(width[0], mw)
	df = true
	for i := 0; i < n; i++ {
		if !more(area[i], ma) && !more(width[i], mw) {
			df = false
		}
	}
	return fa, fw, df
}

// rsShape draws the extreme points of one configuration (before the lattice symmetry).
func (g *gen) rsShape() ([][2]int, string) {
	r := g.r
	var pts [][2]int
	switch r.Intn(6) {
	case 0: // a long slab with a short slanted tip at one or both ends
		l, h := r.Range(8, 40), r.Range(2, 6)
		pts = [][2]int{{0, 0}, {l, 0}, {l, h}, {0, h}, {-r.Range(1, 3), r.Range(1, h-1)}}
		if r.Bool() {
			pts = append(pts, [2]int{l + r.Range(1, 3), r.Range(1, h-1)})
		}
		for j := r.Intn(4); j > 0; j-- { // points on the long sides
			pts = append(pts, [2]int{r.Range(1, l-1), h * r.Intn(2)})
		}
		return pts, "tipslab"
	case 1: // a sheared parallelogram, optionally with a corner cut or a tip
		u := [2]int{r.Range(6, 30), r.Range(-6, 6)}
		v := [2]int{r.Range(-5, 5), r.Range(1, 7)}
		pts = [][2]int{{0, 0}, u, {u[0] + v[0], u[1] + v[1]}, v}
		if r.Bool() {
			pts = append(pts, [2]int{u[0] + r.Range(1, 3), u[1] + r.Range(0, 2)})
		}
		return pts, "sheared"
	case 2: // random points in a flat box
		w, h := r.Range(4, 40), r.Range(3, 14)
		for j := r.Range(4, 9); j > 0; j-- {
			pts = append(pts, [2]int{r.Intn(w + 1), r.Intn(h + 1)})
		}
		return pts, "flatbox"
	case 3: // a triangle or a kite
		pts = [][2]int{{0, 0}, {r.Range(5, 40), r.Range(-4, 4)}, {r.Range(0, 30), r.Range(2, 12)}}
		if r.Bool() {
			pts = append(pts, [2]int{r.Range(0, 30), -r.Range(1, 9)})
		}
		return pts, "kite"
	case 4: // lattice points near a tilted ellipse: many edges, many candidates
		a, b := r.Range(10, 40), r.Range(3, 12)
		// direction of the long axis (p, q), not normalised: x = (p*s - q*t)/n, y = (q*s + p*t)/n
		p, q := r.Range(1, 6), r.Range(-4, 6)
		nn := 1
		for nn*nn < p*p+q*q {
			nn++
		}
		// points of the ellipse at rational parameters: (a(1-m^2)/(1+m^2), b 2m/(1+m^2))
		for _, m := range [][2]int{{0, 1}, {1, 4}, {1, 2}, {3, 4}, {1, 1}, {3, 2}, {2, 1}, {4, 1}} {
			den := m[1]*m[1] + m[0]*m[0]
			s0, t0 := a*(m[1]*m[1]-m[0]*m[0])/den, b*2*m[0]*m[1]/den
			for _, sg := range [][2]int{{1, 1}, {1, -1}, {-1, 1}, {-1, -1}} {
				s, t := sg[0]*s0, sg[1]*t0
				if r.Chance(3, 4) {
					pts = append(pts, [2]int{(p*s - q*t) / nn, (q*s + p*t) / nn})
				}
			}
		}
		pts = append(pts, [2]int{0, 0})
		return pts, "ellipse"
	default: // a regular-ish polygon with one long flat side: trapezoid / house
		w, h := r.Range(10, 40), r.Range(2, 8)
		c := r.Range(1, w/2-1)
		pts = [][2]int{{0, 0}, {w, 0}, {w - c, h}, {r.Range(1, c), h}}
		if r.Bool() {
			pts = append(pts, [2]int{w / 2, h + r.Range(1, 3)})
		}
		return pts, "trapezoid"
	}
}

// rescaledCloud returns the point cloud of one case of class "rescaled", the shape name, and what
// the exact classification of its hull says (fa, fw, df as in rsClassify).
func (g *gen) rescaledCloud() (pts [][2]int, shape string, fa, fw, df bool) {
	r := g.r
	// what this case is to exercise
	wantA, wantW, wantD := true, true, false
	switch r.Intn(20) {
	case 0:
		wantW = false
	case 1:
		wantA = false
	case 2, 3, 4, 5, 6, 7, 8:
		wantD = true
	}
	for try := 0; try < 60; try++ {
		var ext [][2]int
		ext, shape = g.rsShape()
		// one of the 8 lattice symmetries, then a small translation: moves the start vertex around
		sym := r.Intn(8)
		ox, oy := r.Range(-6, 6), r.Range(-6, 6)
		pts = pts[:0]
		for _, p := range ext {
			x, y := p[0], p[1]
			if sym&1 != 0 {
				x = -x
			}
			if sym&2 != 0 {
				y = -y
			}
			if sym&4 != 0 {
				x, y = y, x
			}
			pts = append(pts, [2]int{x + ox, y + oy})
		}
		h := rsHull(pts)
		fa, fw, df = rsClassify(h)
		if len(h) >= 3 && (fa || !wantA) && (fw || !wantW) && (df || !wantD) {
			// interior points (integer midpoints of hull vertices and of those), duplicates, shuffle:
			// the hull, and with it the classification, is unchanged unless a truncated midpoint
			// falls outside, so classify the final cloud again
			n0 := len(pts)
			for j := r.Intn(7); j > 0; j-- {
				a, b := pts[r.Intn(len(pts))], h[r.Intn(len(h))]
				pts = append(pts, [2]int{(a[0] + b[0]) / 2, (a[1] + b[1]) / 2})
			}
			for j := r.Intn(4); j > 0; j-- {
				pts = append(pts, pts[r.Intn(n0)])
			}
			for a := len(pts) - 1; a > 0; a-- {
				b := r.Intn(a + 1)
				pts[a], pts[b] = pts[b], pts[a]
			}
			fa2, fw2, df2 := rsClassify(rsHull(pts))
			if fa2 == fa && fw2 == fw && df2 == df {
				return pts, shape, fa, fw, df
			}
			pts = pts[:n0]
			return pts, shape, fa, fw, df
		}
	}
	return pts, shape, fa, fw, df
}

// rsMaxAbs is the largest |X| or |Y| stored anywhere in the node (holes that the hull does not read
// included: they are scaled as well and pass through the constructors).
func rsMaxAbs(n *lib.Node) float64 {
	m := 0.0
	for _, c := range n.C {
		for _, v := range c[:2] {
			if v < 0 {
				v = -v
			}
			if v > m {
				m = v
			}
		}
	}
	for _, k := range n.Kids {
		if v := rsMaxAbs(k); v > m {
			m = v
		}
	}
	return m
}

// rsExpRange is the range of exponents k for which the unchanged implementation handles a lattice
// configuration with ordinates |c| <= maxAbs multiplied by 2^k exactly as it handles the
// configuration itself (same roundings, so the outputs divided by 2^k are bit for bit the same).
//
// Upper end: with e = bitlen(2*maxAbs) every difference of two scaled ordinates is below 2^(e+k)
// and every span of a candidate rectangle below 2^(e+k+1), so every product of two of them is
// below 2^(2e+2k+2) and every sum or difference of two such products below 2^(2e+2k+3): finite
// for k <= 510-e.  Five exponents are left unused: k <= 505-e.
// Lower end: the cross and dot products of ordinate differences are integers times 2^(2k), exact
// (as subnormals) down to k = -537.  The metrics, however, are products of ROUNDED spans (53
// significant bits) and keep their precision only while they are normal numbers, i.e. above
// 2^-1022; they are at least about 2^(2k-3) for a lattice polygon, so k >= -500 leaves a margin.
// (Between -537 and -500 the metric is computed with fewer and fewer bits and candidates whose
// metrics differ by less than that may be ordered either way - not a violation of the property,
// which speaks of rounding, but not judgeable with the 1e-9 tolerance of the driver.)
//
// Measured on the unchanged library with cmd/c13probe (MultiPoints of |c| <= 40, 200 random
// configurations, hull and both rectangles compared bit for bit with those of k = 0): identical for
// -537 <= k <= 505.  Outside: for k <= -538 ConvexHull starts to drop control points (cross
// products underflow to 0: "collinear") or panics, for k >= 507 it panics or returns a wrong ring
// (Inf - Inf = NaN: "collinear"); the rectangles have NaN corners from k = 506, and
// findMBR does not return at all (caliper.update never sees d1 < d0 when all dot products are
// +Inf, or all 0) for some configurations at k >= 507 and k <= -542.
func rsExpRange(maxAbs float64) (lo, hi int) {
	e := bits.Len(uint(2 * maxAbs))
	return -500, 505 - e
}

// rescaledExp draws the exponent: 3 in 10 within 12 of an end of the range, else uniform.
func (g *gen) rescaledExp(n *lib.Node) int {
	lo, hi := rsExpRange(rsMaxAbs(n))
	switch g.r.Intn(10) {
	case 0, 1:
		return hi - g.r.Intn(12)
	case 2:
		return lo + g.r.Intn(12)
	default:
		return g.r.Range(lo, hi)
	}
}
