// Command c13probe is a probing aid for property C13 (not part of the check): it establishes for
// which exponents k ConvexHull and RotatedMinimum{Area,Width}BoundingRectangle of an integer
// configuration multiplied by 2^k return, after dividing 2^k out again, bit for bit what they
// return for the configuration itself - the range class "rescaled" of cmd/c13 draws from.
//
//	c13probe -lo -545 -hi 512 [-maxc 40] [-nconf 200]      one line per k: how many configurations differ / hang / panic
//	c13probe -k 507 -pts "0,0 40,0 40,2 0,2 -2,1"          the three results for one configuration at one k
//
// A call that does not return within 2 s counts as a hang (its goroutine keeps spinning); after
// 24 hangs the remaining calls are reported as skipped.
package main

import (
	"flag"
	"fmt"
	"math"
	"strings"
	"time"

	"github.com/peterstace/simplefeatures/geom"
	"verifharness/lib"
)

func multiPoint(base [][2]float64, k int) geom.Geometry {
	var pts []geom.Point
	for _, b := range base {
		pts = append(pts, geom.XY{X: math.Ldexp(b[0], k), Y: math.Ldexp(b[1], k)}.AsPoint())
	}
	return geom.NewMultiPoint(pts).AsGeometry()
}

var hangs int

func guarded(f func() string) string {
	if hangs >= 24 {
		return "SKIPPED"
	}
	ch := make(chan string, 1)
	go func() {
		defer func() {
			if r := recover(); r != nil {
				ch <- fmt.Sprint("PANIC ", r)
			}
		}()
		ch <- f()
	}()
	select {
	case s := <-ch:
		return s
	case <-time.After(2 * time.Second):
		hangs++
		return "HANG"
	}
}

func unscaled(g geom.Geometry, k int) string {
	return g.TransformXY(func(xy geom.XY) geom.XY {
		return geom.XY{X: math.Ldexp(xy.X, -k), Y: math.Ldexp(xy.Y, -k)}
	}).AsText()
}

type fn struct {
	name string
	f    func(geom.Geometry) geom.Geometry
}

var fns = []fn{
	{"ConvexHull", geom.Geometry.ConvexHull},
	{"MinArea", geom.RotatedMinimumAreaBoundingRectangle},
	{"MinWidth", geom.RotatedMinimumWidthBoundingRectangle},
}

func main() {
	lo := flag.Int("lo", -545, "first exponent")
	hi := flag.Int("hi", 512, "last exponent")
	maxc := flag.Int("maxc", 40, "ordinates of the random configurations are in -maxc..maxc")
	nconf := flag.Int("nconf", 200, "number of random configurations")
	one := flag.Int("k", 0, "with -pts: the exponent")
	ptsArg := flag.String("pts", "", "one configuration \"x,y x,y ...\" (integers)")
	show := flag.Bool("show", false, "print the first hanging and the first otherwise differing configuration per k and function")
	flag.Parse()

	if *ptsArg != "" {
		var c [][2]float64
		for _, t := range strings.Fields(*ptsArg) {
			var x, y float64
			if _, err := fmt.Sscanf(t, "%g,%g", &x, &y); err != nil {
				panic(err)
			}
			c = append(c, [2]float64{x, y})
		}
		fmt.Printf("configuration %v multiplied by 2^%d; results shown divided by 2^%d; reference: k = 0\n", c, *one, *one)
		for _, f := range fns {
			fmt.Printf("  %-10s k=%d: %s\n", f.name, *one, guarded(func() string { return unscaled(f.f(multiPoint(c, *one)), *one) }))
			fmt.Printf("  %-10s k=0: %s\n", f.name, unscaled(f.f(multiPoint(c, 0)), 0))
		}
		return
	}

	rnd := lib.NewRng(7)
	confs := [][][2]float64{{{0, 0}, {40, 0}, {40, 2}, {0, 2}, {-2, 1}, {17, 1}, {40, 0}, {5, 2}}}
	for i := 0; i < *nconf; i++ {
		var c [][2]float64
		for j := rnd.Range(3, 14); j > 0; j-- {
			c = append(c, [2]float64{float64(rnd.Range(-*maxc, *maxc)), float64(rnd.Range(-*maxc, *maxc))})
		}
		confs = append(confs, c)
	}
	ref := map[string][]string{}
	for _, f := range fns {
		for _, c := range confs {
			ref[f.name] = append(ref[f.name], unscaled(f.f(multiPoint(c, 0)), 0))
		}
	}
	for k := *lo; k <= *hi; k++ {
		line := fmt.Sprintf("k=%d", k)
		details := ""
		for _, f := range fns {
			differ, hang, pan, skipped := 0, 0, 0, 0
			firstHang, firstDiff := "", ""
			for i, c := range confs {
				s := guarded(func() string { return unscaled(f.f(multiPoint(c, k)), k) })
				switch {
				case s == "SKIPPED":
					skipped++
					continue
				case s == "HANG":
					hang++
					if firstHang == "" {
						firstHang = fmt.Sprintf("\n    %s hangs for %v", f.name, c)
					}
				case strings.HasPrefix(s, "PANIC"):
					pan++
				}
				if s != ref[f.name][i] {
					differ++
					if firstDiff == "" && s != "HANG" {
						firstDiff = fmt.Sprintf("\n    %s of %v: %s, for k=0: %s", f.name, c, s, ref[f.name][i])
					}
				}
			}
			line += fmt.Sprintf("  %s: differ=%d (hang=%d panic=%d)", f.name, differ, hang, pan)
			if skipped > 0 {
				line += fmt.Sprintf(" skipped=%d", skipped)
			}
			if *show {
				details += firstHang + firstDiff
			}
		}
		fmt.Println(line + details)
	}
}
