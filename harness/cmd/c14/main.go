// Command c14 generates valid geometries (lattice and general-position floats), runs Area (plain,
// signed, with a per-vertex transform), Length and Centroid of the implementation on them and on
// their metamorphic variants (ring rotation, Reverse, ForceCW/CCW, member permutation, Z/M change,
// translation), and prints one case per line (property C14).
//
// Line format (tab separated):
//
//	id  class  flags  a,b,c,d,e,f,kind  group  group ...
//
// flags: comma separated (lattice, valid, rectil, float, emptyring); a..f: the integer affine
// per-vertex transform used for the WithTransform observations when kind = 0, kind 1..3 selects
// a non-linear transform ((x*x, y), (x*y, y+x), (x*x-y, x+y*y)); group = tag|dump|obs with
// obs = "A S AT ST TA TS L C addA addL disp" (space separated): Area(), Area(SignedArea),
// Area(WithTransform), Area(SignedArea,WithTransform), TransformXY(f).Area(), TransformXY(f).Area(SignedArea), Length(), Centroid()
// ("E" | "xbits:ybits" | "PANIC"), the float sums of the members' Area()/Length() and "ok" or the
// name of a concrete-type method whose result differs from the Geometry method.
// Tags: base, rot, rev, fcw, fccw, perm, zm, tr:dx:dy, sc:k (ordinates times 2^k, 515 <= |k| <= 560:
// squares of ordinates not representable), sm:k (ordinates times 2^k, 1 <= |k| <= 300: every
// intermediate of the unchanged library stays in range, so Area, Length and Centroid must be the
// exact measures of the base times 4^k, 2^k, 2^k).
package main

import (
	"encoding/json"
	"fmt"
	"math"
	"sort"
	"strings"

	"github.com/peterstace/simplefeatures/geom"
	"verifharness/lib"
)

type pt struct{ x, y float64 }

const (
	kPoint = iota
	kLine
	kPoly
	kMPoint
	kMLine
	kMPoly
	kColl
)

// gnode is the harness's own description of a geometry (XY only; Z/M are added when building).
type gnode struct {
	kind  int
	pts   []pt    // point: 0 or 1 entries; line: the vertices
	rings [][]pt  // polygon: closed rings, shell first (no rings = empty polygon)
	kids  []*gnode
}

// zmGen supplies the Z and M payload of successive vertices.
type zmGen struct {
	r *lib.Rng
}

func (z *zmGen) next() (float64, float64) {
	if z == nil || z.r == nil {
		return 0, 0
	}
	return float64(z.r.Range(-50, 50)), float64(z.r.Range(-50, 50)) / 4
}

func seqOf(ps []pt, ct geom.CoordinatesType, zm *zmGen) geom.Sequence {
	fl := make([]float64, 0, len(ps)*ct.Dimension())
	for _, p := range ps {
		z, m := zm.next()
		fl = append(fl, p.x, p.y)
		if ct.Is3D() {
			fl = append(fl, z)
		}
		if ct.IsMeasured() {
			fl = append(fl, m)
		}
	}
	return geom.NewSequence(fl, ct)
}

func pointOf(ps []pt, ct geom.CoordinatesType, zm *zmGen) geom.Point {
	if len(ps) == 0 {
		return geom.NewEmptyPoint(ct)
	}
	z, m := zm.next()
	c := geom.Coordinates{XY: geom.XY{X: ps[0].x, Y: ps[0].y}, Type: ct}
	if ct.Is3D() {
		c.Z = z
	}
	if ct.IsMeasured() {
		c.M = m
	}
	return geom.NewPoint(c)
}

func polyOf(rings [][]pt, ct geom.CoordinatesType, zm *zmGen) geom.Polygon {
	if len(rings) == 0 {
		return geom.Polygon{}.ForceCoordinatesType(ct)
	}
	ls := make([]geom.LineString, len(rings))
	for i, r := range rings {
		ls[i] = geom.NewLineString(seqOf(r, ct, zm))
	}
	return geom.NewPolygon(ls)
}

func (n *gnode) build(ct geom.CoordinatesType, zm *zmGen) geom.Geometry {
	switch n.kind {
	case kPoint:
		return pointOf(n.pts, ct, zm).AsGeometry()
	case kLine:
		return geom.NewLineString(seqOf(n.pts, ct, zm)).AsGeometry()
	case kPoly:
		return polyOf(n.rings, ct, zm).AsGeometry()
	case kMPoint:
		ps := make([]geom.Point, len(n.kids))
		for i, k := range n.kids {
			ps[i] = pointOf(k.pts, ct, zm)
		}
		return geom.NewMultiPoint(ps).ForceCoordinatesType(ct).AsGeometry()
	case kMLine:
		ls := make([]geom.LineString, len(n.kids))
		for i, k := range n.kids {
			ls[i] = geom.NewLineString(seqOf(k.pts, ct, zm))
		}
		return geom.NewMultiLineString(ls).ForceCoordinatesType(ct).AsGeometry()
	case kMPoly:
		ps := make([]geom.Polygon, len(n.kids))
		for i, k := range n.kids {
			ps[i] = polyOf(k.rings, ct, zm)
		}
		return geom.NewMultiPolygon(ps).ForceCoordinatesType(ct).AsGeometry()
	default:
		gs := make([]geom.Geometry, len(n.kids))
		for i, k := range n.kids {
			gs[i] = k.build(ct, zm)
		}
		return geom.NewGeometryCollection(gs).ForceCoordinatesType(ct).AsGeometry()
	}
}

func (n *gnode) clone() *gnode {
	c := &gnode{kind: n.kind, pts: append([]pt(nil), n.pts...)}
	for _, r := range n.rings {
		c.rings = append(c.rings, append([]pt(nil), r...))
	}
	for _, k := range n.kids {
		c.kids = append(c.kids, k.clone())
	}
	return c
}

func (n *gnode) mapPts(f func(pt) pt) {
	for i := range n.pts {
		n.pts[i] = f(n.pts[i])
	}
	for _, r := range n.rings {
		for i := range r {
			r[i] = f(r[i])
		}
	}
	for _, k := range n.kids {
		k.mapPts(f)
	}
}

// rotateRings starts every polygon ring at another vertex of the same cycle.
func (n *gnode) rotateRings(r *lib.Rng) {
	for i, ring := range n.rings {
		m := len(ring) - 1
		if m < 2 {
			continue
		}
		k := r.Range(1, m-1)
		nr := make([]pt, 0, m+1)
		for j := 0; j < m; j++ {
			nr = append(nr, ring[(j+k)%m])
		}
		nr = append(nr, nr[0])
		n.rings[i] = nr
	}
	for _, k := range n.kids {
		k.rotateRings(r)
	}
}

// permute reorders members of multi-geometries and collections and the holes of polygons.
func (n *gnode) permute(r *lib.Rng) {
	for i := len(n.kids) - 1; i > 0; i-- {
		j := r.Intn(i + 1)
		n.kids[i], n.kids[j] = n.kids[j], n.kids[i]
	}
	for i := len(n.rings) - 1; i > 1; i-- {
		j := 1 + r.Intn(i)
		n.rings[i], n.rings[j] = n.rings[j], n.rings[i]
	}
	for _, k := range n.kids {
		k.permute(r)
	}
}

// ---------------------------------------------------------------- generators

// 16 primitive lattice directions in counter-clockwise order.
var dirs = []pt{{2, 0}, {2, 1}, {1, 1}, {1, 2}, {0, 2}, {-1, 2}, {-1, 1}, {-2, 1}, {-2, 0}, {-2, -1}, {-1, -1}, {-1, -2}, {0, -2}, {1, -2}, {1, -1}, {2, -1}}

// starRing: vertices centre + m*dir for a subset of directions in angular order: star-shaped
// around the centre whenever consecutive directions are less than a half turn apart.
func starRing(r *lib.Rng, c pt, scale int) []pt {
	var ring []pt
	for {
		ring = ring[:0]
		for _, d := range dirs {
			if r.Chance(3, 5) {
				m := float64(r.Range(1, 3) * scale)
				ring = append(ring, pt{c.x + m*d.x, c.y + m*d.y})
			}
		}
		if len(ring) >= 3 {
			break
		}
	}
	if r.Chance(1, 6) { // a repeated consecutive vertex is allowed in valid rings
		i := r.Intn(len(ring))
		ring = append(ring[:i+1], ring[i:]...)
	}
	return append(ring, ring[0])
}

func rectRing(x0, y0, x1, y1 float64, cw bool) []pt {
	if cw {
		return []pt{{x0, y0}, {x0, y1}, {x1, y1}, {x1, y0}, {x0, y0}}
	}
	return []pt{{x0, y0}, {x1, y0}, {x1, y1}, {x0, y1}, {x0, y0}}
}

// genStar: a star-shaped shell (scaled so that there is room) with 0..2 small holes near the centre.
func genStar(r *lib.Rng) *gnode {
	scale := r.Range(1, 3)
	c := pt{float64(r.Range(-4, 4)), float64(r.Range(-4, 4))}
	n := &gnode{kind: kPoly, rings: [][]pt{starRing(r, c, scale)}}
	if scale >= 2 && r.Chance(1, 2) {
		switch r.Intn(3) {
		case 0:
			n.rings = append(n.rings, []pt{{c.x, c.y}, {c.x, c.y + 1}, {c.x + 1, c.y}, {c.x, c.y}})
		case 1:
			n.rings = append(n.rings, rectRing(c.x-1, c.y-1, c.x, c.y, r.Bool()))
		default:
			n.rings = append(n.rings, []pt{{c.x, c.y}, {c.x, c.y + 1}, {c.x + 1, c.y}, {c.x, c.y}},
				[]pt{{c.x, c.y}, {c.x - 1, c.y}, {c.x, c.y - 1}, {c.x, c.y}}) // two holes touching at the centre
		}
	}
	return n
}

// genStair: staircase shell (rectilinear, counter-clockwise or clockwise) over columns of
// decreasing height, with 0..3 rectangular holes in the part that has full width.
func genStair(r *lib.Rng) *gnode {
	k := r.Range(1, 4)
	xs := []float64{float64(r.Range(-5, 0))}
	for i := 0; i < k; i++ {
		xs = append(xs, xs[len(xs)-1]+float64(r.Range(1, 4)))
	}
	y0 := float64(r.Range(-5, 0))
	hs := make([]float64, k) // hs[0] >= hs[1] >= ... > 0
	h := float64(r.Range(2, 5))
	for i := k - 1; i >= 0; i-- {
		hs[i] = h
		h += float64(r.Range(0, 3))
	}
	ring := []pt{{xs[0], y0}, {xs[k], y0}}
	for i := k - 1; i >= 0; i-- {
		ring = append(ring, pt{xs[i+1], y0 + hs[i]}, pt{xs[i], y0 + hs[i]})
	}
	ring = append(ring, ring[0])
	// drop collinear duplicates created by equal heights? they are legal vertices: keep.
	if r.Bool() {
		for i, j := 0, len(ring)-1; i < j; i, j = i+1, j-1 {
			ring[i], ring[j] = ring[j], ring[i]
		}
	}
	n := &gnode{kind: kPoly, rings: [][]pt{ring}}
	// holes inside [xs[0],xs[k]] x [y0, y0+hs[k-1]] (the band below the lowest step)
	w := xs[k] - xs[0]
	hb := hs[k-1]
	nh := r.Intn(4)
	x := xs[0]
	for i := 0; i < nh; i++ {
		gap := float64(r.Range(0, 2)) // 0: may touch the previous hole / the shell (Validate decides)
		if i == 0 && gap == 0 && r.Chance(3, 4) {
			gap = 1
		}
		hx0 := x + gap
		hx1 := hx0 + float64(r.Range(1, 2))
		if hx1 > xs[0]+w-1 {
			break
		}
		hy0 := y0 + float64(r.Range(1, int(hb)-1))
		hy1 := hy0 + float64(r.Range(1, 2))
		if hy1 > y0+hb-1 {
			hy1 = y0 + hb - 1
		}
		if hy1 <= hy0 {
			continue
		}
		n.rings = append(n.rings, rectRing(hx0, hy0, hx1, hy1, r.Bool()))
		x = hx1
	}
	return n
}

func genPolyShape(r *lib.Rng) *gnode {
	if r.Bool() {
		return genStar(r)
	}
	return genStair(r)
}

func genEmpty(kind int) *gnode { return &gnode{kind: kind} }

func genLine(r *lib.Rng) *gnode {
	k := r.Range(2, 7)
	p := pt{float64(r.Range(-6, 6)), float64(r.Range(-6, 6))}
	ps := []pt{p}
	for len(ps) < k {
		if r.Chance(1, 6) {
			ps = append(ps, p) // zero-length segment
			continue
		}
		p = pt{p.x + float64(r.Range(-3, 3)), p.y + float64(r.Range(-3, 3))}
		ps = append(ps, p)
	}
	if r.Chance(1, 5) {
		ps = append(ps, ps[0])
	}
	return &gnode{kind: kLine, pts: ps}
}

func genPoint(r *lib.Rng) *gnode {
	return &gnode{kind: kPoint, pts: []pt{{float64(r.Range(-8, 8)), float64(r.Range(-8, 8))}}}
}

func genMulti(r *lib.Rng, kind int, member func(*lib.Rng) *gnode, memberKind int) *gnode {
	n := &gnode{kind: kind}
	k := r.Range(0, 4)
	for i := 0; i < k; i++ {
		if r.Chance(1, 4) {
			n.kids = append(n.kids, genEmpty(memberKind))
		} else {
			n.kids = append(n.kids, member(r))
		}
	}
	return n
}

// genMPoly places the members in disjoint columns so that the multipolygon is valid.
func genMPoly(r *lib.Rng) *gnode {
	n := &gnode{kind: kMPoly}
	k := r.Range(0, 4)
	for i := 0; i < k; i++ {
		if r.Chance(1, 4) {
			n.kids = append(n.kids, genEmpty(kPoly))
			continue
		}
		m := genPolyShape(r)
		dx := float64(40 * i)
		m.mapPts(func(p pt) pt { return pt{p.x + dx, p.y} })
		n.kids = append(n.kids, m)
	}
	return n
}

func genLeaf(r *lib.Rng, dim int) *gnode {
	switch dim {
	case 2:
		if r.Chance(1, 3) {
			return genMPoly(r)
		}
		return genPolyShape(r)
	case 1:
		if r.Chance(1, 3) {
			return genMulti(r, kMLine, genLine, kLine)
		}
		return genLine(r)
	default:
		if r.Chance(1, 3) {
			return genMulti(r, kMPoint, genPoint, kPoint)
		}
		return genPoint(r)
	}
}

// genColl: collection whose highest non-empty dimension is at most maxDim; members of every
// lower dimension, empty members of every type (including higher-dimensional empties), nesting.
func genColl(r *lib.Rng, maxDim int, depth int) *gnode {
	n := &gnode{kind: kColl}
	k := r.Range(0, 5)
	for i := 0; i < k; i++ {
		switch {
		case r.Chance(1, 5):
			n.kids = append(n.kids, genEmpty(r.Intn(7)))
		case depth < 2 && r.Chance(1, 5):
			n.kids = append(n.kids, genColl(r, maxDim, depth+1))
		default:
			d := maxDim
			if r.Chance(1, 2) {
				d = r.Intn(maxDim + 1)
			}
			n.kids = append(n.kids, genLeaf(r, d))
		}
	}
	return n
}

// ---- asymmetric shapes: the areal centroid, the centroid of the boundary, the centre of the
// envelope and the vertex average are pairwise different, so a Centroid that silently switches
// to another notion of centre (e.g. below some absolute size) is visible on them.

// dihedral returns one of the 8 lattice symmetries followed by a lattice translation.
func dihedral(r *lib.Rng) func(pt) pt {
	sw, nx, ny := r.Bool(), r.Bool(), r.Bool()
	ox, oy := float64(r.Range(-6, 6)), float64(r.Range(-6, 6))
	return func(p pt) pt {
		if sw {
			p.x, p.y = p.y, p.x
		}
		if nx {
			p.x = -p.x
		}
		if ny {
			p.y = -p.y
		}
		return pt{p.x + ox, p.y + oy}
	}
}

func reverseRing(ring []pt) {
	for i, j := 0, len(ring)-1; i < j; i, j = i+1, j-1 {
		ring[i], ring[j] = ring[j], ring[i]
	}
}

// genAsymPoly: scalene / right triangles, L shapes, rectangles with off-centre holes.
func genAsymPoly(r *lib.Rng) *gnode {
	var rings [][]pt
	switch r.Intn(4) {
	case 0: // scalene lattice triangle (three different squared side lengths)
		for {
			a := pt{float64(r.Range(-8, 8)), float64(r.Range(-8, 8))}
			b := pt{float64(r.Range(-8, 8)), float64(r.Range(-8, 8))}
			c := pt{float64(r.Range(-8, 8)), float64(r.Range(-8, 8))}
			cr := (b.x-a.x)*(c.y-a.y) - (c.x-a.x)*(b.y-a.y)
			d := func(p, q pt) float64 { return (p.x-q.x)*(p.x-q.x) + (p.y-q.y)*(p.y-q.y) }
			if cr != 0 && d(a, b) != d(b, c) && d(b, c) != d(c, a) && d(c, a) != d(a, b) {
				rings = [][]pt{{a, b, c, a}}
				break
			}
		}
	case 1: // right triangle with different legs
		a := float64(r.Range(1, 9))
		b := a + float64(r.Range(1, 6))
		rings = [][]pt{{{0, 0}, {a, 0}, {0, b}, {0, 0}}}
	case 2: // L shape: arms of thickness t1, t2 and lengths w, h
		t1, t2 := float64(r.Range(1, 3)), float64(r.Range(1, 3))
		w := t2 + float64(r.Range(1, 8))
		h := t1 + float64(r.Range(1, 8))
		rings = [][]pt{{{0, 0}, {w, 0}, {w, t1}, {t2, t1}, {t2, h}, {0, h}, {0, 0}}}
	default: // rectangle with one or two small holes in one corner region
		w, h := float64(r.Range(5, 12)), float64(r.Range(4, 9))
		rings = [][]pt{rectRing(0, 0, w, h, r.Bool())}
		if r.Bool() {
			rings = append(rings, rectRing(1, 1, 2, 2+float64(r.Intn(2)), r.Bool()))
		} else {
			rings = append(rings, []pt{{1, 1}, {3, 1}, {1, 2}, {1, 1}})
		}
		if r.Chance(1, 3) {
			rings = append(rings, rectRing(3, 2, 4, 3, r.Bool()))
		}
	}
	if r.Bool() {
		reverseRing(rings[0])
	}
	n := &gnode{kind: kPoly, rings: rings}
	n.mapPts(dihedral(r))
	return n
}

// genAsymLine: an open polyline with segments of different lengths (never centrally symmetric
// about its length-weighted centroid except by accident).
func genAsymLine(r *lib.Rng) *gnode {
	k := r.Range(3, 6)
	p := pt{float64(r.Range(-6, 6)), float64(r.Range(-6, 6))}
	ps := []pt{p}
	for i := 1; i < k; i++ {
		for {
			q := pt{p.x + float64(r.Range(-2, 2)*i), p.y + float64(r.Range(-3, 3))}
			if q != p {
				p = q
				break
			}
		}
		ps = append(ps, p)
	}
	return &gnode{kind: kLine, pts: ps}
}

func shiftX(n *gnode, dx float64) *gnode {
	n.mapPts(func(p pt) pt { return pt{p.x + dx, p.y} })
	return n
}

// genAsym: the asymmetric shapes alone, as members of multipolygons (disjoint columns) and of
// (nested) collections next to lower-dimensional and empty members; lineal and point geometries.
func genAsym(r *lib.Rng) *gnode {
	mpoly := func(dx0 float64) *gnode {
		n := &gnode{kind: kMPoly}
		k := r.Range(1, 3)
		for i := 0; i < k; i++ {
			if r.Chance(1, 6) {
				n.kids = append(n.kids, genEmpty(kPoly))
			}
			n.kids = append(n.kids, shiftX(genAsymPoly(r), dx0+float64(40*i)))
		}
		return n
	}
	switch r.Intn(10) {
	case 0, 1, 2:
		return genAsymPoly(r)
	case 3, 4:
		return mpoly(0)
	case 5: // the demo's composition: a point and a polygon (the point must not count)
		n := &gnode{kind: kColl, kids: []*gnode{genPoint(r), genAsymPoly(r)}}
		if r.Bool() {
			n.kids = append(n.kids, genAsymLine(r))
		}
		if r.Chance(1, 3) {
			n.kids = append([]*gnode{genEmpty(r.Intn(7))}, n.kids...)
		}
		return n
	case 6: // nested collection with a polygon and a multipolygon
		inner := &gnode{kind: kColl, kids: []*gnode{genAsymPoly(r), genPoint(r)}}
		return &gnode{kind: kColl, kids: []*gnode{genAsymLine(r), inner, mpoly(80)}}
	case 7: // lineal
		if r.Bool() {
			return genAsymLine(r)
		}
		return &gnode{kind: kMLine, kids: []*gnode{genAsymLine(r), genEmpty(kLine), shiftX(genAsymLine(r), float64(r.Range(-20, 20)))}}
	case 8: // collection whose highest dimension is 1
		return &gnode{kind: kColl, kids: []*gnode{genPoint(r), genAsymLine(r),
			{kind: kMLine, kids: []*gnode{genAsymLine(r), genAsymLine(r)}}, genEmpty(kPoly)}}
	default: // points
		mp := &gnode{kind: kMPoint}
		for i, k := 0, r.Range(2, 5); i < k; i++ {
			mp.kids = append(mp.kids, genPoint(r))
		}
		if r.Bool() {
			return mp
		}
		return &gnode{kind: kColl, kids: []*gnode{genPoint(r), mp, genEmpty(kLine)}}
	}
}

// ---------------------------------------------------------------- observations

func bits(f float64) string { return fmt.Sprintf("%016x", math.Float64bits(f)) }

func centroidStr(g geom.Geometry) (s string) {
	defer func() {
		if recover() != nil {
			s = "PANIC"
		}
	}()
	xy, ok := g.Centroid().XY()
	if !ok {
		return "E"
	}
	return bits(xy.X) + ":" + bits(xy.Y)
}

func same(a, b float64) bool { return math.Float64bits(a) == math.Float64bits(b) }

// dispatch compares the concrete type's methods with the Geometry methods.
func dispatch(g geom.Geometry) (s string) {
	defer func() {
		if recover() != nil {
			s = "ok" // a panic is reported through the centroid observation
		}
	}()
	cs := func(p geom.Point) string {
		xy, ok := p.XY()
		if !ok {
			return "E"
		}
		return bits(xy.X) + ":" + bits(xy.Y)
	}
	a, l, c := g.Area(), g.Length(), centroidStr(g)
	sa := g.Area(geom.SignedArea)
	switch g.Type() {
	case geom.TypePoint:
		if cs(g.MustAsPoint().Centroid()) != c {
			return "Point.Centroid"
		}
	case geom.TypeLineString:
		x := g.MustAsLineString()
		if !same(x.Length(), l) {
			return "LineString.Length"
		}
		if cs(x.Centroid()) != c {
			return "LineString.Centroid"
		}
	case geom.TypePolygon:
		x := g.MustAsPolygon()
		if !same(x.Area(), a) || !same(x.Area(geom.SignedArea), sa) {
			return "Polygon.Area"
		}
		if cs(x.Centroid()) != c {
			return "Polygon.Centroid"
		}
	case geom.TypeMultiPoint:
		if cs(g.MustAsMultiPoint().Centroid()) != c {
			return "MultiPoint.Centroid"
		}
	case geom.TypeMultiLineString:
		x := g.MustAsMultiLineString()
		if !same(x.Length(), l) {
			return "MultiLineString.Length"
		}
		if cs(x.Centroid()) != c {
			return "MultiLineString.Centroid"
		}
	case geom.TypeMultiPolygon:
		x := g.MustAsMultiPolygon()
		if !same(x.Area(), a) || !same(x.Area(geom.SignedArea), sa) {
			return "MultiPolygon.Area"
		}
		if cs(x.Centroid()) != c {
			return "MultiPolygon.Centroid"
		}
	case geom.TypeGeometryCollection:
		x := g.MustAsGeometryCollection()
		if !same(x.Area(), a) || !same(x.Area(geom.SignedArea), sa) {
			return "GeometryCollection.Area"
		}
		if !same(x.Length(), l) {
			return "GeometryCollection.Length"
		}
		if cs(x.Centroid()) != c {
			return "GeometryCollection.Centroid"
		}
	}
	return "ok"
}

// memberSums: the float sums of the members' Area() and Length() in member order.
func memberSums(g geom.Geometry) (float64, float64) {
	var a, l float64
	switch g.Type() {
	case geom.TypeMultiLineString:
		x := g.MustAsMultiLineString()
		for i := 0; i < x.NumLineStrings(); i++ {
			l += x.LineStringN(i).Length()
		}
	case geom.TypeMultiPolygon:
		x := g.MustAsMultiPolygon()
		for i := 0; i < x.NumPolygons(); i++ {
			a += x.PolygonN(i).Area()
		}
	case geom.TypeGeometryCollection:
		x := g.MustAsGeometryCollection()
		for i := 0; i < x.NumGeometries(); i++ {
			a += x.GeometryN(i).Area()
			l += x.GeometryN(i).Length()
		}
	default:
		return g.Area(), g.Length()
	}
	return a, l
}

func observe(g geom.Geometry, tr func(geom.XY) geom.XY) string {
	addA, addL := memberSums(g)
	return strings.Join([]string{
		bits(g.Area()),
		bits(g.Area(geom.SignedArea)),
		bits(g.Area(geom.WithTransform(tr))),
		bits(g.Area(geom.SignedArea, geom.WithTransform(tr))),
		bits(g.TransformXY(tr).Area()),
		bits(g.TransformXY(tr).Area(geom.SignedArea)),
		bits(g.Length()),
		centroidStr(g),
		bits(addA), bits(addL),
		dispatch(g),
	}, " ")
}

func group(tag string, g geom.Geometry, tr func(geom.XY) geom.XY) string {
	return tag + "|" + lib.Dump(g) + "|" + observe(g, tr)
}

func isRectilinear(n *gnode) bool {
	ok := true
	var walk func(*gnode)
	walk = func(m *gnode) {
		for _, r := range m.rings {
			for i := 0; i+1 < len(r); i++ {
				if r[i].x != r[i+1].x && r[i].y != r[i+1].y {
					ok = false
				}
			}
		}
		for _, k := range m.kids {
			walk(k)
		}
	}
	walk(n)
	return ok
}

func main() {
	a := lib.ParseArgs()
	w, done := a.Output()
	defer done()
	root := lib.NewRng(a.Seed)
	classes := map[string]int{}
	skipped := map[string]int{}
	trKinds := map[int]int{}
	scaleK := map[int]int{} // moderate scaling exponents used
	cts := []geom.CoordinatesType{geom.DimXY, geom.DimXYZ, geom.DimXYM, geom.DimXYZM}
	classNames := []string{"star", "stair", "mpoly", "line", "mline", "points", "gc_areal", "gc_lineal", "gc_point", "empty", "bigoffset", "float", "floatint", "emptyring", "asym"}
	weights := []int{12, 12, 10, 6, 6, 5, 14, 8, 6, 3, 8, 3, 6, 2, 9}
	total := 0
	for _, x := range weights {
		total += x
	}
	emitted := 0
	for i := 0; emitted < a.N; i++ {
		r := root.Fork()
		pick := r.Intn(total)
		ci := 0
		for pick >= weights[ci] {
			pick -= weights[ci]
			ci++
		}
		class := classNames[ci]
		var n *gnode
		flags := []string{}
		lattice := true
		switch class {
		case "star":
			n = genStar(r)
		case "stair":
			n = genStair(r)
		case "mpoly":
			n = genMPoly(r)
		case "line":
			n = genLine(r)
		case "mline":
			n = genMulti(r, kMLine, genLine, kLine)
		case "points":
			if r.Bool() {
				n = genMulti(r, kMPoint, genPoint, kPoint)
			} else {
				n = genPoint(r)
			}
		case "gc_areal":
			n = genColl(r, 2, 0)
		case "gc_lineal":
			n = genColl(r, 1, 0)
		case "gc_point":
			n = genColl(r, 0, 0)
		case "empty":
			n = genEmpty(r.Intn(7))
			if n.kind == kColl && r.Bool() {
				n.kids = []*gnode{genEmpty(r.Intn(7)), genEmpty(r.Intn(7))}
			}
		case "bigoffset":
			// near the border of the lattice |c| <= 2^10
			n = genLeaf(r, r.Intn(3))
			if r.Bool() {
				n = genColl(r, 2, 1)
			}
			ox := float64([]int{-1, 1}[r.Intn(2)] * r.Range(700, 850))
			oy := float64([]int{-1, 1}[r.Intn(2)] * r.Range(700, 850))
			n.mapPts(func(p pt) pt { return pt{p.x + ox, p.y + oy} })
		case "float":
			// general position, fractional: an affine image with non-dyadic coefficients of a
			// single (multi-)geometry, ordinates kept to 24 significant bits so that the exact
			// rational model (unreduced dyadic fractions) stays cheap
			n = genLeaf(r, r.Intn(3))
			s := math.Exp(float64(r.Range(-40, 40)) / 10)
			th := float64(r.Range(0, 628)) / 100
			ox, oy := float64(r.Range(-1000, 1000))*s/7, float64(r.Range(-1000, 1000))*s/7
			co, si := math.Cos(th), math.Sin(th)
			n.mapPts(func(p pt) pt {
				return pt{float64(float32(s*(co*p.x-si*p.y) + ox)), float64(float32(s*(si*p.x+co*p.y) + oy))}
			})
			lattice = false
			flags = append(flags, "float")
		case "floatint":
			// general position, integer valued: rotated and scaled by 2^20..2^34 and rounded to
			// integers; products exceed 2^53, so every float operation of the implementation rounds
			// (collections are kept small: the model's unreduced rationals grow with every member)
			n = genLeaf(r, r.Intn(3))
			if r.Chance(1, 3) {
				n = &gnode{kind: kColl, kids: []*gnode{genLeaf(r, r.Intn(3)), genEmpty(r.Intn(7)), genLeaf(r, r.Intn(3))}}
			}
			s := math.Exp2(float64(r.Range(180, 280)) / 10)
			th := float64(r.Range(0, 628)) / 100
			ox, oy := float64(r.Range(-1000, 1000))*s/7, float64(r.Range(-1000, 1000))*s/7
			co, si := math.Cos(th), math.Sin(th)
			n.mapPts(func(p pt) pt {
				return pt{math.Round(s*(co*p.x-si*p.y) + ox), math.Round(s*(si*p.x+co*p.y) + oy)}
			})
			lattice = false
			flags = append(flags, "float")
		case "asym":
			n = genAsym(r)
		case "emptyring":
			// outside the property's domain: a polygon that holds an empty ring (no validation)
			n = genStair(r)
			n.rings = append(n.rings, []pt{})
			if r.Bool() {
				n = &gnode{kind: kColl, kids: []*gnode{genPoint(r), n}}
			}
			flags = append(flags, "emptyring")
		}
		ct := cts[r.Intn(4)]
		zr := r.Fork()
		g := n.build(ct, &zmGen{zr})
		valid := g.Validate() == nil
		if class == "emptyring" {
			valid = false
		} else if !valid {
			skipped[class]++
			continue
		}
		if lattice {
			flags = append(flags, "lattice")
		}
		if valid {
			flags = append(flags, "valid")
		}
		if isRectilinear(n) && lattice {
			flags = append(flags, "rectil")
		}
		classes[class]++
		// the per-vertex transform of the WithTransform observations
		var co [6]int
		for j := range co {
			co[j] = r.Range(-3, 3)
		}
		// kind 0: the integer affine map; 1..3: non-linear maps that stay exact on the lattice
		// (|c| < 2^10 gives values < 2^21, products in the shoelace sum < 2^53)
		kind := r.Intn(4)
		tr := func(p geom.XY) geom.XY {
			switch kind {
			case 1:
				return geom.XY{X: p.X * p.X, Y: p.Y}
			case 2:
				return geom.XY{X: p.X * p.Y, Y: p.Y + p.X}
			case 3:
				return geom.XY{X: p.X*p.X - p.Y, Y: p.X + p.Y*p.Y}
			}
			return geom.XY{
				X: float64(co[0])*p.X + float64(co[1])*p.Y + float64(co[2]),
				Y: float64(co[3])*p.X + float64(co[4])*p.Y + float64(co[5]),
			}
		}
		trKinds[kind]++
		groups := []string{group("base", g, tr)}
		if class != "emptyring" {
			// ring rotation
			v := n.clone()
			v.rotateRings(r)
			groups = append(groups, group("rot", v.build(ct, &zmGen{zr.Fork()}), tr))
			// Reverse, ForceCW, ForceCCW of the library
			groups = append(groups, group("rev", g.Reverse(), tr))
			groups = append(groups, group("fcw", g.ForceCW(), tr))
			groups = append(groups, group("fccw", g.ForceCCW(), tr))
			// member / hole permutation
			v = n.clone()
			v.permute(r)
			groups = append(groups, group("perm", v.build(ct, &zmGen{zr.Fork()}), tr))
			// other coordinates type and other Z/M payload
			groups = append(groups, group("zm", n.build(cts[r.Intn(4)], &zmGen{r.Fork()}), tr))
			// translation (by lattice steps; for the float class by a float step)
			dx, dy := float64(r.Range(-9, 9)), float64(r.Range(-9, 9))
			if !lattice {
				dx, dy = dx*1.37, dy*0.61
			}
			tg := g.TransformXY(func(p geom.XY) geom.XY { return geom.XY{X: p.X + dx, Y: p.Y + dy} })
			groups = append(groups, group("tr:"+bits(dx)+":"+bits(dy), tg, tr))
			// scaling by a power of two so large (small) that squares of ordinates overflow
			// (underflow) while lengths and centroids stay representable: Length and Centroid
			// must scale with the geometry (every float operation involved is exact under
			// such a scaling unless an intermediate leaves the range)
			if lattice && class != "bigoffset" {
				k := r.Range(515, 560)
				if r.Bool() {
					k = -k
				}
				v = n.clone()
				v.mapPts(func(p pt) pt { return pt{math.Ldexp(p.x, k), math.Ldexp(p.y, k)} })
				sg := v.build(ct, &zmGen{zr.Fork()})
				// only variants the implementation itself accepts as valid are judged
				if sg.Validate() == nil {
					groups = append(groups, group(fmt.Sprintf("sc:%d", k), sg, tr))
				} else {
					skipped["scale_variant_rejected_by_Validate"]++
				}
			}
			// scaling by a power of two of moderate size, 1 <= |k| <= 300: with lattice ordinates
			// |c| <= 2^10 every intermediate of the unchanged library (products of three ordinates in
			// the triangle fan, at most 2^(3k+40)) stays in the normal range, so every float operation
			// is exact under the scaling and Area, Length, Centroid must be those of the base times
			// 4^k, 2^k, 2^k.  One exponent per lattice case; the asymmetric class gets one from each
			// of four strata (far below, below, around 1, above).
			if lattice {
				var ks []int
				if class == "asym" {
					near := r.Range(1, 20)
					if r.Bool() {
						near = -near
					}
					ks = []int{-r.Range(101, 300), -r.Range(21, 100), near, r.Range(21, 300)}
				} else {
					k := r.Range(1, 300)
					if r.Chance(3, 5) {
						k = -k
					}
					ks = []int{k}
				}
				for _, k := range ks {
					k := k
					v = n.clone()
					v.mapPts(func(p pt) pt { return pt{math.Ldexp(p.x, k), math.Ldexp(p.y, k)} })
					sg := v.build(ct, &zmGen{zr.Fork()})
					if sg.Validate() == nil {
						groups = append(groups, group(fmt.Sprintf("sm:%d", k), sg, tr))
						scaleK[k]++
					} else {
						skipped["moderate_scale_variant_rejected_by_Validate"]++
					}
				}
			}
		}
		fmt.Fprintf(w, "%d\t%s\t%s\t%d,%d,%d,%d,%d,%d,%d\t%s\n", i, class, strings.Join(flags, ","),
			co[0], co[1], co[2], co[3], co[4], co[5], kind, strings.Join(groups, "\t"))
		emitted++
	}
	keys := make([]string, 0, len(classes))
	for k := range classes {
		keys = append(keys, k)
	}
	sort.Strings(keys)
	js, _ := json.Marshal(map[string]interface{}{"cmd": "c14", "classes": classes, "skipped_invalid": skipped, "transform_kinds": trKinds,
		"moderate_scale_exponents_distinct": len(scaleK)})
	fmt.Fprintf(w, "#GEN\t%s\n", js)
}
