package main

import (
	"fmt"

	"github.com/peterstace/simplefeatures/geom"
	"verifharness/lib"
)

// ---------------------------------------------------------------- large multilinestrings

// bigSizes: member counts around every power of two from 32 to 256 (where a counting structure of
// fixed width would change its regime), the range in between, and a few small ones.
func (g *gen) bigSize() int {
	r := g.r
	switch v := r.Intn(10); {
	case v < 5:
		return []int{31, 32, 33, 63, 64, 65}[r.Intn(6)]
	case v < 7:
		return r.Range(34, 62)
	case v < 9:
		return []int{127, 128, 129}[r.Intn(3)]
	default:
		return []int{255, 256, 257}[r.Intn(3)]
	}
}

// bigMline builds a MultiLineString with exactly n member lines and many distinct end points:
// pairwise disjoint segments (every end point of degree 1), a path chopped into single members
// (all inner joints of degree 2, the two far ends of degree 1), fans (one centre of degree n),
// several stars joined to each other (mixed odd and even degrees), and mixtures; a share of the
// members are closed (they contribute nothing), EMPTY, or copies of earlier members (the copies
// cancel in pairs). Members keep their order (so that the odd end points are met late), are
// reversed, or shuffled; every member is oriented at random.
func (g *gen) bigMline(n int) (*lib.Node, string) {
	r := g.r
	ox, oy := r.Range(-400, 400), r.Range(-400, 400)
	// a pool of pairwise distinct lattice points: the cells of a 48 x 48 grid in random order
	const side = 48
	perm := make([]int, side*side)
	for i := range perm {
		perm[i] = i
	}
	used := 0
	fresh := func() P {
		j := used + r.Intn(len(perm)-used)
		perm[used], perm[j] = perm[j], perm[used]
		c := perm[used]
		used++
		return P{ox + 2*(c%side), oy + 2*(c/side)}
	}
	var members [][]P
	seg := func(a, b P) []P {
		if r.Chance(1, 5) { // a bend: the inner control point is off the grid of end points
			return []P{a, {a[0] + 1, b[1] + 1}, b}
		}
		return []P{a, b}
	}
	extras := 0
	if r.Chance(1, 2) {
		extras = r.Range(1, 1+n/6)
	}
	base := n - extras
	shape := ""
	switch r.Intn(5) {
	case 0:
		shape = "disjoint"
		for i := 0; i < base; i++ {
			members = append(members, seg(fresh(), fresh()))
		}
	case 1:
		shape = "chopped"
		cur := fresh()
		for i := 0; i < base; i++ {
			nx := fresh()
			members = append(members, seg(cur, nx))
			cur = nx
		}
	case 2:
		shape = "fan"
		c := fresh()
		for i := 0; i < base; i++ {
			members = append(members, seg(c, fresh()))
		}
	case 3:
		shape = "stars"
		k := r.Range(2, 6)
		cs := make([]P, k)
		for i := range cs {
			cs[i] = fresh()
		}
		for i := 0; i < base; i++ {
			a := cs[r.Intn(k)]
			if r.Chance(1, 4) { // a member between two centres
				b := cs[r.Intn(k)]
				if b != a {
					members = append(members, seg(a, b))
					continue
				}
			}
			members = append(members, seg(a, fresh()))
		}
	default:
		shape = "mixed"
		c := fresh()
		cur := fresh()
		for i := 0; i < base; i++ {
			switch r.Intn(3) {
			case 0:
				members = append(members, seg(fresh(), fresh()))
			case 1:
				nx := fresh()
				members = append(members, seg(cur, nx))
				cur = nx
			default:
				members = append(members, seg(c, fresh()))
			}
		}
	}
	// extras: closed members, copies, EMPTY members; inserted anywhere
	for i := 0; i < extras; i++ {
		var m []P
		switch r.Intn(4) {
		case 0: // closed triangle on fresh points, or through an existing end point
			a := fresh()
			if len(members) > 0 && r.Bool() {
				if src := members[r.Intn(len(members))]; src != nil {
					a = src[0]
				}
			}
			m = []P{a, {a[0] + 1, a[1]}, {a[0], a[1] + 1}, a}
		case 1, 2: // a copy of an earlier member (possibly reversed later)
			if len(members) > 0 && members[0] != nil {
				src := members[r.Intn(len(members))]
				if src == nil {
					src = members[0]
				}
				m = append([]P(nil), src...)
			} else {
				m = seg(fresh(), fresh())
			}
		default:
			m = nil
		}
		at := r.Intn(len(members) + 1)
		members = append(members, nil)
		copy(members[at+1:], members[at:])
		members[at] = m
	}
	order := "inorder"
	switch r.Intn(4) {
	case 0:
		order = "reversed"
		for a, b := 0, len(members)-1; a < b; a, b = a+1, b-1 {
			members[a], members[b] = members[b], members[a]
		}
	case 1:
		order = "shuffled"
		for i := len(members) - 1; i > 0; i-- {
			j := r.Intn(i + 1)
			members[i], members[j] = members[j], members[i]
		}
	}
	n0 := &lib.Node{Kind: lib.KMLine, CT: g.ct}
	for _, m := range members {
		if m == nil {
			n0.Kids = append(n0.Kids, g.emptyNode(lib.KLine))
			continue
		}
		if r.Bool() {
			m = append([]P(nil), m...)
			for a, b := 0, len(m)-1; a < b; a, b = a+1, b-1 {
				m[a], m[b] = m[b], m[a]
			}
		}
		n0.Kids = append(n0.Kids, g.lineNode(m))
	}
	bucket := "n_other"
	switch {
	case n <= 33 && n >= 31:
		bucket = "n31_33"
	case n < 63:
		bucket = "n34_62"
	case n <= 65:
		bucket = "n63_65"
	case n <= 129:
		bucket = "n127_129"
	default:
		bucket = "n255_257"
	}
	ex := ""
	if extras > 0 {
		ex = "+extras"
	}
	g.note("bigmline_" + bucket)
	g.note("bigmline_order_" + order)
	return n0, shape + ex
}

func (g *gen) note(k string) {
	if g.notes == nil {
		g.notes = map[string]int{}
	}
	g.notes[k]++
}

// bigMlineCase: the large MultiLineString alone, or inside collections (as a direct member, nested,
// next to puntal / lineal members and typed empties).
func (g *gen) bigMlineCase() (*lib.Node, string) {
	r := g.r
	m, s := g.bigMline(g.bigSize())
	if r.Chance(2, 3) {
		return m, s
	}
	wrap := func(kids ...*lib.Node) *lib.Node { return &lib.Node{Kind: lib.KColl, CT: g.ct, Kids: kids} }
	near := P{r.Range(-400, 400), r.Range(-400, 400)}
	switch r.Intn(4) {
	case 0:
		return wrap(m), s + "_in_coll"
	case 1:
		return wrap(g.pointNode(near), wrap(m, g.emptyNode(lib.KPoly))), s + "_in_coll"
	case 2:
		l, _ := g.lineGeom(near)
		return wrap(l, m, g.emptyNode(lib.KMLine)), s + "_in_coll"
	default:
		m2, _ := g.bigMline(r.Range(33, 64))
		return wrap(wrap(wrap(m)), m2), s + "_in_coll"
	}
}

// ---------------------------------------------------------------- nested collections with mixed empties

// typedEmptyAny: an EMPTY geometry of the given kind (for Multi* possibly with EMPTY members), of
// the case's coordinate type or any other.
func (g *gen) typedEmptyAny(k lib.Kind) *lib.Node {
	r := g.r
	ct := g.ct
	if r.Chance(1, 3) {
		ct = geom.CoordinatesType(r.Intn(4))
	}
	n := &lib.Node{Kind: k, CT: ct}
	if k >= lib.KMPoint && k != lib.KColl && r.Chance(1, 2) {
		m := map[lib.Kind]lib.Kind{lib.KMPoint: lib.KPoint, lib.KMLine: lib.KLine, lib.KMPoly: lib.KPoly}[k]
		for j := r.Range(1, 2); j > 0; j-- {
			n.Kids = append(n.Kids, &lib.Node{Kind: m, CT: ct})
		}
	}
	return n
}

// mixedNest builds collections nested up to depth 3 in which EVERY sub-collection may hold typed
// empties of every dimension next to non-empty members of its own (lower or equal) dimension cap:
// a sub-collection's Dimension() (typed empties count) then differs from the dimension of its point
// set at any depth. Members sit close together so that the candidates of different leaves compete
// for "nearest to the centroid".
func (g *gen) mixedNest(o P, depth int, cap int) *lib.Node {
	r := g.r
	n := &lib.Node{Kind: lib.KColl, CT: g.ct}
	kinds := []lib.Kind{lib.KPoint, lib.KLine, lib.KPoly, lib.KMPoint, lib.KMLine, lib.KMPoly}
	k := r.Range(1, 4)
	for i := 0; i < k; i++ {
		oo := P{o[0] + r.Range(-6, 6), o[1] + r.Range(-6, 6)}
		switch v := r.Intn(8); {
		case v < 2:
			n.Kids = append(n.Kids, g.typedEmptyAny(kinds[r.Intn(len(kinds))]))
		case v < 4 && depth < 3:
			n.Kids = append(n.Kids, g.mixedNest(oo, depth+1, r.Range(0, 2)))
		case v == 4 && r.Chance(1, 3):
			n.Kids = append(n.Kids, &lib.Node{Kind: lib.KColl, CT: g.ct})
		default:
			d := r.Range(0, cap)
			var leaf *lib.Node
			for try := 0; try < 4; try++ {
				leaf = g.leaf([][]int{{0, 3}, {1, 4}, {2, 5}}[d][r.Intn(2)], oo)
				if !leaf.IsEmptyNode() {
					break
				}
			}
			n.Kids = append(n.Kids, leaf)
		}
	}
	return n
}

// mixedNestCase: a top-level collection whose first or last member is a sub-collection with a
// non-empty member of a LOW dimension and a typed empty of a HIGHER one, next to non-empty members
// of intermediate or equal dimension; around it random mixedNest material.
func (g *gen) mixedNestCase(o P) (*lib.Node, string) {
	r := g.r
	kindsOfDim := [][]lib.Kind{{lib.KPoint, lib.KMPoint}, {lib.KLine, lib.KMLine}, {lib.KPoly, lib.KMPoly}}
	leafOfDim := func(d int, at P) *lib.Node {
		var leaf *lib.Node
		for try := 0; try < 6; try++ {
			leaf = g.leaf([][]int{{0, 3}, {1, 4}, {2, 5}}[d][r.Intn(2)], at)
			if !leaf.IsEmptyNode() {
				return leaf
			}
		}
		return g.pointNode(at)
	}
	if r.Chance(1, 3) {
		return g.mixedNest(o, 0, r.Range(0, 2)), "random"
	}
	lo := r.Range(0, 1)      // dimension of the non-empty member of the trap
	hi := r.Range(lo+1, 2)   // dimension of the typed empty next to it
	sibDim := r.Range(lo, 2) // dimension of the real sibling: >= lo
	trap := &lib.Node{Kind: lib.KColl, CT: g.ct, Kids: []*lib.Node{
		leafOfDim(lo, P{o[0] + r.Range(-3, 3), o[1] + r.Range(-3, 3)}),
		g.typedEmptyAny(kindsOfDim[hi][r.Intn(2)])}}
	if r.Bool() {
		trap.Kids[0], trap.Kids[1] = trap.Kids[1], trap.Kids[0]
	}
	depth := r.Range(1, 3)
	for d := 1; d < depth; d++ {
		trap = &lib.Node{Kind: lib.KColl, CT: g.ct, Kids: []*lib.Node{trap}}
		if r.Chance(1, 3) {
			trap.Kids = append(trap.Kids, g.typedEmptyAny(kindsOfDim[r.Intn(3)][r.Intn(2)]))
		}
	}
	sib := leafOfDim(sibDim, P{o[0] + r.Range(-3, 3), o[1] + r.Range(-3, 3)})
	if r.Chance(1, 3) { // the sibling is itself inside a sub-collection
		sib = &lib.Node{Kind: lib.KColl, CT: g.ct, Kids: []*lib.Node{sib}}
	}
	n := &lib.Node{Kind: lib.KColl, CT: g.ct, Kids: []*lib.Node{trap, sib}}
	if r.Bool() {
		n.Kids[0], n.Kids[1] = n.Kids[1], n.Kids[0]
	}
	if r.Chance(1, 3) {
		n.Kids = append(n.Kids, g.mixedNest(P{o[0] + 2, o[1] - 3}, 1, r.Range(0, sibDim)))
	}
	return n, fmt.Sprintf("trap_lo%d_hi%d_sib%d", lo, hi, sibDim)
}
