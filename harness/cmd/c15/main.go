// Command c15 runs Boundary, PointOnSurface, Dimension and IsEmpty of the implementation on
// generated geometries and prints, per case, the observations the model is compared against
// (property C15).
//
// One case per line, tab separated:
//
//	id  class  flags  dump(g)  dump(g.Boundary())  dump(concrete Boundary())  dump(Boundary().Boundary())
//	"dim,empty,bdim,bempty"  nodes
//
// nodes = "cen;pos;disp|cen;pos;disp|..." for g itself followed (when g is a collection) by the
// leaves of GeometryCollection.walk in order; cen is "E" or "hexX:hexY" (Centroid()), pos is the
// dump of Geometry.PointOnSurface(), disp is "ok" when the concrete type's PointOnSurface()
// returns the same point.
package main

import (
	"encoding/json"
	"fmt"
	"math"
	"sort"
	"strings"

	"github.com/peterstace/simplefeatures/geom"
	"verifharness/lib"
)

type P = [2]int

type gen struct {
	r     *lib.Rng
	ct    geom.CoordinatesType
	notes map[string]int
}

func (g *gen) v(p P) [4]float64 {
	return [4]float64{float64(p[0]), float64(p[1]), float64(g.r.Range(-9, 9)), float64(g.r.Range(-9, 9))}
}

func (g *gen) lineNode(pts []P) *lib.Node {
	n := &lib.Node{Kind: lib.KLine, CT: g.ct}
	for _, p := range pts {
		n.C = append(n.C, g.v(p))
	}
	return n
}

// ringNode closes the vertex list; the closing vertex repeats X and Y (Z and M are free).
func (g *gen) ringNode(pts []P) *lib.Node {
	n := g.lineNode(pts)
	c := g.v(pts[0])
	n.C = append(n.C, c)
	return n
}

func (g *gen) pointNode(p P) *lib.Node {
	return &lib.Node{Kind: lib.KPoint, CT: g.ct, Full: true, C: [][4]float64{g.v(p)}}
}
func (g *gen) emptyNode(k lib.Kind) *lib.Node { return &lib.Node{Kind: k, CT: g.ct} }

func (g *gen) polyNode(rings [][]P) *lib.Node {
	n := &lib.Node{Kind: lib.KPoly, CT: g.ct}
	for _, r := range rings {
		n.Kids = append(n.Kids, g.ringNode(r))
	}
	return n
}

func validNode(n *lib.Node) bool { return n.Build().Validate() == nil }

// ---------------------------------------------------------------- polygon shapes (open rings)

func dedupe(pts []P) []P {
	var out []P
	for _, p := range pts {
		if len(out) > 0 && out[len(out)-1] == p {
			continue
		}
		out = append(out, p)
	}
	for len(out) > 1 && out[0] == out[len(out)-1] {
		out = out[:len(out)-1]
	}
	return out
}

// star-shaped ring around c: vertices at sorted angles, lattice-rounded
func (g *gen) star(c P, rad int) []P {
	k := g.r.Range(3, 9)
	angs := make([]float64, k)
	for i := range angs {
		angs[i] = float64(g.r.Intn(3600)) * math.Pi / 1800
	}
	sort.Float64s(angs)
	var pts []P
	for _, a := range angs {
		rr := float64(g.r.Range(1, rad))
		pts = append(pts, P{c[0] + int(math.Round(rr*math.Cos(a))), c[1] + int(math.Round(rr*math.Sin(a)))})
	}
	return dedupe(pts)
}

// histogram outline: columns of given widths and heights on the base line y0 (rectilinear, many
// vertices share rows)
func (g *gen) stair(o P) []P {
	k := g.r.Range(1, 5)
	x := o[0]
	var top []P
	for i := 0; i < k; i++ {
		w := g.r.Range(1, 3)
		h := g.r.Range(1, 6)
		top = append(top, P{x, o[1] + h}, P{x + w, o[1] + h})
		x += w
	}
	pts := []P{{o[0], o[1]}, {x, o[1]}}
	for i := len(top) - 1; i >= 0; i-- {
		pts = append(pts, top[i])
	}
	return dedupe(pts)
}

// comb / U / C shapes: a rectangle with rectangular notches cut from one side; the centre of the
// envelope is frequently outside the polygon or on a vertex row
func (g *gen) comb(o P) []P {
	teeth := g.r.Range(1, 3)
	tw, gw := g.r.Range(1, 2), g.r.Range(1, 3)
	h := g.r.Range(2, 8)
	depth := g.r.Range(1, h-1)
	var pts []P
	x := o[0]
	pts = append(pts, P{x, o[1]})
	total := tw*(teeth+1) + gw*teeth
	pts = append(pts, P{x + total, o[1]}, P{x + total, o[1] + h})
	cx := x + total
	for i := 0; i < teeth; i++ {
		cx -= tw
		pts = append(pts, P{cx, o[1] + h}, P{cx, o[1] + h - depth})
		cx -= gw
		pts = append(pts, P{cx, o[1] + h - depth}, P{cx, o[1] + h})
	}
	pts = append(pts, P{x, o[1] + h})
	pts = dedupe(pts)
	if g.r.Chance(1, 2) { // rotate the shape by 90 degrees: notches from the side
		for i := range pts {
			pts[i] = P{o[0] + (pts[i][1] - o[1]), o[1] + (pts[i][0] - o[0])}
		}
	}
	return pts
}

// shapes with control points exactly on the centre row of the envelope: tips at mid height
func (g *gen) midrow(o P) []P {
	h := 2 * g.r.Range(1, 4) // even height: the centre row is a lattice row
	w := g.r.Range(2, 8)
	mid := o[1] + h/2
	switch g.r.Intn(4) {
	case 0: // diamond-like: left and right tips on the centre row
		a := g.r.Range(1, w-1)
		b := g.r.Range(1, w-1)
		return []P{{o[0], mid}, {o[0] + a, o[1]}, {o[0] + w, mid}, {o[0] + b, o[1] + h}}
	case 1: // arrow: a reflex vertex on the centre row
		a := g.r.Range(1, w-1)
		return []P{{o[0], o[1]}, {o[0] + w, mid}, {o[0], o[1] + h}, {o[0] + a, mid}}
	case 2: // hexagon with two vertices on the centre row and more rows above
		return []P{{o[0], mid}, {o[0] + 1, o[1]}, {o[0] + w, o[1]}, {o[0] + w + 1, mid}, {o[0] + w, o[1] + h}, {o[0] + 1, o[1] + h}}
	default: // step at the centre row
		a := g.r.Range(1, w-1)
		return []P{{o[0], o[1]}, {o[0] + w, o[1]}, {o[0] + w, mid}, {o[0] + a, mid}, {o[0] + a, o[1] + h}, {o[0], o[1] + h}}
	}
}

func (g *gen) shell(o P) ([]P, string) {
	switch g.r.Intn(5) {
	case 0:
		return g.star(P{o[0] + 6, o[1] + 6}, 6), "star"
	case 1:
		return g.stair(o), "stair"
	case 2:
		return g.comb(o), "comb"
	case 3:
		return g.midrow(o), "midrow"
	default:
		w, h := g.r.Range(1, 9), g.r.Range(1, 9)
		return []P{{o[0], o[1]}, {o[0] + w, o[1]}, {o[0] + w, o[1] + h}, {o[0], o[1] + h}}, "rect"
	}
}

func scale(pts []P, k int) []P {
	out := make([]P, len(pts))
	for i, p := range pts {
		out[i] = P{p[0] * k, p[1] * k}
	}
	return out
}

func bbox(pts []P) (x0, y0, x1, y1 int) {
	x0, y0, x1, y1 = pts[0][0], pts[0][1], pts[0][0], pts[0][1]
	for _, p := range pts {
		if p[0] < x0 {
			x0 = p[0]
		}
		if p[0] > x1 {
			x1 = p[0]
		}
		if p[1] < y0 {
			y0 = p[1]
		}
		if p[1] > y1 {
			y1 = p[1]
		}
	}
	return
}

// a small hole anchored at a: triangle, square or diamond; some anchors are shell vertices or
// points of the centre row
func (g *gen) holeAt(a P) []P {
	s := g.r.Range(1, 3)
	switch g.r.Intn(4) {
	case 0:
		return []P{a, {a[0] + s, a[1]}, {a[0], a[1] + s}}
	case 1:
		return []P{a, {a[0] + s, a[1]}, {a[0] + s, a[1] + s}, {a[0], a[1] + s}}
	case 2:
		return []P{a, {a[0] + s, a[1] + s}, {a[0], a[1] + 2*s}, {a[0] - s, a[1] + s}}
	default:
		return []P{a, {a[0] - s, a[1] - g.r.Range(0, 2)}, {a[0] - g.r.Range(0, 2), a[1] - s}}
	}
}

// polygon with up to 3 holes; accepted hole by hole through the implementation's own validation
func (g *gen) polygon(o P, wantHoles bool) ([][]P, string) {
	for try := 0; try < 50; try++ {
		sh, cls := g.shell(o)
		if len(sh) < 3 {
			continue
		}
		k := 1
		if wantHoles {
			k = g.r.Range(2, 4)
			sh = scale(sh, k)
			// scaling moved the origin: translate back near o
			x0, y0, _, _ := bbox(sh)
			for i := range sh {
				sh[i] = P{sh[i][0] - x0 + o[0], sh[i][1] - y0 + o[1]}
			}
		}
		rings := [][]P{sh}
		if !validNode(g.polyNode(rings)) {
			continue
		}
		if !wantHoles {
			return rings, cls
		}
		x0, y0, x1, y1 := bbox(sh)
		want := g.r.Range(1, 3)
		touch := false
		for h := 0; h < 30 && len(rings)-1 < want; h++ {
			var a P
			switch g.r.Intn(5) {
			case 0: // a shell vertex: the hole touches the shell at a vertex
				a = sh[g.r.Intn(len(sh))]
			case 1: // a vertex of an earlier hole: holes touch each other
				rr := rings[g.r.Intn(len(rings))]
				a = rr[g.r.Intn(len(rr))]
			case 2: // on the centre row of the envelope
				a = P{g.r.Range(x0, x1), (y0 + y1) / 2}
			default:
				a = P{g.r.Range(x0, x1), g.r.Range(y0, y1)}
			}
			cand := append(append([][]P(nil), rings...), g.holeAt(a))
			if validNode(g.polyNode(cand)) {
				rings = cand
				for _, p := range sh {
					for _, q := range rings[len(rings)-1] {
						if p == q {
							touch = true
						}
					}
				}
			}
		}
		if len(rings) > 1 {
			if touch {
				return rings, cls + "+holes_touching"
			}
			return rings, cls + "+holes"
		}
	}
	return [][]P{{{o[0], o[1]}, {o[0] + 2, o[1]}, {o[0], o[1] + 2}}}, "tri"
}

func (g *gen) polyGeom(o P) (*lib.Node, string) {
	rings, cls := g.polygon(o, g.r.Chance(2, 5))
	for i := range rings { // random start vertex and orientation of every ring
		r := rings[i]
		k := g.r.Intn(len(r))
		r = append(append([]P(nil), r[k:]...), r[:k]...)
		if g.r.Bool() {
			for a, b := 0, len(r)-1; a < b; a, b = a+1, b-1 {
				r[a], r[b] = r[b], r[a]
			}
		}
		rings[i] = r
	}
	return g.polyNode(rings), cls
}

func (g *gen) mpolyGeom(o P) *lib.Node {
	for try := 0; try < 20; try++ {
		n := &lib.Node{Kind: lib.KMPoly, CT: g.ct}
		k := g.r.Range(1, 3)
		x := o[0]
		for i := 0; i < k; i++ {
			if g.r.Chance(1, 6) {
				n.Kids = append(n.Kids, g.emptyNode(lib.KPoly))
				continue
			}
			p, _ := g.polyGeom(P{x, o[1] + g.r.Range(-3, 3)})
			var all []P
			for _, c := range p.Kids[0].C {
				all = append(all, P{int(c[0]), int(c[1])})
			}
			_, _, x1, _ := bbox(all)
			// next member starts right of this one, or exactly at its right edge (touching)
			x = x1 + g.r.Range(0, 2)
			n.Kids = append(n.Kids, p)
		}
		if validNode(n) {
			return n
		}
	}
	p, _ := g.polyGeom(o)
	return &lib.Node{Kind: lib.KMPoly, CT: g.ct, Kids: []*lib.Node{p}}
}

// ---------------------------------------------------------------- lines

func (g *gen) walk(o P, k int) []P {
	pts := []P{o}
	for len(pts) < k {
		l := pts[len(pts)-1]
		pts = append(pts, P{l[0] + g.r.Range(-4, 4), l[1] + g.r.Range(-4, 4)})
	}
	return pts
}

func (g *gen) lineGeom(o P) (*lib.Node, string) {
	for try := 0; try < 30; try++ {
		var pts []P
		cls := "open"
		switch g.r.Intn(7) {
		case 0:
			pts = g.walk(o, 2)
			cls = "two"
		case 1:
			pts = g.walk(o, g.r.Range(3, 7))
			pts = append(pts, pts[0])
			cls = "closed"
		case 2: // self-touching: the walk returns to one of its earlier vertices and goes on
			pts = g.walk(o, g.r.Range(3, 6))
			pts = append(pts, pts[g.r.Intn(len(pts)-1)])
			pts = append(pts, g.walk(pts[len(pts)-1], 3)[1:]...)
			cls = "selftouch"
		case 3: // repeated consecutive vertices
			pts = g.walk(o, g.r.Range(2, 5))
			i := g.r.Intn(len(pts))
			pts = append(pts[:i+1], pts[i:]...)
			cls = "dupvertex"
		case 4: // closed and self touching (figure eight through a vertex)
			a := g.walk(o, 3)
			pts = append(a, o, P{o[0] - g.r.Range(1, 3), o[1] - g.r.Range(0, 3)}, P{o[0] - g.r.Range(0, 3), o[1] - g.r.Range(1, 3)}, o)
			cls = "closed_selftouch"
		default:
			pts = g.walk(o, g.r.Range(3, 8))
		}
		n := g.lineNode(pts)
		if validNode(n) {
			return n, cls
		}
	}
	return g.lineNode([]P{o, {o[0] + 1, o[1]}}), "two"
}

// members sharing end points 2, 3, 4 ... ways through a hub, plus closed and empty members
func (g *gen) mlineGeom(o P) (*lib.Node, string) {
	n := &lib.Node{Kind: lib.KMLine, CT: g.ct}
	hub := o
	ways := g.r.Range(0, 5)
	for i := 0; i < ways; i++ {
		pts := g.walk(hub, g.r.Range(2, 4))
		if pts[len(pts)-1] == hub {
			pts[len(pts)-1][0]++
		}
		if g.r.Bool() {
			for a, b := 0, len(pts)-1; a < b; a, b = a+1, b-1 {
				pts[a], pts[b] = pts[b], pts[a]
			}
		}
		ln := g.lineNode(pts)
		if validNode(ln) {
			n.Kids = append(n.Kids, ln)
		}
	}
	extra := g.r.Range(0, 3)
	for i := 0; i < extra; i++ {
		switch g.r.Intn(4) {
		case 0:
			n.Kids = append(n.Kids, g.emptyNode(lib.KLine))
		case 1: // a copy of an earlier member (its end points then count twice)
			if len(n.Kids) > 0 {
				n.Kids = append(n.Kids, n.Kids[g.r.Intn(len(n.Kids))])
			}
		default:
			l, _ := g.lineGeom(P{o[0] + g.r.Range(-5, 5), o[1] + g.r.Range(-5, 5)})
			n.Kids = append(n.Kids, l)
		}
	}
	// shuffle
	for i := len(n.Kids) - 1; i > 0; i-- {
		j := g.r.Intn(i + 1)
		n.Kids[i], n.Kids[j] = n.Kids[j], n.Kids[i]
	}
	return n, fmt.Sprintf("hub%d", ways)
}

func (g *gen) mpointGeom(o P) *lib.Node {
	n := &lib.Node{Kind: lib.KMPoint, CT: g.ct}
	k := g.r.Range(0, 6)
	for i := 0; i < k; i++ {
		switch {
		case g.r.Chance(1, 6):
			n.Kids = append(n.Kids, g.emptyNode(lib.KPoint))
		case len(n.Kids) > 0 && g.r.Chance(1, 6):
			n.Kids = append(n.Kids, n.Kids[g.r.Intn(len(n.Kids))])
		default:
			n.Kids = append(n.Kids, g.pointNode(P{o[0] + g.r.Range(-6, 6), o[1] + g.r.Range(-6, 6)}))
		}
	}
	return n
}

func (g *gen) leaf(kind int, o P) *lib.Node {
	switch kind {
	case 0:
		if g.r.Chance(1, 8) {
			return g.emptyNode(lib.KPoint)
		}
		return g.pointNode(o)
	case 1:
		if g.r.Chance(1, 8) {
			return g.emptyNode(lib.KLine)
		}
		n, _ := g.lineGeom(o)
		return n
	case 2:
		if g.r.Chance(1, 8) {
			return g.emptyNode(lib.KPoly)
		}
		n, _ := g.polyGeom(o)
		return n
	case 3:
		return g.mpointGeom(o)
	case 4:
		n, _ := g.mlineGeom(o)
		return n
	default:
		if g.r.Chance(1, 8) {
			return g.emptyNode(lib.KMPoly)
		}
		return g.mpolyGeom(o)
	}
}

func (g *gen) coll(o P, depth int) *lib.Node {
	n := &lib.Node{Kind: lib.KColl, CT: g.ct}
	k := g.r.Range(0, 4)
	// the highest dimension present is drawn first so that all three occur as the maximum
	maxKind := [][]int{{0, 3}, {0, 1, 3, 4}, {0, 1, 2, 3, 4, 5}}[g.r.Intn(3)]
	for i := 0; i < k; i++ {
		oo := P{o[0] + g.r.Range(-20, 20), o[1] + g.r.Range(-20, 20)}
		if depth < 2 && g.r.Chance(1, 6) {
			n.Kids = append(n.Kids, g.coll(oo, depth+1))
			continue
		}
		n.Kids = append(n.Kids, g.leaf(maxKind[g.r.Intn(len(maxKind))], oo))
	}
	return n
}

// emptyNest builds collections in which an ALL-EMPTY sub-collection (nested 1..3 deep) holds typed
// empties of every dimension (mixed coordinate types), next to non-empty siblings of a lower
// dimension, typed empties as direct children, or nothing else (the whole collection empty):
// Dimension counts typed empties wherever they sit, IsEmpty / Boundary / PointOnSurface ignore them.
func (g *gen) emptyNest(o P) (*lib.Node, string) {
	r := g.r
	ct := func() geom.CoordinatesType {
		if r.Chance(1, 2) {
			return g.ct
		}
		return geom.CoordinatesType(r.Intn(4))
	}
	kinds := []lib.Kind{lib.KPoint, lib.KLine, lib.KPoly, lib.KMPoint, lib.KMLine, lib.KMPoly}
	dimOf := map[lib.Kind]int{lib.KPoint: 0, lib.KMPoint: 0, lib.KLine: 1, lib.KMLine: 1, lib.KPoly: 2, lib.KMPoly: 2}
	typedEmpty := func(k lib.Kind) *lib.Node {
		n := &lib.Node{Kind: k, CT: ct()}
		if k >= lib.KMPoint && r.Chance(1, 2) { // a Multi* whose members are all empty
			m := map[lib.Kind]lib.Kind{lib.KMPoint: lib.KPoint, lib.KMLine: lib.KLine, lib.KMPoly: lib.KPoly}[k]
			for j := r.Range(1, 2); j > 0; j-- {
				n.Kids = append(n.Kids, &lib.Node{Kind: m, CT: n.CT})
			}
		}
		return n
	}
	// the all-empty sub-collection: typed empties up to dimension top, wrapped 0..2 more times
	top := r.Range(1, 2)
	inner := &lib.Node{Kind: lib.KColl, CT: ct()}
	have := false
	for j := r.Range(1, 3); j > 0; j-- {
		k := kinds[r.Intn(len(kinds))]
		if dimOf[k] > top {
			continue
		}
		if dimOf[k] == top {
			have = true
		}
		inner.Kids = append(inner.Kids, typedEmpty(k))
	}
	if !have {
		inner.Kids = append(inner.Kids, typedEmpty([]lib.Kind{lib.KLine, lib.KPoly}[top-1]))
	}
	depth := r.Range(1, 3)
	for d := 1; d < depth; d++ {
		w := &lib.Node{Kind: lib.KColl, CT: ct(), Kids: []*lib.Node{inner}}
		if r.Chance(1, 3) {
			w.Kids = append(w.Kids, &lib.Node{Kind: lib.KColl, CT: ct()})
		}
		inner = w
	}
	n := &lib.Node{Kind: lib.KColl, CT: ct()}
	shape := ""
	switch r.Intn(4) {
	case 0: // the whole collection is empty
		n.Kids = []*lib.Node{inner}
		if r.Bool() {
			n.Kids = append(n.Kids, typedEmpty(kinds[r.Intn(len(kinds))]))
		}
		shape = "all_empty"
	default: // non-empty siblings of a lower dimension than the typed empties inside
		sib := g.leaf([]int{0, 3}[r.Intn(2)], o)
		if top == 2 && r.Bool() {
			sib = g.leaf([]int{1, 4}[r.Intn(2)], o)
		}
		n.Kids = []*lib.Node{inner, sib}
		if r.Bool() {
			n.Kids[0], n.Kids[1] = n.Kids[1], n.Kids[0]
		}
		if r.Chance(1, 3) {
			n.Kids = append(n.Kids, g.leaf(0, P{o[0] + 3, o[1] - 2}))
		}
		shape = fmt.Sprintf("lower_siblings_top%d", top)
	}
	return n, fmt.Sprintf("%s_depth%d", shape, depth)
}

// ---------------------------------------------------------------- invalid inputs (model only)

func (g *gen) invalidPoly(o P) *lib.Node {
	switch g.r.Intn(4) {
	case 0: // flat: all control points on one row (the adjusted bisector ordinate is +Inf)
		return g.polyNode([][]P{{{o[0], o[1]}, {o[0] + 2, o[1]}, {o[0] + 5, o[1]}}})
	case 1: // bow tie
		return g.polyNode([][]P{{{o[0], o[1]}, {o[0] + 4, o[1] + 4}, {o[0] + 4, o[1]}, {o[0], o[1] + 4}}})
	case 2: // hole outside the shell
		return g.polyNode([][]P{{{o[0], o[1]}, {o[0] + 4, o[1]}, {o[0] + 4, o[1] + 4}, {o[0], o[1] + 4}},
			{{o[0] + 6, o[1] + 1}, {o[0] + 8, o[1] + 1}, {o[0] + 7, o[1] + 3}}})
	default: // spike touching the centre row
		return g.polyNode([][]P{{{o[0], o[1]}, {o[0] + 4, o[1]}, {o[0] + 4, o[1] + 2}, {o[0] + 6, o[1] + 2}, {o[0] + 4, o[1] + 2}, {o[0] + 4, o[1] + 4}, {o[0], o[1] + 4}}})
	}
}

// ---------------------------------------------------------------- non-lattice variant

// mapXY applies x -> x*s+y*kx+tx, y -> y*s+x*ky+ty (rounded to float64) to every control point;
// with a shear (kx, ky != 0) no two control points share a row any more: general position
func mapXY(n *lib.Node, s, kx, ky, tx, ty float64) *lib.Node {
	m := &lib.Node{Kind: n.Kind, CT: n.CT, Full: n.Full}
	for _, c := range n.C {
		m.C = append(m.C, [4]float64{c[0]*s + c[1]*kx + tx, c[1]*s + c[0]*ky + ty, c[2], c[3]})
	}
	for _, k := range n.Kids {
		m.Kids = append(m.Kids, mapXY(k, s, kx, ky, tx, ty))
	}
	return m
}

// nearRow builds valid float polygons with a control point a few ulps away from the centre row of
// the envelope, reached by two steep edges: the two crossings of the bisector next to that point
// are closer together than the spacing of float64 and may round to the same abscissa.
func (g *gen) nearRow() (*lib.Node, string) {
	r := g.r
	W := float64(r.Range(4, 40))
	H := float64(2 * r.Range(1, 20))
	ox, oy := float64(r.Range(-50, 50)), float64(r.Range(-50, 50))
	m := oy + H/2
	c := ox + W/2 + float64(r.Range(-1, 1))*W/8
	w := []float64{0.5, 0.1, 0.01, 1.0 / 3, 1}[r.Intn(5)] * W / 8
	y := m
	up := r.Bool()
	for k := r.Range(1, 3); k > 0; k-- {
		if up {
			y = math.Nextafter(y, math.Inf(1))
		} else {
			y = math.Nextafter(y, math.Inf(-1))
		}
	}
	f := func(pts ...[2]float64) *lib.Node {
		n := &lib.Node{Kind: lib.KLine, CT: g.ct}
		for _, p := range append(pts, pts[0]) {
			n.C = append(n.C, [4]float64{p[0], p[1], float64(r.Range(-9, 9)), float64(r.Range(-9, 9))})
		}
		return n
	}
	poly := &lib.Node{Kind: lib.KPoly, CT: g.ct}
	kind := ""
	switch r.Intn(3) {
	case 0: // spike from the bottom edge
		poly.Kids = []*lib.Node{f([2]float64{ox, oy}, [2]float64{c - w, oy}, [2]float64{c, y}, [2]float64{c + w, oy},
			[2]float64{ox + W, oy}, [2]float64{ox + W, oy + H}, [2]float64{ox, oy + H})}
		kind = "spike"
	case 1: // notch from the top edge
		poly.Kids = []*lib.Node{f([2]float64{ox, oy}, [2]float64{ox + W, oy}, [2]float64{ox + W, oy + H}, [2]float64{c + w, oy + H},
			[2]float64{c, y}, [2]float64{c - w, oy + H}, [2]float64{ox, oy + H})}
		kind = "notch"
	default: // triangular hole with its apex next to the row
		base := oy + H/4
		if !up && r.Bool() {
			base = oy + 3*H/4
		}
		poly.Kids = []*lib.Node{f([2]float64{ox, oy}, [2]float64{ox + W, oy}, [2]float64{ox + W, oy + H}, [2]float64{ox, oy + H}),
			f([2]float64{c - w, base}, [2]float64{c + w, base}, [2]float64{c, y})}
		kind = "hole"
	}
	if up {
		kind += "_above"
	} else {
		kind += "_below"
	}
	return poly, kind
}

// sliver builds valid polygons at magnitude 1e16 (float64 spacing 2) that are thinner than the
// spacing along the bisector: both crossings round to the same abscissa. Wrapped as Polygon,
// MultiPolygon or a collection. Only the emptiness and "intersects" clauses are judged on them.
func (g *gen) sliver() (*lib.Node, string) {
	r := g.r
	tri := func() *lib.Node {
		x0 := 1e16 + 2*float64(r.Range(0, 500))
		y0 := float64(r.Range(-3, 3))
		n := &lib.Node{Kind: lib.KLine, CT: g.ct}
		pts := [][2]float64{{x0 + 10, y0 + 2}, {x0 + 4, y0}, {x0 + 8, y0}}
		if r.Bool() {
			pts = [][2]float64{{x0 + 6, y0}, {x0 + 10, y0}, {x0 + 4, y0 + 2}}
		}
		for _, p := range append(pts, pts[0]) {
			n.C = append(n.C, [4]float64{p[0], p[1], float64(r.Range(-9, 9)), float64(r.Range(-9, 9))})
		}
		return &lib.Node{Kind: lib.KPoly, CT: g.ct, Kids: []*lib.Node{n}}
	}
	switch r.Intn(4) {
	case 0:
		return tri(), "polygon"
	case 1:
		return &lib.Node{Kind: lib.KMPoly, CT: g.ct, Kids: []*lib.Node{tri()}}, "multipolygon1"
	case 2:
		return &lib.Node{Kind: lib.KMPoly, CT: g.ct, Kids: []*lib.Node{g.emptyNode(lib.KPoly), tri()}}, "multipolygon_with_empty"
	default:
		return &lib.Node{Kind: lib.KColl, CT: g.ct, Kids: []*lib.Node{
			{Kind: lib.KMPoly, CT: g.ct, Kids: []*lib.Node{tri()}}, g.pointNode(P{r.Range(-5, 5), r.Range(-5, 5)})}}, "collection"
	}
}

// ---------------------------------------------------------------- observations

func bits(f float64) string { return fmt.Sprintf("%016x", math.Float64bits(f)) }

func pointDump(p geom.Point) string {
	var sb strings.Builder
	lib.DumpPoint(&sb, p)
	return strings.TrimSpace(sb.String())
}

func concreteBoundary(g geom.Geometry) geom.Geometry {
	switch g.Type() {
	case geom.TypePoint:
		return g.MustAsPoint().Boundary().AsGeometry()
	case geom.TypeLineString:
		return g.MustAsLineString().Boundary().AsGeometry()
	case geom.TypePolygon:
		return g.MustAsPolygon().Boundary().AsGeometry()
	case geom.TypeMultiPoint:
		return g.MustAsMultiPoint().Boundary().AsGeometry()
	case geom.TypeMultiLineString:
		return g.MustAsMultiLineString().Boundary().AsGeometry()
	case geom.TypeMultiPolygon:
		return g.MustAsMultiPolygon().Boundary().AsGeometry()
	default:
		return g.MustAsGeometryCollection().Boundary().AsGeometry()
	}
}

func concretePos(g geom.Geometry) geom.Point {
	switch g.Type() {
	case geom.TypePoint:
		return g.MustAsPoint().PointOnSurface()
	case geom.TypeLineString:
		return g.MustAsLineString().PointOnSurface()
	case geom.TypePolygon:
		return g.MustAsPolygon().PointOnSurface()
	case geom.TypeMultiPoint:
		return g.MustAsMultiPoint().PointOnSurface()
	case geom.TypeMultiLineString:
		return g.MustAsMultiLineString().PointOnSurface()
	case geom.TypeMultiPolygon:
		return g.MustAsMultiPolygon().PointOnSurface()
	default:
		return g.MustAsGeometryCollection().PointOnSurface()
	}
}

func leavesOf(g geom.Geometry, out *[]geom.Geometry) {
	if g.IsGeometryCollection() {
		gc := g.MustAsGeometryCollection()
		for i := 0; i < gc.NumGeometries(); i++ {
			leavesOf(gc.GeometryN(i), out)
		}
		return
	}
	*out = append(*out, g)
}

func nodeObs(g geom.Geometry) string {
	cen := "E"
	if xy, ok := g.Centroid().XY(); ok {
		cen = bits(xy.X) + ":" + bits(xy.Y)
	}
	pos := pointDump(g.PointOnSurface())
	disp := "ok"
	if pointDump(concretePos(g)) != pos {
		disp = "differs"
	}
	return cen + ";" + pos + ";" + disp
}

func b2i(b bool) int {
	if b {
		return 1
	}
	return 0
}

func main() {
	a := lib.ParseArgs()
	w, done := a.Output()
	defer done()
	root := lib.NewRng(a.Seed)
	classes := map[string]int{}
	sub := map[string]int{}
	cts := [4]int{}
	valids := 0
	for i := 0; i < a.N; i++ {
		r := root.Fork()
		g := &gen{r: r, ct: geom.CoordinatesType(r.Intn(4))}
		if r.Chance(1, 2) {
			g.ct = geom.DimXY
		}
		cts[int(g.ct)]++
		o := P{r.Range(-1000, 1000), r.Range(-1000, 1000)}
		if r.Chance(2, 3) {
			o = P{r.Range(-12, 12), r.Range(-12, 12)}
		}
		var n *lib.Node
		class := ""
		flags := "lattice"
		switch i % 14 {
		case 12: // large multilinestrings: the mod-2 rule over many distinct end points
			var s string
			n, s = g.bigMlineCase()
			class = "multiline_large"
			sub["bigmline_"+s]++
		case 13: // nested collections with typed empties next to non-empty members at every depth
			var s string
			n, s = g.mixedNestCase(o)
			class = "collection_mixed_nest"
			sub["mixed_nest_"+s]++
		case 0, 1, 2:
			var s string
			n, s = g.polyGeom(o)
			class = "polygon"
			sub["poly_"+s]++
		case 3:
			n = g.mpolyGeom(o)
			class = "multipolygon"
		case 4:
			var s string
			n, s = g.lineGeom(o)
			class = "line"
			sub["line_"+s]++
		case 5, 6:
			var s string
			n, s = g.mlineGeom(o)
			class = "multiline"
			sub["mline_"+s]++
		case 7:
			if r.Bool() {
				n = g.mpointGeom(o)
			} else {
				n = g.leaf(0, o)
			}
			class = "puntal"
		case 8, 9:
			if r.Chance(1, 3) {
				var s string
				n, s = g.emptyNest(o)
				class = "collection_empty_nest"
				sub["empty_nest_"+s]++
			} else {
				n = g.coll(o, 0)
				class = "collection"
			}
		case 10:
			if r.Chance(1, 3) {
				n = g.invalidPoly(o)
				class = "invalid"
			} else {
				n = g.leaf(r.Intn(6), o)
				for k := 0; k < 3 && n.IsEmptyNode(); k++ {
					n = g.leaf(r.Intn(6), o)
				}
				class = "anytype"
			}
		default: // non-lattice image of a lattice geometry (general-position floats)
			if r.Chance(1, 8) { // thinner than the float spacing along the bisector
				var s string
				n, s = g.sliver()
				class = "floats_sliver"
				sub["sliver_"+s]++
				flags = "float,sliver"
				break
			}
			if r.Chance(1, 4) { // floats with a control point a few ulps off the centre row
				var s string
				n, s = g.nearRow()
				class = "floats_near_row"
				sub["near_row_"+s]++
				flags = "float"
				break
			}
			base := g.leaf([]int{1, 2, 2, 2, 4, 5}[r.Intn(6)], o)
			if r.Chance(1, 4) {
				base = g.coll(o, 1)
			}
			s := 0.1*float64(r.Range(1, 40)) + 0.037
			kx, ky := 0.0, 0.0
			class = "floats_scaled"
			if r.Chance(2, 3) {
				kx, ky = float64(r.Range(-30, 30))/211, float64(r.Range(-30, 30))/223
				class = "floats_sheared"
			}
			n = mapXY(base, s, kx, ky, float64(r.Range(-999, 999))/7, float64(r.Range(-999, 999))/13)
			flags = "float"
		}
		geo := n.Build()
		if geo.Validate() == nil {
			flags += ",valid"
			valids++
		}
		if a.Tier == "thorough" {
			flags += ",thorough"
		}
		classes[class]++
		for k, v := range g.notes {
			sub[k] += v
		}
		b := geo.Boundary()
		bc := concreteBoundary(geo)
		bb := b.Boundary()
		dims := fmt.Sprintf("%d,%d,%d,%d", geo.Dimension(), b2i(geo.IsEmpty()), b.Dimension(), b2i(b.IsEmpty()))
		nodes := []geom.Geometry{geo}
		if geo.IsGeometryCollection() {
			leavesOf(geo, &nodes)
		}
		obs := make([]string, len(nodes))
		for k, x := range nodes {
			obs[k] = nodeObs(x)
		}
		fields := []string{fmt.Sprintf("%d", i), class, flags, lib.Dump(geo), lib.Dump(b), lib.Dump(bc), lib.Dump(bb), dims, strings.Join(obs, "|")}
		fmt.Fprintln(w, strings.Join(fields, "\t"))
	}
	js, _ := json.Marshal(map[string]interface{}{"classes": classes, "subclasses": sub, "ctypes": cts, "valid": valids})
	fmt.Fprintf(w, "#GEN\t%s\n", js)
}
