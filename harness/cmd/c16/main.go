// Command c16 runs random operation histories on generated geometries and prints, after every
// step, what the implementation returned (structural dump through public accessors: coordinates
// type at every node, every ordinate as its bit pattern) - property C16.
//
// Case line (tab separated):  id  class  input-description  built-dump  step  step ...
// Step (fields separated by '|'):  name | argument | result-dump | accessor-audit
// A name starting with '?' is a probe: the result is observed, the history continues from the
// previous value.
package main

import (
	"encoding/json"
	"fmt"
	"math"
	"strings"

	"github.com/peterstace/simplefeatures/geom"
	"verifharness/lib"
)

// ---------------------------------------------------------------- accessor audit

type audit struct{ msgs []string }

func (a *audit) add(format string, args ...interface{}) {
	if len(a.msgs) < 3 {
		a.msgs = append(a.msgs, fmt.Sprintf(format, args...))
	}
}

func (a *audit) coords(c geom.Coordinates, want geom.CoordinatesType, where string) {
	if c.Type != want {
		a.add("%s:Coordinates.Type=%d want %d", where, c.Type, want)
	}
	if !want.Is3D() && math.Float64bits(c.Z) != 0 {
		a.add("%s:Z=%v on non-3D", where, c.Z)
	}
	if !want.IsMeasured() && math.Float64bits(c.M) != 0 {
		a.add("%s:M=%v on non-measured", where, c.M)
	}
}

func (a *audit) seq(s geom.Sequence, want geom.CoordinatesType, where string) {
	if s.CoordinatesType() != want {
		a.add("%s:Sequence type=%d want %d", where, s.CoordinatesType(), want)
		return
	}
	for i := 0; i < s.Length(); i++ {
		a.coords(s.Get(i), want, where)
	}
}

func (a *audit) point(p geom.Point, want geom.CoordinatesType, where string) {
	if p.CoordinatesType() != want {
		a.add("%s:Point type=%d want %d", where, p.CoordinatesType(), want)
	}
	c, ok := p.Coordinates()
	if ok {
		a.coords(c, want, where)
	}
	a.seq(p.DumpCoordinates(), want, where+".DumpCoordinates")
}

func (a *audit) line(l geom.LineString, want geom.CoordinatesType, where string) {
	if l.CoordinatesType() != want {
		a.add("%s:LineString type=%d want %d", where, l.CoordinatesType(), want)
	}
	a.seq(l.Coordinates(), want, where)
	a.point(l.StartPoint(), want, where+".StartPoint")
	a.point(l.EndPoint(), want, where+".EndPoint")
}

func (a *audit) poly(p geom.Polygon, want geom.CoordinatesType, where string) {
	if p.CoordinatesType() != want {
		a.add("%s:Polygon type=%d want %d", where, p.CoordinatesType(), want)
	}
	a.line(p.ExteriorRing(), want, where+".ExteriorRing")
	for i := 0; i < p.NumInteriorRings(); i++ {
		a.line(p.InteriorRingN(i), want, where+".InteriorRingN")
	}
	for _, r := range p.DumpRings() {
		a.line(r, want, where+".DumpRings")
	}
	for _, s := range p.Coordinates() {
		a.seq(s, want, where+".Coordinates")
	}
	a.seq(p.DumpCoordinates(), want, where+".DumpCoordinates")
}

// every accessor path must report the coordinates type of the root
func (a *audit) geometry(g geom.Geometry, want geom.CoordinatesType, where string) {
	if g.CoordinatesType() != want {
		a.add("%s:%s type=%d want %d", where, g.Type(), g.CoordinatesType(), want)
	}
	switch g.Type() {
	case geom.TypePoint:
		a.point(g.MustAsPoint(), want, where+".Point")
	case geom.TypeLineString:
		a.line(g.MustAsLineString(), want, where+".LineString")
	case geom.TypePolygon:
		a.poly(g.MustAsPolygon(), want, where+".Polygon")
	case geom.TypeMultiPoint:
		mp := g.MustAsMultiPoint()
		for i := 0; i < mp.NumPoints(); i++ {
			a.point(mp.PointN(i), want, where+".PointN")
		}
		for _, p := range mp.Dump() {
			a.point(p, want, where+".Dump")
		}
		a.seq(mp.Coordinates(), want, where+".Coordinates")
	case geom.TypeMultiLineString:
		ml := g.MustAsMultiLineString()
		for i := 0; i < ml.NumLineStrings(); i++ {
			a.line(ml.LineStringN(i), want, where+".LineStringN")
		}
		for _, s := range ml.Coordinates() {
			a.seq(s, want, where+".Coordinates")
		}
	case geom.TypeMultiPolygon:
		my := g.MustAsMultiPolygon()
		for i := 0; i < my.NumPolygons(); i++ {
			a.poly(my.PolygonN(i), want, where+".PolygonN")
		}
	case geom.TypeGeometryCollection:
		gc := g.MustAsGeometryCollection()
		for i := 0; i < gc.NumGeometries(); i++ {
			a.geometry(gc.GeometryN(i), want, where+".GeometryN")
		}
	}
	for _, d := range g.Dump() {
		if d.CoordinatesType() != want {
			a.add("%s.Dump:%s type=%d want %d", where, d.Type(), d.CoordinatesType(), want)
		}
	}
	a.seq(g.DumpCoordinates(), want, where+".DumpCoordinates")
}

func auditOf(g geom.Geometry) string {
	var a audit
	a.geometry(g, g.CoordinatesType(), "")
	return strings.Join(a.msgs, ";")
}

// ---------------------------------------------------------------- helpers

func allXY(g geom.Geometry, pred func(float64) bool) bool {
	seq := g.DumpCoordinates()
	for i := 0; i < seq.Length(); i++ {
		xy := seq.GetXY(i)
		if !pred(xy.X) || !pred(xy.Y) {
			return false
		}
	}
	return true
}

func allOrdinates(g geom.Geometry, pred func(float64) bool) bool {
	seq := g.DumpCoordinates()
	for i := 0; i < seq.Length(); i++ {
		c := seq.Get(i)
		if !pred(c.X) || !pred(c.Y) || !pred(c.Z) || !pred(c.M) {
			return false
		}
	}
	return true
}

func tame(f float64) bool   { return !math.IsNaN(f) && math.Abs(f) <= 1000 }
func finite(f float64) bool { return !math.IsNaN(f) && !math.IsInf(f, 0) }

func flipSign(f float64) float64  { return math.Float64frombits(math.Float64bits(f) ^ (1 << 63)) }
func clearSign(f float64) float64 { return math.Float64frombits(math.Float64bits(f) &^ (1 << 63)) }

func hexf(f float64) string { return fmt.Sprintf("%016x", math.Float64bits(f)) }

// signs of the signed area of every ring, in traversal order (Polygon rings; MultiPolygon members;
// collections recursively) - observed through the public API: a one-ring polygon's signed area
func ringSigns(g geom.Geometry, sb *strings.Builder) {
	ring := func(r geom.LineString) {
		a := geom.NewPolygon([]geom.LineString{r}).Area(geom.SignedArea)
		switch {
		case a < 0:
			sb.WriteByte('-')
		case a > 0:
			sb.WriteByte('+')
		default:
			sb.WriteByte('0')
		}
	}
	switch g.Type() {
	case geom.TypePolygon:
		for _, r := range g.MustAsPolygon().DumpRings() {
			ring(r)
		}
	case geom.TypeMultiPolygon:
		my := g.MustAsMultiPolygon()
		for i := 0; i < my.NumPolygons(); i++ {
			for _, r := range my.PolygonN(i).DumpRings() {
				ring(r)
			}
		}
	case geom.TypeGeometryCollection:
		gc := g.MustAsGeometryCollection()
		for i := 0; i < gc.NumGeometries(); i++ {
			ringSigns(gc.GeometryN(i), sb)
		}
	}
}

func numMembers(g geom.Geometry) int {
	switch g.Type() {
	case geom.TypePolygon:
		return g.MustAsPolygon().NumRings()
	case geom.TypeMultiPoint:
		return g.MustAsMultiPoint().NumPoints()
	case geom.TypeMultiLineString:
		return g.MustAsMultiLineString().NumLineStrings()
	case geom.TypeMultiPolygon:
		return g.MustAsMultiPolygon().NumPolygons()
	case geom.TypeGeometryCollection:
		return g.MustAsGeometryCollection().NumGeometries()
	}
	return -1
}

func linesOf(seqs []geom.Sequence) []geom.LineString {
	ls := make([]geom.LineString, len(seqs))
	for i, s := range seqs {
		ls[i] = geom.NewLineString(s)
	}
	return ls
}

// ---------------------------------------------------------------- valid shapes (class "shapes")

func zm(r *lib.Rng) (float64, float64) {
	return float64(r.Range(-50, 50)) / 4, float64(r.Range(0, 100))
}

func seqOf(r *lib.Rng, ct geom.CoordinatesType, xys [][2]float64, closeRing bool) geom.Sequence {
	var fl []float64
	var first []float64
	for i, p := range xys {
		z, m := zm(r)
		v := []float64{p[0], p[1]}
		if ct.Is3D() {
			v = append(v, z)
		}
		if ct.IsMeasured() {
			v = append(v, m)
		}
		if i == 0 {
			first = v
		}
		fl = append(fl, v...)
	}
	if closeRing {
		// closed in XY; the closing vertex carries its own Z and M (e.g. a measure along the ring)
		z, m := zm(r)
		v := []float64{first[0], first[1]}
		if ct.Is3D() {
			v = append(v, z)
		}
		if ct.IsMeasured() {
			v = append(v, m)
		}
		fl = append(fl, v...)
	}
	return geom.NewSequence(fl, ct)
}

func shapePoly(r *lib.Rng, ct geom.CoordinatesType) geom.Polygon {
	x0, y0 := float64(r.Range(-6, 6)), float64(r.Range(-6, 6))
	w, h := float64(r.Range(3, 8)), float64(r.Range(3, 8))
	shell := [][2]float64{{x0, y0}, {x0 + w, y0}, {x0 + w, y0 + h}, {x0, y0 + h}}
	if r.Bool() {
		shell = [][2]float64{{x0, y0}, {x0, y0 + h}, {x0 + w, y0 + h}, {x0 + w, y0}}
	}
	rings := []geom.LineString{geom.NewLineString(seqOf(r, ct, shell, true))}
	if r.Chance(1, 3) {
		hole := [][2]float64{{x0 + 1, y0 + 1}, {x0 + 2, y0 + 1}, {x0 + 2, y0 + 2}, {x0 + 1, y0 + 2}}
		rings = append(rings, geom.NewLineString(seqOf(r, ct, hole, true)))
	}
	return geom.NewPolygon(rings)
}

func shapeLine(r *lib.Rng, ct geom.CoordinatesType) geom.LineString {
	n := r.Range(2, 4)
	x, y := float64(r.Range(-8, 8)), float64(r.Range(-8, 8))
	var pts [][2]float64
	for i := 0; i < n; i++ {
		pts = append(pts, [2]float64{x, y})
		x += float64(r.Range(1, 4))
		y += float64(r.Range(-3, 3))
	}
	return geom.NewLineString(seqOf(r, ct, pts, false))
}

func shapePoint(r *lib.Rng, ct geom.CoordinatesType) geom.Point {
	s := seqOf(r, ct, [][2]float64{{float64(r.Range(-8, 8)), float64(r.Range(-8, 8))}}, false)
	return geom.NewPoint(s.Get(0))
}

func genShape(r *lib.Rng, depth int) geom.Geometry {
	ct := geom.CoordinatesType(r.Intn(4))
	k := r.Intn(7)
	if depth == 0 && k == 6 {
		k = r.Intn(6)
	}
	switch k {
	case 0:
		return shapePoint(r, ct).AsGeometry()
	case 1:
		return shapeLine(r, ct).AsGeometry()
	case 2:
		return shapePoly(r, ct).AsGeometry()
	case 3:
		var ps []geom.Point
		for i := r.Range(1, 3); i > 0; i-- {
			ps = append(ps, shapePoint(r, ct))
		}
		if r.Chance(1, 4) {
			ps = append(ps, geom.NewEmptyPoint(ct))
		}
		return geom.NewMultiPoint(ps).AsGeometry()
	case 4:
		var ls []geom.LineString
		for i := r.Range(1, 3); i > 0; i-- {
			ls = append(ls, shapeLine(r, ct))
		}
		return geom.NewMultiLineString(ls).AsGeometry()
	case 5:
		// two disjoint rectangles
		a := shapePoly(r, ct)
		b := shapePoly(r, ct).TransformXY(func(p geom.XY) geom.XY { return geom.XY{X: p.X + 40, Y: p.Y} })
		return geom.NewMultiPolygon([]geom.Polygon{a, b}).AsGeometry()
	default:
		var gs []geom.Geometry
		for i := r.Range(1, 3); i > 0; i-- {
			gs = append(gs, genShape(r, depth-1).ForceCoordinatesType(ct))
		}
		return geom.NewGeometryCollection(gs).AsGeometry()
	}
}

// ownClosurePayload gives the closing vertex of XY-closed sequences (rings, closed lines) its own
// Z and M: closure is a statement about XY only.
func ownClosurePayload(n *lib.Node, r *lib.Rng) {
	if n.Kind == lib.KLine && len(n.C) > 1 && r.Bool() {
		last := len(n.C) - 1
		if n.C[0][0] == n.C[last][0] && n.C[0][1] == n.C[last][1] {
			if n.CT.Is3D() {
				n.C[last][2] = float64(r.Range(-40, 40)) / 4
			}
			if n.CT.IsMeasured() {
				n.C[last][3] = float64(r.Range(0, 400)) / 4
			}
		}
	}
	for _, k := range n.Kids {
		ownClosurePayload(k, r)
	}
}

// ---------------------------------------------------------------- class "junk"
// Points built through NewPoint(Coordinates{...}) whose Z/M fields hold values although the
// coordinates type does not have them: bare, as members of NewMultiPoint and of
// NewGeometryCollection with mixed types. Everything else is built as lib.Node.Build does.

var junkValues = []float64{7, -3.5, 9, math.NaN(), math.Inf(1), math.Inf(-1), 1e300, math.Copysign(0, -1)}

func flatOf(c [][4]float64, ct geom.CoordinatesType) []float64 {
	var out []float64
	for _, v := range c {
		out = append(out, v[0], v[1])
		if ct.Is3D() {
			out = append(out, v[2])
		}
		if ct.IsMeasured() {
			out = append(out, v[3])
		}
	}
	return out
}

type junkBuilder struct {
	r      *lib.Rng
	probes []string // "?newpoint|..." records, one per point constructed
	made   int
}

func (b *junkBuilder) point(n *lib.Node) geom.Point {
	if !n.Full {
		return geom.NewEmptyPoint(n.CT)
	}
	c := geom.Coordinates{XY: geom.XY{X: n.C[0][0], Y: n.C[0][1]}, Z: n.C[0][2], M: n.C[0][3], Type: n.CT}
	if !n.CT.Is3D() && b.r.Chance(3, 4) {
		c.Z = junkValues[b.r.Intn(len(junkValues))]
	}
	if !n.CT.IsMeasured() && b.r.Chance(3, 4) {
		c.M = junkValues[b.r.Intn(len(junkValues))]
	}
	p := geom.NewPoint(c)
	b.made++
	if len(b.probes) < 4 {
		o, _ := p.Coordinates()
		arg := strings.Join([]string{fmt.Sprint(int(n.CT)), hexf(c.X), hexf(c.Y), hexf(c.Z), hexf(c.M),
			fmt.Sprint(int(o.Type)), hexf(o.X), hexf(o.Y), hexf(o.Z), hexf(o.M)}, ",")
		b.probes = append(b.probes, strings.Join([]string{"?newpoint", arg, lib.Dump(p.AsGeometry()), auditOf(p.AsGeometry())}, "|"))
	}
	return p
}

func (b *junkBuilder) line(n *lib.Node) geom.LineString {
	return geom.NewLineString(geom.NewSequence(flatOf(n.C, n.CT), n.CT))
}

func (b *junkBuilder) poly(n *lib.Node) geom.Polygon {
	if len(n.Kids) == 0 {
		return geom.Polygon{}.ForceCoordinatesType(n.CT)
	}
	rings := make([]geom.LineString, len(n.Kids))
	for i, k := range n.Kids {
		rings[i] = b.line(k)
	}
	return geom.NewPolygon(rings)
}

func (b *junkBuilder) build(n *lib.Node) geom.Geometry {
	switch n.Kind {
	case lib.KPoint:
		return b.point(n).AsGeometry()
	case lib.KLine:
		return b.line(n).AsGeometry()
	case lib.KPoly:
		return b.poly(n).AsGeometry()
	case lib.KMPoint:
		if len(n.Kids) == 0 {
			return geom.MultiPoint{}.ForceCoordinatesType(n.CT).AsGeometry()
		}
		ps := make([]geom.Point, len(n.Kids))
		for i, k := range n.Kids {
			ps[i] = b.point(k)
		}
		return geom.NewMultiPoint(ps).AsGeometry()
	case lib.KMLine:
		if len(n.Kids) == 0 {
			return geom.MultiLineString{}.ForceCoordinatesType(n.CT).AsGeometry()
		}
		ls := make([]geom.LineString, len(n.Kids))
		for i, k := range n.Kids {
			ls[i] = b.line(k)
		}
		return geom.NewMultiLineString(ls).AsGeometry()
	case lib.KMPoly:
		if len(n.Kids) == 0 {
			return geom.MultiPolygon{}.ForceCoordinatesType(n.CT).AsGeometry()
		}
		ps := make([]geom.Polygon, len(n.Kids))
		for i, k := range n.Kids {
			ps[i] = b.poly(k)
		}
		return geom.NewMultiPolygon(ps).AsGeometry()
	default:
		if len(n.Kids) == 0 {
			return geom.GeometryCollection{}.ForceCoordinatesType(n.CT).AsGeometry()
		}
		gs := make([]geom.Geometry, len(n.Kids))
		for i, k := range n.Kids {
			gs[i] = b.build(k)
		}
		return geom.NewGeometryCollection(gs).AsGeometry()
	}
}

// ---------------------------------------------------------------- one step

type stepOut struct {
	name, arg string
	res       geom.Geometry
	ok        bool   // false: result is not a geometry (ERR / PANIC / skipped)
	status    string // when !ok
	probe     bool
}

var opNames = []string{
	"force", "force2d", "reverse", "tx", "cw", "ccw", "asmulti", "member", "startpoint", "endpoint",
	"dumpcoll", "dumpcoords", "dumprings", "coords", "rebuild", "wkb", "wkt", "txf", "snap", "densify",
	"simplify", "centroid", "hull", "pos", "env", "boundary", "setop", "interp",
}

// otherCT is a coordinate type different from ct (used to refill a slice that was handed to a constructor).
func otherCT(ct geom.CoordinatesType) geom.CoordinatesType {
	if ct == geom.DimXY {
		return geom.DimXYZ
	}
	return geom.DimXY
}

func protect(f func() (geom.Geometry, error)) (g geom.Geometry, status string) {
	defer func() {
		if e := recover(); e != nil {
			status = "PANIC"
		}
	}()
	g, err := f()
	if err != nil {
		return g, "ERR"
	}
	return g, ""
}

// step draws one applicable operation and runs it; returns nil when the drawn operation does not
// apply to the current value (the caller draws again).
func step(r *lib.Rng, g geom.Geometry, class string, opCount map[string]int) *stepOut {
	name := opNames[r.Intn(len(opNames))]
	out := &stepOut{name: name}
	t := g.Type()
	isTame := allXY(g, tame)
	switch name {
	case "force":
		c := geom.CoordinatesType(r.Intn(4))
		out.arg = fmt.Sprint(int(c))
		out.res, out.ok = g.ForceCoordinatesType(c), true
	case "force2d":
		out.res, out.ok = g.Force2D(), true
	case "reverse":
		out.res, out.ok = g.Reverse(), true
	case "tx":
		kinds := []string{"id", "swap", "negx", "negy", "abs", "rot90", "const"}
		k := kinds[r.Intn(len(kinds))]
		out.arg = k
		var fn func(geom.XY) geom.XY
		switch k {
		case "id":
			fn = func(p geom.XY) geom.XY { return p }
		case "swap":
			fn = func(p geom.XY) geom.XY { return geom.XY{X: p.Y, Y: p.X} }
		case "negx":
			fn = func(p geom.XY) geom.XY { return geom.XY{X: flipSign(p.X), Y: p.Y} }
		case "negy":
			fn = func(p geom.XY) geom.XY { return geom.XY{X: p.X, Y: flipSign(p.Y)} }
		case "abs":
			fn = func(p geom.XY) geom.XY { return geom.XY{X: clearSign(p.X), Y: clearSign(p.Y)} }
		case "rot90":
			fn = func(p geom.XY) geom.XY { return geom.XY{X: flipSign(p.Y), Y: p.X} }
		default:
			cx, cy := float64(r.Range(-5, 5)), float64(r.Range(-5, 5))
			out.arg = "const," + hexf(cx) + "," + hexf(cy)
			fn = func(geom.XY) geom.XY { return geom.XY{X: cx, Y: cy} }
		}
		out.res, out.ok = g.TransformXY(fn), true
	case "txf":
		// arithmetic callbacks: the model side rebuilds the function from the observed
		// (input XY -> output XY) pairs, which must form a function
		if !allXY(g, finite) {
			return nil
		}
		k := r.Intn(3)
		dx, dy := float64(r.Range(-7, 7))/2, float64(r.Range(-7, 7))/2
		var fn func(geom.XY) geom.XY
		switch k {
		case 0:
			out.arg = "translate"
			fn = func(p geom.XY) geom.XY { return geom.XY{X: p.X + dx, Y: p.Y + dy} }
		case 1:
			out.arg = "scale"
			fn = func(p geom.XY) geom.XY { return geom.XY{X: p.X * 3, Y: p.Y * 0.5} }
		default:
			out.arg = "shear"
			fn = func(p geom.XY) geom.XY { return geom.XY{X: p.X + dx*p.Y, Y: p.Y} }
		}
		out.res, out.ok = g.TransformXY(fn), true
	case "cw", "ccw":
		if t != geom.TypePolygon && t != geom.TypeMultiPolygon && t != geom.TypeGeometryCollection && !r.Chance(1, 4) {
			return nil
		}
		var sb strings.Builder
		ringSigns(g, &sb)
		out.arg = sb.String()
		if name == "cw" {
			out.res = g.ForceCW()
		} else {
			out.res = g.ForceCCW()
		}
		out.ok = true
	case "asmulti":
		switch t {
		case geom.TypePoint:
			out.res = g.MustAsPoint().AsMultiPoint().AsGeometry()
		case geom.TypeLineString:
			out.res = g.MustAsLineString().AsMultiLineString().AsGeometry()
		case geom.TypePolygon:
			out.res = g.MustAsPolygon().AsMultiPolygon().AsGeometry()
		default:
			return nil
		}
		out.ok = true
	case "member":
		n := numMembers(g)
		if n < 0 || (n == 0 && t != geom.TypePolygon) {
			return nil
		}
		i := 0
		if n > 0 {
			i = r.Intn(n)
		}
		out.arg = fmt.Sprint(i)
		switch t {
		case geom.TypePolygon:
			if i == 0 {
				out.res = g.MustAsPolygon().ExteriorRing().AsGeometry()
			} else {
				out.res = g.MustAsPolygon().InteriorRingN(i - 1).AsGeometry()
			}
		case geom.TypeMultiPoint:
			out.res = g.MustAsMultiPoint().PointN(i).AsGeometry()
		case geom.TypeMultiLineString:
			out.res = g.MustAsMultiLineString().LineStringN(i).AsGeometry()
		case geom.TypeMultiPolygon:
			out.res = g.MustAsMultiPolygon().PolygonN(i).AsGeometry()
		default:
			out.res = g.MustAsGeometryCollection().GeometryN(i)
		}
		out.ok = true
		// keep the history on the big value most of the time
		out.probe = !r.Chance(1, 3)
	case "startpoint", "endpoint":
		if t != geom.TypeLineString {
			return nil
		}
		if name == "startpoint" {
			out.res = g.MustAsLineString().StartPoint().AsGeometry()
		} else {
			out.res = g.MustAsLineString().EndPoint().AsGeometry()
		}
		out.ok = true
		out.probe = !r.Chance(1, 3)
	case "dumpcoll":
		out.res, out.ok = geom.NewGeometryCollection(g.Dump()).AsGeometry(), true
		out.probe = r.Bool()
	case "dumpcoords":
		out.res, out.ok = geom.NewLineString(g.DumpCoordinates()).AsGeometry(), true
		out.probe = !r.Chance(1, 3)
	case "dumprings":
		if t != geom.TypePolygon {
			return nil
		}
		out.res, out.ok = geom.NewMultiLineString(g.MustAsPolygon().DumpRings()).AsGeometry(), true
		out.probe = r.Bool()
	case "coords":
		switch t {
		case geom.TypePoint:
			p := g.MustAsPoint()
			if c, ok := p.Coordinates(); ok {
				out.res = geom.NewPoint(c).AsGeometry()
			} else {
				out.res = geom.NewEmptyPoint(c.Type).AsGeometry()
			}
		case geom.TypeLineString:
			out.res = geom.NewLineString(g.MustAsLineString().Coordinates()).AsGeometry()
		case geom.TypePolygon:
			out.res = geom.NewMultiLineString(linesOf(g.MustAsPolygon().Coordinates())).AsGeometry()
		case geom.TypeMultiPoint:
			out.res = geom.NewLineString(g.MustAsMultiPoint().Coordinates()).AsGeometry()
		case geom.TypeMultiLineString:
			out.res = geom.NewMultiLineString(linesOf(g.MustAsMultiLineString().Coordinates())).AsGeometry()
		case geom.TypeMultiPolygon:
			var ps []geom.Polygon
			for _, seqs := range g.MustAsMultiPolygon().Coordinates() {
				ps = append(ps, geom.NewPolygon(linesOf(seqs)))
			}
			out.res = geom.NewMultiPolygon(ps).AsGeometry()
		default:
			return nil
		}
		out.ok = true
		out.probe = r.Bool()
	case "rebuild":
		n := numMembers(g)
		if n < 0 {
			return nil
		}
		cts := make([]geom.CoordinatesType, n)
		var sb strings.Builder
		same := geom.CoordinatesType(r.Intn(4))
		for i := range cts {
			// mostly the parent's type, so that the AND keeps something
			switch r.Intn(4) {
			case 0:
				cts[i] = geom.CoordinatesType(r.Intn(4))
			case 1:
				cts[i] = same
			default:
				cts[i] = g.CoordinatesType()
			}
			fmt.Fprintf(&sb, "%d", int(cts[i]))
		}
		out.arg = sb.String()
		switch t {
		case geom.TypePolygon:
			rs := g.MustAsPolygon().DumpRings()
			for i := range rs {
				rs[i] = rs[i].ForceCoordinatesType(cts[i])
			}
			out.res = geom.NewPolygon(rs).AsGeometry()
			// the caller reuses its slice for the next geometry (a constructor must not retain it)
			for i := range rs {
				rs[i] = rs[i].ForceCoordinatesType(otherCT(out.res.CoordinatesType()))
			}
			_ = geom.NewPolygon(rs)
		case geom.TypeMultiPoint:
			ps := g.MustAsMultiPoint().Dump()
			for i := range ps {
				ps[i] = ps[i].ForceCoordinatesType(cts[i])
			}
			out.res = geom.NewMultiPoint(ps).AsGeometry()
			for i := range ps {
				ps[i] = ps[i].ForceCoordinatesType(otherCT(out.res.CoordinatesType()))
			}
			_ = geom.NewMultiPoint(ps)
		case geom.TypeMultiLineString:
			ls := g.MustAsMultiLineString().Dump()
			for i := range ls {
				ls[i] = ls[i].ForceCoordinatesType(cts[i])
			}
			out.res = geom.NewMultiLineString(ls).AsGeometry()
			for i := range ls {
				ls[i] = ls[i].ForceCoordinatesType(otherCT(out.res.CoordinatesType()))
			}
			_ = geom.NewMultiLineString(ls)
		case geom.TypeMultiPolygon:
			ps := g.MustAsMultiPolygon().Dump()
			for i := range ps {
				ps[i] = ps[i].ForceCoordinatesType(cts[i])
			}
			out.res = geom.NewMultiPolygon(ps).AsGeometry()
			for i := range ps {
				ps[i] = ps[i].ForceCoordinatesType(otherCT(out.res.CoordinatesType()))
			}
			_ = geom.NewMultiPolygon(ps)
		default:
			gc := g.MustAsGeometryCollection()
			gs := make([]geom.Geometry, n)
			for i := range gs {
				gs[i] = gc.GeometryN(i).ForceCoordinatesType(cts[i])
			}
			out.res = geom.NewGeometryCollection(gs).AsGeometry()
			for i := range gs {
				gs[i] = gs[i].ForceCoordinatesType(otherCT(out.res.CoordinatesType()))
			}
			_ = geom.NewGeometryCollection(gs)
		}
		out.ok = true
	case "wkb":
		res, st := protect(func() (geom.Geometry, error) { return geom.UnmarshalWKB(g.AsBinary(), geom.NoValidate{}) })
		out.res, out.status, out.ok = res, st, st == ""
	case "wkt":
		if !allOrdinates(g, finite) {
			return nil
		}
		res, st := protect(func() (geom.Geometry, error) { return geom.UnmarshalWKT(g.AsText(), geom.NoValidate{}) })
		out.res, out.status, out.ok = res, st, st == ""
	case "snap":
		dp := r.Range(-2, 3)
		out.arg = fmt.Sprint(dp)
		out.res, out.ok = g.SnapToGrid(dp), true
	case "densify":
		if !isTame {
			return nil
		}
		d := []float64{0.4, 1, 2.5, 7, 100}[r.Intn(5)]
		out.arg = fmt.Sprint(d)
		res, st := protect(func() (geom.Geometry, error) { return g.Densify(d), nil })
		out.res, out.status, out.ok = res, st, st == ""
	case "simplify":
		if !allXY(g, finite) {
			return nil
		}
		th := []float64{0, 0.5, 2, 1000}[r.Intn(4)]
		out.arg = fmt.Sprint(th)
		res, st := protect(func() (geom.Geometry, error) { return g.Simplify(th, geom.NoValidate{}) })
		out.res, out.status, out.ok = res, st, st == ""
	case "centroid", "hull", "pos", "env", "boundary":
		if !isTame {
			return nil
		}
		res, st := protect(func() (geom.Geometry, error) {
			switch name {
			case "centroid":
				return g.Centroid().AsGeometry(), nil
			case "hull":
				return g.ConvexHull(), nil
			case "pos":
				return g.PointOnSurface().AsGeometry(), nil
			case "env":
				return g.Envelope().AsGeometry(), nil
			default:
				return g.Boundary(), nil
			}
		})
		out.res, out.status, out.ok = res, st, st == ""
		out.probe = !r.Chance(1, 4)
	case "setop":
		if class != "shapes" || !isTame {
			return nil
		}
		b := genShape(r, 0)
		k := r.Intn(5)
		out.arg = []string{"union", "intersection", "difference", "symdiff", "unary"}[k]
		res, st := protect(func() (geom.Geometry, error) {
			if g.Validate() != nil {
				return geom.Geometry{}, fmt.Errorf("invalid operand")
			}
			switch k {
			case 0:
				return geom.Union(g, b)
			case 1:
				return geom.Intersection(g, b)
			case 2:
				return geom.Difference(g, b)
			case 3:
				return geom.SymmetricDifference(g, b)
			default:
				return geom.UnaryUnion(g)
			}
		})
		out.res, out.status, out.ok = res, st, st == ""
		out.probe = !r.Chance(1, 4)
	case "interp":
		if t != geom.TypeLineString || !isTame {
			return nil
		}
		fr := []float64{0, 0.25, 0.5, 0.37, 1}[r.Intn(5)]
		out.arg = fmt.Sprint(fr)
		res, st := protect(func() (geom.Geometry, error) {
			return g.MustAsLineString().InterpolatePoint(fr).AsGeometry(), nil
		})
		out.res, out.status, out.ok = res, st, st == ""
		out.probe = true
		// a NaN position is finding F9 (property C17: 0/0 on a zero-length segment); such a
		// result is not a location and is not observed here
		if out.ok && !allXY(res, finite) {
			out.status, out.ok = "NANXY", false
		}
	}
	opCount[name]++
	return out
}

func main() {
	a := lib.ParseArgs()
	w, done := a.Output()
	defer done()
	root := lib.NewRng(a.Seed)
	var st lib.GenStats
	classes := map[string]int{}
	opCount := map[string]int{}
	status := map[string]int{}
	steps := 0
	junkPoints := 0
	for i := 0; i < a.N; i++ {
		r := root.Fork()
		cfg := lib.StructCfg{MaxDepth: 3, NonFinZM: true, MaxKids: 3, MaxVerts: 5}
		class := "wf"
		switch i % 10 {
		case 3:
			cfg.MixedCT = true
			class = "junk"
		case 4, 5:
			cfg.MixedCT = true
			class = "mixedct"
		case 6, 7:
			cfg.SmallInts = true
			cfg.MixedCT = i%10 == 7
			class = "smallint"
		case 8, 9:
			class = "shapes"
		}
		classes[class]++
		var g geom.Geometry
		var junkProbes []string
		desc := "-"
		if class == "shapes" {
			g = genShape(r, 2)
		} else {
			kind := lib.Kind(r.Intn(7))
			if class == "junk" {
				// kinds that hold points: Point, MultiPoint, GeometryCollection
				kind = []lib.Kind{lib.KPoint, lib.KMPoint, lib.KMPoint, lib.KColl, lib.KColl}[r.Intn(5)]
			}
			n := cfg.GenKind(r, kind, &st)
			ownClosurePayload(n, r)
			desc = n.Dump()
			if class == "junk" {
				jb := &junkBuilder{r: r}
				g = jb.build(n)
				junkProbes = jb.probes
				junkPoints += jb.made
			} else {
				g = n.Build()
			}
		}
		fields := []string{fmt.Sprint(i), class, desc, lib.Dump(g) + "|" + auditOf(g)}
		fields = append(fields, junkProbes...)
		nsteps := r.Range(1, 8)
		for s := 0; s < nsteps; s++ {
			var so *stepOut
			for try := 0; try < 50 && so == nil; try++ {
				so = step(r, g, class, opCount)
			}
			if so == nil {
				break
			}
			steps++
			name := so.name
			if so.probe {
				name = "?" + name
			}
			if !so.ok {
				status[so.name+":"+so.status]++
				fields = append(fields, strings.Join([]string{name, so.arg, so.status, ""}, "|"))
				continue
			}
			fields = append(fields, strings.Join([]string{name, so.arg, lib.Dump(so.res), auditOf(so.res)}, "|"))
			if !so.probe {
				g = so.res
			}
		}
		fmt.Fprintln(w, strings.Join(fields, "\t"))
	}
	stats := map[string]interface{}{"classes": classes, "kinds": st.Kinds, "ctypes": st.CTs,
		"float_classes": st.FloatCls, "float_class_names": lib.FloatClassNames,
		"empty_nodes": st.EmptyNodes, "empty_members": st.EmptyKids, "vertices": st.Verts,
		"steps": steps, "junk_points": junkPoints, "ops": opCount, "not_a_geometry": status}
	js, _ := json.Marshal(stats)
	fmt.Fprintf(w, "#GEN\t%s\n", js)
}
