package main

import (
	"github.com/peterstace/simplefeatures/geom"
)

// The operations exist twice in the library: as methods of geom.Geometry and as methods of the
// seven concrete types (the former mostly, but not always, dispatch to the latter). typed selects
// the concrete type's own method for the top-level value.

func opReverse(g geom.Geometry, typed bool) geom.Geometry {
	if !typed {
		return g.Reverse()
	}
	switch g.Type() {
	case geom.TypePoint:
		return g.MustAsPoint().Reverse().AsGeometry()
	case geom.TypeLineString:
		return g.MustAsLineString().Reverse().AsGeometry()
	case geom.TypePolygon:
		return g.MustAsPolygon().Reverse().AsGeometry()
	case geom.TypeMultiPoint:
		return g.MustAsMultiPoint().Reverse().AsGeometry()
	case geom.TypeMultiLineString:
		return g.MustAsMultiLineString().Reverse().AsGeometry()
	case geom.TypeMultiPolygon:
		return g.MustAsMultiPolygon().Reverse().AsGeometry()
	default:
		return g.MustAsGeometryCollection().Reverse().AsGeometry()
	}
}

func opForce(g geom.Geometry, cw, typed bool) geom.Geometry {
	if typed {
		switch g.Type() {
		case geom.TypePolygon:
			if cw {
				return g.MustAsPolygon().ForceCW().AsGeometry()
			}
			return g.MustAsPolygon().ForceCCW().AsGeometry()
		case geom.TypeMultiPolygon:
			if cw {
				return g.MustAsMultiPolygon().ForceCW().AsGeometry()
			}
			return g.MustAsMultiPolygon().ForceCCW().AsGeometry()
		case geom.TypeGeometryCollection:
			if cw {
				return g.MustAsGeometryCollection().ForceCW().AsGeometry()
			}
			return g.MustAsGeometryCollection().ForceCCW().AsGeometry()
		}
	}
	if cw {
		return g.ForceCW()
	}
	return g.ForceCCW()
}

func opIs(g geom.Geometry, cw, typed bool) bool {
	if typed {
		switch g.Type() {
		case geom.TypePolygon:
			if cw {
				return g.MustAsPolygon().IsCW()
			}
			return g.MustAsPolygon().IsCCW()
		case geom.TypeMultiPolygon:
			if cw {
				return g.MustAsMultiPolygon().IsCW()
			}
			return g.MustAsMultiPolygon().IsCCW()
		case geom.TypeGeometryCollection:
			if cw {
				return g.MustAsGeometryCollection().IsCW()
			}
			return g.MustAsGeometryCollection().IsCCW()
		}
	}
	if cw {
		return g.IsCW()
	}
	return g.IsCCW()
}

func opDensify(g geom.Geometry, d float64, typed bool) geom.Geometry {
	if typed {
		switch g.Type() {
		case geom.TypeLineString:
			return g.MustAsLineString().Densify(d).AsGeometry()
		case geom.TypePolygon:
			return g.MustAsPolygon().Densify(d).AsGeometry()
		case geom.TypeMultiLineString:
			return g.MustAsMultiLineString().Densify(d).AsGeometry()
		case geom.TypeMultiPolygon:
			return g.MustAsMultiPolygon().Densify(d).AsGeometry()
		case geom.TypeGeometryCollection:
			return g.MustAsGeometryCollection().Densify(d).AsGeometry()
		}
	}
	return g.Densify(d)
}

func opSimplify(g geom.Geometry, t float64, typed bool, nv ...geom.NoValidate) (geom.Geometry, error) {
	if typed {
		switch g.Type() {
		case geom.TypeLineString:
			return g.MustAsLineString().Simplify(t).AsGeometry(), nil
		case geom.TypePolygon:
			p, err := g.MustAsPolygon().Simplify(t, nv...)
			return p.AsGeometry(), err
		case geom.TypeMultiLineString:
			return g.MustAsMultiLineString().Simplify(t).AsGeometry(), nil
		case geom.TypeMultiPolygon:
			p, err := g.MustAsMultiPolygon().Simplify(t, nv...)
			return p.AsGeometry(), err
		case geom.TypeGeometryCollection:
			p, err := g.MustAsGeometryCollection().Simplify(t, nv...)
			return p.AsGeometry(), err
		}
	}
	return g.Simplify(t, nv...)
}

func opSnap(g geom.Geometry, dp int, typed bool) geom.Geometry {
	if !typed {
		return g.SnapToGrid(dp)
	}
	switch g.Type() {
	case geom.TypePoint:
		return g.MustAsPoint().SnapToGrid(dp).AsGeometry()
	case geom.TypeLineString:
		return g.MustAsLineString().SnapToGrid(dp).AsGeometry()
	case geom.TypePolygon:
		return g.MustAsPolygon().SnapToGrid(dp).AsGeometry()
	case geom.TypeMultiPoint:
		return g.MustAsMultiPoint().SnapToGrid(dp).AsGeometry()
	case geom.TypeMultiLineString:
		return g.MustAsMultiLineString().SnapToGrid(dp).AsGeometry()
	case geom.TypeMultiPolygon:
		return g.MustAsMultiPolygon().SnapToGrid(dp).AsGeometry()
	default:
		return g.MustAsGeometryCollection().SnapToGrid(dp).AsGeometry()
	}
}

func apiTag(typed bool) string {
	if typed {
		return "/typed"
	}
	return "/geometry"
}
