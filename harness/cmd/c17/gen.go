package main

import (
	"math"

	"github.com/peterstace/simplefeatures/geom"
	"verifharness/lib"
)

// Generators of property C17: valid lineal and areal geometries (all coordinate types, repeated
// consecutive vertices at the start, middle and end, closed rings, empty members) on the integer
// lattice and in general-position floats. Everything derives from one lib.Rng.

type genStats struct {
	Ops      map[string]int
	Kinds    map[string]int
	CTs      [4]int
	Lattice  int
	Floats   int
	Dups     int
	Closed   int
	Holes    int
	Bumps    int
	Gate     int
	GateHits int
	Sibling  int
	Diag     int
	Long     int
	SibHits  int
	Rejected int // candidate polygons the implementation's Validate refused (not used)
	EmptyMem int
}

func newGenStats() *genStats { return &genStats{Ops: map[string]int{}, Kinds: map[string]int{}} }

// coordinate source: lattice (small integers) or general-position doubles
type coordSrc struct {
	float bool
	r     *lib.Rng
	jx    float64
	jy    float64
}

// pt maps an abstract lattice position to the ordinate pair of this source. In the float class
// the lattice is pushed through an affine map with irrational-looking coefficients so that all
// 53 mantissa bits are in use and nothing is axis-parallel.
func (c coordSrc) pt(x, y int) (float64, float64) {
	if !c.float {
		return float64(x), float64(y)
	}
	fx := float64(x)*1.0471975511965976 + float64(y)*0.3141592653589793 + c.jx
	fy := float64(y)*0.9238795325112867 - float64(x)*0.2718281828459045 + c.jy
	return fx, fy
}

func (c coordSrc) zm() float64 {
	if !c.float {
		return float64(c.r.Range(-9, 9))
	}
	return float64(c.r.Range(-9000, 9000)) / 7
}

func newSrc(r *lib.Rng, st *genStats) coordSrc {
	c := coordSrc{r: r}
	if r.Chance(1, 3) {
		c.float = true
		c.jx = float64(r.Range(-1000, 1000)) / 37
		c.jy = float64(r.Range(-1000, 1000)) / 41
		st.Floats++
	} else {
		st.Lattice++
	}
	return c
}

func vtx(c coordSrc, ct geom.CoordinatesType, x, y int) [4]float64 {
	fx, fy := c.pt(x, y)
	v := [4]float64{fx, fy, 0, 0}
	if ct.Is3D() {
		v[2] = c.zm()
	}
	if ct.IsMeasured() {
		v[3] = c.zm()
	}
	return v
}

// addDups repeats vertices (whole payload) at the start, in the middle and at the end.
func addDups(r *lib.Rng, vs [][4]float64, st *genStats) [][4]float64 {
	if len(vs) == 0 || !r.Chance(1, 2) {
		return vs
	}
	st.Dups++
	var out [][4]float64
	for i, v := range vs {
		out = append(out, v)
		rep := 0
		switch {
		case i == 0 && r.Chance(1, 3):
			rep = r.Range(1, 2)
		case i == len(vs)-1 && r.Chance(1, 3):
			rep = r.Range(1, 2)
		case r.Chance(1, 5):
			rep = 1
		}
		for k := 0; k < rep; k++ {
			w := v
			if r.Chance(1, 3) {
				// same location, different Z/M payload (allowed: only XY must repeat)
				w[2] += float64(r.Range(0, 2))
				w[3] -= float64(r.Range(0, 2))
			}
			out = append(out, w)
		}
	}
	return out
}

func clearUnused(vs [][4]float64, ct geom.CoordinatesType) [][4]float64 {
	for i := range vs {
		if !ct.Is3D() {
			vs[i][2] = 0
		}
		if !ct.IsMeasured() {
			vs[i][3] = 0
		}
	}
	return vs
}

// genLineNode: a random lattice walk (self-intersections allowed: LineStrings need not be simple),
// axis-parallel and 3-4-5 steps frequent so that many segment lengths are rational.
func genLineNode(r *lib.Rng, ct geom.CoordinatesType, c coordSrc, st *genStats) *lib.Node {
	n := &lib.Node{Kind: lib.KLine, CT: ct}
	k := r.Range(2, 7)
	x, y := r.Range(-6, 6), r.Range(-6, 6)
	steps := [][2]int{{1, 0}, {0, 1}, {-1, 0}, {0, -1}, {3, 4}, {4, 3}, {-3, 4}, {4, -3}, {1, 1}, {2, -1}, {-1, 2}, {5, 12}, {2, 0}, {0, -3}}
	var vs [][4]float64
	x0, y0 := x, y
	for i := 0; i < k; i++ {
		vs = append(vs, vtx(c, ct, x, y))
		s := steps[r.Intn(len(steps))]
		m := 1
		if r.Chance(1, 4) {
			m = r.Range(1, 3)
		}
		x += s[0] * m
		y += s[1] * m
	}
	if k >= 3 && r.Chance(1, 4) {
		// closed line: last vertex repeats the first location
		vs = append(vs, vtx(c, ct, x0, y0))
		st.Closed++
	}
	vs = addDups(r, vs, st)
	n.C = clearUnused(vs, ct)
	return n
}

// directions sorted by angle (primitive vectors); a ring takes a cyclic subsequence of them
var dirs = [][2]int{{1, 0}, {2, 1}, {1, 1}, {1, 2}, {0, 1}, {-1, 2}, {-1, 1}, {-2, 1}, {-1, 0}, {-2, -1}, {-1, -1}, {-1, -2}, {0, -1}, {1, -2}, {1, -1}, {2, -1}}

// genRing: a star-shaped ring around (cx,cy): increasing angle, radius multipliers in [lo,hi].
func genRing(r *lib.Rng, ct geom.CoordinatesType, c coordSrc, cx, cy, lo, hi int, st *genStats) *lib.Node {
	n := &lib.Node{Kind: lib.KLine, CT: ct}
	var vs [][4]float64
	// choose directions: every direction with probability 1/2, but keep angular gaps < 180 degrees
	var pick []int
	for {
		pick = pick[:0]
		for i := range dirs {
			if r.Chance(1, 2) {
				pick = append(pick, i)
			}
		}
		ok := len(pick) >= 3
		for j := 0; ok && j < len(pick); j++ {
			gap := (pick[(j+1)%len(pick)] - pick[j] + 16) % 16
			if gap >= 7 || gap == 0 && len(pick) > 1 {
				ok = false
			}
		}
		if ok {
			break
		}
	}
	for _, i := range pick {
		m := r.Range(lo, hi)
		vs = append(vs, vtx(c, ct, cx+dirs[i][0]*m, cy+dirs[i][1]*m))
	}
	// rotate the start vertex, choose the orientation
	rot := r.Intn(len(vs))
	vs = append(vs[rot:], vs[:rot]...)
	if r.Bool() {
		for i, j := 0, len(vs)-1; i < j; i, j = i+1, j-1 {
			vs[i], vs[j] = vs[j], vs[i]
		}
	}
	vs = append(vs, vs[0])
	vs = addDups(r, vs, st)
	// the closing vertex must repeat the first XY; payload may differ
	n.C = clearUnused(vs, ct)
	return n
}

// genBumpPoly: a T-shaped shell whose stem holds a hole. Simplifying with a threshold of about the
// stem's height removes the stem and leaves the hole outside the shell: the result fails validation
// (the error branch of Polygon.Simplify and MultiPolygon.Simplify).
func genBumpPoly(r *lib.Rng, ct geom.CoordinatesType, c coordSrc, cx, cy int, st *genStats) *lib.Node {
	n := &lib.Node{Kind: lib.KPoly, CT: ct}
	h := r.Range(6, 10)
	shell := [][2]int{{0, 0}, {20, 0}, {20, 10}, {12, 10}, {12, 10 + h}, {8, 10 + h}, {8, 10}, {0, 10}}
	hole := [][2]int{{9, 12}, {11, 12}, {11, 8 + h}, {9, 8 + h}}
	mk := func(pts [][2]int) *lib.Node {
		ring := &lib.Node{Kind: lib.KLine, CT: ct}
		var vs [][4]float64
		for _, p := range pts {
			vs = append(vs, vtx(c, ct, cx+p[0]-10, cy+p[1]-10))
		}
		rot := r.Intn(len(vs))
		vs = append(vs[rot:], vs[:rot]...)
		if r.Bool() {
			for i, j := 0, len(vs)-1; i < j; i, j = i+1, j-1 {
				vs[i], vs[j] = vs[j], vs[i]
			}
		}
		vs = append(vs, vs[0])
		ring.C = clearUnused(addDups(r, vs, st), ct)
		return ring
	}
	n.Kids = append(n.Kids, mk(shell), mk(hole))
	st.Holes++
	st.Bumps++
	return n
}

func genPolyNode(r *lib.Rng, ct geom.CoordinatesType, c coordSrc, cx, cy int, st *genStats) *lib.Node {
	if r.Chance(1, 5) {
		return genBumpPoly(r, ct, c, cx, cy, st)
	}
	n := &lib.Node{Kind: lib.KPoly, CT: ct}
	if r.Chance(1, 4) {
		// deep concavities next to a fat hole: simplification tends to cut the shell into the hole
		// (exercises the validation gate of Simplify)
		n.Kids = append(n.Kids, genRing(r, ct, c, cx, cy, 3, 9, st), genRing(r, ct, c, cx, cy, 2, 2, st))
		st.Holes++
		st.Gate++
		return n
	}
	n.Kids = append(n.Kids, genRing(r, ct, c, cx, cy, 3+3*r.Intn(2), 9, st))
	if r.Chance(1, 2) {
		n.Kids = append(n.Kids, genRing(r, ct, c, cx, cy, 1, 2, st))
		st.Holes++
	}
	return n
}

var kindNames = map[lib.Kind]string{lib.KPoint: "Point", lib.KLine: "LineString", lib.KPoly: "Polygon",
	lib.KMPoint: "MultiPoint", lib.KMLine: "MultiLineString", lib.KMPoly: "MultiPolygon", lib.KColl: "GeometryCollection"}

// genGeom draws a valid geometry whose kind is one of kinds.
func genGeom(r *lib.Rng, kinds []lib.Kind, depth int, st *genStats) *lib.Node {
	for {
		ct := geom.CoordinatesType(r.Intn(4))
		c := newSrc(r, st)
		n := genKind(r, kinds[r.Intn(len(kinds))], ct, c, depth, st)
		if n.Build().Validate() == nil {
			st.Kinds[kindNames[n.Kind]]++
			st.CTs[ct]++
			return n
		}
		st.Rejected++
	}
}

func genKind(r *lib.Rng, k lib.Kind, ct geom.CoordinatesType, c coordSrc, depth int, st *genStats) *lib.Node {
	switch k {
	case lib.KPoint:
		n := &lib.Node{Kind: lib.KPoint, CT: ct}
		if !r.Chance(1, 6) {
			n.Full = true
			n.C = clearUnused([][4]float64{vtx(c, ct, r.Range(-9, 9), r.Range(-9, 9))}, ct)
		}
		return n
	case lib.KLine:
		if r.Chance(1, 12) {
			st.EmptyMem++
			return &lib.Node{Kind: lib.KLine, CT: ct}
		}
		return genLineNode(r, ct, c, st)
	case lib.KPoly:
		if r.Chance(1, 12) {
			st.EmptyMem++
			return &lib.Node{Kind: lib.KPoly, CT: ct}
		}
		return genPolyNode(r, ct, c, r.Range(-3, 3), r.Range(-3, 3), st)
	case lib.KMPoint:
		n := &lib.Node{Kind: k, CT: ct}
		for i, m := 0, r.Range(0, 3); i < m; i++ {
			n.Kids = append(n.Kids, genKind(r, lib.KPoint, ct, c, depth, st))
		}
		return n
	case lib.KMLine:
		n := &lib.Node{Kind: k, CT: ct}
		for i, m := 0, r.Range(0, 3); i < m; i++ {
			n.Kids = append(n.Kids, genKind(r, lib.KLine, ct, c, depth, st))
		}
		return n
	case lib.KMPoly:
		n := &lib.Node{Kind: k, CT: ct}
		for i, m := 0, r.Range(0, 3); i < m; i++ {
			if r.Chance(1, 10) {
				st.EmptyMem++
				n.Kids = append(n.Kids, &lib.Node{Kind: lib.KPoly, CT: ct})
				continue
			}
			// members far apart: disjoint by construction
			n.Kids = append(n.Kids, genPolyNode(r, ct, c, 40*i+r.Range(-3, 3), r.Range(-3, 3), st))
		}
		return n
	default:
		n := &lib.Node{Kind: lib.KColl, CT: ct}
		for i, m := 0, r.Range(0, 3); i < m; i++ {
			kk := lib.Kind(r.Intn(7))
			if depth <= 1 && kk == lib.KColl {
				kk = lib.KPoly
			}
			n.Kids = append(n.Kids, genKind(r, kk, ct, c, depth-1, st))
		}
		return n
	}
}

// diameter of the envelope of a geometry (0 for empty)
func diameter(g geom.Geometry) float64 {
	env := g.Envelope()
	mn, mx, ok := env.MinMaxXYs()
	if !ok {
		return 0
	}
	return math.Hypot(mx.X-mn.X, mx.Y-mn.Y)
}

// ringFrom builds a closed ring from lattice positions: random start vertex, random orientation,
// repeated vertices.
func ringFrom(r *lib.Rng, ct geom.CoordinatesType, c coordSrc, pts [][2]int, ox, oy int, st *genStats) *lib.Node {
	ring := &lib.Node{Kind: lib.KLine, CT: ct}
	var vs [][4]float64
	for _, p := range pts {
		vs = append(vs, vtx(c, ct, ox+p[0], oy+p[1]))
	}
	rot := r.Intn(len(vs))
	vs = append(vs[rot:], vs[:rot]...)
	if r.Bool() {
		for i, j := 0, len(vs)-1; i < j; i, j = i+1, j-1 {
			vs[i], vs[j] = vs[j], vs[i]
		}
	}
	vs = append(vs, vs[0])
	ring.C = clearUnused(addDups(r, vs, st), ct)
	return ring
}

// genSiblingBay: a MultiPolygon whose members are valid and disjoint, and stay valid one by one
// after simplification, but interact with each other once simplified (only the final Validate
// of the assembled MultiPolygon can see it). Two shapes:
//   - bay: member A has a V-shaped bay of depth dn in its right side, member B is a triangle whose
//     tip sits in the bay; for t > dn the bay is simplified away and B's tip lies inside A;
//   - island: member A has a hole with a V-shaped bulge, member B is an island in the hole whose tip
//     sits in the bulge; for t > dn the bulge is simplified away and B's tip lies in A's material.
//
// Returns the node and the depth dn (thresholds slightly above it are the interesting ones).
func genSiblingBay(r *lib.Rng, ct geom.CoordinatesType, c coordSrc, st *genStats) (*lib.Node, float64) {
	ox, oy := r.Range(-5, 5), r.Range(-5, 5)
	dn := r.Range(2, 5)
	mp := &lib.Node{Kind: lib.KMPoly, CT: ct}
	poly := func(rings ...*lib.Node) *lib.Node { return &lib.Node{Kind: lib.KPoly, CT: ct, Kids: rings} }
	if r.Bool() {
		a := [][2]int{{0, 0}, {10, 0}, {10, 3}, {10 - dn, 5}, {10, 7}, {10, 10}, {0, 10}}
		tip := 10 - dn + 1 + r.Intn(dn-1)
		b := [][2]int{{tip, 5}, {20 + r.Range(0, 4), 0}, {20 + r.Range(0, 4), 10}}
		mp.Kids = []*lib.Node{poly(ringFrom(r, ct, c, a, ox, oy, st)), poly(ringFrom(r, ct, c, b, ox, oy, st))}
	} else {
		shell := [][2]int{{-15, -15}, {15, -15}, {15, 15}, {-15, 15}}
		hole := [][2]int{{-6, -6}, {6, -6}, {6, -2}, {6 + dn, 0}, {6, 2}, {6, 6}, {-6, 6}}
		tip := 6 + 1 + r.Intn(dn-1)
		b := [][2]int{{tip, 0}, {-4, -3 - r.Intn(2)}, {-4, 3 + r.Intn(2)}}
		mp.Kids = []*lib.Node{poly(ringFrom(r, ct, c, shell, ox, oy, st), ringFrom(r, ct, c, hole, ox, oy, st)),
			poly(ringFrom(r, ct, c, b, ox, oy, st))}
	}
	if r.Bool() {
		mp.Kids[0], mp.Kids[1] = mp.Kids[1], mp.Kids[0]
	}
	if r.Chance(1, 3) {
		// a third member far away
		mp.Kids = append(mp.Kids, genPolyNode(r, ct, c, ox+60, oy, st))
	}
	return mp, float64(dn)
}

// seqBoxAndLongest: larger side of the bounding box of a vertex list and its longest segment.
func seqBoxAndLongest(vs [][4]float64) (side, longest float64) {
	if len(vs) == 0 {
		return 0, 0
	}
	minx, maxx, miny, maxy := vs[0][0], vs[0][0], vs[0][1], vs[0][1]
	for i, v := range vs {
		minx, maxx = math.Min(minx, v[0]), math.Max(maxx, v[0])
		miny, maxy = math.Min(miny, v[1]), math.Max(maxy, v[1])
		if i > 0 {
			longest = math.Max(longest, math.Hypot(v[0]-vs[i-1][0], v[1]-vs[i-1][1]))
		}
	}
	return math.Max(maxx-minx, maxy-miny), longest
}

// genDiagGeom: small geometries whose longest segment is diagonal, so that it is longer than both
// sides of its sequence's bounding box: 2-point lines, short lines, triangles, parallelograms, as
// LineString / Polygon / Multi* / collection. Returns an interval (lo, hi] of distances that lie
// above every box side of the chosen sequence but not above its longest segment: Densify must
// still subdivide that segment.
func genDiagGeom(r *lib.Rng, st *genStats) (*lib.Node, float64, float64) {
	for {
		ct := geom.CoordinatesType(r.Intn(4))
		c := newSrc(r, st)
		ox, oy := r.Range(-8, 8), r.Range(-8, 8)
		a, b := r.Range(1, 7), r.Range(1, 7)
		if r.Bool() {
			a = -a
		}
		if r.Bool() {
			b = -b
		}
		var pts [][2]int
		ring := false
		switch r.Intn(5) {
		case 0: // two points
			pts = [][2]int{{0, 0}, {a, b}}
		case 1: // a diagonal with a short axis-parallel tail inside its box
			pts = [][2]int{{0, 0}, {a, b}, {a, 0}}
		case 2: // right triangle: the hypotenuse is the longest side (3-4-5 when a, b = 3, 4)
			pts, ring = [][2]int{{0, 0}, {a, 0}, {0, b}}, true
		case 3: // the same triangle as an open line
			pts = [][2]int{{a, 0}, {0, b}, {0, 0}}
		default: // a thin parallelogram along the diagonal
			pts, ring = [][2]int{{0, 0}, {a, b}, {a, b + sgn(b)}, {0, sgn(b)}}, true
		}
		var line *lib.Node
		if ring {
			line = ringFrom(r, ct, c, pts, ox, oy, st)
		} else {
			line = &lib.Node{Kind: lib.KLine, CT: ct}
			var vs [][4]float64
			for _, p := range pts {
				vs = append(vs, vtx(c, ct, ox+p[0], oy+p[1]))
			}
			line.C = clearUnused(addDups(r, vs, st), ct)
		}
		side, longest := seqBoxAndLongest(line.C)
		if !(longest > side*1.0001) {
			continue
		}
		var n *lib.Node
		if ring {
			poly := &lib.Node{Kind: lib.KPoly, CT: ct, Kids: []*lib.Node{line}}
			switch r.Intn(3) {
			case 0:
				n = poly
			case 1:
				n = &lib.Node{Kind: lib.KMPoly, CT: ct, Kids: []*lib.Node{poly}}
			default:
				n = &lib.Node{Kind: lib.KColl, CT: ct, Kids: []*lib.Node{poly}}
			}
		} else {
			switch r.Intn(3) {
			case 0:
				n = line
			case 1:
				n = &lib.Node{Kind: lib.KMLine, CT: ct, Kids: []*lib.Node{line}}
			default:
				n = &lib.Node{Kind: lib.KColl, CT: ct, Kids: []*lib.Node{line}}
			}
		}
		if n.Build().Validate() != nil {
			st.Rejected++
			continue
		}
		st.Kinds[kindNames[n.Kind]]++
		st.CTs[ct]++
		st.Diag++
		return n, side, longest
	}
}

func sgn(x int) int {
	if x < 0 {
		return -1
	}
	return 1
}

// genLongSeq: densely digitised sequences of 64..maxLong vertices on a 1/16 grid (small dyadic
// ordinates keep the exact model fast), with a threshold t chosen so that the interesting
// features lie between t and 2t:
//   - bumps: a line along y = 0 at spacing 1/2 with three-vertex bumps of heights (<t, in (t,2t), <t);
//   - noise: a straight line with vertical noise below t and occasional spikes up to 2t;
//   - stairs: a long staircase ring (a valid polygon), step 1, thresholds around the step size.
func genLongSeq(r *lib.Rng, maxLong int, st *genStats) (*lib.Node, float64, string) {
	ct := geom.CoordinatesType(r.Intn(4))
	q := func(k int) float64 { return float64(k) / 16 }
	zm := func() (float64, float64) { return float64(r.Range(-9, 9)), float64(r.Range(-9, 9)) }
	mk := func(x, y float64) [4]float64 {
		z, m := zm()
		return [4]float64{x, y, z, m}
	}
	nv := r.Range(64, maxLong)
	t := []float64{1, 0.5, 0.75, 1.25}[r.Intn(4)]
	t16 := int(t * 16)
	ox, oy := float64(r.Range(-20, 20)), float64(r.Range(-20, 20))
	st.Long++
	st.Kinds["LineString"]++
	st.CTs[ct]++
	switch r.Intn(3) {
	case 0:
		var vs [][4]float64
		for i := 0; i < nv; i++ {
			vs = append(vs, mk(ox+float64(i)/2, oy))
		}
		for b, nb := 0, r.Range(1, 3); b < nb; b++ {
			at := r.Range(3, nv-5)
			low := q(r.Range(t16/2, t16-1))
			high := q(r.Range(t16+2, 2*t16-2))
			sg := float64(sgn(r.Range(-1, 0)*2 + 1))
			vs[at][1], vs[at+1][1], vs[at+2][1] = oy+sg*low, oy+sg*high, oy+sg*low
		}
		n := &lib.Node{Kind: lib.KLine, CT: ct, C: clearUnused(vs, ct)}
		if r.Chance(1, 3) {
			n = &lib.Node{Kind: lib.KMLine, CT: ct, Kids: []*lib.Node{n}}
		}
		return n, t, "long_bumps"
	case 1:
		var vs [][4]float64
		for i := 0; i < nv; i++ {
			y := q(r.Range(-(t16 - 2), t16-2))
			if r.Chance(1, 25) {
				y = q(r.Range(t16+1, 2*t16-1)) * float64(sgn(r.Range(-1, 0)*2+1))
			}
			vs = append(vs, mk(ox+float64(i)/2, oy+y))
		}
		return &lib.Node{Kind: lib.KLine, CT: ct, C: clearUnused(vs, ct)}, t, "long_noise"
	default:
		k := (nv - 2) / 2
		var vs [][4]float64
		for i := 0; i < k; i++ {
			vs = append(vs, mk(ox+float64(i), oy+float64(i)), mk(ox+float64(i+1), oy+float64(i)))
		}
		vs = append(vs, mk(ox+float64(k), oy+float64(k)), mk(ox, oy+float64(k)))
		rot := r.Intn(len(vs))
		vs = append(vs[rot:], vs[:rot]...)
		vs = append(vs, vs[0])
		ring := &lib.Node{Kind: lib.KLine, CT: ct, C: clearUnused(vs, ct)}
		tt := []float64{0.5, 0.6875, 0.75, 1, 1.5, 2.5}[r.Intn(6)]
		return &lib.Node{Kind: lib.KPoly, CT: ct, Kids: []*lib.Node{ring}}, tt, "long_stairs"
	}
}
