// Command c17 runs Reverse, ForceCW/CCW, Densify, Simplify, InterpolatePoint,
// InterpolateEvenlySpacedPoints and SnapToGrid of the implementation on generated inputs and
// prints, per case, the input and the implementation's observations (property C17).
//
// Case lines (tab separated, id first, then the operation tag):
//
//	REV   class dump(g) dump(g.Reverse()) dump(g.Reverse().Reverse()) validIn validOut
//	SNAP  class dp x y yneg yy          (x, snap(x), snap(-x), snap(snap(x)) as hex bit patterns)
//	FORCE class dump(g) dump(cw) dump(ccw) isCW(g) isCCW(g) isCW(cw) isCCW(ccw) dump(cw.ForceCW()) dump(ccw.ForceCCW())
//	DENS  class dump(g) d dump(g.Densify(d))|PANIC
//	SIMP  class dump(g) t dump(g.Simplify(t, NoValidate)) OK|ERR valid(NoValidate output) same(OK output = NoValidate output)
//	INTP  class dump(line) f dump(line.InterpolatePoint(f))|PANIC
//	EVEN  class dump(line) n dump(line.InterpolateEvenlySpacedPoints(n))|PANIC
//	SNAPG class dump(g) dp dump(g.SnapToGrid(dp))
package main

import (
	"encoding/json"
	"fmt"
	"math"
	"strings"

	"github.com/peterstace/simplefeatures/geom"
	"verifharness/lib"
)

func hexf(f float64) string { return fmt.Sprintf("%016x", math.Float64bits(f)) }

func b2s(b bool) string {
	if b {
		return "1"
	}
	return "0"
}

var allKinds = []lib.Kind{lib.KPoint, lib.KLine, lib.KPoly, lib.KMPoint, lib.KMLine, lib.KMPoly, lib.KColl}

func caseReverse(r *lib.Rng, st *genStats) []string {
	n := genGeom(r, allKinds, 3, st)
	g := n.Build()
	rv := g.Reverse()
	return []string{"REV", kindNames[n.Kind], lib.Dump(g), lib.Dump(rv), lib.Dump(rv.Reverse()),
		b2s(g.Validate() == nil), b2s(rv.Validate() == nil)}
}

// snapXY observes the scalar function through the public API: POINT(x -x).SnapToGrid(dp).
func snapXY(x, y float64, dp int) (float64, float64) {
	p := geom.NewPoint(geom.Coordinates{XY: geom.XY{X: x, Y: y}, Type: geom.DimXY}).SnapToGrid(dp)
	c, ok := p.Coordinates()
	if !ok {
		// a point with a NaN ordinate reads as empty through XY(): report NaN
		return math.NaN(), math.NaN()
	}
	return c.X, c.Y
}

func genSnap(r *lib.Rng) (class string, x float64, dp int) {
	sgn := func() float64 {
		if r.Bool() {
			return -1
		}
		return 1
	}
	switch r.Intn(8) {
	case 0: // decimal amounts, typical precisions, many exact ties (k + 0.5 at dp = 0, x.125 at dp = 2, ...)
		dp = r.Range(-3, 6)
		den := []float64{1, 2, 4, 8, 10, 16, 100, 1000, 3, 7}[r.Intn(10)]
		return "decimal", sgn() * float64(r.Range(0, 200000)) / den, dp
	case 1: // exact ties for negative places: 25 at -1, 1500 at -3 ...
		dp = -r.Range(1, 6)
		return "tie_neg", sgn() * (float64(r.Range(0, 400)) + 0.5) * math.Pow10(-dp), dp
	case 2: // idempotence domain |x| * 10^dp < 2^40
		dp = r.Range(-8, 8)
		m := float64(r.U64()%(1<<53)) / float64(uint64(1)<<53) // [0,1)
		lim := math.Exp2(39) / math.Pow10(dp)
		return "idem", sgn() * m * lim, dp
	case 3: // the overflow boundary of the scaled value: |x| * 10^dp around MaxFloat64
		e := r.Range(-300, 300)
		m := 1 + float64(r.U64()%(1<<52))/float64(uint64(1)<<52)
		x = sgn() * m * math.Pow10(e)
		if math.Abs(x) > 1e300 {
			x = sgn() * 1e300
		}
		return "overflow_edge", x, 308 - e + r.Range(-3, 3)
	case 4: // the underflow boundary for negative places
		e := r.Range(-300, 300)
		m := 1 + float64(r.U64()%(1<<52))/float64(uint64(1)<<52)
		x = sgn() * m * math.Pow10(e)
		if math.Abs(x) > 1e300 {
			x = sgn() * 1e300
		}
		return "underflow_edge", x, -(e + 323 + r.Range(-3, 3))
	case 5: // special values with extreme places
		xs := []float64{0, math.Copysign(0, -1), 1e300, -1e300, 5e-324, -5e-324, 1, -1, 0.5, -0.5, 1e-300, 2.2250738585072014e-308, 1e15 + 0.5, 4503599627370496.5}
		dps := []int{-320, -309, -308, -307, -1, 0, 1, 15, 16, 22, 23, 307, 308, 309, 320}
		return "special", xs[r.Intn(len(xs))], dps[r.Intn(len(dps))]
	default: // everything: random mantissa, exponent -300..300, places -320..320
		e := r.Range(-300, 300)
		m := 1 + float64(r.U64()%(1<<52))/float64(uint64(1)<<52)
		x = sgn() * m * math.Pow10(e)
		if math.Abs(x) > 1e300 {
			x = sgn() * 1e300
		}
		return "wide", x, r.Range(-320, 320)
	}
}

func caseSnap(r *lib.Rng, st *genStats) []string {
	class, x, dp := genSnap(r)
	if dp > 320 {
		dp = 320
	}
	if dp < -320 {
		dp = -320
	}
	y, yneg := snapXY(x, -x, dp)
	yy, _ := snapXY(y, yneg, dp)
	return []string{"SNAP", class, fmt.Sprintf("%d", dp), hexf(x), hexf(y), hexf(yneg), hexf(yy)}
}


var arealKinds = []lib.Kind{lib.KPoly, lib.KPoly, lib.KMPoly, lib.KMPoly, lib.KColl, lib.KLine, lib.KPoint}
var linealArealKinds = []lib.Kind{lib.KLine, lib.KLine, lib.KPoly, lib.KPoly, lib.KMLine, lib.KMPoly, lib.KColl}

func caseForce(r *lib.Rng, st *genStats) []string {
	n := genGeom(r, arealKinds, 3, st)
	g := n.Build()
	cw, ccw := g.ForceCW(), g.ForceCCW()
	return []string{"FORCE", kindNames[n.Kind], lib.Dump(g), lib.Dump(cw), lib.Dump(ccw),
		b2s(g.IsCW()), b2s(g.IsCCW()), b2s(cw.IsCW()), b2s(ccw.IsCCW()),
		lib.Dump(cw.ForceCW()), lib.Dump(ccw.ForceCCW())}
}

// guarded runs f and reports a panic as the string PANIC
func guarded(f func() string) (out string) {
	defer func() {
		if e := recover(); e != nil {
			out = "PANIC"
		}
	}()
	return f()
}

// segments of all lines of a geometry (for tie construction)
func allSegLens(g geom.Geometry) []float64 {
	var out []float64
	var walk func(geom.Geometry)
	seq := func(s geom.Sequence) {
		for i := 0; i+1 < s.Length(); i++ {
			a, b := s.GetXY(i), s.GetXY(i+1)
			if a != b {
				out = append(out, math.Hypot(b.X-a.X, b.Y-a.Y))
			}
		}
	}
	walk = func(g geom.Geometry) {
		switch g.Type() {
		case geom.TypeLineString:
			seq(g.MustAsLineString().Coordinates())
		case geom.TypePolygon:
			for _, rg := range g.MustAsPolygon().DumpRings() {
				seq(rg.Coordinates())
			}
		case geom.TypeMultiLineString:
			m := g.MustAsMultiLineString()
			for i := 0; i < m.NumLineStrings(); i++ {
				seq(m.LineStringN(i).Coordinates())
			}
		case geom.TypeMultiPolygon:
			m := g.MustAsMultiPolygon()
			for i := 0; i < m.NumPolygons(); i++ {
				walk(m.PolygonN(i).AsGeometry())
			}
		case geom.TypeGeometryCollection:
			m := g.MustAsGeometryCollection()
			for i := 0; i < m.NumGeometries(); i++ {
				walk(m.GeometryN(i))
			}
		}
	}
	walk(g)
	return out
}

var maxInserted = 250

func caseDensify(r *lib.Rng, st *genStats) []string {
	n := genGeom(r, linealArealKinds, 3, st)
	g := n.Build()
	diam := diameter(g)
	lens := allSegLens(g)
	var d float64
	class := "range"
	switch k := r.Intn(12); {
	case k == 0:
		class = "nonpositive"
		d = []float64{0, -1, math.Copysign(0, -1), -1e-300}[r.Intn(4)]
	case k <= 3 && len(lens) > 0:
		// exact and near ties: d = |ab| / k for a segment of the geometry
		class = "tie"
		d = lens[r.Intn(len(lens))] / float64(r.Range(1, 6))
		if r.Chance(1, 3) {
			d = math.Nextafter(d, d*float64(r.Range(0, 1)*2))
		}
	default:
		// log-uniform factor in [1e-3, 10] of the diameter
		f := math.Pow(10, -3+4*float64(r.Intn(1000001))/1000000)
		if diam == 0 {
			diam = 1
		}
		d = f * diam
	}
	if d > 0 {
		// keep the output small enough for exact arithmetic: at most maxInserted new points
		total := 0.0
		for _, l := range lens {
			total += l
		}
		if total/d > float64(maxInserted) {
			d = total / float64(maxInserted)
			class = "range_capped"
		}
	}
	out := guarded(func() string { return lib.Dump(g.Densify(d)) })
	return []string{"DENS", class + "/" + kindNames[n.Kind], lib.Dump(g), hexf(d), out}
}

// perpendicular distances of interior vertices from the chord of each line (tie thresholds)
func chordDistances(g geom.Geometry) []float64 {
	var out []float64
	var walk func(geom.Geometry)
	seq := func(s geom.Sequence) {
		n := s.Length()
		if n < 3 {
			return
		}
		a, b := s.GetXY(0), s.GetXY(n-1)
		for i := 1; i < n-1; i++ {
			p := s.GetXY(i)
			if a == b {
				out = append(out, math.Hypot(p.X-a.X, p.Y-a.Y))
			} else {
				cr := (b.X-a.X)*(p.Y-a.Y) - (b.Y-a.Y)*(p.X-a.X)
				out = append(out, math.Abs(cr)/math.Hypot(b.X-a.X, b.Y-a.Y))
			}
		}
	}
	walk = func(g geom.Geometry) {
		switch g.Type() {
		case geom.TypeLineString:
			seq(g.MustAsLineString().Coordinates())
		case geom.TypePolygon:
			for _, rg := range g.MustAsPolygon().DumpRings() {
				seq(rg.Coordinates())
			}
		case geom.TypeMultiLineString:
			m := g.MustAsMultiLineString()
			for i := 0; i < m.NumLineStrings(); i++ {
				seq(m.LineStringN(i).Coordinates())
			}
		case geom.TypeMultiPolygon:
			m := g.MustAsMultiPolygon()
			for i := 0; i < m.NumPolygons(); i++ {
				walk(m.PolygonN(i).AsGeometry())
			}
		case geom.TypeGeometryCollection:
			m := g.MustAsGeometryCollection()
			for i := 0; i < m.NumGeometries(); i++ {
				walk(m.GeometryN(i))
			}
		}
	}
	walk(g)
	return out
}

func caseSimplify(r *lib.Rng, st *genStats) []string {
	n := genGeom(r, linealArealKinds, 3, st)
	g := n.Build()
	diam := diameter(g)
	var t float64
	class := "range"
	cds := chordDistances(g)
	switch k := r.Intn(10); {
	case k == 0:
		class = "zero"
		t = 0
	case k == 1:
		class = "diameter"
		t = diam
	case k <= 4 && len(cds) > 0:
		class = "tie"
		t = cds[r.Intn(len(cds))]
	case k == 5:
		class = "round"
		t = []float64{0.5, 1, 1.5, 2, 2.5, 3, 0.25, 0.6, 0.8, 1.2, 2.4}[r.Intn(11)]
	default:
		t = diam * float64(r.Intn(1000001)) / 1000000
		if r.Chance(1, 3) {
			t /= 8
		}
	}
	nv, _ := g.Simplify(t, geom.NoValidate{})
	v, err := g.Simplify(t)
	res, same := "OK", "1"
	if err != nil {
		res, same = "ERR", "-"
	} else if lib.Dump(v) != lib.Dump(nv) {
		same = "0"
	}
	return []string{"SIMP", class + "/" + kindNames[n.Kind], lib.Dump(g), hexf(t), lib.Dump(nv), res, b2s(nv.Validate() == nil), same}
}

func genInterpLine(r *lib.Rng, st *genStats) *lib.Node {
	for {
		n := genGeom(r, []lib.Kind{lib.KLine}, 1, st)
		return n
	}
}

func breakFracs(ls geom.LineString) []float64 {
	seq := ls.Coordinates()
	var cum []float64
	total := 0.0
	for i := 0; i+1 < seq.Length(); i++ {
		a, b := seq.GetXY(i), seq.GetXY(i+1)
		total += math.Sqrt((b.X-a.X)*(b.X-a.X) + (b.Y-a.Y)*(b.Y-a.Y))
		cum = append(cum, total)
	}
	var out []float64
	for _, c := range cum {
		if total > 0 {
			out = append(out, c/total)
		}
	}
	return out
}

func caseInterp(r *lib.Rng, st *genStats) []string {
	n := genInterpLine(r, st)
	ls := n.Build().MustAsLineString()
	var f float64
	class := "range"
	bf := breakFracs(ls)
	switch k := r.Intn(10); {
	case k == 0:
		class = "zero"
		f = 0
	case k == 1:
		class = "one"
		f = 1
	case k == 2:
		class = "outside"
		f = []float64{-1, -0.25, 1.5, 2, math.Copysign(0, -1), -1e-300, 1 + 1e-15}[r.Intn(7)]
	case k <= 5 && len(bf) > 0:
		class = "breakpoint"
		f = bf[r.Intn(len(bf))]
		switch r.Intn(4) {
		case 0:
			f = math.Nextafter(f, 2)
		case 1:
			f = math.Nextafter(f, -1)
		}
	default:
		f = -1 + 3*float64(r.Intn(1000001))/1000000
		if r.Chance(2, 3) {
			f = float64(r.Intn(1000001)) / 1000000
		}
	}
	out := guarded(func() string { return lib.Dump(ls.InterpolatePoint(f).AsGeometry()) })
	return []string{"INTP", class, lib.Dump(ls.AsGeometry()), hexf(f), out}
}

func caseEven(r *lib.Rng, st *genStats) []string {
	n := genInterpLine(r, st)
	ls := n.Build().MustAsLineString()
	k := r.Range(-2, 50)
	if r.Chance(2, 3) {
		k = r.Range(-1, 6)
	}
	out := guarded(func() string { return lib.Dump(ls.InterpolateEvenlySpacedPoints(k).AsGeometry()) })
	return []string{"EVEN", "n", lib.Dump(ls.AsGeometry()), fmt.Sprintf("%d", k), out}
}

func caseSnapGeom(r *lib.Rng, st *genStats) []string {
	n := genGeom(r, allKinds, 3, st)
	// spread the ordinates over a few decimal digits
	var scale func(*lib.Node)
	f := []float64{1, 0.1, 1.0 / 7, 12.5, 1e3 / 3}[r.Intn(5)]
	scale = func(x *lib.Node) {
		for i := range x.C {
			x.C[i][0] *= f
			x.C[i][1] *= f
		}
		for _, k := range x.Kids {
			scale(k)
		}
	}
	scale(n)
	g := n.Build()
	dp := r.Range(-3, 5)
	return []string{"SNAPG", kindNames[n.Kind], lib.Dump(g), fmt.Sprintf("%d", dp), lib.Dump(g.SnapToGrid(dp))}
}

type opGen struct {
	name   string
	weight int
	fn     func(*lib.Rng, *genStats) []string
}

func main() {
	a := lib.ParseArgs()
	w, done := a.Output()
	defer done()
	root := lib.NewRng(a.Seed)
	st := newGenStats()
	if a.Tier == "thorough" {
		maxInserted = 1500
	}
	ops := []opGen{
		{"REV", 2, caseReverse},
		{"SNAP", 3, caseSnap},
		{"FORCE", 3, caseForce},
		{"DENS", 3, caseDensify},
		{"SIMP", 4, caseSimplify},
		{"INTP", 3, caseInterp},
		{"EVEN", 1, caseEven},
		{"SNAPG", 2, caseSnapGeom},
	}
	total := 0
	for _, o := range ops {
		total += o.weight
	}
	// corpus: the inputs of the confirmed findings always run first
	id := 0
	for _, c := range corpus() {
		fmt.Fprintf(w, "c%d\t%s\n", id, strings.Join(c, "\t"))
		id++
	}
	for i := 0; i < a.N; i++ {
		r := root.Fork()
		k := i % total
		var o opGen
		for _, cand := range ops {
			if k < cand.weight {
				o = cand
				break
			}
			k -= cand.weight
		}
		st.Ops[o.name]++
		fields := o.fn(r, st)
		fmt.Fprintf(w, "%d\t%s\n", i, strings.Join(fields, "\t"))
	}
	js, _ := json.Marshal(map[string]interface{}{"ops": st.Ops, "kinds": st.Kinds, "ctypes": st.CTs,
		"lattice": st.Lattice, "general_position_floats": st.Floats, "with_repeated_vertices": st.Dups,
		"closed_lines": st.Closed, "polygons_with_hole": st.Holes, "rejected_candidates": st.Rejected,
		"empty_members": st.EmptyMem})
	fmt.Fprintf(w, "#GEN\t%s\n", js)
}

// corpus returns hand-written cases (defect replays and boundary inputs).
func corpus() [][]string {
	var out [][]string
	snap := func(x float64, dp int) {
		y, yneg := snapXY(x, -x, dp)
		yy, _ := snapXY(y, yneg, dp)
		out = append(out, []string{"SNAP", "corpus", fmt.Sprintf("%d", dp), hexf(x), hexf(y), hexf(yneg), hexf(yy)})
	}
	snap(-1e300, 10) // F10
	snap(1e300, 10)
	snap(0, 320) // F10 (0 * Inf)
	snap(-1e300, 320)
	snap(2.5, 0)
	snap(0.125, 2)
	snap(25, -1)
	interp := func(wkt string, f float64) {
		g, err := geom.UnmarshalWKT(wkt, geom.NoValidate{})
		if err != nil {
			panic(err)
		}
		ls := g.MustAsLineString()
		o := guarded(func() string { return lib.Dump(ls.InterpolatePoint(f).AsGeometry()) })
		out = append(out, []string{"INTP", "corpus", lib.Dump(g), hexf(f), o})
	}
	interp("LINESTRING(0 0,0 0,1 1)", 0) // F9
	interp("LINESTRING Z(0 0 5,0 0 7,0 0 9,3 4 1)", 0)
	interp("LINESTRING(0 0,3 4,3 4,6 8)", 0.5)
	interp("LINESTRING(1 1,4 5)", 1)
	return out
}
