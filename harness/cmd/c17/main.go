// Command c17 runs Reverse, ForceCW/CCW, Densify, Simplify, InterpolatePoint,
// InterpolateEvenlySpacedPoints and SnapToGrid of the implementation on generated inputs and
// prints, per case, the input and the implementation's observations (property C17).
//
// Case lines (tab separated, id first, then the operation tag):
//
//	REV   class dump(g) dump(g.Reverse()) dump(g.Reverse().Reverse()) validIn validOut
//	SNAP  class dp x y yneg yy          (x, snap(x), snap(-x), snap(snap(x)) as hex bit patterns)
//	FORCE class dump(g) dump(cw) dump(ccw) isCW(g) isCCW(g) isCW(cw) isCCW(ccw) dump(cw.ForceCW()) dump(ccw.ForceCCW())
//	DENS  class dump(g) d dump(g.Densify(d))|PANIC
//	SIMP  class dump(g) t dump(g.Simplify(t, NoValidate)) OK|ERR valid(NoValidate output) same(OK output = NoValidate output)
//	INTP  class dump(line) f dump(line.InterpolatePoint(f))|PANIC
//	EVEN  class dump(line) n dump(line.InterpolateEvenlySpacedPoints(n))|PANIC
//	SNAPG class dump(g) dp dump(g.SnapToGrid(dp))
package main

import (
	"encoding/json"
	"flag"
	"fmt"
	"math"
	"strconv"
	"strings"

	"github.com/peterstace/simplefeatures/geom"
	"verifharness/lib"
)

func hexf(f float64) string { return fmt.Sprintf("%016x", math.Float64bits(f)) }

func b2s(b bool) string {
	if b {
		return "1"
	}
	return "0"
}

var allKinds = []lib.Kind{lib.KPoint, lib.KLine, lib.KPoly, lib.KMPoint, lib.KMLine, lib.KMPoly, lib.KColl}

func caseReverse(r *lib.Rng, st *genStats) []string {
	n := genGeom(r, allKinds, 3, st)
	g := n.Build()
	typed := r.Bool()
	rv := opReverse(g, typed)
	return []string{"REV", kindNames[n.Kind] + apiTag(typed), lib.Dump(g), lib.Dump(rv), lib.Dump(opReverse(rv, typed)),
		b2s(g.Validate() == nil), b2s(rv.Validate() == nil)}
}

// snapXY observes the scalar function through the public API: POINT(x -x).SnapToGrid(dp).
func snapXY(x, y float64, dp int) (float64, float64) {
	p := geom.NewPoint(geom.Coordinates{XY: geom.XY{X: x, Y: y}, Type: geom.DimXY}).SnapToGrid(dp)
	c, ok := p.Coordinates()
	if !ok {
		// a point with a NaN ordinate reads as empty through XY(): report NaN
		return math.NaN(), math.NaN()
	}
	return c.X, c.Y
}

func genSnap(r *lib.Rng) (class string, x float64, dp int) {
	sgn := func() float64 {
		if r.Bool() {
			return -1
		}
		return 1
	}
	switch r.Intn(8) {
	case 0: // decimal amounts, typical precisions, many exact ties (k + 0.5 at dp = 0, x.125 at dp = 2, ...)
		dp = r.Range(-3, 6)
		den := []float64{1, 2, 4, 8, 10, 16, 100, 1000, 3, 7}[r.Intn(10)]
		return "decimal", sgn() * float64(r.Range(0, 200000)) / den, dp
	case 1: // exact ties: 25 at -1, 1500 at -3 ...; (2m+1)/2^(dp+1) at dp >= 0 (0.5 at 0, 0.125 at 2 ...)
		if r.Bool() {
			dp = r.Range(0, 6)
			return "tie_pos", sgn() * float64(2*r.Range(0, 400)+1) / math.Exp2(float64(dp+1)), dp
		}
		dp = -r.Range(1, 6)
		return "tie_neg", sgn() * (float64(r.Range(0, 400)) + 0.5) * math.Pow10(-dp), dp
	case 2: // idempotence domain |x| * 10^dp < 2^40
		dp = r.Range(-8, 8)
		m := float64(r.U64()%(1<<53)) / float64(uint64(1)<<53) // [0,1)
		lim := math.Exp2(39) / math.Pow10(dp)
		return "idem", sgn() * m * lim, dp
	case 3: // the overflow boundary of the scaled value: |x| * 10^dp around MaxFloat64
		e := r.Range(-300, 300)
		m := 1 + float64(r.U64()%(1<<52))/float64(uint64(1)<<52)
		x = sgn() * m * math.Pow10(e)
		if math.Abs(x) > 1e300 {
			x = sgn() * 1e300
		}
		return "overflow_edge", x, 308 - e + r.Range(-3, 3)
	case 4: // the underflow boundary for negative places
		e := r.Range(-300, 300)
		m := 1 + float64(r.U64()%(1<<52))/float64(uint64(1)<<52)
		x = sgn() * m * math.Pow10(e)
		if math.Abs(x) > 1e300 {
			x = sgn() * 1e300
		}
		return "underflow_edge", x, -(e + 323 + r.Range(-3, 3))
	case 5: // special values with extreme places
		xs := []float64{0, math.Copysign(0, -1), 1e300, -1e300, 5e-324, -5e-324, 1, -1, 0.5, -0.5, 1e-300, 2.2250738585072014e-308, 1e15 + 0.5, 4503599627370496.5}
		dps := []int{-320, -309, -308, -307, -1, 0, 1, 15, 16, 22, 23, 307, 308, 309, 320}
		return "special", xs[r.Intn(len(xs))], dps[r.Intn(len(dps))]
	default: // everything: random mantissa, exponent -300..300, places -320..320
		e := r.Range(-300, 300)
		m := 1 + float64(r.U64()%(1<<52))/float64(uint64(1)<<52)
		x = sgn() * m * math.Pow10(e)
		if math.Abs(x) > 1e300 {
			x = sgn() * 1e300
		}
		return "wide", x, r.Range(-320, 320)
	}
}

func caseSnap(r *lib.Rng, st *genStats) []string {
	class, x, dp := genSnap(r)
	if dp > 320 {
		dp = 320
	}
	if dp < -320 {
		dp = -320
	}
	y, yneg := snapXY(x, -x, dp)
	yy, _ := snapXY(y, yneg, dp)
	return []string{"SNAP", class, fmt.Sprintf("%d", dp), hexf(x), hexf(y), hexf(yneg), hexf(yy)}
}

var arealKinds = []lib.Kind{lib.KPoly, lib.KPoly, lib.KMPoly, lib.KMPoly, lib.KColl, lib.KLine, lib.KPoint}
var linealArealKinds = []lib.Kind{lib.KLine, lib.KLine, lib.KPoly, lib.KPoly, lib.KMLine, lib.KMPoly, lib.KColl}

func caseForce(r *lib.Rng, st *genStats) []string {
	n := genGeom(r, arealKinds, 3, st)
	g := n.Build()
	typed := r.Bool()
	cw, ccw := opForce(g, true, typed), opForce(g, false, typed)
	return []string{"FORCE", kindNames[n.Kind] + apiTag(typed), lib.Dump(g), lib.Dump(cw), lib.Dump(ccw),
		b2s(opIs(g, true, typed)), b2s(opIs(g, false, typed)), b2s(opIs(cw, true, typed)), b2s(opIs(ccw, false, typed)),
		lib.Dump(opForce(cw, true, typed)), lib.Dump(opForce(ccw, false, typed))}
}

// guarded runs f and reports a panic as the string PANIC
func guarded(f func() string) (out string) {
	defer func() {
		if e := recover(); e != nil {
			out = "PANIC"
		}
	}()
	return f()
}

// segments of all lines of a geometry (for tie construction)
func allSegLens(g geom.Geometry) []float64 {
	var out []float64
	var walk func(geom.Geometry)
	seq := func(s geom.Sequence) {
		for i := 0; i+1 < s.Length(); i++ {
			a, b := s.GetXY(i), s.GetXY(i+1)
			if a != b {
				out = append(out, math.Hypot(b.X-a.X, b.Y-a.Y))
			}
		}
	}
	walk = func(g geom.Geometry) {
		switch g.Type() {
		case geom.TypeLineString:
			seq(g.MustAsLineString().Coordinates())
		case geom.TypePolygon:
			for _, rg := range g.MustAsPolygon().DumpRings() {
				seq(rg.Coordinates())
			}
		case geom.TypeMultiLineString:
			m := g.MustAsMultiLineString()
			for i := 0; i < m.NumLineStrings(); i++ {
				seq(m.LineStringN(i).Coordinates())
			}
		case geom.TypeMultiPolygon:
			m := g.MustAsMultiPolygon()
			for i := 0; i < m.NumPolygons(); i++ {
				walk(m.PolygonN(i).AsGeometry())
			}
		case geom.TypeGeometryCollection:
			m := g.MustAsGeometryCollection()
			for i := 0; i < m.NumGeometries(); i++ {
				walk(m.GeometryN(i))
			}
		}
	}
	walk(g)
	return out
}

var maxInserted = 250

func caseDensify(r *lib.Rng, st *genStats) []string {
	n := genGeom(r, linealArealKinds, 3, st)
	g := n.Build()
	diam := diameter(g)
	lens := allSegLens(g)
	var d float64
	class := "range"
	switch k := r.Intn(12); {
	case k == 0:
		class = "nonpositive"
		d = []float64{0, -1, math.Copysign(0, -1), -1e-300}[r.Intn(4)]
	case k <= 3 && len(lens) > 0:
		// exact and near ties: d = |ab| / k for a segment of the geometry
		class = "tie"
		d = lens[r.Intn(len(lens))] / float64(r.Range(1, 6))
		if r.Chance(1, 3) {
			d = math.Nextafter(d, d*float64(r.Range(0, 1)*2))
		}
	default:
		// log-uniform factor in [1e-3, 10] of the diameter
		f := math.Pow(10, -3+4*float64(r.Intn(1000001))/1000000)
		if diam == 0 {
			diam = 1
		}
		d = f * diam
	}
	if r.Chance(1, 6) {
		// short geometries with a diagonal longest segment, d above every side of the bounding box
		// but not above that segment: it must still be subdivided
		var lo, hi float64
		n, lo, hi = genDiagGeom(r, st)
		g = n.Build()
		lens = allSegLens(g)
		class = "box_side_to_diagonal"
		d = lo + (hi-lo)*float64(1+r.Intn(1000))/1000
		if r.Chance(1, 6) {
			d = math.Nextafter(lo, hi)
		}
	}
	if d > 0 {
		// keep the output small enough for exact arithmetic: at most maxInserted new points
		total := 0.0
		for _, l := range lens {
			total += l
		}
		if total/d > float64(maxInserted) {
			d = total / float64(maxInserted)
			class = "range_capped"
		}
	}
	typed := r.Bool()
	out := guarded(func() string { return lib.Dump(opDensify(g, d, typed)) })
	return []string{"DENS", class + "/" + kindNames[n.Kind] + apiTag(typed), lib.Dump(g), hexf(d), out}
}

// perpendicular distances of interior vertices from the chord of each line (tie thresholds)
func chordDistances(g geom.Geometry) []float64 {
	var out []float64
	var walk func(geom.Geometry)
	seq := func(s geom.Sequence) {
		n := s.Length()
		if n < 3 {
			return
		}
		a, b := s.GetXY(0), s.GetXY(n-1)
		for i := 1; i < n-1; i++ {
			p := s.GetXY(i)
			if a == b {
				out = append(out, math.Hypot(p.X-a.X, p.Y-a.Y))
			} else {
				cr := (b.X-a.X)*(p.Y-a.Y) - (b.Y-a.Y)*(p.X-a.X)
				out = append(out, math.Abs(cr)/math.Hypot(b.X-a.X, b.Y-a.Y))
			}
		}
	}
	walk = func(g geom.Geometry) {
		switch g.Type() {
		case geom.TypeLineString:
			seq(g.MustAsLineString().Coordinates())
		case geom.TypePolygon:
			for _, rg := range g.MustAsPolygon().DumpRings() {
				seq(rg.Coordinates())
			}
		case geom.TypeMultiLineString:
			m := g.MustAsMultiLineString()
			for i := 0; i < m.NumLineStrings(); i++ {
				seq(m.LineStringN(i).Coordinates())
			}
		case geom.TypeMultiPolygon:
			m := g.MustAsMultiPolygon()
			for i := 0; i < m.NumPolygons(); i++ {
				walk(m.PolygonN(i).AsGeometry())
			}
		case geom.TypeGeometryCollection:
			m := g.MustAsGeometryCollection()
			for i := 0; i < m.NumGeometries(); i++ {
				walk(m.GeometryN(i))
			}
		}
	}
	walk(g)
	return out
}

// pickThreshold draws t from the classes of the quantifier: 0, the diameter, an exact
// vertex-to-chord distance (tie), round values, uniform in [0, diameter].
func pickThreshold(r *lib.Rng, g geom.Geometry) (string, float64) {
	diam := diameter(g)
	var t float64
	class := "range"
	cds := chordDistances(g)
	switch k := r.Intn(10); {
	case k == 0:
		class = "zero"
		t = 0
	case k == 1:
		class = "diameter"
		t = diam
	case k <= 4 && len(cds) > 0:
		class = "tie"
		t = cds[r.Intn(len(cds))]
	case k == 5:
		class = "round"
		t = []float64{0.5, 1, 1.5, 2, 2.5, 3, 0.25, 0.6, 0.8, 1.2, 2.4}[r.Intn(11)]
	default:
		t = diam * float64(r.Intn(1000001)) / 1000000
		if r.Chance(1, 3) {
			t /= 8
		}
	}
	return class, t
}

func caseSimplify(r *lib.Rng, st *genStats) []string {
	n := genGeom(r, linealArealKinds, 3, st)
	g := n.Build()
	class, t := pickThreshold(r, g)
	if r.Chance(1, 6) {
		// targeted class: search for an areal input whose unvalidated simplification is not a valid
		// geometry (the error branch of the gate must fire); the first hit of at most 400 draws is used
		for try := 0; try < 400; try++ {
			n2 := genGeom(r, []lib.Kind{lib.KPoly, lib.KMPoly, lib.KColl}, 2, st)
			g2 := n2.Build()
			_, t2 := pickThreshold(r, g2)
			// criterion independent of the gate under test: the unvalidated result is invalid
			if nv2, _ := g2.Simplify(t2, geom.NoValidate{}); nv2.Validate() != nil {
				n, g, t, class = n2, g2, t2, "gate_error_search"
				st.GateHits++
				break
			}
		}
	}
	if r.Chance(1, 6) {
		// targeted class: members that are fine one by one but collide after simplification; accepted
		// when the unvalidated result is invalid although every member simplifies to a valid polygon
		for try := 0; try < 60; try++ {
			ct := geom.CoordinatesType(r.Intn(4))
			c := newSrc(r, st)
			mp, dn := genSiblingBay(r, ct, c, st)
			n2 := mp
			switch r.Intn(3) {
			case 1:
				n2 = &lib.Node{Kind: lib.KColl, CT: ct, Kids: []*lib.Node{mp}}
			case 2:
				n2 = &lib.Node{Kind: lib.KColl, CT: ct, Kids: []*lib.Node{genKind(r, lib.KLine, ct, c, 1, st),
					{Kind: lib.KColl, CT: ct, Kids: []*lib.Node{mp}}}}
			}
			g2 := n2.Build()
			if g2.Validate() != nil {
				continue
			}
			st.Sibling++
			scale := 1.0
			if c.float {
				scale = 1.09 // the affine map of the float class stretches lengths by about this factor
			}
			t2 := scale * (dn + 0.25 + float64(r.Intn(300))/100)
			nv2, _ := g2.Simplify(t2, geom.NoValidate{})
			membersFine := true
			mpg := mp.Build().MustAsMultiPolygon()
			for i := 0; i < mpg.NumPolygons(); i++ {
				if p, _ := mpg.PolygonN(i).Simplify(t2, geom.NoValidate{}); p.Validate() != nil {
					membersFine = false
				}
			}
			if nv2.Validate() != nil && membersFine {
				n, g, t, class = n2, g2, t2, "sibling_collision_search"
				st.SibHits++
				break
			}
		}
	}
	if r.Chance(1, 7) {
		// long sequences (64 vertices and more), features between t and 2t
		n, t, class = genLongSeq(r, maxLong, st)
		g = n.Build()
	}
	return simplifyCase(r, n, g, class, t)
}

func simplifyCase(r *lib.Rng, n *lib.Node, g geom.Geometry, class string, t float64) []string {
	typed := r.Bool()
	nv, _ := opSimplify(g, t, typed, geom.NoValidate{})
	v, err := opSimplify(g, t, typed)
	res, same := "OK", "1"
	if err != nil {
		res, same = "ERR", "-"
	} else if lib.Dump(v) != lib.Dump(nv) {
		same = "0"
	}
	return []string{"SIMP", class + "/" + kindNames[n.Kind] + apiTag(typed), lib.Dump(g), hexf(t), lib.Dump(nv), res, b2s(nv.Validate() == nil), same}
}

func genInterpLine(r *lib.Rng, st *genStats) *lib.Node {
	return genGeom(r, []lib.Kind{lib.KLine}, 1, st)
}

func breakFracs(ls geom.LineString) []float64 {
	seq := ls.Coordinates()
	var cum []float64
	total := 0.0
	for i := 0; i+1 < seq.Length(); i++ {
		a, b := seq.GetXY(i), seq.GetXY(i+1)
		total += math.Sqrt((b.X-a.X)*(b.X-a.X) + (b.Y-a.Y)*(b.Y-a.Y))
		cum = append(cum, total)
	}
	var out []float64
	for _, c := range cum {
		if total > 0 {
			out = append(out, c/total)
		}
	}
	return out
}

func caseInterp(r *lib.Rng, st *genStats) []string {
	n := genInterpLine(r, st)
	ls := n.Build().MustAsLineString()
	var f float64
	class := "range"
	bf := breakFracs(ls)
	switch k := r.Intn(10); {
	case k == 0:
		class = "zero"
		f = 0
	case k == 1:
		class = "one"
		f = 1
	case k == 2:
		class = "outside"
		f = []float64{-1, -0.25, 1.5, 2, math.Copysign(0, -1), -1e-300, 1 + 1e-15}[r.Intn(7)]
	case k <= 5 && len(bf) > 0:
		class = "breakpoint"
		f = bf[r.Intn(len(bf))]
		switch r.Intn(4) {
		case 0:
			f = math.Nextafter(f, 2)
		case 1:
			f = math.Nextafter(f, -1)
		}
	default:
		f = -1 + 3*float64(r.Intn(1000001))/1000000
		if r.Chance(2, 3) {
			f = float64(r.Intn(1000001)) / 1000000
		}
	}
	out := guarded(func() string { return lib.Dump(ls.InterpolatePoint(f).AsGeometry()) })
	return []string{"INTP", class, lib.Dump(ls.AsGeometry()), hexf(f), out}
}

var evenCount int
var evenMax = 30  // 50 in the thorough tier
var maxLong = 110 // 300 in the thorough tier

func caseEven(r *lib.Rng, st *genStats) []string {
	n := genInterpLine(r, st)
	ls := n.Build().MustAsLineString()
	// n <= 0, n = 1 (midpoint) and n = 2 (both ends) are separate branches of the code: always present
	var k int
	evenCount++
	switch evenCount % 4 {
	case 0, 2:
		k = []int{1, 2, 0, 1, -1, 3, 1, 2, -2, 4}[(evenCount/2)%10]
	case 1:
		k = r.Range(5, 12)
	default:
		k = r.Range(13, evenMax)
	}
	out := guarded(func() string { return lib.Dump(ls.InterpolateEvenlySpacedPoints(k).AsGeometry()) })
	return []string{"EVEN", fmt.Sprintf("n%d", minInt(k, 3)), lib.Dump(ls.AsGeometry()), fmt.Sprintf("%d", k), out}
}

func caseSnapGeom(r *lib.Rng, st *genStats) []string {
	n := genGeom(r, allKinds, 3, st)
	// spread the ordinates over a few decimal digits
	var scale func(*lib.Node)
	f := []float64{1, 0.1, 1.0 / 7, 12.5, 1e3 / 3}[r.Intn(5)]
	scale = func(x *lib.Node) {
		for i := range x.C {
			x.C[i][0] *= f
			x.C[i][1] *= f
		}
		for _, k := range x.Kids {
			scale(k)
		}
	}
	scale(n)
	g := n.Build()
	dp := r.Range(-3, 5)
	typed := r.Bool()
	return []string{"SNAPG", kindNames[n.Kind] + apiTag(typed), lib.Dump(g), fmt.Sprintf("%d", dp), lib.Dump(opSnap(g, dp, typed))}
}

func minInt(a, b int) int {
	if a < b {
		return a
	}
	return b
}

type opGen struct {
	name   string
	weight int
	fn     func(*lib.Rng, *genStats) []string
}

// coqFloat renders a binary64 value as a Coq primitive-float term (exact: hexadecimal literal).
func coqFloat(x float64) string {
	switch {
	case math.IsNaN(x):
		return "nan"
	case math.IsInf(x, 1):
		return "infinity"
	case math.IsInf(x, -1):
		return "neg_infinity"
	}
	s := strconv.FormatFloat(math.Abs(x), 'x', -1, 64)
	if math.Signbit(x) {
		return "(-" + s + ")"
	}
	return s
}

// snapV writes the scalar SnapToGrid observations as a Coq file: the list of (places, input,
// observed output) and one vm_compute of the binary64 model's disagreements (float path).
func snapV(a lib.Args) {
	w, done := a.Output()
	defer done()
	root := lib.NewRng(a.Seed ^ 0x5a17)
	type obs struct {
		dp   int
		x, y float64
	}
	var all []obs
	add := func(x float64, dp int) {
		y, yneg := snapXY(x, -x, dp)
		all = append(all, obs{dp, x, y}, obs{dp, -x, yneg})
	}
	for _, c := range [][2]float64{{-1e300, 10}, {1e300, 10}, {0, 320}, {-1e300, 320}, {2.5, 0}, {0.125, 2}, {25, -1}, {0.285, 2}, {1.005, 2}} {
		add(c[0], int(c[1]))
	}
	classes := map[string]int{}
	for i := 0; i < a.N; i++ {
		r := root.Fork()
		class, x, dp := genSnap(r)
		if dp > 320 {
			dp = 320
		}
		if dp < -320 {
			dp = -320
		}
		classes[class]++
		add(x, dp)
	}
	fmt.Fprintln(w, "(* generated by harness/cmd/c17 -mode snapv: observations of geom.Point.SnapToGrid *)")
	fmt.Fprintln(w, "From Coq Require Import Floats ZArith List.")
	fmt.Fprintln(w, "From SF Require Import Model.TrSnapFloat.")
	fmt.Fprintln(w, "Import ListNotations.")
	fmt.Fprintln(w, "Open Scope float_scope.")
	// shards of 1000 observations: one definition and one evaluation each (a single list literal
	// of tens of thousands of entries overflows the parser's stack)
	const shard = 1000
	for k := 0; k*shard < len(all); k++ {
		lo, hi := k*shard, (k+1)*shard
		if hi > len(all) {
			hi = len(all)
		}
		fmt.Fprintf(w, "Definition cases_%d : list (Z * (float * float)) := [\n", k)
		for i := lo; i < hi; i++ {
			sep := ";"
			if i == hi-1 {
				sep = ""
			}
			o := all[i]
			fmt.Fprintf(w, "  ((%d)%%Z, (%s, %s))%s\n", o.dp, coqFloat(o.x), coqFloat(o.y), sep)
		}
		fmt.Fprintln(w, "].")
		fmt.Fprintf(w, "Eval vm_compute in (length cases_%d, snapf_mismatches true %d%%Z cases_%d).\n", k, lo, k)
	}
	js, _ := json.Marshal(map[string]interface{}{"snap_float_classes": classes, "observations": len(all)})
	fmt.Fprintf(w, "(* #GEN\t%s *)\n", js)
	// the observations again, as a comment, for the failure report
	for i, o := range all {
		fmt.Fprintf(w, "(* OBS %d dp=%d x=%s y=%s *)\n", i, o.dp, hexf(o.x), hexf(o.y))
	}
}

func main() {
	mode := flag.String("mode", "cases", "cases | snapv (Coq file for the binary64 SnapToGrid model)")
	a := lib.ParseArgs()
	if *mode == "snapv" {
		snapV(a)
		return
	}
	w, done := a.Output()
	defer done()
	root := lib.NewRng(a.Seed)
	st := newGenStats()
	if a.Tier == "thorough" {
		maxInserted = 1500
		evenMax = 50
		maxLong = 300
	}
	ops := []opGen{
		{"REV", 2, caseReverse},
		{"SNAP", 3, caseSnap},
		{"FORCE", 3, caseForce},
		{"DENS", 3, caseDensify},
		{"SIMP", 4, caseSimplify},
		{"INTP", 3, caseInterp},
		{"EVEN", 2, caseEven},
		{"SNAPG", 2, caseSnapGeom},
	}
	total := 0
	for _, o := range ops {
		total += o.weight
	}
	// corpus: the inputs of the confirmed findings always run first
	id := 0
	for _, c := range corpus() {
		fmt.Fprintf(w, "c%d\t%s\n", id, strings.Join(c, "\t"))
		id++
	}
	for i := 0; i < a.N; i++ {
		r := root.Fork()
		k := i % total
		var o opGen
		for _, cand := range ops {
			if k < cand.weight {
				o = cand
				break
			}
			k -= cand.weight
		}
		st.Ops[o.name]++
		fields := o.fn(r, st)
		fmt.Fprintf(w, "%d\t%s\n", i, strings.Join(fields, "\t"))
	}
	// self-touching / revisiting lines for Simplify (revisit.go): a stream of its own, so that the
	// cases above do not depend on it
	rroot := lib.NewRng(a.Seed ^ 0x7e7151717)
	for i, k := 0, revisitCount(a.N); i < k; i++ {
		r := rroot.Fork()
		st.Ops["SIMP"]++
		fmt.Fprintf(w, "r%d\t%s\n", i, strings.Join(caseRevisit(r, st), "\t"))
	}
	js, _ := json.Marshal(map[string]interface{}{"ops": st.Ops, "kinds": st.Kinds, "ctypes": st.CTs,
		"lattice": st.Lattice, "general_position_floats": st.Floats, "with_repeated_vertices": st.Dups,
		"closed_lines": st.Closed, "polygons_with_hole": st.Holes, "t_shaped_polygons_with_hole_in_stem": st.Bumps, "concave_shell_fat_hole": st.Gate, "simplify_error_search_hits": st.GateHits, "sibling_collision_candidates": st.Sibling, "diagonal_box_geometries": st.Diag, "long_sequences": st.Long, "sibling_collision_hits": st.SibHits, "rejected_candidates": st.Rejected,
		"empty_members": st.EmptyMem,
		"revisiting_lines": map[string]interface{}{"cases": revStats.Cases, "shapes": revStats.Shapes, "thresholds": revStats.Thresholds,
			"wrappers": revStats.Wrappers, "lines_with_repeated_junction_vertices": revStats.JunctReps, "lines_in_general_position": revStats.Jittered,
			"lines_ending_on_an_earlier_interior_vertex": revStats.EndsOnInt, "lines_starting_on_a_later_interior_vertex": revStats.StartsOnIn}})
	fmt.Fprintf(w, "#GEN\t%s\n", js)
}

// corpus returns hand-written cases (defect replays and boundary inputs).
func corpus() [][]string {
	var out [][]string
	snap := func(x float64, dp int) {
		y, yneg := snapXY(x, -x, dp)
		yy, _ := snapXY(y, yneg, dp)
		out = append(out, []string{"SNAP", "corpus", fmt.Sprintf("%d", dp), hexf(x), hexf(y), hexf(yneg), hexf(yy)})
	}
	snap(-1e300, 10) // F10
	snap(1e300, 10)
	snap(0, 320) // F10 (0 * Inf)
	snap(-1e300, 320)
	snap(2.5, 0)
	snap(0.125, 2)
	snap(25, -1)
	interp := func(wkt string, f float64) {
		g, err := geom.UnmarshalWKT(wkt, geom.NoValidate{})
		if err != nil {
			panic(err)
		}
		ls := g.MustAsLineString()
		o := guarded(func() string { return lib.Dump(ls.InterpolatePoint(f).AsGeometry()) })
		out = append(out, []string{"INTP", "corpus", lib.Dump(g), hexf(f), o})
	}
	interp("LINESTRING(0 0,0 0,1 1)", 0) // F9
	interp("LINESTRING Z(0 0 5,0 0 7,0 0 9,3 4 1)", 0)
	interp("LINESTRING(0 0,3 4,3 4,6 8)", 0.5)
	interp("LINESTRING(1 1,4 5)", 1)
	out = append(out, revisitCorpus()...)
	return out
}
