package main

import (
	"math"

	"github.com/peterstace/simplefeatures/geom"
	"verifharness/lib"
)

// Self-touching / revisiting LineStrings for Simplify (property C17). A LineString need not be
// simple: it may pass through its own vertices any number of times, end on an earlier vertex or
// start on a later one. Ramer-Douglas-Peucker then meets chords of zero length that are NOT the
// chord first-to-last of a closed ring: when a retained interior vertex J is the start of a span
// whose end point is another copy of J, every vertex of the span has to be measured against the
// point J (perpendicularDistance's a == b rule). The shapes below put such junctions at every
// place of the sequence, also with repeated consecutive copies of the junction vertex.
//
// All shapes are built from lattice positions and pushed through the case's coordinate source, so
// a revisit is an exact coincidence of X and Y in the lattice class and in the float class alike
// (Z and M are drawn afresh for every copy).

var revisitSteps = [][2]int{{1, 0}, {0, 1}, {-1, 0}, {0, -1}, {3, 4}, {4, 3}, {-3, 4}, {4, -3}, {1, 1}, {2, -1}, {-1, 2},
	{5, 12}, {2, 0}, {0, -3}, {5, 5}, {-5, 5}, {5, -5}, {-4, -3}, {-2, -5}, {3, -1}}

// revWalk appends k random steps starting from the last position of pts.
func revWalk(r *lib.Rng, pts [][2]int, k int) [][2]int {
	p := pts[len(pts)-1]
	for i := 0; i < k; i++ {
		s := revisitSteps[r.Intn(len(revisitSteps))]
		m := 1
		if r.Chance(1, 3) {
			m = r.Range(1, 3)
		}
		p = [2]int{p[0] + s[0]*m, p[1] + s[1]*m}
		pts = append(pts, p)
	}
	return pts
}

// revLoop appends a loop of k fresh vertices that leaves the last position J and closes on it
// again (k = 1: a spike J-P-J). The loop is a free walk: it may cross itself.
func revLoop(r *lib.Rng, pts [][2]int, k int) [][2]int {
	j := pts[len(pts)-1]
	for {
		out := revWalk(r, append([][2]int(nil), pts...), k)
		if out[len(out)-1] != j { // the walk came back by itself: closing would repeat the vertex
			return append(out, j)
		}
	}
}

// revisitShape draws the lattice positions of one revisiting line and the name of its shape.
func revisitShape(r *lib.Rng) ([][2]int, string) {
	start := [][2]int{{r.Range(-6, 6), r.Range(-6, 6)}}
	var pts [][2]int
	var name string
	switch r.Intn(10) {
	case 0, 1:
		// lollipop ("6"): a tail, then a loop that closes on the tail's last vertex; the line ENDS
		// on its own interior vertex
		name = "lollipop"
		pts = revWalk(r, start, r.Range(1, 3))
		pts = revLoop(r, pts, r.Range(2, 5))
	case 2:
		// the same with a one-vertex loop: a spike out of the junction and back
		name = "spike_end"
		pts = revWalk(r, start, r.Range(1, 3))
		pts = revLoop(r, pts, 1)
	case 3:
		// closed figure-eight through its start point: S loop S loop S
		name = "figure8_through_start"
		pts = revLoop(r, start, r.Range(2, 4))
		pts = revLoop(r, pts, r.Range(2, 4))
	case 4:
		// figure-eight through an interior vertex: tail J loop J loop J (ends on J)
		name = "figure8_interior"
		pts = revWalk(r, start, r.Range(1, 2))
		pts = revLoop(r, pts, r.Range(2, 4))
		pts = revLoop(r, pts, r.Range(1, 4))
	case 5:
		// passes through the same vertex several times and leaves again
		name = "multi_pass"
		pts = revWalk(r, start, r.Range(1, 2))
		for i, n := 0, r.Range(2, 4); i < n; i++ {
			pts = revLoop(r, pts, r.Range(1, 3))
		}
		pts = revWalk(r, pts, r.Range(1, 2))
	case 6:
		// a free walk whose last point is one of its earlier interior vertices
		name = "end_on_earlier"
		pts = revWalk(r, start, r.Range(3, 7))
		j := pts[r.Range(1, len(pts)-2)]
		if j == pts[len(pts)-1] {
			pts = revWalk(r, pts, 1)
		}
		pts = append(pts, j)
	case 7:
		// rho ("9"): the loop comes first, then the tail: the START is revisited later
		name = "rho"
		pts = revLoop(r, start, r.Range(2, 5))
		pts = revWalk(r, pts, r.Range(1, 3))
	case 8:
		// nested: tail J1 a J2 loop J2 b J1 - a lollipop whose loop holds another junction
		name = "nested"
		pts = revWalk(r, start, r.Range(1, 2))
		j1 := len(pts) - 1
		pts = revWalk(r, pts, r.Range(1, 2))
		pts = revLoop(r, pts, r.Range(2, 3))
		pts = revWalk(r, pts, r.Range(1, 2))
		if pts[len(pts)-1] == pts[j1] {
			pts = revWalk(r, pts, 1)
		}
		pts = append(pts, pts[j1])
	default:
		// several junctions: every third step returns to a random earlier vertex
		name = "jumps"
		pts = revWalk(r, start, 2)
		for i, n := 0, r.Range(2, 4); i < n; i++ {
			pts = revWalk(r, pts, r.Range(1, 2))
			j := pts[r.Intn(len(pts)-1)]
			if j != pts[len(pts)-1] {
				pts = append(pts, j)
			}
		}
		if r.Bool() {
			j := pts[r.Range(1, len(pts)-2)]
			if j != pts[len(pts)-1] {
				pts = append(pts, j) // and ends on one
			}
		}
	}
	if r.Chance(1, 3) {
		// the same line the other way round: what ended on an earlier vertex now starts on a later one
		for i, j := 0, len(pts)-1; i < j; i, j = i+1, j-1 {
			pts[i], pts[j] = pts[j], pts[i]
		}
		name += "_reversed"
	}
	return pts, name
}

type revisitStats struct {
	Shapes     map[string]int
	Thresholds map[string]int
	Wrappers   map[string]int
	JunctReps  int // lines with repeated consecutive copies of a junction vertex
	Jittered   int // lines in general position (per-position offsets)
	EndsOnInt  int // lines whose last XY equals the XY of an interior vertex other than its neighbour
	StartsOnIn int // lines whose first XY equals the XY of a later interior vertex
	Cases      int
}

var revStats = revisitStats{Shapes: map[string]int{}, Thresholds: map[string]int{}, Wrappers: map[string]int{}}

// genRevisitLine builds the LineString node of one shape.
func genRevisitLine(r *lib.Rng, ct geom.CoordinatesType, c coordSrc, st *genStats) (*lib.Node, string) {
	pts, name := revisitShape(r)
	occ := map[[2]int]int{}
	for _, p := range pts {
		occ[p]++
	}
	repeat := r.Chance(1, 2)
	repeated := false
	// general position: two times out of three every lattice position is moved by its own small
	// dyadic offset (the same for every visit, so revisits stay exact coincidences); lattice shapes
	// are full of exact distance ties, which the comparison with the model has to skip
	jitter := map[[2]int][2]float64{}
	if r.Chance(2, 3) {
		for _, p := range pts {
			if _, ok := jitter[p]; !ok {
				jitter[p] = [2]float64{float64(r.Range(-400, 400)) / 1024, float64(r.Range(-400, 400)) / 1024}
			}
		}
		revStats.Jittered++
	}
	at := func(p [2]int) [4]float64 {
		v := vtx(c, ct, p[0], p[1])
		v[0] += jitter[p][0]
		v[1] += jitter[p][1]
		return v
	}
	var vs [][4]float64
	for _, p := range pts {
		vs = append(vs, at(p))
		rep := 0
		switch {
		case repeat && occ[p] > 1 && r.Chance(1, 3):
			rep = r.Range(1, 2) // repeated consecutive vertex at a junction
			repeated = true
		case repeat && r.Chance(1, 12):
			rep = 1 // and now and then elsewhere
		}
		for k := 0; k < rep; k++ {
			if r.Bool() {
				vs = append(vs, vs[len(vs)-1]) // same payload
			} else {
				vs = append(vs, at(p)) // same location, other Z/M
			}
		}
	}
	if repeated {
		revStats.JunctReps++
	}
	n := len(pts)
	for i := 1; i < n-2; i++ {
		if pts[i] == pts[n-1] {
			revStats.EndsOnInt++
			break
		}
	}
	for i := 2; i < n-1; i++ {
		if pts[i] == pts[0] {
			revStats.StartsOnIn++
			break
		}
	}
	revStats.Shapes[name]++
	return &lib.Node{Kind: lib.KLine, CT: ct, C: clearUnused(vs, ct)}, name
}

// genRevisitGeom wraps one or two revisiting lines as LineString, MultiLineString (with ordinary
// sibling lines, in any position) or GeometryCollection (directly, inside a MultiLineString, or one
// level deeper).
func genRevisitGeom(r *lib.Rng, st *genStats) (*lib.Node, string) {
	for {
		ct := geom.CoordinatesType(r.Intn(4))
		c := newSrc(r, st)
		line, shape := genRevisitLine(r, ct, c, st)
		mline := func() *lib.Node {
			m := &lib.Node{Kind: lib.KMLine, CT: ct}
			for i, k := 0, r.Range(0, 2); i < k; i++ {
				m.Kids = append(m.Kids, genKind(r, lib.KLine, ct, c, 1, st))
			}
			if r.Chance(1, 3) {
				l2, _ := genRevisitLine(r, ct, c, st)
				m.Kids = append(m.Kids, l2)
			}
			at := r.Intn(len(m.Kids) + 1)
			m.Kids = append(m.Kids[:at], append([]*lib.Node{line}, m.Kids[at:]...)...)
			return m
		}
		var n *lib.Node
		wrap := ""
		switch r.Intn(10) {
		case 0, 1, 2, 3:
			n, wrap = line, "LineString"
		case 4, 5, 6:
			n, wrap = mline(), "MultiLineString"
		case 7:
			n, wrap = &lib.Node{Kind: lib.KColl, CT: ct, Kids: []*lib.Node{line}}, "Collection(LineString)"
		case 8:
			n = &lib.Node{Kind: lib.KColl, CT: ct, Kids: []*lib.Node{genKind(r, lib.Kind(r.Intn(6)), ct, c, 1, st), mline()}}
			wrap = "Collection(x,MultiLineString)"
		default:
			inner := &lib.Node{Kind: lib.KColl, CT: ct, Kids: []*lib.Node{line, genKind(r, lib.KPoint, ct, c, 1, st)}}
			n = &lib.Node{Kind: lib.KColl, CT: ct, Kids: []*lib.Node{genKind(r, lib.KLine, ct, c, 1, st), inner}}
			wrap = "Collection(LineString,Collection(LineString,Point))"
		}
		if n.Build().Validate() != nil {
			st.Rejected++
			continue
		}
		st.Kinds[kindNames[n.Kind]]++
		st.CTs[ct]++
		revStats.Wrappers[wrap]++
		return n, shape
	}
}

// revisitThreshold: 0, tiny, moderate, large (relative to the diameter), a fraction of the shortest
// segment, or one of the classes of
// pickThreshold (exact vertex-to-chord ties, round values, uniform).
func revisitThreshold(r *lib.Rng, g geom.Geometry) (string, float64) {
	diam := diameter(g)
	if diam == 0 {
		diam = 1
	}
	switch r.Intn(10) {
	case 0, 1:
		return "zero", 0
	case 2, 3:
		return "tiny", diam * math.Pow(10, -float64(r.Range(4, 13)))
	case 4, 5, 6:
		return "moderate", diam * (0.02 + 0.28*float64(r.Intn(1001))/1000)
	case 7:
		return "large", diam * (0.7 + 1.3*float64(r.Intn(1001))/1000)
	case 8:
		// below the shortest segment: few vertices can go, no decision is near a tie with 0
		m := math.Inf(1)
		for _, l := range allSegLens(g) {
			m = math.Min(m, l)
		}
		if math.IsInf(m, 1) {
			m = diam
		}
		return "below_shortest_segment", m * (0.05 + 0.9*float64(r.Intn(1001))/1000)
	default:
		cl, t := pickThreshold(r, g)
		return "pick_" + cl, t
	}
}

// caseRevisit is one SIMP case of the class.
func caseRevisit(r *lib.Rng, st *genStats) []string {
	n, _ := genRevisitGeom(r, st)
	g := n.Build()
	tc, t := revisitThreshold(r, g)
	revStats.Thresholds[tc]++
	revStats.Cases++
	return simplifyCase(r, n, g, "revisit_"+tc, t)
}

// revisitCorpus: fixed inputs of the class (always run).
func revisitCorpus() [][]string {
	var out [][]string
	r := lib.NewRng(0xc17)
	for _, wkt := range []string{
		"LINESTRING(0 0,10 0,15 5,10 10,5 5,10 0)",               // lollipop
		"LINESTRING Z(0 0 1,10 0 2,15 5 3,10 10 4,5 5 5,10 0 6)", // with Z
		"LINESTRING(0 0,4 0,4 4,0 0,-4 0,-4 -4,0 0)",             // closed, through its start half way round
		"LINESTRING(0 0,10 0,10 0,15 5,10 10,5 5,10 0,10 0)",     // repeated junction vertices
		"LINESTRING(10 0,15 5,10 10,5 5,10 0,0 0)",               // rho: starts on a later vertex
		"LINESTRING(0 0,10 0,13 4,10 0,6 3,10 0)",                // two spikes, ends on the junction
		"MULTILINESTRING((0 0,1 1),(0 0,10 0,15 5,10 10,5 5,10 0),(3 3,4 4))",
		"GEOMETRYCOLLECTION(POINT(1 1),GEOMETRYCOLLECTION(LINESTRING(0 0,10 0,15 5,10 10,5 5,10 0)))",
	} {
		g, err := geom.UnmarshalWKT(wkt)
		if err != nil {
			panic(err)
		}
		for _, t := range []float64{0, 1e-9, 0.5, 2, 6, 20} {
			n := &lib.Node{Kind: map[geom.GeometryType]lib.Kind{geom.TypeLineString: lib.KLine, geom.TypeMultiLineString: lib.KMLine,
				geom.TypeGeometryCollection: lib.KColl}[g.Type()]}
			out = append(out, simplifyCase(r, n, g, "revisit_corpus", t))
		}
	}
	return out
}

// revisitCount: number of generated cases of the class for a run of n ordinary cases.
func revisitCount(n int) int {
	k := n / 8
	if k < 40 {
		k = 40
	}
	return k
}
