#!/usr/bin/env python3
"""C17 float path (extra_cmds): the harness writes the scalar SnapToGrid observations as a Coq file,
coqc evaluates the binary64 model (coq/Model/TrSnapFloat.v) on them with vm_compute, and the
disagreements are reported in the FAIL/STATS protocol of tools/check.py.

  snapfloat.py BUILD_DIR SEED TIER
"""
import os, re, subprocess, sys

build, seed, tier = sys.argv[1], sys.argv[2], sys.argv[3]
verif = os.path.dirname(os.path.dirname(os.path.dirname(os.path.dirname(os.path.abspath(__file__)))))
n = 1500 if tier != "thorough" else 40000
hb = os.path.join(build, "bin", "c17")
vfile = os.path.join(build, "C17_snap_cases.v")
r = subprocess.run([hb, "-mode", "snapv", "-seed", seed, "-n", str(n), "-tier", tier, "-out", vfile],
                   stdout=subprocess.PIPE, stderr=subprocess.STDOUT, timeout=600)
if r.returncode != 0:
    print("FAIL\tsnapv\tSPEC\tharness_crash\t" + r.stdout.decode("utf-8", "replace")[-400:].replace("\n", " "))
    sys.exit(0)
obs = {}
for line in open(vfile):
    m = re.match(r"\(\* OBS (\d+) (.*) \*\)", line)
    if m:
        obs[int(m.group(1))] = m.group(2)
r = subprocess.run(["coqc", "-Q", os.path.join(verif, "coq"), "SF", "-w", "-all", vfile], cwd=build,
                   stdout=subprocess.PIPE, stderr=subprocess.STDOUT, timeout=3000)
out = r.stdout.decode("utf-8", "replace")
if r.returncode != 0:
    print("coqc failed on the generated cases file:\n" + out[-1500:])
    sys.exit(2)
vals = re.findall(r"=\s*\((\d+)(?:%nat)?\s*,\s*(\[.*?\])\s*\)\s*:\s*nat \* list Z", out, flags=re.S)
if not vals:
    print("unexpected coqc output:\n" + out[-1500:])
    sys.exit(2)
total = sum(int(v[0]) for v in vals)
bad = [int(x) for v in vals for x in re.findall(r"(-?\d+)%Z", v[1])]
if total != len(obs):
    print("coqc evaluated %d observations, the file holds %d" % (total, len(obs)))
    sys.exit(2)
for i in bad:
    print("FAIL\tsf%d\tCORR\tsnap_float_model\t%s" % (i, obs.get(i, "?")))
print("STATS\tcases=%d\tfails=%d\tdistinct_nontrivial=%d\tsnap_float_bit_exact=%d" % (total, len(bad), len(set(obs.values())), total - len(bad)))
if obs:
    print("SAMPLE\tSNAPFLOAT\t" + obs[min(len(obs) - 1, 11)])
