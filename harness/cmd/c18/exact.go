package main

import (
	"math"
	"math/big"
	"strconv"
	"strings"
)

// simplicity of a closed polyline does not depend on its start vertex or direction (exact
// arithmetic), so the verdict is cached under a rotation/reversal-invariant key
var simpleCache = map[string]byte{}

func simpleKey(c [][4]float64) string {
	enc := func(pts [][4]float64) string {
		var sb strings.Builder
		for _, v := range pts {
			sb.WriteString(strconv.FormatUint(math.Float64bits(v[0]), 16))
			sb.WriteByte(',')
			sb.WriteString(strconv.FormatUint(math.Float64bits(v[1]), 16))
			sb.WriteByte(';')
		}
		return sb.String()
	}
	n := len(c)
	if n < 3 || math.Float64bits(c[0][0]) != math.Float64bits(c[n-1][0]) || math.Float64bits(c[0][1]) != math.Float64bits(c[n-1][1]) {
		return "o" + enc(c)
	}
	open := c[:n-1]
	m := len(open)
	best := ""
	buf := make([][4]float64, m)
	for dir := 0; dir < 2; dir++ {
		for k := 0; k < m; k++ {
			for i := 0; i < m; i++ {
				if dir == 0 {
					buf[i] = open[(i+k)%m]
				} else {
					buf[i] = open[((k-i)%m+m)%m]
				}
			}
			if e := enc(buf); best == "" || e < best {
				best = e
			}
		}
	}
	return "c" + best
}

func isSimpleExact(c [][4]float64) byte {
	key := simpleKey(c)
	if v, ok := simpleCache[key]; ok {
		return v
	}
	v := isSimpleExactUncached(c)
	if len(simpleCache) > 200000 {
		simpleCache = map[string]byte{}
	}
	simpleCache[key] = v
	return v
}

// Exact simplicity of a polyline (rational arithmetic on the exact values of the float64
// ordinates): '1' simple, '0' not simple, '?' not judged (fewer than two distinct consecutive
// points or non-finite ordinates - the conventions for those belong to C03).
//
// A vertex listed several times in a row (X and Y equal as numbers) does not change the curve:
// the verdict is the one of the polyline with every such run contracted to one vertex (a ring that
// lists a vertex twice in a row is still closed and simple; the implementation's IsSimple skips the
// zero-length segments in the same way).
func isSimpleExactUncached(c [][4]float64) byte {
	for _, v := range c {
		if v[0] != v[0] || v[1] != v[1] || v[0]-v[0] != 0 || v[1]-v[1] != 0 {
			return '?'
		}
	}
	if len(c) >= 2 {
		d := make([][4]float64, 0, len(c))
		for i, v := range c {
			if i > 0 && v[0] == c[i-1][0] && v[1] == c[i-1][1] {
				continue
			}
			d = append(d, v)
		}
		c = d
	}
	n := len(c)
	if n < 2 {
		return '?'
	}
	type pt struct{ x, y *big.Rat }
	ps := make([]pt, n)
	for i, v := range c {
		if v[0] != v[0] || v[1] != v[1] || v[0]-v[0] != 0 || v[1]-v[1] != 0 {
			return '?'
		}
		ps[i] = pt{new(big.Rat).SetFloat64(v[0]), new(big.Rat).SetFloat64(v[1])}
	}
	eq := func(a, b pt) bool { return a.x.Cmp(b.x) == 0 && a.y.Cmp(b.y) == 0 }
	for i := 0; i+1 < n; i++ {
		if eq(ps[i], ps[i+1]) {
			return '?'
		}
	}
	sub := func(a, b *big.Rat) *big.Rat { return new(big.Rat).Sub(a, b) }
	mul := func(a, b *big.Rat) *big.Rat { return new(big.Rat).Mul(a, b) }
	orient := func(a, b, p pt) int { // sign of (b-a) x (p-a)
		return sub(mul(sub(b.x, a.x), sub(p.y, a.y)), mul(sub(b.y, a.y), sub(p.x, a.x))).Sign()
	}
	between := func(a, b, p pt) bool { // p collinear with ab assumed: inside the bounding box
		lo, hi := a.x, b.x
		if lo.Cmp(hi) > 0 {
			lo, hi = hi, lo
		}
		if p.x.Cmp(lo) < 0 || p.x.Cmp(hi) > 0 {
			return false
		}
		lo, hi = a.y, b.y
		if lo.Cmp(hi) > 0 {
			lo, hi = hi, lo
		}
		return p.y.Cmp(lo) >= 0 && p.y.Cmp(hi) <= 0
	}
	onSeg := func(a, b, p pt) bool { return orient(a, b, p) == 0 && between(a, b, p) }
	intersects := func(a, b, c, d pt) bool {
		o1, o2, o3, o4 := orient(a, b, c), orient(a, b, d), orient(c, d, a), orient(c, d, b)
		if o1*o2 < 0 && o3*o4 < 0 {
			return true
		}
		return onSeg(a, b, c) || onSeg(a, b, d) || onSeg(c, d, a) || onSeg(c, d, b)
	}
	closed := eq(ps[0], ps[n-1])
	segs := n - 1
	for i := 0; i < segs; i++ {
		for j := i + 1; j < segs; j++ {
			a, b, c, d := ps[i], ps[i+1], ps[j], ps[j+1]
			adjacent := j == i+1
			wrap := closed && i == 0 && j == segs-1
			switch {
			case adjacent && wrap: // two segments there and back
				return '0'
			case adjacent:
				// share b == c only: d must not lie on ab, a must not lie on cd
				if onSeg(a, b, d) || onSeg(c, d, a) {
					return '0'
				}
			case wrap:
				// share a == d only
				if onSeg(a, b, c) || onSeg(c, d, b) {
					return '0'
				}
			default:
				if intersects(a, b, c, d) {
					return '0'
				}
			}
		}
	}
	return '1'
}
