package main

import "math/big"

// Exact simplicity of a polyline (rational arithmetic on the exact values of the float64
// ordinates): '1' simple, '0' not simple, '?' not judged (fewer than two points, repeated
// consecutive points or non-finite ordinates - the conventions for those belong to C03).
func isSimpleExact(c [][4]float64) byte {
	n := len(c)
	if n < 2 {
		return '?'
	}
	type pt struct{ x, y *big.Rat }
	ps := make([]pt, n)
	for i, v := range c {
		if v[0] != v[0] || v[1] != v[1] || v[0]-v[0] != 0 || v[1]-v[1] != 0 {
			return '?'
		}
		ps[i] = pt{new(big.Rat).SetFloat64(v[0]), new(big.Rat).SetFloat64(v[1])}
	}
	eq := func(a, b pt) bool { return a.x.Cmp(b.x) == 0 && a.y.Cmp(b.y) == 0 }
	for i := 0; i+1 < n; i++ {
		if eq(ps[i], ps[i+1]) {
			return '?'
		}
	}
	sub := func(a, b *big.Rat) *big.Rat { return new(big.Rat).Sub(a, b) }
	mul := func(a, b *big.Rat) *big.Rat { return new(big.Rat).Mul(a, b) }
	orient := func(a, b, p pt) int { // sign of (b-a) x (p-a)
		return sub(mul(sub(b.x, a.x), sub(p.y, a.y)), mul(sub(b.y, a.y), sub(p.x, a.x))).Sign()
	}
	between := func(a, b, p pt) bool { // p collinear with ab assumed: inside the bounding box
		lo, hi := a.x, b.x
		if lo.Cmp(hi) > 0 {
			lo, hi = hi, lo
		}
		if p.x.Cmp(lo) < 0 || p.x.Cmp(hi) > 0 {
			return false
		}
		lo, hi = a.y, b.y
		if lo.Cmp(hi) > 0 {
			lo, hi = hi, lo
		}
		return p.y.Cmp(lo) >= 0 && p.y.Cmp(hi) <= 0
	}
	onSeg := func(a, b, p pt) bool { return orient(a, b, p) == 0 && between(a, b, p) }
	intersects := func(a, b, c, d pt) bool {
		o1, o2, o3, o4 := orient(a, b, c), orient(a, b, d), orient(c, d, a), orient(c, d, b)
		if o1*o2 < 0 && o3*o4 < 0 {
			return true
		}
		return onSeg(a, b, c) || onSeg(a, b, d) || onSeg(c, d, a) || onSeg(c, d, b)
	}
	closed := eq(ps[0], ps[n-1])
	segs := n - 1
	for i := 0; i < segs; i++ {
		for j := i + 1; j < segs; j++ {
			a, b, c, d := ps[i], ps[i+1], ps[j], ps[j+1]
			adjacent := j == i+1
			wrap := closed && i == 0 && j == segs-1
			switch {
			case adjacent && wrap: // two segments there and back
				return '0'
			case adjacent:
				// share b == c only: d must not lie on ab, a must not lie on cd
				if onSeg(a, b, d) || onSeg(c, d, a) {
					return '0'
				}
			case wrap:
				// share a == d only
				if onSeg(a, b, c) || onSeg(c, d, b) {
					return '0'
				}
			default:
				if intersects(a, b, c, d) {
					return '0'
				}
			}
		}
	}
	return '1'
}
