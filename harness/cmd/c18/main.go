// Command c18 runs geom.ExactEquals of the implementation on generated pairs of geometries under
// every subset of its options and prints, per case, the observations the model is compared
// against (property C18).
//
// Case line (tab separated):
//
//	id class dumpG dumpH oracle tols obs wkbeq expect
//
// oracle: "se:<L dump>;..." for every line string occurring in G or H: s = LineString.IsSimple() as
//         observed, e = exact simplicity computed with rationals (1/0, ? = not judged)
// tols:   comma separated hex bit patterns of the ToleranceXY arguments (first is always absent = "-")
// obs:    per tolerance entry and per ignoreOrder in {0,1}: ee(G,H) ee(H,G) ee(G,G) ee(H,H) as 0/1/p
// wkbeq:  1 when AsBinary of G and H are equal after writing -0 as +0
// expect: by construction: P1/P0 (no options must be true/false), I1/I0 (IgnoreOrder), T1 (true under
//         every listed tolerance), T0 (false under
//         every listed tolerance, with and without IgnoreOrder), U0 (false under every listed
//         tolerance without IgnoreOrder), ? unknown
package main

import (
	"bytes"
	"encoding/json"
	"fmt"
	"math"
	"strings"

	"github.com/peterstace/simplefeatures/geom"
	"verifharness/lib"
)

type N = lib.Node

func clone(n *N) *N {
	c := &N{Kind: n.Kind, CT: n.CT, Full: n.Full}
	c.C = append([][4]float64(nil), n.C...)
	for _, k := range n.Kids {
		c.Kids = append(c.Kids, clone(k))
	}
	return c
}

// walk visits every node (pre-order).
func walk(n *N, f func(*N)) {
	f(n)
	for _, k := range n.Kids {
		walk(k, f)
	}
}

func mapOrds(n *N, f func(float64) float64) {
	walk(n, func(m *N) {
		for i := range m.C {
			for j := 0; j < 4; j++ {
				m.C[i][j] = f(m.C[i][j])
			}
		}
	})
}

func nzWKB(g geom.Geometry) []byte {
	n := lib.NodeOf(g)
	mapOrds(n, func(f float64) float64 {
		if f == 0 {
			return 0
		}
		return f
	})
	return n.Build().AsBinary()
}

// ordinate slots that the coordinate type uses: (node, vertex index, ordinate index)
type slot struct {
	n    *N
	i, j int
}

func slots(root *N) []slot {
	var out []slot
	walk(root, func(m *N) {
		for i := range m.C {
			for j := 0; j < 4; j++ {
				if j == 2 && !m.CT.Is3D() || j == 3 && !m.CT.IsMeasured() {
					continue
				}
				out = append(out, slot{m, i, j})
			}
		}
	})
	return out
}

func collections(root *N) []*N {
	var out []*N
	walk(root, func(m *N) {
		if m.Kind >= lib.KMPoint && len(m.Kids) >= 1 {
			out = append(out, m)
		}
	})
	return out
}

func lines(root *N) []*N {
	var out []*N
	walk(root, func(m *N) {
		if m.Kind == lib.KLine {
			out = append(out, m)
		}
	})
	return out
}

func polys(root *N) []*N {
	var out []*N
	walk(root, func(m *N) {
		if m.Kind == lib.KPoly {
			out = append(out, m)
		}
	})
	return out
}

func reverseLine(l *N) {
	for i, j := 0, len(l.C)-1; i < j; i, j = i+1, j-1 {
		l.C[i], l.C[j] = l.C[j], l.C[i]
	}
}

// rotateRing moves the start of a closed ring by k positions (the closing vertex is re-created
// from the new first vertex).
func rotateRing(l *N, k int) {
	n := len(l.C)
	if n < 2 {
		return
	}
	open := l.C[:n-1]
	m := len(open)
	out := make([][4]float64, 0, n)
	for i := 0; i < m; i++ {
		out = append(out, open[(i+k)%m])
	}
	out = append(out, out[0])
	l.C = out
}

func shuffle(r *lib.Rng, kids []*N) {
	for i := len(kids) - 1; i > 0; i-- {
		j := r.Intn(i + 1)
		kids[i], kids[j] = kids[j], kids[i]
	}
}

// ---- generators of base geometries

var magnitudes = []float64{1, 1, 1, 1, 1, 1, 0.125, 0x1p-100, 0x1p-200, 0x1p-400, 0x1p40, 0x1p500, 0x1p990, 0x1p-1070, 0x1p-565, 0x1p-540}

// simple closed ring: lattice points sorted by angle around the origin (star-shaped, hence
// simple), scaled by a power of two (exact) and shifted.
func genRing(r *lib.Rng, ct geom.CoordinatesType, scale float64, zm bool) *N {
	k := r.Range(3, 6)
	type pa struct {
		x, y int
		a    float64
	}
	var ps []pa
	seen := map[[2]int]bool{}
	for len(ps) < k {
		x, y := r.Range(-6, 6), r.Range(-6, 6)
		if x == 0 && y == 0 || seen[[2]int{x, y}] {
			continue
		}
		a := math.Atan2(float64(y), float64(x))
		dup := false
		for _, p := range ps {
			if p.a == a {
				dup = true
			}
		}
		if dup {
			continue
		}
		seen[[2]int{x, y}] = true
		ps = append(ps, pa{x, y, a})
	}
	for i := range ps {
		for j := i + 1; j < len(ps); j++ {
			if ps[j].a < ps[i].a {
				ps[i], ps[j] = ps[j], ps[i]
			}
		}
	}
	l := &N{Kind: lib.KLine, CT: ct}
	for _, p := range ps {
		v := [4]float64{float64(p.x) * scale, float64(p.y) * scale, 0, 0}
		if ct.Is3D() && zm {
			v[2] = float64(r.Range(-3, 3))
		}
		if ct.IsMeasured() && zm {
			v[3] = float64(r.Range(-3, 3))
		}
		l.C = append(l.C, v)
	}
	l.C = append(l.C, l.C[0])
	return l
}

// genBigRing: a simple closed ring of 17..40 vertices whose ordinates are not dyadic (k/10, k/3,
// k/7, also at large magnitudes), so that any float quantity accumulated along the ring (area,
// length, centroid) depends on the start vertex and the direction. Star-shaped around the origin
// by construction (lattice points sorted by angle); simplicity is confirmed in exact arithmetic.
func genBigRing(r *lib.Rng, ct geom.CoordinatesType) *N {
	dens := []float64{10, 3, 7, 10, 3}
	mults := []float64{1, 1, 1, 1e6, 1e15, 0x1p60, 1e-9, 1e100}
	for attempt := 0; attempt < 20; attempt++ {
		k := r.Range(17, 40)
		den := dens[r.Intn(len(dens))]
		mult := mults[r.Intn(len(mults))]
		type pa struct {
			x, y int
			a    float64
		}
		var ps []pa
		for tries := 0; len(ps) < k && tries < 4000; tries++ {
			x, y := r.Range(-40, 40), r.Range(-40, 40)
			if x == 0 && y == 0 {
				continue
			}
			a := math.Atan2(float64(y), float64(x))
			dup := false
			for _, p := range ps {
				if p.a == a {
					dup = true
					break
				}
			}
			if !dup {
				ps = append(ps, pa{x, y, a})
			}
		}
		for i := range ps {
			for j := i + 1; j < len(ps); j++ {
				if ps[j].a < ps[i].a {
					ps[i], ps[j] = ps[j], ps[i]
				}
			}
		}
		l := &N{Kind: lib.KLine, CT: ct}
		for _, p := range ps {
			v := [4]float64{float64(p.x) * mult / den, float64(p.y) * mult / den, 0, 0}
			if ct.Is3D() {
				v[2] = float64(r.Range(-30, 30)) / den
			}
			if ct.IsMeasured() {
				v[3] = float64(r.Range(-30, 30)) / 3
			}
			l.C = append(l.C, v)
		}
		l.C = append(l.C, l.C[0])
		if len(l.C) >= 18 && isSimpleExact(l.C) == '1' {
			return l
		}
	}
	return genRing(r, ct, 1, true)
}

func genOpenLine(r *lib.Rng, ct geom.CoordinatesType, scale float64) *N {
	l := &N{Kind: lib.KLine, CT: ct}
	k := r.Range(0, 5)
	for i := 0; i < k; i++ {
		v := [4]float64{float64(r.Range(-4, 4)) * scale, float64(r.Range(-4, 4)) * scale, 0, 0}
		if ct.Is3D() {
			v[2] = float64(r.Range(-2, 2))
		}
		if ct.IsMeasured() {
			v[3] = float64(r.Range(-2, 2))
		}
		l.C = append(l.C, v)
	}
	return l
}

func genPt(r *lib.Rng, ct geom.CoordinatesType, scale float64) *N {
	p := &N{Kind: lib.KPoint, CT: ct}
	if r.Chance(1, 6) {
		return p
	}
	p.Full = true
	v := [4]float64{float64(r.Range(-2, 2)) * scale, float64(r.Range(-2, 2)) * scale, 0, 0}
	if ct.Is3D() {
		v[2] = float64(r.Range(0, 1))
	}
	if ct.IsMeasured() {
		v[3] = float64(r.Range(0, 1))
	}
	p.C = [][4]float64{v}
	return p
}

func genPolyRings(r *lib.Rng, ct geom.CoordinatesType, scale float64) *N {
	p := &N{Kind: lib.KPoly, CT: ct}
	if r.Chance(1, 8) {
		return p
	}
	k := r.Range(1, 4)
	for i := 0; i < k; i++ {
		p.Kids = append(p.Kids, genRing(r, ct, scale, true))
	}
	return p
}

// genMoves builds a geometry made of proper rings / small-pool members, on which every listed
// order move is applicable and duplicate members are common.
func genMoves(r *lib.Rng, ct geom.CoordinatesType, scale float64, depth int, maxKids int) *N {
	k := lib.Kind(r.Intn(7))
	if depth <= 0 && k == lib.KColl {
		k = lib.Kind(r.Intn(6))
	}
	switch k {
	case lib.KPoint:
		return genPt(r, ct, scale)
	case lib.KLine:
		if r.Bool() {
			return genRing(r, ct, scale, true)
		}
		return genOpenLine(r, ct, scale)
	case lib.KPoly:
		return genPolyRings(r, ct, scale)
	}
	n := &N{Kind: k, CT: ct}
	cnt := r.Range(0, maxKids)
	var pool []*N
	psz := r.Range(1, 3)
	for i := 0; i < psz; i++ {
		switch k {
		case lib.KMPoint:
			pool = append(pool, genPt(r, ct, scale))
		case lib.KMLine:
			if r.Bool() {
				pool = append(pool, genRing(r, ct, scale, true))
			} else {
				pool = append(pool, genOpenLine(r, ct, scale))
			}
		case lib.KMPoly:
			pool = append(pool, genPolyRings(r, ct, scale))
		default:
			pool = append(pool, genMoves(r, ct, scale, depth-1, 3))
		}
	}
	for i := 0; i < cnt; i++ {
		m := clone(pool[r.Intn(len(pool))])
		// near duplicates: same member with one order move applied, or with one ordinate changed
		switch r.Intn(6) {
		case 0:
			applyMoves(r, m, 1)
		case 1:
			if s := slots(m); len(s) > 0 {
				t := s[r.Intn(len(s))]
				t.n.C[t.i][t.j] = math.Nextafter(t.n.C[t.i][t.j], math.Inf(1))
			}
		}
		n.Kids = append(n.Kids, m)
	}
	return n
}

// applyMoves applies up to cnt random order moves (the ones the property lists) in place;
// returns how many of each were applied.
func applyMoves(r *lib.Rng, root *N, cnt int) {
	for c := 0; c < cnt; c++ {
		switch r.Intn(4) {
		case 0: // member permutation at one level
			if cs := collections(root); len(cs) > 0 {
				shuffle(r, cs[r.Intn(len(cs))].Kids)
			}
		case 1: // hole permutation (exterior ring stays)
			if ps := polys(root); len(ps) > 0 {
				p := ps[r.Intn(len(ps))]
				if len(p.Kids) > 2 {
					shuffle(r, p.Kids[1:])
				}
			}
		case 2: // reversal of a line string or ring
			if ls := lines(root); len(ls) > 0 {
				reverseLine(ls[r.Intn(len(ls))])
			}
		case 3: // rotation of a closed line
			if ls := lines(root); len(ls) > 0 {
				l := ls[r.Intn(len(ls))]
				if isClosedAll(l) && isSimpleExact(l.C) == '1' {
					rotateRing(l, r.Range(1, len(l.C)))
				}
			}
		}
	}
}

// closed in every ordinate (bitwise)
func isClosedAll(l *N) bool {
	n := len(l.C)
	if n < 2 {
		return false
	}
	for j := 0; j < 4; j++ {
		if math.Float64bits(l.C[0][j]) != math.Float64bits(l.C[n-1][j]) {
			return false
		}
	}
	return true
}

// buildRaw builds like Node.Build, except that points are made with geom.NewPoint from a
// Coordinates value holding ALL four entries of C[0] - also the ones the coordinate type does not
// use ("stale" Z/M fields, which no encoding shows).
func buildRaw(n *N) geom.Geometry {
	rawPoint := func(p *N) geom.Point {
		if !p.Full {
			return geom.NewEmptyPoint(p.CT)
		}
		v := p.C[0]
		return geom.NewPoint(geom.Coordinates{XY: geom.XY{X: v[0], Y: v[1]}, Z: v[2], M: v[3], Type: p.CT})
	}
	switch n.Kind {
	case lib.KPoint:
		return rawPoint(n).AsGeometry()
	case lib.KMPoint:
		if len(n.Kids) == 0 {
			return n.Build()
		}
		ps := make([]geom.Point, len(n.Kids))
		for i, k := range n.Kids {
			ps[i] = rawPoint(k)
		}
		return geom.NewMultiPoint(ps).AsGeometry()
	case lib.KColl:
		if len(n.Kids) == 0 {
			return n.Build()
		}
		gs := make([]geom.Geometry, len(n.Kids))
		for i, k := range n.Kids {
			gs[i] = buildRaw(k)
		}
		return geom.NewGeometryCollection(gs).AsGeometry()
	}
	return n.Build()
}

var garbage = []float64{7, -3.5, 1e300, 0x1p-1074, math.NaN(), math.Inf(1), math.Inf(-1), math.Copysign(0, -1), 1}

// staleFill writes garbage into the entries of every point vertex that the coordinate type does
// not use; returns how many entries were written.
func staleFill(r *lib.Rng, root *N, prob int) int {
	cnt := 0
	walk(root, func(m *N) {
		if m.Kind != lib.KPoint || !m.Full {
			return
		}
		if !m.CT.Is3D() && r.Chance(prob, 4) {
			m.C[0][2] = garbage[r.Intn(len(garbage))]
			cnt++
		}
		if !m.CT.IsMeasured() && r.Chance(prob, 4) {
			m.C[0][3] = garbage[r.Intn(len(garbage))]
			cnt++
		}
	})
	return cnt
}

// ---- observation

func ee(g, h geom.Geometry, tol *float64, io bool) (res byte) {
	defer func() {
		if recover() != nil {
			res = 'p'
		}
	}()
	var opts []geom.ExactEqualsOption
	if tol != nil {
		opts = append(opts, geom.ToleranceXY(*tol))
	}
	if io {
		opts = append(opts, geom.IgnoreOrder)
	}
	if geom.ExactEquals(g, h, opts...) {
		return '1'
	}
	return '0'
}

func isSimple(l geom.LineString) (res byte) {
	defer func() {
		if recover() != nil {
			res = 'p'
		}
	}()
	if l.IsSimple() {
		return '1'
	}
	return '0'
}

func oracle(sb *strings.Builder, seen map[string]bool, g geom.Geometry) {
	add := func(l geom.LineString) {
		var d strings.Builder
		lib.DumpLine(&d, l)
		key := strings.TrimSpace(d.String())
		if seen[key] {
			return
		}
		seen[key] = true
		if sb.Len() > 0 {
			sb.WriteByte(';')
		}
		sb.WriteByte(isSimple(l))
		sb.WriteByte(isSimpleExact(lib.NodeOf(l.AsGeometry()).C))
		sb.WriteByte(':')
		sb.WriteString(key)
	}
	var rec func(g geom.Geometry)
	rec = func(g geom.Geometry) {
		switch g.Type() {
		case geom.TypeLineString:
			add(g.MustAsLineString())
		case geom.TypePolygon:
			for _, r := range g.MustAsPolygon().DumpRings() {
				add(r)
			}
		case geom.TypeMultiLineString:
			m := g.MustAsMultiLineString()
			for i := 0; i < m.NumLineStrings(); i++ {
				add(m.LineStringN(i))
			}
		case geom.TypeMultiPolygon:
			m := g.MustAsMultiPolygon()
			for i := 0; i < m.NumPolygons(); i++ {
				rec(m.PolygonN(i).AsGeometry())
			}
		case geom.TypeGeometryCollection:
			m := g.MustAsGeometryCollection()
			for i := 0; i < m.NumGeometries(); i++ {
				rec(m.GeometryN(i))
			}
		}
	}
	rec(g)
}

func ulpStep(r *lib.Rng, f float64) float64 {
	if r.Bool() {
		return math.Nextafter(f, math.Inf(1))
	}
	return math.Nextafter(f, math.Inf(-1))
}

// all permutations of 0..k-1 in lexicographic order, index p
func nthPerm(k, p int) []int {
	items := make([]int, k)
	for i := range items {
		items[i] = i
	}
	fact := 1
	for i := 2; i < k; i++ {
		fact *= i
	}
	var out []int
	for i := k - 1; i >= 0; i-- {
		idx := 0
		if fact > 0 {
			idx = p / fact
			p %= fact
		}
		out = append(out, items[idx])
		items = append(items[:idx], items[idx+1:]...)
		if i > 0 {
			fact /= i
		}
	}
	return out
}

func factorial(k int) int {
	f := 1
	for i := 2; i <= k; i++ {
		f *= i
	}
	return f
}

func main() {
	a := lib.ParseArgs()
	w, done := a.Output()
	defer done()
	root := lib.NewRng(a.Seed)
	var st lib.GenStats
	classes := map[string]int{}
	expects := map[string]int{}
	ringsSeen, ringLines := 0, 0
	var emitG func(id string, class string, g, h geom.Geometry, gn, hn *N, tols []float64, expect string)
	emit := func(id string, class string, gn, hn *N, tols []float64, expect string) {
		emitG(id, class, gn.Build(), hn.Build(), gn, hn, tols, expect)
	}
	emitG = func(id string, class string, g, h geom.Geometry, gn, hn *N, tols []float64, expect string) {
		var ob strings.Builder
		seen := map[string]bool{}
		oracle(&ob, seen, g)
		oracle(&ob, seen, h)
		for _, l := range append(lines(lib.NodeOf(g)), lines(lib.NodeOf(h))...) {
			ringLines++
			if l.Build().MustAsLineString().IsRing() {
				ringsSeen++
			}
		}
		// "IgnoreOrder must accept" is only claimed when every closed line involved is a ring
		// (closed in every ordinate and simple in exact arithmetic)
		if strings.Contains(expect, "I1") && !strings.Contains(expect, "P1") {
			for _, l := range append(lines(gn), lines(hn)...) {
				if len(l.C) >= 2 && l.C[0][0] == l.C[len(l.C)-1][0] && l.C[0][1] == l.C[len(l.C)-1][1] && !(isClosedAll(l) && isSimpleExact(l.C) == '1') {
					expect = strings.Replace(expect, "I1", "?", 1)
					break
				}
			}
		}
		tstr := []string{"-"}
		var obs strings.Builder
		for ti := -1; ti < len(tols); ti++ {
			var tp *float64
			if ti >= 0 {
				tp = &tols[ti]
				tstr = append(tstr, fmt.Sprintf("%016x", math.Float64bits(tols[ti])))
			}
			for _, io := range []bool{false, true} {
				obs.WriteByte(ee(g, h, tp, io))
				obs.WriteByte(ee(h, g, tp, io))
				obs.WriteByte(ee(g, g, tp, io))
				obs.WriteByte(ee(h, h, tp, io))
			}
		}
		wkbeq := "0"
		if bytes.Equal(nzWKB(g), nzWKB(h)) {
			wkbeq = "1"
		}
		classes[class]++
		expects[expect]++
		fmt.Fprintln(w, strings.Join([]string{id, class, lib.Dump(g), lib.Dump(h), ob.String(),
			strings.Join(tstr, ","), obs.String(), wkbeq, expect}, "\t"))
	}

	// corpus: the two defects found with this property, and hand-written boundary pairs
	pt := func(x, y float64) *N {
		return &N{Kind: lib.KPoint, CT: geom.DimXY, Full: true, C: [][4]float64{{x, y, 0, 0}}}
	}
	emit("k0", "corpus_f11", pt(1e-170, 0), pt(2e-170, 0), nil, "P0I0")
	emit("k1", "corpus_f11", pt(0, 0x1p-1074), pt(0, 0), []float64{0}, "P0I0")
	zr := func(zlast float64) *N {
		return &N{Kind: lib.KLine, CT: geom.DimXYZ, C: [][4]float64{{0, 0, 1, 0}, {1, 0, 0, 0}, {0, 1, 0, 0}, {0, 0, zlast, 0}}}
	}
	emit("k2", "corpus_f50", zr(1), zr(5), nil, "P0I0")
	emit("k3", "corpus_f50", zr(5), zr(1), nil, "P0I0")
	{
		b2 := &N{Kind: lib.KLine, CT: geom.DimXYZ, C: [][4]float64{{1, 0, 0, 0}, {0, 1, 0, 0}, {0, 0, 1, 0}, {1, 0, 0, 0}}}
		emit("k4", "corpus_f50", b2, zr(5), nil, "P0I0")
		emit("k5", "corpus_f50", zr(1), b2, nil, "P0I1")
	}

	for i := 0; i < a.N; i++ {
		r := root.Fork()
		id := fmt.Sprintf("%d", i)
		ct := geom.CoordinatesType(r.Intn(4))
		scale := magnitudes[r.Intn(len(magnitudes))]
		var tols []float64
		switch i % 20 {
		case 1: // points made by NewPoint(Coordinates{...}) with garbage in the Z/M fields the type does not use
			sct := geom.CoordinatesType(r.Intn(3)) // XY, XYZ, XYM have an unused field
			var g *N
			switch r.Intn(5) {
			case 0:
				g = genPt(r, sct, 1)
				g.Full = true
				if g.C == nil {
					g.C = [][4]float64{{1, 2, 0, 0}}
				}
			case 1, 2:
				g = &N{Kind: lib.KMPoint, CT: sct}
				for c := r.Range(1, 4); c > 0; c-- {
					g.Kids = append(g.Kids, genPt(r, sct, 1))
				}
			case 3:
				g = &N{Kind: lib.KColl, CT: sct, Kids: []*N{genPt(r, sct, 1), genOpenLine(r, sct, 1),
					{Kind: lib.KMPoint, CT: sct, Kids: []*N{genPt(r, sct, 1), genPt(r, sct, 1)}}}}
			default:
				g = &N{Kind: lib.KColl, CT: sct, Kids: []*N{{Kind: lib.KColl, CT: sct, Kids: []*N{genPt(r, sct, 1), genPt(r, sct, 1)}}, genPt(r, sct, 1)}}
			}
			h := clone(g)
			n1 := staleFill(r, g, 3)
			if r.Bool() {
				n1 += staleFill(r, h, 2) // different garbage on the other side
			}
			expect, class := "P1I1T1", "stale_unused_fields"
			if n1 == 0 {
				class = "same"
			}
			switch r.Intn(4) {
			case 0: // a used ordinate differs as well
				if sl := slots(h); len(sl) > 0 {
					t := sl[r.Intn(len(sl))]
					t.n.C[t.i][t.j] = ulpStep(r, t.n.C[t.i][t.j]+1)
					expect, class = "P0I0", "stale_and_used_differs"
				}
			case 1: // member order
				for _, c := range collections(h) {
					shuffle(r, c.Kids)
				}
				expect = "I1"
			}
			var tols []float64
			if expect == "P1I1T1" || r.Bool() {
				tols = []float64{0, 0.5, -2}[:r.Range(1, 3)]
			}
			emitG(id, class, buildRaw(g), buildRaw(h), g, h, tols, expect)
		case 0: // identical copy of an arbitrary structured geometry (all finite float classes)
			cfg := lib.StructCfg{MaxDepth: 3, MaxKids: 4, MaxVerts: 5}
			g := cfg.Gen(r, &st)
			emit(id, "same", g, clone(g), nil, "P1I1")
		case 2, 3: // one used ordinate differs by one ulp
			var g *N
			if r.Bool() {
				cfg := lib.StructCfg{MaxDepth: 3, MaxKids: 3, MaxVerts: 4}
				g = cfg.Gen(r, &st)
			} else {
				g = genMoves(r, ct, scale, 2, 4)
			}
			h := clone(g)
			s := slots(h)
			if len(s) == 0 {
				emit(id, "same", g, h, nil, "P1I1")
				break
			}
			t := s[r.Intn(len(s))]
			old := t.n.C[t.i][t.j]
			t.n.C[t.i][t.j] = ulpStep(r, old)
			if old == 0 && t.n.C[t.i][t.j] == 0 {
				emit(id, "negzero", g, h, nil, "P1I1")
			} else {
				emit(id, "ulp", g, h, nil, "P0?")
			}
		case 4: // -0 against +0, and NaN in Z/M (outside the finite domain; model agreement only)
			g := genMoves(r, geom.DimXYZM, scale, 2, 3)
			h := clone(g)
			s := slots(h)
			if len(s) == 0 {
				emit(id, "same", g, h, nil, "P1I1")
				break
			}
			t := s[r.Intn(len(s))]
			if r.Chance(2, 3) {
				s2 := slots(g)
				s2[indexOf(s, t)].n.C[t.i][t.j] = 0
				t.n.C[t.i][t.j] = math.Copysign(0, -1)
				emit(id, "negzero", g, h, nil, "P1I1")
			} else {
				s2 := slots(g)
				v := []float64{math.NaN(), math.Inf(1), math.Inf(-1)}[r.Intn(3)]
				s2[indexOf(s, t)].n.C[t.i][t.j] = v
				if r.Bool() {
					t.n.C[t.i][t.j] = v
				}
				if t.j >= 2 {
					emit(id, "nonfinite_zm", g, h, nil, "?")
				} else {
					emit(id, "nonfinite_xy", g, h, nil, "?")
				}
			}
		case 5, 6: // one member swapped with its neighbour / one random order move
			g := genMoves(r, ct, scale, 2, 5)
			if r.Chance(1, 6) {
				// one move on a large ring with non-dyadic ordinates: bare, as polygon ring (exterior or
				// hole), or inside a MultiLineString / collection
				big := genBigRing(r, ct)
				switch r.Intn(4) {
				case 0:
					g = big
				case 1:
					g = &N{Kind: lib.KPoly, CT: ct, Kids: []*N{big, genRing(r, ct, 0.125, true)}}
				case 2:
					g = &N{Kind: lib.KPoly, CT: ct, Kids: []*N{genRing(r, ct, 0x1p40, true), big, genRing(r, ct, 1, true)}}
				default:
					g = &N{Kind: lib.KColl, CT: ct, Kids: []*N{genPt(r, ct, 1), {Kind: lib.KMLine, CT: ct, Kids: []*N{genOpenLine(r, ct, 1), big}}}}
				}
				h := clone(g)
				for _, l := range lines(h) {
					if len(l.C) >= 18 {
						rotateRing(l, r.Range(1, len(l.C)-1))
						if r.Bool() {
							reverseLine(l)
						}
					}
				}
				emit(id, "one_move_big_ring", g, h, nil, "I1")
				break
			}
			h := clone(g)
			applyMoves(r, h, 1)
			emit(id, "one_move", g, h, nil, "I1")
		case 7, 8: // several order moves at every level
			g := genMoves(r, ct, scale, 3, 5)
			h := clone(g)
			applyMoves(r, h, r.Range(2, 8))
			emit(id, "many_moves", g, h, nil, "I1")
		case 9: // all permutations of k members drawn from a pool of near-duplicates
			k := r.Range(0, 5)
			g := &N{Kind: lib.Kind(3 + r.Intn(4)), CT: ct}
			pool := r.Range(1, 3)
			var base []*N
			for j := 0; j < pool; j++ {
				switch g.Kind {
				case lib.KMPoint:
					base = append(base, genPt(r, ct, scale))
				case lib.KMLine:
					base = append(base, genRing(r, ct, scale, true))
				case lib.KMPoly:
					base = append(base, genPolyRings(r, ct, scale))
				default:
					base = append(base, genMoves(r, ct, scale, 1, 3))
				}
			}
			for j := 0; j < k; j++ {
				m := clone(base[r.Intn(len(base))])
				if r.Chance(1, 3) {
					applyMoves(r, m, 1)
				}
				g.Kids = append(g.Kids, m)
			}
			nperm := factorial(k)
			lim := nperm
			if a.Tier != "thorough" && lim > 6 {
				lim = 6
			}
			for p := 0; p < lim; p++ {
				pi := p
				if lim < nperm {
					pi = r.Intn(nperm)
				}
				h := &N{Kind: g.Kind, CT: g.CT}
				for _, idx := range nthPerm(k, pi) {
					h.Kids = append(h.Kids, clone(g.Kids[idx]))
				}
				emit(fmt.Sprintf("%s.%d", id, p), "all_perms", g, h, nil, "I1")
				// and the same permutation with one member replaced by another pool member
				if k > 0 && p%2 == 0 {
					h2 := clone(h)
					h2.Kids[r.Intn(k)] = clone(base[r.Intn(len(base))])
					emit(fmt.Sprintf("%s.%dx", id, p), "perm_replaced", g, h2, nil, "?")
				}
			}
		case 10: // all rotations and reversals of one ring (inside a polygon / alone)
			ring := genRing(r, ct, scale, r.Bool())
			rotClass := "all_rotations"
			if r.Chance(1, 4) {
				ring = genBigRing(r, ct)
				rotClass = "all_rotations_big_ring"
			}
			asPoly := r.Bool()
			n := len(ring.C)
			for k := 0; k < n; k++ {
				for rv := 0; rv < 2; rv++ {
					h := clone(ring)
					rotateRing(h, k)
					if rv == 1 {
						reverseLine(h)
					}
					var gg, hh *N = ring, h
					if asPoly {
						gg = &N{Kind: lib.KPoly, CT: ct, Kids: []*N{clone(ring)}}
						hh = &N{Kind: lib.KPoly, CT: ct, Kids: []*N{h}}
					}
					emit(fmt.Sprintf("%s.%d.%d", id, k, rv), rotClass, gg, hh, nil, "I1")
				}
			}
		case 11: // one member's emptiness; or the exterior ring exchanged with a hole (not an order move)
			if r.Chance(1, 3) {
				g := genMoves(r, ct, scale, 1, 3)
				if ps := polys(g); len(ps) > 0 {
					h := clone(g)
					hp := polys(h)
					p := hp[r.Intn(len(hp))]
					for len(p.Kids) < 2 {
						p.Kids = append(p.Kids, genRing(r, ct, scale, true))
					}
					j := r.Range(1, len(p.Kids)-1)
					p.Kids[0], p.Kids[j] = p.Kids[j], p.Kids[0]
					emit(id, "exterior_hole_swap", g, h, nil, "?")
					break
				}
			}
			if r.Chance(1, 2) {
				// an EMPTY point against a point at the origin (all stored ordinates zero) or, under a
				// tolerance, within e of the origin: bare, as MultiPoint member, inside collections
				origin := &N{Kind: lib.KPoint, CT: ct, Full: true, C: [][4]float64{{0, 0, 0, 0}}}
				if r.Chance(1, 4) {
					origin.C[0][r.Intn(2)] = math.Copysign(0, -1)
				}
				var tols []float64
				if r.Bool() {
					j := float64(r.Range(1, 6))
					switch r.Intn(3) {
					case 0:
						origin.C[0][0], origin.C[0][1] = 3*j/8, -4*j/8 // exactly e away
					case 1:
						origin.C[0][0] = j / 16
					}
					tols = []float64{5 * j / 8, 5 * j / 4, -5 * j / 8, 100}[:r.Range(1, 4)]
				}
				empty := &N{Kind: lib.KPoint, CT: ct}
				wrap := func(p *N, others []*N) *N {
					switch r.Intn(5) {
					case 0:
						return p
					case 1, 2:
						m := &N{Kind: lib.KMPoint, CT: ct, Kids: []*N{p}}
						for _, o := range others {
							if o.Kind == lib.KPoint {
								m.Kids = append(m.Kids, o)
							}
						}
						return m
					case 3:
						return &N{Kind: lib.KColl, CT: ct, Kids: append([]*N{p}, others...)}
					default:
						m := &N{Kind: lib.KMPoint, CT: ct, Kids: []*N{p}}
						for _, o := range others {
							if o.Kind == lib.KPoint {
								m.Kids = append(m.Kids, o)
							}
						}
						return &N{Kind: lib.KColl, CT: ct, Kids: []*N{{Kind: lib.KColl, CT: ct, Kids: []*N{m}}, genOpenLine(r, ct, 1)}}
					}
				}
				var others []*N
				for c := r.Range(0, 3); c > 0; c-- {
					if r.Bool() {
						others = append(others, genPt(r, ct, 1))
					} else {
						others = append(others, genMoves(r, ct, 1, 1, 2))
					}
				}
				sub := r.Fork()
				s1, s2 := *sub, *sub
				r = &s1
				others2 := make([]*N, len(others))
				for i, o := range others {
					others2[i] = clone(o)
				}
				g := wrap(empty, others)
				r = &s2
				h := wrap(origin, others2)
				r = sub
				if r.Bool() {
					for _, c := range collections(h) {
						shuffle(r, c.Kids)
					}
				}
				if r.Bool() {
					g, h = h, g
				}
				emit(id, "empty_vs_origin", g, h, tols, "P0I0T0")
				break
			}
			g := genMoves(r, ct, scale, 2, 4)
			h := clone(g)
			var cand, candG []*N
			walk(h, func(m *N) {
				if m.Kind <= lib.KPoly && !m.IsEmptyNode() {
					cand = append(cand, m)
				}
			})
			walk(g, func(m *N) {
				if m.Kind <= lib.KPoly && !m.IsEmptyNode() {
					candG = append(candG, m)
				}
			})
			if len(cand) == 0 {
				emit(id, "same", g, h, nil, "P1I1")
				break
			}
			// prefer points: their non-empty counterpart is moved to the origin half of the time
			pick := r.Intn(len(cand))
			for t := 0; t < 3 && cand[pick].Kind != lib.KPoint; t++ {
				pick = r.Intn(len(cand))
			}
			m := cand[pick]
			if m.Kind == lib.KPoint && r.Bool() {
				candG[pick].C[0] = [4]float64{}
			}
			m.Full, m.C, m.Kids = false, nil, nil
			emit(id, "emptiness", g, h, nil, "P0I0")
		case 12: // coordinate type
			g := genMoves(r, ct, scale, 2, 4)
			nct := geom.CoordinatesType((int(ct) + 1 + r.Intn(3)) % 4)
			h := lib.NodeOf(g.Build().ForceCoordinatesType(nct))
			emit(id, "ctype", g, h, nil, "P0I0")
		case 13: // type: Point vs one-member MultiPoint, line vs multi, nested vs flat collection
			switch r.Intn(4) {
			case 0:
				p := genPt(r, ct, scale)
				emit(id, "type_point_multipoint", p, &N{Kind: lib.KMPoint, CT: ct, Kids: []*N{clone(p)}}, nil, "P0I0")
			case 1:
				l := genRing(r, ct, scale, true)
				emit(id, "type_line_multiline", &N{Kind: lib.KMLine, CT: ct, Kids: []*N{clone(l)}}, l, nil, "P0I0")
			case 2:
				p := genPolyRings(r, ct, scale)
				emit(id, "type_poly_multipoly", p, &N{Kind: lib.KMPoly, CT: ct, Kids: []*N{clone(p)}}, nil, "P0I0")
			default:
				x, y := genMoves(r, ct, scale, 1, 3), genMoves(r, ct, scale, 1, 3)
				flat := &N{Kind: lib.KColl, CT: ct, Kids: []*N{x, y}}
				nested := &N{Kind: lib.KColl, CT: ct, Kids: []*N{{Kind: lib.KColl, CT: ct, Kids: []*N{clone(x), clone(y)}}}}
				if r.Bool() {
					nested = &N{Kind: lib.KColl, CT: ct, Kids: []*N{clone(x), {Kind: lib.KColl, CT: ct, Kids: []*N{clone(y)}}}}
				}
				emit(id, "nested_vs_flat", flat, nested, nil, "P0I0")
			}
		case 14, 15: // tolerance: dyadic lattice (every float operation of eq is exact), displacement around the threshold
			if r.Chance(1, 4) {
				// member matching under a tolerance is not an equivalence: chains p0~q0, p0~q1, p1~q0
				// but not p1~q1 make the search backtrack (a greedy matcher fails on them)
				k := r.Range(2, 5)
				g := &N{Kind: lib.KMPoint, CT: ct}
				h := &N{Kind: lib.KMPoint, CT: ct}
				y := float64(r.Range(-3, 3))
				for j := 0; j < k; j++ {
					g.Kids = append(g.Kids, &N{Kind: lib.KPoint, CT: ct, Full: true, C: [][4]float64{{float64(2 * j), y, 0, 0}}})
					h.Kids = append(h.Kids, &N{Kind: lib.KPoint, CT: ct, Full: true, C: [][4]float64{{float64(2*j - 1), y, 0, 0}}})
				}
				// h's members shifted left by one: g[j] is within 1 of h[j] and h[j+1]; only one perfect matching
				if r.Bool() {
					g, h = h, g
				}
				shuffle(r, g.Kids)
				shuffle(r, h.Kids)
				if r.Chance(1, 3) {
					h.Kids[r.Intn(k)].C[0][0] += 4
				}
				emit(id, "tolerance_matching", g, h, []float64{1, 0.5, 3}, "?")
				break
			}
			if r.Chance(1, 2) {
				genTolScaled(r, ct, id, emit)
				break
			}
			g := genMoves(r, ct, 1, 2, 3)
			// stay on the dyadic lattice (genMoves plants one-ulp near-duplicates)
			mapOrds(g, func(f float64) float64 { return math.Round(f*8) / 8 })
			h := clone(g)
			j := float64(r.Range(1, 6))
			tol := 5 * j / 8
			walk(h, func(q *N) {
				for vi := range q.C {
					switch r.Intn(8) {
					case 0: // exactly on the threshold: (3,4,5) scaled
						q.C[vi][0] += 3 * j / 8
						q.C[vi][1] -= 4 * j / 8
					case 1:
						q.C[vi][0] -= tol
					case 2:
						q.C[vi][1] += tol / 2
					case 3: // just outside
						if r.Chance(1, 3) {
							q.C[vi][0] += 3*j/8 + 0.125
							q.C[vi][1] += 4 * j / 8
						}
					case 4:
						if r.Chance(1, 3) {
							q.C[vi][1] += tol + 0.125
						}
					}
				}
			})
			if r.Chance(1, 3) {
				applyMoves(r, h, 1)
			}
			tols = []float64{tol, tol / 2, -tol, 2 * tol, 0}
			emit(id, "tolerance", g, h, tols[:r.Range(2, 5)], "?")
		case 16: // rings whose closing vertex differs from the first in Z or M only
			ring := genRing(r, geom.DimXYZM, scale, true)
			n := len(ring.C)
			g := clone(ring)
			g.C[n-1][2+r.Intn(2)] += 1
			h := clone(ring)
			if r.Bool() {
				h = clone(g)
			}
			rotateRing(h, r.Range(0, n-1))
			if r.Bool() {
				reverseLine(h)
			}
			if r.Bool() {
				g, h = h, g
			}
			emit(id, "zm_open_ring", g, h, nil, "?")
		case 17: // two independent draws from a tiny family (mostly unequal, sometimes equal)
			sub := r.Fork()
			s1, s2 := *sub, *sub
			g := genMoves(&s1, ct, scale, 1, 2)
			h := genMoves(&s2, ct, scale, 1, 2)
			if r.Bool() {
				h = genMoves(r, ct, scale, 1, 2)
			}
			emit(id, "independent", g, h, nil, "?")
		case 18: // arbitrary structured geometry against itself with moves (rings mostly not simple)
			cfg := lib.StructCfg{MaxDepth: 3, MaxKids: 4, MaxVerts: 5}
			g := cfg.Gen(r, &st)
			h := clone(g)
			applyMoves(r, h, r.Range(1, 4))
			emit(id, "struct_moves", g, h, nil, "?")
		default: // reversal of a non-ring line string, rotation of a closed but non-simple line
			l := genOpenLine(r, ct, scale)
			if r.Bool() && len(l.C) >= 3 {
				// closed, self-crossing (bow-tie) when possible
				l.C = append(l.C, l.C[0])
			}
			h := clone(l)
			if isClosedAll(h) && r.Bool() {
				rotateRing(h, 1)
				emit(id, "rotate_closed_line", l, h, nil, "?")
			} else {
				reverseLine(h)
				emit(id, "reverse_line", l, h, nil, "I1")
			}
		}
	}
	// rings that list a vertex several times in a row, against all their rotations and reversals
	// (repeated.go); own id space so that the cases above keep their ids
	for i := 0; i < (a.N*4+99)/100; i++ {
		r := root.Fork()
		genRepeatedRings(r, geom.CoordinatesType(r.Intn(4)), fmt.Sprintf("rr%d", i), emit)
	}
	stats := map[string]interface{}{"classes": classes, "expectations": expects, "kinds": st.Kinds, "ctypes": st.CTs,
		"float_classes": st.FloatCls, "float_class_names": lib.FloatClassNames,
		"lines_total": ringLines, "lines_that_are_rings": ringsSeen, "magnitudes": magnitudes}
	js, _ := json.Marshal(stats)
	fmt.Fprintf(w, "#GEN\t%s\n", js)
}

// tolScaleExps: the exponents k of the exact rescaling 2^k applied to coordinates and tolerances of
// the tolerance_scaled class. Beyond |k| ~ 512 the squares of differences / of the tolerance are
// not representable (overflow to +Inf, underflow to 0) although every distance and tolerance is.
// The window -541..-520 (about 1e-163..1e-157) is dense: there the ordinates and the tolerance are normal doubles
// but their squares are subnormal or flush to zero one by one (2^-538 squared is below the smallest subnormal,
// 2^-537 squared is not), so a comparison of squares that is not rescaled first goes wrong for SOME of the
// differences of one and the same case.
var tolScaleExps = []int{0, 0, 100, -100, 300, -300, 500, -500, 512, -512, 540, -540, 600, -600, 900, -900, 1000, -1060,
	-520, -530, -535, -536, -537, -538, -539, -541, 505, 509, 511}

// genTolScaled: tolerance pairs whose exact answer is decided on an integer pre-image, rescaled
// by an exact power of two 2^k. G lives on the lattice of multiples of 1/8; every vertex of H is
// the vertex of G displaced by (a,b)*u with integers a, b and u = 1/8 (coarse) or 2^-20 (fine); the
// tolerance is T*u with T = 5j (coarse) or 5j*2^17 (fine), the same real number 5j/8. A vertex is
// within the tolerance exactly when a^2+b^2 <= T^2 (int64 arithmetic, no rounding anywhere; the
// same holds of the float64 operations of a comparison that does not leave the exponent range).
// Displacements: none, exactly on the threshold ((3,4,5) triples and axis-parallel), one unit
// inside, one unit outside (distance/tolerance = 1 -+ 2^-20/ (5j/8) on the fine lattice).
// Modes: every vertex within (T1, tolerances tol, 2 tol, -tol, tol*2^m); one vertex outside (U0:
// false without IgnoreOrder under tol, tol/2, -tol, tol*2^-m); a Z or M value changed by one and
// XY within (U0); mixed (no expectation: judged by the exact model). m up to 400, so that the
// tolerance and the distances also sit at very different magnitudes.
func genTolScaled(r *lib.Rng, ct geom.CoordinatesType, id string, emit func(id, class string, gn, hn *N, tols []float64, expect string)) {
	k := tolScaleExps[r.Intn(len(tolScaleExps))]
	var g *N
	for try := 0; ; try++ {
		if try < 6 {
			g = genMoves(r, ct, 1, 2, 3)
		} else {
			g = genRing(r, ct, 1, true)
		}
		if len(slots(g)) > 0 {
			break
		}
	}
	mapOrds(g, func(f float64) float64 { return math.Round(f*8) / 8 })
	h := clone(g)
	fine := k > -1000 && r.Bool()
	j := int64(r.Range(1, 6))
	unit, T := 0.125, 5*j
	if fine {
		unit, T = 0x1p-20, 5*j<<17
	}
	p3, p4 := 3*T/5, 4*T/5
	sgn := func() int64 { return int64(2*r.Intn(2) - 1) }
	onThr := func() (int64, int64) {
		sa, sb := sgn(), sgn()
		switch r.Intn(4) {
		case 0:
			return sa * p3, sb * p4
		case 1:
			return sa * p4, sb * p3
		case 2:
			return sa * T, 0
		}
		return 0, sb * T
	}
	inside := func() (int64, int64) {
		a, b := onThr()
		// one unit towards the origin in a non-zero component
		if a != 0 && (b == 0 || r.Bool()) {
			a -= a / abs64(a)
		} else {
			b -= b / abs64(b)
		}
		return a, b
	}
	outside := func() (int64, int64) {
		a, b := onThr()
		switch {
		case a == 0:
			b += b / abs64(b)
		case b == 0 || r.Bool():
			a += a / abs64(a)
		default:
			b += b / abs64(b)
		}
		return a, b
	}
	type vref struct {
		n *N
		i int
	}
	var vs []vref
	walk(h, func(q *N) {
		for vi := range q.C {
			vs = append(vs, vref{q, vi})
		}
	})
	mode := r.Intn(5)
	if mode == 3 && ct == geom.DimXY {
		mode = r.Intn(3)
	}
	nIn, nOut, nOn := 0, 0, 0
	disp := func(v vref, a, b int64) {
		v.n.C[v.i][0] += float64(a) * unit
		v.n.C[v.i][1] += float64(b) * unit
		switch d := a*a + b*b; {
		case d > T*T:
			nOut++
		case d == T*T:
			nOn++
		default:
			nIn++
		}
	}
	within := func(v vref) {
		switch r.Intn(4) {
		case 0:
			disp(v, 0, 0)
		case 1:
			a, b := inside()
			disp(v, a, b)
		default:
			a, b := onThr()
			disp(v, a, b)
		}
	}
	expect := "?"
	switch mode {
	case 0, 4: // every vertex within
		for _, v := range vs {
			within(v)
		}
		expect = "T1"
	case 1: // exactly one vertex outside (by one unit, sometimes far)
		bad := r.Intn(len(vs))
		for vi, v := range vs {
			if vi == bad {
				a, b := outside()
				if r.Chance(1, 5) {
					a, b = 3*a, -2*b
					if a == 0 && b == 0 {
						a = 2 * T
					}
				}
				disp(v, a, b)
			} else {
				within(v)
			}
		}
		expect = "U0"
	case 3: // XY within everywhere, one Z or M value differs: the tolerance is about X and Y only
		for _, v := range vs {
			within(v)
		}
		var zm []slot
		for _, sl := range slots(h) {
			if sl.j >= 2 {
				zm = append(zm, sl)
			}
		}
		t := zm[r.Intn(len(zm))]
		t.n.C[t.i][t.j] += float64(2*r.Intn(2) - 1)
		expect = "U0"
	default: // mixed
		for _, v := range vs {
			switch r.Intn(5) {
			case 0:
				if r.Chance(1, 2) {
					a, b := outside()
					disp(v, a, b)
				} else {
					within(v)
				}
			default:
				within(v)
			}
		}
		if r.Chance(1, 3) {
			applyMoves(r, h, 1)
		}
	}
	// exact rescaling of X and Y (Z and M stay)
	sc := math.Ldexp(1, k)
	for _, root := range []*N{g, h} {
		walk(root, func(q *N) {
			for vi := range q.C {
				q.C[vi][0] *= sc
				q.C[vi][1] *= sc
			}
		})
	}
	tol := float64(T) * unit * sc
	// tolerances at a different magnitude than the distances (kept finite and non-zero)
	m := r.Range(60, 400)
	up, down := m, m
	if k+up > 1015 {
		up = 1015 - k
	}
	if k-down < -1068 {
		down = k + 1068
	}
	var tols []float64
	switch expect {
	case "T1":
		tols = []float64{tol, 2 * tol, -tol, math.Ldexp(tol, up)}
	case "U0":
		tols = []float64{tol, tol / 2, -tol, math.Ldexp(tol, -down)}
		if mode == 3 {
			tols = []float64{tol, 2 * tol, math.Ldexp(tol, up), math.Ldexp(tol, -down)}
		}
	default:
		tols = []float64{tol, tol / 2, 2 * tol, math.Ldexp(tol, -down), math.Ldexp(tol, up)}
	}
	if r.Bool() {
		g, h = h, g
	}
	class := "tolerance_scaled"
	switch {
	case k >= 512:
		class = "tolerance_scaled_huge"
	case k <= -512:
		class = "tolerance_scaled_tiny"
	}
	// the expectation is a statement about the integer pre-image
	if expect == "T1" && nOut != 0 || mode == 1 && nOut != 1 || mode == 3 && nOut != 0 || nIn+nOn+nOut != len(vs) {
		panic("genTolScaled: displacement census does not match the expectation")
	}
	emit(id, class, g, h, tols[:r.Range(2, len(tols))], expect)
}

func abs64(x int64) int64 {
	if x < 0 {
		return -x
	}
	return x
}

func indexOf(s []slot, t slot) int {
	for i, x := range s {
		if x == t {
			return i
		}
	}
	return 0
}
