package main

import (
	"fmt"
	"math"

	"github.com/peterstace/simplefeatures/geom"
	"verifharness/lib"
)

// Rings that list a vertex several times in a row.
//
// A ring (closed and simple line string, polygon shell, polygon hole) may repeat a control point
// consecutively: the curve is unchanged, the line is still closed and simple, the polygon still
// valid. Under IgnoreOrder such a ring is identified with every rotation of its vertex cycle and
// with the reversals of those (2m variants for a cycle of m entries); without IgnoreOrder only
// with itself. A matcher that anchors the rotation on "the position where the start vertex of the
// first ring occurs in the second ring" meets two (or three) such positions here.
//
// genRepeatedRings builds the cycle from a star-shaped lattice ring of 3..6 distinct vertices by
// giving some vertices the multiplicity 2 or 3 (one run, several runs), starts it at a random
// entry (so runs sit at the start, at the closing vertex, across the closure, in the middle),
// wraps it at a random nesting (bare LineString, MultiLineString member, Polygon shell, Polygon
// hole, MultiPolygon member, GeometryCollection of those, nested collection) and emits the pair
// (base, variant) for ALL rotations x reversals of the cycle. Each case is observed in both
// argument orders by the emitter. Expectation: I1 always; P1 exactly when the two trees are
// identical, P0 otherwise.
//
// Sub-classes (decided per iteration):
//
//	repeated_vertex_ring        as described, repeated entries identical in every ordinate
//	repeated_xy_ring            a repeated entry differs from its neighbour in Z or M only (a zero
//	                            length segment for IsSimple, a different control point for eq)
//	near_repeated_vertex_ring   the duplicate is displaced by 1/8 lattice unit and the pair is also
//	                            evaluated under tolerances 1/4, 1/16 (dyadic: exact float
//	                            arithmetic); no expectation by construction beyond the plain I1
//	revisited_vertex_closed     the same vertex at two NON-consecutive positions (two loops sharing
//	                            a vertex): closed but not simple, hence not a ring; judged by the
//	                            model and the canonical form only (expectation ?)
func genRepeatedRings(r *lib.Rng, ct geom.CoordinatesType, id string,
	emit func(id, class string, gn, hn *N, tols []float64, expect string)) {
	scales := []float64{1, 1, 1, 0.125, 0x1p40, 0x1p-100}
	scale := scales[r.Intn(len(scales))]
	class := "repeated_vertex_ring"
	sub := r.Intn(12)
	switch {
	case sub == 0:
		class = "revisited_vertex_closed"
	case sub <= 2:
		class = "near_repeated_vertex_ring"
		scale = []float64{1, 0.125}[r.Intn(2)]
	case sub <= 4 && ct != geom.DimXY:
		class = "repeated_xy_ring"
	}

	base := genRing(r, ct, scale, r.Chance(2, 3))
	open := base.C[:len(base.C)-1]
	k := len(open)

	var cyc [][4]float64
	var tols []float64
	if class == "revisited_vertex_closed" {
		// two loops through open[0]: v0 v1 .. vj v0 vj+1 .. vk-1 (closing v0 added below); with
		// fewer than 4 distinct vertices one loop degenerates to a there-and-back segment
		j := 1
		if k >= 5 {
			j = r.Range(2, k-2)
		} else if k == 4 {
			j = r.Range(1, 2)
		}
		cyc = append(cyc, open[:j+1]...)
		cyc = append(cyc, open[0])
		cyc = append(cyc, open[j+1:]...)
		if r.Bool() { // plus a consecutive repetition somewhere
			p := r.Intn(len(cyc))
			cyc = append(cyc[:p+1], append([][4]float64{cyc[p]}, cyc[p+1:]...)...)
		}
	} else {
		// multiplicities: at least one run; runs of length 2 and 3
		mult := make([]int, k)
		for i := range mult {
			mult[i] = 1
		}
		runs := 1
		switch r.Intn(4) {
		case 0:
			runs = 2
		case 1:
			runs = r.Range(2, k)
		}
		for c := 0; c < runs; c++ {
			mult[r.Intn(k)] = r.Range(2, 3)
		}
		if class == "near_repeated_vertex_ring" {
			for i := range mult {
				mult[i] = 1
			}
			mult[r.Intn(k)] = r.Range(2, 3)
			tols = []float64{scale / 4, scale / 16}
		}
		for i, v := range open {
			for c := 0; c < mult[i]; c++ {
				w := v
				if c > 0 {
					switch class {
					case "repeated_xy_ring":
						if ct.Is3D() && (!ct.IsMeasured() || r.Bool()) {
							w[2] += float64(c)
						} else {
							w[3] -= float64(c)
						}
					case "near_repeated_vertex_ring":
						// within 1/4 of the original, further than 1/16; copies 1/8 apart
						if r.Bool() || c == 2 {
							w[0] += float64(c) * scale / 8
						} else {
							w[1] -= scale / 8
						}
					}
				}
				cyc = append(cyc, w)
			}
		}
	}
	m := len(cyc)
	// start at a random entry of the cycle
	st := r.Intn(m)
	rot := make([][4]float64, 0, m+1)
	for i := 0; i < m; i++ {
		rot = append(rot, cyc[(i+st)%m])
	}
	rot = append(rot, rot[0])
	ring := &N{Kind: lib.KLine, CT: ct, C: rot}

	// the nesting: wrap(ring) puts the ring at one position of a larger value; the other members
	// are identical on both sides
	other1 := genRing(r, ct, scale*16, true)
	other2 := genRing(r, ct, scale/16, true)
	openLn := genOpenLine(r, ct, scale)
	ptN := genPt(r, ct, scale)
	nest := r.Intn(10)
	wrap := func(l *N) *N {
		switch nest {
		case 0, 1:
			return l
		case 2: // polygon shell
			return &N{Kind: lib.KPoly, CT: ct, Kids: []*N{l}}
		case 3: // polygon shell with a hole
			return &N{Kind: lib.KPoly, CT: ct, Kids: []*N{l, clone(other2)}}
		case 4: // polygon hole (second of two)
			return &N{Kind: lib.KPoly, CT: ct, Kids: []*N{clone(other1), clone(other2), l}}
		case 5: // multipolygon member, as shell
			return &N{Kind: lib.KMPoly, CT: ct, Kids: []*N{
				{Kind: lib.KPoly, CT: ct, Kids: []*N{clone(other2)}},
				{Kind: lib.KPoly, CT: ct, Kids: []*N{l}}}}
		case 6: // multipolygon member, as hole
			return &N{Kind: lib.KMPoly, CT: ct, Kids: []*N{
				{Kind: lib.KPoly, CT: ct, Kids: []*N{clone(other1), l}}}}
		case 7: // multilinestring member
			return &N{Kind: lib.KMLine, CT: ct, Kids: []*N{clone(openLn), l, clone(other2)}}
		case 8: // collection of a polygon and the bare ring's neighbours
			return &N{Kind: lib.KColl, CT: ct, Kids: []*N{clone(ptN),
				{Kind: lib.KPoly, CT: ct, Kids: []*N{l}}, clone(openLn)}}
		default: // nested collection: GC(GC(MultiPolygon(shell), LineString ring))
			return &N{Kind: lib.KColl, CT: ct, Kids: []*N{{Kind: lib.KColl, CT: ct, Kids: []*N{
				{Kind: lib.KMPoly, CT: ct, Kids: []*N{{Kind: lib.KPoly, CT: ct, Kids: []*N{clone(other1), clone(l)}}}},
				l}}, clone(ptN)}}
		}
	}
	g := wrap(ring)
	for kk := 0; kk < m; kk++ {
		for rv := 0; rv < 2; rv++ {
			v := clone(ring)
			rotateRing(v, kk)
			if rv == 1 {
				reverseLine(v)
			}
			h := wrap(v)
			expect := "I1"
			if class == "revisited_vertex_closed" {
				expect = "?"
			} else if sameVerts(ring.C, v.C, ct) {
				expect = "P1I1"
			} else {
				expect = "P0I1"
			}
			emit(fmt.Sprintf("%s.%d.%d", id, kk, rv), class, g, h, tols, expect)
		}
	}
}

// sameVerts: the used ordinates agree as numbers at every position.
func sameVerts(a, b [][4]float64, ct geom.CoordinatesType) bool {
	if len(a) != len(b) {
		return false
	}
	for i := range a {
		for j := 0; j < 4; j++ {
			if j == 2 && !ct.Is3D() || j == 3 && !ct.IsMeasured() {
				continue
			}
			if a[i][j] != b[i][j] || math.IsNaN(a[i][j]) {
				return false
			}
		}
	}
	return true
}
