// Graded-offset class of property C19: points at graded distances (1 degree down to 1e-13 degrees,
// one decade per step, in the eight compass directions or inward from an edge) from the special
// points of every projection:
//
//	azimuthals   the centre (removable singularity of Reverse, rho = 0), the central meridian
//	             (direction cosine A = 0), the meridian across the pole (lon0 + 180), for a pole as
//	             centre the meridians lon0 +- 90 and lon0 + 180 (direction cosine B = 0), the rim of
//	             the stated domain (60 degrees of arc, |lat| = 85), the antimeridian, the equator
//	conics       the origin, the central meridian, both standard parallels, the parallel of the origin,
//	             the equator, the rim (|n dlambda| = 85 degrees, |lat| = 85)
//	cylindricals the origin, the equator, the central meridian and the meridian opposite to it, the
//	             antimeridian (+-180), |lat| = 85 (Web Mercator: the edge of the square), the corners,
//	             the standard parallel (equirectangular)
//
// for the radii 1, WGS84 mean, 1e-3 and 1e3 (a threshold that is absolute in projected units instead
// of relative to the radius shows at one end of this range) and for the centres/origins of the
// ordinary classes plus random non-trivial ones.  Every point stays inside the domain stated by the
// property; the statement evaluated is the same as for every other class.
package main

import (
	"fmt"
	"math"

	"github.com/peterstace/simplefeatures/carto"
	"github.com/peterstace/simplefeatures/geom"
	"verifharness/lib"
)

var gradedRadii = []float64{1, carto.WGS84EllipsoidMeanRadiusM, 1e-3, 1e3}

const gradedDecades = 14 // 1e0 .. 1e-13 degrees

var compass = [8][2]float64{{1, 0}, {1, 1}, {0, 1}, {-1, 1}, {-1, 0}, {-1, -1}, {0, -1}, {1, -1}}

func normLon(l float64) float64 {
	for l > 180 {
		l -= 360
	}
	for l < -180 {
		l += 360
	}
	return l
}

// gradedCfg draws the configuration of a graded case: an ordinary one, with the radius taken from
// gradedRadii by the running index and, one time in three, a random non-trivial centre/origin.
func gradedCfg(kind string, gi int, r *lib.Rng) []float64 {
	cfg := randomCfg(kind, r)
	if kind == "wm" {
		return cfg
	}
	cfg[0] = gradedRadii[(gi/gradedDecades)%len(gradedRadii)]
	if r.Chance(1, 3) {
		cfg[1] = math.Round(uniform(r, -180, 180)*1000) / 1000
		switch kind {
		case "lcc", "alb", "eqdc":
			cfg[2] = math.Round(uniform(r, -80, 80)*1000) / 1000
		case "azeq", "or":
			cfg[2] = math.Round(uniform(r, -84, 84)*1000) / 1000
		}
	}
	return cfg
}

// gradedBucket groups the decades for the stratified tie to the real-number model.
func gradedBucket(k int) int { return k / 5 }

// gradedCase returns a new projection value, an in-domain point at a graded offset from one of its
// special points, the decade of the offset and a description.  gi is the running index of graded
// cases of this kind: decade, radius and direction are enumerated, everything else is random.
func gradedCase(kind string, gi int, r *lib.Rng) (projection, geom.XY, int, string) {
	k := gi % gradedDecades
	dir := compass[(gi/(gradedDecades*len(gradedRadii)))%8]
	for try := 0; try < 200; try++ {
		pr := fresh(kind, gradedCfg(kind, gi, r))
		m := 1.0
		if r.Bool() {
			m = uniform(r, 1, 10)
		}
		delta := m * math.Pow(10, -float64(k))
		p, special, ok := pr.gradedPoint(delta, dir, r)
		if ok {
			return pr, p, k, fmt.Sprintf("graded[%s delta=%.3gdeg dir=(%v,%v)]", special, delta, dir[0], dir[1])
		}
	}
	// not reachable in practice (every family has specials that always apply); keep the run total
	pr := fresh(kind, gradedCfg(kind, gi, r))
	p, _ := pr.point("rand", r)
	return pr, p, k, "graded[fallback rand]"
}

// reflect moves base by d, or by -d when that leaves [lo, hi]
func reflect(base, d, lo, hi float64) (float64, bool) {
	if v := base + d; v >= lo && v <= hi {
		return v, true
	}
	if v := base - d; v >= lo && v <= hi {
		return v, true
	}
	return 0, false
}

func (pr *projection) gradedPoint(delta float64, dir [2]float64, r *lib.Rng) (geom.XY, string, bool) {
	dx, dy := delta*dir[0], delta*dir[1]
	pm := func() float64 {
		if r.Bool() {
			return 1
		}
		return -1
	}
	switch pr.name {
	case "er", "sn", "lc", "wm":
		latMax := 85.0
		if pr.name == "wm" {
			latMax = 85.05112877980659
		}
		specials := []string{"origin", "equator", "central_meridian", "opposite_meridian", "antimeridian", "lat_edge", "corner"}
		if pr.name == "er" && pr.lat1 != 0 {
			specials = append(specials, "standard_parallel")
		}
		special := specials[r.Intn(len(specials))]
		rlon, rlat := uniform(r, -180, 180), uniform(r, -latMax, latMax)
		var base geom.XY
		switch special {
		case "origin":
			base = geom.XY{X: pr.lon0, Y: 0}
		case "equator":
			base = geom.XY{X: rlon, Y: 0}
		case "central_meridian":
			base = geom.XY{X: pr.lon0, Y: rlat}
		case "opposite_meridian":
			base = geom.XY{X: normLon(pr.lon0 + 180), Y: rlat}
		case "antimeridian":
			base = geom.XY{X: 180 * pm(), Y: rlat}
		case "lat_edge":
			base = geom.XY{X: rlon, Y: latMax * pm()}
		case "corner":
			base = geom.XY{X: 180 * pm(), Y: latMax * pm()}
		case "standard_parallel":
			base = geom.XY{X: rlon, Y: pr.lat1 * pm()}
		}
		x, okx := reflect(base.X, dx, -180, 180)
		y, oky := reflect(base.Y, dy, -latMax, latMax)
		if !okx || !oky || (x == base.X && y == base.Y) {
			return geom.XY{}, "", false
		}
		return geom.XY{X: x, Y: y}, special, true
	case "lcc", "alb", "eqdc":
		half := math.Min(180, 85/math.Abs(pr.n))
		specials := []string{"origin", "central_meridian", "standard_parallel", "origin_parallel", "equator", "lon_edge", "lat_edge"}
		special := specials[r.Intn(len(specials))]
		rlon, rlat := pr.lon0+uniform(r, -half, half), uniform(r, -85, 85)
		var base geom.XY
		switch special {
		case "origin":
			base = geom.XY{X: pr.lon0, Y: pr.lat0}
		case "central_meridian":
			base = geom.XY{X: pr.lon0, Y: rlat}
		case "standard_parallel":
			base = geom.XY{X: rlon, Y: pr.lat1}
			if r.Bool() {
				base.Y = pr.lat2
			}
		case "origin_parallel":
			base = geom.XY{X: rlon, Y: pr.lat0}
		case "equator":
			base = geom.XY{X: rlon, Y: 0}
		case "lon_edge":
			base = geom.XY{X: pr.lon0 + half*pm(), Y: rlat}
		case "lat_edge":
			base = geom.XY{X: rlon, Y: 85 * pm()}
		}
		x, okx := reflect(base.X, dx, pr.lon0-half, pr.lon0+half)
		y, oky := reflect(base.Y, dy, -85, 85)
		if !okx || !oky || (x == base.X && y == base.Y) {
			return geom.XY{}, "", false
		}
		return geom.XY{X: x, Y: y}, special, true
	default: // azimuthals
		polar := math.Abs(pr.lat0) == 90
		s := 1.0
		if pr.lat0 < 0 {
			s = -1
		}
		specials := []string{"central_meridian", "rim_60", "lat_edge", "antimeridian", "equator"}
		if polar {
			specials = append(specials, "pole_quarter_meridian", "pole_quarter_meridian", "pole_opposite_meridian")
		} else {
			specials = append(specials, "centre", "centre", "centre")
			if math.Abs(pr.lat0) >= 36 {
				specials = append(specials, "across_pole")
			}
		}
		special := specials[r.Intn(len(specials))]
		inDomain := func(p geom.XY) bool {
			return math.Abs(p.Y) <= 85 && angDist(pr.lon0, pr.lat0, p.X, p.Y) <= rad(60) && !(p.X == pr.lon0 && p.Y == pr.lat0)
		}
		if special == "rim_60" { // graded in the distance from the centre
			lon, lat := destination(pr.lon0, pr.lat0, rad(60-delta), uniform(r, -math.Pi, math.Pi))
			p := geom.XY{X: lon, Y: lat}
			return p, special, inDomain(p)
		}
		var base geom.XY
		switch special {
		case "centre":
			base = geom.XY{X: pr.lon0, Y: pr.lat0}
		case "central_meridian":
			base = geom.XY{X: pr.lon0, Y: pr.lat0 + uniform(r, -59, 59)}
		case "across_pole":
			t := uniform(r, 5, 60-(90-math.Abs(pr.lat0))-1e-3)
			base = geom.XY{X: pr.lon0 + 180, Y: s * (90 - t)}
		case "pole_quarter_meridian":
			base = geom.XY{X: pr.lon0 + 90*pm(), Y: s * uniform(r, 31, 85)}
		case "pole_opposite_meridian":
			base = geom.XY{X: pr.lon0 + 180, Y: s * uniform(r, 31, 85)}
		case "lat_edge":
			base = geom.XY{X: pr.lon0 + uniform(r, -180, 180), Y: 85 * pm()}
		case "antimeridian":
			base = geom.XY{X: 180 * pm(), Y: pr.lat0 + uniform(r, -55, 55)}
		case "equator":
			base = geom.XY{X: pr.lon0 + uniform(r, -55, 55), Y: 0}
		}
		if math.Abs(base.Y) > 85 {
			return geom.XY{}, "", false
		}
		y, oky := reflect(base.Y, dy, -85, 85)
		if !oky {
			return geom.XY{}, "", false
		}
		bx := normLon(base.X)
		x := normLon(bx + dx)
		if x == bx && y == base.Y {
			return geom.XY{}, "", false
		}
		p := geom.XY{X: x, Y: y}
		return p, special, inDomain(p)
	}
}
