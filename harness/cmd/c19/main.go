// Command c19 evaluates Forward and Reverse of every projection of package carto on a grid of
// configurations and points (property C19).  Per case it prints the configuration, the point and the
// implementation's observations (float64 bit patterns, exact), evaluates the executable statement of
// the property on the implementation's own output (finite values, round trip within 1e-9 degrees,
// equal-area / conformal / equidistant character by central differences, Web-Mercator range) and
// writes `FAIL <id> SPEC ...` lines for violations.  A stratified subsample of the cases is flagged
// Graded class (graded.go): points at graded offsets (1 .. 1e-13 degrees) from the special points of
// every projection, radii 1, WGS84, 1e-3 and 1e3.
// History class: one projection VALUE is configured as A, used, reconfigured (every non-empty subset
// of its setters, both orders) towards B and must then be bit-identical to a NEW value configured
// directly (Forward/Reverse are functions of the configuration only) and satisfy the same statement.
// (field 4 = 1): tools/c19_run.py turns those into Coq goals `Rabs (model - go) <= eps` that tie the
// real-number model coq/Model/Carto.v to this code.
package main

import (
	"encoding/json"
	"flag"
	"fmt"
	"math"
	"strings"

	"github.com/peterstace/simplefeatures/carto"
	"github.com/peterstace/simplefeatures/geom"
	"verifharness/lib"
)

type projection struct {
	name     string
	cfg      []float64 // as passed to the constructor/setters, in the order of the model's record
	scale    float64   // R, or 2^zoom
	fwd, rev func(geom.XY) geom.XY
	// conics
	lon0, lat0, lat1, lat2, n float64
}

const (
	stepDeg  = 1e-6 // central-difference step (anchors.observe_at)
	rtTolDeg = 1e-9 // round-trip tolerance of the property
	// Relative tolerance of the finite-difference character checks.  Central differences with
	// h = 1e-6 deg = 1.7e-8 rad have truncation error O(h^2) ~ 3e-16 (relative) and rounding error
	// about 4 ulp(|coordinate|) / (2 h scale); coordinates are below 20 scale (conic rho0), so the
	// error of one partial derivative is below 4 * 2.2e-16 * 20 / 3.5e-8 = 5e-7 scale per radian,
	// against derivatives of size >= cos(85 deg) scale = 0.087 scale: relative 6e-6 per partial, and
	// about 2.5e-5 for a determinant or a squared norm.  1e-4 leaves a factor 4; a wrong formula
	// is off by O(1).
	charTol = 1e-4
)

var radii = []float64{1, carto.WGS84EllipsoidMeanRadiusM}

func rad(d float64) float64 { return d * math.Pi / 180 }
func deg(r float64) float64 { return r * 180 / math.Pi }

func pick(r *lib.Rng, xs []float64) float64 { return xs[r.Intn(len(xs))] }

func uniform(r *lib.Rng, lo, hi float64) float64 {
	return lo + (hi-lo)*float64(r.U64()>>11)/float64(uint64(1)<<53)
}

// parallel pairs: both hemispheres, both orders, straddling the equator; never symmetric
var parallelPairs = [][2]float64{
	{30, 60}, {60, 30}, {-30, -60}, {-60, -30}, {20, 50}, {-10, 40}, {10, -40}, {-20, 60}, {33, 45}, {-45, -33}, {5, 70}, {-70, -5},
}

func conicN(kind string, lat1, lat2 float64) float64 {
	p1, p2 := rad(lat1), rad(lat2)
	switch kind {
	case "lcc":
		return math.Log(math.Cos(p1)/math.Cos(p2)) / math.Log(math.Tan(math.Pi/4+p2/2)/math.Tan(math.Pi/4+p1/2))
	case "alb":
		return (math.Sin(p1) + math.Sin(p2)) / 2
	default:
		return (math.Cos(p1) - math.Cos(p2)) / (p2 - p1)
	}
}

// randomCfg draws a configuration: the constructor argument first (radius or zoom), then the setter
// arguments in the order of the model's record.  The PRNG consumption is the same for every kind
// of the same family, whatever the values.
func randomCfg(kind string, r *lib.Rng) []float64 {
	R := radii[r.Intn(2)]
	lon0s := []float64{0, -180, 180, -105, 151, 37.5, -60, 120}
	switch kind {
	case "er":
		lon0 := pick(r, lon0s)
		return []float64{R, lon0, pick(r, []float64{0, 35, -60, 80, 52.25})}
	case "sn", "lc":
		return []float64{R, pick(r, lon0s)}
	case "wm":
		return []float64{float64(r.Intn(31))}
	case "lcc", "alb", "eqdc":
		lon0 := pick(r, lon0s)
		lat0 := pick(r, []float64{0, 40, -40, 75, -75, 23.5, -52})
		var pp [2]float64
		if kind == "alb" && r.Chance(1, 8) {
			l := pick(r, []float64{45, -45, 30, -60}) // equal parallels are regular for Albers only
			pp = [2]float64{l, l}
		} else {
			pp = parallelPairs[r.Intn(len(parallelPairs))]
		}
		return []float64{R, lon0, lat0, pp[0], pp[1]}
	default: // azeq, or
		lon0 := pick(r, lon0s)
		return []float64{R, lon0, pick(r, []float64{-90, -60, -34, 0, 45, 80, 90, 12.5})}
	}
}

// setter is one configuration method of a projection value: its name, the configuration fields it
// writes, and its application with the values taken from a configuration.
type setter struct {
	name  string
	idx   []int
	apply func(cfg []float64)
}

// handle is one projection VALUE (one Go object) with its methods.
type handle struct {
	fwd, rev func(geom.XY) geom.XY
	setters  []setter
}

// build constructs a new projection value with the constructor argument c0 (radius or zoom) and the
// package defaults for everything else.
func build(kind string, c0 float64) handle {
	switch kind {
	case "er":
		p := carto.NewEquirectangular(c0)
		return handle{p.Forward, p.Reverse, []setter{
			{"SetCentralMeridian", []int{1}, func(c []float64) { p.SetCentralMeridian(c[1]) }},
			{"SetStandardParallels", []int{2}, func(c []float64) { p.SetStandardParallels(c[2]) }}}}
	case "sn":
		p := carto.NewSinusoidal(c0)
		return handle{p.Forward, p.Reverse, []setter{
			{"SetCentralMeridian", []int{1}, func(c []float64) { p.SetCentralMeridian(c[1]) }}}}
	case "lc":
		p := carto.NewLambertCylindricalEqualArea(c0)
		return handle{p.Forward, p.Reverse, []setter{
			{"SetCentralMeridian", []int{1}, func(c []float64) { p.SetCentralMeridian(c[1]) }}}}
	case "wm":
		p := carto.NewWebMercator(int(c0))
		return handle{p.Forward, p.Reverse, nil}
	case "lcc":
		p := carto.NewLambertConformalConic(c0)
		return handle{p.Forward, p.Reverse, []setter{
			{"SetOrigin", []int{1, 2}, func(c []float64) { p.SetOrigin(geom.XY{X: c[1], Y: c[2]}) }},
			{"SetStandardParallels", []int{3, 4}, func(c []float64) { p.SetStandardParallels(c[3], c[4]) }}}}
	case "alb":
		p := carto.NewAlbersEqualAreaConic(c0)
		return handle{p.Forward, p.Reverse, []setter{
			{"SetOrigin", []int{1, 2}, func(c []float64) { p.SetOrigin(geom.XY{X: c[1], Y: c[2]}) }},
			{"SetStandardParallels", []int{3, 4}, func(c []float64) { p.SetStandardParallels(c[3], c[4]) }}}}
	case "eqdc":
		p := carto.NewEquidistantConic(c0)
		return handle{p.Forward, p.Reverse, []setter{
			{"SetOrigin", []int{1, 2}, func(c []float64) { p.SetOrigin(geom.XY{X: c[1], Y: c[2]}) }},
			{"SetStandardParallels", []int{3, 4}, func(c []float64) { p.SetStandardParallels(c[3], c[4]) }}}}
	case "azeq":
		p := carto.NewAzimuthalEquidistant(c0)
		return handle{p.Forward, p.Reverse, []setter{
			{"SetCenter", []int{1, 2}, func(c []float64) { p.SetCenter(geom.XY{X: c[1], Y: c[2]}) }}}}
	default:
		p := carto.NewOrthographic(c0)
		return handle{p.Forward, p.Reverse, []setter{
			{"SetCenter", []int{1, 2}, func(c []float64) { p.SetCenter(geom.XY{X: c[1], Y: c[2]}) }}}}
	}
}

// describe fills the harness-side description of a configuration (used by the point generators and
// the checks); it does not touch the implementation.
func describe(kind string, cfg []float64) projection {
	pr := projection{name: kind, cfg: cfg, scale: cfg[0]}
	switch kind {
	case "er":
		pr.lon0, pr.lat1, pr.lat2 = cfg[1], cfg[2], -cfg[2]
	case "sn", "lc":
		pr.lon0 = cfg[1]
	case "wm":
		pr.scale = math.Ldexp(1, int(cfg[0]))
	case "lcc", "alb", "eqdc":
		pr.lon0, pr.lat0, pr.lat1, pr.lat2 = cfg[1], cfg[2], cfg[3], cfg[4]
		pr.n = conicN(kind, cfg[3], cfg[4])
	default:
		pr.lon0, pr.lat0 = cfg[1], cfg[2]
	}
	return pr
}

// fresh is a NEW projection value configured directly as cfg (every setter once, in declaration order).
func fresh(kind string, cfg []float64) projection {
	h := build(kind, cfg[0])
	for _, st := range h.setters {
		st.apply(cfg)
	}
	pr := describe(kind, cfg)
	pr.fwd, pr.rev = h.fwd, h.rev
	return pr
}

func makeProjection(kind string, r *lib.Rng) projection { return fresh(kind, randomCfg(kind, r)) }

// withHistory returns ONE projection value that reaches a configuration through a history:
// configure as A (setters in random order), use it (Forward and Reverse, which is where an
// implementation could cache configuration-derived values), then reconfigure with a non-empty subset
// of the setters, in random order, with the values of B.  The configuration it must now behave as is
// A overwritten by B on the fields of the applied setters.
func withHistory(kind string, r *lib.Rng) (projection, string) {
	cfgA := randomCfg(kind, r)
	cfgB := randomCfg(kind, r)
	cfgB[0] = cfgA[0] // the constructor argument has no setter
	h := build(kind, cfgA[0])
	order := func(n int) []int {
		o := make([]int, n)
		for i := range o {
			o[i] = i
		}
		for i := n - 1; i > 0; i-- {
			j := r.Intn(i + 1)
			o[i], o[j] = o[j], o[i]
		}
		return o
	}
	var steps []string
	for _, k := range order(len(h.setters)) {
		h.setters[k].apply(cfgA)
		steps = append(steps, h.setters[k].name+"(A)")
	}
	prA := describe(kind, cfgA)
	for n := r.Range(1, 2); n > 0; n-- {
		if p0, ok := prA.point([]string{"rand", "grat", "centre"}[r.Intn(3)], r); ok {
			q := h.fwd(p0)
			steps = append(steps, "Forward")
			if r.Bool() {
				h.rev(q)
				steps = append(steps, "Reverse")
			}
		}
	}
	merged := append([]float64(nil), cfgA...)
	mask := r.Range(1, 1<<len(h.setters)-1) // non-empty subset
	for _, k := range order(len(h.setters)) {
		if mask>>k&1 == 1 {
			h.setters[k].apply(cfgB)
			steps = append(steps, h.setters[k].name+"(B)")
			for _, i := range h.setters[k].idx {
				merged[i] = cfgB[i]
			}
		}
	}
	pr := describe(kind, merged)
	pr.fwd, pr.rev = h.fwd, h.rev
	return pr, fmt.Sprintf("A=%v B=%v: %s", cfgA, cfgB, strings.Join(steps, " -> "))
}

func sameBits(a, b geom.XY) bool {
	return math.Float64bits(a.X) == math.Float64bits(b.X) && math.Float64bits(a.Y) == math.Float64bits(b.Y)
}

// destination point on the unit sphere at angular distance d (radians) and bearing b from (lon0, lat0)
func destination(lon0, lat0, d, b float64) (float64, float64) {
	p0 := rad(lat0)
	sp := math.Sin(p0)*math.Cos(d) + math.Cos(p0)*math.Sin(d)*math.Cos(b)
	if sp > 1 {
		sp = 1
	} else if sp < -1 {
		sp = -1
	}
	p := math.Asin(sp)
	dl := math.Atan2(math.Sin(b)*math.Sin(d)*math.Cos(p0), math.Cos(d)-math.Sin(p0)*sp)
	lon := lon0 + deg(dl)
	for lon > 180 {
		lon -= 360
	}
	for lon < -180 {
		lon += 360
	}
	return lon, deg(p)
}

// angular distance by the haversine formula (independent of the implementation's formula)
func angDist(lon0, lat0, lon, lat float64) float64 {
	p0, p := rad(lat0), rad(lat)
	s1 := math.Sin((p - p0) / 2)
	s2 := math.Sin(rad(lon-lon0) / 2)
	h := s1*s1 + math.Cos(p0)*math.Cos(p)*s2*s2
	return 2 * math.Asin(math.Sqrt(math.Min(1, h)))
}

var classNames = []string{"centre", "grat", "rand", "stdpar", "near", "edge"}

// point picks an in-domain point of the given class; ok=false if the class does not apply
func (pr *projection) point(class string, r *lib.Rng) (geom.XY, bool) {
	grat := class == "grat"
	coord := func(lo, hi float64) float64 {
		if grat {
			return math.Floor(uniform(r, math.Ceil(lo), math.Floor(hi)+1))
		}
		return uniform(r, lo, hi)
	}
	switch pr.name {
	case "er", "sn", "lc", "wm":
		switch class {
		case "centre":
			if pr.name == "wm" {
				return geom.XY{X: 0, Y: 0}, true
			}
			return geom.XY{X: pr.lon0, Y: 0}, true
		case "grat", "rand":
			return geom.XY{X: coord(-180, 180), Y: coord(-85, 85)}, true
		case "stdpar":
			if pr.name != "er" {
				return geom.XY{}, false
			}
			lat := pr.lat1
			if r.Bool() {
				lat = -lat
			}
			return geom.XY{X: coord(-180, 180), Y: lat}, true
		case "edge":
			lats := []float64{-85, 85, 0}
			if pr.name == "wm" {
				lats = []float64{-85.05112877980659, 85.05112877980659, 0} // just inside atan(sinh(pi))
			}
			return geom.XY{X: pick(r, []float64{-180, 180, 0}), Y: pick(r, lats)}, true
		}
		return geom.XY{}, false
	case "lcc", "alb", "eqdc":
		// |n (lon - lon0)| < 90 degrees (85 used), |lon - lon0| <= 180, |lat| <= 85
		half := math.Min(180, 85/math.Abs(pr.n))
		switch class {
		case "centre":
			return geom.XY{X: pr.lon0, Y: pr.lat0}, true
		case "grat", "rand":
			return geom.XY{X: pr.lon0 + coord(-half, half), Y: coord(-85, 85)}, true
		case "stdpar":
			lat := pr.lat1
			if r.Bool() {
				lat = pr.lat2
			}
			return geom.XY{X: pr.lon0 + coord(-half, half), Y: lat}, true
		case "edge":
			return geom.XY{X: pr.lon0 + pick(r, []float64{-half, half, 0}), Y: pick(r, []float64{-85, 85})}, true
		}
		return geom.XY{}, false
	default: // azimuthals: within 60 degrees of arc of the centre, |lat| <= 85 (the centre itself may be a pole)
		switch class {
		case "centre":
			return geom.XY{X: pr.lon0, Y: pr.lat0}, true
		case "grat", "rand", "near", "edge":
			for try := 0; try < 50; try++ {
				d := uniform(r, 0.5, 60)
				if class == "near" {
					d = math.Pow(10, uniform(r, -7, -1))
				} else if class == "edge" {
					d = 60
				}
				lon, lat := destination(pr.lon0, pr.lat0, rad(d), uniform(r, -math.Pi, math.Pi))
				if grat {
					lon, lat = math.Round(lon), math.Round(lat)
					if deg(angDist(pr.lon0, pr.lat0, lon, lat)) > 60 || (lon == pr.lon0 && lat == pr.lat0) {
						continue
					}
				}
				if math.Abs(lat) <= 85 {
					return geom.XY{X: lon, Y: lat}, true
				}
			}
		}
		return geom.XY{}, false
	}
}

func finite(p geom.XY) bool {
	return !math.IsNaN(p.X) && !math.IsInf(p.X, 0) && !math.IsNaN(p.Y) && !math.IsInf(p.Y, 0)
}

func hx(f float64) string { return fmt.Sprintf("%016x", math.Float64bits(f)) }

func lonDiff(a, b float64, periodic bool) float64 {
	d := a - b
	if periodic {
		d = math.Mod(d, 360)
		if d > 180 {
			d -= 360
		} else if d < -180 {
			d += 360
		}
	}
	return math.Abs(d)
}

func main() {
	goals := flag.Int("goals", 320, "number of cases flagged for the interval-arithmetic tie to the Coq model")
	a := lib.ParseArgs()
	if a.Tier == "thorough" {
		*goals *= 15
	}
	w, done := a.Output()
	defer done()
	root := lib.NewRng(a.Seed)
	kinds := []string{"er", "sn", "lc", "wm", "lcc", "alb", "eqdc", "azeq", "or"}
	perStratum := *goals / (len(kinds) * 6)
	if perStratum < 1 {
		perStratum = 1
	}
	flagged := map[string]int{}
	gradedCount := map[string]int{}
	classes := map[string]int{}
	fails := 0
	curKind := ""
	fail := func(id int, check, detail string) {
		fails++
		if fails <= 400 {
			fmt.Fprintf(w, "FAIL\t%d\tSPEC\t%s_%s\t%s\n", id, check, curKind, detail)
		}
	}
	for i := 0; i < a.N; i++ {
		r := root.Fork()
		kind := kinds[i%len(kinds)]
		curKind = kind
		var pr projection
		history := ""
		graded, gradedK := "", 0
		var p geom.XY
		var class string
		if r.Chance(1, 5) { // graded offsets from the special points (graded.go)
			pr, p, gradedK, graded = gradedCase(kind, gradedCount[kind], r)
			gradedCount[kind]++
			class = "graded"
		} else if kind != "wm" && r.Chance(1, 6) {
			pr, history = withHistory(kind, r)
		} else {
			pr = makeProjection(kind, r)
		}
		for graded == "" {
			class = classNames[r.Intn(len(classNames))]
			if r.Chance(1, 2) {
				class = []string{"grat", "rand"}[r.Intn(2)]
			}
			var ok bool
			if p, ok = pr.point(class, r); ok {
				break
			}
		}
		pointClass := class
		if history != "" {
			class = "hist"
		}
		classes[kind+"/"+class]++
		f := pr.fwd(p)
		back := pr.rev(f)
		if history != "" {
			// Forward/Reverse are functions of the configuration, not of the history of the value:
			// bit-identical to a new value configured directly, and repeatable
			want := fresh(kind, pr.cfg)
			wf := want.fwd(p)
			wb := want.rev(f)
			if !sameBits(f, wf) || !sameBits(back, wb) || !sameBits(pr.fwd(p), f) || !sameBits(pr.rev(f), back) {
				fail(i, "history", fmt.Sprintf("%s(%v) after [%s]: lonlat=(%v,%v) fwd=(%v,%v) rev=(%v,%v); a new value configured directly gives fwd=(%v,%v) rev=(%v,%v)",
					kind, pr.cfg, history, p.X, p.Y, f.X, f.Y, back.X, back.Y, wf.X, wf.Y, wb.X, wb.Y))
			}
		}
		g := 0
		key := kind + "/" + class
		quota := perStratum
		if graded != "" {
			// one stratum per band of decades (1..1e-4, 1e-5..1e-9, 1e-10..1e-13); taken at random
			// so that radius, direction and special point vary between runs of different seeds
			key = fmt.Sprintf("%s/%d", key, gradedBucket(gradedK))
			if strings.HasPrefix(graded, "graded[centre ") { // the removable singularity of the azimuthal inverses
				key += "/centre"
			}
			quota = (perStratum + 1) / 2
			if !r.Chance(1, 8) {
				quota = 0
			}
		}
		if flagged[key] < quota && finite(f) && finite(back) {
			flagged[key]++
			g = 1
		}
		cfgs := make([]string, len(pr.cfg))
		cfgr := make([]string, len(pr.cfg))
		for j, v := range pr.cfg {
			cfgs[j] = hx(v)
			cfgr[j] = fmt.Sprintf("%v", v)
		}
		desc := fmt.Sprintf("%s(%s) lonlat=(%v,%v) fwd=(%v,%v) rev=(%v,%v)", kind, strings.Join(cfgr, ","), p.X, p.Y, f.X, f.Y, back.X, back.Y)
		if history != "" {
			desc += " after [" + history + "]"
		}
		if graded != "" {
			desc += " " + graded
		}
		fmt.Fprintf(w, "%d\t%s\t%s\t%d\t%s\t%s\t%s\t%s\t%s\t%s\t%s\t%s\n", i, kind, class, g,
			strings.Join(cfgs, ","), hx(p.X), hx(p.Y), hx(f.X), hx(f.Y), hx(back.X), hx(back.Y), desc)

		// ---- the executable statement of the property, on the implementation's own output
		if !finite(f) {
			fail(i, "forward_finite", desc)
			continue
		}
		if !finite(back) {
			fail(i, "reverse_finite", desc)
			continue
		}
		periodic := kind == "azeq" || kind == "or"
		atPole := periodic && pointClass == "centre" && math.Abs(pr.lat0) == 90 // longitude is arbitrary at a pole
		if (!atPole && lonDiff(back.X, p.X, periodic) > rtTolDeg) || math.Abs(back.Y-p.Y) > rtTolDeg {
			fail(i, "round_trip", fmt.Sprintf("err=(%.3g,%.3g)deg %s", back.X-p.X, back.Y-p.Y, desc))
		}
		if pointClass == "centre" && kind != "wm" && (math.Abs(f.X) > 1e-9*pr.scale || math.Abs(f.Y) > 1e-9*pr.scale) {
			fail(i, "centre_maps_to_origin", desc)
		}
		// partial derivatives with respect to longitude and latitude, per radian
		h := stepDeg
		if math.Abs(p.Y)+h > 90 {
			continue
		}
		fe, fw := pr.fwd(geom.XY{X: p.X + h, Y: p.Y}), pr.fwd(geom.XY{X: p.X - h, Y: p.Y})
		fn, fs := pr.fwd(geom.XY{X: p.X, Y: p.Y + h}), pr.fwd(geom.XY{X: p.X, Y: p.Y - h})
		if !finite(fe) || !finite(fw) || !finite(fn) || !finite(fs) {
			fail(i, "forward_finite_neighbourhood", desc)
			continue
		}
		hr := 2 * rad(h) * pr.scale
		xl, yl := (fe.X-fw.X)/hr, (fe.Y-fw.Y)/hr // d/d lambda, in units of the scale
		xp, yp := (fn.X-fs.X)/hr, (fn.Y-fs.Y)/hr // d/d phi
		cosp := math.Cos(rad(p.Y))
		switch kind {
		case "sn", "lc", "alb": // equal area: det J = R^2 cos(phi)
			det := xl*yp - xp*yl
			if math.Abs(det-cosp) > charTol*math.Max(cosp, 0.05) {
				fail(i, "equal_area", fmt.Sprintf("detJ/R^2=%.9g cos(lat)=%.9g %s", det, cosp, desc))
			}
		case "wm", "lcc": // conformal: J diag(1/cos phi, 1) is a scalar times an orthogonal matrix
			u, v := (xl*xl+yl*yl)/(cosp*cosp), xp*xp+yp*yp
			dot := (xl*xp + yl*yp) / cosp
			if math.Abs(u-v) > charTol*v || math.Abs(dot) > charTol*v {
				fail(i, "conformal", fmt.Sprintf("k^2=%.9g h^2=%.9g dot=%.3g %s", u, v, dot, desc))
			}
		case "eqdc": // true scale along every meridian
			if math.Abs(math.Sqrt(xp*xp+yp*yp)-1) > charTol {
				fail(i, "meridian_true_scale", fmt.Sprintf("h=%.9g %s", math.Sqrt(xp*xp+yp*yp), desc))
			}
		case "azeq": // distance from the centre is true
			want := angDist(pr.lon0, pr.lat0, p.X, p.Y)
			if math.Abs(math.Hypot(f.X, f.Y)/pr.scale-want) > 1e-9 {
				fail(i, "radial_isometry", fmt.Sprintf("|fwd|/R=%.12g angular distance=%.12g %s", math.Hypot(f.X, f.Y)/pr.scale, want, desc))
			}
		}
		if pointClass == "stdpar" { // standard parallels are true to scale
			k := math.Sqrt(xl*xl+yl*yl) / cosp
			if math.Abs(k-1) > charTol {
				fail(i, "standard_parallel_true_scale", fmt.Sprintf("k=%.9g %s", k, desc))
			}
		}
		if kind == "wm" { // the world maps into the square [0, 2^zoom]^2, y grows southward
			P := pr.scale
			if slack := 1e-12 * P; f.X < -slack || f.X > P+slack || f.Y < -slack || f.Y > P+slack { // slack: rounding at the edge
				fail(i, "webmercator_range", desc)
			}
			if !(yp < 0) || !(xl > 0) {
				fail(i, "webmercator_orientation", desc)
			}
		}
	}
	js, _ := json.Marshal(map[string]interface{}{"classes": classes, "flagged": flagged, "spec_fails": fails})
	fmt.Fprintf(w, "#GEN\t%s\n", js)
}
