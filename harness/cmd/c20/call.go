package main

import (
	"fmt"
	"math"
	"reflect"
	"strings"
	"time"

	"github.com/peterstace/simplefeatures/geom"
	"verifharness/lib"
)

var (
	tGeometry = reflect.TypeOf(geom.Geometry{})
	tPoint    = reflect.TypeOf(geom.Point{})
	tLine     = reflect.TypeOf(geom.LineString{})
	tPoly     = reflect.TypeOf(geom.Polygon{})
	tMPoint   = reflect.TypeOf(geom.MultiPoint{})
	tMLine    = reflect.TypeOf(geom.MultiLineString{})
	tMPoly    = reflect.TypeOf(geom.MultiPolygon{})
	tColl     = reflect.TypeOf(geom.GeometryCollection{})
	tEnv      = reflect.TypeOf(geom.Envelope{})
	tSeq      = reflect.TypeOf(geom.Sequence{})
	tErr      = reflect.TypeOf((*error)(nil)).Elem()
	tXY       = reflect.TypeOf(geom.XY{})
)

// asGeometry converts a value of one of the eight geometry types; ok is false otherwise.
func asGeometry(v reflect.Value) (g geom.Geometry, ok bool) {
	switch x := v.Interface().(type) {
	case geom.Geometry:
		return x, true
	case geom.Point:
		return x.AsGeometry(), true
	case geom.LineString:
		return x.AsGeometry(), true
	case geom.Polygon:
		return x.AsGeometry(), true
	case geom.MultiPoint:
		return x.AsGeometry(), true
	case geom.MultiLineString:
		return x.AsGeometry(), true
	case geom.MultiPolygon:
		return x.AsGeometry(), true
	case geom.GeometryCollection:
		return x.AsGeometry(), true
	}
	return geom.Geometry{}, false
}

func hexf(f float64) string { return fmt.Sprintf("%016x", math.Float64bits(f)) }

func esc(s string) string {
	s = strings.ReplaceAll(s, "\t", " ")
	s = strings.ReplaceAll(s, "\n", " ")
	s = strings.ReplaceAll(s, "|", "/")
	if len(s) > 400 {
		s = s[:400] + "..."
	}
	return s
}

func renderSeq(s geom.Sequence) string {
	var sb strings.Builder
	fmt.Fprintf(&sb, "q:%d:%d", int(s.CoordinatesType()), s.Length())
	for i := 0; i < s.Length(); i++ {
		c := s.Get(i)
		sb.WriteString(":" + hexf(c.X) + "," + hexf(c.Y))
		if s.CoordinatesType().Is3D() {
			sb.WriteString("," + hexf(c.Z))
		}
		if s.CoordinatesType().IsMeasured() {
			sb.WriteString("," + hexf(c.M))
		}
	}
	return sb.String()
}

// render gives the canonical text of one result value.
func render(v reflect.Value) string {
	if !v.IsValid() {
		return "o:invalid"
	}
	if g, ok := asGeometry(v); ok {
		return "g:" + lib.Dump(g)
	}
	t := v.Type()
	switch {
	case t == tEnv:
		e := v.Interface().(geom.Envelope)
		mn, ok1 := e.Min().XY()
		mx, ok2 := e.Max().XY()
		if e.IsEmpty() || !ok1 || !ok2 {
			return "v:empty"
		}
		return "v:" + hexf(mn.X) + "," + hexf(mn.Y) + "," + hexf(mx.X) + "," + hexf(mx.Y)
	case t == tSeq:
		return renderSeq(v.Interface().(geom.Sequence))
	case t == tXY:
		xy := v.Interface().(geom.XY)
		return "y:" + hexf(xy.X) + "," + hexf(xy.Y)
	case t.Implements(tErr) || t == tErr:
		if v.IsNil() {
			return "e:nil"
		}
		return "e:err"
	}
	switch v.Kind() {
	case reflect.Bool:
		return fmt.Sprintf("b:%v", v.Bool())
	case reflect.Int, reflect.Int8, reflect.Int16, reflect.Int32, reflect.Int64:
		return fmt.Sprintf("i:%d", v.Int())
	case reflect.Uint, reflect.Uint8, reflect.Uint16, reflect.Uint32, reflect.Uint64:
		return fmt.Sprintf("i:%d", v.Uint())
	case reflect.Float64, reflect.Float32:
		return "f:" + hexf(v.Float())
	case reflect.String:
		return "s:" + esc(v.String())
	case reflect.Slice:
		if v.Type().Elem().Kind() == reflect.Uint8 {
			return "x:" + lib.Hex(v.Bytes())
		}
		parts := make([]string, v.Len())
		for i := 0; i < v.Len(); i++ {
			parts[i] = render(v.Index(i))
		}
		return "l:[" + strings.Join(parts, ";") + "]"
	case reflect.Interface:
		if v.IsNil() {
			return "n:nil"
		}
		return render(v.Elem())
	}
	return "o:" + esc(fmt.Sprintf("%v", v.Interface()))
}

type outcome struct {
	vals     []reflect.Value
	panicked bool
	text     string
}

// callTimeout bounds one call; a call that does not return is reported as "!hang" (its goroutine
// is abandoned).
var callTimeout = 20 * time.Second

// run executes f under recover (and under the watchdog) and renders the results.
func run(f func() []reflect.Value) outcome {
	ch := make(chan outcome, 1)
	go func() { ch <- runHere(f) }()
	select {
	case o := <-ch:
		return o
	case <-time.After(callTimeout):
		return outcome{panicked: true, text: "!hang:no result within " + callTimeout.String()}
	}
}

func runHere(f func() []reflect.Value) (o outcome) {
	defer func() {
		if r := recover(); r != nil {
			o.panicked = true
			o.vals = nil
			o.text = "!panic:" + esc(fmt.Sprint(r))
		}
	}()
	vals := f()
	parts := make([]string, len(vals))
	for i, v := range vals {
		parts[i] = render(v)
	}
	o.vals = vals
	o.text = strings.Join(parts, "|")
	if len(vals) == 0 {
		o.text = "-"
	}
	return o
}

// ---------------------------------------------------------------------------------------------
// comparison of two results "up to empty members" (the transparency statement for values that
// are geometries); scalars are compared by the driver on the rendered text

func buildSafe(n *lib.Node) (g geom.Geometry, ok bool) {
	defer func() {
		if r := recover(); r != nil {
			ok = false
		}
	}()
	return n.Build(), true
}

func sameGeom(a, b geom.Geometry) (res string) {
	defer func() {
		if r := recover(); r != nil {
			res = "ne:panic-in-comparison:" + esc(fmt.Sprint(r))
		}
	}()
	sa, ok1 := buildSafe(stripEmpties(lib.NodeOf(a)))
	sb, ok2 := buildSafe(stripEmpties(lib.NodeOf(b)))
	if !ok1 || !ok2 {
		return "ne:rebuild"
	}
	if sa.IsEmpty() && sb.IsEmpty() {
		return "eq"
	}
	if sa.IsEmpty() != sb.IsEmpty() {
		return "ne:emptiness"
	}
	// ExactEquals with a tolerance treats a NaN ordinate as equal to anything (d > tol is false):
	// results with non-finite ordinates are equal only if they are the same value
	if !finiteNode(lib.NodeOf(sa)) || !finiteNode(lib.NodeOf(sb)) {
		if lib.Dump(sa) == lib.Dump(sb) {
			return "eq"
		}
		return "ne:non-finite " + esc(sa.AsText()) + " <> " + esc(sb.AsText())
	}
	if geom.ExactEquals(sa, sb, geom.IgnoreOrder, geom.ToleranceXY(1e-9)) {
		return "eq"
	}
	if sa.Validate() == nil && sb.Validate() == nil {
		if eq, err := geom.Equals(sa, sb); err == nil && eq {
			return "eq"
		}
	}
	return "ne:" + esc(sa.AsText()) + " <> " + esc(sb.AsText())
}

func finiteNode(n *lib.Node) bool {
	for _, v := range n.C {
		for _, f := range v {
			if math.IsNaN(f) || math.IsInf(f, 0) {
				return false
			}
		}
	}
	for _, k := range n.Kids {
		if !finiteNode(k) {
			return false
		}
	}
	return true
}

func nonEmptyGeoms(v reflect.Value) []geom.Geometry {
	var out []geom.Geometry
	for i := 0; i < v.Len(); i++ {
		if g, ok := asGeometry(v.Index(i)); ok && !g.IsEmpty() {
			out = append(out, g)
		}
	}
	return out
}

// geomVerdict compares the geometry-valued components of two outcomes; "-" if there are none.
func geomVerdict(a, b outcome) string {
	if a.panicked || b.panicked || len(a.vals) != len(b.vals) {
		return "-"
	}
	verdict := "-"
	for i := range a.vals {
		va, vb := a.vals[i], b.vals[i]
		if ga, ok := asGeometry(va); ok {
			gb, ok2 := asGeometry(vb)
			if !ok2 {
				return "ne:type"
			}
			if r := sameGeom(ga, gb); r != "eq" {
				return r
			}
			verdict = "eq"
			continue
		}
		if va.Kind() == reflect.Slice && va.Type().Elem().Kind() != reflect.Uint8 {
			if _, isG := asGeometry(reflect.Zero(va.Type().Elem())); isG {
				la, lb := nonEmptyGeoms(va), nonEmptyGeoms(vb)
				if len(la) != len(lb) {
					return fmt.Sprintf("ne:list-length %d <> %d", len(la), len(lb))
				}
				for j := range la {
					if r := sameGeom(la[j], lb[j]); r != "eq" {
						return r
					}
				}
				verdict = "eq"
			}
		}
	}
	return verdict
}

// structVerdict compares the first (geometry) components of two outcomes STRUCTURALLY: ExactEquals
// with IgnoreOrder only (no stripping, no point-set fallback), and the same error status. Used where
// the neutral answer table names a value ("the self-union of the other operand").
func structVerdict(a, b outcome) (res string) {
	defer func() {
		if r := recover(); r != nil {
			res = "ne:panic-in-comparison:" + esc(fmt.Sprint(r))
		}
	}()
	if a.panicked || b.panicked || len(a.vals) == 0 || len(b.vals) == 0 {
		return "-"
	}
	ga, ok1 := asGeometry(a.vals[0])
	gb, ok2 := asGeometry(b.vals[0])
	if !ok1 || !ok2 {
		return "-"
	}
	if len(a.vals) > 1 && len(b.vals) > 1 && render(a.vals[1]) != render(b.vals[1]) {
		return "ne:error-status"
	}
	if !finiteNode(lib.NodeOf(ga)) || !finiteNode(lib.NodeOf(gb)) {
		if lib.Dump(ga) == lib.Dump(gb) {
			return "eq"
		}
		return "ne:non-finite"
	}
	if geom.ExactEquals(ga, gb, geom.IgnoreOrder) {
		return "eq"
	}
	return "ne:structure " + esc(ga.AsText()) + " <> " + esc(gb.AsText())
}
