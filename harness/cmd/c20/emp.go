package main

import (
	"fmt"
	"strings"

	"github.com/peterstace/simplefeatures/geom"
	"verifharness/lib"
)

// Emp is the shape of an empty geometry (mirrors Model/Empty.v: emp).
type Emp struct {
	K  string // Pt Ln Pg MPt MLn MPg GC
	N  int    // member count of MPt / MLn / MPg
	Ms []Emp  // members of GC
}

// Ins is one insertion: position in the member list as it is at that moment, and the shape.
type Ins struct {
	Pos int
	E   Emp
}

// Plan mirrors Model/Empty.v: eplan.
type Plan struct {
	Here []Ins
	Kids []*Plan
}

func (e Emp) String() string {
	switch e.K {
	case "MPt", "MLn", "MPg":
		return fmt.Sprintf("%s %d", e.K, e.N)
	case "GC":
		parts := []string{fmt.Sprintf("GC %d", len(e.Ms))}
		for _, m := range e.Ms {
			parts = append(parts, m.String())
		}
		return strings.Join(parts, " ")
	}
	return e.K
}

// String renders the plan as prefix tokens: EP <nhere> (<pos> <shape>)* <nkids> <plan>*
func (p *Plan) String() string {
	if p == nil {
		return "EP 0 0"
	}
	parts := []string{fmt.Sprintf("EP %d", len(p.Here))}
	for _, h := range p.Here {
		parts = append(parts, fmt.Sprintf("%d %s", h.Pos, h.E.String()))
	}
	parts = append(parts, fmt.Sprintf("%d", len(p.Kids)))
	for _, k := range p.Kids {
		parts = append(parts, k.String())
	}
	return strings.Join(parts, " ")
}

// empNode builds the empty description of shape e with coordinates type ct at every node.
func empNode(ct geom.CoordinatesType, e Emp) *lib.Node {
	switch e.K {
	case "Pt":
		return &lib.Node{Kind: lib.KPoint, CT: ct}
	case "Ln":
		return &lib.Node{Kind: lib.KLine, CT: ct}
	case "Pg":
		return &lib.Node{Kind: lib.KPoly, CT: ct}
	case "MPt":
		n := &lib.Node{Kind: lib.KMPoint, CT: ct}
		for i := 0; i < e.N; i++ {
			n.Kids = append(n.Kids, &lib.Node{Kind: lib.KPoint, CT: ct})
		}
		return n
	case "MLn":
		n := &lib.Node{Kind: lib.KMLine, CT: ct}
		for i := 0; i < e.N; i++ {
			n.Kids = append(n.Kids, &lib.Node{Kind: lib.KLine, CT: ct})
		}
		return n
	case "MPg":
		n := &lib.Node{Kind: lib.KMPoly, CT: ct}
		for i := 0; i < e.N; i++ {
			n.Kids = append(n.Kids, &lib.Node{Kind: lib.KPoly, CT: ct})
		}
		return n
	default:
		n := &lib.Node{Kind: lib.KColl, CT: ct}
		for _, m := range e.Ms {
			n.Kids = append(n.Kids, empNode(ct, m))
		}
		return n
	}
}

func cloneNode(n *lib.Node) *lib.Node {
	c := &lib.Node{Kind: n.Kind, CT: n.CT, Full: n.Full}
	c.C = append(c.C, n.C...)
	for _, k := range n.Kids {
		c.Kids = append(c.Kids, cloneNode(k))
	}
	return c
}

func insertAt(l []*lib.Node, pos int, x *lib.Node) []*lib.Node {
	if pos > len(l) {
		pos = len(l)
	}
	out := make([]*lib.Node, 0, len(l)+1)
	out = append(out, l[:pos]...)
	out = append(out, x)
	out = append(out, l[pos:]...)
	return out
}

// insertEmpties is the harness's own implementation of "insert empty members" (the model's
// insert_empties is compared against it by the driver).
func insertEmpties(n *lib.Node, p *Plan) *lib.Node {
	c := cloneNode(n)
	if p == nil {
		return c
	}
	switch n.Kind {
	case lib.KPoint, lib.KLine, lib.KPoly:
		return c
	case lib.KColl:
		for i := range c.Kids {
			if i < len(p.Kids) {
				c.Kids[i] = insertEmpties(n.Kids[i], p.Kids[i])
			}
		}
		for _, h := range p.Here {
			c.Kids = insertAt(c.Kids, h.Pos, empNode(n.CT, h.E))
		}
	case lib.KMPoint:
		for _, h := range p.Here {
			c.Kids = insertAt(c.Kids, h.Pos, &lib.Node{Kind: lib.KPoint, CT: n.CT})
		}
	case lib.KMLine:
		for _, h := range p.Here {
			c.Kids = insertAt(c.Kids, h.Pos, &lib.Node{Kind: lib.KLine, CT: n.CT})
		}
	case lib.KMPoly:
		for _, h := range p.Here {
			c.Kids = insertAt(c.Kids, h.Pos, &lib.Node{Kind: lib.KPoly, CT: n.CT})
		}
	}
	return c
}

// stripEmpties removes every empty member of every Multi* / collection node.
func stripEmpties(n *lib.Node) *lib.Node {
	c := &lib.Node{Kind: n.Kind, CT: n.CT, Full: n.Full}
	c.C = append(c.C, n.C...)
	switch n.Kind {
	case lib.KPoint, lib.KLine:
		return c
	case lib.KPoly:
		for _, k := range n.Kids {
			c.Kids = append(c.Kids, cloneNode(k))
		}
		return c
	}
	for _, k := range n.Kids {
		if k.IsEmptyNode() {
			continue
		}
		c.Kids = append(c.Kids, stripEmpties(k))
	}
	return c
}

// idump renders a node with integer ordinates (every geometry of this command lives on a small
// integer lattice): P ct 0 | P ct 1 x y [z] [m] ; L ct n ... ; Y ct k L... ; MP/ML/MY/GC ct k ...
func idump(n *lib.Node) string {
	var sb strings.Builder
	idumpTo(&sb, n)
	return strings.TrimSpace(sb.String())
}

func ivtx(sb *strings.Builder, v [4]float64, ct geom.CoordinatesType) {
	fmt.Fprintf(sb, "%d %d ", int64(v[0]), int64(v[1]))
	if ct.Is3D() {
		fmt.Fprintf(sb, "%d ", int64(v[2]))
	}
	if ct.IsMeasured() {
		fmt.Fprintf(sb, "%d ", int64(v[3]))
	}
}

func idumpTo(sb *strings.Builder, n *lib.Node) {
	switch n.Kind {
	case lib.KPoint:
		if !n.Full {
			fmt.Fprintf(sb, "P %d 0 ", int(n.CT))
			return
		}
		fmt.Fprintf(sb, "P %d 1 ", int(n.CT))
		ivtx(sb, n.C[0], n.CT)
	case lib.KLine:
		fmt.Fprintf(sb, "L %d %d ", int(n.CT), len(n.C))
		for _, v := range n.C {
			ivtx(sb, v, n.CT)
		}
	default:
		fmt.Fprintf(sb, "%s %d %d ", lib.KindTag[n.Kind], int(n.CT), len(n.Kids))
		for _, k := range n.Kids {
			idumpTo(sb, k)
		}
	}
}

// isLattice reports whether every ordinate is a small integer (so that idump loses nothing).
func isLattice(n *lib.Node) bool {
	for _, v := range n.C {
		for _, f := range v {
			if f != float64(int64(f)) || f > 1e6 || f < -1e6 {
				return false
			}
		}
	}
	for _, k := range n.Kids {
		if !isLattice(k) {
			return false
		}
	}
	return true
}
