package main

import (
	"github.com/peterstace/simplefeatures/geom"
	"verifharness/lib"
)

var allCT = []geom.CoordinatesType{geom.DimXY, geom.DimXYZ, geom.DimXYM, geom.DimXYZM}

func vtx(r *lib.Rng, ct geom.CoordinatesType, x, y int) [4]float64 {
	v := [4]float64{float64(x), float64(y), 0, 0}
	if ct.Is3D() {
		v[2] = float64(r.Range(-3, 3))
	}
	if ct.IsMeasured() {
		v[3] = float64(r.Range(-3, 3))
	}
	return v
}

// An empty Point stores zero ordinates: a bug that forgets the non-empty flag shows only against
// geometry located exactly at the origin. The generators therefore put vertices at (0 0) often.
func genPoint(r *lib.Rng, ct geom.CoordinatesType, ox int) *lib.Node {
	if ox == 0 && r.Chance(1, 4) {
		return &lib.Node{Kind: lib.KPoint, CT: ct, Full: true, C: [][4]float64{{0, 0, 0, 0}}}
	}
	return &lib.Node{Kind: lib.KPoint, CT: ct, Full: true, C: [][4]float64{vtx(r, ct, ox+r.Range(0, 6), r.Range(0, 6))}}
}

// a line string of 2..4 vertices with at least two distinct points
func genLine(r *lib.Rng, ct geom.CoordinatesType, ox int) *lib.Node {
	n := &lib.Node{Kind: lib.KLine, CT: ct}
	k := r.Range(2, 4)
	for i := 0; i < k; i++ {
		n.C = append(n.C, vtx(r, ct, ox+r.Range(0, 6), r.Range(0, 6)))
	}
	if ox == 0 && r.Chance(1, 4) {
		n.C[0] = [4]float64{0, 0, 0, 0}
	}
	if n.C[0][0] == n.C[1][0] && n.C[0][1] == n.C[1][1] {
		n.C[1][0]++
	}
	return n
}

func ring(r *lib.Rng, ct geom.CoordinatesType, pts [][2]int) *lib.Node {
	n := &lib.Node{Kind: lib.KLine, CT: ct}
	for _, p := range pts {
		n.C = append(n.C, vtx(r, ct, p[0], p[1]))
	}
	n.C = append(n.C, n.C[0])
	return n
}

// a valid polygon inside [ox, ox+6] x [0, 6]: rectangle or right triangle, sometimes with a hole
func genPoly(r *lib.Rng, ct geom.CoordinatesType, ox int) *lib.Node {
	n := &lib.Node{Kind: lib.KPoly, CT: ct}
	x0 := ox + r.Range(0, 2)
	y0 := r.Range(0, 2)
	if ox == 0 && r.Chance(1, 3) {
		x0, y0 = 0, 0
	}
	w := r.Range(1, 4)
	h := r.Range(1, 4)
	switch r.Intn(3) {
	case 0:
		n.Kids = append(n.Kids, ring(r, ct, [][2]int{{x0, y0}, {x0 + w, y0}, {x0, y0 + h}}))
	default:
		n.Kids = append(n.Kids, ring(r, ct, [][2]int{{x0, y0}, {x0 + w, y0}, {x0 + w, y0 + h}, {x0, y0 + h}}))
		if w >= 3 && h >= 3 && r.Bool() {
			n.Kids = append(n.Kids, ring(r, ct, [][2]int{{x0 + 1, y0 + 1}, {x0 + 1, y0 + 2}, {x0 + 2, y0 + 2}, {x0 + 2, y0 + 1}}))
		}
	}
	return n
}

// genBase draws a valid non-empty lattice geometry without empty members. Members of Multi* and
// of collections live in separate x-bands (width 8) so that areal members never overlap.
func genBase(r *lib.Rng, ct geom.CoordinatesType, kind lib.Kind, depth int, ox int) *lib.Node {
	switch kind {
	case lib.KPoint:
		return genPoint(r, ct, ox)
	case lib.KLine:
		return genLine(r, ct, ox)
	case lib.KPoly:
		return genPoly(r, ct, ox)
	}
	n := &lib.Node{Kind: kind, CT: ct}
	k := r.Range(1, 3)
	if kind == lib.KMPoly && r.Chance(1, 3) {
		// members whose ENVELOPES overlap while their boundaries are disjoint (the path of
		// MultiPolygon.Validate that probes one vertex of each member against the other): a
		// square ring and a polygon in its hole, or two interlocked L shapes; sometimes a third
		// member in the next band.  An empty member inserted in front of or between them shifts
		// every member index.
		if r.Bool() {
			n.Kids = append(n.Kids,
				&lib.Node{Kind: lib.KPoly, CT: ct, Kids: []*lib.Node{
					ring(r, ct, [][2]int{{ox, 0}, {ox + 6, 0}, {ox + 6, 6}, {ox, 6}}),
					ring(r, ct, [][2]int{{ox + 1, 1}, {ox + 1, 5}, {ox + 5, 5}, {ox + 5, 1}})}},
				&lib.Node{Kind: lib.KPoly, CT: ct, Kids: []*lib.Node{
					ring(r, ct, [][2]int{{ox + 2, 2}, {ox + 4, 2}, {ox + 2 + r.Range(0, 2), 4}})}})
		} else {
			n.Kids = append(n.Kids,
				&lib.Node{Kind: lib.KPoly, CT: ct, Kids: []*lib.Node{
					ring(r, ct, [][2]int{{ox, 0}, {ox + 6, 0}, {ox + 6, 1}, {ox + 1, 1}, {ox + 1, 6}, {ox, 6}})}},
				&lib.Node{Kind: lib.KPoly, CT: ct, Kids: []*lib.Node{
					ring(r, ct, [][2]int{{ox + 6, 6}, {ox + 2, 6}, {ox + 2, 5}, {ox + 5, 5}, {ox + 5, 2}, {ox + 6, 2}})}})
		}
		if r.Bool() {
			n.Kids[0], n.Kids[1] = n.Kids[1], n.Kids[0]
		}
		if r.Chance(1, 3) {
			n.Kids = append(n.Kids, genPoly(r, ct, ox+8))
		}
		return n
	}
	for i := 0; i < k; i++ {
		bx := ox + 8*i
		switch kind {
		case lib.KMPoint:
			n.Kids = append(n.Kids, genPoint(r, ct, bx))
		case lib.KMLine:
			n.Kids = append(n.Kids, genLine(r, ct, bx))
		case lib.KMPoly:
			n.Kids = append(n.Kids, genPoly(r, ct, bx))
		default:
			var kk lib.Kind
			if depth <= 1 {
				kk = lib.Kind(r.Intn(6))
			} else {
				kk = lib.Kind(r.Intn(7))
			}
			// nested members get a band of their own, wide enough for three sub-bands
			n.Kids = append(n.Kids, genBase(r, ct, kk, depth-1, ox+30*i))
		}
	}
	return n
}

var empKinds = []string{"Pt", "Ln", "Pg", "MPt", "MLn", "MPg", "GC"}

func genEmp(r *lib.Rng, depth int) Emp {
	k := empKinds[r.Intn(len(empKinds))]
	switch k {
	case "MPt", "MLn", "MPg":
		return Emp{K: k, N: r.Intn(3)}
	case "GC":
		e := Emp{K: k}
		if depth > 0 {
			m := r.Intn(3)
			for i := 0; i < m; i++ {
				e.Ms = append(e.Ms, genEmp(r, depth-1))
			}
		}
		return e
	}
	return Emp{K: k}
}

// genPlan draws a random plan for n: 0..2 insertions at every Multi*/collection node.
func genPlan(r *lib.Rng, n *lib.Node, must bool) *Plan {
	p := &Plan{}
	switch n.Kind {
	case lib.KPoint, lib.KLine, lib.KPoly:
		return p
	}
	cnt := r.Intn(3)
	if must && cnt == 0 {
		cnt = 1
	}
	if n.Kind == lib.KColl {
		for _, k := range n.Kids {
			p.Kids = append(p.Kids, genPlan(r, k, false))
		}
		if r.Chance(1, 4) && len(p.Kids) > 0 {
			p.Kids = p.Kids[:len(p.Kids)-1] // shorter than the member list: the tail is left alone
		}
	}
	size := len(n.Kids)
	for i := 0; i < cnt; i++ {
		pos := r.Range(0, size+1) // size+1: beyond the end, appended
		p.Here = append(p.Here, Ins{Pos: pos, E: genEmp(r, 2)})
		size++
	}
	return p
}

// everyPositionPlans: one plan per (position, shape) of the root node.
func everyPositionPlans(n *lib.Node) []*Plan {
	var out []*Plan
	switch n.Kind {
	case lib.KPoint, lib.KLine, lib.KPoly:
		return out
	}
	shapes := []Emp{{K: "Pt"}}
	if n.Kind == lib.KColl {
		shapes = []Emp{{K: "Pt"}, {K: "Ln"}, {K: "Pg"}, {K: "MPt"}, {K: "MLn", N: 1}, {K: "MPg", N: 2}, {K: "GC"},
			{K: "GC", Ms: []Emp{{K: "Pt"}, {K: "GC", Ms: []Emp{{K: "Pg"}}}}}}
	}
	for pos := 0; pos <= len(n.Kids); pos++ {
		for _, s := range shapes {
			out = append(out, &Plan{Here: []Ins{{Pos: pos, E: s}}})
		}
	}
	return out
}

// emptyPool: typed empties x 4 coordinate types, Multi*/collections of 1..3 mixed empties.
func emptyPool(r *lib.Rng, extra int) []*lib.Node {
	var out []*lib.Node
	for _, ct := range allCT {
		for _, k := range empKinds {
			out = append(out, empNode(ct, Emp{K: k}))
		}
	}
	for _, ct := range allCT {
		for n := 1; n <= 3; n++ {
			out = append(out, empNode(ct, Emp{K: "MPt", N: n}), empNode(ct, Emp{K: "MLn", N: n}), empNode(ct, Emp{K: "MPg", N: n}))
		}
		out = append(out, empNode(ct, Emp{K: "GC", Ms: []Emp{{K: "Pt"}}}))
		out = append(out, empNode(ct, Emp{K: "GC", Ms: []Emp{{K: "Pg"}, {K: "Ln"}}}))
		out = append(out, empNode(ct, Emp{K: "GC", Ms: []Emp{{K: "MPt", N: 2}, {K: "GC"}, {K: "Pg"}}}))
		out = append(out, empNode(ct, Emp{K: "GC", Ms: []Emp{{K: "GC", Ms: []Emp{{K: "GC", Ms: []Emp{{K: "Ln"}}}}}}}))
	}
	for i := 0; i < extra; i++ {
		e := Emp{K: "GC"}
		m := r.Range(1, 3)
		for j := 0; j < m; j++ {
			e.Ms = append(e.Ms, genEmp(r, 2))
		}
		out = append(out, empNode(allCT[r.Intn(4)], e))
	}
	return out
}

func nodeLine(ct geom.CoordinatesType, xs ...int) *lib.Node {
	n := &lib.Node{Kind: lib.KLine, CT: ct}
	for i := 0; i+1 < len(xs); i += 2 {
		n.C = append(n.C, [4]float64{float64(xs[i]), float64(xs[i+1]), 0, 0})
	}
	return n
}

func nodePoint(ct geom.CoordinatesType, x, y int) *lib.Node {
	return &lib.Node{Kind: lib.KPoint, CT: ct, Full: true, C: [][4]float64{{float64(x), float64(y), 0, 0}}}
}

func nodeOf(kind lib.Kind, ct geom.CoordinatesType, kids ...*lib.Node) *lib.Node {
	return &lib.Node{Kind: kind, CT: ct, Kids: kids}
}

// originPartners: geometries located exactly at the origin (all of Z and M are 0 as well), of every
// type: the origin as the only point, as one of several, as an end point, as an interior point of a
// segment, as a polygon vertex, in a polygon's interior.
func originPartners() []*lib.Node {
	var out []*lib.Node
	for _, ct := range allCT {
		out = append(out, nodePoint(ct, 0, 0), nodeOf(lib.KMPoint, ct, nodePoint(ct, 0, 0)))
	}
	ct := geom.DimXY
	out = append(out,
		nodeOf(lib.KMPoint, ct, nodePoint(ct, 0, 0), nodePoint(ct, 3, 4)),
		nodeOf(lib.KMPoint, ct, nodePoint(ct, 3, 4), nodePoint(ct, 0, 0)),
		nodeLine(ct, 0, 0, 2, 0),
		nodeLine(ct, -1, -1, 1, 1),
		nodeOf(lib.KMLine, ct, nodeLine(ct, 0, 0, 0, 3), nodeLine(ct, 5, 5, 6, 6)),
		nodeOf(lib.KPoly, ct, nodeLine(ct, 0, 0, 2, 0, 0, 2, 0, 0)),
		nodeOf(lib.KPoly, ct, nodeLine(ct, -1, -1, 1, -1, 1, 1, -1, 1, -1, -1)),
		nodeOf(lib.KMPoly, ct, nodeOf(lib.KPoly, ct, nodeLine(ct, 0, 0, 2, 0, 0, 2, 0, 0))),
		nodeOf(lib.KColl, ct, nodePoint(ct, 0, 0)),
		nodeOf(lib.KColl, ct, nodeOf(lib.KMPoint, ct, nodePoint(ct, 0, 0)), nodeLine(ct, 7, 7, 8, 8)),
	)
	return out
}

// originBases: small bases of every container kind, some touching the origin and some away from it
// (the revealing case for a leaked (0 0) is a base that does NOT contain the origin).
func originBases() []*lib.Node {
	var out []*lib.Node
	for _, ct := range []geom.CoordinatesType{geom.DimXY, geom.DimXYZM} {
		out = append(out,
			nodeOf(lib.KMPoint, ct, nodePoint(ct, 3, 4)),
			nodeOf(lib.KMPoint, ct, nodePoint(ct, 0, 0), nodePoint(ct, 3, 4)),
			nodeOf(lib.KMLine, ct, nodeLine(ct, 1, 1, 3, 1)),
			nodeOf(lib.KMLine, ct, nodeLine(ct, 0, 0, 2, 2)),
			nodeOf(lib.KMPoly, ct, nodeOf(lib.KPoly, ct, nodeLine(ct, 1, 1, 3, 1, 1, 3, 1, 1))),
			nodeOf(lib.KMPoly, ct, nodeOf(lib.KPoly, ct, nodeLine(ct, 0, 0, 2, 0, 0, 2, 0, 0))),
			nodeOf(lib.KColl, ct, nodePoint(ct, 3, 4)),
			nodeOf(lib.KColl, ct, nodeOf(lib.KMPoint, ct, nodePoint(ct, 3, 4)), nodeLine(ct, 1, 1, 2, 2)),
		)
	}
	return out
}

// nonCanonical: valid geometries whose self-union differs STRUCTURALLY from the geometry itself
// (noding, de-duplication, merging): self-crossing and back-tracking line strings, MultiPoints with
// repeated points, MultiLineStrings with collinear overlap, edge-adjacent polygons and lines covered
// by polygons in a collection. "Union with an empty operand is the self-union of the other operand"
// is judged on these structurally.
func nonCanonical() []*lib.Node {
	ct := geom.DimXY
	sq := func(x0, y0, x1, y1 int) *lib.Node {
		return nodeOf(lib.KPoly, ct, nodeLine(ct, x0, y0, x1, y0, x1, y1, x0, y1, x0, y0))
	}
	return []*lib.Node{
		nodeLine(ct, 0, 0, 2, 2, 2, 0, 0, 2),             // crosses itself at (1 1)
		nodeLine(ct, 0, 0, 4, 0, 2, 0, 2, 3),             // retraces part of itself
		nodeLine(ct, 1, 1, 3, 1, 3, 3, 1, 3, 1, 1, 3, 1), // closed ring walked one edge too far
		nodeOf(lib.KMPoint, ct, nodePoint(ct, 1, 2), nodePoint(ct, 1, 2), nodePoint(ct, 0, 0), nodePoint(ct, 1, 2)),
		nodeOf(lib.KMLine, ct, nodeLine(ct, 0, 0, 4, 0), nodeLine(ct, 2, 0, 6, 0)),                           // collinear overlap
		nodeOf(lib.KMLine, ct, nodeLine(ct, 0, 0, 2, 2), nodeLine(ct, 0, 2, 2, 0), nodeLine(ct, 0, 0, 2, 2)), // crossing + duplicate
		nodeOf(lib.KColl, ct, sq(0, 0, 2, 2), sq(2, 0, 4, 2)),                                                // edge-adjacent polygons
		nodeOf(lib.KColl, ct, sq(0, 0, 4, 4), nodeLine(ct, 1, 1, 3, 3), nodePoint(ct, 2, 1)),                 // line and point covered by a polygon
		nodeOf(lib.KColl, ct, nodeLine(ct, 0, 0, 2, 2, 2, 0, 0, 2), nodeOf(lib.KMPoint, ct, nodePoint(ct, 1, 1), nodePoint(ct, 1, 1))),
		nodeOf(lib.KPoly, ct, nodeLine(ct, 0, 0, 4, 0, 4, 4, 0, 4, 0, 0), nodeLine(ct, 1, 1, 1, 2, 2, 2, 2, 1, 1, 1)),
	}
}
