// Command c20 enumerates, by reflection, the method sets of geom.Geometry and of the seven concrete
// geometry types plus a table of package-level functions, calls each of them on zero values, typed
// empties, collections of empties and non-empty lattice geometries with empty members inserted at
// every position, every call under recover(), and prints one line per call (property C20).
//
// Lines (tab separated, id first):
//
//	G  id G class <base idump> <plan> <inserted idump> <IsEmpty inserted> <Dimension inserted> <IsEmpty base> <Dimension base> <Envelope inserted> <2*Area inserted>
//	C  id C kind recv method op which tm <argdesc> <dumpA> <dumpB> <out1> <out2> <geomcmp>
//
// kind: Z zero value vs explicitly constructed empty (out2 = the explicit one)
//
//	N all operands empty or one operand empty: out1 is judged against the neutral answer table
//	T transparency: out1 on the geometry with inserted empties, out2 on the base geometry
//	U unmodelled surface: only "no panic"
//	D documented panic class (argument class in argdesc): may panic
//	K codec round trip of an empty geometry (out1 = decoded)
//	R WKB / WKT round trip of a geometry with inserted empties (out1 = decoded, out2 = the value)
//	H TWKB header options (bounding box, size, ID list) on a geometry with inserted empties (out1) and
//	  on the base (out2), read back with the header-only readers: see twkbhdr.go
package main

import (
	"encoding/json"
	"fmt"
	"reflect"
	"sort"
	"strings"

	"github.com/peterstace/simplefeatures/geom"
	"verifharness/lib"
)

// method name -> operation of the neutral answer table (Model/Empty.v: opname)
var opOf = map[string]string{
	"IsEmpty": "OIsEmpty", "Dimension": "ODimension", "Envelope": "OEnvelope", "Area": "OArea", "Length": "OLength",
	"Centroid": "OCentroid", "ConvexHull": "OConvexHull", "Boundary": "OBoundary", "PointOnSurface": "OPointOnSurface",
	"IsSimple": "OIsSimple", "DumpCoordinates": "ODumpCoordinates", "Reverse": "OReverse", "Force2D": "OForce2D",
	"Validate": "OValidate",
	"ForceCW":  "OForceCW", "ForceCCW": "OForceCCW", "IsCW": "OIsCW", "IsCCW": "OIsCCW", "TransformXY": "OTransformXY",
	"Densify": "ODensify", "Simplify": "OSimplify", "SnapToGrid": "OSnapToGrid",
}

// operations of the table whose (non-geometry) arguments do not matter for the neutral answer
var argOps = map[string]bool{"Area": true, "TransformXY": true, "Densify": true, "Simplify": true, "SnapToGrid": true}

// results that depend on the member structure by design (counts, serialisations, positional
// accessors): excluded from the transparency comparison, still checked for panics
var structural = map[string]bool{
	"NumPoints": true, "NumLineStrings": true, "NumPolygons": true, "NumGeometries": true, "NumTotalGeometries": true,
	"Dimension": true, "AsText": true, "AppendWKT": true, "AsBinary": true, "AppendWKB": true, "Value": true,
	"MarshalJSON": true, "String": true, "Summary": true, "PointN": true, "LineStringN": true, "PolygonN": true,
	"GeometryN": true, "Scan": true, "UnmarshalJSON": true, "ExactEquals": true, "ExactEqualsIgnoreOrder": true,
	"MarshalTWKB": true,
	// one Sequence per member / per ring of each member: positional
	"MultiLineString.Coordinates": true, "MultiPolygon.Coordinates": true,
}

var indexAccessor = map[string]string{
	"PointN": "NumPoints", "LineStringN": "NumLineStrings", "PolygonN": "NumPolygons", "GeometryN": "NumGeometries",
	"InteriorRingN": "NumInteriorRings",
}

type argTuple struct {
	args  []reflect.Value
	desc  string
	class string // "ok" or "doc:<documented panic class>"
}

func translate(p geom.XY) geom.XY { return geom.XY{X: p.X + 1, Y: p.Y + 2} }

var unsupported = map[string]bool{}

// argsFor synthesises the argument tuples of a method from its parameter types.
func argsFor(recv reflect.Value, name string, mt reflect.Type) []argTuple {
	nin := mt.NumIn()
	fixed := nin
	if mt.IsVariadic() {
		fixed--
	}
	if fixed == 0 {
		if g, isG := recv.Interface().(geom.Geometry); isG && strings.HasPrefix(name, "MustAs") && name != "MustAs"+g.Type().String() {
			return []argTuple{{nil, "()", "doc:mustas-other-type"}}
		}
		out := []argTuple{{nil, "()", "ok"}}
		if name == "Area" {
			out = append(out, argTuple{[]reflect.Value{reflect.ValueOf(geom.AreaOption(geom.SignedArea))}, "(SignedArea)", "ok"},
				argTuple{[]reflect.Value{reflect.ValueOf(geom.WithTransform(translate))}, "(WithTransform)", "ok"})
		}
		return out
	}
	if fixed != 1 {
		unsupported[name+" "+mt.String()] = true
		return nil
	}
	pt := mt.In(0)
	mk := func(x interface{}, class string) argTuple {
		return argTuple{[]reflect.Value{reflect.ValueOf(x)}, fmt.Sprintf("(%v)", x), class}
	}
	switch {
	case pt.Kind() == reflect.Int:
		if num, ok := indexAccessor[name]; ok {
			cnt := int(recv.MethodByName(num).Call(nil)[0].Int())
			out := []argTuple{mk(cnt, "doc:index-out-of-range"), mk(-1, "doc:index-out-of-range")}
			if cnt > 0 {
				out = append(out, mk(0, "ok"), mk(cnt-1, "ok"))
			}
			return out
		}
		return []argTuple{mk(0, "ok"), mk(2, "ok")}
	case pt.Kind() == reflect.Float64:
		if name == "Densify" {
			return []argTuple{mk(1.0, "ok"), mk(0.5, "ok"), mk(0.0, "doc:densify-nonpositive"), mk(-1.0, "doc:densify-nonpositive")}
		}
		if name == "Simplify" {
			// a negative threshold is outside every contract of Simplify (and of this property:
			// on the pinned tree ramerDouglasPeucker does not terminate for it on non-empty input)
			return []argTuple{mk(0.0, "ok"), mk(0.5, "ok"), mk(1.0, "ok")}
		}
		return []argTuple{mk(0.0, "ok"), mk(0.5, "ok"), mk(1.0, "ok"), mk(2.0, "ok"), mk(-1.0, "ok")}
	case pt == reflect.TypeOf(geom.DimXY):
		return []argTuple{mk(geom.DimXY, "ok"), mk(geom.DimXYZ, "ok"), mk(geom.DimXYM, "ok"), mk(geom.DimXYZM, "ok")}
	case pt.Kind() == reflect.Func:
		return []argTuple{{[]reflect.Value{reflect.ValueOf(translate)}, "(translate)", "ok"}}
	case pt.Kind() == reflect.Slice && pt.Elem().Kind() == reflect.Uint8:
		if name == "UnmarshalJSON" {
			b, err := json.Marshal(recv.Interface())
			if err != nil {
				return nil
			}
			return []argTuple{{[]reflect.Value{reflect.ValueOf(b)}, "(own JSON)", "ok"}}
		}
		return []argTuple{{[]reflect.Value{reflect.ValueOf([]byte(nil))}, "(nil)", "ok"}, {[]reflect.Value{reflect.ValueOf([]byte("x"))}, "(\"x\")", "ok"}}
	case pt.Kind() == reflect.Interface:
		if name == "Scan" {
			g, _ := asGeometry(recv)
			return []argTuple{{[]reflect.Value{reflect.ValueOf(g.AsBinary())}, "(own WKB)", "ok"}}
		}
	}
	unsupported[name+" "+mt.String()] = true
	return nil
}

// invoke calls method name on a copy of recv (through a pointer, so that pointer-receiver methods
// are reachable); for those the updated receiver is appended to the results.
func invoke(recv reflect.Value, name string, args []reflect.Value) []reflect.Value {
	p := reflect.New(recv.Type())
	p.Elem().Set(recv)
	res := p.MethodByName(name).Call(args)
	if _, isVal := recv.Type().MethodByName(name); !isVal {
		res = append(res, p.Elem())
	}
	return res
}

func methodNames(t reflect.Type) []string {
	pt := reflect.PtrTo(t)
	var out []string
	for i := 0; i < pt.NumMethod(); i++ {
		out = append(out, pt.Method(i).Name)
	}
	sort.Strings(out)
	return out
}

// concrete returns the receivers a geometry offers: itself as geom.Geometry and as its concrete type.
func concrete(g geom.Geometry) []reflect.Value {
	out := []reflect.Value{reflect.ValueOf(g)}
	switch g.Type() {
	case geom.TypePoint:
		out = append(out, reflect.ValueOf(g.MustAsPoint()))
	case geom.TypeLineString:
		out = append(out, reflect.ValueOf(g.MustAsLineString()))
	case geom.TypePolygon:
		out = append(out, reflect.ValueOf(g.MustAsPolygon()))
	case geom.TypeMultiPoint:
		out = append(out, reflect.ValueOf(g.MustAsMultiPoint()))
	case geom.TypeMultiLineString:
		out = append(out, reflect.ValueOf(g.MustAsMultiLineString()))
	case geom.TypeMultiPolygon:
		out = append(out, reflect.ValueOf(g.MustAsMultiPolygon()))
	case geom.TypeGeometryCollection:
		out = append(out, reflect.ValueOf(g.MustAsGeometryCollection()))
	}
	return out
}

// ---------------------------------------------------------------------------------------------
// package-level functions

type freeFn struct {
	name  string
	op    string
	arity int
	call  func(a, b geom.Geometry) []reflect.Value
}

func rv(xs ...interface{}) []reflect.Value {
	out := make([]reflect.Value, len(xs))
	for i, x := range xs {
		if x == nil {
			out[i] = reflect.Zero(tErr)
			continue
		}
		out[i] = reflect.ValueOf(x)
	}
	return out
}

func ge(g geom.Geometry, err error) []reflect.Value {
	if err != nil {
		return []reflect.Value{reflect.ValueOf(g), reflect.ValueOf(&err).Elem()}
	}
	return []reflect.Value{reflect.ValueOf(g), reflect.Zero(tErr)}
}
func be(b bool, err error) []reflect.Value {
	if err != nil {
		return []reflect.Value{reflect.ValueOf(b), reflect.ValueOf(&err).Elem()}
	}
	return []reflect.Value{reflect.ValueOf(b), reflect.Zero(tErr)}
}

var freeFns = []freeFn{
	{"Union", "OUnion", 2, func(a, b geom.Geometry) []reflect.Value { return ge(geom.Union(a, b)) }},
	{"Intersection", "OIntersection", 2, func(a, b geom.Geometry) []reflect.Value { return ge(geom.Intersection(a, b)) }},
	{"Difference", "ODifference", 2, func(a, b geom.Geometry) []reflect.Value { return ge(geom.Difference(a, b)) }},
	{"SymmetricDifference", "OSymDiff", 2, func(a, b geom.Geometry) []reflect.Value { return ge(geom.SymmetricDifference(a, b)) }},
	{"UnionMany2", "OUnion", 2, func(a, b geom.Geometry) []reflect.Value { return ge(geom.UnionMany([]geom.Geometry{a, b})) }},
	{"Relate", "ORelate", 2, func(a, b geom.Geometry) []reflect.Value {
		s, err := geom.Relate(a, b)
		if err != nil {
			return []reflect.Value{reflect.ValueOf(s), reflect.ValueOf(&err).Elem()}
		}
		return []reflect.Value{reflect.ValueOf(s), reflect.Zero(tErr)}
	}},
	{"Equals", "OEquals", 2, func(a, b geom.Geometry) []reflect.Value { return be(geom.Equals(a, b)) }},
	{"Disjoint", "ODisjoint", 2, func(a, b geom.Geometry) []reflect.Value { return be(geom.Disjoint(a, b)) }},
	{"Touches", "OTouches", 2, func(a, b geom.Geometry) []reflect.Value { return be(geom.Touches(a, b)) }},
	{"Contains", "OContains", 2, func(a, b geom.Geometry) []reflect.Value { return be(geom.Contains(a, b)) }},
	{"Covers", "OCovers", 2, func(a, b geom.Geometry) []reflect.Value { return be(geom.Covers(a, b)) }},
	{"Within", "OWithin", 2, func(a, b geom.Geometry) []reflect.Value { return be(geom.Within(a, b)) }},
	{"CoveredBy", "OCoveredBy", 2, func(a, b geom.Geometry) []reflect.Value { return be(geom.CoveredBy(a, b)) }},
	{"Crosses", "OCrosses", 2, func(a, b geom.Geometry) []reflect.Value { return be(geom.Crosses(a, b)) }},
	{"Overlaps", "OOverlaps", 2, func(a, b geom.Geometry) []reflect.Value { return be(geom.Overlaps(a, b)) }},
	{"Intersects", "OIntersects", 2, func(a, b geom.Geometry) []reflect.Value { return rv(geom.Intersects(a, b)) }},
	{"Distance", "ODistance", 2, func(a, b geom.Geometry) []reflect.Value {
		d, ok := geom.Distance(a, b)
		return rv(d, ok)
	}},
	{"ExactEquals", "OExactEquals", 2, func(a, b geom.Geometry) []reflect.Value { return rv(geom.ExactEquals(a, b)) }},
	{"ExactEqualsIgnoreOrder", "OExactEquals", 2, func(a, b geom.Geometry) []reflect.Value {
		return rv(geom.ExactEquals(a, b, geom.IgnoreOrder))
	}},
	{"UnaryUnion", "OUnaryUnion", 1, func(a, _ geom.Geometry) []reflect.Value { return ge(geom.UnaryUnion(a)) }},
	{"UnionMany1", "OUnaryUnion", 1, func(a, _ geom.Geometry) []reflect.Value { return ge(geom.UnionMany([]geom.Geometry{a})) }},
	{"RotatedMinimumAreaBoundingRectangle", "OMinAreaRect", 1, func(a, _ geom.Geometry) []reflect.Value {
		return rv(geom.RotatedMinimumAreaBoundingRectangle(a))
	}},
	{"RotatedMinimumWidthBoundingRectangle", "OMinWidthRect", 1, func(a, _ geom.Geometry) []reflect.Value {
		return rv(geom.RotatedMinimumWidthBoundingRectangle(a))
	}},
	{"MarshalTWKB", "-", 1, func(a, _ geom.Geometry) []reflect.Value {
		b, err := geom.MarshalTWKB(a, 0)
		if err != nil {
			return []reflect.Value{reflect.ValueOf(b), reflect.ValueOf(&err).Elem()}
		}
		return []reflect.Value{reflect.ValueOf(b), reflect.Zero(tErr)}
	}},
}

// codecs: encode then decode (without validation: the value must come back as it is)
type codec struct {
	name string
	op   string
	rt   func(g geom.Geometry) []reflect.Value
}

var codecs = []codec{
	{"WKB", "OWKB", func(g geom.Geometry) []reflect.Value { return ge(geom.UnmarshalWKB(g.AsBinary(), geom.NoValidate{})) }},
	{"WKT", "OWKT", func(g geom.Geometry) []reflect.Value { return ge(geom.UnmarshalWKT(g.AsText(), geom.NoValidate{})) }},
	{"GeoJSON", "OGeoJSON", func(g geom.Geometry) []reflect.Value {
		b, err := g.MarshalJSON()
		if err != nil {
			return ge(geom.Geometry{}, err)
		}
		return ge(geom.UnmarshalGeoJSON(b, geom.NoValidate{}))
	}},
	{"TWKB", "OTWKB", func(g geom.Geometry) []reflect.Value {
		b, err := geom.MarshalTWKB(g, 0)
		if err != nil {
			return ge(geom.Geometry{}, err)
		}
		return ge(geom.UnmarshalTWKB(b, geom.NoValidate{}))
	}},
}

// ---------------------------------------------------------------------------------------------

type emitter struct {
	w      interface{ WriteString(string) (int, error) }
	n      int
	counts map[string]int
}

func (e *emitter) line(fields ...string) {
	e.n++
	e.w.WriteString(fmt.Sprintf("c%d\t", e.n) + strings.Join(fields, "\t") + "\n")
}

func (e *emitter) call(kind, recv, method, op, which, tm, argdesc, dumpA, dumpB, out1, out2, cmp string) {
	e.counts["kind_"+kind]++
	e.line("C", kind, recv, method, op, which, tm, argdesc, dumpA, dumpB, out1, out2, cmp)
}

func tmOf(name string) string {
	if structural[name] || structural[strings.TrimPrefix(name, "*")] {
		return "x"
	}
	return "t"
}

func opName(name string) string {
	if o, ok := opOf[name]; ok {
		return o
	}
	return "-"
}

// explicitEmpty: the empty value of the same type built through the public constructors.
func explicitEmpty(zero reflect.Value) reflect.Value {
	switch zero.Interface().(type) {
	case geom.Geometry:
		return reflect.ValueOf(geom.NewGeometryCollection(nil).AsGeometry())
	case geom.Point:
		return reflect.ValueOf(geom.NewEmptyPoint(geom.DimXY))
	case geom.LineString:
		return reflect.ValueOf(geom.NewLineString(geom.NewSequence(nil, geom.DimXY)))
	case geom.Polygon:
		return reflect.ValueOf(geom.NewPolygon(nil))
	case geom.MultiPoint:
		return reflect.ValueOf(geom.NewMultiPoint(nil))
	case geom.MultiLineString:
		return reflect.ValueOf(geom.NewMultiLineString(nil))
	case geom.MultiPolygon:
		return reflect.ValueOf(geom.NewMultiPolygon(nil))
	default:
		return reflect.ValueOf(geom.NewGeometryCollection(nil))
	}
}

func whichOf(ea, eb bool) string {
	switch {
	case ea && eb:
		return "WBoth"
	case ea:
		return "WLeft"
	case eb:
		return "WRight"
	}
	return "WNone"
}

func main() {
	a := lib.ParseArgs()
	w, done := a.Output()
	defer done()
	root := lib.NewRng(a.Seed)
	em := &emitter{w: w, counts: map[string]int{}}
	thorough := a.Tier == "thorough"

	zeros := []reflect.Value{
		reflect.ValueOf(geom.Geometry{}), reflect.ValueOf(geom.Point{}), reflect.ValueOf(geom.LineString{}),
		reflect.ValueOf(geom.Polygon{}), reflect.ValueOf(geom.MultiPoint{}), reflect.ValueOf(geom.MultiLineString{}),
		reflect.ValueOf(geom.MultiPolygon{}), reflect.ValueOf(geom.GeometryCollection{}),
	}

	// unary methods on one receiver; base (optional) is the receiver the outcome is compared with
	unary := func(kind string, recv reflect.Value, base *reflect.Value, dumpA string) {
		tname := recv.Type().Name()
		for _, name := range methodNames(recv.Type()) {
			m, _ := reflect.PtrTo(recv.Type()).MethodByName(name)
			mt := m.Type
			// drop the receiver from the signature
			ins := make([]reflect.Type, 0, mt.NumIn())
			for i := 1; i < mt.NumIn(); i++ {
				ins = append(ins, mt.In(i))
			}
			outs := make([]reflect.Type, mt.NumOut())
			for i := range outs {
				outs[i] = mt.Out(i)
			}
			sig := reflect.FuncOf(ins, outs, mt.IsVariadic())
			for _, at := range argsFor(recv, name, sig) {
				at := at
				o1 := run(func() []reflect.Value { return invoke(recv, name, at.args) })
				k := kind
				if strings.HasPrefix(at.class, "doc:") {
					em.call("D", tname, name, "-", "-", "x", at.class+at.desc, dumpA, "-", o1.text, "-", "-")
					continue
				}
				if _, isIdx := indexAccessor[name]; isIdx {
					// in-range positional access: only "no panic" (the index means something else on the base)
					em.call("U", tname, name, "-", "-", "x", at.desc, dumpA, "-", o1.text, "-", "-")
					continue
				}
				switch k {
				case "Z", "T":
					o2 := run(func() []reflect.Value { return invoke(*base, name, at.args) })
					tm := tmOf(name)
					if structural[tname+"."+name] {
						tm = "x"
					}
					em.call(k, tname, name, opName(name), "WBoth", tm, at.desc, dumpA, "-", o1.text, o2.text, geomVerdict(o1, o2))
				case "N":
					op := opName(name)
					if op == "-" || (at.desc != "()" && !argOps[name]) {
						em.call("U", tname, name, "-", "-", "x", at.desc, dumpA, "-", o1.text, "-", "-")
					} else {
						em.call("N", tname, name, op, "WBoth", "x", at.desc, dumpA, "-", o1.text, "-", "-")
					}
				}
			}
		}
	}

	// ---------------------------------------------------------------- Z: zero values
	for _, z := range zeros {
		ex := explicitEmpty(z)
		zg, _ := asGeometry(z)
		unary("Z", z, &ex, idump(lib.NodeOf(zg)))
	}
	// the zero Geometry in both positions of every package-level function, against the explicit empty collection
	zeroG := geom.Geometry{}
	explG := geom.GeometryCollection{}.AsGeometry()
	others := []*lib.Node{
		empNode(geom.DimXY, Emp{K: "Pt"}), empNode(geom.DimXYZ, Emp{K: "MPg", N: 1}),
		genBase(root.Fork(), geom.DimXY, lib.KPoly, 1, 0), genBase(root.Fork(), geom.DimXY, lib.KColl, 2, 0),
	}
	for _, f := range freeFns {
		f := f
		if f.arity == 1 {
			o1 := run(func() []reflect.Value { return f.call(zeroG, zeroG) })
			o2 := run(func() []reflect.Value { return f.call(explG, explG) })
			em.call("Z", "func", f.name, f.op, "WBoth", tmOf(f.name), "(Geometry{})", "GC 0 0", "-", o1.text, o2.text, geomVerdict(o1, o2))
			continue
		}
		pairs := [][2]geom.Geometry{{zeroG, zeroG}}
		pairsE := [][2]geom.Geometry{{explG, explG}}
		descs := []string{"(Geometry{},Geometry{})"}
		for _, on := range others {
			og := on.Build()
			pairs = append(pairs, [2]geom.Geometry{zeroG, og}, [2]geom.Geometry{og, zeroG})
			pairsE = append(pairsE, [2]geom.Geometry{explG, og}, [2]geom.Geometry{og, explG})
			descs = append(descs, "(Geometry{},"+og.AsText()+")", "("+og.AsText()+",Geometry{})")
		}
		for i := range pairs {
			p, pe := pairs[i], pairsE[i]
			o1 := run(func() []reflect.Value { return f.call(p[0], p[1]) })
			o2 := run(func() []reflect.Value { return f.call(pe[0], pe[1]) })
			em.call("Z", "func", f.name, f.op, "-", "t", esc(descs[i]), "-", "-", o1.text, o2.text, geomVerdict(o1, o2))
		}
	}

	// ---------------------------------------------------------------- N: all-empty receivers and operands
	extra := 12
	if thorough {
		extra = 200
	}
	pool := emptyPool(root.Fork(), extra)
	for _, n := range pool {
		g := n.Build()
		d := idump(n)
		for _, r := range concrete(g) {
			unary("N", r, nil, d)
		}
		for _, c := range codecs {
			c := c
			o := run(func() []reflect.Value { return c.rt(g) })
			em.call("K", "func", c.name, c.op, "WBoth", "x", "()", d, "-", o.text, "-", "-")
		}
		for _, f := range freeFns {
			f := f
			if f.arity != 1 {
				continue
			}
			o := run(func() []reflect.Value { return f.call(g, g) })
			kind := "N"
			if f.op == "-" {
				kind = "U"
			}
			em.call(kind, "func", f.name, f.op, "WBoth", "x", "()", d, "-", o.text, "-", "-")
		}
	}
	// non-empty partners (valid lattice geometries, with and without inserted empties)
	origins := originPartners()
	noncanon := nonCanonical()
	nb := a.N
	type mixed struct {
		base, ins *lib.Node
		plan      *Plan
		class     string
		partners  []*lib.Node // extra second operands chosen for this geometry
		hdrOnly   bool        // only the G line and the TWKB header lines (no reflective enumeration)
	}
	var mixes []mixed
	addMix := func(base *lib.Node, p *Plan, class string, partners ...*lib.Node) {
		mixes = append(mixes, mixed{base, insertEmpties(base, p), p, class, partners, false})
	}
	// collections whose Dimension() is raised by an inserted empty member, against partners that
	// overlap / cross / equal the base (the dimension switch of Crosses and Overlaps, the closed form of Relate)
	lineN := func(ct geom.CoordinatesType, xs ...int) *lib.Node {
		n := &lib.Node{Kind: lib.KLine, CT: ct}
		for i := 0; i+1 < len(xs); i += 2 {
			n.C = append(n.C, [4]float64{float64(xs[i]), float64(xs[i+1]), 0, 0})
		}
		return n
	}
	ptN := func(ct geom.CoordinatesType, x, y int) *lib.Node {
		return &lib.Node{Kind: lib.KPoint, CT: ct, Full: true, C: [][4]float64{{float64(x), float64(y), 0, 0}}}
	}
	reps := 3
	if thorough {
		reps = 40
	}
	for i := 0; i < reps; i++ {
		r := root.Fork()
		x, y, dx, dy := r.Range(0, 5), r.Range(0, 5), r.Range(1, 3), r.Range(0, 3)
		ct := geom.DimXY
		ln := lineN(ct, x, y, x+2*dx, y+2*dy)
		overl := lineN(ct, x+dx, y+dy, x+3*dx, y+3*dy)             // collinear, overlapping half of ln
		cross := lineN(ct, x+dx-dy-1, y+dy+dx, x+dx+dy+1, y+dy-dx) // crosses ln at its midpoint (unless degenerate)
		for _, e := range []Emp{{K: "Pg"}, {K: "MPg", N: 1}, {K: "GC", Ms: []Emp{{K: "Pg"}}}} {
			base := &lib.Node{Kind: lib.KColl, CT: ct, Kids: []*lib.Node{cloneNode(ln)}}
			addMix(base, &Plan{Here: []Ins{{Pos: r.Intn(2), E: e}}}, "dimension-raising", overl, cross, cloneNode(ln))
		}
		mp := &lib.Node{Kind: lib.KMPoint, CT: ct, Kids: []*lib.Node{ptN(ct, x, y), ptN(ct, x+dx, y+dy)}}
		mq := &lib.Node{Kind: lib.KMPoint, CT: ct, Kids: []*lib.Node{ptN(ct, x+dx, y+dy), ptN(ct, x+7, y+1)}}
		for _, e := range []Emp{{K: "Ln"}, {K: "Pg"}, {K: "MLn", N: 2}} {
			base := &lib.Node{Kind: lib.KColl, CT: ct, Kids: []*lib.Node{cloneNode(mp)}}
			addMix(base, &Plan{Here: []Ins{{Pos: r.Intn(2), E: e}}}, "dimension-raising", mq, overl, cloneNode(mp))
		}
	}
	// the same INSIDE a nested collection: the nested child holds all the content of the highest non-empty
	// dimension, and the empty member of strictly higher dimension is inserted into that child (so the
	// child's own Dimension() is raised while the flattened dimension of the whole tree is not); and empty
	// areal members in front of / between non-empty areal members of a collection (per-member bookkeeping
	// such as saved areas or member indices must skip them consistently)
	for i := 0; i < reps; i++ {
		r := root.Fork()
		x, y, dx, dy := r.Range(1, 5), r.Range(1, 5), r.Range(1, 3), r.Range(0, 3)
		ct := geom.DimXY
		coll := func(kids ...*lib.Node) *lib.Node { return &lib.Node{Kind: lib.KColl, CT: ct, Kids: kids} }
		nested := func(e Emp, pos int) *Plan { return &Plan{Kids: []*Plan{{Here: []Ins{{Pos: pos, E: e}}}}} }
		mp := &lib.Node{Kind: lib.KMPoint, CT: ct, Kids: []*lib.Node{ptN(ct, x, y), ptN(ct, x+dx, y+dy)}}
		for _, e := range []Emp{{K: "Ln"}, {K: "Pg"}, {K: "MLn", N: 1}} {
			base := coll(coll(ptN(ct, x, y)))
			if r.Bool() {
				base = coll(coll(cloneNode(mp)))
			}
			addMix(base, nested(e, r.Intn(2)), "nested-dimension-raising", cloneNode(mp))
		}
		ln := lineN(ct, x, y, x+2*dx, y+2*dy)
		for _, e := range []Emp{{K: "Pg"}, {K: "MPg", N: 1}, {K: "GC", Ms: []Emp{{K: "Pg"}}}} {
			base := coll(coll(cloneNode(ln)), ptN(ct, x+9, y+1))
			if r.Bool() {
				base = coll(coll(ptN(ct, x+9, y), cloneNode(ln)), ptN(ct, x+9, y+1))
			}
			addMix(base, nested(e, r.Intn(2)), "nested-dimension-raising", cloneNode(ln))
		}
		sq := func(ox, w int) *lib.Node {
			return &lib.Node{Kind: lib.KPoly, CT: ct, Kids: []*lib.Node{ring(r, ct, [][2]int{{ox, y}, {ox + w, y}, {ox + w, y + w}, {ox, y + w}})}}
		}
		for _, e := range []Emp{{K: "Pg"}, {K: "MPg"}, {K: "MPg", N: 1}, {K: "GC", Ms: []Emp{{K: "Pg"}}}} {
			base := coll(sq(10+x, 4), sq(20+x, 2+dx))
			addMix(base, &Plan{Here: []Ins{{Pos: r.Intn(2), E: e}}}, "empty-areal-before-areal")
		}
	}
	// every position x every shape on a few small bases of each container kind
	for _, k := range []lib.Kind{lib.KMPoint, lib.KMLine, lib.KMPoly, lib.KColl} {
		reps := 1
		if thorough {
			reps = 4
		}
		for i := 0; i < reps; i++ {
			r := root.Fork()
			base := genBase(r, allCT[r.Intn(4)], k, 2, 0)
			for _, p := range everyPositionPlans(base) {
				addMix(base, p, "every-position")
			}
		}
	}
	// the origin: an empty Point stores zero ordinates, so every base is also run against partners
	// located exactly at (0 0), in both argument orders, with empties inserted at every position
	for _, base := range originBases() {
		for _, p := range everyPositionPlans(base) {
			addMix(base, p, "origin", origins...)
		}
		// a nested plan as well: an empty MultiPoint member holding empty points, next to the base's members
		if base.Kind == lib.KColl {
			addMix(base, &Plan{Here: []Ins{{Pos: 0, E: Emp{K: "MPt", N: 2}}}, Kids: []*Plan{{Here: []Ins{{Pos: 0, E: Emp{K: "Pt"}}}}}}, "origin", origins...)
		}
	}
	for i := 0; i < nb; i++ {
		r := root.Fork()
		k := lib.Kind(3 + r.Intn(4))
		base := genBase(r, allCT[r.Intn(4)], k, 3, 0)
		addMix(base, genPlan(r, base, true), "random-plan")
	}
	nReflective := len(mixes)
	// away from zero: envelopes that exclude 0 in X, Y, Z and M, empties at every position of every
	// container at every depth (TWKB header lines only)
	{
		r := lib.NewRng(a.Seed ^ 0xC20B0B) // a stream of its own: the draws of the other classes stay as they were
		for _, base := range awayBases(r, thorough) {
			for _, p := range everyPositionPlansDeep(base) {
				mixes = append(mixes, mixed{base, insertEmpties(base, p), p, "away-from-zero", nil, true})
			}
		}
	}
	// both operands empty / one operand empty
	nonEmpties := []*lib.Node{}
	for i := 0; i < 6; i++ {
		r := root.Fork()
		nonEmpties = append(nonEmpties, genBase(r, geom.DimXY, lib.Kind(i), 2, 0))
	}
	for i := 0; i < 6 && i < nReflective; i++ {
		nonEmpties = append(nonEmpties, mixes[nReflective-1-i].ins)
	}
	prng := root.Fork()
	for i, na := range pool {
		ga := na.Build()
		da := idump(na)
		partners := []*lib.Node{pool[(i*7+3)%len(pool)], pool[prng.Intn(len(pool))], pool[prng.Intn(len(pool))]}
		if thorough {
			for j := 0; j < 8; j++ {
				partners = append(partners, pool[prng.Intn(len(pool))])
			}
		}
		for _, nbn := range partners {
			gb := nbn.Build()
			for _, f := range freeFns {
				f := f
				if f.arity != 2 {
					continue
				}
				o := run(func() []reflect.Value { return f.call(ga, gb) })
				em.call("N", "func", f.name, f.op, "WBoth", "x", "(E,E)", da, idump(nbn), o.text, "-", "-")
			}
		}
		oneEmpty := []*lib.Node{nonEmpties[prng.Intn(len(nonEmpties))]}
		// partners at the origin: all of them in the thorough tier, a rotating selection of 4 otherwise
		if thorough {
			oneEmpty = append(oneEmpty, origins...)
		} else {
			for j := 0; j < 4; j++ {
				oneEmpty = append(oneEmpty, origins[(i+j*5)%len(origins)])
			}
		}
		// non-canonical partners (self-union differs structurally from the operand): a rotating 3, all in thorough
		if thorough {
			oneEmpty = append(oneEmpty, noncanon...)
		} else {
			for j := 0; j < 3; j++ {
				oneEmpty = append(oneEmpty, noncanon[(i+j*3)%len(noncanon)])
			}
		}
		for _, ne := range oneEmpty {
			gn := ne.Build()
			dn := idump(ne)
			// the self-union of the other operand, for the rows of the table that name it
			uu := run(func() []reflect.Value { return ge(geom.UnaryUnion(gn)) })
			for _, f := range freeFns {
				f := f
				if f.arity != 2 {
					continue
				}
				o := run(func() []reflect.Value { return f.call(ga, gn) })
				em.call("N", "func", f.name, f.op, "WLeft", "x", "(E,G)", da, dn, o.text, uu.text, structVerdict(o, uu))
				o = run(func() []reflect.Value { return f.call(gn, ga) })
				em.call("N", "func", f.name, f.op, "WRight", "x", "(G,E)", dn, da, o.text, uu.text, structVerdict(o, uu))
			}
		}
	}

	// ---------------------------------------------------------------- T: transparency
	for _, mx := range mixes {
		gi, gb := mx.ins.Build(), mx.base.Build()
		em.counts["class_"+mx.class]++
		em.counts["root_"+lib.KindTag[mx.base.Kind]]++
		envS := "empty"
		if mn, ok1 := gi.Envelope().Min().XY(); ok1 {
			if mxy, ok2 := gi.Envelope().Max().XY(); ok2 {
				envS = fmt.Sprintf("%g %g %g %g", mn.X, mn.Y, mxy.X, mxy.Y)
			}
		}
		em.line("G", mx.class, idump(mx.base), mx.plan.String(), idump(mx.ins),
			fmt.Sprint(gi.IsEmpty()), fmt.Sprint(gi.Dimension()), fmt.Sprint(gb.IsEmpty()), fmt.Sprint(gb.Dimension()),
			envS, fmt.Sprintf("%g", 2*gi.Area()))
		di := idump(mx.ins)
		emitTWKBHeaders(em, mx.base, mx.ins)
		if mx.hdrOnly {
			continue
		}
		ri, rb := concrete(gi), concrete(gb)
		for j := range ri {
			unary("T", ri[j], &rb[j], di)
		}
		for _, f := range freeFns {
			f := f
			if f.arity != 1 {
				continue
			}
			o1 := run(func() []reflect.Value { return f.call(gi, gi) })
			o2 := run(func() []reflect.Value { return f.call(gb, gb) })
			em.call("T", "func", f.name, f.op, "-", tmOf(f.name), "(G')", di, "-", o1.text, o2.text, geomVerdict(o1, o2))
		}
		for _, c := range codecs[:2] {
			c := c
			o := run(func() []reflect.Value { return c.rt(gi) })
			em.call("R", "func", c.name, c.op, "-", "x", "(G')", di, "-", o.text, "g:"+lib.Dump(gi)+"|e:nil", "-")
		}
		// binary: against an empty, a non-empty, and another mixed geometry, in both positions
		r := root.Fork()
		partners := []*lib.Node{pool[r.Intn(len(pool))], nonEmpties[r.Intn(len(nonEmpties))]}
		partners = append(partners, mx.partners...)
		for _, pn := range partners {
			gp := pn.Build()
			dp := idump(pn)
			for _, f := range freeFns {
				f := f
				if f.arity != 2 {
					continue
				}
				o1 := run(func() []reflect.Value { return f.call(gi, gp) })
				o2 := run(func() []reflect.Value { return f.call(gb, gp) })
				em.call("T", "func", f.name, f.op, "-", tmOf(f.name), "(G',H)", di, dp, o1.text, o2.text, geomVerdict(o1, o2))
				o1 = run(func() []reflect.Value { return f.call(gp, gi) })
				o2 = run(func() []reflect.Value { return f.call(gp, gb) })
				em.call("T", "func", f.name, f.op, "-", tmOf(f.name), "(H,G')", dp, di, o1.text, o2.text, geomVerdict(o1, o2))
			}
		}
	}

	// ---------------------------------------------------------------- constructors
	ctor := func(name, class string, f func() []reflect.Value) {
		o := run(f)
		kind := "U"
		if class != "ok" {
			kind = "D"
		}
		em.call(kind, "ctor", name, "-", "-", "x", class, "-", "-", o.text, "-", "-")
	}
	for _, ct := range allCT {
		ct := ct
		ctor("NewSequence(nil)", "ok", func() []reflect.Value { return rv(geom.NewLineString(geom.NewSequence(nil, ct))) })
		ctor("NewEmptyPoint", "ok", func() []reflect.Value { return rv(geom.NewEmptyPoint(ct)) })
		ctor("NewSequence(3 floats)", "doc:sequence-length", func() []reflect.Value {
			return rv(geom.NewSequence([]float64{1, 2, 3, 4, 5, 6, 7, 8, 9, 10, 11, 12, 13}[:ct.Dimension()+1], ct))
		})
	}
	ctor("NewLineStringXY()", "ok", func() []reflect.Value { return rv(geom.NewLineStringXY()) })
	ctor("NewLineStringXYZ()", "ok", func() []reflect.Value { return rv(geom.NewLineStringXYZ()) })
	ctor("NewLineStringXYM()", "ok", func() []reflect.Value { return rv(geom.NewLineStringXYM()) })
	ctor("NewLineStringXYZM()", "ok", func() []reflect.Value { return rv(geom.NewLineStringXYZM()) })
	ctor("NewPolygonXY()", "ok", func() []reflect.Value { return rv(geom.NewPolygonXY()) })
	ctor("NewPolygonXYZ()", "ok", func() []reflect.Value { return rv(geom.NewPolygonXYZ()) })
	ctor("NewSingleRingPolygonXY()", "ok", func() []reflect.Value { return rv(geom.NewSingleRingPolygonXY()) })
	ctor("NewMultiPointXY()", "ok", func() []reflect.Value { return rv(geom.NewMultiPointXY()) })
	ctor("NewMultiPointXYZM()", "ok", func() []reflect.Value { return rv(geom.NewMultiPointXYZM()) })
	ctor("NewMultiLineStringXY()", "ok", func() []reflect.Value { return rv(geom.NewMultiLineStringXY()) })
	ctor("NewMultiLineStringXY([])", "ok", func() []reflect.Value { return rv(geom.NewMultiLineStringXY([]float64{})) })
	ctor("NewMultiPolygonXY()", "ok", func() []reflect.Value { return rv(geom.NewMultiPolygonXY()) })
	ctor("NewMultiPolygonXY([])", "ok", func() []reflect.Value { return rv(geom.NewMultiPolygonXY([][]float64{})) })
	ctor("NewMultiPoint(nil)", "ok", func() []reflect.Value { return rv(geom.NewMultiPoint(nil)) })
	ctor("NewMultiPoint([Point{}])", "ok", func() []reflect.Value { return rv(geom.NewMultiPoint([]geom.Point{{}})) })
	ctor("NewMultiLineString(nil)", "ok", func() []reflect.Value { return rv(geom.NewMultiLineString(nil)) })
	ctor("NewMultiLineString([LineString{}])", "ok", func() []reflect.Value { return rv(geom.NewMultiLineString([]geom.LineString{{}})) })
	ctor("NewMultiPolygon(nil)", "ok", func() []reflect.Value { return rv(geom.NewMultiPolygon(nil)) })
	ctor("NewMultiPolygon([Polygon{}])", "ok", func() []reflect.Value { return rv(geom.NewMultiPolygon([]geom.Polygon{{}})) })
	ctor("NewPolygon(nil)", "ok", func() []reflect.Value { return rv(geom.NewPolygon(nil)) })
	ctor("NewGeometryCollection(nil)", "ok", func() []reflect.Value { return rv(geom.NewGeometryCollection(nil)) })
	ctor("NewGeometryCollection([Geometry{}])", "ok", func() []reflect.Value {
		return rv(geom.NewGeometryCollection([]geom.Geometry{{}}))
	})
	ctor("NewEnvelope()", "ok", func() []reflect.Value { return rv(geom.NewEnvelope()) })
	ctor("UnionMany(nil)", "ok", func() []reflect.Value { return ge(geom.UnionMany(nil)) })
	ctor("NewLineStringXY(1,2,3)", "doc:sequence-length", func() []reflect.Value { return rv(geom.NewLineStringXY(1, 2, 3)) })
	ctor("NewLineStringXYZ(1,2)", "doc:sequence-length", func() []reflect.Value { return rv(geom.NewLineStringXYZ(1, 2)) })
	ctor("NewMultiPointXY(1)", "doc:sequence-length", func() []reflect.Value { return rv(geom.NewMultiPointXY(1)) })
	ctor("NewPolygonXY([1])", "doc:sequence-length", func() []reflect.Value { return rv(geom.NewPolygonXY([]float64{1})) })
	ctor("NewSingleRingPolygonXYZ(1,2)", "doc:sequence-length", func() []reflect.Value { return rv(geom.NewSingleRingPolygonXYZ(1, 2)) })

	// ---------------------------------------------------------------- distribution
	gen := map[string]interface{}{"counts": em.counts, "lines": em.n, "empties_pool": len(pool), "mixed_geometries": len(mixes)}
	var us []string
	for k := range unsupported {
		us = append(us, k)
	}
	sort.Strings(us)
	gen["unsupported_signatures"] = us
	var st []string
	for k := range structural {
		st = append(st, k)
	}
	sort.Strings(st)
	gen["structure_dependent_methods_not_compared"] = st
	b, _ := json.Marshal(gen)
	w.WriteString("#GEN\t" + string(b) + "\n")
}
