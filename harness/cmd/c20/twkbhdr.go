package main

// TWKB header options on geometries with empty members (property C20, clause "empty members are
// transparent to the envelope as reported by the encoder").
//
// For a geometry G' (= base G with typed empty members inserted) and every subset of the header
// options {TWKBBoundingBoxHeader, TWKBSizeHeader, TWKBIDList} (the ID list only where it is legal:
// Multi* and collections, one ID per member, empty members included), at several precisions, the
// document MarshalTWKB produces is read back with the library's own header-only readers
// (UnmarshalTWKBEnvelope, UnmarshalTWKBSize, UnmarshalTWKBIDList) and with UnmarshalTWKB, once for
// G' and once for G. One H line per (geometry, option set):
//
//	id C H func MarshalTWKB - - t <opts> <idump G'> <idump G> <obs G'> <obs G> -
//
// obs = "m=ok;len=<bytes>;size=<-|n>;bbox=<-|xy:minx,miny,maxx,maxy/z:min,max/m:min,max>;
// ids=<-|a,b,..>;given=<-|a,b,..>;env=<empty|minx,miny,maxx,maxy>;rt=<eq|ne..>" or "m=err" or
// "!panic:..". The driver demands: bbox(G') = bbox(G) (transparency), bbox = the specification of
// C07 evaluated by the extracted model on the dump (per wire dimension min/max over all vertices:
// X Y [Z] [M]), its XY part = Envelope() of the library, size = len, ids = given, the payload
// decodes to G up to empty members; "m=err" only for the class TWKB cannot carry (an empty Point
// inside a non-empty MultiPoint).
//
// All ordinates are small integers and the precisions are >= 0, so quantisation is exact and the
// announced box must equal the envelope itself.

import (
	"fmt"
	"strings"

	"github.com/peterstace/simplefeatures/geom"
	"verifharness/lib"
)

type twkbOpt struct {
	prec   int
	pz, pm int // -1: option not given
	bbox   bool
	size   bool
	ids    bool
}

func (o twkbOpt) String() string {
	parts := []string{fmt.Sprintf("prec=%d", o.prec)}
	if o.pz >= 0 {
		parts = append(parts, fmt.Sprintf("pz=%d", o.pz))
	}
	if o.pm >= 0 {
		parts = append(parts, fmt.Sprintf("pm=%d", o.pm))
	}
	if o.bbox {
		parts = append(parts, "bbox")
	}
	if o.size {
		parts = append(parts, "size")
	}
	if o.ids {
		parts = append(parts, "ids")
	}
	return "(" + strings.Join(parts, ",") + ")"
}

func isContainer(k lib.Kind) bool {
	return k == lib.KMPoint || k == lib.KMLine || k == lib.KMPoly || k == lib.KColl
}

// idsFor: one ID per member of the root (what MarshalTWKB demands), negative and positive values.
func idsFor(n *lib.Node) []int64 {
	out := make([]int64, len(n.Kids))
	for i := range out {
		out[i] = int64(i*7 - 3)
	}
	return out
}

func i64s(l []int64) string {
	parts := make([]string, len(l))
	for i, v := range l {
		parts[i] = fmt.Sprintf("%d", v)
	}
	return strings.Join(parts, ",")
}

// twkbHdrObs marshals the geometry of n with the options of o and reads every header back.
func twkbHdrObs(n *lib.Node, g geom.Geometry, o twkbOpt, ref geom.Geometry) (s string) {
	defer func() {
		if r := recover(); r != nil {
			s = "!panic:" + esc(fmt.Sprint(r))
		}
	}()
	var opts []geom.TWKBWriterOption
	if o.pz >= 0 {
		opts = append(opts, geom.TWKBPrecisionZ(o.pz))
	}
	if o.pm >= 0 {
		opts = append(opts, geom.TWKBPrecisionM(o.pm))
	}
	if o.bbox {
		opts = append(opts, geom.TWKBBoundingBoxHeader())
	}
	if o.size {
		opts = append(opts, geom.TWKBSizeHeader())
	}
	given := "-"
	if o.ids {
		ids := idsFor(n)
		opts = append(opts, geom.TWKBIDList(ids))
		given = i64s(ids)
	}
	b, err := geom.MarshalTWKB(g, o.prec, opts...)
	if err != nil {
		return "m=err"
	}
	parts := []string{"m=ok", fmt.Sprintf("len=%d", len(b))}

	sz, ok, err := geom.UnmarshalTWKBSize(b)
	switch {
	case err != nil:
		parts = append(parts, "size=ERR")
	case !ok:
		parts = append(parts, "size=-")
	default:
		parts = append(parts, fmt.Sprintf("size=%d", sz))
	}

	ee, ok, err := geom.UnmarshalTWKBEnvelope(b)
	switch {
	case err != nil:
		parts = append(parts, "bbox=ERR")
	case !ok:
		parts = append(parts, "bbox=-")
	default:
		bb := "xy:-"
		if mn, mx, okXY := ee.XYEnvelope.MinMaxXYs(); okXY {
			bb = fmt.Sprintf("xy:%g,%g,%g,%g", mn.X, mn.Y, mx.X, mx.Y)
		}
		if lo, hi, okZ := ee.ZRange.MinMax(); okZ {
			bb += fmt.Sprintf("/z:%g,%g", lo, hi)
		} else {
			bb += "/z:-"
		}
		if lo, hi, okM := ee.MRange.MinMax(); okM {
			bb += fmt.Sprintf("/m:%g,%g", lo, hi)
		} else {
			bb += "/m:-"
		}
		parts = append(parts, "bbox="+bb)
	}

	ids, ok, err := geom.UnmarshalTWKBIDList(b)
	switch {
	case err != nil:
		parts = append(parts, "ids=ERR")
	case !ok:
		parts = append(parts, "ids=-")
	default:
		parts = append(parts, "ids="+i64s(ids))
	}
	parts = append(parts, "given="+given)

	env := "empty"
	if mn, mx, okE := g.Envelope().MinMaxXYs(); okE {
		env = fmt.Sprintf("%g,%g,%g,%g", mn.X, mn.Y, mx.X, mx.Y)
	}
	parts = append(parts, "env="+env)

	dec, err := geom.UnmarshalTWKB(b, geom.NoValidate{})
	if err != nil {
		parts = append(parts, "rt=ERR")
	} else {
		parts = append(parts, "rt="+strings.ReplaceAll(sameGeom(dec, ref), ";", ","))
	}
	return strings.Join(parts, ";")
}

// twkbOptSets: every subset of {bbox, size, ids} at precision 0, and the subsets with the bounding
// box again at other precisions (XY and separately Z / M).
func twkbOptSets(n *lib.Node) []twkbOpt {
	var out []twkbOpt
	withIDs := isContainer(n.Kind)
	for m := 0; m < 8; m++ {
		o := twkbOpt{prec: 0, pz: -1, pm: -1, bbox: m&1 != 0, size: m&2 != 0, ids: m&4 != 0}
		if o.ids && !withIDs {
			continue
		}
		out = append(out, o)
	}
	out = append(out,
		twkbOpt{prec: 2, pz: -1, pm: -1, bbox: true},
		twkbOpt{prec: 1, pz: 3, pm: 0, bbox: true, size: true},
		twkbOpt{prec: 0, pz: 0, pm: 2, bbox: true, ids: withIDs},
	)
	return out
}

// emitTWKBHeaders prints the H lines of one geometry with inserted empties.
func emitTWKBHeaders(em *emitter, base, ins *lib.Node) {
	gb, gi := base.Build(), ins.Build()
	db, di := idump(base), idump(ins)
	for _, o := range twkbOptSets(base) {
		o1 := twkbHdrObs(ins, gi, o, gb)
		o2 := twkbHdrObs(base, gb, o, gb)
		em.call("H", "func", "MarshalTWKB", "-", "-", "t", o.String(), di, db, o1, o2, "-")
	}
}

// ---------------------------------------------------------------------------------------------
// the class "away-from-zero": bases whose envelope excludes 0 in X, Y, Z and M (a box that was
// seeded with, or merged with, a never-written all-zero box shows), in every sign pattern, all
// four coordinate types, Multi* at top level and inside (nested) collections; plans: every
// position x every shape at the root, every position of every container member, and two
// empties in front.

type awaySign struct{ sx, sy, sz, sm int }

func awayVtx(r *lib.Rng, ct geom.CoordinatesType, s awaySign, band int) [4]float64 {
	// |x| in [5+10*band, 12+10*band], |y| in [4, 11], |z| in [2, 6], |m| in [1, 5]
	v := [4]float64{float64(s.sx * (5 + 10*band + r.Intn(8))), float64(s.sy * (4 + r.Intn(8))), 0, 0}
	if ct.Is3D() {
		v[2] = float64(s.sz * (2 + r.Intn(5)))
	}
	if ct.IsMeasured() {
		v[3] = float64(s.sm * (1 + r.Intn(5)))
	}
	return v
}

func awayPoint(r *lib.Rng, ct geom.CoordinatesType, s awaySign, band int) *lib.Node {
	return &lib.Node{Kind: lib.KPoint, CT: ct, Full: true, C: [][4]float64{awayVtx(r, ct, s, band)}}
}

func awayLine(r *lib.Rng, ct geom.CoordinatesType, s awaySign, band int) *lib.Node {
	n := &lib.Node{Kind: lib.KLine, CT: ct}
	k := r.Range(2, 3)
	for i := 0; i < k; i++ {
		n.C = append(n.C, awayVtx(r, ct, s, band))
	}
	if n.C[0][0] == n.C[1][0] && n.C[0][1] == n.C[1][1] {
		n.C[1][1] += float64(s.sy)
	}
	return n
}

// a right triangle or rectangle inside the band, Z and M drawn per vertex
func awayPoly(r *lib.Rng, ct geom.CoordinatesType, s awaySign, band int) *lib.Node {
	x0, y0 := 5+10*band+r.Intn(3), 4+r.Intn(3)
	w, h := r.Range(1, 4), r.Range(1, 4)
	pts := [][2]int{{x0, y0}, {x0 + w, y0}, {x0 + w, y0 + h}, {x0, y0 + h}}
	if r.Bool() {
		pts = [][2]int{{x0, y0}, {x0 + w, y0}, {x0, y0 + h}}
	}
	ln := &lib.Node{Kind: lib.KLine, CT: ct}
	for _, p := range pts {
		v := awayVtx(r, ct, s, band)
		v[0], v[1] = float64(s.sx*p[0]), float64(s.sy*p[1])
		ln.C = append(ln.C, v)
	}
	ln.C = append(ln.C, ln.C[0])
	return &lib.Node{Kind: lib.KPoly, CT: ct, Kids: []*lib.Node{ln}}
}

func awayMulti(r *lib.Rng, ct geom.CoordinatesType, s awaySign, kind lib.Kind, band0, k int) *lib.Node {
	n := &lib.Node{Kind: kind, CT: ct}
	for i := 0; i < k; i++ {
		switch kind {
		case lib.KMPoint:
			n.Kids = append(n.Kids, awayPoint(r, ct, s, band0+i))
		case lib.KMLine:
			n.Kids = append(n.Kids, awayLine(r, ct, s, band0+i))
		default:
			n.Kids = append(n.Kids, awayPoly(r, ct, s, band0+i))
		}
	}
	return n
}

func awayBases(r *lib.Rng, thorough bool) []*lib.Node {
	signs := []awaySign{{1, 1, 1, 1}, {-1, -1, -1, -1}, {1, -1, -1, 1}, {-1, 1, 1, -1}}
	var out []*lib.Node
	for _, ct := range allCT {
		for si, s := range signs {
			if !thorough && si >= 2 && (int(ct)+si)%2 == 0 {
				continue // quick tier: the mixed sign patterns on half of the coordinate types each
			}
			out = append(out,
				awayMulti(r, ct, s, lib.KMLine, 0, r.Range(1, 3)),
				awayMulti(r, ct, s, lib.KMPoly, 0, r.Range(1, 2)),
				awayMulti(r, ct, s, lib.KMPoint, 0, 2),
				// a collection whose FIRST member is the MultiLineString (the sub-writer's box is merged first)
				nodeOf(lib.KColl, ct, awayMulti(r, ct, s, lib.KMLine, 0, 2), awayPoint(r, ct, s, 3), awayPoly(r, ct, s, 4)),
				// the MultiLineString last, after a Point and inside a nested collection
				nodeOf(lib.KColl, ct, awayPoint(r, ct, s, 0),
					nodeOf(lib.KColl, ct, awayMulti(r, ct, s, lib.KMPoly, 1, 1), awayMulti(r, ct, s, lib.KMLine, 3, 2))),
				// a collection of one MultiLineString only
				nodeOf(lib.KColl, ct, awayMulti(r, ct, s, lib.KMLine, 0, 1)),
			)
		}
	}
	return out
}

// planAtPath wraps p so that it applies to the member reached by path (indices into Kids).
func planAtPath(path []int, p *Plan) *Plan {
	for i := len(path) - 1; i >= 0; i-- {
		w := &Plan{}
		for j := 0; j < path[i]; j++ {
			w.Kids = append(w.Kids, &Plan{})
		}
		w.Kids = append(w.Kids, p)
		p = w
	}
	return p
}

// everyPositionPlansDeep: every (position, shape) at the root and at every container below it
// (members of collections, at any depth), one insertion per plan; plus two empties in front of
// every container.
func everyPositionPlansDeep(n *lib.Node) []*Plan {
	var out []*Plan
	var walk func(m *lib.Node, path []int)
	walk = func(m *lib.Node, path []int) {
		if !isContainer(m.Kind) {
			return
		}
		for _, p := range everyPositionPlans(m) {
			out = append(out, planAtPath(path, p))
		}
		out = append(out, planAtPath(path, &Plan{Here: []Ins{{Pos: 0, E: Emp{K: "Ln"}}, {Pos: 0, E: Emp{K: "MLn", N: 2}}}}))
		if m.Kind == lib.KColl {
			for i, k := range m.Kids {
				walk(k, append(append([]int{}, path...), i))
			}
		}
	}
	walk(n, nil)
	return out
}
