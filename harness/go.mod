module verifharness

go 1.17

require github.com/peterstace/simplefeatures v0.0.0

replace github.com/peterstace/simplefeatures => /repo
