package lib

import (
	"bufio"
	"flag"
	"os"
	"strconv"
)

// Args are the common command-line arguments of every harness command.
type Args struct {
	Seed uint64
	N    int
	Out  string
	Tier string
}

// ParseArgs reads -seed/-n/-out/-tier; VERIF_SEED overrides nothing here (check.py passes -seed).
func ParseArgs() Args {
	var a Args
	seed := flag.String("seed", "1", "PRNG seed")
	flag.IntVar(&a.N, "n", 1000, "number of generated cases")
	flag.StringVar(&a.Out, "out", "", "output file (default stdout)")
	flag.StringVar(&a.Tier, "tier", "quick", "quick|thorough")
	flag.Parse()
	s, err := strconv.ParseUint(*seed, 10, 64)
	if err != nil {
		s = 1
	}
	a.Seed = s
	return a
}

// Output opens the case file.
func (a Args) Output() (*bufio.Writer, func()) {
	if a.Out == "" {
		w := bufio.NewWriterSize(os.Stdout, 1<<20)
		return w, func() { w.Flush() }
	}
	f, err := os.Create(a.Out)
	if err != nil {
		panic(err)
	}
	w := bufio.NewWriterSize(f, 1<<20)
	return w, func() { w.Flush(); f.Close() }
}
