package lib

import (
	"fmt"
	"math"
	"strings"

	"github.com/peterstace/simplefeatures/geom"
)

// Dump renders a geometry through public accessors only, as a prefix-notation token string:
//
//	P ct 0 | P ct 1 f*dim ; L ct n f*(n*dim) ; Y ct k L* ; MP ct k P* ; ML ct k L* ; MY ct k Y* ; GC ct k g*
//
// ct is 0..3 (XY, XYZ, XYM, XYZM); every float is the 16-digit hex of its IEEE-754 bits. The
// coordinates type is printed at every node so that inconsistencies are observable.
func Dump(g geom.Geometry) string {
	var sb strings.Builder
	dumpGeom(&sb, g)
	return strings.TrimSpace(sb.String())
}

func ctCode(ct geom.CoordinatesType) int { return int(ct) }

func hexf(f float64) string { return fmt.Sprintf("%016x", math.Float64bits(f)) }

func dumpCoords(sb *strings.Builder, c geom.Coordinates, ct geom.CoordinatesType) {
	sb.WriteString(hexf(c.X) + " " + hexf(c.Y) + " ")
	if ct.Is3D() {
		sb.WriteString(hexf(c.Z) + " ")
	}
	if ct.IsMeasured() {
		sb.WriteString(hexf(c.M) + " ")
	}
}

func DumpPoint(sb *strings.Builder, p geom.Point) {
	ct := p.CoordinatesType()
	c, ok := p.Coordinates()
	if !ok {
		fmt.Fprintf(sb, "P %d 0 ", ctCode(ct))
		return
	}
	fmt.Fprintf(sb, "P %d 1 ", ctCode(ct))
	dumpCoords(sb, c, ct)
}

func DumpLine(sb *strings.Builder, l geom.LineString) {
	ct := l.CoordinatesType()
	seq := l.Coordinates()
	n := seq.Length()
	fmt.Fprintf(sb, "L %d %d ", ctCode(ct), n)
	for i := 0; i < n; i++ {
		dumpCoords(sb, seq.Get(i), ct)
	}
}

func DumpPoly(sb *strings.Builder, p geom.Polygon) {
	rings := p.DumpRings()
	fmt.Fprintf(sb, "Y %d %d ", ctCode(p.CoordinatesType()), len(rings))
	for _, r := range rings {
		DumpLine(sb, r)
	}
}

func dumpGeom(sb *strings.Builder, g geom.Geometry) {
	switch g.Type() {
	case geom.TypePoint:
		DumpPoint(sb, g.MustAsPoint())
	case geom.TypeLineString:
		DumpLine(sb, g.MustAsLineString())
	case geom.TypePolygon:
		DumpPoly(sb, g.MustAsPolygon())
	case geom.TypeMultiPoint:
		mp := g.MustAsMultiPoint()
		n := mp.NumPoints()
		fmt.Fprintf(sb, "MP %d %d ", ctCode(mp.CoordinatesType()), n)
		for i := 0; i < n; i++ {
			DumpPoint(sb, mp.PointN(i))
		}
	case geom.TypeMultiLineString:
		ml := g.MustAsMultiLineString()
		n := ml.NumLineStrings()
		fmt.Fprintf(sb, "ML %d %d ", ctCode(ml.CoordinatesType()), n)
		for i := 0; i < n; i++ {
			DumpLine(sb, ml.LineStringN(i))
		}
	case geom.TypeMultiPolygon:
		my := g.MustAsMultiPolygon()
		n := my.NumPolygons()
		fmt.Fprintf(sb, "MY %d %d ", ctCode(my.CoordinatesType()), n)
		for i := 0; i < n; i++ {
			DumpPoly(sb, my.PolygonN(i))
		}
	case geom.TypeGeometryCollection:
		gc := g.MustAsGeometryCollection()
		n := gc.NumGeometries()
		fmt.Fprintf(sb, "GC %d %d ", ctCode(gc.CoordinatesType()), n)
		for i := 0; i < n; i++ {
			dumpGeom(sb, gc.GeometryN(i))
		}
	default:
		sb.WriteString("UNKNOWN ")
	}
}

// Hex renders bytes as lower-case hex.
func Hex(b []byte) string {
	const d = "0123456789abcdef"
	out := make([]byte, 2*len(b))
	for i, x := range b {
		out[2*i] = d[x>>4]
		out[2*i+1] = d[x&15]
	}
	return string(out)
}

// UnHex parses lower-case hex (panics on malformed input: harness-internal use only).
func UnHex(s string) []byte {
	out := make([]byte, len(s)/2)
	for i := range out {
		fmt.Sscanf(s[2*i:2*i+2], "%02x", &out[i])
	}
	return out
}
