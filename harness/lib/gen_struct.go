package lib

import (
	"math"

	"github.com/peterstace/simplefeatures/geom"
)

// StructCfg drives the structural generator used by the codec/structure properties
// (C04, C05, C06, C16, C18): arbitrary, not necessarily valid, geometries.
type StructCfg struct {
	MaxDepth  int  // collection nesting depth
	NonFinZM  bool // NaN / +-Inf allowed in Z and M
	NonFinXY  bool // NaN / +-Inf allowed in X and Y (outside most property domains)
	MixedCT   bool // members may be built with a coordinates type different from the parent
	MaxKids   int
	MaxVerts  int
	SmallInts bool // restrict ordinates to small integers (readable cases)
}

// FloatClassNames indexes the distribution counters.
var FloatClassNames = []string{"smallint", "zero", "negzero", "subnormal", "minnormal", "max", "digits17", "randbits", "huge", "tiny", "inf", "nan", "f32exact"}

// GenFloat draws a float64 from the classes the quantifiers name; cls returns the class index.
func GenFloat(r *Rng, nonFinite bool) (f float64, cls int) {
	k := r.Intn(20)
	switch {
	case k < 5:
		return float64(r.Range(-20, 20)), 0
	case k == 5:
		// exactly representable in single precision, but with a long exact decimal expansion: the
		// shortest decimal that identifies the float32 does not identify the float64
		switch r.Intn(3) {
		case 0: // widened from float32
			return float64(float32(float64(r.Range(-200000, 200000)) / 100)), 12
		case 1: // dyadic fractions n/2^m
			return sign(r) * (float64(r.Range(0, 40)) + float64(r.Range(1, 1<<12))/float64(uint64(1)<<uint(r.Range(10, 20)))), 12
		default: // integers >= 2^24 with enough trailing zero bits
			return sign(r) * float64(uint64(r.Range(1<<20, 1<<24))<<uint(r.Range(1, 30))), 12
		}
	case k == 6:
		return 0, 1
	case k == 7:
		return math.Copysign(0, -1), 2
	case k == 8:
		return sign(r) * math.Float64frombits(uint64(r.Range(1, 1<<20))), 3
	case k == 9:
		return sign(r) * math.Float64frombits(0x0010000000000000), 4
	case k == 10:
		return sign(r) * math.MaxFloat64, 5
	case k < 14:
		// values needing 17 significant digits: random mantissa, moderate exponent
		m := r.U64() & 0x000FFFFFFFFFFFFF
		e := uint64(r.Range(1023-40, 1023+40))
		return sign(r) * math.Float64frombits(e<<52|m), 6
	case k < 16:
		for {
			b := r.U64()
			f := math.Float64frombits(b)
			if !math.IsNaN(f) && !math.IsInf(f, 0) {
				return f, 7
			}
		}
	case k == 16:
		return sign(r) * 1e300 * (1 + float64(r.Intn(7))), 8
	case k == 17:
		return sign(r) * 1e-300 * (1 + float64(r.Intn(7))), 9
	case k == 18:
		if nonFinite {
			return math.Inf(r.Intn(2)*2 - 1), 10
		}
		return float64(r.Range(-1000, 1000)) / 8, 0
	default:
		if nonFinite {
			// several NaN payloads, quiet and signalling, both signs
			pay := []uint64{0x7FF8000000000001, 0x7FF8000000000000, 0xFFF8000000000000, 0x7FF0000000000001, 0x7FFFFFFFFFFFFFFF}
			return math.Float64frombits(pay[r.Intn(len(pay))]), 11
		}
		return float64(r.Range(-1000, 1000)) / 10, 0
	}
}

func sign(r *Rng) float64 {
	if r.Bool() {
		return -1
	}
	return 1
}

// GenStats accumulates the input distribution for the evidence file.
type GenStats struct {
	Kinds      [7]int
	CTs        [4]int
	FloatCls   [13]int
	EmptyNodes int
	EmptyKids  int
	Depth      [8]int
	Verts      int
}

func (c StructCfg) vertex(r *Rng, ct geom.CoordinatesType, st *GenStats) [4]float64 {
	var v [4]float64
	for i := 0; i < 4; i++ {
		if i == 2 && !ct.Is3D() || i == 3 && !ct.IsMeasured() {
			continue
		}
		if c.SmallInts {
			v[i] = float64(r.Range(-9, 9))
			st.FloatCls[0]++
			continue
		}
		nonfin := c.NonFinZM && i >= 2 || c.NonFinXY && i < 2
		f, cls := GenFloat(r, nonfin)
		v[i] = f
		st.FloatCls[cls]++
	}
	st.Verts++
	return v
}

func (c StructCfg) genLine(r *Rng, ct geom.CoordinatesType, st *GenStats) *Node {
	n := &Node{Kind: KLine, CT: ct}
	k := 0
	if !r.Chance(1, 5) {
		k = r.Range(1, c.MaxVerts)
	}
	for i := 0; i < k; i++ {
		n.C = append(n.C, c.vertex(r, ct, st))
	}
	return n
}

func (c StructCfg) genPoint(r *Rng, ct geom.CoordinatesType, st *GenStats) *Node {
	n := &Node{Kind: KPoint, CT: ct}
	if !r.Chance(1, 4) {
		n.Full = true
		n.C = [][4]float64{c.vertex(r, ct, st)}
	}
	return n
}

func (c StructCfg) genPoly(r *Rng, ct geom.CoordinatesType, st *GenStats) *Node {
	n := &Node{Kind: KPoly, CT: ct}
	if r.Chance(1, 4) {
		return n
	}
	k := r.Range(1, 3)
	for i := 0; i < k; i++ {
		// rings are never empty (the quantifier excludes empty rings); not necessarily closed
		ring := &Node{Kind: KLine, CT: c.kidCT(r, ct)}
		m := r.Range(1, c.MaxVerts)
		for j := 0; j < m; j++ {
			ring.C = append(ring.C, c.vertex(r, ring.CT, st))
		}
		if m > 2 && r.Bool() {
			ring.C = append(ring.C, ring.C[0])
		}
		n.Kids = append(n.Kids, ring)
	}
	return n
}

func (c StructCfg) kidCT(r *Rng, parent geom.CoordinatesType) geom.CoordinatesType {
	if c.MixedCT && r.Chance(1, 3) {
		return geom.CoordinatesType(r.Intn(4))
	}
	return parent
}

// Gen draws one geometry description.
func (c StructCfg) Gen(r *Rng, st *GenStats) *Node {
	n := c.gen(r, geom.CoordinatesType(r.Intn(4)), c.MaxDepth, st, -1)
	st.Depth[min(n.Depth(), 7)]++
	return n
}

// GenKind draws one geometry description of the given kind.
func (c StructCfg) GenKind(r *Rng, k Kind, st *GenStats) *Node {
	return c.gen(r, geom.CoordinatesType(r.Intn(4)), c.MaxDepth, st, int(k))
}

func min(a, b int) int {
	if a < b {
		return a
	}
	return b
}

func (c StructCfg) gen(r *Rng, ct geom.CoordinatesType, depth int, st *GenStats, force int) *Node {
	var k Kind
	if force >= 0 {
		k = Kind(force)
	} else if depth <= 1 {
		k = Kind(r.Intn(6))
	} else {
		k = Kind(r.Intn(7))
	}
	st.Kinds[k]++
	st.CTs[ct]++
	var n *Node
	switch k {
	case KPoint:
		n = c.genPoint(r, ct, st)
	case KLine:
		n = c.genLine(r, ct, st)
	case KPoly:
		n = c.genPoly(r, ct, st)
	default:
		n = &Node{Kind: k, CT: ct}
		cnt := 0
		if !r.Chance(1, 5) {
			cnt = r.Range(1, c.MaxKids)
		}
		for i := 0; i < cnt; i++ {
			kct := c.kidCT(r, ct)
			var kid *Node
			switch k {
			case KMPoint:
				kid = c.genPoint(r, kct, st)
			case KMLine:
				kid = c.genLine(r, kct, st)
			case KMPoly:
				kid = c.genPoly(r, kct, st)
			default:
				kid = c.gen(r, kct, depth-1, st, -1)
			}
			if kid.IsEmptyNode() {
				st.EmptyKids++
			}
			n.Kids = append(n.Kids, kid)
		}
	}
	if n.IsEmptyNode() {
		st.EmptyNodes++
	}
	return n
}
