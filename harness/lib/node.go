package lib

import (
	"fmt"
	"math"
	"strings"

	"github.com/peterstace/simplefeatures/geom"
)

// Kind of a Node; numbering is the harness's own.
type Kind int

const (
	KPoint Kind = iota
	KLine
	KPoly
	KMPoint
	KMLine
	KMPoly
	KColl
)

var KindTag = [...]string{"P", "L", "Y", "MP", "ML", "MY", "GC"}

// Node is the harness's own description of a geometry, independent of the library's types:
// what the generators produce, what gets built through the public constructors, and what the
// model receives as "the input".
type Node struct {
	Kind Kind
	CT   geom.CoordinatesType
	// Point: Full tells whether the point has coordinates (C[0]); Line: C is the vertex list.
	Full bool
	C    [][4]float64 // x y z m (unused entries zero)
	Kids []*Node      // Poly: rings (KLine); Multi*: members; Coll: members
}

func dimOf(ct geom.CoordinatesType) int { return ct.Dimension() }

func flat(c [][4]float64, ct geom.CoordinatesType) []float64 {
	out := make([]float64, 0, len(c)*dimOf(ct))
	for _, v := range c {
		out = append(out, v[0], v[1])
		if ct.Is3D() {
			out = append(out, v[2])
		}
		if ct.IsMeasured() {
			out = append(out, v[3])
		}
	}
	return out
}

func coordsOf(v [4]float64, ct geom.CoordinatesType) geom.Coordinates {
	c := geom.Coordinates{XY: geom.XY{X: v[0], Y: v[1]}, Type: ct}
	if ct.Is3D() {
		c.Z = v[2]
	}
	if ct.IsMeasured() {
		c.M = v[3]
	}
	return c
}

func (n *Node) point() geom.Point {
	if !n.Full {
		return geom.NewEmptyPoint(n.CT)
	}
	return geom.NewPoint(coordsOf(n.C[0], n.CT))
}

func (n *Node) line() geom.LineString {
	return geom.NewLineString(geom.NewSequence(flat(n.C, n.CT), n.CT))
}

func (n *Node) poly() geom.Polygon {
	if len(n.Kids) == 0 {
		return geom.Polygon{}.ForceCoordinatesType(n.CT)
	}
	rings := make([]geom.LineString, len(n.Kids))
	for i, k := range n.Kids {
		rings[i] = k.line()
	}
	return geom.NewPolygon(rings)
}

// Build constructs the geometry through the public constructors, without validation. Empty
// Multi*/collections of a non-XY type are obtained the way users do: ForceCoordinatesType.
func (n *Node) Build() geom.Geometry {
	switch n.Kind {
	case KPoint:
		return n.point().AsGeometry()
	case KLine:
		return n.line().AsGeometry()
	case KPoly:
		return n.poly().AsGeometry()
	case KMPoint:
		if len(n.Kids) == 0 {
			return geom.MultiPoint{}.ForceCoordinatesType(n.CT).AsGeometry()
		}
		ps := make([]geom.Point, len(n.Kids))
		for i, k := range n.Kids {
			ps[i] = k.point()
		}
		return geom.NewMultiPoint(ps).AsGeometry()
	case KMLine:
		if len(n.Kids) == 0 {
			return geom.MultiLineString{}.ForceCoordinatesType(n.CT).AsGeometry()
		}
		ls := make([]geom.LineString, len(n.Kids))
		for i, k := range n.Kids {
			ls[i] = k.line()
		}
		return geom.NewMultiLineString(ls).AsGeometry()
	case KMPoly:
		if len(n.Kids) == 0 {
			return geom.MultiPolygon{}.ForceCoordinatesType(n.CT).AsGeometry()
		}
		ps := make([]geom.Polygon, len(n.Kids))
		for i, k := range n.Kids {
			ps[i] = k.poly()
		}
		return geom.NewMultiPolygon(ps).AsGeometry()
	default:
		if len(n.Kids) == 0 {
			return geom.GeometryCollection{}.ForceCoordinatesType(n.CT).AsGeometry()
		}
		gs := make([]geom.Geometry, len(n.Kids))
		for i, k := range n.Kids {
			gs[i] = k.Build()
		}
		return geom.NewGeometryCollection(gs).AsGeometry()
	}
}

func hexv(sb *strings.Builder, v [4]float64, ct geom.CoordinatesType) {
	sb.WriteString(hexf(v[0]) + " " + hexf(v[1]) + " ")
	if ct.Is3D() {
		sb.WriteString(hexf(v[2]) + " ")
	}
	if ct.IsMeasured() {
		sb.WriteString(hexf(v[3]) + " ")
	}
}

func (n *Node) dump(sb *strings.Builder) {
	switch n.Kind {
	case KPoint:
		if !n.Full {
			fmt.Fprintf(sb, "P %d 0 ", ctCode(n.CT))
			return
		}
		fmt.Fprintf(sb, "P %d 1 ", ctCode(n.CT))
		hexv(sb, n.C[0], n.CT)
	case KLine:
		fmt.Fprintf(sb, "L %d %d ", ctCode(n.CT), len(n.C))
		for _, v := range n.C {
			hexv(sb, v, n.CT)
		}
	default:
		fmt.Fprintf(sb, "%s %d %d ", KindTag[n.Kind], ctCode(n.CT), len(n.Kids))
		for _, k := range n.Kids {
			k.dump(sb)
		}
	}
}

// Dump renders the node in the same token format as Dump(geom.Geometry).
func (n *Node) Dump() string {
	var sb strings.Builder
	n.dump(&sb)
	return strings.TrimSpace(sb.String())
}

// IsEmptyNode reports whether the node holds no vertex at all.
func (n *Node) IsEmptyNode() bool {
	switch n.Kind {
	case KPoint:
		return !n.Full
	case KLine:
		return len(n.C) == 0
	}
	for _, k := range n.Kids {
		if !k.IsEmptyNode() {
			return false
		}
	}
	return true
}

// Depth is the collection nesting depth (non-collections are 1).
func (n *Node) Depth() int {
	d := 0
	for _, k := range n.Kids {
		if kd := k.Depth(); kd > d {
			d = kd
		}
	}
	return d + 1
}

// WKBMixed is the harness's own WKB writer with a per-element byte-order choice (the library
// only writes native order). pick is called once per element header, in document order.
func (n *Node) WKBMixed(pick func() bool) []byte {
	var out []byte
	n.wkb(&out, pick)
	return out
}

func put32(out *[]byte, le bool, v uint32) {
	if le {
		*out = append(*out, byte(v), byte(v>>8), byte(v>>16), byte(v>>24))
	} else {
		*out = append(*out, byte(v>>24), byte(v>>16), byte(v>>8), byte(v))
	}
}

func put64(out *[]byte, le bool, f float64) {
	v := math.Float64bits(f)
	for i := 0; i < 8; i++ {
		if le {
			*out = append(*out, byte(v>>(8*uint(i))))
		} else {
			*out = append(*out, byte(v>>(8*uint(7-i))))
		}
	}
}

var wkbCode = [...]uint32{1, 2, 3, 4, 5, 6, 7}

func (n *Node) wkbSeq(out *[]byte, le bool) {
	put32(out, le, uint32(len(n.C)))
	for _, f := range flat(n.C, n.CT) {
		put64(out, le, f)
	}
}

func (n *Node) wkb(out *[]byte, pick func() bool) {
	le := pick()
	if le {
		*out = append(*out, 1)
	} else {
		*out = append(*out, 0)
	}
	put32(out, le, uint32(n.CT)*1000+wkbCode[n.Kind])
	switch n.Kind {
	case KPoint:
		if !n.Full {
			for i := 0; i < dimOf(n.CT); i++ {
				put64(out, le, math.NaN())
			}
			return
		}
		for _, f := range flat(n.C[:1], n.CT) {
			put64(out, le, f)
		}
	case KLine:
		n.wkbSeq(out, le)
	case KPoly:
		put32(out, le, uint32(len(n.Kids)))
		for _, k := range n.Kids {
			k.wkbSeq(out, le)
		}
	default:
		put32(out, le, uint32(len(n.Kids)))
		for _, k := range n.Kids {
			k.wkb(out, pick)
		}
	}
}

// NodeOf reads a geometry back into a description through public accessors only.
func NodeOf(g geom.Geometry) *Node {
	pt := func(p geom.Point) *Node {
		n := &Node{Kind: KPoint, CT: p.CoordinatesType()}
		if c, ok := p.Coordinates(); ok {
			n.Full = true
			n.C = [][4]float64{{c.X, c.Y, c.Z, c.M}}
		}
		return n
	}
	ln := func(l geom.LineString) *Node {
		n := &Node{Kind: KLine, CT: l.CoordinatesType()}
		seq := l.Coordinates()
		for i := 0; i < seq.Length(); i++ {
			c := seq.Get(i)
			n.C = append(n.C, [4]float64{c.X, c.Y, c.Z, c.M})
		}
		return n
	}
	py := func(p geom.Polygon) *Node {
		n := &Node{Kind: KPoly, CT: p.CoordinatesType()}
		for _, r := range p.DumpRings() {
			n.Kids = append(n.Kids, ln(r))
		}
		return n
	}
	switch g.Type() {
	case geom.TypePoint:
		return pt(g.MustAsPoint())
	case geom.TypeLineString:
		return ln(g.MustAsLineString())
	case geom.TypePolygon:
		return py(g.MustAsPolygon())
	case geom.TypeMultiPoint:
		mp := g.MustAsMultiPoint()
		n := &Node{Kind: KMPoint, CT: mp.CoordinatesType()}
		for i := 0; i < mp.NumPoints(); i++ {
			n.Kids = append(n.Kids, pt(mp.PointN(i)))
		}
		return n
	case geom.TypeMultiLineString:
		ml := g.MustAsMultiLineString()
		n := &Node{Kind: KMLine, CT: ml.CoordinatesType()}
		for i := 0; i < ml.NumLineStrings(); i++ {
			n.Kids = append(n.Kids, ln(ml.LineStringN(i)))
		}
		return n
	case geom.TypeMultiPolygon:
		my := g.MustAsMultiPolygon()
		n := &Node{Kind: KMPoly, CT: my.CoordinatesType()}
		for i := 0; i < my.NumPolygons(); i++ {
			n.Kids = append(n.Kids, py(my.PolygonN(i)))
		}
		return n
	default:
		gc := g.MustAsGeometryCollection()
		n := &Node{Kind: KColl, CT: gc.CoordinatesType()}
		for i := 0; i < gc.NumGeometries(); i++ {
			n.Kids = append(n.Kids, NodeOf(gc.GeometryN(i)))
		}
		return n
	}
}
