// Package lib holds the shared pieces of the correspondence harness: the single PRNG every
// random choice derives from, the accessor-based structural dump, and the geometry generators.
package lib

// Rng is splitmix64; every random choice of a run derives from one state seeded by VERIF_SEED.
type Rng struct{ s uint64 }

func NewRng(seed uint64) *Rng { return &Rng{s: seed*0x9E3779B97F4A7C15 + 0x1234567} }

func (r *Rng) U64() uint64 {
	r.s += 0x9E3779B97F4A7C15
	z := r.s
	z = (z ^ (z >> 30)) * 0xBF58476D1CE4E5B9
	z = (z ^ (z >> 27)) * 0x94D049BB133111EB
	return z ^ (z >> 31)
}

// Intn returns a value in [0,n).
func (r *Rng) Intn(n int) int {
	if n <= 0 {
		return 0
	}
	return int(r.U64() % uint64(n))
}

// Range returns a value in [lo,hi].
func (r *Rng) Range(lo, hi int) int { return lo + r.Intn(hi-lo+1) }

func (r *Rng) Bool() bool { return r.U64()&1 == 1 }

// Chance is true with probability num/den.
func (r *Rng) Chance(num, den int) bool { return r.Intn(den) < num }

// Fork derives an independent stream (used to make per-case streams replayable by index).
func (r *Rng) Fork() *Rng { return NewRng(r.U64()) }
