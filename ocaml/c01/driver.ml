(* C01 correspondence driver.  For every case of harness/cmd/c01 it evaluates, with the extracted
   reference semantics of coq/Model/SetOpSpec.v (exact rationals):
     SPEC  the property's statement on the implementation's outputs: no error return; the result is
           valid; its point set agrees with the expected set at every witness of the exact
           arrangement of operands and result(s) (closure form for difference and symmetric
           difference); exact area; number of isolated points; no redundant lower-dimensional part;
           canonical shape; the Boolean-algebra laws as relations between the implementation's
           outputs (commutativity, idempotence, a = (a-b) u (a n b), inclusion-exclusion of exact
           areas, envelope join);
     CORR  the modelled glue against the implementation: the empty-operand dispatch (which call is
           made) and the final assembly switch (re-assembling the leaves of a result gives the result).
   Results are float64 geometries: their vertices are first snapped onto the exact arrangement of
   the operands (nearest arrangement vertex, else nearest point of an operand segment) when within
   2^-30 x magnitude; everything after that is exact.  The number of results that needed no
   snapping is reported (exact_results). *)
open Model
open Sfio

let z_of_int (i : int) : z = if i = 0 then Z0 else if i > 0 then Zpos (pos_of_int i) else Zneg (pos_of_int (-i))
let q_of_int (i : int) : q = { qnum = z_of_int i; qden = XH }
let rec pos_to_float = function XH -> 1.0 | XO p -> 2.0 *. pos_to_float p | XI p -> 2.0 *. pos_to_float p +. 1.0
let z_to_float = function Z0 -> 0.0 | Zpos p -> pos_to_float p | Zneg p -> -. pos_to_float p
let q_to_float (x : q) : float = z_to_float x.qnum /. pos_to_float x.qden
let qs (x : q) : string = Printf.sprintf "%.12g" (q_to_float x)
let pts (p : pt) : string = Printf.sprintf "(%s %s)" (qs (fst p)) (qs (snd p))
let rec pow2 k = if k = 0 then XH else XO (pow2 (k - 1))
let tol_factor : q = { qnum = Zpos XH; qden = pow2 30 }       (* 2^-30 *)

(* memoisation of a membership function by point (pure caching; points whose ordinates do not fit a
   native int are not cached) *)
let rec pos_small (p : positive) (k : int) : bool =
  k > 0 && (match p with XH -> true | XO q | XI q -> pos_small q (k - 1))
let z_key (x : z) : int option =
  match x with
  | Z0 -> Some 0
  | Zpos p -> if pos_small p 60 then Some (int_of_pos p) else None
  | Zneg p -> if pos_small p 60 then Some (- (int_of_pos p)) else None
let q_key (x : q) : (int * int) option =
  match z_key x.qnum with
  | Some n when pos_small x.qden 60 -> Some (n, int_of_pos x.qden)
  | _ -> None
let pt_key (p : pt) : (int * int * int * int) option =
  match q_key (fst p), q_key (snd p) with
  | Some (a, b), Some (c, d) -> Some (a, b, c, d)
  | _ -> None
let memo (f : pt -> bool) : pt -> bool =
  let t : (int * int * int * int, bool) Hashtbl.t = Hashtbl.create 256 in
  fun p ->
    match pt_key p with
    | None -> f p
    | Some k ->
      (match Hashtbl.find_opt t k with
       | Some v -> v
       | None -> let v = f p in Hashtbl.replace t k v; v)

(* ---- the dumped overlay (hook geom/verif_hooks.go:VerifOverlay) ---- *)
type ov = { cx : complex; vxy : string array; eseq : string array array }
let parse_ov (s : string) : ov =
  let t = Array.of_list (tokens s) in
  let pos = ref 0 in
  let next () = let x = t.(!pos) in incr pos; x in
  let expect tag = if next () <> tag then failwith ("overlay dump: expected " ^ tag) in
  let bit () = next () = "1" in
  let lab () = let a = bit () in let b = bit () in (a, b) in
  expect "V";
  let nv = int_of_string (next ()) in
  let vs = Array.init nv (fun _ ->
      let x = next () in let y = next () in
      let src = lab () in let ins = lab () in
      (x ^ " " ^ y, { v_src = src; v_in = ins })) in
  expect "E";
  let ne = int_of_string (next ()) in
  let big = nat_of_int (nv + ne + 7) in
  let id () = let i = int_of_string (next ()) in if i < 0 then big else nat_of_int i in
  let es = Array.init ne (fun _ ->
      let o = id () in let tw = id () in let nx = id () in let pv = id () in let fc = id () in
      let se = lab () in let sf = lab () in let ins = lab () in
      let k = int_of_string (next ()) in
      let pts = Array.init k (fun _ -> let x = next () in let y = next () in x ^ " " ^ y) in
      (pts, { e_origin = o; e_twin = tw; e_next = nx; e_prev = pv; e_face = fc; e_srcEdge = se; e_srcFace = sf; e_in = ins })) in
  expect "F";
  let nf = int_of_string (next ()) in
  let fs = List.init nf (fun _ ->
      let c = int_of_string (next ()) in
      let ins = lab () in
      { f_cycle = (if c < 0 then None else Some (nat_of_int c)); f_in = ins }) in
  if !pos <> Array.length t then failwith "overlay dump: trailing tokens";
  { cx = { c_verts = List.map snd (Array.to_list vs); c_edges = List.map snd (Array.to_list es); c_faces = fs };
    vxy = Array.map fst vs; eseq = Array.map fst es }

(* cells of a result as the implementation returned it (bit patterns, no snapping) *)
let hx (v : n) = hex_of_n 16 v
let vstr (v : n vtx) = hx v.vx ^ " " ^ hx v.vy
let seg_str a b = if compare a b <= 0 then a ^ "|" ^ b else b ^ "|" ^ a
let rec segs_of = function a :: (b :: _ as r) -> seg_str a b :: segs_of r | _ -> []
let line_str (ps : string list) =
  let f = String.concat "," ps and r = String.concat "," (List.rev ps) in if compare f r <= 0 then f else r
let rec result_cells (g : n geomT) : string list * string list * string list =
  let line_pts (MkLine (_, vs)) = List.map vstr vs in
  let poly (MkPoly (_, rs)) = List.concat_map (fun r -> segs_of (line_pts r)) rs in
  match g with
  | GPoint (MkPoint (_, Some v)) -> ([], [], [vstr v])
  | GPoint _ -> ([], [], [])
  | GLine l -> ([], [line_str (line_pts l)], [])
  | GPoly y -> (poly y, [], [])
  | GMPoint (_, ps) -> ([], [], List.concat_map (function MkPoint (_, Some v) -> [vstr v] | _ -> []) ps)
  | GMLine (_, ls) -> ([], List.map (fun l -> line_str (line_pts l)) ls, [])
  | GMPoly (_, ys) -> (List.concat_map poly ys, [], [])
  | GColl (_, gs) ->
    List.fold_left (fun (a, b, c) g' -> let (x, y, z) = result_cells g' in (a @ x, b @ y, c @ z)) ([], [], []) gs
let sorted l = List.sort compare l
(* cyclic sequences of points: the lexicographically smallest rotation *)
let canon_cycle (ps : string list) : string =
  let a = Array.of_list ps in
  let n = Array.length a in
  if n = 0 then "" else begin
    let rot k = String.concat "," (List.init n (fun i -> a.((i + k) mod n))) in
    let best = ref (rot 0) in
    for k = 1 to n - 1 do let r = rot k in if compare r !best < 0 then best := r done;
    !best
  end
let drop_last l = match List.rev l with [] -> [] | _ :: r -> List.rev r
(* polygons of a result: (exterior ring, sorted holes) as canonical cyclic point sequences *)
let rec result_polygons (g : n geomT) : (string * string list) list =
  let ring (MkLine (_, vs)) = canon_cycle (drop_last (List.map vstr vs)) in
  let poly (MkPoly (_, rs)) = match rs with [] -> [] | sh :: hs -> [ (ring sh, sorted (List.map ring hs)) ] in
  match g with
  | GPoly y -> poly y
  | GMPoly (_, ys) -> List.concat_map poly ys
  | GColl (_, gs) -> List.concat_map result_polygons gs
  | _ -> []
(* twice the signed area contribution of a half edge: sum of x_k y_(k+1) - x_(k+1) y_k over its points *)
let edge_weight (pts : string array) : q =
  let xy s = match String.split_on_char ' ' s with
    | [x; y] -> (f64_or0 (n_of_hex x), f64_or0 (n_of_hex y)) | _ -> failwith "bad point" in
  let acc = ref (q_of_int 0) in
  for k = 0 to Array.length pts - 2 do
    let (x0, y0) = xy pts.(k) and (x1, y1) = xy pts.(k + 1) in
    acc := qplus !acc (qminus (qmult x0 y1) (qmult x1 y0))
  done;
  qred !acc

(* exact rescaling class "name@k": every ordinate of the line (operands, results, overlay dumps) is a
   float64 that was produced from operands multiplied by 2^k; power-of-two scaling commutes exactly
   with the engine's float arithmetic, so dividing 2^k out (a shift of the exponent field, exact
   unless the value leaves the normal range) must give exactly what the lattice operands give *)
exception Unscale of string
let unscale_token (k : int) (t : string) : string =
  if String.length t <> 16 || not (String.for_all (fun ch -> match ch with '0' .. '9' | 'a' .. 'f' -> true | _ -> false) t) then t
  else begin
    let bits = Int64.of_string ("0x" ^ t) in
    let mant = Int64.logand bits 0xFFFFFFFFFFFFFL in
    let e = Int64.to_int (Int64.logand (Int64.shift_right_logical bits 52) 0x7FFL) in
    if e = 0 && mant = 0L then t
    else if e = 0 || e = 0x7FF then raise (Unscale ("subnormal or non-finite ordinate " ^ t))
    else begin
      let e' = e - k in
      if e' < 1 || e' > 0x7FE then raise (Unscale ("ordinate leaves the normal range " ^ t));
      let bits' = Int64.logor (Int64.logand bits (Int64.lognot (Int64.shift_left 0x7FFL 52))) (Int64.shift_left (Int64.of_int e') 52) in
      Printf.sprintf "%016Lx" bits'
    end
  end
let unscale_field (k : int) (s : string) : string =
  (* tokens are separated by spaces; result fields carry "name|dump|v", overlay fields "@NAME=dump" *)
  let buf = Buffer.create (String.length s) in
  let tok = Buffer.create 16 in
  let flush () = if Buffer.length tok > 0 then (Buffer.add_string buf (unscale_token k (Buffer.contents tok)); Buffer.clear tok) in
  String.iter (fun ch -> match ch with
      | ' ' | '|' | '=' -> flush (); Buffer.add_char buf ch
      | _ -> Buffer.add_char tok ch) s;
  flush (); Buffer.contents buf

type res = Good of string * q geomT * q geomT * bool * int   (* dump, exact value, snapped value, valid, moved *)
         | Bad of string

let f20_class = "same_operand_hole_meets_sibling_interior"
let f20b_class = "same_operand_areal_members_overlap"

let bstr b = if b then "1" else "0"

(* pencil class (concurrent edges, harness/cmd/c01/genpencil.go): the exact arrangement of a large case
   is expensive (many witnesses, every one tested against every segment of every result). The harness
   estimates the size of the arrangement and marks the large cases "pencilx": they get the light
   judgement (no error return, valid results, structural laws, and every check on the real DCEL:
   invariants, merged vertices, selection, rings); cases of class "pencil" get the full exact
   judgement like every other class. With a second argument k the first k pencilx cases of a run are
   judged in full as well. *)
let pencilx_seen = ref 0
let () =
  let path = Sys.argv.(1) in
  let pencilx_full = if Array.length Sys.argv > 2 then int_of_string Sys.argv.(2) else 0 in
  let samples = ref 0 in
  iter_lines path (fun line ->
      let f = split_tabs line in
      let id = f.(0) and kind = f.(1) in
      incr cases;
      let scaled_cls = String.contains f.(2) '@' in
      let cls, unscale_error =
        if not scaled_cls then (f.(2), None)
        else begin
          let j = String.index f.(2) '@' in
          let k = int_of_string (String.sub f.(2) (j + 1) (String.length f.(2) - j - 1)) in
          count "rescaled_cases"; count (if k < 0 then "rescaled_down" else "rescaled_up");
          let err = (try
                       (* error messages (field "name|ERR|msg") are left alone *)
                       Array.iteri (fun i x -> if i >= 3 && not (String.length x > 4 && (try ignore (Str.search_forward (Str.regexp_string "|ERR|") x 0); true with Not_found -> false))
                                     then f.(i) <- unscale_field k x) f; None
                     with Unscale m -> Some m) in
          (String.sub f.(2) 0 j, err)
        end in
      count ("class_" ^ kind ^ "_" ^ cls);
      let failc k name detail = fail id k name (trunc detail) in
      let light = cls = "pencilx" && (incr pencilx_seen; !pencilx_seen > pencilx_full) in
      count (if light then "light_judgement" else "full_judgement");
      if cls = "pencil" || cls = "pencilx" then count (if light then "pencil_light_judgement" else "pencil_full_judgement");
      (match unscale_error with Some m -> failc "SPEC" "rescaled_result_not_representable" m | None -> ());
      (try
      let parse_geom (d : string) : q geomT =
        let gn = parse_dump d in
        if not (xy_finite gn) then failc "SPEC" "nonfinite_ordinate" d;
        geom_of_bits gn in
      (* operands, results *)
      let operands, res_fields, envjoin =
        if kind = "P" then ([parse_geom f.(4); parse_geom f.(5)], Array.to_list (Array.sub f 7 (Array.length f - 7)), f.(6))
        else begin
          let k = int_of_string f.(3) in
          (List.init k (fun i -> parse_geom f.(4 + i)), Array.to_list (Array.sub f (4 + k) (Array.length f - 4 - k)), "na")
        end in
      let key = if kind = "P" then f.(4) ^ "|" ^ f.(5) else String.concat "|" (Array.to_list (Array.sub f 4 (List.length operands))) in
      note_case key (List.exists (fun g -> not (is_empty g)) operands);
      (* hypothesis of the lifted theorems (judge_everywhere ...): every ring is a closed vertex list *)
      List.iter (fun g -> if not (rings_closed_b g) then failc "CORR" "operand_ring_not_closed" key) operands;
      let mag = magnitude operands in
      let tol = qmult mag tol_factor in
      let tol2 = qmult tol tol in
      let vs = operand_vertices operands and l0 = operand_segs operands in
      (* general-position class: admitted only with clearance >= 1e-6 x magnitude (checked exactly) *)
      let admitted =
        cls <> "float" ||
        (let thr = qmult mag { qnum = Zpos XH; qden = pos_of_int 1_000_000 } in
         clearance_ok (qmult thr thr) l0 vs) in
      if not admitted then count "excluded_clearance_below_1e-6" else begin
      if cls = "float" then count "admitted_general_position";
      (* a result all of whose vertices are (exactly) arrangement vertices is left as it is: snap_pt
         returns such a point unchanged *)
      let vkeys : (int * int * int * int, unit) Hashtbl.t = Hashtbl.create 64 in
      List.iter (fun v -> match pt_key v with Some k -> Hashtbl.replace vkeys k () | None -> ()) vs;
      let all_exact (g : q geomT) =
        List.for_all (fun v -> match pt_key (v.vx, v.vy) with Some k -> Hashtbl.mem vkeys k | None -> false) (geom_vs g) in
      (* snapping (Model.snap_geom, with the candidate chosen in float arithmetic and accepted only by
         the exact test dist2 <= tol^2): nearest arrangement vertex, else the exact closest point of
         the nearest operand segment, else the vertex stays *)
      let vsa = Array.of_list vs and l0a = Array.of_list l0 in
      let vsf = Array.map (fun (x, y) -> (q_to_float x, q_to_float y)) vsa in
      let l0f = Array.map (fun ((ax, ay), (bx, by)) -> (q_to_float ax, q_to_float ay, q_to_float bx, q_to_float by)) l0a in
      let within c p = qle_bool (dist2 c p) tol2 in
      let snap_one (x : q) (y : q) : q * q =
        let p = (x, y) in
        match pt_key p with
        | Some k when Hashtbl.mem vkeys k -> p
        | _ ->
          let fx = q_to_float x and fy = q_to_float y in
          let best = ref (-1) and bd = ref infinity in
          Array.iteri (fun i (vx, vy) -> let d = (vx -. fx) ** 2.0 +. (vy -. fy) ** 2.0 in if d < !bd then (bd := d; best := i)) vsf;
          if !best >= 0 && within vsa.(!best) p then pt_red vsa.(!best)
          else begin
            let best = ref (-1) and bd = ref infinity in
            Array.iteri (fun i (ax, ay, bx, by) ->
                let dx = bx -. ax and dy = by -. ay in
                let l2 = dx *. dx +. dy *. dy in
                let t = if l2 = 0.0 then 0.0 else Float.max 0.0 (Float.min 1.0 (((fx -. ax) *. dx +. (fy -. ay) *. dy) /. l2)) in
                let cx = ax +. t *. dx and cy = ay +. t *. dy in
                let d = (cx -. fx) ** 2.0 +. (cy -. fy) ** 2.0 in
                if d < !bd then (bd := d; best := i)) l0f;
            if !best >= 0 then (let c = seg_closest l0a.(!best) p in if within c p then pt_red c else pt_red p)
            else pt_red p
          end in
      let snap_hinted (g : q geomT) : q geomT = geom_mapxy snap_one (q_of_int 0) g in
      let table : (string, res) Hashtbl.t = Hashtbl.create 16 in
      let by_dump : (string, q geomT * q geomT * int) Hashtbl.t = Hashtbl.create 16 in
      let overlays : (string * string) list ref = ref [] in
      List.iter (fun s ->
          if String.length s > 0 && s.[0] = '@' then begin
            let i = String.index s '=' in
            overlays := (String.sub s 1 (i - 1), String.sub s (i + 1) (String.length s - i - 1)) :: !overlays
          end else
          match String.split_on_char '|' s with
          | [name; "ERR"; msg] -> Hashtbl.replace table name (Bad msg)
          | [name; dump; v] ->
            let (rq, rs, moved) =
              match Hashtbl.find_opt by_dump dump with
              | Some t -> t
              | None ->
                let rq = parse_geom dump in
                let rs = if all_exact rq then rq else snap_hinted rq in
                let t = (rq, rs, (if rs == rq then 0 else int_of_nat (moved_count rq rs))) in
                Hashtbl.replace by_dump dump t; t in
            Hashtbl.replace table name (Good (dump, rq, rs, v = "1", moved))
          | _ -> failwith ("bad result field: " ^ s)) res_fields;
      let get n = try Some (Hashtbl.find table n) with Not_found -> None in
      let dump_of n = match get n with Some (Good (d, _, _, _, _)) -> Some d | _ -> None in
      let snapped n = match get n with Some (Good (_, _, rs, _, _)) -> Some rs | _ -> None in
      (* an error return (or panic) inside the domain is a violation *)
      Hashtbl.iter (fun n r -> match r with
          | Bad msg -> failc "SPEC" ("error_return_" ^ n) msg
          | Good (d, _, _, valid, _) -> if not valid then failc "SPEC" ("invalid_result_" ^ n) d) table;
      (* which results are judged against the expected set: name, expected membership, raw set,
         and (op, a, b) of the equivalent binary call for the classification of a failure *)
      let a = List.nth_opt operands 0 and b = List.nth_opt operands 1 in
      let coll = GColl (XY, operands) in
      let nothing = GColl (XY, []) in
      let mems = List.map (fun g -> memo (mem_p (prep g))) operands in
      let primaries : (string * (wit -> bool) * (pt -> bool) * (setop * q geomT * q geomT)) list =
        if kind = "P" then begin
          let a = Option.get a and b = Option.get b in
          let fa = List.nth mems 0 and fb = List.nth mems 1 in
          let mk o = (expected_f o fa fb, raw_f o fa fb, (o, a, b)) in
          let one g f = ((fun wi -> f (wpt wi)), f, (OpUnion, g, nothing)) in
          List.map (fun (n, (e, x, c)) -> (n, e, x, c))
            [ ("U", mk OpUnion); ("I", mk OpInter); ("D", mk OpDiff); ("S", mk OpSym); ("UA", one a fa); ("UB", one b fb) ]
        end else
          [ ("M", (fun wi -> many_f mems (wpt wi)), many_f mems, (OpUnion, coll, nothing)) ] in
      (* laws: pairs of results that must be the same point set (kind SPEC), and the calls the
         modelled dispatch predicts to be the same call (kind CORR: Union(a, EMPTY) is UnaryUnion(a), ...) *)
      let empty_dump = "GC 0 0" in
      let dispatch_pairs =
        if kind = "P" then begin
          let a = Option.get a and b = Option.get b in
          let ea = is_empty a and eb = is_empty b in
          let chk name o ea eb ua ub =
            let d = dispatch o ea eb in
            count (match d with DEmpty -> "dispatch_empty" | DUnaryA -> "dispatch_unary_a" | DUnaryB -> "dispatch_unary_b" | DEngine -> "dispatch_engine");
            match d with
            | DEmpty ->
              (match dump_of name with
               | Some got when got <> empty_dump -> failc "CORR" ("dispatch_" ^ name) ("model: Geometry{}  impl: " ^ got)
               | _ -> ());
              []
            | DUnaryA -> [ (name, ua, "dispatch_" ^ name) ]
            | DUnaryB -> [ (name, ub, "dispatch_" ^ name) ]
            | DEngine -> [] in
          List.concat [
            chk "U" OpUnion ea eb "UA" "UB"; chk "I" OpInter ea eb "UA" "UB";
            chk "D" OpDiff ea eb "UA" "UB"; chk "S" OpSym ea eb "UA" "UB";
            chk "Ur" OpUnion eb ea "UB" "UA"; chk "Ir" OpInter eb ea "UB" "UA"; chk "Sr" OpSym eb ea "UB" "UA";
            chk "Uaa" OpUnion ea ea "UA" "UA"; chk "Iaa" OpInter ea ea "UA" "UA";
            chk "Daa" OpDiff ea ea "UA" "UA"; chk "Saa" OpSym ea ea "UA" "UA" ]
        end else [] in
      let law_pairs =
        if kind = "P" then [ ("Ur", "U", "commutative_union"); ("Ir", "I", "commutative_intersection");
                             ("Sr", "S", "commutative_symdiff"); ("Uaa", "UA", "idempotent_union");
                             ("Iaa", "UA", "idempotent_intersection"); ("PT", "UA", "partition") ]
        else [ ("UU", "M", "unionmany_singleton") ] in
      let same_pairs = law_pairs @ dispatch_pairs in
      let differing = List.filter (fun (x, y, _) ->
          match dump_of x, dump_of y with Some dx, Some dy -> dx <> dy | _ -> false) same_pairs in
      let ctx = operands
                @ List.filter_map (fun (n, _, _, _) -> snapped n) primaries
                @ List.filter_map (fun (x, _, _) -> snapped x) differing in
      let ar = arrange (if light then [] else ctx) in
      let w = ar_wits ar in
      count "arrangements";
      Hashtbl.replace counters "witnesses" ((try Hashtbl.find counters "witnesses" with Not_found -> 0) + List.length w);
      (* classes of the known findings F20 / F20b, decided on the input by the exact oracle *)
      let class_memo : (q geomT * (bool * bool)) list ref = ref [] in
      let classes_of (g : q geomT) : bool * bool =
        match List.find_opt (fun (h, _) -> h == g) !class_memo with
        | Some (_, c) -> c
        | None ->
          let c = (same_operand_hole_meets_sibling_interior g, same_operand_areal_members_overlap g) in
          class_memo := (g, c) :: !class_memo; c in
      (* classification of a failed judgement of result [rs] of (o, ga, gb) with verdict [v] (known findings F20 / F20b) *)
      let classify (o, ga, gb) (v : verdict) (rs : q geomT) : string * string =
        let (ha, xa) = classes_of ga and (hb, xb) = classes_of gb in
        let in_hole p = (ha && in_covered_hole ga p) || (hb && in_covered_hole gb p) in
        let dropped wi =
          let p = wpt wi in
          ((xa && in_areal ga p) || (xb && in_areal gb p))
          && (wdim wi <> D2
              || List.exists (fun (ya, yb) -> (ya || yb) && inG rs p = raw_absent o ga gb ya yb p)
                [ (xa, false); (false, xb); (xa, xb) ]) in
        if v.v_agree then ((if ha || hb then f20_class else if xa || xb then f20b_class else "none"), "other")
        else if (ha || hb) && List.for_all (fun wi -> in_hole (wpt wi)) v.v_bad then (f20_class, "hole_not_filled")
        else if (xa || xb) && List.for_all dropped v.v_bad then (f20b_class, "covered_face_dropped")
        else ((if ha || hb then f20_class else if xa || xb then f20b_class else "none"), "other") in
      let primary_failed = ref false in
      if not light then List.iter (fun (n, e, x, (o, ga, gb)) ->
          match get n with
          | Some (Good (_, _, rs, _, moved)) ->
            count ("judged_" ^ n);
            if not (rings_closed_b rs) then failc "SPEC" ("result_ring_not_closed_" ^ n) "a ring of the result is not a closed vertex list";
            count ("result_type_" ^ (match rs with
                | GPoint _ -> "Point" | GLine _ -> "LineString" | GPoly _ -> "Polygon"
                | GMPoint _ -> "MultiPoint" | GMLine _ -> "MultiLineString" | GMPoly _ -> "MultiPolygon"
                | GColl (_, []) -> "EmptyCollection" | GColl _ -> "MixedCollection"));
            if moved = 0 then count "exact_results" else count "snapped_results";
            let v = judge_with ar rs e x in
            if not (verdict_ok v) then begin
              primary_failed := true;
              let comp =
                if not v.v_agree then "membership" else if not v.v_area then "area"
                else if not v.v_points then "isolated_points" else if not v.v_nonred then "redundant_part" else "shape" in
              let klass, symptom = classify (o, ga, gb) v rs in
              count ("fail_class_" ^ klass ^ "_" ^ symptom);
              let first = match v.v_bad with
                | wi :: _ -> Printf.sprintf " first=%s expected=%s got=%s n_bad=%d" (pts (wpt wi)) (bstr (e wi)) (bstr (inG rs (wpt wi))) (List.length v.v_bad)
                | [] -> "" in
              failc "SPEC" ("setop_" ^ n ^ "_" ^ comp)
                (Printf.sprintf "class=%s symptom=%s result=%s%s" klass symptom n first)
            end
          | _ -> ()) primaries;
      (* ---------------- the real overlay structure: invariants (SPEC) and the selection model (CORR) *)
      let raw_of n = match get n with Some (Good (d, _, _, _, _)) -> Some (parse_dump d) | _ -> None in
      List.iter (fun (oname, dump) ->
          if dump = "TIMEOUT" || (String.length dump >= 5 && String.sub dump 0 5 = "PANIC") then
            failc "SPEC" ("overlay_" ^ oname) dump
          else begin
            let o = parse_ov dump in
            count "overlays_judged";
            (* first phases of the overlay engine against the exact model (ocaml/c01/renode_check.ml) *)
            if cls <> "float" && cls <> "pencil" && cls <> "pencilx" && cls <> "conc" then begin
              let empty = GColl (XY, []) in
              match (match oname, a, b with
                  | "OV", Some a, Some b -> Some (a, b) | "OVA", Some a, _ -> Some (a, empty)
                  | "OVB", _, Some b -> Some (b, empty) | "OVM", _, _ -> Some (coll, empty) | _ -> None) with
              | Some (ga, gb) ->
                (* the composed exact model (coq/Model/OverlayPipeline.v) against the real overlay and the results
                   extracted from it (ocaml/c01/pipeline_check.ml) *)
                let engine op = kind = "P" && (match a, b with
                    | Some a, Some b -> dispatch op (is_empty a) (is_empty b) = DEngine | _ -> false) in
                let names = match oname with
                  | "OV" -> List.filter (fun (_, op) -> engine op) [ ("U", OpUnion); ("I", OpInter); ("D", OpDiff); ("S", OpSym) ]
                  | "OVA" -> [ ("UA", OpUnion) ] | "OVB" -> [ ("UB", OpUnion) ] | "OVM" -> [ ("M", OpUnion) ] | _ -> [] in
                let results = List.filter_map (fun (rn, op) ->
                    match List.find_opt (fun (n, _, _, _) -> n = rn) primaries with
                    | None -> None
                    | Some (_, e, x, key) ->
                      Some { Pipeline_check.rname = rn; rop = op;
                             rgo = (match get rn with Some (Good (_, rq, rs, _, _)) -> Some (rq, rs) | _ -> None);
                             classify = (fun v rm _ -> classify key v rm); expected = e; rawset = x }) names in
                Pipeline_check.check ~failc ~oname ~a:ga ~b:gb ~tol2 ~cx:o.cx ~vxy:o.vxy ~eseq:o.eseq ~results;
                Renode_check.check ~failc ~oname ~a:ga ~b:gb ~tol2 ~vxy:o.vxy ~eseq:o.eseq
              | None -> ()
            end;
            (* dcel_re_noding.go: nodes that are close to each other are snapped together - no two
               vertices of the overlay may be closer than 2^-30 x magnitude *)
            let vf = Array.map (fun sxy -> match String.split_on_char ' ' sxy with
                | [x; y] -> (Int64.float_of_bits (Int64.of_string ("0x" ^ x)), Int64.float_of_bits (Int64.of_string ("0x" ^ y)))
                | _ -> (nan, nan)) o.vxy in
            let tolf = q_to_float tol in
            let close = ref None in
            Array.iteri (fun i (x1, y1) -> Array.iteri (fun j (x2, y2) ->
                if i < j && !close = None && Float.abs (x1 -. x2) <= tolf && Float.abs (y1 -. y2) <= tolf then close := Some (i, j)) vf) vf;
            (match !close with
             | Some (i, j) -> failc "SPEC" "dcel_vertices_not_merged"
                                (Printf.sprintf "overlay=%s vertices %d and %d: (%.17g %.17g) and (%.17g %.17g)" oname i j (fst vf.(i)) (snd vf.(i)) (fst vf.(j)) (snd vf.(j)))
             | None -> ());
            (* geom/dcel_fixup.go against its model (ocaml/c01/fixup_check.ml, coq/Model/OverlayFixup.v) *)
            Fixup_check.check failc count oname o.cx o.vxy o.eseq;
            let parts = [ ("ranges", ranges_ok); ("twin", twin_ok); ("next_prev", next_prev_ok);
                          ("face_cycles", faces_ok); ("euler", euler_ok); ("labels", labels_ok) ] in
            let broken = List.filter (fun (_, f) -> not (f o.cx)) parts in
            if broken <> [] then
              failc "SPEC" ("dcel_invariant_" ^ fst (List.hd broken))
                (Printf.sprintf "overlay=%s V=%d E=%d F=%d violated=%s" oname (Array.length o.vxy) (Array.length o.eseq)
                   (List.length o.cx.c_faces) (String.concat "," (List.map fst broken)))
            else begin
              if not (dcel_ok o.cx) then failc "CORR" "dcel_ok_conjunction" oname;
              (* which results were extracted from this overlay, with which operation *)
              let engine op = kind = "P" && (match a, b with
                  | Some a, Some b -> dispatch op (is_empty a) (is_empty b) = DEngine | _ -> false) in
              let uses =
                match oname with
                | "OV" -> List.filter (fun (_, op) -> engine op) [ ("U", OpUnion); ("I", OpInter); ("D", OpDiff); ("S", OpSym) ]
                | "OVA" -> [ ("UA", OpUnion) ] | "OVB" -> [ ("UB", OpUnion) ] | "OVM" -> [ ("M", OpUnion) ]
                | _ -> [] in
              List.iter (fun (rn, op) ->
                  match raw_of rn with
                  | None -> ()
                  | Some rg ->
                    count "selections_compared";
                    let (gsegs, glines, gpts) = result_cells rg in
                    let ids l = List.map int_of_nat l in
                    let msegs = List.concat_map (fun i -> segs_of (Array.to_list o.eseq.(i))) (ids (boundary_edges op o.cx)) in
                    let mlines = List.map (fun i -> line_str (Array.to_list o.eseq.(i))) (ids (lines_selected op o.cx)) in
                    let mpts = List.map (fun i -> o.vxy.(i)) (ids (points_selected op o.cx)) in
                    let cmp what g m =
                      if sorted g <> sorted m then
                        failc "CORR" ("dcel_select_" ^ what)
                          (Printf.sprintf "result=%s overlay=%s impl has %d model has %d" rn oname (List.length g) (List.length m)) in
                    cmp "polygon_boundary" gsegs msegs; cmp "lines" glines mlines; cmp "points" gpts mpts;
                    (* ring walk, grouping and exterior/hole decision of extractPolygons, ring by ring *)
                    let weights = lazy (Array.map edge_weight o.eseq) in
                    let w i = (Lazy.force weights).(int_of_nat i) in
                    (match extract_polygons op o.cx w with
                     | None -> failc "CORR" "dcel_rings" (Printf.sprintf "result=%s overlay=%s the model's ring extraction did not terminate / found no exterior ring" rn oname)
                     | Some ps ->
                       count "ring_extractions_compared";
                       let cyc ring = canon_cycle (List.concat_map (fun i -> drop_last (Array.to_list o.eseq.(int_of_nat i))) ring) in
                       let mp = List.map (fun p -> (cyc p.p_exterior, sorted (List.map cyc p.p_holes))) ps in
                       let gp = result_polygons rg in
                       if sorted mp <> sorted gp then
                         failc "CORR" "dcel_rings" (Printf.sprintf "result=%s overlay=%s impl has %d polygons, model has %d (rings differ)" rn oname (List.length gp) (List.length mp));
                       List.iter (fun p -> count "polygons_extracted"; count ("rings_in_polygon_" ^ string_of_int (min 4 (1 + List.length p.p_holes)));
                                   if not p.p_one_ccw then
                                     failc "SPEC" "dcel_ring_orientation" (Printf.sprintf "result=%s overlay=%s a polygon does not have exactly one counter-clockwise ring" rn oname)) ps)) uses
            end
          end) !overlays;
      (* ---------------- CORR: the assembly switch (the dispatch is judged with the laws below) *)
      Hashtbl.iter (fun n r -> match r with
          | Good (d, rq, _, _, _) ->
            if reassemble rq <> rq then failc "CORR" ("assemble_" ^ n) d;
            if not (shape_ok rq) then (if not (List.exists (fun (m, _, _, _) -> m = n) primaries) then failc "SPEC" ("shape_" ^ n) d)
          | _ -> ()) table;
      (* ---------------- laws between the implementation's own outputs *)
      let judge_pair (x, y, law) =
        let is_dispatch = String.length law > 9 && String.sub law 0 9 = "dispatch_" in
        match get x, get y with
        | Some (Good (dx, _, sx, _, _)), Some (Good (dy, _, sy, _, _)) ->
          if dx = dy then count (if is_dispatch then "dispatch_identical_output" else "law_identical_output")
          else if light then count "law_not_judged_light"
          else begin
            count (if is_dispatch then "dispatch_judged_by_oracle" else "law_judged_by_oracle");
            let mx = mem_p (prep sx) and my = mem_p (prep sy) in
            if not (List.for_all (fun wi -> mx (wpt wi) = my (wpt wi)) w) then begin
              if is_dispatch then failc "CORR" law ("model: same call as " ^ y ^ "=" ^ dy ^ "  impl: " ^ dx)
              else failc "SPEC" ("law_" ^ law) (x ^ "=" ^ dx ^ "  " ^ y ^ "=" ^ dy)
            end
          end
        | _ -> () in
      List.iter judge_pair dispatch_pairs;
      if !primary_failed then count "laws_skipped_primary_failed"
      else begin
        List.iter judge_pair law_pairs;
        if kind = "P" then begin
          List.iter (fun n -> match get n with
              | Some (Good (d, rq, _, _, _)) -> if not (is_empty rq) then failc "SPEC" ("law_self_" ^ n ^ "_not_empty") d
              | _ -> ()) [ "Daa"; "Saa" ];
          (match snapped "U", snapped "I", snapped "UA", snapped "UB" with
           | Some u, Some i, Some ua, Some ub ->
             let l = qred (qplus (result_area u) (result_area i)) and r = qred (qplus (result_area ua) (result_area ub)) in
             count "law_inclusion_exclusion";
             if not (qeq_bool l r) then
               failc "SPEC" "law_inclusion_exclusion" (Printf.sprintf "area(U)+area(I)=%s area(a)+area(b)=%s" (qs l) (qs r))
           | _ -> ());
          if envjoin = "ne" then failc "SPEC" "law_envelope_join" "Envelope(Union(a,b)) <> join of the operands' envelopes"
        end
      end;
      end
       with
       | Stack_overflow -> failc "CORR" "oracle_exception" "stack overflow while judging this case"
       | e -> failc "CORR" "oracle_exception" (Printexc.to_string e));
      if !samples < 4 && !cases mod 97 = 3 then begin
        incr samples;
        Printf.printf "SAMPLE\t%s\n" (trunc line)
      end);
  finish ()
