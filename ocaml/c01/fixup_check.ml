(* C01, correspondence of geom/dcel_fixup.go with its model (coq/Model/OverlayFixup.v).

   From the dumped overlay (hook VerifOverlay) the PRE-COMPLEX is obtained by forgetting next / prev /
   incident face / every inSet label: vertices (coordinates, src), half edges (origin, twin, second and
   last point of the point sequence, srcEdge, srcFace).  The extracted fixVertices / assignFaces /
   populateInSetLabels are run on it and compared with what the implementation computed:
     CORR fixup_next / fixup_prev        next and prev of every half edge, exactly
     CORR fixup_face_partition           the partition of the half edges into faces (face ids are creation
                                         order in Go, which iterates a map: compared as a partition), the
                                         number of faces, the cycle field of every face
     CORR fixup_face_labels              inSet of every face
     CORR fixup_edge_labels / fixup_vertex_labels   inSet of every half edge / vertex
   and the executable hypotheses of the theorems of coq/Props/C01_fixup.v are evaluated on the pre-complex:
     SPEC fixup_hyp                      pre_wf (ids in range, twin an involution without fixed point),
                                         pre_dirs_ok (outgoing directions non-zero and pairwise different at
                                         a vertex, a half edge ends where its twin starts), pre_src_sym, pre_srcface_le,
                                         first point of a half edge = its origin vertex
   Ordinates are IEEE bit patterns in the dump; they are converted exactly (Model.f64_or0). *)
open Model
open Sfio

let q_memo : (string, q) Hashtbl.t = Hashtbl.create 4096
let q_of_hex (s : string) : q =
  match Hashtbl.find_opt q_memo s with
  | Some v -> v
  | None ->
    let v = f64_or0 (n_of_hex s) in
    if Hashtbl.length q_memo > 200000 then Hashtbl.reset q_memo;
    Hashtbl.replace q_memo s v; v
let pt_of (s : string) : pt =
  match String.split_on_char ' ' s with
  | [x; y] -> (q_of_hex x, q_of_hex y)
  | _ -> failwith "fixup_check: bad point"

let lab_str ((a, b) : lab) = (if a then "1" else "0") ^ (if b then "1" else "0")

(* [failc kind name detail], [count key] are the driver's; [oname] names the overlay in messages *)
let check (failc : string -> string -> string -> unit) (count : string -> unit) (oname : string)
    (cx : complex) (vxy : string array) (eseq : string array array) : unit =
  let nv = Array.length vxy and ne = Array.length eseq in
  let gverts = Array.of_list cx.c_verts and gedges = Array.of_list cx.c_edges and gfaces = Array.of_list cx.c_faces in
  if Array.exists (fun pts -> Array.length pts < 2) eseq then
    failc "SPEC" "fixup_hyp" (Printf.sprintf "overlay=%s a half edge has fewer than two points" oname)
  else begin
    let pc = {
      pc_verts = List.init nv (fun i -> { pv_xy = pt_of vxy.(i); pv_src = gverts.(i).v_src });
      pc_edges = List.init ne (fun i ->
          let e = gedges.(i) and pts = eseq.(i) in
          { pe_origin = e.e_origin; pe_twin = e.e_twin; pe_second = pt_of pts.(1);
            pe_dest = pt_of pts.(Array.length pts - 1); pe_srcEdge = e.e_srcEdge; pe_srcFace = e.e_srcFace }) } in
    count "fixup_precomplexes";
    (* ---- hypotheses of the theorems *)
    let first_ok = ref true in
    Array.iteri (fun i pts ->
        let o = int_of_nat gedges.(i).e_origin in
        if o >= nv || pts.(0) <> vxy.(o) then first_ok := false) eseq;
    let hyps = [ ("pre_wf", pre_wf pc); ("first_point_is_origin", !first_ok) ] in
    let hyps = if List.for_all snd hyps then hyps @ [ ("pre_dirs_ok", pre_dirs_ok pc); ("pre_src_sym", pre_src_sym pc); ("pre_srcface_le", pre_srcface_le pc) ] else hyps in
    let broken = List.filter (fun (_, b) -> not b) hyps in
    if broken <> [] then
      failc "SPEC" "fixup_hyp" (Printf.sprintf "overlay=%s V=%d E=%d violated=%s" oname nv ne (String.concat "," (List.map fst broken)))
    else begin
      count "fixup_hypotheses_hold";
      (* ---- fixVertices: next / prev, exactly *)
      let s = fixVertices pc in
      let nats = Array.init (ne + 1) nat_of_int in
      let tab (f : nat -> nat) : int array = Array.init ne (fun i -> int_of_nat (f nats.(i))) in
      let nxa = tab s.l_next and pva = tab s.l_prev in
      let bad_n = ref [] and bad_p = ref [] in
      for i = ne - 1 downto 0 do
        if nxa.(i) <> int_of_nat gedges.(i).e_next then bad_n := i :: !bad_n;
        if pva.(i) <> int_of_nat gedges.(i).e_prev then bad_p := i :: !bad_p
      done;
      let report name what bad getm getg =
        match bad with
        | [] -> ()
        | i :: _ -> failc "CORR" name (Printf.sprintf "overlay=%s V=%d E=%d %d differ; first: %s %d model=%s impl=%s"
                                         oname nv ne (List.length bad) what i (getm i) (getg i)) in
      report "fixup_next" "half edge" !bad_n (fun i -> string_of_int nxa.(i)) (fun i -> string_of_int (int_of_nat gedges.(i).e_next));
      report "fixup_prev" "half edge" !bad_p (fun i -> string_of_int pva.(i)) (fun i -> string_of_int (int_of_nat gedges.(i).e_prev));
      (* the later phases are run on the model's own next / prev (tabulated: the closures returned by
         fixVertices are chains of updates) *)
      let fast (a : int array) (slow : nat -> nat) : nat -> nat =
        fun k -> let i = int_of_nat k in if i < ne then nats.(a.(i)) else slow k in
      (* ---- assignFaces *)
      (match assignFaces pc (fast nxa s.l_next) with
       | None -> failc "CORR" "fixup_face_partition" (Printf.sprintf "overlay=%s the model's cycle search did not terminate" oname)
       | Some fo ->
         let mfaces = faces_of fo in
         let inca = tab fo.fo_incident in
         let nfm = List.length mfaces and nfg = Array.length gfaces in
         let g2m = Hashtbl.create 16 and m2g = Hashtbl.create 16 in
         let bad = ref [] in
         for i = ne - 1 downto 0 do
           let g = int_of_nat gedges.(i).e_face and m = inca.(i) in
           (match Hashtbl.find_opt g2m g with None -> Hashtbl.replace g2m g m | Some m' -> if m' <> m then bad := i :: !bad);
           (match Hashtbl.find_opt m2g m with None -> Hashtbl.replace m2g m g | Some g' -> if g' <> g then bad := i :: !bad)
         done;
         if nfm <> nfg then
           failc "CORR" "fixup_face_partition" (Printf.sprintf "overlay=%s V=%d E=%d impl has %d faces, model has %d" oname nv ne nfg nfm)
         else if !bad <> [] then
           report "fixup_face_partition" "half edge" (List.sort_uniq compare !bad) (fun i -> "face " ^ string_of_int inca.(i))
             (fun i -> "face " ^ string_of_int (int_of_nat gedges.(i).e_face))
         else begin
           (* every face of the implementation: its cycle field lies on the face; its label *)
           let fin = Array.init (max nfm 1) (fun j -> fo.fo_in nats.(min j ne)) in
           let badc = ref [] and badl = ref [] in
           Array.iteri (fun j f ->
               match f.f_cycle with
               | None -> if ne <> 0 then badc := j :: !badc else if f.f_in <> (false, false) then badl := j :: !badl
               | Some c ->
                 let ci = int_of_nat c in
                 if ci >= ne || int_of_nat gedges.(ci).e_face <> j then badc := j :: !badc
                 else if fin.(inca.(ci)) <> f.f_in then badl := j :: !badl) gfaces;
           (match List.rev !badc with
            | j :: _ -> failc "CORR" "fixup_face_partition" (Printf.sprintf "overlay=%s face %d: its cycle field is not one of its half edges" oname j)
            | [] -> ());
           (match List.rev !badl with
            | j :: _ ->
              let m = match gfaces.(j).f_cycle with Some c -> lab_str fin.(inca.(int_of_nat c)) | None -> "00" in
              failc "CORR" "fixup_face_labels" (Printf.sprintf "overlay=%s V=%d E=%d F=%d %d differ; first: face %d model=%s impl=%s"
                                                  oname nv ne nfg (List.length !badl) j m (lab_str gfaces.(j).f_in))
            | [] -> ());
           (* ---- populateInSetLabels, on the model's own faces *)
           let finf (k : nat) : lab = let j = int_of_nat k in if j < Array.length fin then fin.(j) else fo.fo_in k in
           let (ein, vin) = populateInSetLabels pc (fast pva s.l_prev) (fast inca fo.fo_incident) finf in
           let bade = ref [] and badv = ref [] in
           for i = ne - 1 downto 0 do if ein nats.(i) <> gedges.(i).e_in then bade := i :: !bade done;
           for i = nv - 1 downto 0 do if vin (nat_of_int i) <> gverts.(i).v_in then badv := i :: !badv done;
           report "fixup_edge_labels" "half edge" !bade (fun i -> lab_str (ein nats.(i))) (fun i -> lab_str gedges.(i).e_in);
           report "fixup_vertex_labels" "vertex" !badv (fun i -> lab_str (vin (nat_of_int i))) (fun i -> lab_str gverts.(i).v_in);
           count "fixup_compared"
         end)
    end
  end
