(* C01 correspondence of the COMPOSED exact model of the overlay engine (coq/Model/OverlayPipeline.v:
   overlay_dcel_full = createGhosts -> reNodeGeometries -> findInteractionPoints -> chains -> addGhosts /
   addGeometry (half-edge table, labels) -> fixVertices -> assignFaces -> populateInSetLabels, and
   extract_geometry = selection + ring walk + ordering + assembly) with the implementation.

   One entry function, [check], called by driver.ml for every dumped overlay of a lattice class (hook
   geom/verif_hooks.go:VerifOverlay):
     CORR pipeline_dcel        the model's DCEL against the real one: numbers of vertices, half edges and faces;
                               half edges matched by their first two points (real points snapped onto the model's
                               exact control points), then origin / twin / srcEdge / srcFace / inSet of every half
                               edge, src / inSet of every vertex, the partition of the half edges into faces and the
                               inSet label of every face
     CORR pipeline_none        the model reports an error / panic outcome (None) where the implementation built an overlay
     CORR pipeline_result      the model's result and the implementation's result differ AS POINT SETS: judged with the
                               verified exact oracle (Model/SetOpSpec.v on Base/Planar.v) - membership at every witness
                               of the joint arrangement of the two results, exact area, numbers of areal / lineal /
                               point members.  (Results that are equal value by value are counted and not judged.)
     SPEC pipeline_judge       the verified oracle's judgement of the MODEL's result against the operands (only
                               evaluated when the model's result is not value-equal to the implementation's, whose
                               judgement the main check has made already)
     SPEC pipeline_face_label  for every face f of the composed complex with witness point w (a point just left of
                               the middle of the first piece of the face's cycle edge, Model.face_witness):
                               inSet(f) = (inG a w, inG b w)
     SPEC pipeline_hyp         what the composition theorems (Props/C01_pipeline.v) prove for all inputs, evaluated on
                               the model's own chains and structures: chains_wf, pre_wf, pre_dirs_ok, pre_src_sym,
                               pre_srcface_le, and dcel_ok (incl. Euler's formula, which is NOT proved)
     SPEC pipeline_commutes    overlay (a,b) only: the model's Union / Intersection / SymmetricDifference of (b,a) are
                               the same point sets as those of (a,b) (value equality, else the exact judge); every second such overlay
   Restrictions (the same as renode_check.ml, counted): lattice classes only (the caller decides), no distance
   tie in the ghost spanning tree, no two distinct exact control points closer than twice the tolerance, bounded
   size, and a deterministic stride over the overlays of a run. *)
open Model
open Sfio

let rec pos_to_float = function XH -> 1.0 | XO p -> 2.0 *. pos_to_float p | XI p -> 2.0 *. pos_to_float p +. 1.0
let z_to_float = function Z0 -> 0.0 | Zpos p -> pos_to_float p | Zneg p -> -. pos_to_float p
let q_to_float (x : q) : float = z_to_float x.qnum /. pos_to_float x.qden
let pstr (p : pt) = Printf.sprintf "(%.12g %.12g)" (q_to_float (fst p)) (q_to_float (snd p))

let env_int name default = try int_of_string (Sys.getenv name) with _ -> default
let stride = env_int "VERIF_PIPELINE_STRIDE" 1
let max_lines = env_int "VERIF_PIPELINE_MAX_LINES" 200
let seen = ref 0
let commute_stride = env_int "VERIF_PIPELINE_COMMUTE_STRIDE" 2
let commute_seen = ref 0
let add_counter k n = Hashtbl.replace counters k ((try Hashtbl.find counters k with Not_found -> 0) + n)

(* the skeleton of the last operand pair, shared with renode_check.ml (same pair, same overlay) *)
let skel_memo : (q geomT * q geomT * overlay_skeleton) option ref = ref None
let skeleton (a : q geomT) (b : q geomT) : overlay_skeleton =
  match !skel_memo with
  | Some (a', b', sk) when a' == a && b' == b -> sk
  | _ -> let sk = overlay_skeleton_of a b in skel_memo := Some (a, b, sk); sk

let real_pt (s : string) : (float * float) * pt =
  match String.split_on_char ' ' s with
  | [x; y] ->
    ((Int64.float_of_bits (Int64.of_string ("0x" ^ x)), Int64.float_of_bits (Int64.of_string ("0x" ^ y))),
     (f64_or0 (n_of_hex x), f64_or0 (n_of_hex y)))
  | _ -> failwith "pipeline_check: bad point"

let lab_str ((a, b) : lab) = (if a then "1" else "0") ^ (if b then "1" else "0")
let op_name = function OpUnion -> "Union" | OpInter -> "Intersection" | OpDiff -> "Difference" | OpSym -> "SymmetricDifference"

(* value equality of two geometries over Q (Qeq on every ordinate, same structure) *)
let vtx_eq (u : q vtx) (v : q vtx) = qeq_bool u.vx v.vx && qeq_bool u.vy v.vy
let rec list_eq f l m = match l, m with [] , [] -> true | x :: l', y :: m' -> f x y && list_eq f l' m' | _ -> false
let line_eq (MkLine (_, u)) (MkLine (_, v)) = list_eq vtx_eq u v
let poly_eq (MkPoly (_, u)) (MkPoly (_, v)) = list_eq line_eq u v
let point_eq (MkPoint (_, u)) (MkPoint (_, v)) = match u, v with None, None -> true | Some x, Some y -> vtx_eq x y | _ -> false
let rec geom_eq (g : q geomT) (h : q geomT) : bool =
  match g, h with
  | GPoint p, GPoint q' -> point_eq p q'
  | GLine l, GLine m -> line_eq l m
  | GPoly y, GPoly z -> poly_eq y z
  | GMPoint (_, l), GMPoint (_, m) -> list_eq point_eq l m
  | GMLine (_, l), GMLine (_, m) -> list_eq line_eq l m
  | GMPoly (_, l), GMPoly (_, m) -> list_eq poly_eq l m
  | GColl (_, l), GColl (_, m) -> list_eq geom_eq l m
  | _ -> false

type result_in = {
  rname : string;                  (* U I D S UA UB M *)
  rop : setop;
  rgo : (q geomT * q geomT) option;   (* the implementation's result: exact value, snapped value *)
  (* classification of a failed judgement for the known findings F20 / F20b (the driver's own) *)
  classify : verdict -> q geomT -> (wit -> bool) -> string * string;
  expected : wit -> bool;          (* expected membership at a witness *)
  rawset : pt -> bool;             (* the raw Boolean combination *)
}

let check ~(failc : string -> string -> string -> unit) ~(oname : string)
    ~(a : q geomT) ~(b : q geomT) ~(tol2 : q) ~(cx : complex) ~(vxy : string array) ~(eseq : string array array)
    ~(results : result_in list) : unit =
  incr seen;
  let lines_in g = List.fold_left (fun n e -> n + max 0 (List.length e - 1)) 0 (g_elems g) in
  let nl = lines_in a + lines_in b in
  if (!seen - 1) mod stride <> 0 then count "pipeline_skipped_stride"
  else if nl > max_lines then count "pipeline_skipped_size"
  else if spanning_tree_tie (component_pts a @ component_pts b) then count "pipeline_skipped_ghost_tie"
  else begin
    let sk = skeleton a b in
    let r = sk.sk_renoded in
    (* ---- the exact control points of the model, indexed *)
    let all_pts = List.concat (rn_all r) @ g_points a @ g_points b in
    let tbl : (float * float, (int * pt) list) Hashtbl.t = Hashtbl.create 64 in
    let acc = ref [] and n = ref 0 in
    let index_of (p : pt) : int =
      let k = (q_to_float (fst p), q_to_float (snd p)) in
      let cands = try Hashtbl.find tbl k with Not_found -> [] in
      match List.find_opt (fun (_, q') -> pt_eqb p q') cands with
      | Some (i, _) -> i
      | None -> let i = !n in incr n; Hashtbl.replace tbl k ((i, p) :: cands); acc := (p, k) :: !acc; i in
    List.iter (fun p -> ignore (index_of p)) all_pts;
    let m = Array.of_list (List.rev_map fst !acc) and mf = Array.of_list (List.rev_map snd !acc) in
    let nm = Array.length m in
    let tolf2 = q_to_float tol2 in
    let close = ref false in
    for i = 0 to nm - 1 do for j = i + 1 to nm - 1 do
        let (x1, y1) = mf.(i) and (x2, y2) = mf.(j) in
        if (x1 -. x2) ** 2.0 +. (y1 -. y2) ** 2.0 <= 4.0 *. tolf2 then close := true done done;
    if !close then count "pipeline_skipped_close_control_points"
    else begin
      count "pipeline_overlays_run";
      match overlay_dcel_of_skel sk a b with
      | None ->
        failc "CORR" "pipeline_none" (Printf.sprintf "overlay=%s the composed model reports an error / panic outcome; the implementation built V=%d E=%d F=%d"
                                        oname (Array.length vxy) (Array.length eseq) (List.length cx.c_faces))
      | Some ov ->
        let mc = ov.ov_cx in
        let mverts = Array.of_list ov.ov_verts and mseqs = Array.of_list ov.ov_seqs in
        let medges = Array.of_list mc.c_edges and mfaces = Array.of_list mc.c_faces and mvs = Array.of_list mc.c_verts in
        let gverts = Array.of_list cx.c_verts and gedges = Array.of_list cx.c_edges and gfaces = Array.of_list cx.c_faces in
        let nv = Array.length vxy and ne = Array.length eseq and nf = Array.length gfaces in
        add_counter "pipeline_faces" (Array.length mfaces);
        add_counter "pipeline_half_edges" (Array.length medges);
        (* ---- hypotheses of the composition theorems, on the chains the model inserts (theorem pipeline_chains_wf
           says chains_wf holds for every input; pipeline_precomplex_wf derives the rest from it) *)
        (match pipeline_chains_of_skel sk a b with
         | Some cs ->
           add_counter "pipeline_chains" (List.length cs);
           let hyps = [ ("chains_wf", chains_wf ov.ov_verts cs);
                        ("pre_wf", pre_wf ov.ov_pre); ("pre_dirs_ok", pre_dirs_ok ov.ov_pre);
                        ("pre_src_sym", pre_src_sym ov.ov_pre); ("pre_srcface_le", pre_srcface_le ov.ov_pre);
                        ("dcel_ok", dcel_ok mc) ] in
           let broken = List.filter (fun (_, ok) -> not ok) hyps in
           if broken <> [] then failc "SPEC" "pipeline_hyp" (Printf.sprintf "overlay=%s violated=%s" oname (String.concat "," (List.map fst broken)))
           else count "pipeline_hypotheses_hold"
         | None -> failc "CORR" "pipeline_none" (Printf.sprintf "overlay=%s chains" oname));
        (* ---- CORR pipeline_dcel *)
        let dcel_bad = ref None in
        let bad s = if !dcel_bad = None then dcel_bad := Some s in
        if Array.length mverts <> nv || Array.length medges <> ne || Array.length mfaces <> nf then
          bad (Printf.sprintf "counts: impl V=%d E=%d F=%d, model V=%d E=%d F=%d" nv ne nf (Array.length mverts) (Array.length medges) (Array.length mfaces))
        else begin
          let unmatched = ref None in
          let snap (s : string) : int =
            let ((fx, fy), pq) = real_pt s in
            let best = ref (-1) and bd = ref infinity in
            Array.iteri (fun i (x, y) -> let d = (x -. fx) ** 2.0 +. (y -. fy) ** 2.0 in if d < !bd then (bd := d; best := i)) mf;
            if !best >= 0 && qle_bool (dist2 m.(!best) pq) tol2 then !best
            else begin (if !unmatched = None then unmatched := Some (pstr pq)); -1 end in
          (* model vertex id per exact point index; model half-edge id per key (indices of the first two points) *)
          let mv_of = Hashtbl.create 64 in
          Array.iteri (fun i p -> Hashtbl.replace mv_of (index_of p) i) mverts;
          let me_of = Hashtbl.create 64 in
          Array.iteri (fun i s -> match s with p0 :: p1 :: _ -> Hashtbl.replace me_of (index_of p0, index_of p1) i | _ -> ()) mseqs;
          let v_g2m = Array.map (fun s -> try Hashtbl.find mv_of (snap s) with Not_found -> -1) vxy in
          let e_g2m = Array.map (fun pts -> if Array.length pts < 2 then -1 else
                                     (try Hashtbl.find me_of (snap pts.(0), snap pts.(1)) with Not_found -> -1)) eseq in
          (match !unmatched with
           | Some p -> bad (Printf.sprintf "real point %s is not within the tolerance of any exact control point of the model" p)
           | None -> ());
          if Array.exists (fun i -> i < 0) v_g2m then bad "a real vertex has no counterpart in the model"
          else if Array.exists (fun i -> i < 0) e_g2m then bad "a real half edge (key = first two points) has no counterpart in the model"
          else begin
            let inat = int_of_nat in
            (* vertices *)
            Array.iteri (fun i gv ->
                let mv = mvs.(v_g2m.(i)) in
                if mv.v_src <> gv.v_src then bad (Printf.sprintf "vertex %d src: impl %s model %s" i (lab_str gv.v_src) (lab_str mv.v_src))
                else if mv.v_in <> gv.v_in then bad (Printf.sprintf "vertex %d inSet: impl %s model %s" i (lab_str gv.v_in) (lab_str mv.v_in))) gverts;
            (* half edges: whole chain, origin, twin, labels *)
            Array.iteri (fun i ge ->
                let j = e_g2m.(i) in
                let me = medges.(j) in
                let gchain = Array.to_list (Array.map snap eseq.(i)) and mchain = List.map index_of mseqs.(j) in
                if gchain <> mchain then bad (Printf.sprintf "half edge %d: point sequences differ (impl %d points, model %d)" i (List.length gchain) (List.length mchain))
                else if v_g2m.(inat ge.e_origin) <> inat me.e_origin then bad (Printf.sprintf "half edge %d: origin" i)
                else if e_g2m.(inat ge.e_twin) <> inat me.e_twin then bad (Printf.sprintf "half edge %d: twin" i)
                else if e_g2m.(inat ge.e_next) <> inat me.e_next then bad (Printf.sprintf "half edge %d: next" i)
                else if e_g2m.(inat ge.e_prev) <> inat me.e_prev then bad (Printf.sprintf "half edge %d: prev" i)
                else if ge.e_srcEdge <> me.e_srcEdge then bad (Printf.sprintf "half edge %d srcEdge: impl %s model %s" i (lab_str ge.e_srcEdge) (lab_str me.e_srcEdge))
                else if ge.e_srcFace <> me.e_srcFace then bad (Printf.sprintf "half edge %d srcFace: impl %s model %s" i (lab_str ge.e_srcFace) (lab_str me.e_srcFace))
                else if ge.e_in <> me.e_in then bad (Printf.sprintf "half edge %d inSet: impl %s model %s" i (lab_str ge.e_in) (lab_str me.e_in))) gedges;
            (* faces: the partition, then the labels *)
            let f_g2m = Hashtbl.create 16 and f_m2g = Hashtbl.create 16 in
            Array.iteri (fun i ge ->
                let gf = inat ge.e_face and mf' = inat medges.(e_g2m.(i)).e_face in
                (match Hashtbl.find_opt f_g2m gf with None -> Hashtbl.replace f_g2m gf mf' | Some x -> if x <> mf' then bad (Printf.sprintf "half edge %d: face partition differs" i));
                (match Hashtbl.find_opt f_m2g mf' with None -> Hashtbl.replace f_m2g mf' gf | Some x -> if x <> gf then bad (Printf.sprintf "half edge %d: face partition differs" i))) gedges;
            Array.iteri (fun j gf ->
                match gf.f_cycle with
                | None -> if ne <> 0 || mfaces.(0).f_in <> gf.f_in then bad (Printf.sprintf "face %d (artificial)" j)
                | Some c ->
                  (match Hashtbl.find_opt f_g2m j with
                   | None -> bad (Printf.sprintf "face %d has no half edge" j)
                   | Some mj ->
                     ignore c;
                     if mfaces.(mj).f_in <> gf.f_in then
                       bad (Printf.sprintf "face %d inSet: impl %s model %s" j (lab_str gf.f_in) (lab_str mfaces.(mj).f_in)))) gfaces
          end
        end;
        (match !dcel_bad with
         | Some s -> failc "CORR" "pipeline_dcel" (Printf.sprintf "overlay=%s %s" oname s)
         | None -> count "pipeline_dcel_equal");
        (* ---- SPEC pipeline_face_label *)
        let badf = List.map int_of_nat (face_labels_bad a b ov) in
        add_counter "pipeline_face_labels_evaluated" (Array.length mfaces);
        if badf <> [] then begin
          (* known findings F20 / F20b: one operand with overlapping areal members; the face is covered by a
             member of that operand but not labelled *)
          let cls g = (same_operand_hole_meets_sibling_interior g, same_operand_areal_members_overlap g) in
          let (ha, xa) = cls a and (hb, xb) = cls b in
          let kinds = List.map (fun f ->
              match face_witness ov (nat_of_int f) with
              | None -> `Other
              | Some w ->
                let (la, lb) = mfaces.(f).f_in in
                let side g h x l = (* label of this operand at this face against membership *)
                  let ing = inG g w in
                  if l = ing then `Fine
                  else if l || not ing then `Other
                  else if h && in_covered_hole g w then `Hole
                  else if x && in_areal g w then `Areal
                  else `Other in
                (match side a ha xa la, side b hb xb lb with
                 | `Other, _ | _, `Other -> `Other
                 | `Areal, _ | _, `Areal -> `Areal
                 | _ -> `Hole)) badf in
          let f0 = List.hd badf in
          let detail klass symptom =
            Printf.sprintf "class=%s symptom=%s overlay=%s %d of %d faces; first: face %d label=%s witness=%s" klass symptom oname
              (List.length badf) (Array.length mfaces) f0 (lab_str mfaces.(f0).f_in)
              (match face_witness ov (nat_of_int f0) with Some w -> pstr w ^ " inG=" ^ lab_str (inG a w, inG b w) | None -> "none") in
          if List.for_all (fun k -> k = `Hole) kinds then failc "SPEC" "pipeline_face_label" (detail "same_operand_hole_meets_sibling_interior" "hole_not_filled")
          else if List.for_all (fun k -> k <> `Other) kinds then failc "SPEC" "pipeline_face_label" (detail "same_operand_areal_members_overlap" "covered_face_dropped")
          else failc "SPEC" "pipeline_face_label" (detail "none" "other")
        end else count "pipeline_face_labels_hold";
        (* ---- results *)
        List.iter (fun ri ->
            match extract_geometry ri.rop ov with
            | None ->
              failc "CORR" "pipeline_none" (Printf.sprintf "overlay=%s result=%s the model's extraction reports an error outcome" oname ri.rname)
            | Some rm ->
              count "pipeline_results_run";
              (match ri.rgo with
               | None -> count "pipeline_result_impl_error"     (* reported by the main check as error_return_* *)
               | Some (rq, rs) ->
                 if geom_eq rm rq || geom_eq rm rs then (count "pipeline_result_identical"; count "pipeline_judge_is_the_main_judgement")
                 else begin
                   count "pipeline_result_judged_as_point_set";
                   let w = ctx_witnesses [rm; rs] in
                   let fm = mem_p (prep rm) and fg = mem_p (prep rs) in
                   let diff = List.filter (fun wi -> fm (wpt wi) <> fg (wpt wi)) w in
                   let cnt g = (List.length (g_polys g), List.length (g_lines g), List.length (g_points g)) in
                   let problem =
                     if diff <> [] then Some (Printf.sprintf "membership differs at %d witnesses, first %s (model %b)" (List.length diff) (pstr (wpt (List.hd diff))) (fm (wpt (List.hd diff))))
                     else if not (qeq_bool (result_area rm) (result_area rs)) then Some "exact areas differ"
                     else if cnt rm <> cnt rs then
                       (let (p1, l1, q1) = cnt rm and (p2, l2, q2) = cnt rs in
                        Some (Printf.sprintf "member counts differ: model %d/%d/%d impl %d/%d/%d (polygons/lines/points)" p1 l1 q1 p2 l2 q2))
                     else None in
                   (match problem with
                    | Some s -> failc "CORR" "pipeline_result" (Printf.sprintf "overlay=%s result=%s op=%s %s" oname ri.rname (op_name ri.rop) s)
                    | None -> count "pipeline_result_same_point_set");
                   (* the oracle's judgement of the model's own result *)
                   count "pipeline_judge_evaluated";
                   let ar = arrange [a; b; rm] in
                   let v = judge_with ar rm ri.expected ri.rawset in
                   if not (verdict_ok v) then begin
                     let (klass, symptom) = ri.classify v rm ri.expected in
                     let comp =
                       if not v.v_agree then "membership" else if not v.v_area then "area"
                       else if not v.v_points then "isolated_points" else if not v.v_nonred then "redundant_part" else "shape" in
                     failc "SPEC" "pipeline_judge"
                       (Printf.sprintf "class=%s symptom=%s result=%s(model) overlay=%s component=%s n_bad=%d" klass symptom ri.rname oname comp (List.length v.v_bad))
                   end
                 end)) results;
        (* ---- SPEC pipeline_commutes: the symmetric operations on the swapped operands *)
        if oname = "OV" && List.exists (fun ri -> ri.rop <> OpDiff) results && (incr commute_seen; (!commute_seen - 1) mod commute_stride = 0) then begin
          match overlay_dcel_full b a with
          | None -> failc "SPEC" "pipeline_commutes" (Printf.sprintf "overlay=%s the model reports an error outcome on the swapped operands" oname)
          | Some ov' ->
            List.iter (fun ri ->
                if ri.rop <> OpDiff then
                  match extract_geometry ri.rop ov, extract_geometry ri.rop ov' with
                  | Some r1, Some r2 ->
                    count "pipeline_commutes_evaluated";
                    if geom_eq r1 r2 then count "pipeline_commutes_identical"
                    else begin
                      let w = ctx_witnesses [r1; r2] in
                      let f1 = mem_p (prep r1) and f2 = mem_p (prep r2) in
                      if List.exists (fun wi -> f1 (wpt wi) <> f2 (wpt wi)) w || not (qeq_bool (result_area r1) (result_area r2)) then
                        failc "SPEC" "pipeline_commutes" (Printf.sprintf "overlay=%s op=%s the model's results on (a,b) and (b,a) are different point sets" oname (op_name ri.rop))
                      else count "pipeline_commutes_same_point_set"
                    end
                  | _ -> failc "SPEC" "pipeline_commutes" (Printf.sprintf "overlay=%s op=%s error outcome" oname (op_name ri.rop))) results
        end
    end
  end
