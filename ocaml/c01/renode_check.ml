(* C01 correspondence for the first phases of the overlay engine (coq/Model/OverlayRenode.v):
   createGhosts -> reNodeGeometries -> findInteractionPoints -> forEachNonInteractingSegment.

   One entry function, [check], called by driver.ml for every dumped overlay (hook
   geom/verif_hooks.go:VerifOverlay).  The extracted EXACT model is run on the operands and compared
   with the real DCEL:
     CORR renode_vertices   the set of DCEL vertices (snapped) = the model's interaction points
     CORR renode_chains     the multiset of half-edge point chains (snapped) = the model's half edges
     CORR renode_unmatched  a point of the real DCEL is not within the tolerance of any exact control point
     CORR renode_chain_split  the model's forEachNonInteractingSegment finds no end for a chain
     CORR renode_intersect_line  the transcription of intersectLine's case analysis disagrees with the kernel
     SPEC renode_noded      T2's executable form (noded_b) is false of the REAL chains after snapping
     SPEC renode_chain_ends T4's executable form: a real chain does not end at DCEL vertices, or passes through one
   Restrictions (counted): lattice classes only (the caller decides), no distance tie in the ghost
   spanning tree (the R-tree's order would decide), no two distinct exact control points closer than
   twice the tolerance (there the float node set may legitimately merge), bounded size, and a
   deterministic stride over the overlays of a run (the exact line x line pass is quadratic). *)
open Model
open Sfio

let rec pos_to_float = function XH -> 1.0 | XO p -> 2.0 *. pos_to_float p | XI p -> 2.0 *. pos_to_float p +. 1.0
let z_to_float = function Z0 -> 0.0 | Zpos p -> pos_to_float p | Zneg p -> -. pos_to_float p
let q_to_float (x : q) : float = z_to_float x.qnum /. pos_to_float x.qden
let pstr (p : pt) = Printf.sprintf "(%.12g %.12g)" (q_to_float (fst p)) (q_to_float (snd p))

let env_int name default = try int_of_string (Sys.getenv name) with _ -> default
let stride = env_int "VERIF_RENODE_STRIDE" 1
let max_lines = env_int "VERIF_RENODE_MAX_LINES" 200
let seen = ref 0

let real_pt (s : string) : (float * float) * pt =
  match String.split_on_char ' ' s with
  | [x; y] ->
    ((Int64.float_of_bits (Int64.of_string ("0x" ^ x)), Int64.float_of_bits (Int64.of_string ("0x" ^ y))),
     (f64_or0 (n_of_hex x), f64_or0 (n_of_hex y)))
  | _ -> failwith "renode_check: bad point"

let check ~(failc : string -> string -> string -> unit) ~(oname : string)
    ~(a : q geomT) ~(b : q geomT) ~(tol2 : q) ~(vxy : string array) ~(eseq : string array array) : unit =
  incr seen;
  let lines_in g = List.fold_left (fun n e -> n + max 0 (List.length e - 1)) 0 (g_elems g) in
  let nl = lines_in a + lines_in b in
  if (!seen - 1) mod stride <> 0 then count "renode_skipped_stride"
  else if nl > max_lines then count "renode_skipped_size"
  else if spanning_tree_tie (component_pts a @ component_pts b) then count "renode_skipped_ghost_tie"
  else begin
    let sk = Pipeline_check.skeleton a b in   (* shared with pipeline_check.ml: same operands, same overlay *)
    let r = sk.sk_renoded in
    (* ---- the exact control points of the model *)
    let all_pts = List.concat (rn_all r) @ g_points a @ g_points b in
    let tbl : (float * float, (int * pt) list) Hashtbl.t = Hashtbl.create 64 in
    let acc = ref [] and n = ref 0 in
    let index_of (p : pt) : int =
      let k = (q_to_float (fst p), q_to_float (snd p)) in
      let cands = try Hashtbl.find tbl k with Not_found -> [] in
      match List.find_opt (fun (_, q') -> pt_eqb p q') cands with
      | Some (i, _) -> i
      | None -> let i = !n in incr n; Hashtbl.replace tbl k ((i, p) :: cands); acc := (p, k) :: !acc; i in
    List.iter (fun p -> ignore (index_of p)) all_pts;
    let m = Array.of_list (List.rev_map fst !acc) and mf = Array.of_list (List.rev_map snd !acc) in
    let nm = Array.length m in
    (* no two distinct exact control points within twice the tolerance *)
    let tolf2 = q_to_float tol2 in
    let close = ref false in
    for i = 0 to nm - 1 do for j = i + 1 to nm - 1 do
        let (x1, y1) = mf.(i) and (x2, y2) = mf.(j) in
        if (x1 -. x2) ** 2.0 +. (y1 -. y2) ** 2.0 <= 4.0 *. tolf2 then close := true done done;
    if !close then count "renode_skipped_close_control_points"
    else begin
      count "renode_overlays_compared";
      (* snapping of a real point onto the exact control points: the candidate is chosen in float
         arithmetic and accepted only by the exact test dist2 <= tol^2 *)
      let unmatched = ref None in
      let snap (s : string) : int =
        let ((fx, fy), pq) = real_pt s in
        let best = ref (-1) and bd = ref infinity in
        Array.iteri (fun i (x, y) -> let d = (x -. fx) ** 2.0 +. (y -. fy) ** 2.0 in if d < !bd then (bd := d; best := i)) mf;
        if !best >= 0 && qle_bool (dist2 m.(!best) pq) tol2 then !best
        else begin (if !unmatched = None then unmatched := Some (pstr pq)); -1 end in
      let rverts = Array.map snap vxy in
      let rchains = Array.map (fun c -> Array.to_list (Array.map snap c)) eseq in
      (match !unmatched with
       | Some p -> failc "CORR" "renode_unmatched" (Printf.sprintf "overlay=%s real point %s is not within the tolerance of any exact control point of the model" oname p)
       | None ->
         let istr l = String.concat "," (List.map string_of_int l) in
         (* (i) vertices *)
         let mverts = List.sort_uniq compare (List.map index_of sk.sk_vertices) in
         let rv = List.sort_uniq compare (Array.to_list rverts) in
         if mverts <> rv then begin
           let only l l' = List.filter (fun i -> not (List.mem i l')) l in
           let show l = String.concat " " (List.map (fun i -> pstr m.(i)) l) in
           failc "CORR" "renode_vertices"
             (Printf.sprintf "overlay=%s impl has %d vertices, model %d; only impl: %s; only model: %s" oname
                (List.length rv) (List.length mverts) (show (only rv mverts)) (show (only mverts rv)))
         end;
         if List.length rv <> Array.length rverts then
           failc "SPEC" "renode_vertices_merged" (Printf.sprintf "overlay=%s two DCEL vertices snap onto the same exact point" oname);
         (* (ii) chains *)
         (match sk.sk_chains with
          | None -> failc "CORR" "renode_chain_split" (Printf.sprintf "overlay=%s the model finds a chain without a closing interaction point" oname)
          | Some cs ->
            let mh = List.sort compare (List.map (fun c -> istr (List.map index_of c)) (half_edges cs)) in
            let rh = List.sort compare (List.map istr (Array.to_list rchains)) in
            count "renode_chains_compared";
            Hashtbl.replace counters "renode_half_edges" ((try Hashtbl.find counters "renode_half_edges" with Not_found -> 0) + List.length rh);
            if mh <> rh then begin
              let only l l' = List.filter (fun c -> not (List.mem c l')) l in
              let show c = String.concat " " (List.map (fun i -> pstr m.(int_of_string i)) (String.split_on_char ',' c)) in
              let f l = match l with [] -> "-" | c :: _ -> show c in
              failc "CORR" "renode_chains"
                (Printf.sprintf "overlay=%s impl has %d half-edge chains, model %d; first only impl: %s; first only model: %s" oname
                   (List.length rh) (List.length mh) (f (only rh mh)) (f (only mh rh)))
            end);
         (* T2 on the REAL chains *)
         let pieces = Hashtbl.create 64 in
         let degenerate = ref false in
         Array.iter (fun c ->
             let rec go = function
               | i :: (j :: _ as rest) -> (if i = j then degenerate := true else Hashtbl.replace pieces (min i j, max i j) ()); go rest
               | _ -> () in go c) rchains;
         if !degenerate then failc "SPEC" "renode_noded" (Printf.sprintf "overlay=%s a real chain has two consecutive points that snap onto the same exact point" oname);
         let ps = Array.of_list (Hashtbl.fold (fun k () l -> k :: l) pieces []) in
         let box (i, j) = let (x1, y1) = mf.(i) and (x2, y2) = mf.(j) in (Float.min x1 x2, Float.min y1 y2, Float.max x1 x2, Float.max y1 y2) in
         let bx = Array.map box ps in
         let bad = ref None in
         Array.iteri (fun u pu -> Array.iteri (fun v pv ->
             if u < v && !bad = None then begin
               let (a0, b0, a1, b1) = bx.(u) and (c0, d0, c1, d1) = bx.(v) in
               (* bounding boxes separated by more than the conversion error: no common point, meet_ok_b = true *)
               let eps = 1e-9 *. (1.0 +. Float.abs a0 +. Float.abs a1 +. Float.abs b0 +. Float.abs b1) in
               if not (a1 +. eps < c0 || c1 +. eps < a0 || b1 +. eps < d0 || d1 +. eps < b0) then
                 if not (meet_ok_b (m.(fst pu), m.(snd pu)) (m.(fst pv), m.(snd pv))) then bad := Some (pu, pv)
             end) ps) ps;
         count "renode_noded_evaluated";
         (match !bad with
          | Some ((i, j), (k, l)) ->
            failc "SPEC" "renode_noded"
              (Printf.sprintf "overlay=%s the real pieces %s-%s and %s-%s meet at a point that is not a common end (and are not the same segment)"
                 oname (pstr m.(i)) (pstr m.(j)) (pstr m.(k)) (pstr m.(l)))
          | None -> ());
         (* T4 on the REAL chains: ends are vertices, interior points are not *)
         let isv = Hashtbl.create 64 in
         Array.iter (fun i -> Hashtbl.replace isv i ()) rverts;
         Array.iter (fun c ->
             let nc = List.length c in
             List.iteri (fun k i ->
                 let v = Hashtbl.mem isv i in
                 if (k = 0 || k = nc - 1) <> v then
                   failc "SPEC" "renode_chain_ends"
                     (Printf.sprintf "overlay=%s point %s of a real chain: position %d of %d, DCEL vertex: %b" oname (pstr m.(i)) k nc v)) c) rchains;
         (* the float case analysis of intersectLine against the kernel, on the lines of this input *)
         let ls = List.concat_map lines_of (g_elems a @ g_elems b @ sk.sk_ghost_lines) in
         List.iter (fun l -> List.iter (fun l' ->
             if not (isect_agree_b l l') then
               failc "CORR" "renode_intersect_line"
                 (Printf.sprintf "overlay=%s lines %s-%s and %s-%s" oname (pstr (fst l)) (pstr (snd l)) (pstr (fst l')) (pstr (snd l')))) ls) ls)
    end
  end
