(* C02 correspondence driver: RelateMatches exhaustively (MX), on arbitrary strings (MS), and
   Relate + the nine predicates on generated ordered pairs (PR) against the extracted model
   (coq/Model/Relate.v over coq/Base/Planar.v). *)
open Model
open Sfio

(* ---------------------------------------------------------------- numbers *)
let z_of_int (i : int) : z = if i = 0 then Z0 else if i > 0 then Zpos (pos_of_int i) else Zneg (pos_of_int (-i))
let z10 = z_of_int 10

(* decimal (possibly huge) -> Z *)
let z_of_dec (s : string) : z =
  let neg = String.length s > 0 && s.[0] = '-' in
  let start = if neg then 1 else 0 in
  let acc = ref Z0 in
  for i = start to String.length s - 1 do
    let d = Char.code s.[i] - 48 in
    if d < 0 || d > 9 then failwith ("bad number " ^ s);
    acc := Z.add (Z.mul !acc z10) (z_of_int d)
  done;
  if neg then Z.opp !acc else !acc

let q_of_string (s : string) : q =
  match String.index_opt s '/' with
  | None -> inject_Z (z_of_dec s)
  | Some i ->
    let n = z_of_dec (String.sub s 0 i) and d = z_of_dec (String.sub s (i + 1) (String.length s - i - 1)) in
    qred { qnum = n; qden = Z.to_pos d }

let q0 = inject_Z Z0

(* ---------------------------------------------------------------- geometry parser (harness/cmd/c02 dumpGeom) *)
let parse_geom (s : string) : q geomT =
  let cur = ref (tokens s) in
  let next () = match !cur with [] -> raise (Parse_error "eof") | t :: r -> cur := r; t in
  let peek () = match !cur with [] -> "" | t :: _ -> t in
  let int () = int_of_string (next ()) in
  let vtx () = let x = q_of_string (next ()) in let y = q_of_string (next ()) in { vx = x; vy = y; vz = q0; vm = q0 } in
  let line () = let k = int () in MkLine (XY, List.init k (fun _ -> vtx ())) in
  let point () = if peek () = "E" then (ignore (next ()); MkPoint (XY, None)) else MkPoint (XY, Some (vtx ())) in
  let poly () = let r = int () in MkPoly (XY, List.init r (fun _ -> line ())) in
  let rec geom () =
    match next () with
    | "P" -> GPoint (point ())
    | "L" -> GLine (line ())
    | "Y" -> GPoly (poly ())
    | "MP" -> let k = int () in GMPoint (XY, List.init k (fun _ -> point ()))
    | "ML" -> let k = int () in GMLine (XY, List.init k (fun _ -> line ()))
    | "MY" -> let k = int () in GMPoly (XY, List.init k (fun _ -> poly ()))
    | "GC" -> let k = int () in GColl (XY, List.init k (fun _ -> geom ()))
    | t -> raise (Parse_error ("unknown tag " ^ t)) in
  let g = geom () in
  if !cur <> [] then raise (Parse_error "trailing tokens");
  g

(* ---------------------------------------------------------------- strings *)
let bytes_of_string (s : string) : n list = List.init (String.length s) (fun i -> n_of_int (Char.code s.[i]))
let dim_char = function DF -> 'F' | D0 -> '0' | D1 -> '1' | D2 -> '2'
let matrix_string (m : matrix) : string =
  let l = Array.of_list (matrix_list m) in String.init 9 (fun i -> dim_char l.(i))
let rm_char = function RM true -> '1' | RM false -> '0' | RMErr -> 'e'
let preds_string (l : rmres list) : string = let a = Array.of_list l in String.init (Array.length a) (fun i -> rm_char a.(i))
let pred_names = [| "Equals"; "Disjoint"; "Touches"; "Contains"; "Covers"; "Within"; "CoveredBy"; "Crosses"; "Overlaps" |]
let string_of_hex (h : string) : string =
  String.init (String.length h / 2) (fun i -> Char.chr (16 * hexval h.[2 * i] + hexval h.[2 * i + 1]))
let transpose_string (s : string) : string =
  if String.length s <> 9 then s else String.init 9 (fun i -> s.[3 * (i mod 3) + i / 3])

(* documented OGC patterns evaluated directly on a 9-character matrix (independent of the model's matcher) *)
let ogc_match (m : string) (p : string) : bool =
  let ok = ref true in
  String.iteri (fun i c ->
      let e = m.[i] in
      let good = match c with
        | '*' -> true
        | 'T' -> e <> 'F'
        | c -> e = c in
      if not good then ok := false) p;
  !ok

let samples = ref 0

let () =
  let path = Sys.argv.(1) in
  let args = Array.to_list (Array.sub Sys.argv 2 (Array.length Sys.argv - 2)) in
  let fixed_model = not (List.mem "unfixed" args) in
  (* the overlay labels are judged cell by cell for one pair in [every] (cost: about 3 ms per pair) *)
  let every = List.fold_left (fun acc a ->
      if String.length a > 6 && String.sub a 0 6 = "every=" then int_of_string (String.sub a 6 (String.length a - 6)) else acc) 1 args in
  let overlay_seen = ref 0 in
  let digits = [| cF; c0; c1; c2 |] in
  iter_lines path (fun line ->
      let f = split_tabs line in
      let id = f.(0) in
      incr cases;
      (* a malformed line (e.g. a case file overwritten by a concurrent run) is a failure, not a crash *)
      try
      match f.(1) with
      | "MX" ->
        let pat = bytes_of_string f.(2) and obs = f.(3) in
        count "matcher_patterns";
        let bad = ref 0 in
        for k = 0 to 262143 do
          let m = List.init 9 (fun i -> digits.((k lsr (2 * (8 - i))) land 3)) in
          let r = rm_char (relate_matches m pat) in
          if r <> obs.[k] then begin
            incr bad;
            if !bad <= 3 then
              fail id "CORR" "relate_matches_exhaustive"
                (Printf.sprintf "pattern=%s matrix#%d model=%c impl=%c" f.(2) k r obs.[k])
          end
        done;
        note_case ("MX" ^ f.(2)) true
      | "MS" ->
        let m = string_of_hex f.(2) and p = string_of_hex f.(3) in
        let r = rm_char (relate_matches (bytes_of_string m) (bytes_of_string p)) in
        count ("matcher_string_" ^ String.make 1 r);
        note_case (f.(2) ^ "/" ^ f.(3)) true;
        if String.make 1 r <> f.(4) then
          fail id "CORR" "relate_matches_strings" (Printf.sprintf "mat=%s pat=%s model=%c impl=%s" f.(2) f.(3) r f.(4))
      | "PR" ->
        let cls = f.(2) in
        let a = parse_geom f.(3) and b = parse_geom f.(4) in
        let rab = f.(5) and rba = f.(6) and pab = f.(7) and pba = f.(8) in
        let valid = f.(9) = "11" in
        let dom = valid && members_disjoint a && members_disjoint b in
        count ("class_" ^ cls);
        if Array.length f > 13 && f.(13) <> "0" then count (if f.(13).[0] = '-' then "pow2_scaled_down" else "pow2_scaled_up");
        if not valid then count "skipped_invalid"
        else if not dom then count "outside_domain_overlapping_members"
        else begin
          let ea = is_empty a and eb = is_empty b in
          note_case (f.(3) ^ "|" ^ f.(4)) (not (ea && eb));
          if ea || eb then count "empty_operand" else count "nonempty_pair";
          (* CORR: Relate against the model (closed form for empty operands, de9im_ref otherwise) *)
          let rel = if fixed_model then relate else relate_unfixed in
          let mab = matrix_string (rel a b) in
          count ("matrix_" ^ mab);
          if mab <> rab then fail id "CORR" "relate" (Printf.sprintf "model=%s impl=%s" mab rab);
          let mba = matrix_string (rel b a) in
          if mba <> rba then fail id "CORR" "relate_ba" (Printf.sprintf "model=%s impl=%s" mba rba);
          (* the definitional matrix (also for empty operands: everything is exterior to an empty set) *)
          let dab = matrix_string (de9im_ref a b) in
          if dab <> rab then fail id "SPEC" "relate_is_de9im" (Printf.sprintf "definition=%s impl=%s" dab rab);
          (* SPEC: Relate(b,a) is the transpose *)
          if String.length rab = 9 && rba <> transpose_string rab then
            fail id "SPEC" "relate_transpose" (Printf.sprintf "ab=%s ba=%s" rab rba);
          (* CORR: the nine predicates as functions of the implementation's own matrix *)
          let dimf = if fixed_model then dimension_ie else dimension in
          if String.length rab = 9 && String.length rba = 9 then begin
            let qab = preds_string (go_preds (bytes_of_string rab) (dimf a) (dimf b) ea eb) in
            if qab <> pab then fail id "CORR" "predicates" (Printf.sprintf "model=%s impl=%s matrix=%s" qab pab rab);
            let qba = preds_string (go_preds (bytes_of_string rba) (dimf b) (dimf a) eb ea) in
            if qba <> pba then fail id "CORR" "predicates_ba" (Printf.sprintf "model=%s impl=%s matrix=%s" qba pba rba);
            (* SPEC: dualities and negation on the implementation's outputs *)
            let p i = pab.[i] and q i = pba.[i] in
            if p 3 <> q 5 then fail id "SPEC" "contains_within_dual" (Printf.sprintf "Contains(a,b)=%c Within(b,a)=%c" (p 3) (q 5));
            if p 5 <> q 3 then fail id "SPEC" "contains_within_dual" (Printf.sprintf "Within(a,b)=%c Contains(b,a)=%c" (p 5) (q 3));
            if p 4 <> q 6 then fail id "SPEC" "covers_coveredby_dual" (Printf.sprintf "Covers(a,b)=%c CoveredBy(b,a)=%c" (p 4) (q 6));
            if p 6 <> q 4 then fail id "SPEC" "covers_coveredby_dual" (Printf.sprintf "CoveredBy(a,b)=%c Covers(b,a)=%c" (p 6) (q 4));
            List.iter (fun i -> if p i <> q i then
                          fail id "SPEC" "symmetric_predicate" (Printf.sprintf "%s(a,b)=%c (b,a)=%c" pred_names.(i) (p i) (q i)))
              [0; 1; 2; 7; 8];
            (* Disjoint = not Intersects: no point of the definitional arrangement is in both *)
            let inter = List.exists (fun (w, _) -> inG a w && inG b w) (pair_witnesses a b) in
            if (p 1 = '1') = inter then
              fail id "SPEC" "disjoint_is_not_intersects" (Printf.sprintf "Disjoint=%c some common point=%b" (p 1) inter);
            (* geom.Intersects itself (a separate, non-overlay code path) is the negation of Disjoint, is
               symmetric, and says whether the two point sets share a point *)
            if Array.length f > 14 && String.length f.(14) = 2 then begin
              count "intersects_observed";
              let iab = f.(14).[0] and iba = f.(14).[1] in
              if iab = 'p' || iba = 'p' then fail id "SPEC" "intersects_panics" f.(14);
              if (iab = '1') = (p 1 = '1') then
                fail id "SPEC" "intersects_is_not_disjoint" (Printf.sprintf "Intersects(a,b)=%c Disjoint(a,b)=%c" iab (p 1));
              if (iba = '1') = (q 1 = '1') then
                fail id "SPEC" "intersects_is_not_disjoint" (Printf.sprintf "Intersects(b,a)=%c Disjoint(b,a)=%c" iba (q 1));
              if (iab = '1') <> inter then
                fail id "SPEC" "intersects_is_common_point" (Printf.sprintf "Intersects(a,b)=%c some common point=%b" iab inter);
              if (iba = '1') <> inter then
                fail id "SPEC" "intersects_is_common_point" (Printf.sprintf "Intersects(b,a)=%c some common point=%b" iba inter);
              (* CORR: the Intersects model (the one disjoint_is_not_intersects is about); its hypotheses
                 operand_okb are evaluated on every pair (valid inputs must satisfy them) *)
              let mi = intersects a b in
              if mi <> (iab = '1') then
                fail id "CORR" "intersects_model" (Printf.sprintf "model=%b impl=%c" mi iab);
              if operand_okb a && operand_okb b then begin
                count "theorem_hypotheses_operand_okb_hold";
                (* the theorem instantiated: Disjoint of the model's matrix = not Intersects of the model *)
                if (mab.[0] <> 'F' || mab.[1] <> 'F' || mab.[3] <> 'F' || mab.[4] <> 'F') <> mi then
                  fail id "CORR" "disjoint_is_not_intersects_instance" (Printf.sprintf "matrix=%s intersects=%b" mab mi)
              end else fail id "CORR" "operand_ok_of_valid" "Validate accepts, operand_okb rejects";
              if iab = '1' then count "true_Intersects"
            end;
            (* documented patterns on the definitional matrix (non-empty operands) *)
            if not (ea || eb) then begin
              let chk i pats = let want = List.exists (ogc_match dab) pats in
                if (p i = '1') <> want then
                  fail id "SPEC" "predicate_pattern" (Printf.sprintf "%s=%c documented patterns on %s give %b" pred_names.(i) (p i) dab want) in
              chk 0 ["T*F**FFF*"]; chk 1 ["FF*FF****"]; chk 2 ["FT*******"; "F**T*****"; "F***T****"];
              chk 3 ["T*****FF*"]; chk 4 ["T*****FF*"; "*T****FF*"; "***T**FF*"; "****T*FF*"];
              chk 5 ["T*F**F***"]; chk 6 ["T*F**F***"; "*TF**F***"; "**FT*F***"; "**F*TF***"];
              (* Crosses / Overlaps: the OGC dimension cases, with the dimension of the non-empty part *)
              let da = int_of_nat (dimension_ie a) and db = int_of_nat (dimension_ie b) in
              chk 7 (if da < db then ["T*T******"] else if da > db then ["T*****T**"]
                     else if da = 1 then ["0********"] else []);
              chk 8 (if da <> db then [] else if da = 1 then ["1*T***T**"] else ["T*T***T**"])
            end;
            for i = 0 to 8 do if p i = '1' then count ("true_" ^ pred_names.(i)) done
          end;
          (* SPEC: empty members of collections are transparent (F8) *)
          if Array.length f > 11 && f.(10) <> "-" then begin
            count "empty_member_pairs";
            if f.(10) <> rab then
              fail id "SPEC" "empty_member_transparent_relate" (Printf.sprintf "with=%s without=%s" rab f.(10));
            if f.(11) <> pab then
              fail id "SPEC" "empty_member_transparent_predicates" (Printf.sprintf "with=%s without=%s" pab f.(11))
          end;
          (* the labelled overlay behind Relate(a,b), when the hook exported it *)
          if Array.length f > 12 && f.(12) <> "-" && String.length rab = 9 then begin
            let shift = if Array.length f > 13 then int_of_string f.(13) else 0 in
            if shift <> 0 then count "overlay_pow2_rescaled";
            let o = Overlay.parse_overlay ~shift f.(12) in
            count "overlay_dumps";
            if o.Overlay.matrix <> rab then
              fail id "CORR" "overlay_is_relates" (Printf.sprintf "matrix of the dumped overlay=%s Relate=%s" o.Overlay.matrix rab);
            (* CORR: the transcription of extractIntersectionMatrix on Go's own labels *)
            (match matrix_of_complex o.Overlay.xc with
             | Some m -> let ms = matrix_string m in
               if ms <> rab then fail id "CORR" "matrix_of_complex" (Printf.sprintf "model on the dumped labels=%s impl=%s" ms rab)
             | None -> fail id "CORR" "matrix_of_complex" ("model panics (vertex without incident half edge) impl=" ^ rab));
            (match matrix_of_complex (swap_x o.Overlay.xc) with
             | Some m -> if matrix_string m <> rba then
                 fail id "SPEC" "overlay_swap_is_relate_ba" (Printf.sprintf "swapped overlay=%s Relate(b,a)=%s" (matrix_string m) rba)
             | None -> ());
            (* SPEC: the arbitrary incident half edge of vertexRecord.location does not matter *)
            if not (incidents_agree o.Overlay.xc) then fail id "SPEC" "dcel_incidents_agree" "incident half edges of an unflagged vertex disagree";
            (* SPEC: every cell's label is the definitional location at a witness of the cell *)
            incr overlay_seen;
            if !overlay_seen mod every = 0 then begin
              let probs, st = Overlay.judge_overlay a b o in
              List.iter (fun (k, v) -> for _ = 1 to v do count k done) st;
              List.iter (fun (name, detail) -> fail id "SPEC" name detail) probs
            end
          end;
          if !samples < 4 && not (ea || eb) && String.length line < 400 then begin
            incr samples; Printf.printf "SAMPLE\t%s\n" line end
        end
      | k -> fail id "CORR" "unknown_line_kind" k
      with
      | Parse_error m -> fail id "CORR" "malformed_case_line" m
      | Failure m -> fail id "CORR" "malformed_case_line" m
      | Invalid_argument m -> fail id "CORR" "malformed_case_line" m
      | Not_found -> fail id "CORR" "malformed_case_line" "not found");
  finish ()
