(* C02: parser of the dump of geom/verif_hooks_relate.go:VerifRelateOverlay and the per-cell judgement of
   its labels against the definitional semantics (coq/Base/Planar.v), with the extracted exact kernel.
   Hand-written and trusted, like the driver. *)
open Model
open Sfio

let z_of_int (i : int) : z = if i = 0 then Z0 else if i > 0 then Zpos (pos_of_int i) else Zneg (pos_of_int (-i))
let rec pow2 (k : int) : positive = if k = 0 then XH else XO (pow2 (k - 1))

(* exact value of an IEEE-754 double given by its 16 hex digits *)
let q_of_f64hex ?(shift = 0) (h : string) : q =   (* shift: divide by 2^shift *)
  let hi = int_of_string ("0x" ^ String.sub h 0 4) and lo = int_of_string ("0x" ^ String.sub h 4 12) in
  let sign = hi lsr 15 and ex = (hi lsr 4) land 0x7ff in
  let mant = ((hi land 0xf) lsl 48) lor lo in
  if ex = 0x7ff then failwith "non-finite coordinate in overlay dump";
  let m, e = if ex = 0 then mant, -1074 else mant lor (1 lsl 52), ex - 1075 in
  let e = e - shift in
  let m = if sign = 1 then -m else m in
  if m = 0 then inject_Z Z0
  else if e >= 0 then inject_Z (Z.mul (z_of_int m) (Zpos (pow2 e)))
  else qred { qnum = z_of_int m; qden = pow2 (-e) }

type overlay = {
  xc : xcomplex;
  vpts : pt array;                 (* vertex coordinates *)
  eseq : pt array array;           (* the polyline of every half edge *)
  matrix : string;                 (* the matrix Go extracted from this very overlay *)
}

let parse_overlay ?(shift = 0) (s : string) : overlay =
  let q_of_f64hex h = q_of_f64hex ~shift h in
  let toks = Array.of_list (tokens s) in
  let pos = ref 0 in
  let next () = let t = toks.(!pos) in incr pos; t in
  let int () = int_of_string (next ()) in
  let bit () = next () = "1" in
  let lab () = let a = bit () in let b = bit () in (a, b) in
  let nat () = let i = int () in nat_of_int (if i < 0 then 1000000 else i) in
  let expect t = if next () <> t then raise (Parse_error ("overlay: expected " ^ t)) in
  expect "V";
  let nv = int () in
  let vpts = Array.make nv (inject_Z Z0, inject_Z Z0) in
  let verts = ref [] and locs = ref [] in
  for i = 0 to nv - 1 do
    let x = q_of_f64hex (next ()) in let y = q_of_f64hex (next ()) in
    vpts.(i) <- (x, y);
    let src = lab () in let ins = lab () in
    let ia = bit () in let ba = bit () in let ib = bit () in let bb = bit () in
    verts := { v_src = src; v_in = ins } :: !verts;
    locs := ({ vl_interior = ia; vl_boundary = ba }, { vl_interior = ib; vl_boundary = bb }) :: !locs
  done;
  expect "E";
  let ne = int () in
  let eseq = Array.make ne [||] in
  let edges = ref [] in
  for i = 0 to ne - 1 do
    let o = nat () in let tw = nat () in let nx = nat () in let pv = nat () in let fc = nat () in
    let se = lab () in let sf = lab () in let ins = lab () in
    let n = int () in
    eseq.(i) <- Array.init n (fun _ -> let x = q_of_f64hex (next ()) in let y = q_of_f64hex (next ()) in (x, y));
    edges := { e_origin = o; e_twin = tw; e_next = nx; e_prev = pv; e_face = fc;
               e_srcEdge = se; e_srcFace = sf; e_in = ins } :: !edges
  done;
  expect "F";
  let nf = int () in
  let faces = ref [] in
  for _ = 0 to nf - 1 do
    let c = int () in let ins = lab () in
    faces := { f_cycle = (if c < 0 then None else Some (nat_of_int c)); f_in = ins } :: !faces
  done;
  expect "M";
  let m = next () in
  { xc = { x_c = { c_verts = List.rev !verts; c_edges = List.rev !edges; c_faces = List.rev !faces };
           x_locs = List.rev !locs };
    vpts; eseq; matrix = m }

(* ---------------------------------------------------------------- exact helpers *)
let qlt a b = qcompare a b = Lt
let qle a b = qle_bool a b
let qeq a b = qeq_bool a b
let q2 = inject_Z (z_of_int 2)

(* squared distance from q to the closed segment (a,b) *)
let dist2_pt_seg ((px, py) : pt) (((ax, ay), (bx, by)) : seg) : q =
  let dx = qminus bx ax and dy = qminus by ay in
  let len2 = qplus (qmult dx dx) (qmult dy dy) in
  let sq (x, y) = qplus (qmult x x) (qmult y y) in
  if qeq len2 (inject_Z Z0) then sq (qminus px ax, qminus py ay)
  else begin
    let t = qdiv (qplus (qmult (qminus px ax) dx) (qmult (qminus py ay) dy)) len2 in
    let t = if qlt t (inject_Z Z0) then inject_Z Z0 else if qlt (inject_Z (z_of_int 1)) t then inject_Z (z_of_int 1) else t in
    let cx = qplus ax (qmult t dx) and cy = qplus ay (qmult t dy) in
    sq (qminus px cx, qminus py cy)
  end

let loc_name = function Interior -> "I" | Boundary -> "B" | Exterior -> "E"

(* the judgement of one overlay: returns (problems, stats) where a problem is (check name, detail) *)
let judge_overlay (a : q geomT) (b : q geomT) (o : overlay) : (string * string) list * (string * int) list =
  let problems = ref [] and stats = Hashtbl.create 8 in
  let bump k = Hashtbl.replace stats k (1 + (try Hashtbl.find stats k with Not_found -> 0)) in
  let problem name detail = if List.length !problems < 3 then problems := (name, detail) :: !problems in
  let c = o.xc.x_c in
  let edges = Array.of_list c.c_edges and faces = Array.of_list c.c_faces in
  let locs = Array.of_list o.xc.x_locs in
  let ne = Array.length edges in
  (* all directed segments of all half edges: (half edge id, p, q) *)
  let dsegs = ref [] in
  Array.iteri (fun i sq -> for j = 0 to Array.length sq - 2 do dsegs := (i, sq.(j), sq.(j + 1)) :: !dsegs done) o.eseq;
  let dsegs = Array.of_list !dsegs in
  (* one undirected copy for the arrangement *)
  let useg = List.filter_map (fun (i, p, q) -> if i < int_of_nat edges.(i).e_twin then Some (p, q) else None) (Array.to_list dsegs) in
  (* exactness: every point of the overlay is exactly on, or clearly off, every segment of the operands
     (no rounded intersection point); otherwise lower-dimensional cells cannot be judged exactly *)
  let opsegs = arr_segments a @ arr_segments b in
  let allpts = Array.to_list o.vpts @ List.concat_map (fun (_, p, q) -> [p; q]) (Array.to_list dsegs) in
  let eps2 = qred { qnum = z_of_int 1; qden = pow2 60 } in   (* (2^-30)^2, coordinates are of magnitude <= 2^10 *)
  let exact = List.for_all (fun p -> List.for_all (fun t -> on_seg t p || not (qlt (dist2_pt_seg p t) eps2)) opsegs) allpts in
  if not exact then (bump "overlay_inexact_nodes_skipped"; ([], Hashtbl.fold (fun k v acc -> (k, v) :: acc) stats []))
  else begin
    bump "overlay_judged";
    let pa = prep a and pb = prep b in
    let xs_of_pts = List.map fst allpts in
    let vloc i op = vertex_loc c (nat_of_int i) locs.(i) op in
    let check what (la, lb) (ga, gb) w =
      if la <> ga || lb <> gb then
        problem "dcel_labels_sound"
          (Printf.sprintf "%s: overlay label %s%s, definitional location %s%s" what (loc_name ga) (loc_name gb) (loc_name la) (loc_name lb));
      ignore w in
    let face_hit = Array.make (Array.length faces) false in
    List.iter (fun ((w : pt), d) ->
        let la = locate_p pa w and lb = locate_p pb w in
        match d with
        | D0 | D1 ->
          (* a vertex of the overlay? *)
          let vi = ref (-1) in
          Array.iteri (fun i p -> if !vi < 0 && pt_eqb p w then vi := i) o.vpts;
          if !vi >= 0 then begin
            bump "cells_vertex";
            match vloc !vi false, vloc !vi true with
            | Some ga, Some gb -> check (Printf.sprintf "vertex %d" !vi) (la, lb) (ga, gb) w
            | _ -> problem "dcel_vertex_without_incident_edge" (string_of_int !vi)
          end else begin
            (* a point of some half edge (interior point of its polyline) *)
            let found = ref (-1) in
            Array.iter (fun (i, p, q) -> if !found < 0 && on_seg (p, q) w then found := i) dsegs;
            if !found < 0 then problem "dcel_cells_cover" "an arrangement vertex or edge point of the overlay's own segments is on no half edge"
            else begin
              bump "cells_edge";
              (* both half edges of the pair must give the label *)
              List.iter (fun i ->
                  let e = edges.(i) in
                  check (Printf.sprintf "half edge %d" i) (la, lb) (edge_loc c e false, edge_loc c e true) w)
                [!found; int_of_nat edges.(!found).e_twin]
            end
          end
        | D2 ->
          let (wx, wy) = w in
          if List.exists (fun x -> qeq x wx) xs_of_pts then bump "cells_face_on_event_line_skipped"
          else begin
            (* nearest directed segment strictly above w running towards -x: w is on its left *)
            let best = ref None in
            Array.iter (fun (i, (px, py), (qx, qy)) ->
                if qlt qx wx && qlt wx px then begin
                  let y = qplus py (qdiv (qmult (qminus wx px) (qminus qy py)) (qminus qx px)) in
                  if qlt wy y then
                    match !best with
                    | Some (_, yb) when not (qlt y yb) -> ()
                    | _ -> best := Some (i, y)
                end) dsegs;
            (* or the nearest strictly below running towards +x *)
            let best = match !best with
              | Some _ -> !best
              | None ->
                let bb = ref None in
                Array.iter (fun (i, (px, py), (qx, qy)) ->
                    if qlt px wx && qlt wx qx then begin
                      let y = qplus py (qdiv (qmult (qminus wx px) (qminus qy py)) (qminus qx px)) in
                      if qlt y wy then
                        match !bb with
                        | Some (_, yb) when not (qlt yb y) -> ()
                        | _ -> bb := Some (i, y)
                    end) dsegs;
                !bb in
            match best with
            | None -> bump "cells_face_outside_all_edges"
            | Some (i, _) ->
              let f = int_of_nat edges.(i).e_face in
              if f >= Array.length faces then problem "dcel_cells_cover" "half edge without face"
              else begin
                bump "cells_face"; face_hit.(f) <- true;
                check (Printf.sprintf "face %d (left of half edge %d)" f i) (la, lb) (face_loc faces.(f) false, face_loc faces.(f) true) w
              end
          end
        | DF -> ()) (witnesses useg []);
    if ne > 0 then Array.iteri (fun f hit -> if not hit then bump "faces_without_generic_witness") face_hit;
    (List.rev !problems, Hashtbl.fold (fun k v acc -> (k, v) :: acc) stats [])
  end
