(* C03 correspondence driver: the extracted validation model (Model/Validate.v) and the reference
   statement ogc_valid (Model/ValidateSpec.v) against the implementation's observations
   (harness/cmd/c03).  One case per line:
     id <TAB> class <TAB> group <TAB> variant <TAB> geometry <TAB> observations <TAB> base geometry
   geometry: prefix tokens  P - | P x y | L n x y .. | Y k (n x y ..)* | MP k (P ..)* | ML k (L ..)* |
   MY k (Y ..)* | GC k geom*   with ordinates integer | nan | inf | -inf
   observations: key=value tokens (val gval wkt wkb json simple ring closed; 1/0, p = panic, - = not observed).
   CORR: model verdict / IsSimple / IsRing / IsClosed differ from the implementation.
   SPEC: the implementation's verdict differs from ogc_valid, from simple_def, between two
         representations of the same point set (group), or between Validate and a decoder. *)
open Model
open Sfio

let z_of_int (i : int) : z =
  if i = 0 then Z0 else if i > 0 then Zpos (pos_of_int i) else Zneg (pos_of_int (- i))

(* decimal integer of any size (the exact values of huge doubles are printed in full) *)
let z_of_decimal (s : string) : z =
  if String.length s <= 15 then z_of_int (int_of_string s) else begin
    let neg = s.[0] = '-' in
    let ten = z_of_int 10 in
    let acc = ref Z0 in
    String.iteri (fun i c ->
        if not (i = 0 && (c = '-' || c = '+')) then
          acc := Z.add (Z.mul !acc ten) (z_of_int (Char.code c - 48))) s;
    if neg then Z.opp !acc else !acc
  end

let ord_of_tok = function
  | "nan" -> ONaN | "inf" -> OPInf | "-inf" -> ONInf
  | s -> OFin (z_of_decimal s)

let parse_geom (s : string) : vgeom =
  let cur = ref (tokens s) in
  let next () = match !cur with [] -> raise (Parse_error "eof") | t :: r -> cur := r; t in
  let next_int () = int_of_string (next ()) in
  let xy () = let x = ord_of_tok (next ()) in let y = ord_of_tok (next ()) in (x, y) in
  let pts () = let n = next_int () in List.init n (fun _ -> xy ()) in
  let point_body () =
    match !cur with
    | "-" :: r -> cur := r; None
    | _ -> Some (xy ()) in
  let poly_body () = let k = next_int () in List.init k (fun _ -> pts ()) in
  let expect tag = let t = next () in if t <> tag then raise (Parse_error ("expected " ^ tag)) in
  let rec geom () =
    match next () with
    | "P" -> VPoint (point_body ())
    | "L" -> VLine (pts ())
    | "Y" -> VPoly (poly_body ())
    | "MP" -> let k = next_int () in VMPoint (List.init k (fun _ -> expect "P"; point_body ()))
    | "ML" -> let k = next_int () in VMLine (List.init k (fun _ -> expect "L"; pts ()))
    | "MY" -> let k = next_int () in VMPoly (List.init k (fun _ -> expect "Y"; poly_body ()))
    | "GC" -> let k = next_int () in VColl (List.init k (fun _ -> geom ()))
    | t -> raise (Parse_error ("unknown tag " ^ t)) in
  let g = geom () in
  if !cur <> [] then raise (Parse_error "trailing tokens");
  g

let rule_name = function
  | RNaN -> "nan" | RInf -> "inf" | RTwoPoints -> "two_points" | RRingEmpty -> "ring_empty"
  | RRingClosed -> "ring_closed" | RRingSimple -> "ring_simple" | RRingNested -> "ring_nested"
  | RInteriorInExterior -> "interior_in_exterior" | RInteriorConnected -> "interior_connected"
  | RRingsMultiTouch -> "rings_multi_touch" | RPolysMultiTouch -> "polys_multi_touch" | RPanic -> "PANIC"

let rec nonempty = function
  | VPoint p -> p <> None
  | VLine l -> l <> []
  | VPoly r -> r <> []
  | VMPoint ps -> List.exists (fun p -> p <> None) ps
  | VMLine ls -> List.exists (fun l -> l <> []) ls
  | VMPoly ps -> List.exists (fun p -> p <> []) ps
  | VColl gs -> List.exists nonempty gs

let obs_table (s : string) : (string, string) Hashtbl.t =
  let h = Hashtbl.create 8 in
  List.iter (fun kv ->
      match String.index_opt kv '=' with
      | Some i -> Hashtbl.replace h (String.sub kv 0 i) (String.sub kv (i + 1) (String.length kv - i - 1))
      | None -> ()) (tokens s);
  h

let b2s b = if b then "1" else "0"

let () =
  let path = Sys.argv.(1) in
  let ogc_every = if Array.length Sys.argv > 2 then int_of_string Sys.argv.(2) else 1 in
  let cur_group = ref "" and group_val = ref "" and group_simple = ref "" and group_ring = ref ""
  and group_first = ref "" and group_ogc = ref "" in
  let samples = ref 0 in
  let lineno = ref 0 in
  iter_lines path (fun line ->
      let f = split_tabs line in
      let id = f.(0) and cls = f.(1) and grp = f.(2) and variant = f.(3) and gtxt = f.(4) in
      let obs = obs_table f.(5) in
      let get k = try Hashtbl.find obs k with Not_found -> "-" in
      incr cases; incr lineno;
      (* SPEC: no entry point ever panics *)
      Hashtbl.iter (fun k v -> if v = "p" && k <> "bval" && k <> "bsimple" && k <> "bring" then
                       fail id "SPEC" "no_panic" (trunc (Printf.sprintf "%s panicked on %s" k gtxt))) obs;
      if cls = "huge_polys" then begin
        (* products of ordinates overflow in float64: only "error or nil, no crash" is observed *)
        count ("class_" ^ cls); count ("huge_val_" ^ get "val");
        note_case gtxt true
      end else
      let g = parse_geom gtxt in
      note_case gtxt (nonempty g);
      count ("class_" ^ cls); count ("variant_" ^ variant);
      (* model verdicts *)
      let v1 = validate g in
      let v0 = validate_v0 g in
      let m1 = b2s (v1 = None) in
      (match v1 with None -> count "model_valid" | Some r -> count ("model_rule_" ^ rule_name r));
      if (v0 = None) <> (v1 = None) then count "model_v0_differs_from_fixed";
      let goval = get "val" in
      (* CORR: Validate on the concrete type and through Geometry *)
      if goval <> m1 then
        fail id "CORR" "validate" (trunc (Printf.sprintf "model=%s(%s) impl=%s v0model=%s geom=%s" m1
                                            (match v1 with None -> "nil" | Some r -> rule_name r) goval (b2s (v0 = None)) gtxt));
      (* validity is a property of the XY point set: the Force2D'd geometry has the same verdict *)
      if get "f2d" <> "-" && get "f2d" <> goval then
        fail id "SPEC" "force2d_same_verdict" (trunc (Printf.sprintf "validate=%s force2d=%s geom=%s" goval (get "f2d") gtxt));
      if get "gval" <> goval then fail id "SPEC" "geometry_validate_agrees" (trunc (get "gval" ^ " vs " ^ goval ^ " " ^ gtxt));
      (* decoders gate on Validate *)
      List.iter (fun k ->
          let o = get k in
          if o <> "-" && o <> goval then
            fail id "SPEC" ("decoder_gate_" ^ k) (trunc (Printf.sprintf "validate=%s %s=%s geom=%s" goval k o gtxt)))
        ["wkt"; "wkb"; "json"];
      (* SPEC: the verdict is the OGC verdict.  Within a group of representations the reference
         verdict is computed for the base and for every ogc_every-th variant. *)
      let new_group = grp <> !cur_group in
      if new_group then begin
        cur_group := grp; group_first := grp ^ ".0"; group_ogc := ""
      end;
      (* the verdicts of the base representation travel on every line *)
      group_val := (if get "bval" <> "-" then get "bval" else goval);
      group_simple := (if get "bsimple" <> "-" then get "bsimple" else get "simple");
      group_ring := (if get "bring" <> "-" then get "bring" else get "ring");
      (* class inscribed (member orders / ring starts of one configuration): the reference verdict on every line *)
      if cls = "inscribed" then count ("inscribed_impl_" ^ goval);
      if new_group || cls = "inscribed" || (ogc_every > 0 && !lineno mod ogc_every = 0) then begin
        let o = b2s (ogc_valid g) in
        count "ogc_evaluated";
        if new_group then group_ogc := o;
        if o <> goval then
          fail id "SPEC" "ogc_valid" (trunc (Printf.sprintf "impl=%s ogc=%s model=%s geom=%s" goval o m1 gtxt));
        if o <> m1 then count "model_differs_from_ogc";
        if o <> !group_ogc && !group_ogc <> "" then
          fail id "CORR" "ogc_repr_invariant" (trunc (Printf.sprintf "base %s ogc=%s this ogc=%s geom=%s" !group_first !group_ogc o gtxt))
      end;
      (* SPEC: representation independence of the implementation's verdict *)
      if goval <> !group_val then
        fail id "SPEC" "repr_invariant" (trunc (Printf.sprintf "base %s valid=%s, %s valid=%s geom=%s base=%s" !group_first !group_val variant goval gtxt
                                                  (if Array.length f > 6 then f.(6) else "?")));
      (* LineString predicates *)
      (match g with
       | VLine vs when get "simple" <> "-" ->
         (match fin_pts vs with
          | None -> ()
          | Some ps ->
            let s = b2s (is_simple ps) and si = b2s (is_simple_idx ps) in
            let r = b2s (is_ring ps) and c = b2s (is_closed ps) in
            count ("simple_" ^ s); count ("ring_" ^ r);
            if s <> get "simple" then fail id "CORR" "is_simple" (trunc (Printf.sprintf "model=%s impl=%s geom=%s" s (get "simple") gtxt));
            if si <> get "simple" then fail id "CORR" "is_simple_idx" (trunc (Printf.sprintf "model=%s impl=%s geom=%s" si (get "simple") gtxt));
            if r <> get "ring" then fail id "CORR" "is_ring" (trunc (Printf.sprintf "model=%s impl=%s geom=%s" r (get "ring") gtxt));
            if c <> get "closed" then fail id "CORR" "is_closed" (trunc (Printf.sprintf "model=%s impl=%s geom=%s" c (get "closed") gtxt));
            let sd = b2s (simple_def ps) in
            if sd <> get "simple" then fail id "SPEC" "simple_def" (trunc (Printf.sprintf "impl=%s def=%s geom=%s" (get "simple") sd gtxt));
            let rd = b2s (closed_def ps && simple_def ps) in
            if rd <> get "ring" then fail id "SPEC" "ring_def" (trunc (Printf.sprintf "impl=%s def=%s geom=%s" (get "ring") rd gtxt));
            if get "simple" <> !group_simple then
              fail id "SPEC" "simple_repr_invariant" (trunc (Printf.sprintf "base %s simple=%s, %s simple=%s geom=%s" !group_first !group_simple variant (get "simple") gtxt));
            if get "ring" <> !group_ring then
              fail id "SPEC" "ring_repr_invariant" (trunc (Printf.sprintf "base %s ring=%s, %s ring=%s geom=%s" !group_first !group_ring variant (get "ring") gtxt)))
       | _ -> ());
      if !samples < 6 && (!lineno mod 997 = 1) then begin
        incr samples;
        Printf.printf "SAMPLE\t%s\t%s\t%s\timpl:%s\tmodel_valid=%s\n" id cls gtxt f.(5) m1
      end);
  (* generator blind spot: every verdict class of the model must have been exercised *)
  if !cases >= 5000 then
    List.iter (fun k ->
        if not (Hashtbl.mem counters k) then fail "generator" "CORR" "generator_blind_spot" ("no case reached " ^ k))
      ["model_valid"; "model_rule_nan"; "model_rule_inf"; "model_rule_two_points"; "model_rule_ring_empty";
       "model_rule_ring_closed"; "model_rule_ring_simple"; "model_rule_ring_nested"; "model_rule_interior_in_exterior";
       "model_rule_interior_connected"; "model_rule_rings_multi_touch"; "model_rule_polys_multi_touch";
       "simple_0"; "simple_1"; "ring_0"; "ring_1"; "inscribed_impl_0"; "inscribed_impl_1"];
  finish ()
