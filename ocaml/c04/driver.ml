(* C04 correspondence driver: runs the extracted WKB model on the harness's cases and compares. *)
open Model
open Sfio

let scan_types = [| TPoint; TLine; TPoly; TMPoint; TMLine; TMPoly; TColl |]

let dec_dump (hex : string) : string =
  match dec (bytes_of_hex hex) with
  | Ok (g, _) -> dump_geom g
  | Err _ -> "ERR"
  | Panic _ -> "PANIC"

let () =
  let path = Sys.argv.(1) in
  iter_lines path (fun line ->
      let f = split_tabs line in
      let id = f.(0) and cls = f.(1) in
      incr cases;
      let input = parse_dump f.(2) in
      let built = build N0 input in
      let builtd = dump_geom built in
      let wf = wf_wkb built in
      note_case f.(3) (not (is_empty built));
      count ("class_" ^ cls);
      if wf then count "wf" else count "not_wf";
      (* CORR: constructors *)
      if builtd <> f.(3) then fail id "CORR" "build" (trunc ("model=" ^ builtd ^ " impl=" ^ f.(3)));
      let g = parse_dump f.(3) in
      (* CORR: encoder *)
      let e = hex_of_bytes (enc g) in
      if e <> f.(4) then fail id "CORR" "enc" (trunc ("model=" ^ e ^ " impl=" ^ f.(4)));
      (* CORR: decoder on Go's bytes, on the mixed-endian and on the big-endian document *)
      let d1 = dec_dump f.(4) in
      if d1 <> f.(5) then fail id "CORR" "dec" (trunc ("model=" ^ d1 ^ " impl=" ^ f.(5)));
      let d2 = dec_dump f.(7) in
      if d2 <> f.(8) then fail id "CORR" "dec_mixed" (trunc ("model=" ^ d2 ^ " impl=" ^ f.(8)));
      let d4 = dec_dump f.(9) in
      if d4 <> f.(10) then fail id "CORR" "dec_be" (trunc ("model=" ^ d4 ^ " impl=" ^ f.(10)));
      (* SPEC on the implementation's observations, inside the property's domain *)
      if wf then begin
        if f.(5) <> f.(3) then fail id "SPEC" "lossless" (trunc ("in=" ^ f.(3) ^ " out=" ^ f.(5)));
        if f.(6) <> f.(4) then fail id "SPEC" "reencode" (trunc ("first=" ^ f.(4) ^ " second=" ^ f.(6)));
        if f.(8) <> f.(3) then fail id "SPEC" "mixed_endian" (trunc ("in=" ^ f.(3) ^ " out=" ^ f.(8)));
        if f.(10) <> f.(3) then fail id "SPEC" "big_endian" (trunc ("in=" ^ f.(3) ^ " out=" ^ f.(10)));
        (* the harness's own mixed-endian writer is validated by the model decoder *)
        if d2 <> f.(3) then fail id "CORR" "harness_writer" (trunc ("in=" ^ f.(3) ^ " modeldec=" ^ d2))
      end;
      if f.(11) <> "eq" then fail id "SPEC" "trailing_bytes" f.(11);
      if f.(12) <> "eq" then fail id "SPEC" "append_prefix" f.(12);
      if f.(13) <> "eq" then fail id "SPEC" "value_is_wkb" f.(13);
      (* Scan: succeeds with the same value iff the type matches (and the value validates) *)
      let valid = f.(14) = "1" in
      let sc = f.(15) in
      (* the Scan matrix must be the same whatever the byte order of the document *)
      if wf then begin
        if f.(16) <> sc then fail id "SPEC" "scan_big_endian" (Printf.sprintf "le=%s be=%s" sc f.(16));
        if f.(17) <> sc then fail id "SPEC" "scan_mixed_endian" (Printf.sprintf "le=%s mixed=%s" sc f.(17))
      end;
      (* ... and whether the driver hands the document over as []byte or as string (field 18: the
         matrix from string(little-endian document) followed by the one from string(big-endian document)) *)
      let sstr = if Array.length f > 18 then f.(18) else sc ^ sc in
      if wf && sstr <> sc ^ sc then fail id "SPEC" "scan_string_source" (Printf.sprintf "bytes=%s string=%s" sc sstr);
      String.iter (fun c -> if c = 'p' then fail id "SPEC" "scan_panics" (sc ^ " " ^ f.(16) ^ " " ^ f.(17) ^ " " ^ sstr)) (sc ^ f.(16) ^ f.(17) ^ sstr);
      if wf then begin
        Array.iteri (fun i t ->
            let expect = if valid && geom_type g = t then 'o' else 'e' in
            let model_scan = match scan t (bytes_of_hex f.(4)) with Ok _ -> true | _ -> false in
            if model_scan <> (geom_type g = t) then fail id "CORR" "scan_model" (string_of_int i);
            if sc.[i] <> expect then
              fail id "SPEC" "scan" (Printf.sprintf "type#%d got %c want %c" i sc.[i] expect)) scan_types;
        let expect = if valid then 'o' else 'e' in
        if sc.[7] <> expect then fail id "SPEC" "scan_geometry" (String.make 1 sc.[7]);
        if sc.[8] <> expect then fail id "SPEC" "scan_nullgeometry" (String.make 1 sc.[8]);
        if valid then count "scan_valid"
      end);
  finish ()
