(* C05 correspondence driver: runs the extracted WKT model (writer, lexer, parser) on the harness's
   cases and compares it with the implementation's observations; evaluates the property's
   executable statement on the implementation's outputs. *)
open Model
open Sfio

(* ---- model text on the wire: two hex digits per character, 'N' + 16 hex digits per number,
   'X' for a stretch of text on which text/scanner reports a lexical error (the model's Bad) ---- *)
let ascii_of_int (i : int) : ascii =
  let b k = (i lsr k) land 1 = 1 in
  Ascii (b 0, b 1, b 2, b 3, b 4, b 5, b 6, b 7)

let int_of_ascii (Ascii (b0, b1, b2, b3, b4, b5, b6, b7)) : int =
  let v b k = if b then 1 lsl k else 0 in
  v b0 0 + v b1 1 + v b2 2 + v b3 3 + v b4 4 + v b5 5 + v b6 6 + v b7 7

let mtext_parse (s : string) : ch list =
  let n = String.length s in
  let rec go i acc =
    if i >= n then List.rev acc
    else if s.[i] = 'N' then go (i + 17) (Num (n_of_hex (String.sub s (i + 1) 16)) :: acc)
    else if s.[i] = 'X' then go (i + 1) (Bad :: acc)
    else go (i + 2) (C (ascii_of_int (16 * hexval s.[i] + hexval s.[i + 1])) :: acc) in
  go 0 []

let mtext_print (l : ch list) : string =
  let b = Buffer.create 256 in
  List.iter (function
      | C a -> Buffer.add_string b (Printf.sprintf "%02x" (int_of_ascii a))
      | Num v -> Buffer.add_char b 'N'; Buffer.add_string b (hex_of_n 16 v)
      | Bad -> Buffer.add_char b 'X') l;
  Buffer.contents b

let readable (l : ch list) : string =
  let b = Buffer.create 256 in
  List.iter (function
      | C a -> Buffer.add_char b (Char.chr (int_of_ascii a))
      | Num v -> Buffer.add_string b ("#" ^ hex_of_n 16 v)
      | Bad -> Buffer.add_string b "<LEXICAL-ERROR>") l;
  String.escaped (Buffer.contents b)

let model_parse (mt : string) : string =
  match unmarshal_wkt (mtext_parse mt) with
  | Ok g -> count "model_ok"; dump_geom g
  | Err e ->
    count (match e with
        | EEOF -> "model_err_eof" | ESyntax -> "model_err_syntax" | ECollDims -> "model_err_colldims"
        | EFuel -> "model_err_FUEL" | EOther -> "model_err_outside_alphabet" | _ -> "model_err_other");
    "ERR"
  | Panic _ -> "PANIC"

let show mt = try readable (mtext_parse mt) with _ -> mt

let () =
  let path = Sys.argv.(1) in
  let samples = ref 0 in
  iter_lines path (fun line ->
      let f = split_tabs line in
      let id = f.(0) in
      incr cases;
      match f.(1) with
      | "G" ->
        let cls = f.(2) and zero = f.(3) = "1" in
        let g = parse_dump f.(4) in
        let any = if zero then ZeroGeometry else Geo g in
        let dom = wkt_dom g in
        note_case f.(4) (not (is_empty g));
        count ("class_" ^ (match String.index_opt cls ':' with Some i -> String.sub cls 0 i | None ->
            if String.length cls > 4 && String.sub cls 0 4 = "kind" then "kind" else cls));
        count (if dom then "in_domain" else "outside_domain");
        if zero then count "zero_geometry";
        (* CORR writer *)
        let mtxt = mtext_print (as_text_any any) in
        if f.(5) = "UNREP" then fail id "CORR" "print_unrepresentable" f.(4)
        else if mtxt <> f.(5) then
          fail id "CORR" "print" (trunc ("model=" ^ show mtxt ^ " impl=" ^ show f.(5)));
        (* CORR AppendWKT(prefix) *)
        let prefix = mtext_parse f.(6) in
        let mapp = match append_wkt_any prefix any with
          | Ok s -> mtext_print s | Err _ -> "ERR" | Panic _ -> "PANIC" in
        if mapp <> f.(7) then
          fail id "CORR" "append" (trunc ("model=" ^ show mapp ^ " impl=" ^ (if f.(7) = "PANIC" then "PANIC" else show f.(7))));
        (* SPEC prefix law on every prefix, the nil prefix and the concrete type's own methods *)
        String.iteri (fun i c ->
            if c = 'p' then fail id "SPEC" "append_prefix_panic" (Printf.sprintf "AppendWKT panics (prefix #%d) on %s" i f.(4))
            else if c <> 'e' then fail id "SPEC" "append_prefix" (Printf.sprintf "prefix #%d on %s" i f.(4))) f.(8);
        (* CORR parser on the produced text *)
        let mp = if f.(5) = "UNREP" then "UNREP" else model_parse f.(5) in
        if mp <> f.(9) then fail id "CORR" "parse" (trunc ("text=" ^ show f.(5) ^ " model=" ^ mp ^ " impl=" ^ f.(9)));
        (* SPEC *)
        if dom && f.(9) <> f.(4) then fail id "SPEC" "roundtrip" (trunc ("in=" ^ f.(4) ^ " text=" ^ show f.(5) ^ " out=" ^ f.(9)));
        if f.(10) <> "eq" then fail id "SPEC" "grammar" (trunc ("text=" ^ show f.(5) ^ " independent printer " ^ f.(10)));
        if dom && f.(11) <> "ERR" && f.(11) <> f.(9) then
          fail id "SPEC" "equals_wkb" (trunc ("wkt=" ^ f.(9) ^ " wkb=" ^ f.(11)));
        if !samples < 3 && dom && not (is_empty g) then begin
          incr samples;
          Printf.printf "SAMPLE\t%s\t%s\t%s\n" id f.(4) (trunc (show f.(5))) end
      | "R" ->
        count "respellings";
        let g = parse_dump f.(2) in
        let mp = model_parse f.(3) in
        if mp <> f.(4) then fail id "CORR" "parse_respelled" (trunc ("text=" ^ show f.(3) ^ " model=" ^ mp ^ " impl=" ^ f.(4)));
        if wkt_dom g && f.(4) <> f.(2) then
          fail id "SPEC" "respell_invariance" (trunc ("text=" ^ show f.(3) ^ " want=" ^ f.(2) ^ " got=" ^ f.(4)))
      | "N" ->
        count "negatives";
        let mp = model_parse f.(3) in
        count (if mp = "ERR" then "neg_rejected" else "neg_accepted");
        count ("mut_" ^ f.(2));
        if f.(4) = "PANIC" then fail id "SPEC" "parser_panic" (trunc ("text=" ^ show f.(3)));
        if mp <> f.(4) then fail id "CORR" "parse_mutated" (trunc ("text=" ^ show f.(3) ^ " model=" ^ mp ^ " impl=" ^ f.(4)))
      | "T" ->
        count "trailing";
        let mp = model_parse f.(2) in
        if mp <> f.(3) then fail id "CORR" "parse_trailing" (trunc ("text=" ^ show f.(2) ^ " model=" ^ mp ^ " impl=" ^ f.(3)));
        if f.(3) <> "ERR" then fail id "SPEC" "trailing_rejected" (trunc ("text=" ^ show f.(2) ^ " got=" ^ f.(3)))
      | "TG" ->
        (* a member of the malformed trailing stream, fully recorded: f2 fragment, f3 hex of the
           (clipped) raw text, f4 model text or UNREP (outside the model's alphabet) or LONG,
           f5 result with NoValidate, f6 result with validation.  SPEC: whatever non-blank material
           follows a complete document, the parse fails (theorems wkt_trailing_rejected,
           wkt_trailing_text_rejected, wkt_lexical_error_rejected). *)
        count "trailing_recorded";
        count ("trailing_" ^ (if f.(4) = "UNREP" || f.(4) = "LONG" then "spec_only" else "model_too"));
        (if String.length f.(4) > 0 && f.(4).[String.length f.(4) - 1] = 'X' then count "trailing_model_lexical_error");
        let raw = String.escaped (String.concat "" (List.map (fun b -> String.make 1 (Char.chr (int_of_n b))) (bytes_of_hex f.(3)))) in
        if f.(5) <> "ERR" then fail id "SPEC" "trailing_garbage_rejected" (trunc ("kind=" ^ f.(2) ^ " text=" ^ raw ^ " got=" ^ f.(5)));
        if f.(6) <> "ERR" then fail id "SPEC" "trailing_garbage_rejected_validating" (trunc ("kind=" ^ f.(2) ^ " text=" ^ raw ^ " got=" ^ f.(6)));
        if f.(4) <> "UNREP" && f.(4) <> "LONG" then begin
          let mp = model_parse f.(4) in
          if mp <> f.(5) then fail id "CORR" "parse_trailing_garbage" (trunc ("text=" ^ raw ^ " model=" ^ mp ^ " impl=" ^ f.(5))) end
      | "TS" ->
        (* the whole malformed trailing stream behind one text: f2 hex of the text, f3 variants per
           fragment, f4 one flag per combination with NoValidate (E rejected, A accepted, P panic),
           f5 the same with validation ('-' where the text itself does not validate).  Every
           combination that is not rejected is also on record as a TG line (id <case>.x<fragment>.<variant>). *)
        count "trailing_stream_texts";
        let nvar = int_of_string f.(3) in
        let raw = String.escaped (String.concat "" (List.map (fun b -> String.make 1 (Char.chr (int_of_n b))) (bytes_of_hex f.(2)))) in
        let judge which flags =
          String.iteri (fun i c ->
              count "trailing_stream_parses";
              if c = 'P' then fail id "SPEC" "parser_panic" (trunc (Printf.sprintf "%s: text=%s followed by fragment #%d variant %d" which raw (i / nvar) (i mod nvar)))
              else if c <> 'E' && c <> '-' then
                fail id "SPEC" "trailing_stream_rejected"
                  (trunc (Printf.sprintf "%s: text=%s followed by fragment #%d variant %d is accepted" which raw (i / nvar) (i mod nvar)))) flags in
        judge "NoValidate" f.(4); judge "validating" f.(5)
      | "F" ->
        count "floats";
        if f.(4) <> "ok" then fail id "SPEC" "float_oracle" (f.(2) ^ " " ^ f.(3) ^ " " ^ f.(4))
      | k -> failwith ("unknown case kind " ^ k));
  finish ()
