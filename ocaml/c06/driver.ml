(* C06 correspondence driver: runs the extracted GeoJSON model on the harness's cases. *)
open Model
open Sfio
open Jsonio

let gtypes = [| TPoint; TLine; TPoly; TMPoint; TMLine; TMPoly; TColl |]

let out_dump (o : n geomT outcome) : string =
  match o with Ok g -> dump_geom g | Err _ -> "ERR" | Panic _ -> "PANIC"

let is_dump s = s <> "ERR" && s <> "PANIC" && s <> "BADJSON"

let samples = ref 0
let sample cls s =
  if !samples < 6 then begin incr samples; Printf.printf "SAMPLE\t%s\t%s\n" cls (trunc s) end

(* ---- G: geometry -> bytes -> geometry *)
let geom_case id (f : string array) =
  let cls = f.(2) in
  let g = parse_dump f.(3) in
  let valid = f.(4) = "1" in
  note_case f.(3) (not (is_empty g));
  count ("class_" ^ cls);
  if valid then count "g_valid_input";
  (match geom_ct g with XY -> count "g_ct_xy" | XYZ -> count "g_ct_xyz" | XYM -> count "g_ct_xym" | XYZM -> count "g_ct_xyzm");
  if geom_vs g = [] then count "g_no_positions";
  let tree = to_json g in
  (* CORR: the writer, byte level and tree level *)
  let text = render_toks (gj_print g) in
  if text <> f.(5) then fail id "CORR" "marshal_bytes" (trunc ("model=" ^ text ^ " impl=" ^ f.(5)));
  let mt = json_tokens tree in
  if mt <> f.(6) then fail id "CORR" "marshal_tree" (trunc ("model=" ^ mt ^ " impl=" ^ f.(6)));
  (* SPEC on the implementation's bytes *)
  if f.(5) = "ERR" then fail id "SPEC" "marshal_error" f.(3)
  else if f.(6) = "BADJSON" then fail id "SPEC" "output_not_json" (trunc f.(5))
  else begin
    let it = parse_json f.(6) in
    if not (positions_ok it) then fail id "SPEC" "positions_2_or_3" (trunc f.(5));
    if not (rfc_geometry it) then fail id "SPEC" "rfc_members" (trunc f.(5));
    if f.(7) <> "eq" then fail id "SPEC" "json_marshal_differs" f.(7);
    if f.(11) <> "eq" then fail id "SPEC" "concrete_marshal_differs" f.(11);
    (* CORR: decoder on the implementation's own output *)
    let md = out_dump (gj_unmarshal it) in
    if md <> f.(8) then fail id "CORR" "unmarshal_own" (trunc ("model=" ^ md ^ " impl=" ^ f.(8)));
    (* SPEC: round trip up to the stated losses *)
    if same_ct g then begin
      let want = dump_geom (gj_lossy g) in
      if f.(8) <> want then fail id "SPEC" "roundtrip" (trunc ("in=" ^ f.(3) ^ " want=" ^ want ^ " got=" ^ f.(8)));
      if valid && f.(9) <> want then fail id "SPEC" "roundtrip_validated" (trunc ("in=" ^ f.(3) ^ " want=" ^ want ^ " got=" ^ f.(9)));
      if (not valid) && f.(9) <> "ERR" && f.(9) <> want then fail id "SPEC" "roundtrip_invalid" (trunc f.(9));
      if want <> f.(3) then count "g_lossy_differs"
    end else count "g_not_same_ct";
    (* SPEC: a concrete type accepts iff the types match (and the value validates) *)
    let accepted = f.(9) <> "ERR" in
    Array.iteri (fun i t ->
        let expect = if accepted && geom_type g = t then 'o' else 'e' in
        if f.(10).[i] <> expect then
          fail id "SPEC" "concrete_type" (Printf.sprintf "type#%d got %c want %c" i f.(10).[i] expect);
        let m_ok = (match unmarshal_as t it with Ok _ -> true | _ -> false) in
        if m_ok <> (is_dump f.(8) && geom_type g = t) then fail id "CORR" "unmarshal_as_own" (string_of_int i)) gtypes
  end;
  sample cls (f.(3) ^ " => " ^ f.(5) ^ " => " ^ f.(8))

(* ---- D: grammar-built document -> geometry *)
let doc_case id (f : string array) =
  let cls = f.(2) in
  let j = parse_json f.(3) in
  note_case f.(3) true;
  count ("class_d_" ^ cls);
  let r = gj_unmarshal j in
  let md = out_dump r in
  (match r with
   | Ok g -> count "d_ok"; count ("d_ok_" ^ cls);
     (match geom_ct g with XYZ -> count "d_result_xyz" | _ -> count "d_result_xy")
   | Err EGeomType -> count "d_err_type"; count ("d_err_" ^ cls)
   | Err _ -> count "d_err_other"; count ("d_err_" ^ cls)
   | Panic _ -> count "d_panic");
  if md <> f.(5) then fail id "CORR" "unmarshal_doc" (trunc ("model=" ^ md ^ " impl=" ^ f.(5) ^ " doc=" ^ f.(4)));
  if f.(5) = "PANIC" then fail id "SPEC" "decoder_panics" (trunc f.(4));
  (* SPEC: validating entry point = NoValidate result filtered by Validate *)
  let accepted = is_dump f.(5) && f.(6) = "1" in
  let wantv = if accepted then f.(5) else "ERR" in
  if f.(7) <> wantv then fail id "SPEC" "validated_unmarshal" (trunc ("want=" ^ wantv ^ " got=" ^ f.(7)));
  (* SPEC/CORR: concrete types *)
  let dt = doc_type j in
  Array.iteri (fun i t ->
      let expect = if accepted && dt = Some t then 'o' else 'e' in
      if f.(8).[i] <> expect then
        fail id "SPEC" "concrete_type_doc" (Printf.sprintf "type#%d got %c want %c doc=%s" i f.(8).[i] expect (trunc f.(4)));
      let m_ok = (match unmarshal_as t j with Ok _ -> true | _ -> false) in
      if m_ok <> (is_dump f.(5) && dt = Some t) then fail id "CORR" "unmarshal_as_doc" (string_of_int i)) gtypes;
  (* SPEC: one 2-element position anywhere makes the whole result 2D; results are consistent *)
  (match decode_node j with
   | Ok nd ->
     (match decode_geojson nd with
      | Ok t ->
        (match detect t [] with
         | Ok lens ->
           let has2 = List.exists (fun k -> int_of_nat k = 2) lens in
           let has_gt3 = List.exists (fun k -> int_of_nat k > 3) lens in
           if has2 then count "d_has_2d_position";
           if has_gt3 then count "d_has_extra_ordinates";
           if has2 && List.exists (fun k -> int_of_nat k >= 3) lens then count "d_mixed_dimensions";
           if is_dump f.(5) then begin
             let g = parse_dump f.(5) in
             if not (same_ct g) then fail id "SPEC" "result_inconsistent" (trunc f.(5));
             if has2 && geom_ct g <> XY then fail id "SPEC" "mixed_not_2d" (trunc (f.(4) ^ " => " ^ f.(5)));
             (match geom_ct g with XYM | XYZM -> fail id "SPEC" "result_has_m" (trunc f.(5)) | _ -> ())
           end
         | _ -> count "d_bad_length")
      | _ -> ())
   | _ -> ());
  (* SPEC: ordinates beyond the third are ignored *)
  if f.(9) <> f.(5) then fail id "SPEC" "extra_ordinates" (trunc ("doc=" ^ f.(4) ^ " full=" ^ f.(5) ^ " truncated=" ^ f.(9)));
  sample ("d_" ^ cls) (f.(4) ^ " => " ^ f.(5))


(* ---- features *)
let split_on (sep : string) (s : string) : string list =
  Str.split_delim (Str.regexp_string sep) s

let kvs_of_tokens (t : string) : (n list * json) list =
  match parse_json t with JObj l -> l | _ -> raise (Parse_error "object expected")

let feature_of_obs (s : string) : feature =
  match split_on " | " s with
  | [g; id; props; fm] ->
    { f_geom = parse_dump g; f_id = parse_json id;
      f_props = (if props = "-" then None else Some (kvs_of_tokens props));
      f_foreign = (if fm = "-" then [] else kvs_of_tokens fm) }
  | _ -> raise (Parse_error ("bad feature observation: " ^ s))

(* the observation format of harness featObs; ForeignMembers is never nil after decoding *)
let obs_of_feature (f : feature) : string =
  dump_geom f.f_geom ^ " | " ^ json_tokens f.f_id ^ " | "
  ^ (match f.f_props with None -> "-" | Some p -> json_tokens (JObj p)) ^ " | " ^ json_tokens (JObj f.f_foreign)

let feature_canon (f : feature) : bool =
  canon f.f_id && (match f.f_props with None -> true | Some p -> canon (JObj p)) && canon (JObj f.f_foreign)

let str_of_ascii (s : string) : n list = List.init (String.length s) (fun i -> n_of_int (Char.code s.[i]))
let member (k : string) (j : json) : json option =
  match j with
  | JObj l -> (try Some (List.assoc (str_of_ascii k) l) with Not_found -> None)
  | _ -> None

let check_feature_tree id (f : feature) (it : json) =
  (match member "properties" it with
   | Some (JObj _) -> ()
   | _ -> fail id "SPEC" "properties_not_object" (trunc (json_tokens it)));
  (match member "id" it, f.f_id with
   | None, JNull -> ()
   | Some _, JNull -> fail id "SPEC" "nil_id_written" (trunc (json_tokens it))
   | None, _ -> fail id "SPEC" "id_dropped" (trunc (json_tokens it))
   | Some _, _ -> ());
  (match member "type" it with
   | Some (JStr s) when s = str_of_ascii "Feature" -> ()
   | _ -> fail id "SPEC" "feature_type_member" (trunc (json_tokens it)));
  (match member "geometry" it with
   | Some gj -> if not (rfc_geometry gj) then fail id "SPEC" "feature_geometry_member" (trunc (json_tokens gj))
   | None -> fail id "SPEC" "feature_geometry_missing" (trunc (json_tokens it)))

let feat_case id (f : string array) =
  let fin = feature_of_obs f.(3) in
  let valid = f.(4) = "1" in
  note_case f.(3) true;
  count "class_feature";
  (match fin.f_id with JNull -> count "f_id_nil" | _ -> count "f_id_set");
  (match fin.f_props with None -> count "f_props_nil" | Some [] -> count "f_props_empty" | _ -> count "f_props_set");
  (match fin.f_foreign with [] -> count "f_foreign_none" | _ -> count "f_foreign_set");
  let mt = json_tokens (feat_to_json fin) in
  if mt <> f.(5) then fail id "CORR" "feature_marshal_tree" (trunc ("model=" ^ mt ^ " impl=" ^ f.(5)));
  if f.(5) = "ERR" then fail id "SPEC" "feature_marshal_error" (trunc f.(3))
  else if f.(5) = "BADJSON" then fail id "SPEC" "feature_output_not_json" (trunc f.(3))
  else begin
    let it = parse_json f.(5) in
    check_feature_tree id fin it;
    if f.(7) <> "eq" then fail id "SPEC" "feature_json_marshal_differs" f.(7);
    let mo = (match feat_unmarshal it with
        | Ok r -> if valid then obs_of_feature r else "ERR"
        | Err _ -> "ERR" | Panic _ -> "PANIC") in
    if mo <> f.(6) then fail id "CORR" "feature_unmarshal_own" (trunc ("model=" ^ mo ^ " impl=" ^ f.(6)));
    if valid && feat_ok fin then begin
      let want = obs_of_feature (feat_lossy fin) in
      if f.(6) <> want then fail id "SPEC" "feature_roundtrip" (trunc ("want=" ^ want ^ " got=" ^ f.(6)));
      if feature_canon fin then begin
        count "f_canonical_input";
        (* verbatim: id, properties (nil becomes {}), foreign members unchanged *)
        let lf = feat_lossy fin in
        if json_tokens lf.f_id <> json_tokens fin.f_id
        || json_tokens (JObj lf.f_foreign) <> json_tokens (JObj fin.f_foreign)
        || (match fin.f_props, lf.f_props with
            | Some p, Some q -> json_tokens (JObj p) <> json_tokens (JObj q)
            | None, Some [] -> false
            | _ -> true)
        then fail id "CORR" "canonical_not_fixed" (trunc f.(3))
      end
    end
  end;
  sample "feature" (f.(3) ^ " => " ^ f.(6))

let featdoc_case id (f : string array) =
  let cls = f.(2) in
  let j = parse_json f.(3) in
  note_case f.(3) true;
  count ("class_fd_" ^ cls);
  let mo = (match feat_unmarshal j with
      | Ok r -> count "fd_ok"; if f.(5) = "0" then "ERR" else obs_of_feature r
      | Err _ -> count "fd_err"; "ERR"
      | Panic _ -> "PANIC") in
  if mo <> f.(6) then fail id "CORR" "feature_unmarshal_doc" (trunc ("model=" ^ mo ^ " impl=" ^ f.(6) ^ " doc=" ^ f.(4)));
  if f.(6) = "PANIC" then fail id "SPEC" "feature_decoder_panics" (trunc f.(4));
  sample ("fd_" ^ cls) (f.(4) ^ " => " ^ f.(6))

let obs_of_fc (fs : feature list) : string =
  String.concat " || " (string_of_int (List.length fs) :: List.map obs_of_feature fs)

let fc_case id (f : string array) =
  let parts = split_on " || " f.(3) in
  let fins = List.map feature_of_obs (List.tl parts) in
  let valid = f.(4) = "1" in
  note_case f.(3) (fins <> []);
  count "class_collection";
  count (Printf.sprintf "c_size_%d" (List.length fins));
  let mt = json_tokens (fc_to_json fins) in
  if mt <> f.(5) then fail id "CORR" "fc_marshal_tree" (trunc ("model=" ^ mt ^ " impl=" ^ f.(5)));
  if f.(5) = "ERR" || f.(5) = "BADJSON" then fail id "SPEC" "fc_output_not_json" (trunc f.(3))
  else begin
    let it = parse_json f.(5) in
    (match member "features" it with
     | Some (JArr l) -> if List.length l <> List.length fins then fail id "SPEC" "fc_features_count" (trunc f.(5))
     | _ -> fail id "SPEC" "fc_features_not_array" (trunc f.(5)));
    let mo = (match fc_unmarshal it with
        | Ok r -> if valid then obs_of_fc r else "ERR"
        | Err _ -> "ERR" | Panic _ -> "PANIC") in
    if mo <> f.(6) then fail id "CORR" "fc_unmarshal_own" (trunc ("model=" ^ mo ^ " impl=" ^ f.(6)));
    if valid && List.for_all feat_ok fins then begin
      let want = obs_of_fc (List.map feat_lossy fins) in
      if f.(6) <> want then fail id "SPEC" "fc_roundtrip" (trunc ("want=" ^ want ^ " got=" ^ f.(6)))
    end
  end

let fcdoc_case id (f : string array) =
  let cls = f.(2) in
  let j = parse_json f.(3) in
  note_case f.(3) true;
  count ("class_cd_" ^ cls);
  let mo = (match fc_unmarshal j with
      | Ok r -> count "cd_ok"; if f.(5) = "0" then "ERR" else obs_of_fc r
      | Err _ -> count "cd_err"; "ERR"
      | Panic _ -> "PANIC") in
  if mo <> f.(6) then fail id "CORR" "fc_unmarshal_doc" (trunc ("model=" ^ mo ^ " impl=" ^ f.(6) ^ " doc=" ^ f.(4)));
  if f.(6) = "PANIC" then fail id "SPEC" "fc_decoder_panics" (trunc f.(4))

let () =
  let path = Sys.argv.(1) in
  iter_lines path (fun line ->
      let f = split_tabs line in
      let id = f.(0) in
      incr cases;
      (try
         (* decoding a Feature / FeatureCollection document must not depend on what the receiver held before *)
         if (f.(1) = "F" || f.(1) = "FD" || f.(1) = "C" || f.(1) = "CD") && Array.length f > 6
            && String.length f.(6) > 5 && String.sub f.(6) 0 5 = "HIST " then
           fail id "SPEC" "feature_decode_depends_on_receiver" (trunc f.(6))
         else
         match f.(1) with
         | "G" -> geom_case id f
         | "D" -> doc_case id f
         | "F" -> feat_case id f
         | "FD" -> featdoc_case id f
         | "C" -> fc_case id f
         | "CD" -> fcdoc_case id f
         | k -> fail id "CORR" "unknown_case_kind" k
       with
       | Parse_error m -> fail id "CORR" "driver_parse_error" m
       | Invalid_argument m -> fail id "CORR" "driver_bad_line" m));
  finish ()
