(* Token protocol for JSON trees (harness cmd/c06/jv.go:Tokens) <-> extracted Model.json. *)
open Model
open Sfio

let str_of_hex (h : string) : n list =
  let len = String.length h / 2 in
  List.init len (fun i -> n_of_int (16 * hexval h.[2 * i] + hexval h.[2 * i + 1]))

let hex_of_str (s : n list) : string =
  let b = Buffer.create 16 in
  List.iter (fun x -> Buffer.add_string b (Printf.sprintf "%02x" (int_of_n x))) s;
  Buffer.contents b

let parse_json_tokens (toks : string list) : json * string list =
  let cur = ref toks in
  let next () = match !cur with
    | [] -> raise (Parse_error "unexpected end of json tokens")
    | t :: r -> cur := r; t in
  let tail t = String.sub t 1 (String.length t - 1) in
  let rec value () =
    let t = next () in
    match t.[0] with
    | 'n' -> JNull
    | 't' -> JBool true
    | 'f' -> JBool false
    | '#' -> JNum (n_of_hex (tail t))
    | 's' -> JStr (str_of_hex (tail t))
    | '[' -> let k = int_of_string (tail t) in
      let acc = ref [] in
      for _ = 1 to k do acc := value () :: !acc done;
      JArr (List.rev !acc)
    | '{' -> let k = int_of_string (tail t) in
      let acc = ref [] in
      for _ = 1 to k do
        let kt = next () in
        if kt.[0] <> 's' then raise (Parse_error "key expected");
        let key = str_of_hex (tail kt) in
        let v = value () in
        acc := (key, v) :: !acc
      done;
      JObj (List.rev !acc)
    | _ -> raise (Parse_error ("bad json token " ^ t)) in
  let v = value () in
  (v, !cur)

let parse_json (s : string) : json =
  let v, rest = parse_json_tokens (tokens s) in
  if rest <> [] then raise (Parse_error "trailing json tokens");
  v

let json_tokens (j : json) : string =
  let b = Buffer.create 256 in
  let add s = Buffer.add_string b s; Buffer.add_char b ' ' in
  let rec go = function
    | JNull -> add "n"
    | JBool true -> add "t"
    | JBool false -> add "f"
    | JNum x -> add ("#" ^ hex_of_n 16 x)
    | JStr s -> add ("s" ^ hex_of_str s)
    | JArr l -> add (Printf.sprintf "[%d" (List.length l)); List.iter go l
    | JObj kvs -> add (Printf.sprintf "{%d" (List.length kvs));
      List.iter (fun (k, v) -> add ("s" ^ hex_of_str k); go v) kvs in
  go j;
  String.trim (Buffer.contents b)

(* the writer's token list as text: bytes as they are, numbers as #<bits> *)
let render_toks (ts : tok list) : string =
  let b = Buffer.create 256 in
  List.iter (function
      | TC c -> Buffer.add_char b (Char.chr (int_of_n c))
      | TN x -> Buffer.add_string b ("#" ^ hex_of_n 16 x)) ts;
  Buffer.contents b
