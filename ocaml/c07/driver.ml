(* C07 correspondence driver: runs the extracted TWKB model (integer layer + quantisation layer)
   on the harness's cases, compares with the implementation's observations (CORR) and evaluates
   the property's executable statement on the implementation's outputs (SPEC). *)
open Model
open Sfio

(* ---- integers ---- *)
let z_of_int (i : int) : z =
  if i = 0 then Z0 else if i > 0 then Zpos (pos_of_int i) else Zneg (pos_of_int (-i))

(* int64 decimal string -> z (min_int safe: work on the magnitude as an unsigned 64-bit value) *)
let z_of_dec (s : string) : z =
  let neg = String.length s > 0 && s.[0] = '-' in
  let digits = if neg then String.sub s 1 (String.length s - 1) else s in
  let ten = z_of_int 10 in
  let acc = ref Z0 in
  String.iter (fun c -> acc := Z.add (Z.mul !acc ten) (z_of_int (Char.code c - 48))) digits;
  if neg then Z.opp !acc else !acc

let rec dec_of_pos (p : positive) : string =
  (* positive -> decimal string via repeated doubling on a digit array *)
  let rec bits p acc = match p with XH -> 1 :: acc | XO q -> bits q (0 :: acc) | XI q -> bits q (1 :: acc) in
  let bl = bits p [] in  (* most significant first *)
  let digits = ref [0] in (* little endian decimal digits *)
  let double_add b =
    let carry = ref b in
    digits := List.map (fun d -> let v = 2 * d + !carry in carry := v / 10; v mod 10) !digits;
    if !carry > 0 then digits := !digits @ [!carry] in
  List.iter double_add bl;
  String.concat "" (List.rev_map string_of_int !digits)
and dec_of_z = function Z0 -> "0" | Zpos p -> dec_of_pos p | Zneg p -> "-" ^ dec_of_pos p

let dec_of_n = function N0 -> "0" | Npos p -> dec_of_pos p

let parse_opts (s : string) : topts =
  match String.split_on_char ' ' s with
  | [pxy; pz; pm; size; bbox; close; ids] ->
    let op x = if x = "-" then None else Some (z_of_dec x) in
    { o_pxy = z_of_dec pxy; o_pz = op pz; o_pm = op pm; o_size = (size = "1"); o_bbox = (bbox = "1");
      o_close = (close = "1");
      o_ids = if ids = "-" then [] else List.map z_of_dec (String.split_on_char ',' ids) }
  | _ -> failwith ("bad opts: " ^ s)

let cls = function Ok _ -> "OK" | Err _ -> "ERR" | Panic _ -> "PANIC"

(* ---- renderings of the header readers in the harness's format ---- *)
let size_string = function
  | Ok None -> "0"
  | Ok (Some z) -> "1 " ^ dec_of_z z
  | Err _ -> "ERR"
  | Panic _ -> "PANIC"

let ids_string = function
  | Ok None -> "0"
  | Ok (Some l) -> "1 " ^ String.concat "," (List.map dec_of_z l)
  | Err _ -> "ERR"
  | Panic _ -> "PANIC"

let zero16 = "0000000000000000"

(* envelope from per-dimension integer (lo, hi) pairs; deq converts an integer at a precision *)
let env_string (deq : z -> z -> n) (pxy : z) (pz : z) (pm : z) (ct : ctype) (pairs : (z * z) list) : string =
  let h p k = hex_of_n 16 (deq p k) in
  match pairs with
  | (x0, x1) :: (y0, y1) :: rest ->
    let zr, mr =
      match ct, rest with
      | XY, [] -> None, None
      | XYZ, [z] -> Some z, None
      | XYM, [m] -> None, Some m
      | XYZM, [z; m] -> Some z, Some m
      | _ -> failwith "env_string: dimension mismatch" in
    let rng p = function
      | None -> ["0"; zero16; zero16]
      | Some (a, b) -> ["1"; h p a; h p b] in
    String.concat " " (["1"; "1"; h pxy x0; h pxy y0; h pxy x1; h pxy y1] @ rng pz zr @ rng pm mr)
  | _ -> failwith "env_string: fewer than two dimensions"

let env_reader_string (bs : n list) : string =
  match tread_env bs with
  | Err _ -> "ERR"
  | Panic _ -> "PANIC"
  | Ok None -> "0"
  | Ok (Some (ct, pairs)) ->
    (* precisions are those of the top-level headers *)
    let h = match run parse_headers bs with Ok h -> h | _ -> failwith "headers" in
    env_string dequant h.h_pxy (Z.of_N h.h_pz) (Z.of_N h.h_pm) ct pairs

(* expected envelope of the property: from expected_info's (min, delta) list *)
let expected_env_string (o : topts) (gi : z geomT) (len : int) : string =
  let i = expected_info o gi (nat_of_int len) in
  match i.i_bbox with
  | None -> "0"
  | Some l ->
    (* the header stores min and delta = max - min in int64 arithmetic: when max - min exceeds
       2^63 the stored delta has wrapped and min + delta wraps back (Base/Varint.v wrap64_delta) *)
    let rec pairs = function
      | mn :: dl :: r ->
        (match dl with Zneg _ -> count "bbox_delta_wrapped" | _ -> ());
        (mn, wrap64 (Z.add mn dl)) :: pairs r
      | _ -> [] in
    let ct = geom_ct gi in
    env_string ideal_dequant o.o_pxy (eff_prec o o.o_pz (ct_has_z ct)) (eff_prec o o.o_pm (ct_has_m ct)) ct (pairs l)

(* number of dump tokens that differ, and whether every differing pair of float tokens is within
   one unit in the last place (used to classify the inexact-scale finding narrowly) *)
let dump_diff (a : string) (b : string) : int * bool =
  let ta = Array.of_list (tokens a) and tb = Array.of_list (tokens b) in
  if Array.length ta <> Array.length tb then (-1, false)
  else begin
    let nd = ref 0 and ulp = ref true in
    Array.iteri (fun i x ->
        let y = tb.(i) in
        if x <> y then begin
          incr nd;
          if String.length x = 16 && String.length y = 16 then begin
            let xa = Int64.of_string ("0x" ^ x) and ya = Int64.of_string ("0x" ^ y) in
            let d = Int64.sub xa ya in
            if not (d = 1L || d = (-1L)) then ulp := false
          end else ulp := false
        end) ta;
    (!nd, !ulp)
  end

let () =
  let path = Sys.argv.(1) in
  let nsample = ref 0 in
  iter_lines path (fun line ->
      let f = split_tabs line in
      let id = f.(0) in
      incr cases;
      if f.(1) = "R" then begin
        let cls_name = f.(2) in
        let o = parse_opts f.(3) in
        let g = parse_dump f.(4) in
        let go_m = f.(5) and go_d = f.(6) and go_sz = f.(7) and go_env = f.(8) and go_ids = f.(9) in
        let valid = f.(10) = "1" in
        count ("class_" ^ cls_name);
        note_case (f.(3) ^ "|" ^ f.(4)) (not (is_empty g));
        (* CORR: encoder (quantisation + writer) *)
        let mm = marshal_f o g in
        (match mm, go_m with
         | Ok b, "ERR" -> fail id "CORR" "enc_accepts" (trunc ("model=" ^ hex_of_bytes b ^ " impl=ERR"))
         | Ok b, h -> if hex_of_bytes b <> h then fail id "CORR" "enc" (trunc ("model=" ^ hex_of_bytes b ^ " impl=" ^ h))
         | _, "ERR" -> count "both_refuse"
         | _, h -> fail id "CORR" "enc_refuses" (trunc ("model=" ^ cls mm ^ " impl=" ^ h)));
        let bs = if go_m = "ERR" then [] else bytes_of_hex go_m in
        let len = String.length go_m / 2 in
        (* CORR: decoder and header readers on the implementation's bytes *)
        if go_m <> "ERR" then begin
          let md = match unmarshal_f bs with
            | Ok (g', _) -> dump_geom g' | Err _ -> "ERR" | Panic _ -> "PANIC" in
          if md <> go_d then fail id "CORR" "dec" (trunc ("model=" ^ md ^ " impl=" ^ go_d));
          let ms = size_string (tread_size bs) in
          if ms <> go_sz then fail id "CORR" "size_reader" ("model=" ^ ms ^ " impl=" ^ go_sz);
          let me = env_reader_string bs in
          if me <> go_env then fail id "CORR" "env_reader" (trunc ("model=" ^ me ^ " impl=" ^ go_env));
          let mi = ids_string (tread_ids bs) in
          if mi <> go_ids then fail id "CORR" "ids_reader" (trunc ("model=" ^ mi ^ " impl=" ^ go_ids));
          if go_d = "PANIC" || go_sz = "PANIC" || go_env = "PANIC" || go_ids = "PANIC" then
            fail id "SPEC" "no_panic" "a decoder paniced on the encoder's own output"
        end;
        (* SPEC on the implementation's outputs *)
        (match quant_geom o g with
         | Ok gi ->
           let rej = must_reject o gi in
           if rej then begin
             count "must_reject";
             if go_m <> "ERR" then fail id "SPEC" "rejects" (trunc ("accepted: opts=" ^ f.(3) ^ " bytes=" ^ go_m))
           end else if not valid then count "invalid_input"
           else if wf_twkb o gi then begin
             count "in_domain";
             if has_tie o g then count "exact_ties";
             if go_m = "ERR" then fail id "SPEC" "marshal_refused" ("valid input refused: opts=" ^ f.(3))
             else begin
               if not (twkb_ok o gi bs) then begin
                 let got = match tdec bs with Ok (g', _) -> cls (Ok g') | r -> cls r in
                 fail id "SPEC" "roundtrip" (trunc ("integer-level statement false; decode=" ^ got ^ " bytes=" ^ go_m))
               end;
               let exp = dump_geom (expected_geom o gi) in
               if go_d <> exp then begin
                 let nd, ulp = dump_diff go_d exp in
                 let negp = (match o.o_pxy with Zneg _ -> true | _ -> false) in
                 if negp && nd > 0 && ulp then
                   fail id "SPEC" "neg_precision_scale"
                     (trunc (Printf.sprintf "F71-class: precXY<0, %d ordinate(s) off by one ulp; got=%s want=%s" nd go_d exp))
                 else
                   fail id "SPEC" "decoded_is_rounded" (trunc ("got=" ^ go_d ^ " want=" ^ exp))
               end;
               let i = expected_info o gi (nat_of_int len) in
               let es = size_string (Ok i.i_size) in
               if go_sz <> es then fail id "SPEC" "size_header" ("reader=" ^ go_sz ^ " want=" ^ es);
               let ei = ids_string (Ok i.i_ids) in
               if go_ids <> ei then fail id "SPEC" "id_list" (trunc ("reader=" ^ go_ids ^ " want=" ^ ei));
               let ee = expected_env_string o gi len in
               if go_env <> ee then begin
                 let nd, ulp = dump_diff go_env ee in
                 let negp = (match o.o_pxy with Zneg _ -> true | _ -> false) in
                 if negp && nd > 0 && ulp then
                   fail id "SPEC" "neg_precision_scale"
                     (trunc (Printf.sprintf "F71-class: precXY<0, %d envelope bound(s) off by one ulp; got=%s want=%s" nd go_env ee))
                 else fail id "SPEC" "bbox_header" (trunc ("reader=" ^ go_env ^ " want=" ^ ee))
               end
             end;
             if not (rounding_ok o g) then fail id "SPEC" "rounding" "an integer is not the rounded ordinate";
             if !nsample < 4 && not (is_empty g) then begin
               incr nsample;
               Printf.printf "SAMPLE\topts=%s\tin=%s\tbytes=%s\tdecoded=%s\n" f.(3) (trunc f.(4)) go_m (trunc go_d)
             end
           end else if wf_twkb_noring o gi then begin
             count "f19_class";
             if go_m <> "ERR" && not (twkb_ok o gi bs) then
               fail id "SPEC" "ring_closure"
                 (trunc ("F19-class: after rounding the vertex before the closing vertex equals the first vertex; opts=" ^ f.(3)))
           end else if wf_twkb_xyring o gi then begin
             count "f73_class";
             if go_m <> "ERR" && not (twkb_ok o gi bs) then
               fail id "SPEC" "ring_closure_zm"
                 (trunc ("F73-class: a ring is closed in X and Y but its closing vertex differs from the first vertex in Z or M; opts=" ^ f.(3)))
           end else begin
             count "outside_domain";
             (* the implementation encoded something the model's writer refuses (e.g. an empty Point inside a
                MultiPoint): whatever policy it follows (refuse / drop the member), the property still says that
                no ordinate is invented: every ordinate of the decoded geometry must be a rounded input ordinate *)
             (match mm with
              | Ok _ -> ()
              | _ ->
                if go_m <> "ERR" && go_d <> "ERR" && go_d <> "PANIC" then begin
                  count "accepted_where_model_refuses";
                  let toks s = List.filter (fun t -> String.length t = 16) (String.split_on_char ' ' s) in
                  let exp = toks (dump_geom (expected_geom o gi)) in
                  (match List.filter (fun t -> not (List.mem t exp)) (toks go_d) with
                   | [] -> ()
                   | bad -> fail id "SPEC" "ordinate_invented"
                              (trunc (Printf.sprintf "%d decoded ordinate(s) are no rounded input ordinate, first=%s; in=%s decoded=%s"
                                        (List.length bad) (List.hd bad) f.(4) go_d)))
                end)
           end
         | _ ->
           (* a scaled ordinate leaves int64 (or is not finite): the writer must refuse *)
           count "overflow_inputs";
           if go_m <> "ERR" && not (must_reject o (GColl (XY, []))) then
             fail id "SPEC" "overflow_refused" (trunc ("scaled ordinate outside int64 accepted: opts=" ^ f.(3) ^ " in=" ^ f.(4))))
      end else begin
        (* D: raw decoder cases *)
        count ("class_D_" ^ f.(2));
        let bs = bytes_of_hex f.(3) in
        let len = String.length f.(3) / 2 in
        note_case ("D|" ^ f.(3)) (len > 2);
        let r = unmarshal_f bs in
        let md = match r with Ok (g', _) -> dump_geom g' | Err _ -> "ERR" | Panic _ -> "PANIC" in
        count ("dec_" ^ cls r);
        let crashed = f.(4) = "CRASH" in
        if crashed then fail id "SPEC" "no_crash" ("decoder process died (fatal runtime error, e.g. out of memory) on bytes=" ^ f.(3))
        else begin
        if md <> f.(4) then fail id "CORR" "dec_raw" (trunc ("model=" ^ md ^ " impl=" ^ f.(4) ^ " bytes=" ^ f.(3)));
        let ms = size_string (tread_size bs) in
        if ms <> f.(5) then fail id "CORR" "size_reader_raw" ("model=" ^ ms ^ " impl=" ^ f.(5) ^ " bytes=" ^ f.(3));
        let me = env_reader_string bs in
        if me <> f.(6) then fail id "CORR" "env_reader_raw" (trunc ("model=" ^ me ^ " impl=" ^ f.(6) ^ " bytes=" ^ f.(3)));
        let mi = ids_string (tread_ids bs) in
        if mi <> f.(7) then fail id "CORR" "ids_reader_raw" (trunc ("model=" ^ mi ^ " impl=" ^ f.(7) ^ " bytes=" ^ f.(3)));
        if f.(4) = "PANIC" || f.(5) = "PANIC" || f.(6) = "PANIC" || f.(7) = "PANIC" then
          fail id "SPEC" "no_panic" ("decoder paniced on bytes=" ^ f.(3));
        let alloc = int_of_string f.(8) in
        if alloc > 65536 + 2048 * len then
          fail id "SPEC" "alloc_linear" (Printf.sprintf "%d bytes allocated for %d input bytes; bytes=%s" alloc len f.(3))
        end;
        (* the model's count-driven allocation obeys the proved bound *)
        if int_of_n (tdec_alloc bs) > 8 * len then fail id "CORR" "model_alloc_bound" f.(3)
      end);
  finish ()
