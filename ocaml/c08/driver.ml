(* C08 driver. Every case line holds one input and what the implementation did with it
   (harness/cmd/c08). SPEC: the property's executable statement evaluated on those observations
   (no panic, no process death, allocation within the linear bound, the validation gate, the
   re-encoding). CORR: for WKB inputs the extracted model decoder (Model/WKB.v, the object of the
   theorems of Props/C08.v) must produce the same outcome class and the same structural dump, its
   allocation counter must be a lower bound of what Go really allocated, and Scan must agree. *)
open Model
open Sfio

(* ---- WKT model alphabet on the wire (harness cmd/c08/mtext.go, after C05): two hex digits per
   character, 'N' + 16 hex digits per number literal ---- *)
let ascii_of_int (i : int) : ascii =
  let b k = (i lsr k) land 1 = 1 in
  Ascii (b 0, b 1, b 2, b 3, b 4, b 5, b 6, b 7)

let mtext_parse (s : string) : ch list =
  let n = String.length s in
  let rec go i acc =
    if i >= n then List.rev acc
    else if s.[i] = 'N' then go (i + 17) (Num (n_of_hex (String.sub s (i + 1) 16)) :: acc)
    else go (i + 2) (C (ascii_of_int (16 * hexval s.[i] + hexval s.[i + 1])) :: acc) in
  go 0 []

(* ---- JSON tree protocol (harness cmd/c08/jv.go, after C06): prefix tokens ---- *)
let str_of_hex (h : string) : n list =
  let len = String.length h / 2 in
  List.init len (fun i -> n_of_int (16 * hexval h.[2 * i] + hexval h.[2 * i + 1]))

let parse_json (s : string) : json =
  let cur = ref (tokens s) in
  let next () = match !cur with
    | [] -> raise (Parse_error "unexpected end of json tokens")
    | t :: r -> cur := r; t in
  let tail t = String.sub t 1 (String.length t - 1) in
  let rec value () =
    let t = next () in
    match t.[0] with
    | 'n' -> JNull
    | 't' -> JBool true
    | 'f' -> JBool false
    | '#' -> JNum (n_of_hex (tail t))
    | 's' -> JStr (str_of_hex (tail t))
    | '[' -> let k = int_of_string (tail t) in
      let acc = ref [] in
      for _ = 1 to k do acc := value () :: !acc done;
      JArr (List.rev !acc)
    | '{' -> let k = int_of_string (tail t) in
      let acc = ref [] in
      for _ = 1 to k do
        let kt = next () in
        if kt.[0] <> 's' then raise (Parse_error "key expected");
        let key = str_of_hex (tail kt) in
        let v = value () in
        acc := (key, v) :: !acc
      done;
      JObj (List.rev !acc)
    | _ -> raise (Parse_error ("bad json token " ^ t)) in
  let v = value () in
  if !cur <> [] then raise (Parse_error "trailing json tokens");
  v

(* The linear allocation bound of the executable statement: per decoder call at most
   k_bound * len + slack bytes in total (runtime.MemStats.TotalAlloc delta, i.e. garbage included).
   Why 512: one input byte creates at most one element (the densest case is TWKB, where an empty
   ring is one byte and becomes one 32-byte LineString); Go's append reallocates large slices with
   factor 1.25, so the reallocations sum to about 5 times the final size, plus the copies made by
   the constructor and by validation: 200 bytes per input byte is the worst observed over the
   amplification classes of all four formats. 512 leaves headroom of 2.5; a count-driven
   allocation misses it by orders of magnitude (F7: 2 GiB for 6 bytes, F30: 175 KB per byte). *)
let k_bound = 512
let slack = 1 lsl 20

let type_tags = [| "P"; "L"; "Y"; "MP"; "ML"; "MY"; "GC" |]
let scan_types = [| TPoint; TLine; TPoly; TMPoint; TMLine; TMPoly; TColl |]

let err_name = function
  | EEOF -> "EEOF" | EByteOrder -> "EByteOrder" | EGeomType -> "EGeomType" | ECoordType -> "ECoordType"
  | EMixedNaN -> "EMixedNaN" | EMemberType -> "EMemberType" | ECollDims -> "ECollDims" | EFuel -> "EFuel"
  | ESyntax -> "ESyntax" | EValidate -> "EValidate" | EOther -> "EOther"

let first_token s = match String.index_opt s ' ' with Some i -> String.sub s 0 i | None -> s

let sampled : (string, unit) Hashtbl.t = Hashtbl.create 8
let slow_dbg = (try Sys.getenv "C08_SLOW" <> "" with Not_found -> false)

let () =
  let path = Sys.argv.(1) in
  iter_lines path (fun line ->
      let f = split_tabs line in
      if Array.length f < 17 then fail f.(0) "CORR" "malformed_case" (trunc line) else begin
      let id = f.(0) and cls = f.(1) and fmt = f.(2) and hex = f.(3) in
      let nv = f.(4).[0] and nv_alloc = int_of_string f.(5) and v = f.(6).[0] and v_alloc = int_of_string f.(7) in
      let valid = f.(8).[0] and adapt = (if f.(9) = "-" then "" else f.(9)) and ad_alloc = int_of_string f.(10) in
      let reenc = f.(11) and redec = f.(12) and rewkb = f.(13) and dump = f.(14) and msg = f.(15) and mtext = f.(16) in
      let len = String.length hex / 2 in
      incr cases;
      count ("fmt_" ^ fmt);
      count ("class_" ^ fmt ^ "_" ^ cls);
      let t0 = Sys.time () in
      count (Printf.sprintf "%s_nv_%c" fmt nv);
      count (Printf.sprintf "%s_v_%c" fmt v);
      note_case (Digest.string (fmt ^ hex)) (nv = 'o' || (cls <> "random" && cls <> "soup"));
      (* the concurrent phase: one line per format; only death and panic are judged *)
      if cls = "concurrent" then begin
        count ("concurrent_" ^ fmt ^ "_" ^ String.make 1 nv);
        if nv = 'd' then fail id "SPEC" "process_death" (trunc (Printf.sprintf "fmt=%s CONCURRENT %s" fmt msg));
        if nv = 'p' then fail id "SPEC" "panic" (trunc (Printf.sprintf "fmt=%s CONCURRENT %s" fmt msg))
      end else begin
      let bound calls = calls * k_bound * len + slack in
      let short = if len <= 40 then hex else String.sub hex 0 80 ^ "..." in
      (* ---- SPEC *)
      if nv = 'd' then fail id "SPEC" "process_death" (trunc (Printf.sprintf "fmt=%s len=%d input=%s %s" fmt len short msg));
      if nv = 'p' || v = 'p' || String.contains adapt 'p' then
        fail id "SPEC" "panic" (trunc (Printf.sprintf "fmt=%s len=%d input=%s nv=%c v=%c adapters=%s %s" fmt len short nv v adapt msg));
      if String.contains adapt 'x' then
        fail id "SPEC" "twkb_size_out_of_range" (trunc (Printf.sprintf "input=%s %s" short msg));
      if valid = 'p' then fail id "SPEC" "validate_panic" (trunc (Printf.sprintf "fmt=%s input=%s %s" fmt short msg));
      if nv_alloc > bound 1 then
        fail id "SPEC" "alloc" (Printf.sprintf "fmt=%s NoValidate len=%d allocated=%d bound=%d input=%s" fmt len nv_alloc (bound 1) short);
      if v_alloc > bound 1 then
        fail id "SPEC" "alloc" (Printf.sprintf "fmt=%s validating len=%d allocated=%d bound=%d input=%s" fmt len v_alloc (bound 1) short);
      if adapt <> "" && ad_alloc > bound (String.length adapt) then
        fail id "SPEC" "alloc_adapters" (Printf.sprintf "fmt=%s len=%d allocated=%d by %d calls bound=%d input=%s" fmt len ad_alloc (String.length adapt) (bound (String.length adapt)) short);
      if nv <> 'd' && nv <> 'p' && v <> 'p' && valid <> 'p' then begin
        if v = 'o' && not (nv = 'o' && valid = '1') then
          fail id "SPEC" "ok_but_invalid" (Printf.sprintf "fmt=%s returned without NoValidate but Validate()=%c nv=%c input=%s" fmt valid nv short)
        else if v <> 'o' && nv = 'o' && valid = '1' then
          fail id "SPEC" "gate_rejects_valid" (Printf.sprintf "fmt=%s NoValidate result validates but the validating call failed input=%s" fmt short)
      end;
      let tag = if nv = 'o' then first_token dump else "" in
      if nv = 'o' then begin
        if String.contains reenc 'p' || String.contains redec 'p' then
          fail id "SPEC" "reencode_panic" (trunc (Printf.sprintf "fmt=%s reenc=%s redec=%s input=%s %s" fmt reenc redec short msg));
        if String.contains reenc '-' then fail id "SPEC" "reencode_missing" reenc;
        if reenc.[0] <> 'o' || redec.[0] <> 'o' || rewkb <> "eq" then
          fail id "SPEC" "rewkb" (Printf.sprintf "fmt=%s reenc=%s redec=%s rewkb=%s input=%s" fmt reenc redec rewkb short);
        count ("reenc_" ^ reenc); count ("redec_" ^ redec)
      end;
      (* adapters open the same gate: Geometry-level adapters succeed iff the validating decoder
         does; adapters into a concrete type additionally need that type *)
      let type_gate off =
        Array.iteri (fun i t ->
            let want = if v = 'o' && tag = t then 'o' else 'e' in
            if adapt.[off + i] <> want && adapt.[off + i] <> 'p' then
              fail id "SPEC" "adapter_gate" (Printf.sprintf "fmt=%s adapter#%d got %c want %c (v=%c type=%s) input=%s" fmt (off + i) adapt.[off + i] want v tag short))
          type_tags in
      if nv <> 'd' && v <> 'p' then begin
        if fmt = "wkb" && String.length adapt = 10 then begin
          for i = 0 to 2 do
            if adapt.[i] <> v && adapt.[i] <> 'p' then
              fail id "SPEC" "adapter_gate" (Printf.sprintf "fmt=wkb adapter#%d got %c want %c input=%s" i adapt.[i] v short)
          done;
          type_gate 3 end;
        if fmt = "json" && String.length adapt = 12 then begin
          if adapt.[0] <> v && adapt.[0] <> 'p' then
            fail id "SPEC" "adapter_gate" (Printf.sprintf "fmt=json Geometry.UnmarshalJSON got %c want %c input=%s" adapt.[0] v short);
          type_gate 1 end
      end;
      (* ---- CORR: the model decoder on the same bytes *)
      let big = String.length cls > 4 && String.sub cls (String.length cls - 4) 4 = "_big" in
      if fmt = "wkb" && nv <> 'd' && big then count "corr_skipped_big";
      if fmt = "wkb" && nv <> 'd' && not big then begin
        let bs = bytes_of_hex hex in
        (* one run of the model: dec and dec_alloc are projections of dec_full *)
        let mcls, mdump, ma = match c08_wkb_dec_full bs with
          | POk (g, (_, a)) -> 'o', dump_geom g, int_of_n a
          | PErr (e, a) -> count ("model_" ^ err_name e);
            if e = EFuel then fail id "CORR" "model_fuel" short;
            'e', "-", int_of_n a
          | PPanic (_, a) -> 'p', "-", int_of_n a in
        if mcls = 'o' then count "model_ok";
        if mcls = 'p' then fail id "CORR" "model_panic" short;
        if nv <> 'p' && mcls <> nv then
          fail id "CORR" "dec_class" (trunc (Printf.sprintf "model=%c impl=%c input=%s" mcls nv short))
        else if nv = 'o' && mdump <> dump then
          fail id "CORR" "dec_dump" (trunc (Printf.sprintf "model=%s impl=%s" mdump dump));
        if ma > 2 * len then fail id "CORR" "alloc_theorem_instance" (Printf.sprintf "model=%d len=%d" ma len);
        if nv <> 'p' && ma > nv_alloc then
          fail id "CORR" "alloc_lower" (Printf.sprintf "model counts %d count-sized bytes, implementation allocated only %d input=%s" ma nv_alloc short);
        if ma > 0 then count "model_alloc_nonzero";
        (* Scan: the model has no validator; Go's Scan = model scan and Validate *)
        if len <= 1024 && (nv = 'o' || !cases land 7 = 0) && String.length adapt = 10 && v <> 'p' && valid <> 'p' then
          Array.iteri (fun i t ->
              let m_ok = (match c08_wkb_scan t bs with Ok _ -> true | _ -> false) in
              let want = if m_ok && valid = '1' then 'o' else 'e' in
              if adapt.[3 + i] <> 'p' && adapt.[3 + i] <> want then
                fail id "CORR" "scan" (Printf.sprintf "type#%d model=%b valid=%c impl=%c input=%s" i m_ok valid adapt.[3 + i] short))
            scan_types
      end;
      (* ---- CORR: the TWKB, WKT and GeoJSON model decoders (C07's, C05's, C06's models; the
         theorems of Props/C08.v about them are tied to the code here, on the malformed streams) *)
      let compare_model name (res : n geomT outcome) =
        let mcls, mdump = match res with
          | Ok g -> count (name ^ "_model_ok"); 'o', dump_geom g
          | Err e -> count (name ^ "_model_" ^ err_name e);
            if e = EFuel then fail id "CORR" (name ^ "_model_fuel") short;
            'e', "-"
          | Panic _ -> fail id "CORR" (name ^ "_model_panic") short; 'p', "-" in
        if nv <> 'p' && mcls <> 'p' && mcls <> nv then
          fail id "CORR" (name ^ "_dec_class") (trunc (Printf.sprintf "model=%c impl=%c input=%s" mcls nv short))
        else if nv = 'o' && mcls = 'o' && mdump <> dump then
          fail id "CORR" (name ^ "_dec_dump") (trunc (Printf.sprintf "input=%s model=%s impl=%s" short mdump dump)) in
      if nv <> 'd' && not big then begin
        if fmt = "twkb" then
          compare_model "twkb" (match c08_twkb_unmarshal (bytes_of_hex hex) with
              | Ok (g, _) -> Ok g | Err e -> Err e | Panic p -> Panic p)
        else if fmt = "wkt" then begin
          if mtext = "-" then count "wkt_outside_alphabet"
          else match c08_wkt_unmarshal (mtext_parse mtext) with
            | Err EOther -> count "wkt_outside_alphabet"   (* the model's own marker for texts it cannot express *)
            | r -> compare_model "wkt" r end
        else if fmt = "json" then begin
          if mtext = "-" then begin
            count "json_outside_model";
            (* not JSON for encoding/json (or out-of-range number, case-folded key): nothing to compare *)
          end else compare_model "json" (c08_gj_unmarshal (parse_json mtext)) end
      end;
      if fmt <> "wkb" && big then count "corr_skipped_big";
      if not (Hashtbl.mem sampled fmt) && nv = 'o' && len < 60 && (cls = "sub256" || cls = "tok_replace" || cls = "arity" || cls = "varint_2k") then begin
        Hashtbl.replace sampled fmt ();
        Printf.printf "SAMPLE\t%s\t%s/%s\tinput=%s\tnv=%c(%dB) v=%c(%dB) valid=%c adapters=%s reenc=%s redec=%s\n"
          id fmt cls hex nv nv_alloc v v_alloc valid adapt reenc redec end
      ;
      end;
      if slow_dbg && Sys.time () -. t0 > 0.2 then Printf.eprintf "slow %s %s/%s len=%d %.2fs\n%!" id fmt cls len (Sys.time () -. t0)
      end);
  finish ()
