(* C09 correspondence driver: extracted Intersects / Distance model (coq/Model/Intersects.v,
   Distance.v) and the exact references (Planar witness oracle, share_simple, dist2_ref) against
   the implementation's observations printed by harness/cmd/c09.  Hand-written and trusted.

   case line (tab separated):
     0 id  1 class  2 A  3 B  4 C  5 valid(abc)  6 empty(abc)
     7 Intersects(A,B)  8 Intersects(B,A)  9 Disjoint(A,B)  10 Intersection(A,B).IsEmpty()
     11 Distance(A,B)  12 Distance(B,A)  13 Distance(A,C)  14 Distance(B,C)  15 EnvA.Distance(EnvB)
   booleans "1"/"0" ("E" error, "P" panic); distances: 16 hex digits of the float64, "U" = not ok. *)
open Model
open Sfio
open Zio

let q_of_ints a b : q = { qnum = z_of_int a; qden = pos_of_int b }
let q0 = q_of_ints 0 1

(* tolerance ("to within a few ulps"): |d - sqrt(exact)| <= rel_ulps * 2^-52 * d.
   abs_ulps (units of 2^-52 * M, M the largest |ordinate| of the operands) is 0: before fix F91
   (geom/alg_distance.go:distBetweenXYAndLine) the implementation needed abs_ulps = 1 and was off
   by up to 1.7e5 ulps of d *)
let rel_ulps = 4
let abs_ulps = 0
let two52 = 4503599627370496
let q_rel = q_of_ints rel_ulps two52
let q_abs_unit = q_of_ints abs_ulps two52
let ulp_f = ldexp 1.0 (-52)

let big_limit = 48   (* segments + points of both operands above which the witness arrangement is skipped *)

let nparts g = List.length (part_xys g) + List.length (part_lines g)
let nsegs g = List.length (part_lines g)

let type_tag (g : q geomT) = match g with
  | GPoint _ -> "P" | GLine _ -> "L" | GPoly _ -> "Y" | GMPoint _ -> "MP" | GMLine _ -> "ML"
  | GMPoly _ -> "MY" | GColl _ -> "GC"

let b01 b = if b then "1" else "0"

type dist = Undef | Panic | D of float

let p2_of cls = String.length cls > 2 && String.sub cls 0 2 = "p_"

let parse_dist s = match s with
  | "U" -> Undef | "P" -> Panic
  | h -> D (float_of_bits_hex h)

let timers : (string, float) Hashtbl.t = Hashtbl.create 8
let timed k f = let t0 = Sys.time () in let r = f () in Hashtbl.replace timers k ((try Hashtbl.find timers k with Not_found -> 0.0) +. Sys.time () -. t0); r
let max_rel_err = ref 0.0   (* observed |d - sqrt m| in units of 2^-52 * d (float estimate, statistics only) *)
let max_rel_case = ref ""

let () =
  let path = Sys.argv.(1) in
  let samples = ref 0 in
  iter_lines path (fun line ->
      let f = split_tabs line in
      let id = f.(0) and cls = f.(1) in
      incr cases;
      count ("class_" ^ cls);
      try
        if Array.length f < 16 then raise (Parse_error "short line");
        (* general-position float64 stream: class f_<name>, ordinates as hex doubles, read exactly *)
        let pre p = String.length cls > 2 && String.sub cls 0 2 = p in
        let fl = pre "f_" in
        (* p_<name>: a lattice case scaled by an exact power of two; read exactly, brought back to
           integers by the common power of two, judged like a lattice case (4 ulp, witness oracle) *)
        let px = pre "x_" in
        (* x_<name>: the same with an extreme exponent (2^-530 .. 2^496, the range in which every
           product of two ordinate differences is still exact in float64): the exact answer is the
           lattice answer times the power of two, the true distance is a normal float64, so the
           case is judged like a p_ case (exact Q arithmetic throughout: no float of the driver
           enters a verdict except the envelope comparison of two implementation outputs) *)
        let p2 = p2_of cls || px in
        let rd x = if fl || p2 then parse_fdump x else zq_geom (parse_zdump x) in
        let a = rd f.(2) in
        let b = rd f.(3) in
        let c = rd f.(4) in
        (* float64 case: common power-of-two scaling to integer ordinates (exact; speed only) *)
        let (kscale, a, b, c) =
          if fl || p2 then (match scale_to_integers [a; b; c] with (k, [a; b; c]) -> (k, a, b, c) | _ -> failwith "scale")
          else (0, a, b, c) in
        let qscale = q_pow2 kscale in
        let fscale = ldexp 1.0 kscale in
        let valid = f.(5) = "111" in
        let ea = is_empty a and eb = is_empty b and ec = is_empty c in
        let tag = Printf.sprintf "cls=%s types=%s-%s" cls (type_tag a) (type_tag b) in
        (* the quantifier admits a float64 pair only if the exact clearance (vertex to non-incident
           edge, vertex to vertex) is at least 1e-6 x magnitude; excluded pairs are counted *)
        let mag0 = magnitude a b in
        let tol2 = qmult (q_of_ints 1 1_000_000_000_000) (qmult mag0 mag0) in
        let admitted = not fl || (count "float_cases"; clearance_ok tol2 a b) in
        if not admitted then begin count "float_excluded_clearance"; raise Exit end;
        if fl then count "float_admitted";
        if p2 then count "pow2_cases";
        if px then begin
          count "pow2_extreme_cases";
          count (if kscale > 0 then "pow2_extreme_tiny" else "pow2_extreme_huge");
          if not ea && not eb then count "pow2_extreme_nonempty" end;
        note_case (f.(2) ^ "|" ^ f.(3)) (not ea && not eb);
        count ("pair_" ^ type_tag a ^ "-" ^ type_tag b);
        if not valid then count "invalid_input";
        if ea || eb then count "empty_operand";
        let corr name detail = fail id "CORR" name (trunc (tag ^ " " ^ detail)) in
        let spec name detail = if valid then fail id "SPEC" name (trunc (tag ^ " " ^ detail)) else count "spec_skipped_invalid" in
        (* ---- emptiness as the model sees it *)
        let es = b01 ea ^ b01 eb ^ b01 ec in
        if es <> f.(6) then corr "is_empty" (Printf.sprintf "model=%s impl=%s" es f.(6));
        (* ---- the hypotheses of the completeness theorems (operand_ok, decided by operand_okb) hold
           of every input that the implementation's Validate accepts *)
        if valid && not fl && nparts a + nparts b <= big_limit then begin
          count "operand_ok_checked";
          if not (operand_okb a && operand_okb b) then corr "operand_ok_of_valid" "Validate accepts, operand_okb rejects" end;
        (* ---- Intersects *)
        let mi = timed "model_ix" (fun () -> intersects a b) in
        let mi' = intersects b a in
        count (if mi then "ix_true" else "ix_false");
        if intersects_panics a b then corr "intersects_model_panics" "";
        if f.(7) = "P" || f.(8) = "P" then fail id "SPEC" "intersects_total" (tag ^ " Intersects panicked");
        if f.(7) <> "P" && f.(7) <> b01 mi then corr "intersects" (Printf.sprintf "model=%s impl=%s" (b01 mi) f.(7));
        if f.(8) <> "P" && f.(8) <> b01 mi' then corr "intersects_swapped" (Printf.sprintf "model=%s impl=%s" (b01 mi') f.(8));
        (* the references *)
        let small = not fl && nparts a + nparts b <= big_limit in
        let simple = timed "simple" (fun () -> share_simple a b) in
        let oracle =
          if small then begin
            count "oracle_witness";
            let w = timed "witness" (fun () -> share_witness a b) in
            if valid && w <> simple then fail id "CORR" "oracles_disagree" (trunc (Printf.sprintf "%s witness=%s simple=%s" tag (b01 w) (b01 simple)));
            w end
          else begin count "oracle_simple_only"; simple end in
        if f.(7) <> "P" && f.(7) <> b01 oracle then
          spec "intersects_exact" (Printf.sprintf "impl=%s exact=%s" f.(7) (b01 oracle));
        if f.(7) <> f.(8) then spec "intersects_sym" (Printf.sprintf "ab=%s ba=%s" f.(7) f.(8));
        (* class of known finding F20 (overlay labelling with overlapping areal members inside ONE
           operand), computed only when a metamorphic check against the overlay disagrees *)
        let overlap_cls () = if f20_class a || f20_class b then " f20_class" else "" in
        (match f.(9) with
         | "1" | "0" -> if f.(7) <> "P" && f.(9) = f.(7) then
             spec "intersects_vs_disjoint" (Printf.sprintf "intersects=%s disjoint=%s%s" f.(7) f.(9) (overlap_cls ()))
         | x -> spec "disjoint_fails" (Printf.sprintf "Disjoint gives %s%s" x (overlap_cls ())));
        (match f.(10) with
         | "1" | "0" -> if f.(7) <> "P" && f.(10) = f.(7) then
             spec "intersects_vs_intersection" (Printf.sprintf "intersects=%s intersection_empty=%s%s" f.(7) f.(10) (overlap_cls ()))
         | x -> spec "intersection_fails" (Printf.sprintf "Intersection gives %s%s" x (overlap_cls ())));
        (* ---- Distance *)
        let mag = magnitude a (GColl (XY, [b; c])) in
        let mag = if qle_bool mag (q_of_ints 1 1) then q_of_ints 1 1 else mag in
        let qabs = qmult q_abs_unit mag in
        let magf = float_of_q mag /. fscale in
        (* lattice: a few ulps; float64 stream: 1e-9 relative (the clearance bounds the conditioning) *)
        let q_rel = if fl then q_of_ints 1 1_000_000_000 else q_rel in
        let close d m = sqrt_close (qmult qscale (q_of_float d)) m q_rel qabs in
        let note_err d m where_ =
          let e = if d = 0.0 then 0.0 else Float.abs (d -. (sqrt (float_of_q m) /. fscale)) /. (ulp_f *. d) in
          if e > !max_rel_err then begin max_rel_err := e; max_rel_case := id ^ ":" ^ where_ end in
        (* the model value is computed once per unordered pair: dist2 y x == dist2 x y is theorem
           distance_sym of Props/C09.v, so Distance(B,A) is judged against dist2 a b as well *)
        let judge name (md : q option) (obs : string) =
          match parse_dist obs, md with
          | Panic, _ -> fail id "SPEC" "distance_total" (tag ^ " Distance panicked (" ^ name ^ ")")
          | Undef, None -> count "dist_undefined"
          | Undef, Some _ -> corr ("distance_" ^ name) "impl undefined, model defined"
          | D _, None -> corr ("distance_" ^ name) "impl defined, model undefined"
          | D d, Some m ->
            if not fl then note_err d m name;
            if not (close d m) then
              corr ("distance_" ^ name) (Printf.sprintf "impl=%.17g model_sqrt=%.17g" d ((sqrt (float_of_q m) /. fscale))) in
        let md_ab = timed "model_dist" (fun () -> dist2 a b) in
        judge "ab" md_ab f.(11);
        judge "ba" md_ab f.(12);
        if not fl || clearance_ok tol2 a c then begin
          let md_ac = timed "model_dist" (fun () -> dist2 a c) in
          judge "ac" md_ac f.(13) end;
        (* the exact reference: zero iff the point sets share a point (witness arrangement; on large
           inputs the cheap reference), else the minimum over all pairs of boundary parts *)
        let rd = timed "ref_dist" (fun () -> dist2_ref_with oracle a b) in
        (match parse_dist f.(11), rd with
         | D d, Some m ->
           if not (close d m) then
             spec "distance_exact" (Printf.sprintf "impl=%.17g exact_sqrt=%.17g" d ((sqrt (float_of_q m) /. fscale)))
         | Undef, Some _ | D _, None ->
           spec "distance_defined" (Printf.sprintf "impl=%s exact=%s" f.(11) (match rd with None -> "undefined" | Some _ -> "defined"))
         | _ -> ());
        let dab = parse_dist f.(11) and dba = parse_dist f.(12) in
        List.iter (fun x -> match parse_dist x with
            | D d when not (d >= 0.0) -> fail id "SPEC" "distance_nonneg" (tag ^ Printf.sprintf " dist=%.17g" d)
            | _ -> ()) [f.(11); f.(12); f.(13); f.(14)];
        let dac = parse_dist f.(13) and dbc = parse_dist f.(14) in
        (* symmetric, bit for bit *)
        if f.(11) <> f.(12) then spec "distance_sym" (Printf.sprintf "ab=%s ba=%s" f.(11) f.(12));
        (* undefined exactly when an operand is empty (the implementation's own IsEmpty) *)
        let emp i = f.(6).[i] = '1' in
        if (dab = Undef) <> (emp 0 || emp 1) then
          spec "distance_undefined_iff_empty" (Printf.sprintf "dist=%s empty=%s" f.(11) f.(6));
        if (dac = Undef) <> (emp 0 || emp 2) then
          spec "distance_undefined_iff_empty" (Printf.sprintf "dist(a,c)=%s empty=%s" f.(13) f.(6));
        (* zero exactly when intersecting (the implementation's own Intersects) *)
        (match dab with
         | D d -> if (d = 0.0) <> (f.(7) = "1") then
             spec "distance_zero_iff_intersects" (Printf.sprintf "dist=%.17g intersects=%s" d f.(7))
         | _ -> if f.(7) = "1" then spec "distance_zero_iff_intersects" ("dist=" ^ f.(11) ^ " intersects=1"));
        (* never smaller than the distance of the envelopes *)
        (match dab, parse_dist f.(15) with
         | D d, D e ->
           let tol = if fl then 1e-9 *. d else ulp_f *. (float_of_int rel_ulps *. d +. float_of_int abs_ulps *. magf) in
           if d +. tol < e then spec "distance_ge_envelope" (Printf.sprintf "dist=%.17g envelope_dist=%.17g" d e);
           (* the envelope distance itself, against the box of the control points *)
           (match parts_box a, parts_box b with
            | Some ba, Some bb -> if valid && not (close e (box_d2 ba bb)) then
                corr "envelope_distance" (Printf.sprintf "impl=%.17g model_sqrt=%.17g" e (sqrt (float_of_q (box_d2 ba bb)) /. fscale))
            | _ -> ())
         | D _, Undef -> spec "distance_ge_envelope" "distance defined, envelope distance undefined"
         | _ -> ());
        (* d(a,c) <= d(a,b) + diam(b) + d(b,c) *)
        (match dab, dac, dbc with
         | D dab, D dac, D dbc ->
           count "triangle_checked";
           (* diameter of b: attained at control points; floats are enough for this check *)
           let pts = Array.of_list (List.map (fun (x, y) -> (float_of_q x, float_of_q y)) (part_pts b)) in
           let diam = ref 0.0 in
           Array.iter (fun (x1, y1) -> Array.iter (fun (x2, y2) ->
               let d = Float.hypot (x1 -. x2) (y1 -. y2) in if d > !diam then diam := d) pts) pts;
           let diam = !diam /. fscale in
           let rhs = dab +. diam +. dbc in
           if dac > rhs *. (1.0 +. 1e-12) +. 1e-9 *. magf then
             spec "distance_triangle" (Printf.sprintf "d(a,c)=%.17g > d(a,b)=%.17g + diam(b)=%.17g + d(b,c)=%.17g" dac dab diam dbc)
         | _ -> ());
        ignore dba;
        if !samples < 5 && not ea && not eb && String.length line < 420 && (!cases mod 7 = 0) then begin
          incr samples; Printf.printf "SAMPLE\t%s\n" line end
      with
      | Exit -> ()
      | Parse_error m -> fail id "CORR" "parse" (trunc m)
      | Failure m -> fail id "CORR" "driver" (trunc m)
      | Invalid_argument m -> fail id "CORR" "driver" (trunc m));
  Hashtbl.replace counters "max_err_ulps_x100" (int_of_float (100.0 *. !max_rel_err));
  Printf.printf "NOTE\tmax_err\t%.3f units of 2^-52*d at case %s\n" !max_rel_err !max_rel_case;
  Hashtbl.iter (fun k v -> Printf.printf "NOTE\ttime\t%s\t%.2f\n" k v) timers;
  finish ()
