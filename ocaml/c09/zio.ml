(* C09 glue (copy of ocaml/c13/zio.ml): geometries over the integer carrier Z in the token format of the harness (decimal
   ordinates), exact conversion float64 -> Q, Q -> float.  Hand-written and trusted. *)
open Model
open Sfio

let z_of_int (i : int) : z =
  if i = 0 then Z0 else if i > 0 then Zpos (pos_of_int i) else Zneg (pos_of_int (- i))
let int_of_z = function Z0 -> 0 | Zpos p -> int_of_pos p | Zneg p -> - (int_of_pos p)

let rec float_of_pos = function
  | XH -> 1.0
  | XO p -> 2.0 *. float_of_pos p
  | XI p -> 2.0 *. float_of_pos p +. 1.0
let float_of_z = function Z0 -> 0.0 | Zpos p -> float_of_pos p | Zneg p -> -. (float_of_pos p)
let float_of_q (x : q) : float = float_of_z x.qnum /. float_of_pos x.qden

let rec pow2_pos k = if k = 0 then XH else XO (pow2_pos (k - 1))
let rec shift_pos p k = if k = 0 then p else shift_pos (XO p) (k - 1)

(* exact value of a finite double *)
let q_of_float (f : float) : q =
  if f = 0.0 then { qnum = Z0; qden = XH } else begin
    if Float.is_nan f || Float.is_integer f = false && Float.abs f = Float.infinity then failwith "non-finite";
    let (m, e) = Float.frexp f in
    let mant = Int64.to_int (Int64.of_float (Float.ldexp m 53)) in   (* |mant| < 2^53, exact *)
    let e = e - 53 in
    let num = z_of_int mant in
    if e >= 0 then
      { qnum = (match num with Z0 -> Z0 | Zpos p -> Zpos (shift_pos p e) | Zneg p -> Zneg (shift_pos p e)); qden = XH }
    else { qnum = num; qden = pow2_pos (- e) }
  end

let float_of_bits_hex (s : string) : float = Int64.float_of_bits (Int64.of_string ("0x" ^ s))

(* ---- Z dump parser ---- *)
let parse_dump_gen (ordf : string -> 'a) (zero : 'a) (toks : string list) : 'a geomT * string list =
  let cur = ref toks in
  let next () = match !cur with
    | [] -> raise (Parse_error "unexpected end of dump")
    | t :: r -> cur := r; t in
  let next_int () = try int_of_string (next ()) with Failure _ -> raise (Parse_error "not an integer") in
  let ord () = ordf (next ()) in
  let vtx ct =
    let x = ord () in
    let y = ord () in
    let z = if ct_has_z ct then ord () else zero in
    let m = if ct_has_m ct then ord () else zero in
    { vx = x; vy = y; vz = z; vm = m } in
  let point_body () =
    let ct = ct_of_int (next_int ()) in
    let full = next_int () in
    if full = 0 then MkPoint (ct, None) else MkPoint (ct, Some (vtx ct)) in
  let line_body () =
    let ct = ct_of_int (next_int ()) in
    let k = next_int () in
    MkLine (ct, List.init k (fun _ -> vtx ct)) in
  let expect tag = let t = next () in if t <> tag then raise (Parse_error ("expected " ^ tag ^ " got " ^ t)) in
  let poly_body () =
    let ct = ct_of_int (next_int ()) in
    let k = next_int () in
    MkPoly (ct, List.init k (fun _ -> expect "L"; line_body ())) in
  let rec geom () =
    match next () with
    | "P" -> GPoint (point_body ())
    | "L" -> GLine (line_body ())
    | "Y" -> GPoly (poly_body ())
    | "MP" -> let ct = ct_of_int (next_int ()) in let k = next_int () in
      GMPoint (ct, List.init k (fun _ -> expect "P"; point_body ()))
    | "ML" -> let ct = ct_of_int (next_int ()) in let k = next_int () in
      GMLine (ct, List.init k (fun _ -> expect "L"; line_body ()))
    | "MY" -> let ct = ct_of_int (next_int ()) in let k = next_int () in
      GMPoly (ct, List.init k (fun _ -> expect "Y"; poly_body ()))
    | "GC" -> let ct = ct_of_int (next_int ()) in let k = next_int () in
      GColl (ct, List.init k (fun _ -> geom ()))
    | t -> raise (Parse_error ("unknown tag " ^ t)) in
  let g = geom () in
  (g, !cur)


let parse_zdump_tokens (toks : string list) : z geomT * string list =
  parse_dump_gen (fun t -> try z_of_int (int_of_string t) with Failure _ -> raise (Parse_error "not an integer")) Z0 toks

(* float dump (harness lib.Dump: 16 hex digits per ordinate) read as exact rationals *)
let parse_fdump (s : string) : q geomT =
  let q0 = { qnum = Z0; qden = XH } in
  let g, rest = parse_dump_gen (fun t -> q_of_float (float_of_bits_hex t)) q0 (tokens s) in
  if rest <> [] then raise (Parse_error "trailing tokens in dump");
  g

let parse_zdump (s : string) : z geomT =
  let g, rest = parse_zdump_tokens (tokens s) in
  if rest <> [] then raise (Parse_error "trailing tokens in dump");
  g

let zdump (g : z geomT) : string =
  let b = Buffer.create 256 in
  let add s = Buffer.add_string b s; Buffer.add_char b ' ' in
  let addz v = add (string_of_int (int_of_z v)) in
  let vtx ct v =
    addz v.vx; addz v.vy;
    if ct_has_z ct then addz v.vz;
    if ct_has_m ct then addz v.vm in
  let point (MkPoint (ct, c)) =
    add "P"; add (string_of_int (int_of_ct ct));
    (match c with None -> add "0" | Some v -> add "1"; vtx ct v) in
  let line (MkLine (ct, vs)) =
    add "L"; add (string_of_int (int_of_ct ct)); add (string_of_int (List.length vs));
    List.iter (vtx ct) vs in
  let poly (MkPoly (ct, rs)) =
    add "Y"; add (string_of_int (int_of_ct ct)); add (string_of_int (List.length rs));
    List.iter line rs in
  let hdr tag ct k = add tag; add (string_of_int (int_of_ct ct)); add (string_of_int k) in
  let rec geom = function
    | GPoint p -> point p
    | GLine l -> line l
    | GPoly p -> poly p
    | GMPoint (ct, ps) -> hdr "MP" ct (List.length ps); List.iter point ps
    | GMLine (ct, ls) -> hdr "ML" ct (List.length ls); List.iter line ls
    | GMPoly (ct, ps) -> hdr "MY" ct (List.length ps); List.iter poly ps
    | GColl (ct, gs) -> hdr "GC" ct (List.length gs); List.iter geom gs in
  geom g;
  String.trim (Buffer.contents b)

(* ---- dyadic rationals -> integers: all ordinates of a float64 case are multiplied by the same
   power of two 2^k, the smallest that makes every one of them an integer. Orientation tests and
   incidences are invariant, squared distances scale by 2^(2k). Purely for speed (integer
   arithmetic instead of fractions in the extracted model). ---- *)
let rec pow2_log = function XH -> 0 | XO p -> 1 + pow2_log p | XI _ -> failwith "denominator is not a power of two"

let map_vtx f v = { v with vx = f v.vx; vy = f v.vy }   (* X and Y only: Z/M are not read by the model *)
let map_point f (MkPoint (ct, c)) = MkPoint (ct, (match c with None -> None | Some v -> Some (map_vtx f v)))
let map_line f (MkLine (ct, vs)) = MkLine (ct, List.map (map_vtx f) vs)
let map_poly f (MkPoly (ct, rs)) = MkPoly (ct, List.map (map_line f) rs)
let rec map_geom f = function
  | GPoint p -> GPoint (map_point f p)
  | GLine l -> GLine (map_line f l)
  | GPoly y -> GPoly (map_poly f y)
  | GMPoint (ct, ps) -> GMPoint (ct, List.map (map_point f) ps)
  | GMLine (ct, ls) -> GMLine (ct, List.map (map_line f) ls)
  | GMPoly (ct, ys) -> GMPoly (ct, List.map (map_poly f) ys)
  | GColl (ct, gs) -> GColl (ct, List.map (map_geom f) gs)

let iter_ords (f : q -> unit) (g : q geomT) : unit =
  ignore (map_geom (fun x -> f x; x) g)

(* returns k and the geometries scaled by 2^k (k may be negative: a common factor 2^-k of all
   ordinates is divided out, so that a lattice case scaled by a power of two comes back as the
   lattice case) *)
let rec trailing_zeros = function XO p -> 1 + trailing_zeros p | _ -> 0
let rec shift_right p n = if n = 0 then p else (match p with XO q -> shift_right q (n - 1) | _ -> failwith "shift_right")

let scale_to_integers (gs : q geomT list) : int * q geomT list =
  let k = ref 0 in
  List.iter (iter_ords (fun x -> k := max !k (pow2_log x.qden))) gs;
  let k = !k in
  let shift x =
    let j = pow2_log x.qden in
    let sh = k - j in
    let num = match x.qnum with
      | Z0 -> Z0 | Zpos p -> Zpos (shift_pos p sh) | Zneg p -> Zneg (shift_pos p sh) in
    { qnum = num; qden = XH } in
  let gs = List.map (map_geom shift) gs in
  (* common power of two of all non-zero X/Y numerators (Z and M are carried along) *)
  let tz = ref max_int in
  let see x = match x.qnum with Z0 -> () | Zpos p | Zneg p -> tz := min !tz (trailing_zeros p) in
  List.iter (fun g -> ignore (map_geom (fun x -> see x; x) g)) gs;
  let tz = if !tz = max_int then 0 else !tz in
  let unshift x = match x.qnum with
    | Z0 -> x | Zpos p -> { x with qnum = Zpos (shift_right p tz) } | Zneg p -> { x with qnum = Zneg (shift_right p tz) } in
  (k - tz, List.map (map_geom unshift) gs)

let q_pow2 (k : int) : q =
  if k >= 0 then { qnum = Zpos (pow2_pos k); qden = XH } else { qnum = Zpos XH; qden = pow2_pos (- k) }
