(* C10 correspondence driver.
   Input: one HISTORY per line (harness/cmd/c10): initial store digest, then per event the call
   key, the digest of the result bytes and the digest of the operand store re-observed after the
   call. The extracted checker [history_ok_N] (coq/Model/Canon.v; its meaning is the theorem
   history_ok_iff_explainable of coq/Props/C10.v) decides whether the observed history is the run of
   a pure function on an unchanging store: that is the property's executable statement (SPEC).
   Also: the result geometries of set operations are taken apart, their members scrambled and put
   back in order by the extracted canonicalisation model; the model's order must be the
   implementation's (CORR). Strings are interned to numbers here (injective, trusted). *)
open Model
open Sfio

let intern_tbl : (string, int) Hashtbl.t = Hashtbl.create 4096
let intern (s : string) : n =
  match Hashtbl.find_opt intern_tbl s with
  | Some i -> n_of_int i
  | None -> let i = Hashtbl.length intern_tbl + 1 in Hashtbl.replace intern_tbl s i; n_of_int i

let split_on c s = List.filter (fun x -> x <> "") (String.split_on_char c s)

let float_of_n (v : n) : float = Int64.float_of_bits (Int64.of_string ("0x" ^ hex_of_n 16 v))

let keys_of_line (MkLine (_, vs)) : (z * z) list = List.map (fun v -> (ord_key v.vx, ord_key v.vy)) vs

(* orientation flag of a ring: sign of the shoelace sum, computed on the doubles (trusted glue;
   same formula as geom/type_polygon.go:signedAreaOfLinearRing) *)
let ccw_of_line (MkLine (_, vs)) : bool =
  let pts = List.map (fun v -> (float_of_n v.vx, float_of_n v.vy)) vs in
  let rec go acc = function
    | (x0, y0) :: ((x1, y1) :: _ as t) -> go (acc +. (x1 +. x0) *. (y1 -. y0)) t
    | _ -> acc in
  go 0.0 pts > 0.0

let tagged_poly (MkPoly (_, rings)) = List.map (fun r -> (ccw_of_line r, keys_of_line r)) rings

(* members of a result in order of appearance: polygons, linestrings, points; group tags for the
   grouping check of GeometryCollections *)
let members (g : n geomT) =
  let polys = ref [] and lines = ref [] and pts = ref [] and groups = ref [] in
  let add_pt (MkPoint (_, c)) = match c with
    | Some v -> pts := (ord_key v.vx, ord_key v.vy) :: !pts; groups := 2 :: !groups
    | None -> () in
  let rec go = function
    | GPoint p -> add_pt p
    | GLine l -> lines := keys_of_line l :: !lines; groups := 1 :: !groups
    | GPoly p -> polys := tagged_poly p :: !polys; groups := 0 :: !groups
    | GMPoint (_, ps) -> List.iter add_pt ps
    | GMLine (_, ls) -> List.iter (fun l -> go (GLine l)) ls
    | GMPoly (_, ps) -> List.iter (fun p -> go (GPoly p)) ps
    | GColl (_, gs) -> List.iter go gs in
  go g;
  (List.rev !polys, List.rev !lines, List.rev !pts, List.rev !groups)

let rec nondecreasing = function
  | a :: (b :: _ as t) -> a <= b && nondecreasing t
  | _ -> true

let () =
  let path = Sys.argv.(1) in
  iter_lines path (fun line ->
      let f = split_tabs line in
      let f = if Array.length f < 8 then Array.append f (Array.make (8 - Array.length f) "") else f in
      let id = f.(0) in
      incr cases;
      count ("class_" ^ f.(1));
      (* ---- history ---- *)
      let evs_txt = split_on ' ' f.(4) in
      let parsed = List.map (fun e ->
          match String.split_on_char '#' e with
          | [c; r; s] -> (c, r, s)
          | _ -> raise (Parse_error ("bad event " ^ e))) evs_txt in
      let evs = List.map (fun (c, r, s) -> ((intern ("c:" ^ c), intern ("r:" ^ r)), intern ("s:" ^ s))) parsed in
      let s0 = intern ("s:" ^ f.(3)) in
      List.iter (fun (_, r, _) -> if String.length r > 0 && r.[0] = 'E' then count "error_results"
                                  else if String.length r > 0 && r.[0] = 'P' then count "panic_results") parsed;
      let distinct = List.length (List.sort_uniq compare (List.map (fun (c, _, _) -> c) parsed)) in
      Hashtbl.replace counters "events" (List.length evs + (try Hashtbl.find counters "events" with Not_found -> 0));
      Hashtbl.replace counters "distinct_calls" (distinct + (try Hashtbl.find counters "distinct_calls" with Not_found -> 0));
      note_case (f.(2) ^ "|" ^ String.concat " " (List.sort_uniq compare (List.map (fun (c, _, _) -> c) parsed))) (distinct >= 5);
      if not (history_ok_N s0 evs) then begin
        match first_bad_N s0 evs with
        | Some (i, kind) ->
          let i = int_of_nat i in
          let (c, _, _) = List.nth parsed i in
          let (_, r, _) = List.nth parsed i in
          let is_err t = String.length t > 0 && (t.[0] = 'E' || t.[0] = 'P') in
          (* an error (or panic) text is part of the result: when either of the differing results of
             this call is one, the failure is named after the property's "same error" clause *)
          let other_err = List.exists (fun (c', r', _) -> c' = c && is_err r') parsed in
          let name = if int_of_nat kind = 0 then "operand_changed"
            else if is_err r || other_err then "nondeterministic_error" else "nondeterministic_result" in
          (* class pencil: the harness note holds the two operands and both differing results as
             text; it goes first so that it survives the truncation of the printed detail (the
             replay file keeps the whole case line) *)
          let is_pencil = String.length f.(1) >= 6 && String.sub f.(1) 0 6 = "pencil" in
          if is_pencil && f.(7) <> "" then
            fail id "SPEC" name (Printf.sprintf "event %d class %s call %s :: %s" i f.(1) c
                                   (if String.length f.(7) > 3000 then String.sub f.(7) 0 3000 ^ "..." else f.(7)))
          else
          fail id "SPEC" name (trunc (Printf.sprintf "event %d call %s pool %s :: %s" i c f.(2) f.(7)))
        | None -> fail id "CORR" "history_checker_inconsistent" ""
      end;
      if f.(7) <> "" && history_ok_N s0 evs then
        fail id "CORR" "harness_note_without_model_verdict" (trunc f.(7));
      (* ---- aliasing of caller-owned buffers ---- *)
      List.iter (fun kv ->
          count "alias_checks";
          match String.split_on_char '=' kv with
          | [name; "ok"] -> ignore name
          | name :: _ -> fail id "SPEC" ("alias_" ^ name) (trunc ("value changed after the caller overwrote its own buffer/slice; pool " ^ f.(2)))
          | [] -> ()) (split_on ' ' f.(6));
      (* ---- canonical order of overlay results ---- *)
      List.iter (fun kd ->
          match String.index_opt kd '=' with
          | None -> ()
          | Some p ->
            let key = String.sub kd 0 p and dump = String.sub kd (p + 1) (String.length kd - p - 1) in
            let g = parse_dump dump in
            let (polys, lines, pts, groups) = members g in
            count "canon_results";
            if List.length polys > 1 then count "canon_multi_polygon";
            if List.exists (fun p -> List.length p > 2) polys then count "canon_multi_hole";
            if List.length lines > 1 then count "canon_multi_line";
            if List.length pts > 1 then count "canon_multi_point";
            let where = key ^ " result " ^ dump in
            if not (nondecreasing groups) then fail id "CORR" "grouping" (trunc where);
            List.iter (fun k ->
                let k = nat_of_int k in
                if not (api_polys_ok k polys) then fail id "CORR" "canon_polygons" (trunc where);
                if not (api_lines_ok k lines) then fail id "CORR" "canon_linestrings" (trunc where);
                if not (api_points_ok k pts) then fail id "CORR" "canon_points" (trunc where)) [1; 2; 3];
            let exts = List.map (fun p -> match p with [] -> [] | (_, r) :: _ -> r) polys in
            if not (strictly_sortedb sq_ltb exts && strictly_sortedb sq_ltb lines && strictly_sortedb xy_ltb pts
                    && List.for_all (fun p -> match p with [] -> true | _ :: holes -> strictly_sortedb sq_ltb (List.map snd holes)) polys) then
              fail id "CORR" "distinct_members" (trunc where);
            if List.exists (fun p -> match p with (true, _) :: holes -> List.exists fst holes | _ -> true) polys then
              fail id "CORR" "one_ccw_ring_first" (trunc where))
        (String.split_on_char '|' f.(5));
      if !cases <= 3 then
        Printf.printf "SAMPLE\thistory %s class=%s pool=%s events=%d distinct_calls=%d first=%s\n" id f.(1) (trunc f.(2))
          (List.length evs) distinct (match evs_txt with e :: _ -> e | [] -> ""));
  finish ()
