(* C11 correspondence driver: runs the extracted R-tree model on the harness's cases, compares the
   projected observations (CORR) and evaluates the executable statement of the property on the
   implementation's raw observations (SPEC). *)
open Model
open Sfio

let z_of_int (i : int) : z =
  if i = 0 then Z0 else if i > 0 then Zpos (pos_of_int i) else Zneg (pos_of_int (-i))
let int_of_z = function Z0 -> 0 | Zpos p -> int_of_pos p | Zneg p -> - (int_of_pos p)

let split_on c s = if s = "" then [] else String.split_on_char c s

(* ---- ordinates: "c", "cps" (= c * 2^s lattice units, s > 0), "inf", "-inf" (a side of a query box) *)
type ord = Fin of int * int | PInf | NInf

let parse_ord (t : string) : ord =
  match t with
  | "inf" -> PInf
  | "-inf" -> NInf
  | _ ->
    (match String.index_opt t 'p' with
     | None -> Fin (int_of_string t, 0)
     | Some i -> Fin (int_of_string (String.sub t 0 i),
                      int_of_string (String.sub t (i + 1) (String.length t - i - 1))))

(* the largest shift written anywhere on the case line: an infinite side is replaced by
   +-2^(that + 64) lattice units, beyond every finite ordinate of the case (|c| < 2^53), which is
   order-equivalent for a query box: the searches only compare it with item ordinates *)
let max_shift (line : string) : int =
  let m = ref 0 and n = String.length line in
  let i = ref 0 in
  while !i < n do
    if line.[!i] = 'p' && !i + 1 < n && line.[!i + 1] >= '0' && line.[!i + 1] <= '9'
       && !i > 0 && line.[!i - 1] >= '0' && line.[!i - 1] <= '9' then begin
      let j = ref (!i + 1) and v = ref 0 in
      while !j < n && line.[!j] >= '0' && line.[!j] <= '9' do
        v := 10 * !v + Char.code line.[!j] - 48; incr j done;
      if !v > !m then m := !v;
      i := !j
    end else incr i
  done;
  !m

let inf_shift = ref 64
(* binary exponent of the lattice unit of the current case (class suffix "@k") *)
let cur_k = ref 0

let rec shl_pos (p : positive) (s : int) : positive = if s <= 0 then p else shl_pos (XO p) (s - 1)
let z_of_cs (c : int) (s : int) : z =
  if c = 0 then Z0 else if c > 0 then Zpos (shl_pos (pos_of_int c) s) else Zneg (shl_pos (pos_of_int (-c)) s)
let z_of_ord = function
  | Fin (c, s) -> z_of_cs c s
  | PInf -> z_of_cs 1 !inf_shift
  | NInf -> z_of_cs (-1) !inf_shift
(* the float64 the implementation was handed for this ordinate *)
let float_of_ord = function
  | Fin (c, s) -> if c = 0 then 0.0 else Float.ldexp (float_of_int c) (s + !cur_k)
  | PInf -> Float.infinity
  | NInf -> Float.neg_infinity

(* canonical text of an integer of the model (odd part below 2^62, as for every value that is an
   input ordinate) *)
let z_str (v : z) : string =
  let pos_str p =
    let rec tz p n = match p with XO p' -> tz p' (n + 1) | _ -> (p, n) in
    let rec bits p n = match p with XH -> n + 1 | XO p' | XI p' -> bits p' (n + 1) in
    let (odd, n) = tz p 0 in
    let b = bits odd 0 in
    if b + n <= 61 then string_of_int (int_of_pos p)
    else if b <= 61 then Printf.sprintf "%dp%d" (int_of_pos odd) n
    else Printf.sprintf "<%d bits>" (b + n) in
  match v with Z0 -> "0" | Zpos p -> pos_str p | Zneg p -> "-" ^ pos_str p

(* a box: the model's box over Z (pre-image in lattice units) and the float64 box *)
type fbox = { fminx : float; fminy : float; fmaxx : float; fmaxy : float }
let parse_box_f (s : string) : box * fbox =
  match List.map parse_ord (String.split_on_char ',' s) with
  | [a; b; c; d] ->
    ({ minx = z_of_ord a; miny = z_of_ord b; maxx = z_of_ord c; maxy = z_of_ord d },
     { fminx = float_of_ord a; fminy = float_of_ord b; fmaxx = float_of_ord c; fmaxy = float_of_ord d })
  | _ -> failwith ("bad box " ^ s)
let parse_box (s : string) : box = fst (parse_box_f s)

(* items with their float64 boxes (by record id) *)
let parse_items_f (s : string) : (item * fbox) list =
  if s = "-" then [] else
    List.map (fun t ->
        match String.split_on_char ',' t with
        | [a; b; c; d; id] ->
          let (bz, bf) = parse_box_f (String.concat "," [a; b; c; d]) in
          ({ ibox = bz; iid = z_of_int (int_of_string id) }, bf)
        | _ -> failwith ("bad item " ^ t)) (String.split_on_char ';' s)

let box_str b =
  Printf.sprintf "%s,%s,%s,%s" (z_str b.minx) (z_str b.miny) (z_str b.maxx) (z_str b.maxy)

(* rtree/box.go:squaredEuclideanDistance evaluated in IEEE double arithmetic, as the implementation
   does (fastMax(a, b) = if a > b then a else b; OCaml's float operations are the same IEEE
   operations, not fused) *)
let fast_max (a : float) (b : float) : float = if a > b then a else b
let fkey (b : fbox) (q : fbox) : float =
  let dx = fast_max 0.0 (fast_max (b.fminx -. q.fmaxx) (q.fminx -. b.fmaxx)) in
  let dy = fast_max 0.0 (fast_max (b.fminy -. q.fmaxy) (q.fminy -. b.fmaxy)) in
  dx *. dx +. dy *. dy

(* set to true once the finding "PrioritySearch / Nearest order by a float64 squared distance that
   underflows / overflows for ordinates below about 2^-538 / above 2^489" is an entry of
   known_findings.json (check true_order_rounded_keys, detail starting "k=<exponent> "): the traces
   counted as *_lost_to_rounding are then reported as FAIL lines (and matched as that finding) *)
let strict_true_order = false

(* the real tree as exported by rtree/verif_hooks.go:VerifDump *)
exception Bad_dump of string
let parse_real_tree (s : string) : rtree =
  let toks = ref (List.filter (fun t -> t <> "") (String.split_on_char ' ' s)) in
  let next () = match !toks with [] -> raise (Bad_dump "eof") | t :: r -> toks := r; t in
  let num () =
    let t = next () in
    match parse_ord t with
    | Fin (c, sh) -> z_of_cs c sh
    | _ -> raise (Bad_dump ("infinite ordinate " ^ t))
    | exception _ -> raise (Bad_dump ("non-integral ordinate " ^ t)) in
  let bx () = let a = num () in let b = num () in let c = num () in let d = num () in
    { minx = a; miny = b; maxx = c; maxy = d } in
  let rec node () : entry list =
    if next () <> "N" then raise (Bad_dump "expected N");
    let k = int_of_string (next ()) in
    List.init k (fun _ ->
        match next () with
        | "L" -> let b = bx () in let id = num () in ELeaf (b, id)
        | "B" -> let b = bx () in let n = node () in EBranch (b, n)
        | t -> raise (Bad_dump ("tag " ^ t))) in
  if next () <> "T" then raise (Bad_dump "expected T");
  let c = int_of_string (next ()) in
  let r = match !toks with
    | ["nil"] -> None
    | _ -> let n = node () in if !toks <> [] then raise (Bad_dump "trailing"); Some n in
  { root = r; tcount = nat_of_int c }

let parse_act (s : string) : action =
  match s.[0] with
  | 's' -> Stop
  | 'w' -> WrappedStop
  | 'f' -> Fail (z_of_int (int_of_string (String.sub s 1 (String.length s - 1))))
  | _ -> failwith "bad action"

let parse_ret (s : string) : result =
  if s = "nil" then RNil
  else if s = "stop" then RErr (z_of_int (-1))     (* Stop surfaced as a non-nil error *)
  else if s = "other" then RErr (z_of_int (-2))    (* an error that is not the callback's own *)
  else if s = "panic" then RErr (z_of_int (-3))    (* the search panicked (recovered by the harness) *)
  else RErr (z_of_int (int_of_string (String.sub s 1 (String.length s - 1))))

let ret_str = function RNil -> "nil" | RErr e -> "e" ^ string_of_int (int_of_z e)

let ids_sorted (v : item list) = List.sort compare (List.map (fun it -> int_of_z it.iid) v)
let dists q (v : item list) = List.map (fun it -> z_str (sqdist it.ibox q)) v
let ints_str l = String.concat "," (List.map string_of_int l)
let strs_str l = String.concat "," l

let samples = ref 0

(* The case file is read completely before any case is judged: build/C11_c11.cases is shared by
   every C11 run, and a concurrently started run truncates it under a long-running (thorough) one. *)
let read_all_lines (path : string) : string list =
  let ic = open_in_bin path in
  let n = in_channel_length ic in
  let s = really_input_string ic n in
  close_in ic;
  List.filter (fun l -> String.length l > 0 && l.[0] <> '#') (String.split_on_char '\n' s)

let () =
  let path = Sys.argv.(1) in
  let guarded f line =
    (* a case the driver cannot process is a broken correspondence for that case, not a crash *)
    try f line with
    | Stack_overflow -> fail (List.hd (String.split_on_char '\t' line)) "CORR" "driver_exception" "Stack_overflow"
    | Out_of_memory -> fail (List.hd (String.split_on_char '\t' line)) "CORR" "driver_exception" "Out_of_memory"
    | e -> fail (List.hd (String.split_on_char '\t' line)) "CORR" "driver_exception" (Printexc.to_string e) in
  List.iter (guarded (fun line ->
      let f = split_tabs line in
      let id = f.(0) and cls = f.(1) in
      incr cases;
      (* class = [big:|mm:] layout [@k]: the case ran in units of 2^k *)
      let (cls_base, k_exp) = match String.index_opt cls '@' with
        | None -> (cls, 0)
        | Some i -> (String.sub cls 0 i, int_of_string (String.sub cls (i + 1) (String.length cls - i - 1))) in
      cur_k := k_exp;
      inf_shift := max_shift line + 64;
      let is_mm = String.length cls > 3 && String.sub cls 0 3 = "mm:" in
      let items_f = parse_items_f f.(2) in
      let items = List.map fst items_f in
      let n = List.length items in
      count ("layout_" ^ cls_base);
      if k_exp <> 0 then count "rescaled_populations";
      (* float64 boxes by record id, and the largest lattice ordinate (for the exactness bound) *)
      let ftbl = Hashtbl.create (2 * n + 1) in
      List.iter (fun ((it : item), bf) -> Hashtbl.replace ftbl (int_of_z it.iid) bf) items_f;
      let max_abs = ref 1 in
      let scan_ords (str : string) =
        List.iter (fun t -> match parse_ord t with
            | Fin (c, _) -> if abs c > !max_abs then max_abs := abs c
            | _ -> ()
            | exception _ -> ()) (String.split_on_char ',' str) in
      if f.(2) <> "-" then List.iter (fun t ->
          match String.split_on_char ',' t with
          | [a; b; c; d; _] -> scan_ords (String.concat "," [a; b; c; d])
          | _ -> ()) (String.split_on_char ';' f.(2));
      let items_max_abs = !max_abs in
      let tbl = Hashtbl.create (2 * n + 1) in
      List.iter (fun it -> Hashtbl.replace tbl (int_of_z it.iid) it) items;
      if Hashtbl.length tbl <> n then fail id "CORR" "harness_ids_not_distinct" "";
      let key0 = Digest.string f.(2) in
      (* populations of class big:* (4097..5000 items, also in the quick tier) are judged by the
         executable specification on the item list alone and by the model searches run on the
         REAL tree (hook); the extracted bulk loader and tree are not built for them (quadratic) *)
      let spec_only = String.length cls > 4 && String.sub cls 0 4 = "big:" in
      if spec_only then count "big_spec_only_populations";
      (* ---- bulk load *)
      let t = if spec_only then { root = None; tcount = O } else
        match bulk_load items with
        | Ok t -> t
        | _ -> fail id "CORR" "bulk_load_outcome" "model bulk_load did not return a tree";
          { root = None; tcount = O } in
      if not spec_only && not (tree_inv t) then fail id "CORR" "model_tree_inv" "invariant false on the model's own tree";
      (* ---- Count / Extent *)
      let go_count = int_of_string f.(3) in
      if not spec_only && int_of_nat (Model.count t) <> go_count then
        fail id "CORR" "count" (Printf.sprintf "model=%d impl=%d" (int_of_nat (Model.count t)) go_count);
      if not (count_ok items (nat_of_int go_count)) then
        fail id "SPEC" "count" (Printf.sprintf "items=%d Count()=%d" n go_count);
      let go_ext = if f.(4) = "none" then None
        else if String.contains f.(4) 'x' then Some None else Some (Some (parse_box f.(4))) in
      (match go_ext with
       | Some None -> fail id "SPEC" "extent" ("non-integral extent " ^ f.(4))
       | _ ->
         let ge = match go_ext with Some (Some b) -> Some b | _ -> None in
         let me = extent t in
         let s = function None -> "none" | Some b -> box_str b in
         if not spec_only && s me <> s ge then fail id "CORR" "extent" ("model=" ^ s me ^ " impl=" ^ s ge);
         if not (extent_ok items ge) then fail id "SPEC" "extent" ("impl=" ^ s ge));
      (* ---- the real tree (hook) *)
      let real =
        if f.(5) = "-" then (count "no_hook"; None)
        else match parse_real_tree f.(5) with
          | rt ->
            count "real_trees";
            if not (tree_inv rt) then fail id "SPEC" "tree_inv_real" (trunc f.(5));
            (match ms_diff items (tree_leaves rt) with
             | Some [] -> ()
             | _ -> fail id "SPEC" "real_leaves" "leaves of the real tree are not the loaded items");
            if not spec_only then (if rt = t then count "shape_same_as_model" else count "shape_differs_from_model");
            Some rt
          | exception Bad_dump m -> fail id "CORR" "dump_parse" m; None in
      (* ---- searches *)
      List.iter (fun s ->
          match String.split_on_char ':' s with
          | [kind0; qs; ks; acts; rets; idss] ->
            incr cases;
            (* the tag after the kind letter names the history the trace was observed in (o = outer
               search with searches nested in its callback, i = inner search, c = concurrent); the
               model judges every trace alike: a search is a function of (tree, query, script) *)
            let kind = String.sub kind0 0 1 in
            (match String.sub kind0 1 (String.length kind0 - 1) with
             | "" -> ()
             | "o" -> count ("history_outer_" ^ kind)
             | "i" -> count ("history_inner_" ^ kind)
             | "c" -> count ("history_concurrent_" ^ kind)
             | t -> failwith ("bad history tag " ^ t));
            let (q, qf) = parse_box_f qs in
            let k = int_of_string ks in
            (* Are the implementation's float64 squared distances exact for this population and
               query?  Uniformly rescaled lattice (no mixed magnitudes): gaps g < 2^b lattice units
               with b = bits(2 * max |c|), squares g*g*2^(2k) are multiples of 2^-1074 when
               2k >= -1074 and dx*dx + dy*dy < 2^(2b+1+2k) is finite when 2b+1+2k <= 1024; integers
               below 2^53, so every intermediate is exact and the keys are the model's sqdist * 2^(2k):
               same order, same ties.  Otherwise ("rounded keys") the order clause of the
               statement is evaluated as: x may come before y when the TRUE distances say so or
               the float64 keys, recomputed here in IEEE double arithmetic, say so. *)
            max_abs := items_max_abs; scan_ords qs;
            let nbits v = let rec go v b = if v = 0 then b else go (v lsr 1) (b + 1) in go v 0 in
            let b2 = nbits (2 * !max_abs) in
            let exact_keys = not is_mm && 2 * k_exp >= -1074 && 2 * b2 + 1 + 2 * k_exp <= 1024 && b2 <= 26 in
            let fk_memo : (int, float) Hashtbl.t = Hashtbl.create 16 in
            let fk (it : item) : float =
              let i = int_of_z it.iid in
              match Hashtbl.find_opt fk_memo i with
              | Some v -> v
              | None -> let v = fkey (Hashtbl.find ftbl i) qf in Hashtbl.replace fk_memo i v; v in
            let le_rounded = le_or q (fun x y -> fk x <= fk y) in
            let sid = id ^ "/" ^ kind0 ^ ":" ^ qs ^ ":" ^ ks ^ ":" ^ acts in
            note_case (Digest.string (key0 ^ s)) (n > 0);
            let go_ids = List.map int_of_string (split_on ',' idss) in
            let unknown = List.filter (fun i -> not (Hashtbl.mem tbl i)) go_ids in
            if unknown <> [] then
              fail id "SPEC" "unknown_id" (sid ^ " callback got ids never loaded: " ^ trunc (ints_str unknown))
            else begin
              let go_vis = List.map (fun i -> Hashtbl.find tbl i) go_ids in
              match kind with
              | "R" ->
                count "range_searches";
                let a = parse_act acts in
                let cb = script (nat_of_int k) a in
                let go_ret = parse_ret rets in
                (* big populations: the model search runs on the real tree (or, without the hook, is
                   replaced by the implementation's own answer, leaving the SPEC checks only) *)
                let (mv, mret) = if not spec_only then range_search q cb t else
                    match real with Some rt -> range_search q cb rt | None -> (go_vis, go_ret) in
                if k < List.length mv then count ("range_stopped_" ^ String.make 1 acts.[0]) else count "range_full";
                (* which records an interrupted search saw depends on the (unspecified) visiting order:
                   the sets are compared for uninterrupted searches only; the number of callback
                   invocations and the returned error are compared always, and range_ok below
                   judges the implementation's raw sequence in every case *)
                let complete = k >= List.length mv in
                if complete && ids_sorted mv <> ids_sorted go_vis then
                  fail id "CORR" "range_set" (trunc (sid ^ " model=" ^ ints_str (ids_sorted mv) ^ " impl=" ^ ints_str (ids_sorted go_vis)));
                if List.length mv <> List.length go_vis then
                  fail id "CORR" "range_calls" (Printf.sprintf "%s model=%d impl=%d" sid (List.length mv) (List.length go_vis));
                if mret <> go_ret then fail id "CORR" "range_ret" (sid ^ " model=" ^ ret_str mret ^ " impl=" ^ rets);
                (match real with
                 | Some rt ->
                   let (rv, _) = range_search q cb rt in
                   if complete && ids_sorted rv <> ids_sorted go_vis then
                     fail id "CORR" "range_set_on_real_tree" (trunc (sid ^ " model=" ^ ints_str (ids_sorted rv) ^ " impl=" ^ ints_str (ids_sorted go_vis)))
                 | None -> ());
                if not (range_ok items q cb go_vis go_ret) then
                  fail id "SPEC" "range_ok" (trunc (Printf.sprintf "%s ret=%s calls=%d visits=%s" sid rets (List.length go_ids) idss));
                if !samples < 3 && n >= 5 && k < List.length mv then begin
                  incr samples;
                  Printf.printf "SAMPLE\tcase %s n=%d RangeSearch q=%s script=Continue^%d.%s -> impl visits [%s] ret %s; model visits [%s] ret %s; range_ok=true\n"
                    id n qs k acts idss rets (ints_str (List.map (fun it -> int_of_z it.iid) mv)) (ret_str mret)
                end
              | "P" when not exact_keys ->
                count "priority_searches";
                count "prio_rounded_keys";
                let a = parse_act acts in
                let cb = script (nat_of_int k) a in
                let go_ret = parse_ret rets in
                if k < List.length go_vis - 1 || k < n - 1 then count ("prio_stopped_" ^ String.make 1 acts.[0]) else count "prio_full";
                let fks () = strs_str (List.map (fun it -> Printf.sprintf "%h" (fk it)) go_vis) in
                if not (prio_ok_rel le_rounded items cb go_vis go_ret) then
                  fail id "SPEC" "prio_ok" (trunc (Printf.sprintf "%s k=%d rounded keys ret=%s calls=%d visits=%s float_keys=%s" sid k_exp rets (List.length go_ids) idss (fks ())))
                else if not is_mm && not (prio_ok items q cb go_vis go_ret) then begin
                  (* in the order of the rounded keys, not in the order of the true distances *)
                  count "prio_true_order_lost_to_rounding";
                  if strict_true_order then
                    fail id "SPEC" "true_order_rounded_keys" (trunc (Printf.sprintf "k=%d %s ret=%s visits=%s dists=%s float_keys=%s" k_exp sid rets idss (strs_str (dists q go_vis)) (fks ())))
                end
              | "P" ->
                count "priority_searches";
                let a = parse_act acts in
                let cb = script (nat_of_int k) a in
                let go_ret = parse_ret rets in
                (* the model runs Go's container/heap on entriesQueue (Model/RTreeHeap.v), so the visiting
                   order among equal distances is Go's; populations above 1000 use the list-based
                   minimum queue (the list-encoded heap is too slow there): distances only *)
                let real_heap = n <= 1000 in
                (match (if spec_only then
                          (* on the real tree with Go's heap when the search is short, else SPEC only *)
                          (match real with
                           | Some rt when k <= 64 -> priority_search_heap q cb rt
                           | _ -> Some (go_vis, go_ret))
                        else if real_heap then priority_search_heap q cb t
                        else priority_search pop_min q cb t) with
                 | None -> fail id "CORR" "prio_fuel" sid
                 | Some (mv, mret) ->
                   if (real_heap && not spec_only) || (spec_only && real <> None && k <= 64) then begin
                     count "prio_on_real_heap";
                     let mids = List.map (fun it -> int_of_z it.iid) mv in
                     (* tie order is not part of the property: a difference is a broken
                        correspondence (CORR), the spec checks below still judge the trace *)
                     if mids <> go_ids then
                       fail id "CORR" "prio_sequence" (trunc (sid ^ " model=" ^ ints_str mids ^ " impl=" ^ idss))
                   end;
                   if k < List.length mv then count ("prio_stopped_" ^ String.make 1 acts.[0]) else count "prio_full";
                   if dists q mv <> dists q go_vis then
                     fail id "CORR" "prio_distances" (trunc (sid ^ " model=" ^ strs_str (dists q mv) ^ " impl=" ^ strs_str (dists q go_vis)));
                   if mret <> go_ret then fail id "CORR" "prio_ret" (sid ^ " model=" ^ ret_str mret ^ " impl=" ^ rets);
                   if !samples < 5 && !samples >= 3 && n >= 5 && k < List.length mv then begin
                     incr samples;
                     Printf.printf "SAMPLE\tcase %s n=%d PrioritySearch q=%s script=Continue^%d.%s -> impl visits [%s] distances [%s] ret %s; model distances [%s]; prio_ok=true\n"
                       id n qs k acts idss (strs_str (dists q go_vis)) rets (strs_str (dists q mv))
                   end);
                (* the float64 keys are exact here: the recomputed keys must order the records as the
                   model's integers do (a check of the driver's own float arithmetic and exactness bound) *)
                if k_exp <> 0 && not (prio_ok_rel (fun x y -> fk x <= fk y) items cb go_vis go_ret) then
                  fail id "CORR" "float_keys_not_exact" (sid ^ " k=" ^ string_of_int k_exp);
                if not (prio_ok items q cb go_vis go_ret) then
                  fail id "SPEC" "prio_ok" (trunc (Printf.sprintf "%s ret=%s calls=%d visits=%s dists=%s" sid rets (List.length go_ids) idss (strs_str (dists q go_vis))))
              | "N" when not exact_keys ->
                count "nearest";
                count "nearest_rounded_keys";
                let go_r = match rets, go_vis with
                  | "found", [x] -> Some x
                  | _ -> None in
                if rets = "panic" then fail id "SPEC" "nearest_ok" (sid ^ " ret=panic")
                else if not (nearest_ok_rel le_rounded items go_r) then
                  fail id "SPEC" "nearest_ok" (Printf.sprintf "%s k=%d rounded keys ret=%s id=%s" sid k_exp rets idss)
                else if not is_mm && not (nearest_ok items q go_r) then begin
                  count "nearest_true_min_lost_to_rounding";
                  (match go_r with
                   | Some x when not (overlap x.ibox q) && List.exists (fun (y : item) -> overlap y.ibox q) items ->
                     count "nearest_misses_an_overlapping_record"
                   | _ -> ());
                  if strict_true_order then
                    fail id "SPEC" "true_order_rounded_keys" (Printf.sprintf "k=%d %s ret=%s id=%s" k_exp sid rets idss)
                end
              | "N" ->
                count "nearest";
                let go_r = match rets, go_vis with
                  | "found", [x] -> Some x
                  | _ -> None in
                (match (if spec_only then (match real with Some rt -> nearest_heap rt q | None -> Some go_r)
                        else if n <= 1000 then nearest_heap t q else nearest pop_min t q) with
                 | None -> fail id "CORR" "nearest_fuel" sid
                 | Some mr ->
                   (if n <= 1000 || (spec_only && real <> None) then
                      let i = function None -> "none" | Some (x : item) -> string_of_int (int_of_z x.iid) in
                      if i mr <> i go_r then fail id "CORR" "nearest_id" (sid ^ " model=" ^ i mr ^ " impl=" ^ i go_r));
                   let d = function None -> "none" | Some (x : item) -> z_str (sqdist x.ibox q) in
                   if d mr <> d go_r then fail id "CORR" "nearest_distance" (sid ^ " model=" ^ d mr ^ " impl=" ^ d go_r));
                if not (nearest_ok items q go_r) then
                  fail id "SPEC" "nearest_ok" (sid ^ " ret=" ^ rets ^ " id=" ^ idss)
              | _ -> failwith "bad search kind"
            end
          | _ -> failwith ("bad search record " ^ s))
        (split_on '|' f.(6)))) (read_all_lines path);
  finish ()
