(* C12 correspondence driver: runs the extracted envelope model (Model/Envelope.v) on the harness's
   cases (harness/cmd/c12) and compares; evaluates the property's executable statements on the
   implementation's own outputs (SPEC). All float64 values arrive as hex bit patterns and are read
   by the extracted Gallina functions key_of_bits / int_of_bits / scaled_int_of_bits. *)
open Model
open Sfio

exception Bad of string

let split_on c s = if s = "" then [] else String.split_on_char c s

(* the extracted readers work on binary-positive arithmetic (a 64-bit division costs microseconds);
   the same few hundred bit patterns recur in the exhaustive streams, so their results are memoised
   by hex string (pure functions, same results) *)
let memo (f : n -> 'a) : string -> 'a =
  let t : (string, 'a) Hashtbl.t = Hashtbl.create 1024 in
  fun h -> match Hashtbl.find_opt t h with
    | Some v -> v
    | None -> let v = f (n_of_hex h) in if Hashtbl.length t < 200000 then Hashtbl.replace t h v; v
let int_of_hex : string -> z option = memo int_of_bits
let key_of_hex : string -> fkey = memo key_of_bits

(* ---- envelopes ---- *)
let env_of_str (conv : string -> 'a) (s : string) : 'a box option =
  if s = "E" then None
  else match split_on ',' s with
    | [a; b; c; d] -> Some { minx = conv a; miny = conv b; maxx = conv c; maxy = conv d }
    | _ -> raise (Bad ("envelope syntax: " ^ s))

let kenv_of_str s : fkey box option = env_of_str key_of_hex s

let z_of_hex (h : string) : z =
  match int_of_hex h with Some v -> v | None -> raise (Bad "ordinate is not an integer")
let zenv_of_str s : z box option = env_of_str z_of_hex s

let xy_list (conv : string -> 'a) (s : string) : ('a * 'a) list =
  if s = "-" then []
  else List.map (fun p -> match split_on ',' p with
      | [x; y] -> (conv x, conv y)
      | _ -> raise (Bad ("point syntax: " ^ p))) (split_on ';' s)

let rec z_of_int (i : int) : z =
  if i = 0 then Z0 else if i > 0 then Zpos (pos_of_int i) else Zneg (pos_of_int (- i))
let rec int_of_z = function Z0 -> 0 | Zpos p -> int_of_pos p | Zneg p -> - (int_of_pos p)

let str_of_zenv = function
  | None -> "E"
  | Some b -> Printf.sprintf "[%d %d %d %d]" (int_of_z b.minx) (int_of_z b.miny) (int_of_z b.maxx) (int_of_z b.maxy)
(* keys are shown as the double they stand for *)
let str_of_key = function
  | None -> "NaN"
  | Some k ->
    let mag, neg = (match k with Z0 -> (N0, false) | Zpos p -> (Npos p, false) | Zneg p -> (Npos p, true)) in
    let f = Int64.float_of_bits (Int64.of_string ("0x" ^ hex_of_n 16 mag)) in
    Printf.sprintf "%.17g" (if neg then -. f else f)
let str_of_kenv = function
  | None -> "E"
  | Some b -> Printf.sprintf "[%s %s %s %s]" (str_of_key b.minx) (str_of_key b.miny) (str_of_key b.maxx) (str_of_key b.maxy)

let b01 b = if b then "1" else "0"
let key_is_nan = function None -> true | Some _ -> false
let kzero : fkey = Some Z0

let sample_count : (string, int) Hashtbl.t = Hashtbl.create 8
let sample kind s =
  let c = try Hashtbl.find sample_count kind with Not_found -> 0 in
  if c < (if kind = "G" then 2 else 1) then begin
    Hashtbl.replace sample_count kind (c + 1); Printf.printf "SAMPLE\t%s\t%s\n" kind (trunc s) end

(* ---- G: geometries ---- *)
let do_geometry id (f : string array) =
  let cls = f.(2) in
  count ("class_" ^ cls);
  let gb = parse_dump f.(3) in
  let gk = map_geom key_of_bits gb in
  let e_go = kenv_of_str f.(4) in
  let e_m = env_of kO gk in
  note_case f.(3) (not (is_empty gk));
  if not (kenv_same e_m e_go) then
    fail id "CORR" "envelope" (trunc (Printf.sprintf "model=%s impl=%s geom=%s" (str_of_kenv e_m) (str_of_kenv e_go) f.(3)));
  (* the lattice classes are also run through the integer instance *)
  let lattice = cls <> "longlattice" && cls <> "longfloat" && all_int gb in
  if lattice then begin
    count "int_instance";
    let gz = map_geom int_or_zero gb in
    let ez = env_of zO gz in
    (try
       let ez_go = zenv_of_str f.(4) in
       if ez <> ez_go then fail id "CORR" "envelope_int" (trunc (Printf.sprintf "model=%s impl=%s" (str_of_zenv ez) (str_of_zenv ez_go)))
     with Bad m -> fail id "CORR" "envelope_int" m)
  end;
  (* DumpCoordinates is the control-point list of the model *)
  let pts = xy_list key_of_hex f.(5) in
  let cm = ctrl_xys gk in
  if not (List.length pts = List.length cm
          && List.for_all2 (fun (a, b) (c, d) -> key_same a c && key_same b d) pts cm) then
    fail id "CORR" "dump_coordinates" (trunc f.(3));
  let has_nan = List.exists (fun (x, y) -> key_is_nan x || key_is_nan y) pts in
  if has_nan then count "xy_has_nan";
  (match e_go with None -> count "env_empty" | Some _ -> count "env_nonempty");
  (* SPEC: tightness and emptiness on the implementation's own envelope *)
  let hyp_holes = holes_in_shell_box kO gk and hyp_shell = shells_nonempty gk in
  if not hyp_holes then count "hyp_hole_outside_shell_box";
  if not hyp_shell then count "hyp_empty_exterior_ring";
  if not has_nan then begin
    if hyp_shell && (e_go = None) <> is_empty gk then
      fail id "SPEC" "empty_iff_empty" (trunc (Printf.sprintf "envelope=%s geometry_empty=%b geom=%s" (str_of_kenv e_go) (is_empty gk) f.(3)));
    if hyp_holes && hyp_shell then begin
      count "tightness_checked";
      if not (tight_spec kO pts e_go) then
        fail id "SPEC" "tight" (trunc (Printf.sprintf "envelope=%s is not the min/max box of DumpCoordinates; geom=%s" (str_of_kenv e_go) f.(3)))
    end else if tight_spec kO pts e_go <> tight_spec kO cm e_m then
      fail id "CORR" "tight_outside_hypothesis" (trunc f.(3))
  end;
  (* representation changes *)
  List.iter (fun v ->
      match String.index_opt v '=' with
      | None -> raise (Bad ("variant syntax: " ^ v))
      | Some i ->
        let name = String.sub v 0 i and es = String.sub v (i + 1) (String.length v - i - 1) in
        if es = "PANIC" then fail id "SPEC" ("panic_" ^ name) (trunc f.(3))
        else begin
          let go = kenv_of_str es in
          let model =
            match name with
            | "rev" -> env_of kO (reverse_geom gk)
            | "f2d" | "fc0" -> env_of kO (force_geom kzero XY gk)
            | "fc1" -> env_of kO (force_geom kzero XYZ gk)
            | "fc2" -> env_of kO (force_geom kzero XYM gk)
            | "fc3" -> env_of kO (force_geom kzero XYZM gk)
            | "fcw" -> env_of kO (orient_geom (fun _ _ -> false) gk)
            | "fccw" -> env_of kO (orient_geom (fun ext _ -> ext) gk)
            | "ag" -> env_of kO (as_geometry kO e_m)
            | "bd" -> env_of kO (bounding_diagonal kO e_m)
            | _ -> e_m (* perm, rot, mj: equal to the envelope itself by the theorems *) in
          if not (kenv_same model go) then
            fail id "CORR" ("variant_" ^ name) (trunc (Printf.sprintf "model=%s impl=%s geom=%s" (str_of_kenv model) (str_of_kenv go) f.(3)));
          if not has_nan && not (kenv_same go e_go) then
            fail id "SPEC" ("invariant_" ^ name) (trunc (Printf.sprintf "envelope=%s after %s=%s geom=%s" (str_of_kenv e_go) name (str_of_kenv go) f.(3)));
          count ("variant_" ^ name)
        end) (split_on '|' f.(6));
  let flags = f.(7) in
  if flags.[0] = '1' then count "valid_geometry";
  if b01 (env_valid kO e_m) <> String.make 1 flags.[1] then fail id "CORR" "env_validate" (trunc f.(3));
  (match gb with
   | GLine (MkLine (_, vs)) when List.length vs >= 16 -> count (Printf.sprintf "long_line_len_mod8_%d" (List.length vs mod 8))
   | GPoly (MkPoly (_, MkLine (_, vs) :: _)) when List.length vs >= 16 -> count (Printf.sprintf "long_ring_len_mod8_%d" (List.length vs mod 8))
   | _ -> ());
  if (cls = "lattice" || cls = "float") && List.length pts > 3 then
    sample "G" (Printf.sprintf "class=%s Envelope=%s of %s" cls (str_of_kenv e_go) f.(3))

(* ---- U: unary methods of one lattice envelope ---- *)
let two = XO XH

let do_unary id (f : string array) =
  let l = int_of_string f.(2) in
  let e = zenv_of_str f.(3) in
  note_case ("U" ^ f.(3)) (e <> None);
  let flags = f.(4) in
  let mflags = b01 (env_is_empty e) ^ b01 (env_is_point zO e) ^ b01 (env_is_line zO e) ^ b01 (env_is_rectangle zO e) ^ b01 (env_valid zO e) in
  if mflags <> flags then fail id "CORR" "classification" (Printf.sprintf "model=%s impl=%s env=%s" mflags flags (str_of_zenv e));
  let ones = ref 0 in
  String.iteri (fun i c -> if i < 4 && c = '1' then incr ones) flags;
  if !ones <> 1 then fail id "SPEC" "classification_exclusive_exhaustive" (Printf.sprintf "flags=%s env=%s" flags (str_of_zenv e));
  let num name bits expect =
    match int_of_hex bits with
    | Some v when v = expect -> ()
    | _ -> fail id "CORR" name (Printf.sprintf "impl=%s model=%d env=%s" bits (int_of_z expect) (str_of_zenv e)) in
  num "width" f.(5) (width e);
  num "height" f.(6) (height e);
  num "area" f.(7) (area e);
  (* SPEC: area = width * height, on the implementation's numbers *)
  (match int_of_hex f.(5), int_of_hex f.(6), int_of_hex f.(7) with
   | Some w, Some h, Some a -> if Z.mul w h <> a then fail id "SPEC" "area_is_w_times_h" (str_of_zenv e)
   | _ -> fail id "SPEC" "area_is_w_times_h" "non-integer");
  (* centre: the model's (min+max)/2 over Q; Go's float is read as twice its value (exact for halves) *)
  (match center e, f.(8) with
   | None, "E" -> ()
   | Some (cx, cy), s when s <> "E" ->
     (match split_on ',' s with
      | [hx; hy] ->
        let ok q h = q.qden = two && scaled_int_of_bits (Zpos XH) (n_of_hex h) = Some q.qnum in
        if not (ok cx hx && ok cy hy) then fail id "CORR" "center" (Printf.sprintf "impl=%s env=%s" s (str_of_zenv e));
        (* SPEC: the centre is inside the envelope and equidistant from both sides: 2c = min + max *)
        (match e with
         | Some b ->
           let twice h = scaled_int_of_bits (Zpos XH) (n_of_hex h) in
           if twice hx <> Some (Z.add b.minx b.maxx) || twice hy <> Some (Z.add b.miny b.maxy) then
             fail id "SPEC" "center_is_midpoint" (Printf.sprintf "impl=%s env=%s" s (str_of_zenv e))
         | None -> ())
      | _ -> raise (Bad "center syntax"))
   | _ -> fail id "CORR" "center" (Printf.sprintf "impl=%s env=%s" f.(8) (str_of_zenv e)));
  let zgeom s = map_geom int_or_zero (parse_dump s) in
  if zgeom f.(9) <> GPoint (env_min zO e) then fail id "CORR" "min" f.(9);
  if zgeom f.(10) <> GPoint (env_max zO e) then fail id "CORR" "max" f.(10);
  (match split_on ',' f.(11) with
   | [a; b; c; d; ok] ->
     let zb h = z_of_hex h in
     if (((zb a, zb b), (zb c, zb d)), ok = "1") <> min_max_xys zO e then fail id "CORR" "min_max_xys" f.(11)
   | _ -> raise (Bad "mm syntax"));
  (match split_on ',' f.(12) with
   | [a; b; c; d; ok] ->
     let zb h = z_of_hex h in
     if ((((zb a, zb b), zb c), zb d), ok = "1") <> as_box zO e then fail id "CORR" "as_box" f.(12)
   | _ -> raise (Bad "box syntax"));
  (* AsGeometry: the property fixes the type (by classification) and the point set, not the ring's
     start vertex or direction: compared as (type, sorted distinct control points, closedness) *)
  let ag = zgeom f.(13) in
  let shape g =
    let tag = (match g with GPoint _ -> "P" | GLine _ -> "L" | GPoly (MkPoly (_, [_])) -> "Y1" | GPoly _ -> "Y"
                          | GColl (_, []) -> "E" | _ -> "other") in
    let vs = List.map (fun v -> (int_of_z v.vx, int_of_z v.vy)) (geom_vs g) in
    let closed = (match vs with [] -> true | h :: _ -> List.nth vs (List.length vs - 1) = h) in
    (tag, List.sort_uniq compare vs, (match g with GPoly _ -> closed && List.length vs = 5 | _ -> true)) in
  if shape ag <> shape (as_geometry zO e) then fail id "CORR" "as_geometry" f.(13);
  (match as_geometry zO e, ag with
   | GPoly _, GPoly _ | GLine _, GLine _ | GPoint _, GPoint _ | GColl _, GColl _ -> ()
   | _ -> fail id "SPEC" "as_geometry_type_follows_classification" f.(13));
  if env_of zO ag <> e then fail id "SPEC" "as_geometry_envelope" (Printf.sprintf "env=%s AsGeometry=%s" (str_of_zenv e) f.(13));
  let bd = zgeom f.(14) in
  if bd <> bounding_diagonal zO e then fail id "CORR" "bounding_diagonal" f.(14);
  if env_of zO bd <> e then fail id "SPEC" "bounding_diagonal_envelope" (Printf.sprintf "env=%s diag=%s" (str_of_zenv e) f.(14));
  List.iteri (fun k s ->
      let go = zenv_of_str s in
      let m = transform_xy zO (zfn (nat_of_int k)) e in
      if go <> m then fail id "CORR" "transform_xy" (Printf.sprintf "fn#%d model=%s impl=%s env=%s" k (str_of_zenv m) (str_of_zenv go) (str_of_zenv e));
      (* SPEC: the result holds the images of both corners *)
      (match e with
       | Some b ->
         let u = zfn (nat_of_int k) (b.minx, b.miny) and v = zfn (nat_of_int k) (b.maxx, b.maxy) in
         if not (tight_spec zO [u; v] go) then fail id "SPEC" "transform_xy_tight" (Printf.sprintf "fn#%d env=%s impl=%s" k (str_of_zenv e) (str_of_zenv go))
       | None -> if go <> None then fail id "SPEC" "transform_xy_tight" "empty")) (split_on '|' f.(15));
  (* Contains over the grid -1..l+1: model, and the point-set definition (membership in the enumerated points) *)
  let bitsr = f.(16) and pos = ref 0 in
  let pts = env_points e in
  for y = -1 to l + 1 do
    for x = -1 to l + 1 do
      let p = (z_of_int x, z_of_int y) in
      let go = bitsr.[!pos] = '1' in
      incr pos;
      if contains zO e p <> go then fail id "CORR" "contains" (Printf.sprintf "env=%s p=(%d,%d) impl=%b" (str_of_zenv e) x y go);
      if List.mem p pts <> go then fail id "SPEC" "contains_pointset" (Printf.sprintf "env=%s p=(%d,%d) impl=%b" (str_of_zenv e) x y go)
    done
  done;
  count "unary";
  if e <> None then sample "U" (f.(3) ^ " flags=" ^ flags ^ " center=" ^ f.(8))

(* ---- P: ordered pairs ---- *)
let sqrt_tbl : (int * string, bool) Hashtbl.t = Hashtbl.create 256
let sqrt_ok (n : z) (dbits : string) : bool =
  let k = (int_of_z n, dbits) in
  match Hashtbl.find_opt sqrt_tbl k with
  | Some v -> v
  | None -> let v = sqrt_within_ulps (Zpos (XO XH)) n (n_of_hex dbits) in
    if v && not (sqrt_within_ulp n (n_of_hex dbits)) then count "distance_between_1_and_2_ulps"; Hashtbl.replace sqrt_tbl k v; v

let dist_check id kind name d2 ok dbits a b =
  match d2 with
  | None -> if ok then fail id kind name (Printf.sprintf "defined for an empty operand: %s %s" (str_of_zenv a) (str_of_zenv b))
  | Some n ->
    if not ok then fail id kind name (Printf.sprintf "undefined for %s %s" (str_of_zenv a) (str_of_zenv b))
    else if not (sqrt_ok n dbits) then
      fail id kind name (Printf.sprintf "d^2=%d impl d bits=%s a=%s b=%s" (int_of_z n) dbits (str_of_zenv a) (str_of_zenv b))

let do_pair id (f : string array) =
  let a = zenv_of_str f.(2) and b = zenv_of_str f.(3) in
  let fl = f.(4) in
  let inter = fl.[0] = '1' and cov = fl.[1] = '1' and dok = fl.[2] = '1' in
  note_case (f.(2) ^ f.(3)) (a <> None && b <> None);
  if intersects zO a b <> inter then fail id "CORR" "intersects" (Printf.sprintf "a=%s b=%s impl=%b" (str_of_zenv a) (str_of_zenv b) inter);
  if intersects_spec a b <> inter then fail id "SPEC" "intersects_common_point" (Printf.sprintf "a=%s b=%s impl=%b" (str_of_zenv a) (str_of_zenv b) inter);
  if covers zO a b <> cov then fail id "CORR" "covers" (Printf.sprintf "a=%s b=%s impl=%b" (str_of_zenv a) (str_of_zenv b) cov);
  if covers_spec a b <> cov then fail id "SPEC" "covers_subset" (Printf.sprintf "a=%s b=%s impl=%b" (str_of_zenv a) (str_of_zenv b) cov);
  dist_check id "CORR" "distance" (dist2 a b) dok f.(5) a b;
  dist_check id "SPEC" "distance_min_over_points" (dist2_spec a b) dok f.(5) a b;
  let j = zenv_of_str f.(6) in
  if join zO a b <> j then fail id "CORR" "join" (Printf.sprintf "a=%s b=%s impl=%s" (str_of_zenv a) (str_of_zenv b) (str_of_zenv j));
  if not (tight_spec zO (env_points a @ env_points b) j) then
    fail id "SPEC" "join_smallest_cover" (Printf.sprintf "a=%s b=%s impl=%s" (str_of_zenv a) (str_of_zenv b) (str_of_zenv j));
  if inter && not cov && a <> None && j <> a && j <> b then
    sample "P" (Printf.sprintf "a=%s b=%s intersects=%b covers=%b distance_bits=%s join=%s" (str_of_zenv a) (str_of_zenv b) inter cov f.(5) (str_of_zenv j));
  if inter then count "pair_intersecting";
  if cov then count "pair_covering";
  count "pairs"

(* ---- T: triples ---- *)
let do_triple id (f : string array) =
  let a = zenv_of_str f.(2) and b = zenv_of_str f.(3) and c = zenv_of_str f.(4) in
  let l = zenv_of_str f.(5) and r = zenv_of_str f.(6) in
  if l <> r then fail id "SPEC" "join_associative" (Printf.sprintf "a=%s b=%s c=%s (ab)c=%s a(bc)=%s" (str_of_zenv a) (str_of_zenv b) (str_of_zenv c) (str_of_zenv l) (str_of_zenv r));
  if join zO (join zO a b) c <> l then fail id "CORR" "join3" (Printf.sprintf "a=%s b=%s c=%s impl=%s" (str_of_zenv a) (str_of_zenv b) (str_of_zenv c) (str_of_zenv l));
  count "triples"

(* ---- N: NewEnvelope ---- *)
let do_new id (f : string array) =
  let pts = xy_list z_of_hex f.(2) in
  let e1 = zenv_of_str f.(3) and e2 = zenv_of_str f.(4) in
  note_case ("N" ^ f.(2)) (pts <> []);
  let m = new_envelope zO pts in
  if m <> e1 then fail id "CORR" "new_envelope" (Printf.sprintf "model=%s impl=%s pts=%s" (str_of_zenv m) (str_of_zenv e1) f.(2));
  if e1 <> e2 then fail id "SPEC" "new_envelope_is_fold_of_expand" f.(2);
  if not (tight_spec zO pts e1) then fail id "SPEC" "new_envelope_tight" (Printf.sprintf "impl=%s pts=%s" (str_of_zenv e1) f.(2));
  if List.length pts > 2 then sample "N" (Printf.sprintf "NewEnvelope(%d points) = %s" (List.length pts) (str_of_zenv e1));
  count "new_envelope"

(* ---- C: Contains / Validate on float64 ---- *)
let do_contains_float id (f : string array) =
  let pts = xy_list key_of_hex f.(2) in
  let e_go = kenv_of_str f.(3) in
  let q = match xy_list key_of_hex f.(4) with [q] -> q | _ -> raise (Bad "C point") in
  let fl = f.(5) in
  let m = new_envelope kO pts in
  note_case ("C" ^ f.(2) ^ f.(4)) (pts <> []);
  if not (kenv_same m e_go) then fail id "CORR" "expand_float" (Printf.sprintf "model=%s impl=%s pts=%s" (str_of_kenv m) (str_of_kenv e_go) f.(2));
  let c = contains kO m q in
  if b01 c <> String.make 1 fl.[0] then fail id "CORR" "contains_float" (Printf.sprintf "env=%s p=%s impl=%c" (str_of_kenv m) f.(4) fl.[0]);
  if b01 (env_valid kO m) <> String.make 1 fl.[1] then fail id "CORR" "validate_float" (Printf.sprintf "env=%s impl=%c" (str_of_kenv m) fl.[1]);
  let nonfinite k = k_nan k || k_inf k in
  if (nonfinite (fst q) || nonfinite (snd q)) && fl.[0] = '1' then
    fail id "SPEC" "contains_nonfinite_point" (Printf.sprintf "env=%s p=%s" (str_of_kenv e_go) f.(4));
  let has_nan = List.exists (fun (x, y) -> key_is_nan x || key_is_nan y) pts in
  if not has_nan && not (tight_spec kO pts e_go) then
    fail id "SPEC" "expand_float_tight" (Printf.sprintf "impl=%s pts=%s" (str_of_kenv e_go) f.(2));
  if has_nan then sample "C" (Printf.sprintf "env=%s (from %s) Contains(%s)=%c Validate_ok=%c" (str_of_kenv e_go) f.(2) f.(4) fl.[0] fl.[1]);
  if has_nan then count "contains_env_with_nan";
  if fl.[0] = '1' then count "contains_true";
  count "contains_float"

(* ---- K: the key is order-isomorphic to float64 ---- *)
let do_key id (f : string array) =
  let a = key_of_hex f.(2) and b = key_of_hex f.(3) in
  let m = b01 (k_lt a b) ^ b01 (k_le a b) ^ b01 (k_eq a b) ^ b01 (k_nan a) ^ b01 (k_inf a) in
  if m <> f.(4) then fail id "CORR" "float_key_order" (Printf.sprintf "a=%s b=%s model=%s impl=%s" f.(2) f.(3) m f.(4));
  count "float_keys"

(* ---- Y: Union / UnionMany: the envelope of the result is the join of the operands' envelopes ---- *)
let do_union id (f : string array) =
  count ("union_op_" ^ f.(2));
  match f.(5) with
  | "ERR" -> count "union_error"
  | "PANIC" -> count "union_panic"
  | "INVALID" -> count "union_invalid_input"
  | s ->
    let envs = if f.(4) = "-" then [] else List.map zenv_of_str (split_on '|' f.(4)) in
    let u = zenv_of_str s in
    let j = List.fold_left (fun acc e -> join zO acc e) None envs in
    note_case ("Y" ^ f.(3)) (List.exists (fun e -> e <> None) envs);
    if u <> j then
      fail id "SPEC" "union_envelope_is_join" (trunc (Printf.sprintf "%s(%s): operand envelopes %s, join=%s, envelope of the result=%s"
                                                       f.(2) f.(3) (String.concat " " (List.map str_of_zenv envs)) (str_of_zenv j) (str_of_zenv u)));
    (match j with
     | Some b when int_of_z b.minx > 0 || int_of_z b.maxx < 0 || int_of_z b.miny > 0 || int_of_z b.maxy < 0 -> count "union_origin_outside_join"
     | _ -> ());
    count "union_checked"

(* ---- F: every envelope method on float64 boxes of all magnitudes ----
   judged by the float-key instance (comparisons only) and by exact dyadic arithmetic *)
let do_float_box id (f : string array) =
  let ka = kenv_of_str f.(2) and kb = kenv_of_str f.(3) in
  let na = env_of_str n_of_hex f.(2) and nb = env_of_str n_of_hex f.(3) in
  note_case ("F" ^ f.(2) ^ f.(3)) (ka <> None);
  let sa = str_of_kenv ka and sb = str_of_kenv kb in
  (* classification: model, and the statement itself - it follows the comparisons min = max *)
  let flags = f.(4) in
  let mflags = b01 (env_is_empty ka) ^ b01 (env_is_point kO ka) ^ b01 (env_is_line kO ka) ^ b01 (env_is_rectangle kO ka) ^ b01 (env_valid kO ka) in
  if mflags <> flags then fail id "CORR" "classification_float" (Printf.sprintf "model=%s impl=%s env=%s" mflags flags sa);
  let want = (match ka with
      | None -> "1000"
      | Some b ->
        let ex = k_eq b.minx b.maxx and ey = k_eq b.miny b.maxy in
        if ex && ey then "0100" else if ex || ey then "0010" else "0001") in
  if String.sub flags 0 4 <> want then
    fail id "SPEC" "classification_follows_comparisons" (Printf.sprintf "env=%s flags(empty,point,line,rect)=%s expected=%s" sa (String.sub flags 0 4) want);
  count ("float_box_class_" ^ want);
  (* AsGeometry / BoundingDiagonal *)
  let kgeom s = map_geom key_of_bits (parse_dump s) in
  let shape g =
    let tag = (match g with GPoint _ -> "P" | GLine _ -> "L" | GPoly _ -> "Y" | GColl (_, []) -> "E" | _ -> "other") in
    (tag, List.sort_uniq compare (List.map (fun v -> (v.vx, v.vy)) (geom_vs g))) in
  let ag = kgeom f.(9) in
  if shape ag <> shape (as_geometry kO ka) then fail id "CORR" "as_geometry_float" (Printf.sprintf "env=%s impl=%s" sa f.(9));
  let tag_want = (match want with "1000" -> "E" | "0100" -> "P" | "0010" -> "L" | _ -> "Y") in
  if fst (shape ag) <> tag_want then
    fail id "SPEC" "as_geometry_type_follows_classification" (Printf.sprintf "env=%s expected type %s, AsGeometry=%s" sa tag_want (trunc f.(9)));
  if not (kenv_same (env_of kO ag) ka) then fail id "SPEC" "as_geometry_envelope_float" (Printf.sprintf "env=%s AsGeometry=%s" sa (trunc f.(9)));
  let bd = kgeom f.(10) in
  if bd <> bounding_diagonal kO ka then fail id "CORR" "bounding_diagonal_float" (Printf.sprintf "env=%s impl=%s" sa f.(10));
  if not (kenv_same (env_of kO bd) ka) then fail id "SPEC" "bounding_diagonal_envelope_float" (Printf.sprintf "env=%s diag=%s" sa f.(10));
  (* Width / Height / Area / Center against exact arithmetic *)
  let wb = n_of_hex f.(5) and hb = n_of_hex f.(6) and ab = n_of_hex f.(7) in
  (match na with
   | None ->
     if f.(5) <> "0000000000000000" || f.(6) <> "0000000000000000" || f.(7) <> "0000000000000000" || f.(8) <> "E" then
       fail id "SPEC" "empty_measures_float" (Printf.sprintf "w=%s h=%s area=%s center=%s" f.(5) f.(6) f.(7) f.(8))
   | Some nbx ->
     (match box_dy nbx with
      | None -> count "float_box_not_finite"
      | Some d ->
        if not (width_close d wb) then fail id "SPEC" "width_float" (Printf.sprintf "env=%s width bits=%s" sa f.(5));
        if not (height_close d hb) then fail id "SPEC" "height_float" (Printf.sprintf "env=%s height bits=%s" sa f.(6));
        if not (area_close d ab) then fail id "SPEC" "area_float" (Printf.sprintf "env=%s area bits=%s" sa f.(7));
        (match split_on ',' f.(8) with
         | [hx; hy] ->
           let okx = mid_close d.minx d.maxx (n_of_hex hx) and oky = mid_close d.miny d.maxy (n_of_hex hy) in
           if not (okx && oky) then begin
             let extreme = (not okx && mid_sum_overflows d.minx d.maxx) || (not oky && mid_sum_overflows d.miny d.maxy) in
             fail id "SPEC" (if extreme then "center_float_extreme" else "center_float")
               (Printf.sprintf "%senv=%s center=[%s %s]"
                  (if extreme then "F41-class: min+max overflows float64 although the midpoint is representable: " else "")
                  sa (str_of_key (key_of_hex hx)) (str_of_key (key_of_hex hy)))
           end else if not (contains kO ka (key_of_hex hx, key_of_hex hy)) then
             fail id "SPEC" "center_inside_float" (Printf.sprintf "env=%s center=%s" sa f.(8))
         | _ -> fail id "SPEC" "center_float" ("empty point for a non-empty envelope " ^ sa))));
  (* binary methods *)
  let pf = f.(11) in
  let inter = pf.[0] = '1' and cov = pf.[1] = '1' and dok = pf.[2] = '1' in
  if intersects kO ka kb <> inter then fail id "CORR" "intersects_float" (Printf.sprintf "a=%s b=%s impl=%b" sa sb inter);
  if covers kO ka kb <> cov then fail id "CORR" "covers_float" (Printf.sprintf "a=%s b=%s impl=%b" sa sb cov);
  (match ka, kb with
   | Some a, Some b ->
     (* common point: the larger of the two lower corners, when it lies in both *)
     let w = (fast_max kO a.minx b.minx, fast_max kO a.miny b.miny) in
     if (contains kO ka w && contains kO kb w) <> inter then
       fail id "SPEC" "intersects_common_point_float" (Printf.sprintf "a=%s b=%s impl=%b" sa sb inter);
     let c2 = contains kO ka (b.minx, b.miny) && contains kO ka (b.maxx, b.maxy) in
     if c2 <> cov then fail id "SPEC" "covers_subset_float" (Printf.sprintf "a=%s b=%s impl=%b" sa sb cov);
     if f.(14) <> b01 (contains kO ka (b.minx, b.miny)) ^ b01 (contains kO ka (b.maxx, b.maxy)) then
       fail id "CORR" "contains_float_box" (Printf.sprintf "a=%s b=%s impl=%s" sa sb f.(14))
   | _ -> if inter || cov then fail id "SPEC" "empty_absorbing_float" (Printf.sprintf "a=%s b=%s flags=%s" sa sb pf));
  let j = kenv_of_str f.(13) in
  if not (kenv_same (join kO ka kb) j) then fail id "CORR" "join_float" (Printf.sprintf "a=%s b=%s impl=%s" sa sb (str_of_kenv j));
  let corners = function None -> [] | Some b -> [(b.minx, b.miny); (b.maxx, b.maxy)] in
  if not (tight_spec kO (corners ka @ corners kb) j) then fail id "SPEC" "join_smallest_cover_float" (Printf.sprintf "a=%s b=%s impl=%s" sa sb (str_of_kenv j));
  (* Distance against the exact squared distance *)
  (match na, nb with
   | Some x, Some y ->
     if not dok then fail id "SPEC" "distance_float" (Printf.sprintf "undefined for a=%s b=%s" sa sb)
     else (match box_dy x, box_dy y with
         | Some dx, Some dyb ->
           let s2 = dist_sq_exact dx dyb in
           if not (sqrt_close (Zpos (XO (XO XH))) s2 (n_of_hex f.(12))) then begin
             let extreme = dist_squares_out_of_range dx dyb in
             fail id "SPEC" (if extreme then "distance_float_extreme" else "distance_float")
               (Printf.sprintf "%sa=%s b=%s distance=%s intersects=%b"
                  (if extreme then "F40-class: dx*dx+dy*dy leaves the float64 range although the distance is representable: " else "")
                  sa sb (str_of_key (key_of_hex f.(12))) inter)
           end;
           if dist_squares_out_of_range dx dyb then count "float_dist_squares_out_of_range"
         | _ -> ())
   | _ -> if dok then fail id "SPEC" "distance_float" (Printf.sprintf "defined for an empty operand a=%s b=%s" sa sb));
  count "float_boxes";
  if want = "0001" then sample "F" (Printf.sprintf "a=%s b=%s flags=%s intersects=%b covers=%b distance=%s" sa sb flags inter cov (str_of_key (key_of_hex f.(12))))

let () =
  let path = Sys.argv.(1) in
  iter_lines path (fun line ->
      let f = split_tabs line in
      let id = f.(0) in
      incr cases;
      try
        match f.(1) with
        | "G" -> do_geometry id f
        | "U" -> do_unary id f
        | "P" -> do_pair id f
        | "T" -> do_triple id f
        | "N" -> do_new id f
        | "C" -> do_contains_float id f
        | "K" -> do_key id f
        | "Y" -> do_union id f
        | "F" -> do_float_box id f
        | k -> fail id "CORR" "unknown_line_kind" k
      with
      | Bad m -> fail id "CORR" "unreadable_observation" m
      | Parse_error m -> fail id "CORR" "unreadable_dump" m);
  finish ()
