(* C13 correspondence driver: extracted hull / calipers model against the implementation's
   observations (harness/cmd/c13), and the executable statement of the property evaluated on the
   implementation's own output. *)
open Model
open Sfio
open Zio

let q_of_ints a b : q = { qnum = z_of_int a; qden = pos_of_int b }
let rel_tol : q = q_of_ints 1 1_000_000_000

let magnitude (pts : pt list) : int =
  List.fold_left (fun m (x, y) -> max m (max (abs (int_of_z x)) (abs (int_of_z y)))) 1 pts

let opt_dump = function Some g -> zdump g | None -> "PANIC"

(* the set of points the hull reads, canonically *)
let rec dedup = function
  | a :: (b :: _ as t) -> if pt_eqb a b then dedup t else a :: dedup t
  | l -> l
let key_of (pts : pt list) : string =
  String.concat ";" (List.map (fun (x, y) -> Printf.sprintf "%d,%d" (int_of_z x) (int_of_z y)) (dedup (sort pts)))
let point_key (g : z geomT) : string = key_of (point_set g)
(* all control points (holes included) *)
let control_key (g : z geomT) : string = key_of (List.map xy_of (geom_vs g))

let parse_rect (s : string) : float list =
  match String.split_on_char ' ' s with
  | "R" :: hs when List.length hs = 10 -> List.map float_of_bits_hex hs
  | _ -> failwith "not a rectangle"

let rec pairs = function a :: b :: r -> (a, b) :: pairs r | _ -> []

let no_result (s : string) = s = "PANIC" || (String.length s >= 4 && String.sub s 0 4 = "HANG")

(* " [input multiplied by 2^k ...]" for the cases the implementation saw at another scale *)
let scale_note = ref ""

let check_rect id kind kname (g : z geomT) (obs : string) =
  let fail id k n d = fail id k n (d ^ !scale_note) in
  let pts = point_set g in
  if no_result obs then fail id "SPEC" ("mbr_" ^ kname ^ "_total") ("RotatedMinimum...BoundingRectangle: " ^ obs)
  else if is_empty g then begin
    (* the hull (the input forced to 2D) is returned *)
    let want = "G " ^ opt_dump (convex_hull g) in
    if obs <> want then fail id "CORR" ("mbr_" ^ kname ^ "_empty") (trunc ("model=" ^ want ^ " impl=" ^ obs))
  end else
    match mbr_pts kind pts with
    | MPanic -> fail id "CORR" ("mbr_" ^ kname) "model panics"
    | MHull r ->
      count ("mbr_" ^ kname ^ "_degenerate");
      let want = "G " ^ opt_dump (result_geom r) in
      if obs <> want then fail id "CORR" ("mbr_" ^ kname ^ "_degenerate") (trunc ("model=" ^ want ^ " impl=" ^ obs))
    | MRect best ->
      count ("mbr_" ^ kname ^ "_rect");
      let ring = match hull_pts pts with HPoly r -> r | _ -> [] in
      (* the transcribed caliper walk must reach the extremes of the reference candidates *)
      (if kind = MArea then
         let key c = (int_of_z (fst c.c_a), int_of_z (snd c.c_a), int_of_z (fst c.c_d), int_of_z (snd c.c_d),
                      int_of_z c.c_tmin, int_of_z c.c_tmax, int_of_z c.c_hmax) in
         match walk_candidates ring with
         | None -> fail id "CORR" "caliper_walk" "the transcribed walk does not terminate / indexes out of range"
         | Some cs ->
           if List.map key cs <> List.map key (candidates ring) then
             fail id "CORR" "caliper_walk" "the transcribed caliper walk and the reference extremes differ"
           else count "caliper_walk_agrees");
      (match (try Some (parse_rect obs) with _ -> None) with
       | None ->
         fail id "CORR" ("mbr_" ^ kname) (trunc ("model has a rectangle, impl=" ^ obs));
         fail id "SPEC" ("mbr_" ^ kname ^ "_is_rectangle") (trunc obs)
       | Some fl ->
         let mag = magnitude pts in
         let epsf = 1e-9 *. float_of_int mag in
         let eps = q_of_ints mag 1_000_000_000 in
         let bestm = cand_metric kind best in
         let bestf = float_of_q bestm in
         (* CORR: some candidate whose metric ties with the minimum (to 1e-9 relative) has the
            implementation's corners, corner by corner *)
         let cands = candidates ring in
         let ties = List.filter (fun c -> float_of_q (cand_metric kind c) <= bestf *. (1.0 +. 1e-9) +. 1e-300) cands in
         if List.length ties > 1 then count ("mbr_" ^ kname ^ "_ties");
         let close c =
           let cs = List.concat_map (fun (x, y) -> [float_of_q x; float_of_q y]) (rect_corners (cand_rect c)) in
           List.for_all2 (fun a b -> Float.abs (a -. b) <= epsf) cs fl in
         if not (List.exists close ties) then
           fail id "CORR" ("mbr_" ^ kname ^ "_corners")
             (trunc (Printf.sprintf "no optimal candidate (of %d, %d tied) matches impl corners %s"
                       (List.length cands) (List.length ties)
                       (String.concat " " (List.map (Printf.sprintf "%.17g") fl))));
         (* SPEC on the implementation's rectangle, exact arithmetic on the doubles it returned *)
         let corners = List.map (fun (x, y) -> (q_of_float x, q_of_float y)) (pairs fl) in
         if not (rect_out_ok kind eps rel_tol corners ring bestm) then
           fail id "SPEC" ("mbr_" ^ kname)
             (trunc (Printf.sprintf "min=%.17g corners %s" bestf
                       (String.concat " " (List.map (Printf.sprintf "%.17g") fl)))))

(* ---- class "float": general-position doubles, covering claims within tolerance ---- *)
let floats_of_dump (s : string) : float list =
  List.filter_map (fun t -> if String.length t = 16 then Some (float_of_bits_hex t) else None) (tokens s)
let qpts_of_floats fl = List.map (fun (x, y) -> (q_of_float x, q_of_float y)) (pairs fl)
let has_prefix p s = String.length s >= String.length p && String.sub s 0 (String.length p) = p

let check_float id (f : string array) =
  let infl = floats_of_dump f.(2) in
  note_case f.(2) true;
  let mag = List.fold_left (fun m x -> Float.max m (Float.abs x)) 1e-300 infl in
  (* eps = 1e-9 * magnitude, as an exact rational *)
  let eps = qred (qmult (q_of_float mag) { qnum = z_of_int 1; qden = pos_of_int 1_000_000_000 }) in
  if no_result f.(3) then fail id "SPEC" "hull_total" ("ConvexHull: " ^ f.(3))
  else if not (has_prefix "Y 0 1 L 0 " f.(3)) then count "float_degenerate"
  else begin
    count "float_polygon";
    let pts = qpts_of_floats infl in
    let ring = qpts_of_floats (floats_of_dump f.(3)) in
    if not (float_hull_ok eps pts ring) then fail id "SPEC" "float_hull_covers" (trunc ("hull=" ^ f.(3)));
    if f.(5) <> f.(3) then fail id "SPEC" "hull_perm_invariant" (trunc ("hull=" ^ f.(3) ^ " hull(variant)=" ^ f.(5)));
    if f.(6) <> f.(3) then fail id "SPEC" "hull_idempotent" (trunc ("hull=" ^ f.(3) ^ " hull(hull)=" ^ f.(6)));
    if f.(9) <> "1" then fail id "SPEC" "hull_valid" (trunc ("Validate() rejects " ^ f.(3)));
    List.iter (fun (kname, obs) ->
        if no_result obs then fail id "SPEC" ("mbr_" ^ kname ^ "_total") obs
        else match (try Some (parse_rect obs) with _ -> None) with
          | None -> fail id "SPEC" ("mbr_" ^ kname ^ "_is_rectangle") (trunc obs)
          | Some fl ->
            if not (float_rect_ok eps rel_tol (qpts_of_floats fl) ring) then
              fail id "SPEC" ("float_mbr_" ^ kname) (trunc obs))
      [("area", f.(7)); ("width", f.(8))]
  end

let () =
  let path = Sys.argv.(1) in
  let samples = ref 0 in
  iter_lines path (fun line ->
      let f = split_tabs line in
      let id = f.(0) and cls = f.(1) in
      incr cases;
      count ("class_" ^ cls);
      try
        if cls = "float" then check_float id f else
        let g0 = parse_zdump f.(2) in
        scale_note := (if Array.length f > 10 && f.(10) <> "0"
                       then " [the implementation was given the input multiplied by 2^" ^ f.(10) ^ "; its outputs are shown divided by 2^" ^ f.(10) ^ "]"
                       else "");
        let fail id k n d = fail id k n (d ^ !scale_note) in
        let empty = is_empty g0 in
        (* A polygon whose holes have points outside its shell is ill-formed; the implementation
           reads exterior rings only (so does the model), the property text says "control points".
           For such inputs both readings are accepted, consistently for the whole case. *)
        let as_multipoint (g : z geomT) : z geomT =
          GMPoint (XY, List.map (fun v -> let (x, y) = xy_of v in MkPoint (XY, Some { vx = x; vy = y; vz = Z0; vm = Z0 })) (geom_vs g)) in
        let ambiguous = (not empty) && control_key g0 <> point_key g0 in
        let all_reading = ambiguous && opt_dump (convex_hull g0) <> f.(3)
                          && opt_dump (convex_hull (as_multipoint g0)) = f.(3) in
        if all_reading then count "holes_outside_shell_included";
        let g = if all_reading then as_multipoint g0 else g0 in
        note_case f.(2) (not empty);
        let pts = point_set g in
        (* the hull reads exterior rings only: say how often that differs from "all control points" *)
        if not empty then
          count (if not ambiguous then "hull_pts_are_all_control_pts" else "holes_outside_shell");
        (* class rescaled: say, from the exact model, how often the first edge of the ring (i = 0 in
           findMBR, the rectangle a metric that no longer orders the candidates leaves in place) is
           NOT an optimal base edge, and how often no edge is optimal for both metrics *)
        (if cls = "rescaled" then
           match hull_pts pts with
           | HPoly ring ->
             (match candidates ring with
              | c0 :: _ as cs ->
                let opt kind =
                  let m = List.fold_left (fun b c -> let x = cand_metric kind c in if qle_bool b x then b else x)
                            (cand_metric kind c0) cs in
                  (m, List.map (fun c -> qle_bool (cand_metric kind c) m) cs) in
                let (ma, oa) = opt MArea and (mw, ow) = opt MWidth in
                if not (qle_bool (cand_metric MArea c0) ma) then count "rescaled_first_edge_not_area_optimal";
                if not (qle_bool (cand_metric MWidth c0) mw) then count "rescaled_first_edge_not_width_optimal";
                if not (List.exists2 (fun a b -> a && b) oa ow) then count "rescaled_no_edge_optimal_for_both"
              | [] -> ())
           | _ -> count "rescaled_degenerate");
        (* which branch of the model *)
        (if empty then count "res_empty_input" else
           match hull_pts pts with
           | HNoPoints -> count "res_nopoints" | HPoint _ -> count "res_point"
           | HLine _ -> count "res_line" | HPoly _ -> count "res_polygon" | HPanic -> count "res_panic");
        let mh = convex_hull g in
        let mhd = opt_dump mh in
        (* CORR: hull, exactly *)
        if mhd <> f.(3) then fail id "CORR" "hull" (trunc ("model=" ^ mhd ^ " impl=" ^ f.(3)));
        (* SPEC: the property's statement on the implementation's hull *)
        if no_result f.(3) then fail id "SPEC" "hull_total" ("ConvexHull: " ^ f.(3))
        else begin
          (match (try Some (parse_zdump f.(3)) with _ -> None) with
           | None -> fail id "SPEC" "hull_on_lattice" (trunc ("not a lattice geometry: " ^ f.(3)))
           | Some out ->
             if not (hull_geom_ok g out) then fail id "SPEC" "hull_spec" (trunc ("in=" ^ f.(2) ^ " out=" ^ f.(3))));
          if not empty && f.(9) <> "1" then fail id "SPEC" "hull_valid" (trunc ("Validate() rejects " ^ f.(3)))
        end;
        (* variant: same point set, other order / multiplicity *)
        let v = parse_zdump f.(4) in
        let v = if all_reading then as_multipoint v else v in
        if point_key v <> point_key g || is_empty v <> empty then
          fail id "CORR" "variant_same_set" (trunc ("in=" ^ f.(2) ^ " variant=" ^ f.(4)));
        let mvd = opt_dump (convex_hull v) in
        if mvd <> f.(5) then fail id "CORR" "hull_variant" (trunc ("model=" ^ mvd ^ " impl=" ^ f.(5)));
        if not empty && f.(5) <> f.(3) then
          fail id "SPEC" "hull_perm_invariant" (trunc ("hull=" ^ f.(3) ^ " hull(variant)=" ^ f.(5) ^ " variant=" ^ f.(4)));
        (* idempotence *)
        if f.(6) <> f.(3) then fail id "SPEC" "hull_idempotent" (trunc ("hull=" ^ f.(3) ^ " hull(hull)=" ^ f.(6)));
        (match mh with
         | Some h -> let hh = opt_dump (convex_hull h) in
           if hh <> f.(6) then fail id "CORR" "hull_hull" (trunc ("model=" ^ hh ^ " impl=" ^ f.(6)))
         | None -> ());
        (* rotated rectangles *)
        check_rect id MArea "area" g f.(7);
        check_rect id MWidth "width" g f.(8);
        if !samples < 4 && not empty && String.length line < 500 then begin
          incr samples; Printf.printf "SAMPLE\t%s\n" line end
      with
      | Parse_error m -> fail id "CORR" "parse" (trunc m)
      | Failure m -> fail id "CORR" "driver" (trunc m));
  finish ()
